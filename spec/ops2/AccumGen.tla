------------------------------ MODULE AccumGen ------------------------------
(* Case generator for C07: seeded random walks of Accum (TLC -simulate);    *)
(* each complete behaviour is one history with its expected evaluations.    *)
EXTENDS Accum, Randomization
CONSTANTS MaxBatch
XV == {Null, I(-1), I(0), I(1), I(2)}
RowSet == XV \X XV
\* (RandomSubset is written out at every position: a nullary definition would be evaluated once and cached)
GenBatches(minlen) == {SubSeq(<<r1, r2, r3>>, 1, k) : r1 \in RandomSubset(1, RowSet), r2 \in RandomSubset(1, RowSet),
                                                  r3 \in RandomSubset(1, RowSet),
                                                  k \in RandomSubset(1, minlen..MaxBatch)}
GenGroupVecs(len, cur) ==
  RandomSubset(1, {v \in [1..len -> 0..(MaxG - 1)] : Covers(v, cur, TotalOf(v, cur))})
GenFilters(len) == RandomSubset(1, {<<>>} \cup RandomSubset(2, [1..len -> {0, 1, 2}]))
GenPick(T) == IF T = {} THEN {} ELSE RandomSubset(1, T)
GenPickK(T) == RandomSubset(3, T)
=============================================================================
