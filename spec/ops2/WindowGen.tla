----------------------------- MODULE WindowGen -----------------------------
(* Case generator for C09: a behaviour builds a table row by row (seeded     *)
(* random rows, TLC -simulate); every table reached is printed with the      *)
(* reference value of every window function for every row, for a seeded      *)
(* random choice of legal frames, under ORDER BY o (peers) and ORDER BY o,id *)
(* (total order), ascending and descending.                                  *)
EXTENDS Window, TLC, Json, Randomization
CONSTANTS MaxRows, NFrames, NVariants
VARIABLES tbl
\* p is also rendered as the pair (a, b) = (p div 2, p mod 2) for PARTITION BY a, b
PV == {Null, I(0), I(1), I(2)}
OV == {Null, I(0), I(1), I(2)}
XV == {Null, I(-1), I(0), I(1), I(2)}
Init == tbl = <<>>
Next == /\ Len(tbl) < MaxRows
        /\ \E p \in RandomSubset(1, PV), o \in RandomSubset(1, OV), x \in RandomSubset(1, XV) :
             tbl' = Append(tbl, [id |-> Len(tbl) + 1, p |-> p, o |-> o, x |-> x])
Spec == Init /\ [][Next]_tbl

Bounds == {Bnd("UP", 0), Bnd("C", 0), Bnd("UF", 0)} \cup {Bnd("P", n) : n \in {0, 1, 2, 5}} \cup {Bnd("F", n) : n \in {0, 1, 2, 5}}
AllFrames == {f \in {Frame(u, s, e) : u \in {"ROWS", "RANGE", "GROUPS"}, s \in Bounds, e \in Bounds} : LegalFrame(f)}
\* RANGE with offsets needs exactly one ORDER BY key
FramesFor(total) == IF total THEN {f \in AllFrames : f.units # "RANGE" \/ (f.s.k \in {"UP", "C"} /\ f.e.k \in {"C", "UF"})}
                    ELSE {f \in AllFrames : f.units # "ROWS"}

\* under ORDER BY o alone the order among peers is open: only frames made of whole peer groups, and only
\* the functions that do not look at the order inside the frame
PeerFns(r) == [sum |-> r.sum, count |-> r.count, count_star |-> r.count_star, avg |-> r.avg, min |-> r.min, max |-> r.max]
Variant(total, desc, nf) ==
  [total |-> total, desc |-> desc, nf |-> nf,
   pos |-> OverTable(tbl, desc, nf, LAMBDA s, i : PosFns(s, i, total)),
   tot |-> IF total THEN OverTable(tbl, desc, nf, LAMBDA s, i : TotalFns(s, i)) ELSE <<>>,
   frames |-> LET fs == SetAsSeq(RandomSubset(NFrames, FramesFor(total))) IN
              [k \in 1..Len(fs) |->
                 [f |-> fs[k],
                  res |-> OverTable(tbl, desc, nf, LAMBDA s, i :
                             IF total THEN FrameFns(s, i, fs[k], total, desc)
                             ELSE PeerFns(FrameFns(s, i, fs[k], total, desc)))]]]
\* a seeded choice of NVariants of the 8 (total order?, descending?, nulls first?) combinations per table
Combos == {<<t, d, n>> : t \in BOOLEAN, d \in BOOLEAN, n \in BOOLEAN}
Case == LET cs == SetAsSeq(RandomSubset(NVariants, Combos)) IN
        [tbl |-> tbl, variants |-> [k \in 1..Len(cs) |-> Variant(cs[k][1], cs[k][2], cs[k][3])]]
Emit == Len(tbl) >= 1 => PrintT(<<"CASE", ToJson(Case)>>)

\* properties of the reference itself
FrameSanity == \A pv \in PartVals(tbl) : LET s == Ordered(PartRows(tbl, pv), FALSE, FALSE) IN \A i \in 1..Len(s) :
   \* the default frame (RANGE UNBOUNDED PRECEDING .. CURRENT ROW) ends at the last peer; ROWS ..CURRENT ROW at i
   /\ Len(FrameOf(s, i, Frame("RANGE", Bnd("UP", 0), Bnd("C", 0)), FALSE, FALSE)) = LastPeer(s, i, FALSE)
   /\ Len(FrameOf(s, i, Frame("ROWS", Bnd("UP", 0), Bnd("C", 0)), TRUE, FALSE)) = i
   /\ Len(FrameOf(s, i, Frame("GROUPS", Bnd("UP", 0), Bnd("UF", 0)), FALSE, FALSE)) = Len(s)
   /\ Rank(s, i, FALSE) <= i /\ DenseRank(s, i, FALSE) <= Rank(s, i, FALSE)
=============================================================================
