------------------------------ MODULE MCAccum ------------------------------
(* Exhaustive instance of Accum over a small scope: every batch, every      *)
(* group-index vector, every filter.                                        *)
EXTENDS Accum
CONSTANTS MaxBatch
XV == {Null, I(0), I(1)}
YV == {Null, I(1)}
RowSet == XV \X YV
MCBatches(minlen) == UNION {[1..k -> RowSet] : k \in minlen..MaxBatch}
MCGroupVecs(len, cur) == [1..len -> 0..(MaxG - 1)]
MCFilters(len) == {<<>>} \cup [1..len -> {0, 1, 2}]
MCPick(T) == T
\* order-insensitivity of the reference functions, checked over EVERY sequence of up to MaxSeq rows
CONSTANTS MaxSeq
AllSeqs == UNION {[1..k -> RowSet] : k \in 0..MaxSeq}
OrderInsensitivityAll == \A sq \in AllSeqs : BagOnly(sq)
MCPickK(T) == T
=============================================================================
