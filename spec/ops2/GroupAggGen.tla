---------------------------- MODULE GroupAggGen ----------------------------
(* Case generator for C06: a behaviour builds a table row by row (seeded     *)
(* random rows, TLC -simulate); every table reached is one case, printed     *)
(* with the reference result of every grouped query shape (Agg.tla).         *)
EXTENDS Agg, TLC, Json, Randomization
CONSTANTS MaxRows
VARIABLES tbl
KV == {Null, I(0), I(1)}
XV == {Null, I(-1), I(0), I(1), I(2)}
YV == {Null, I(0), I(1), I(2)}
RowSet == KV \X KV \X XV \X YV
Init == tbl = <<>>
Next == /\ Len(tbl) < MaxRows
        /\ \E r \in RandomSubset(1, RowSet) : tbl' = Append(tbl, r)
Spec == Init /\ [][Next]_tbl

Case == LET g1 == GroupBy(tbl, <<1>>) g2 == GroupBy(tbl, <<1, 2>>) g0 == Global(tbl)
            gk2 == GroupBy(tbl, <<2>>)
            full(g, ks) == [i \in 1..Len(g) |-> [key |-> FullKey(g[i].key, ks, 2), e |-> g[i].e]]
            z == IF tbl = <<>> THEN <<>> ELSE full(g0, <<>>)
            rmax == RankedExtrema(g1, TRUE) rmin == RankedExtrema(g1, FALSE) rk == RankedKeys(g1) IN
        [tbl |-> tbl, g0 |-> g0, g1 |-> g1, g2 |-> g2,
         \* GROUPING SETS = union of the groupings (Agg!GroupingSets), assembled from the parts already computed
         rollup |-> full(g2, <<1, 2>>) \o full(g1, <<1>>) \o z,
         cube |-> full(g2, <<1, 2>>) \o full(g1, <<1>>) \o full(gk2, <<2>>) \o z,
         sets |-> full(g1, <<1>>) \o full(gk2, <<2>>),
         topk_max |-> [n \in 1..3 |-> Prefix(rmax, n)],
         topk_min |-> [n \in 1..3 |-> Prefix(rmin, n)],
         topk_key |-> [n \in 1..3 |-> Prefix(rk, n)]]
Emit == PrintT(<<"CASE", ToJson(Case)>>)

\* properties of the reference itself (checked on every generated table)
OneRowPerGroup == \A ks \in {<<1>>, <<1, 2>>} : LET g == GroupBy(tbl, ks) IN
   /\ Cardinality({g[i].key : i \in 1..Len(g)}) = Len(g)
   /\ SeqSum([i \in 1..Len(g) |-> g[i].e.count_star.v]) = Len(tbl)
\* the assembled grouping sets are the definition's
SetsAgree == Len(tbl) <= 3 =>
   /\ SameBag(Case.rollup, GroupingSets(tbl, Rollup2, 2))
   /\ SameBag(Case.cube, GroupingSets(tbl, Cube2, 2))
   /\ SameBag(Case.sets, GroupingSets(tbl, Sets2, 2))
=============================================================================
