------------------------------ MODULE TreeWalk ------------------------------
(***************************************************************************)
(* C42 -- TreeNode traversal / rewriting contract                           *)
(* (datafusion common/src/tree_node.rs).                                    *)
(*                                                                         *)
(* A tree has nodes 1..N numbered in pre-order; kids[n] is the sequence of  *)
(* children of n.  A case fixes, for every node and phase ("d" = f_down /   *)
(* top-down closure, "u" = f_up / bottom-up closure), the decision the      *)
(* callback returns (dec: "C"ontinue, "J"ump, "S"top) and whether it        *)
(* reports a replacement (chg).  A replacement keeps the children and marks *)
(* the node (down-mark / up-mark), so the result tree is the pair of mark   *)
(* sets.  Every traversal is defined recursively on the tree and yields     *)
(*   log  : sequence of <<phase, node, node's marks when called>>,          *)
(*   dm/um: marked nodes of the result tree,                                *)
(*   tr   : the reported transformed flag,   tnr : the final recursion      *)
(*   state.                                                                 *)
(* Contract (checked by TLC on every enumerated case): with all-Continue    *)
(* decisions the log is the pre-order / post-order / pre+post-order walk;   *)
(* a Jump from a top-down callback prunes exactly the node's subtree (and   *)
(* its own f_up); Stop ends the walk; marks = logged callbacks that         *)
(* reported a change; tr <=> some logged callback reported a change.        *)
(***************************************************************************)
EXTENDS Integers, Sequences, FiniteSets, TLC, Json, Randomization

CONSTANTS MAXN,      \* trees with 1..MAXN nodes
          MAXNC,     \* at most this many non-Continue decisions per case
          SAMPLE,    \* 0: every decision/change vector; k > 0: k random vectors per (tree, method)
          SUBQ,      \* TRUE: leading one-child children are embedded subqueries (LogicalPlan *_with_subqueries): a Jump
                     \* coming back from such a child is absorbed at the expression boundary (becomes Continue)
          STAR       \* TRUE: only the trees root + k leaves (2..MAXN nodes), root never replaced: the cases that are
                     \* mapped onto every real node variant (child enumeration order of one node)

VARIABLES c,   \* the case
          ev   \* its evaluation (computed once in Init): [res, kids, logpn]
Methods == {"apply", "visit", "transform_down", "transform_up", "transform_down_up", "rewrite", "map_children", "exists",
            "apply_children"}

(*************************** all ordered trees *****************************)
\* a forest with m nodes = sequence of trees; a tree with m nodes = root + forest with m-1 nodes.
\* Encoded as the sequence of subtree sizes in pre-order (size[n] = nodes in the subtree of n).
RECURSIVE Forests(_)
Forests(m) ==
  IF m = 0 THEN {<<>>}
  ELSE UNION {{<<k>> \o f \o g : f \in Forests(k - 1), g \in Forests(m - k)} : k \in 1..m}
Trees(m) == {<<m>> \o f : f \in Forests(m - 1)}

RECURSIVE KidsFrom(_, _, _)
KidsFrom(size, n, end) == IF n > end THEN <<>> ELSE <<n>> \o KidsFrom(size, n + size[n], end)
Kids(size) == [n \in 1..Len(size) |-> KidsFrom(size, n + 1, n + size[n] - 1)]
Desc(size, n) == (n + 1)..(n + size[n] - 1)

(**************************** traversals ***********************************)
\* walk state: s = [log, dm, um]; results r = [s, tr, tnr]
Marks(s, n) == (IF n \in s.dm THEN "d" ELSE "") \o (IF n \in s.um THEN "u" ELSE "")
Call(s, ph, n, cs) ==   \* invoke the callback of phase ph on node n
  LET s1 == [s EXCEPT !.log = Append(@, <<ph, n, Marks(s, n)>>)] IN
  [s |-> IF cs.chg[n][ph] THEN (IF ph = "d" THEN [s1 EXCEPT !.dm = @ \cup {n}] ELSE [s1 EXCEPT !.um = @ \cup {n}]) ELSE s1,
   tr |-> cs.chg[n][ph], tnr |-> cs.dec[n][ph]]

\* iterate over children with g (apply_until_stop / map_until_stop_and_collect)
RECURSIVE OverKids(_, _, _, _, _, _)
OverKids(G(_, _, _), ks, s, tr, tnr, cs) ==
  IF ks = <<>> \/ tnr = "S" THEN [s |-> s, tr |-> tr, tnr |-> tnr]
  ELSE LET r == G(s, Head(ks), cs) IN
       OverKids(G, Tail(ks), r.s, tr \/ r.tr, IF Head(ks) \in cs.subs /\ r.tnr = "J" THEN "C" ELSE r.tnr, cs)

RECURSIVE Apply(_, _, _)
Apply(s, n, cs) ==
  LET r == Call(s, "d", n, [cs EXCEPT !.chg = [x \in DOMAIN cs.chg |-> [ph \in {"d", "u"} |-> FALSE]]]) IN
  IF r.tnr = "C" THEN OverKids(Apply, cs.kids[n], r.s, FALSE, "C", cs)
  ELSE [s |-> r.s, tr |-> FALSE, tnr |-> IF r.tnr = "J" THEN "C" ELSE "S"]

RECURSIVE Visit(_, _, _)
Visit(s, n, cs) ==
  LET nochg == [cs EXCEPT !.chg = [x \in DOMAIN cs.chg |-> [ph \in {"d", "u"} |-> FALSE]]]
      r  == Call(s, "d", n, nochg)
      r2 == IF r.tnr = "C" THEN OverKids(Visit, cs.kids[n], r.s, FALSE, "C", cs)
            ELSE [s |-> r.s, tr |-> FALSE, tnr |-> IF r.tnr = "J" THEN "C" ELSE "S"] IN
  IF r2.tnr = "C" THEN Call(r2.s, "u", n, nochg) ELSE r2

RECURSIVE TDown(_, _, _)
TDown(s, n, cs) ==
  LET r == Call(s, "d", n, cs) IN
  IF r.tnr = "C" THEN LET k == OverKids(TDown, cs.kids[n], r.s, FALSE, "C", cs) IN [k EXCEPT !.tr = @ \/ r.tr]
  ELSE [r EXCEPT !.tnr = IF @ = "J" THEN "C" ELSE "S"]

RECURSIVE TUp(_, _, _)
TUp(s, n, cs) ==
  LET k == OverKids(TUp, cs.kids[n], s, FALSE, "C", cs) IN
  IF k.tnr = "C" THEN LET r == Call(k.s, "u", n, cs) IN [r EXCEPT !.tr = @ \/ k.tr] ELSE k

RECURSIVE TDownUp(_, _, _)
TDownUp(s, n, cs) ==
  LET r  == Call(s, "d", n, cs)
      r2 == IF r.tnr = "C" THEN LET k == OverKids(TDownUp, cs.kids[n], r.s, FALSE, "C", cs) IN [k EXCEPT !.tr = @ \/ r.tr]
            ELSE [r EXCEPT !.tnr = IF @ = "J" THEN "C" ELSE "S"] IN
  IF r2.tnr = "C" THEN LET u == Call(r2.s, "u", n, cs) IN [u EXCEPT !.tr = @ \/ r2.tr] ELSE r2

MapKid(s, n, cs) == Call(s, "d", n, cs)
MapChildren(s, n, cs) == OverKids(MapKid, cs.kids[n], s, FALSE, "C", cs)

\* apply_children(f): f on every child, no recursion (also the shape of LogicalPlan::apply_expressions)
ApplyKid(s, n, cs) ==
  Call(s, "d", n, [cs EXCEPT !.chg = [x \in DOMAIN cs.chg |-> [ph \in {"d", "u"} |-> FALSE]]])
ApplyChildren(s, n, cs) == OverKids(ApplyKid, cs.kids[n], s, FALSE, "C", cs)

\* exists(pred): pred = chg[.]["d"]; stops at the first node satisfying it
Exists(s, n, cs) ==
  LET cs2 == [cs EXCEPT !.dec = [x \in DOMAIN cs.dec |-> [ph \in {"d", "u"} |-> IF cs.chg[x]["d"] THEN "S" ELSE "C"]]]
      r   == Apply(s, n, cs2) IN
  [r EXCEPT !.tr = \E i \in 1..Len(r.s.log) : cs.chg[r.s.log[i][2]]["d"]]

S0 == [log |-> <<>>, dm |-> {}, um |-> {}]
Run(m, cs) ==
  CASE m = "apply" -> Apply(S0, 1, cs)
    [] m = "visit" -> Visit(S0, 1, cs)
    [] m = "transform_down" -> TDown(S0, 1, cs)
    [] m = "transform_up" -> TUp(S0, 1, cs)
    [] m \in {"transform_down_up", "rewrite"} -> TDownUp(S0, 1, cs)
    [] m = "map_children" -> MapChildren(S0, 1, cs)
    [] m = "apply_children" -> ApplyChildren(S0, 1, cs)
    [] m = "exists" -> Exists(S0, 1, cs)

(****************************** cases **************************************)
Ph == {"d", "u"}
\* only the callbacks a method has, and only the answers it looks at, vary
UsesPh(m) == IF m \in {"apply", "transform_down", "map_children", "exists", "apply_children"} THEN {"d"}
             ELSE IF m = "transform_up" THEN {"u"} ELSE {"d", "u"}
UsesChg(m) == m \notin {"apply", "visit", "apply_children"}
UsesDec(m) == m # "exists"
AllC(n) == [i \in 1..n |-> [ph \in Ph |-> "C"]]
\* decision vectors with at most k non-Continue answers, built constructively
RECURSIVE DecsK(_, _, _)
DecsK(n, m, k) ==
  IF k = 0 \/ ~UsesDec(m) THEN {AllC(n)}
  ELSE LET prev == DecsK(n, m, k - 1) IN
       prev \cup {[d EXCEPT ![i][ph] = v] : d \in prev, i \in 1..n, ph \in UsesPh(m), v \in {"J", "S"}}
DecsOf(n, m) == DecsK(n, m, MAXNC)
ChgSlot(i, ph, m) == ph \in UsesPh(m) /\ UsesChg(m) /\ ~(STAR /\ i = 1)
ChgsOf(n, m) == {g \in [1..n -> [Ph -> BOOLEAN]] : \A i \in 1..n : \A ph \in Ph : ~ChgSlot(i, ph, m) => g[i][ph] = FALSE}
RandChg(n, m) == [i \in 1..n |-> [ph \in Ph |-> ChgSlot(i, ph, m) /\ RandomElement(BOOLEAN)]]
AllTrees == IF STAR THEN {<<k>> \o [i \in 1..(k - 1) |-> 1] : k \in 2..MAXN}
            ELSE UNION {Trees(k) : k \in 1..MAXN}
\* constant-level tables: evaluated once by TLC
DecsTab == [n \in 1..MAXN |-> [m \in Methods |-> DecsOf(n, m)]]
Vectors(n, m) ==
  IF SAMPLE = 0 THEN DecsTab[n][m] \X ChgsOf(n, m)
  ELSE {<<d, RandChg(n, m)>> : d \in RandomSubset(SAMPLE, DecsTab[n][m])}
       \cup (IF UsesDec(m) THEN {} ELSE {<<AllC(n), RandChg(n, m)>> : k \in 1..SAMPLE})

\* embedded-subquery children: one-child nodes that form a prefix of their parent's children
RECURSIVE SubPrefix(_, _)
SubPrefix(size, ks) == IF ks = <<>> \/ size[Head(ks)] = 1 \/ Len(Kids(size)[Head(ks)]) # 1 THEN {}
                       ELSE {Head(ks)} \cup SubPrefix(size, Tail(ks))
\* a node that is itself an embedded subquery (a LogicalPlan::Subquery node) has its plan as ordinary input
RECURSIVE SubsFrom(_, _, _)
SubsFrom(size, n, nIsSub) ==
  LET ks == Kids(size)[n]
      P  == IF nIsSub THEN {} ELSE SubPrefix(size, ks) IN
  P \cup UNION {SubsFrom(size, ks[i], ks[i] \in P) : i \in 1..Len(ks)}
SubsOf(size) == IF SUBQ THEN SubsFrom(size, 1, FALSE) ELSE {}

Init == \E t \in AllTrees : \E m \in Methods : \E v \in Vectors(Len(t), m) :
          /\ c = [size |-> t, method |-> m, dec |-> v[1], chg |-> v[2], subs |-> SubsOf(t)]
          /\ LET cs  == [kids |-> Kids(t), dec |-> v[1], chg |-> v[2], subs |-> SubsOf(t)]
                 res == Run(m, cs) IN
             ev = [res |-> res, kids |-> cs.kids,
                  logpn |-> [i \in 1..Len(res.s.log) |-> <<res.s.log[i][1], res.s.log[i][2]>>]]
Next == UNCHANGED <<c, ev>>
Spec == Init /\ [][Next]_<<c, ev>>

CS == [kids |-> ev.kids, dec |-> c.dec, chg |-> c.chg, subs |-> c.subs]
R == ev.res
N == Len(c.size)

(**************************** the contract *********************************)
RECURSIVE Pre(_, _)
RECURSIVE PreKids(_, _)
Pre(kids, n) == <<n>> \o PreKids(kids, kids[n])
PreKids(kids, ks) == IF ks = <<>> THEN <<>> ELSE Pre(kids, Head(ks)) \o PreKids(kids, Tail(ks))
RECURSIVE Post(_, _)
RECURSIVE PostKids(_, _)
Post(kids, n) == PostKids(kids, kids[n]) \o <<n>>
PostKids(kids, ks) == IF ks = <<>> THEN <<>> ELSE Post(kids, Head(ks)) \o PostKids(kids, Tail(ks))
RECURSIVE PrePost(_, _)
RECURSIVE PrePostKids(_, _)
PrePost(kids, n) == << <<"d", n>> >> \o PrePostKids(kids, kids[n]) \o << <<"u", n>> >>
PrePostKids(kids, ks) == IF ks = <<>> THEN <<>> ELSE PrePost(kids, Head(ks)) \o PrePostKids(kids, Tail(ks))

LogPN == ev.logpn
AllCont == \A n \in 1..N : \A ph \in Ph : c.dec[n][ph] = "C"
Logged(ph, n) == \E i \in 1..Len(LogPN) : LogPN[i] = <<ph, n>>
Walks == c.method \in {"apply", "visit", "transform_down", "transform_up", "transform_down_up", "rewrite"}
HasDown == c.method \in {"apply", "visit", "transform_down", "transform_down_up", "rewrite"}
HasUp == c.method \in {"visit", "transform_up", "transform_down_up", "rewrite"}
Rewrites == c.method \in {"transform_down", "transform_up", "transform_down_up", "rewrite", "map_children"}

OrderOK ==
  AllCont =>
    /\ c.method \in {"apply", "transform_down"} => LogPN = [i \in 1..N |-> <<"d", Pre(CS.kids, 1)[i]>>]
    /\ c.method = "transform_up" => LogPN = [i \in 1..N |-> <<"u", Post(CS.kids, 1)[i]>>]
    /\ c.method \in {"visit", "rewrite", "transform_down_up"} => LogPN = PrePost(CS.kids, 1)
    /\ c.method \in {"map_children", "apply_children"} => LogPN = [i \in 1..Len(CS.kids[1]) |-> <<"d", CS.kids[1][i]>>]
    /\ Walks => R.tnr = "C"
OnceOK == \A i, j \in 1..Len(LogPN) : i # j => LogPN[i] # LogPN[j]
\* a logged top-down Jump prunes exactly that node's subtree (in combined walks the walk "jumps" to the node's own
\* f_up); a logged bottom-up Jump on a last child bypasses the parent's f_up
JumpOK ==
  (Walks /\ HasDown) =>
    \A n \in 1..N : (Logged("d", n) /\ c.dec[n]["d"] = "J") =>
       /\ \A x \in Desc(c.size, n) : ~Logged("d", x) /\ ~Logged("u", x)
       /\ (HasUp /\ c.dec[n]["u"] # "S" /\ \A i \in 1..Len(LogPN) : c.dec[LogPN[i][2]][LogPN[i][1]] # "S") => Logged("u", n)
UpJumpOK ==
  (Walks /\ HasUp) =>
    \A p \in 1..N : \A n \in 1..N :
       (CS.kids[p] # <<>> /\ n = CS.kids[p][Len(CS.kids[p])] /\ n \notin c.subs /\ Logged("u", n) /\ c.dec[n]["u"] = "J")
          => ~Logged("u", p)
\* after a Stop nothing is called any more
StopOK ==
  c.method # "exists" =>
    \A i \in 1..Len(LogPN) : c.dec[LogPN[i][2]][LogPN[i][1]] = "S" => i = Len(LogPN)
StopTnr == (c.method # "exists" /\ Len(LogPN) > 0 /\ c.dec[LogPN[Len(LogPN)][2]][LogPN[Len(LogPN)][1]] = "S") => R.tnr = "S"
\* the result tree contains exactly the reported replacements; the flag is their disjunction
MarksOK ==
  /\ Rewrites => /\ R.s.dm = {n \in 1..N : Logged("d", n) /\ c.chg[n]["d"]}
                 /\ R.s.um = {n \in 1..N : Logged("u", n) /\ c.chg[n]["u"]}
                 /\ R.tr <=> (R.s.dm \cup R.s.um # {})
  /\ ~Rewrites => R.s.dm = {} /\ R.s.um = {}
\* parents are entered before and left after their logged descendants
NestOK ==
  \A i, j \in 1..Len(LogPN) :
     (LogPN[j][2] \in Desc(c.size, LogPN[i][2])) =>
        /\ LogPN[i][1] = "d" => i < j
        /\ LogPN[i][1] = "u" => j < i
ExistsOK == c.method = "exists" => (R.tr <=> \E n \in 1..N : c.chg[n]["d"])

SpecOK == OrderOK /\ OnceOK /\ JumpOK /\ UpJumpOK /\ StopOK /\ StopTnr /\ MarksOK /\ NestOK /\ ExistsOK

Emit == PrintT(<<"CASE", ToJson([size |-> c.size, kids |-> CS.kids, method |-> c.method, subs |-> c.subs,
                                 dec |-> [n \in 1..N |-> <<c.dec[n]["d"], c.dec[n]["u"]>>],
                                 chg |-> [n \in 1..N |-> <<IF c.chg[n]["d"] THEN 1 ELSE 0, IF c.chg[n]["u"] THEN 1 ELSE 0>>],
                                 log |-> R.s.log, dm |-> R.s.dm, um |-> R.s.um,
                                 tr |-> IF R.tr THEN 1 ELSE 0, tnr |-> R.tnr])>>)
=============================================================================
