CONSTANTS NH = 20  LEN = 4  BR = 1  EDEPTH = 2  MAXT = 12  LIMIT = 200  MODE = "main"  MUT = "none"
SPECIFICATION Spec
INVARIANTS StepOK Emit
CHECK_DEADLOCK FALSE
