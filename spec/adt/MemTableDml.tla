----------------------------- MODULE MemTableDml -----------------------------
(***************************************************************************)
(* C39 -- data-modifying statements on an in-memory table (datafusion       *)
(* catalog/src/memory/table.rs: MemTable::insert_into / delete_from /       *)
(* update, reached through SessionContext::sql).                            *)
(*                                                                         *)
(* State machine.  The state is the content of the target table t           *)
(*   t(c1 BIGINT, c2 BIGINT, c3 VARCHAR, c4 BOOLEAN)                        *)
(* as a sequence of rows (the observable is the BAG of rows: the placement  *)
(* of rows among the table's partitions is not specified; the table is      *)
(* created with the partition layout `parts0`), and a constant source table *)
(* s of the same shape.  Actions = statements:                              *)
(*   InsertValues(rows, cols)       INSERT INTO t [(cols)] VALUES ...       *)
(*   InsertSelect(src, es, cols, p) INSERT INTO t [(cols)] SELECT es FROM   *)
(*                                  src [WHERE p]  (src = t itself or s)    *)
(*   Delete(p) / DeleteAll          DELETE FROM t [WHERE p]                 *)
(*   Update(asg, p) / Update(asg)   UPDATE t SET c = e, ... [WHERE p]       *)
(* Meaning (SQL): a row is affected iff the predicate evaluates to TRUE on  *)
(* it (not NULL); every assignment is evaluated on the PRE-update row; the  *)
(* statement reports the number of affected / inserted rows; columns absent *)
(* from an INSERT column list become NULL.  A statement whose evaluation    *)
(* hits an error (division by zero: predicate on any row of the table, an   *)
(* assignment / select expression on any selected row) has outcome ERR and  *)
(* leaves the table unchanged.                                              *)
(*                                                                         *)
(* Statements are drawn by a seed-threaded generator (the pattern of        *)
(* spec/gen/PlanGen.tla: every generator is a pure function of its seed);   *)
(* predicates and assignment expressions are Expr.tla ASTs evaluated with   *)
(* Expr!Eval.  One behaviour = one history of LEN statements; the invariant *)
(* Emit prints every complete history with the expected outcome, count and  *)
(* table content after every statement.  `vhist run` replays the rendered   *)
(* SQL on a real SessionContext/MemTable (lib/c39.py compares).             *)
(*                                                                         *)
(* MODE = "main":  every statement kind, including "reject" statements.     *)
(* MODE = "unsat": UPDATE/DELETE whose predicate is constant FALSE/NULL or  *)
(*                 otherwise unsatisfiable (expected: nothing affected).    *)
(***************************************************************************)
EXTENDS Expr, TLC, Json, Randomization, SequencesExt

CONSTANTS NH,      \* number of initial seeds (histories = NH * BR^LEN)
          LEN,     \* statements per history
          BR,      \* branching per step (1 = independent chains)
          EDEPTH,  \* expression nesting depth (<= 2: keeps every product inside 32 bits, see LIMIT)
          MAXT,    \* the table never exceeds MAXT rows (statements that would are not generated)
          LIMIT,   \* |integer| <= LIMIT in every table state (LIMIT^4 < 2^31)
          MODE,    \* "main" | "unsat"
          MUT      \* "none"; other values turn the reference into a deliberately WRONG one (selftest only:
                   \* "sequpd" assignments see earlier assignments, "nulltrue" NULL predicate affects the row,
                   \* "countall" count = table size) to measure that the replayed histories tell them apart

Sch == <<"i", "i", "s", "b">>
W == 4

(* ---------------- seed threading (as in PlanGen) ---------------- *)
M == 46337
Mix(sd, k) == (sd * 31321 + k * 7919 + 12345) % M
Rnd(sd, n) == (Mix(sd, 77) % n)
PickSeq(seq, sd) == seq[Rnd(sd, Len(seq)) + 1]
Chance(p, sd) == Rnd(sd, 100) < p
SetSeq(set) == SetToSortSeq(set, <)

IntVals == <<Null, I(0 - 1), I(0), I(1), I(2)>>
StrVals == <<Null, S(1), S(2), S(3)>>
BoolVals == <<Null, TrueV, FalseV>>
ValsOf(k) == IF k = "i" THEN IntVals ELSE IF k = "s" THEN StrVals ELSE BoolVals

GenRow(sd) == [c \in 1..W |-> PickSeq(ValsOf(Sch[c]), Mix(sd, c))]
GenRows(n, sd) == [r \in 1..n |-> GenRow(Mix(sd, 100 + r))]

ColsOf(k) == {c \in 1..W : Sch[c] = k}
PickCol(k, sd) == PickSeq(SetSeq(ColsOf(k)), sd)
LitT(v, k) == [op |-> "lit", v |-> v, t |-> k]
GenLit(k, sd) == LitT(IF Chance(85, sd) THEN PickSeq(Tail(ValsOf(k)), Mix(sd, 1)) ELSE Null, k)

(* ---------------- expressions over a row of t (the C04 grammar) ---------------- *)
Leaf(k, sd) ==
  IF ColsOf(k) # {} /\ Chance(75, Mix(sd, 3)) THEN Col(PickCol(k, Mix(sd, 4)))
  ELSE GenLit(k, Mix(sd, 5))

RECURSIVE GenE(_, _, _)
GenE(k, d, sd) ==
  LET A == GenE("i", d - 1, Mix(sd, 11))
      B2 == GenE("i", d - 1, Mix(sd, 12))
      P1 == GenE("b", d - 1, Mix(sd, 13))
      P2 == GenE("b", d - 1, Mix(sd, 14))
      c == Rnd(Mix(sd, 15), 12) + 1 IN
  IF d = 0 \/ Chance(25, Mix(sd, 16)) THEN Leaf(k, Mix(sd, 17))
  ELSE IF k = "i" THEN
    (CASE c \in {1, 2, 3} -> Bin(PickSeq(<<"+", "-", "*">>, Mix(sd, 18)), A, B2)
      [] c = 4 -> Bin(PickSeq(<<"/", "%">>, Mix(sd, 18)), A, B2)
      [] c = 5 -> Un(PickSeq(<<"neg", "abs">>, Mix(sd, 18)), A)
      [] c \in {6, 9} -> CaseE(<< <<P1, A>> >>, IF Chance(50, Mix(sd, 18)) THEN LitT(Null, "i") ELSE B2)
      [] c \in {7, 10} -> Coalesce(<<A, B2>>)
      [] c = 8 -> NullIfE(A, B2)
      [] OTHER -> Leaf(k, Mix(sd, 17)))
  ELSE IF k = "s" THEN
    (IF Chance(40, Mix(sd, 18))
       THEN Coalesce(<<Leaf("s", Mix(sd, 19)), Leaf("s", Mix(sd, 20))>>)
       ELSE IF Chance(30, Mix(sd, 21))
         THEN CaseE(<< <<P1, Leaf("s", Mix(sd, 19))>> >>, Leaf("s", Mix(sd, 20)))
         ELSE Leaf("s", Mix(sd, 17)))
  ELSE \* boolean
    LET ck == PickSeq(<<"i", "i", "s">>, Mix(sd, 21)) IN
    (CASE c \in {1, 2, 3} -> Bin(PickSeq(<<"=", "<>", "<", "<=", ">", ">=">>, Mix(sd, 18)), A, B2)
      [] c = 4 -> Bin(PickSeq(<<"=", "<>", "<", ">=">>, Mix(sd, 18)), Leaf("s", Mix(sd, 19)), Leaf("s", Mix(sd, 20)))
      [] c = 5 -> Bin(PickSeq(<<"and", "or">>, Mix(sd, 18)), P1, P2)
      [] c = 6 -> Un("not", P1)
      [] c = 7 -> Un(PickSeq(<<"isnull", "isnotnull">>, Mix(sd, 18)), GenE(PickSeq(<<"i", "s">>, Mix(sd, 22)), d - 1, Mix(sd, 23)))
      [] c = 8 -> Un(PickSeq(<<"istrue", "isfalse", "isnottrue", "isnotfalse">>, Mix(sd, 18)), P1)
      [] c = 9 -> InList(A, [j \in 1..(Rnd(Mix(sd, 24), 3) + 1) |-> GenLit("i", Mix(sd, 30 + j))], Chance(40, Mix(sd, 25)))
      [] c = 10 -> BetweenE(A, GenLit("i", Mix(sd, 26)), GenLit("i", Mix(sd, 27)), Chance(30, Mix(sd, 25)))
      [] c = 11 -> Bin(PickSeq(<<"isdistinct", "isnotdistinct">>, Mix(sd, 18)),
                       GenE(ck, d - 1, Mix(sd, 28)), GenE(ck, d - 1, Mix(sd, 29)))
      [] c = 12 -> Bin(PickSeq(<<"and", "or">>, Mix(sd, 18)), P1, Leaf("b", Mix(sd, 17))))

TrueLit == LitT(TrueV, "b")
\* a predicate of depth >= 1 (a bare literal predicate is left to MODE "unsat")
GenPred(sd) == GenE("b", IF Chance(30, Mix(sd, 1)) THEN 1 ELSE EDEPTH, Mix(sd, 2))

\* the value universe of the small scope: used to avoid / to request unsatisfiable predicates
Universe == {<<a, b, c, d>> : a \in {IntVals[i] : i \in 1..5}, b \in {IntVals[i] : i \in 1..5}, c \in {StrVals[i] : i \in 1..4},
                            d \in {BoolVals[i] : i \in 1..3}}
Unsat(p) == \A r \in Universe : ~IsTrue(Eval(p, r))

\* predicates the reference never satisfies (constant FALSE / NULL in many disguises, contradictions)
GenUnsat(sd) ==
  LET c == Rnd(Mix(sd, 1), 10) + 1
      g == GenE("b", 1, Mix(sd, 2))
      col == Col(PickCol("i", Mix(sd, 3))) IN
  CASE c = 1 -> LitT(FalseV, "b")
    [] c = 2 -> LitT(Null, "b")
    [] c = 3 -> Bin("and", g, LitT(FalseV, "b"))
    [] c = 4 -> Bin("and", LitT(Null, "b"), g)
    [] c = 5 -> Bin("=", col, LitT(Null, "i"))
    [] c = 6 -> Un("not", TrueLit)
    [] c = 7 -> Bin(PickSeq(<<"=", ">">>, Mix(sd, 4)), LitT(I(1), "i"), LitT(I(2), "i"))
    [] c = 8 -> InList(col, <<LitT(Null, "i")>>, Chance(50, Mix(sd, 4)))
    [] c = 9 -> Bin("and", Bin(">", col, LitT(I(1), "i")), Bin("<", col, LitT(I(0), "i")))
    [] c = 10 -> Bin("and", Un("isnull", col), Bin("=", col, col))

(* ---------------- statements ---------------- *)
\* uniform record shape for every statement kind (unused fields hold neutral values)
NoE == LitT(Null, "b")
Stmt(kind, rows, cols, src, es, hp, p) ==
  [kind |-> kind, rows |-> rows, cols |-> cols, src |-> src, es |-> es, hp |-> hp, p |-> p]

\* INSERT column lists: the full schema in order (written or omitted), a permutation, or a subset
ColLists == << <<1, 2, 3, 4>>, <<1, 2, 3, 4>>, <<1, 2, 3, 4>>, <<2, 1, 4, 3>>, <<3, 4, 1, 2>>, <<1, 3>>, <<2>>, <<3, 2>>, <<4, 1>>, <<1, 2, 3>> >>

GenInsertValues(sd) ==
  LET cols == PickSeq(ColLists, Mix(sd, 1))
      n == Rnd(Mix(sd, 2), 3) + 1
      full == GenRows(n, Mix(sd, 3)) IN
  Stmt("insert", [r \in 1..n |-> [j \in 1..Len(cols) |-> full[r][cols[j]]]], cols, "", <<>>, FALSE, NoE)

GenInsertSelect(sd) ==
  LET cols == PickSeq(ColLists, Mix(sd, 1))
      es == [j \in 1..Len(cols) |->
               GenE(Sch[cols[j]], IF Chance(50, Mix(sd, 10 + j)) THEN 0 ELSE EDEPTH, Mix(sd, 20 + j))]
      hp == Chance(70, Mix(sd, 2)) IN
  Stmt("insel", <<>>, cols, IF Chance(50, Mix(sd, 3)) THEN "t" ELSE "s", es, hp,
       IF hp THEN GenPred(Mix(sd, 4)) ELSE NoE)

GenPredM(sd) == IF MODE = "unsat" THEN GenUnsat(sd) ELSE GenPred(sd)

GenDelete(sd) == Stmt("delete", <<>>, <<>>, "", <<>>, TRUE, GenPredM(Mix(sd, 1)))
DeleteAll == Stmt("delete", <<>>, <<>>, "", <<>>, FALSE, NoE)

\* assigned columns: a non-empty subset (in SET order, not necessarily schema order); an assignment is
\* often a bare column (so SET c1 = c2, c2 = c1 and other references to assigned columns are frequent)
AsgLists == << <<1>>, <<2>>, <<3>>, <<4>>, <<1, 2>>, <<2, 1>>, <<1, 2>>, <<1, 3>>, <<3, 2>>, <<4, 1>>, <<1, 2, 3>>, <<2, 3, 1>>, <<2, 4, 3, 1>> >>
GenUpdate(sd) ==
  LET cols == PickSeq(AsgLists, Mix(sd, 1))
      swap == Len(cols) >= 2 /\ cols[1] \in {1, 2} /\ cols[2] \in {1, 2} /\ Chance(35, Mix(sd, 5))
      es == [j \in 1..Len(cols) |->
               IF swap /\ j <= 2 THEN Col(3 - cols[j])
               ELSE GenE(Sch[cols[j]], IF Chance(40, Mix(sd, 10 + j)) THEN 0 ELSE EDEPTH, Mix(sd, 20 + j))]
      hp == MODE = "unsat" \/ Chance(80, Mix(sd, 2)) IN
  Stmt("update", <<>>, cols, "", es, hp, IF hp THEN GenPredM(Mix(sd, 4)) ELSE NoE)

GenStmt(sd) ==
  LET c == Rnd(Mix(sd, 1), 20) IN
  IF MODE = "unsat" THEN (IF c < 10 THEN GenDelete(Mix(sd, 2)) ELSE GenUpdate(Mix(sd, 2)))
  ELSE CASE c \in 0..3 -> GenInsertValues(Mix(sd, 2))
         [] c \in 4..6 -> GenInsertSelect(Mix(sd, 2))
         [] c \in 7..10 -> GenDelete(Mix(sd, 2))
         [] c = 11 -> DeleteAll
         [] OTHER -> GenUpdate(Mix(sd, 2))

(***************************************************************************)
(* Statements the engine must refuse without touching the table ("reject"): *)
(* malformed ones (wrong arity, unknown / duplicate column, unknown table,  *)
(* uncastable value) and forms a MemTable does not implement (INSERT        *)
(* OVERWRITE, REPLACE INTO, subqueries in UPDATE/DELETE).  For the subquery *)
(* forms the statement also carries its SQL meaning as an ordinary          *)
(* statement (`alt`: c IN (SELECT x FROM s) = c IN (the values of s.x),     *)
(* c > (SELECT max(x) FROM s) = c > the maximum): an engine that executes   *)
(* it instead of refusing must produce exactly that effect.                 *)
(***************************************************************************)
Malformed == <<"ins_overwrite", "replace_into", "ins_arity_less", "ins_arity_more", "ins_unknown_col", "ins_dup_col",
               "upd_unknown_col", "upd_unknown_table", "del_unknown_table", "ins_badcast", "upd_scalar_set",
               "upd_from", "upd_tuple", "ins_multipart">>
SubForms == <<"del_in", "del_notin", "del_exists", "del_scalar", "upd_in", "upd_notexists", "upd_scalar">>
ColVals(srows, c) == [i \in 1..Len(srows) |-> LitT(srows[i][c], "i")]
NonNull(lits) == SelectSeq(lits, LAMBDA l : ~IsNull(l.v))
RECURSIVE MaxV(_)
MaxV(lits) == IF lits = <<>> THEN Null
              ELSE LET m == MaxV(Tail(lits)) IN
                   IF IsNull(Head(lits).v) THEN m ELSE IF IsNull(m) \/ Head(lits).v.v > m.v THEN Head(lits).v ELSE m
\* the ordinary statement a subquery form means (sc, tc = the column of s / of t it uses)
SubAlt(form, sc, tc, srows) ==
  LET vals == ColVals(srows, sc)
      nine == <<LitT(I(9), "i")>> IN
  CASE form = "del_in" -> Stmt("delete", <<>>, <<>>, "", <<>>, TRUE, InList(Col(tc), vals, FALSE))
    [] form = "del_notin" -> Stmt("delete", <<>>, <<>>, "", <<>>, TRUE, InList(Col(tc), vals, TRUE))
    [] form = "del_exists" -> Stmt("delete", <<>>, <<>>, "", <<>>, TRUE, InList(Col(tc), NonNull(vals), FALSE))
    [] form = "del_scalar" -> Stmt("delete", <<>>, <<>>, "", <<>>, TRUE, Bin(">", Col(tc), LitT(MaxV(vals), "i")))
    [] form = "upd_in" -> Stmt("update", <<>>, <<1>>, "", nine, TRUE, InList(Col(tc), vals, FALSE))
    [] form = "upd_notexists" -> Stmt("update", <<>>, <<1>>, "", nine, TRUE, Un("not", Un("istrue", InList(Col(tc), NonNull(vals), FALSE))))
    [] form = "upd_scalar" -> Stmt("update", <<>>, <<1>>, "", nine, TRUE, Bin(">=", Col(tc), LitT(MaxV(vals), "i")))
\* reject statement: src = the form, rows = <<>>, cols = <<sc, tc>> for subquery forms
GenReject(sd) ==
  IF Chance(55, Mix(sd, 1))
    THEN Stmt("reject", <<>>, <<Rnd(Mix(sd, 3), 2) + 1, Rnd(Mix(sd, 4), 2) + 1>>, PickSeq(SubForms, Mix(sd, 2)), <<>>, FALSE, NoE)
    ELSE Stmt("reject", <<>>, <<>>, PickSeq(Malformed, Mix(sd, 2)), <<>>, FALSE, NoE)
IsSubForm(st) == st.kind = "reject" /\ Len(st.cols) = 2
GenStmtS(sd, srows) == IF MODE = "main" /\ Chance(12, Mix(sd, 9)) THEN GenReject(Mix(sd, 8)) ELSE GenStmt(sd)

(* ---------------- meaning of a statement on a table content ---------------- *)
Pos(seq, x) == CHOOSE j \in 1..Len(seq) : seq[j] = x
InSeq(seq, x) == \E j \in 1..Len(seq) : seq[j] = x
\* the row an INSERT builds from the values `vals` given for the columns `cols`; a column that is not
\* listed gets its declared default (d = the table declares defaults: c2 DEFAULT 5, c3 DEFAULT 'ab'), else NULL
Dflt(c, d) == IF d /\ c = 2 THEN I(5) ELSE IF d /\ c = 3 THEN S(2) ELSE Null
Widen(cols, vals, d) == [c \in 1..W |-> IF InSeq(cols, c) THEN vals[Pos(cols, c)] ELSE Dflt(c, d)]
RowHasErr(r) == \E c \in 1..Len(r) : IsErr(r[c])

\* per-row effect: o = "keep" (not affected), "chg" (affected; r = the new row, or deleted),
\*                 "err" (the evaluation fails on this row)
Fx(o, r) == [o |-> o, r |-> r]

\* (selftest mutant) assignments applied one after the other in schema order, each seeing the earlier ones
RECURSIVE SeqUpd(_, _, _)
SeqUpd(st, r, c) ==
  IF c > W THEN r
  ELSE SeqUpd(st, IF InSeq(st.cols, c) THEN [r EXCEPT ![c] = Eval(st.es[Pos(st.cols, c)], r)] ELSE r, c + 1)

RowFx(st, r, d) ==
  LET pv == IF st.hp THEN Eval(st.p, r) ELSE TrueV IN
  IF IsErr(pv) THEN Fx("err", r)
  ELSE IF ~(IsTrue(pv) \/ (MUT = "nulltrue" /\ IsNull(pv))) THEN Fx("keep", r)
  ELSE IF st.kind = "delete" THEN Fx("chg", r)
  ELSE LET nr == IF st.kind = "update" /\ MUT = "sequpd" THEN SeqUpd(st, r, 1)
                 ELSE IF st.kind = "update"
                   THEN [c \in 1..W |-> IF InSeq(st.cols, c) THEN Eval(st.es[Pos(st.cols, c)], r) ELSE r[c]]
                   ELSE Widen(st.cols, [j \in 1..Len(st.cols) |-> Eval(st.es[j], r)], d)    \* insel
       IN IF RowHasErr(nr) THEN Fx("err", r) ELSE Fx("chg", nr)

\* result of a statement: [err, count, after, fx]   (fx = per-row effects over the scanned table)
Res(err, count, after, fx) == [err |-> err, count |-> count, after |-> after, fx |-> fx]

Apply(st, rows, srows, d) ==
  IF st.kind = "reject" THEN Res(FALSE, 0, rows, <<>>)
  ELSE IF st.kind = "insert"
    THEN Res(FALSE, Len(st.rows), rows \o [j \in 1..Len(st.rows) |-> Widen(st.cols, st.rows[j], d)], <<>>)
  ELSE
    LET scanned == IF st.kind = "insel" /\ st.src = "s" THEN srows ELSE rows
        fx == [i \in 1..Len(scanned) |-> RowFx(st, scanned[i], d)]
        err == \E i \in 1..Len(fx) : fx[i].o = "err"
        hit == SelectSeq(fx, LAMBDA f : f.o = "chg") IN
    IF err THEN Res(TRUE, 0, rows, fx)
    ELSE IF MUT = "countall" /\ st.kind \in {"delete", "update"} THEN
      Res(FALSE, Len(rows), IF st.kind = "update" THEN [i \in 1..Len(fx) |-> fx[i].r]
                            ELSE [j \in 1..Len(SelectSeq(fx, LAMBDA f : f.o = "keep")) |-> SelectSeq(fx, LAMBDA f : f.o = "keep")[j].r], <<>>)
    ELSE IF st.kind = "delete" THEN Res(FALSE, Len(hit), [j \in 1..Len(SelectSeq(fx, LAMBDA f : f.o = "keep")) |-> SelectSeq(fx, LAMBDA f : f.o = "keep")[j].r], <<>>)
    ELSE IF st.kind = "update" THEN Res(FALSE, Len(hit), [i \in 1..Len(fx) |-> fx[i].r], <<>>)
    ELSE Res(FALSE, Len(hit), rows \o [j \in 1..Len(hit) |-> hit[j].r], <<>>)

InScope(rows) ==
  /\ Len(rows) <= MAXT
  /\ \A i \in 1..Len(rows) : \A c \in 1..2 : rows[i][c].k = "n" \/ (rows[i][c].v <= LIMIT /\ rows[i][c].v >= 0 - LIMIT)

\* a candidate statement with its effect; `unsat` is decided on the universe only when the statement
\* affects no row of the current table (a predicate satisfied by some row is satisfiable)
Cand(st, rows, srows, d) ==
  LET r == Apply(st, rows, srows, d)
      unsat == st.hp /\ r.count = 0 /\ Unsat(st.p) IN
  [st |-> st, r |-> r, unsat |-> unsat,
   ok |-> /\ InScope(r.after)
          /\ (MODE = "unsat" => unsat)]

Fallback(rows) == IF MODE = "unsat" THEN Stmt("delete", <<>>, <<>>, "", <<>>, TRUE, LitT(FalseV, "b"))
                  ELSE IF Len(rows) < MAXT THEN Stmt("insert", <<<<I(0), Null, S(1), TrueV>>>>, <<1, 2, 3, 4>>, "", <<>>, FALSE, NoE)
                  ELSE DeleteAll

ChooseStmt(sd, rows, srows, d) ==
  LET c1 == Cand(GenStmtS(Mix(sd, 101), srows), rows, srows, d)
      c2 == Cand(GenStmtS(Mix(sd, 102), srows), rows, srows, d)
      c3 == Cand(GenStmtS(Mix(sd, 103), srows), rows, srows, d)
      c4 == Cand(GenStmtS(Mix(sd, 104), srows), rows, srows, d) IN
  IF c1.ok THEN c1 ELSE IF c2.ok THEN c2 ELSE IF c3.ok THEN c3 ELSE IF c4.ok THEN c4
  ELSE Cand(Fallback(rows), rows, srows, d)

(* ---------------- the state machine ---------------- *)
VARIABLES seed0,   \* initial seed of this history (identifies it)
          sd,      \* current seed
          rows,    \* content of t
          hist     \* the statements so far, each with its expected outcome

vars == <<seed0, sd, rows, hist>>

\* initial layout: 1..3 partitions with 0..3 rows each; the source table s has 0..4 rows
NParts(s0) == Rnd(Mix(s0, 1), 3) + 1
Parts0(s0) == [p \in 1..NParts(s0) |-> GenRows(Rnd(Mix(s0, 10 + p), 4), Mix(s0, 20 + p))]
SRows(s0) == GenRows(Rnd(Mix(s0, 2), 5), Mix(s0, 3))
HasDflt(s0) == Chance(40, Mix(s0, 6))
RECURSIVE FlatP(_)
FlatP(ps) == IF ps = <<>> THEN <<>> ELSE Head(ps) \o FlatP(Tail(ps))

Init == /\ seed0 \in RandomSubset(NH, 1..(M - 1))
        /\ sd = seed0
        /\ rows = FlatP(Parts0(seed0))
        /\ hist = <<>>

Step(b) ==
  LET s1 == Mix(sd, b)
      c == ChooseStmt(s1, rows, SRows(seed0), HasDflt(seed0))
      alt == IF IsSubForm(c.st)
               THEN LET a == Apply(SubAlt(c.st.src, c.st.cols[1], c.st.cols[2], SRows(seed0)), rows, SRows(seed0), HasDflt(seed0)) IN
                    [err |-> a.err, count |-> a.count, after |-> a.after]
               ELSE [err |-> FALSE, count |-> 0, after |-> <<>>] IN
  /\ rows' = c.r.after
  /\ hist' = Append(hist, [st |-> c.st, err |-> c.r.err, count |-> c.r.count, after |-> c.r.after, fx |-> c.r.fx,
                           before |-> Len(rows), unsat |-> c.unsat, alt |-> alt])
  /\ sd' = Mix(s1, 4242)
  /\ UNCHANGED seed0

Next == Len(hist) < LEN /\ \E b \in 1..BR : Step(b)
Spec == Init /\ [][Next]_vars

(* ---------------- sanity of the specification itself (checked by TLC on every state) ---------------- *)
StepOK ==
  MUT # "none" \/ \A i \in 1..Len(hist) :
    LET h == hist[i] IN
    /\ h.err => (h.count = 0 /\ Len(h.after) = h.before)
    /\ (~h.err /\ h.st.kind = "delete") => Len(h.after) = h.before - h.count
    /\ (~h.err /\ h.st.kind = "update") => (Len(h.after) = h.before /\ h.count <= h.before)
    /\ (~h.err /\ h.st.kind \in {"insert", "insel"}) => Len(h.after) = h.before + h.count
    /\ h.st.kind = "reject" => (h.count = 0 /\ Len(h.after) = h.before)
    /\ (~h.err /\ h.unsat /\ h.st.kind \in {"delete", "update"}) => h.count = 0
    /\ InScope(h.after)

Emit ==
  (Len(hist) = LEN) =>
    PrintT(<<"CASE", ToJson([seed |-> seed0, parts0 |-> Parts0(seed0), srows |-> SRows(seed0),
                             batch |-> Rnd(Mix(seed0, 4), 3), tp |-> PickSeq(<<1, 2, 4>>, Mix(seed0, 5)),
                             dflt |-> HasDflt(seed0),
                             steps |-> hist])>>)
=============================================================================
