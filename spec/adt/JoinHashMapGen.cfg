CONSTANTS NH = 2  MAXR = 4  MAXRD = 3  MAXBL = 3  DS = {0, 2}  NPROBE = 2  MAXPL = 3  CHKPL = 1  UNIQ = FALSE
SPECIFICATION Spec
INVARIANTS TypeOK Emit
CHECK_DEADLOCK FALSE
