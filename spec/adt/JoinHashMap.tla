---------------------------- MODULE JoinHashMap ----------------------------
(***************************************************************************)
(* C14 -- join hash table (datafusion physical-plan joins/join_hash_map.rs, *)
(* joins/chain.rs).                                                         *)
(*                                                                         *)
(* Abstract data type: the build side is the sequence `ins` of <<row,hash>> *)
(* pairs in the order update_from_iter received them.  The meaning of a     *)
(* lookup is stated on that sequence only:                                  *)
(*   Chain(h)   = rows inserted with hash h, most recently inserted first,  *)
(*                cut at the first row below the deleted offset d, and      *)
(*                reported relative to d;                                   *)
(*   Lookup(it) = for every probe item <<idx,h>> in iteration order, the    *)
(*                pairs <<idx, r>> for r in Chain(h)  (NULL-key probe rows   *)
(*                are not items);                                           *)
(*   Contains(h)= some inserted row has hash h;   Len = #distinct hashes.   *)
(*                                                                         *)
(* Implementation grain: `head` (hash -> last row + 1) and `next` (chained  *)
(* list, 0 = end) exactly as update_from_iter maintains them; ChainImpl     *)
(* walks them like get_matched_indices; Page mirrors                        *)
(* get_matched_indices_with_limit_offset + traverse_chain (incl. the        *)
(* all-distinct fast path map.len() == next.len()).  TLC checks on every    *)
(* reachable state that ChainImpl = Chain and that the concatenation of     *)
(* pages, for every page size, equals Lookup (SpecOK).  Emit prints every   *)
(* state as a case: the insertion history and the expected observable       *)
(* result of every query, replayed on JoinHashMapU32/U64 by vadt c14.       *)
(*                                                                         *)
(* d > 0 models a PruningJoinHashMap-like state after pruning: rows below   *)
(* d ("ghosts") are still referenced by head/next but are cut from lookups. *)
(***************************************************************************)
EXTENDS Integers, Sequences, FiniteSets, TLC, Json, Randomization

CONSTANTS NH,      \* build hashes are 1..NH; 0 marks a build row with a NULL key (never inserted)
          MAXR,    \* capacity bound when d = 0
          MAXRD,   \* capacity bound when d > 0
          MAXBL,   \* rows per update_from_iter batch
          DS,      \* deleted offsets explored (0 and at most one positive value)
          NPROBE,  \* probes sampled per state for Emit
          MAXPL,   \* probe length bound
          CHKPL,   \* SpecOK quantifies over ALL probes up to this length
          UNIQ     \* TRUE: only pairwise distinct non-NULL hashes are inserted (reaches the fast path)

VARIABLES d, cap, top, ins, head, next, hist
vars == <<d, cap, top, ins, head, next, hist>>

Hs      == 1..NH
PH      == 1..(NH + 1)                  \* probe hashes; NH+1 is never in the table
NoneOff == <<-1, -1>>                   \* Option::None of MapOffset / inner None = -1
Min(a, b) == IF a < b THEN a ELSE b
Rev(s)  == [i \in 1..Len(s) |-> s[Len(s) + 1 - i]]
RECURSIVE Flat(_)
Flat(ss) == IF ss = <<>> THEN <<>> ELSE Head(ss) \o Flat(Tail(ss))

(******************************* insertion *********************************)
RECURSIVE Apply(_, _, _, _)
Apply(items, hd, nx, dd) ==
  IF items = <<>> THEN [hd |-> hd, nx |-> nx]
  ELSE LET a == items[1][1]
           h == items[1][2] IN
       IF hd[h] # 0
       THEN Apply(Tail(items), [hd EXCEPT ![h] = a + 1], [nx EXCEPT ![a - dd + 1] = hd[h]], dd)
       ELSE Apply(Tail(items), [hd EXCEPT ![h] = a + 1], nx, dd)

BatchItems(hs, rev) ==
  LET all   == [i \in 1..Len(hs) |-> <<d + top + i - 1, hs[i]>>]
      valid == SelectSeq(all, LAMBDA it : it[2] # 0) IN
  IF rev THEN Rev(valid) ELSE valid

NValid(hs) == Cardinality({i \in 1..Len(hs) : hs[i] # 0})

\* ghost configurations: rows 0..dd-1 carry a hash (or 0 = none), hashes pairwise distinct
GhostCfgs(dd) == {g \in [0..(dd - 1) -> 0..NH] :
                    \A i, j \in 0..(dd - 1) : (i # j /\ g[i] # 0) => g[i] # g[j]}
GhostItems(dd, g) == SelectSeq([i \in 1..dd |-> <<i - 1, g[i - 1]>>], LAMBDA it : it[2] # 0)

Init ==
  /\ d \in DS
  /\ cap \in 1..(IF d = 0 THEN MAXR ELSE MAXRD)
  /\ top = 0
  /\ \E g \in GhostCfgs(d) :
       LET gi == GhostItems(d, g)
           r  == Apply(gi, [h \in PH |-> 0], [i \in 1..cap |-> 0], d) IN
       /\ ins = gi
       /\ head = r.hd
       /\ next = r.nx
       /\ hist = IF gi = <<>> THEN <<>> ELSE <<gi>>

InsertBatch ==
  \E n \in 1..MAXBL : \E hs \in [1..n -> 0..NH] : \E rev \in BOOLEAN :
    /\ top + n <= cap
    /\ (NValid(hs) <= 1) => ~rev
    /\ UNIQ => /\ \A i \in 1..n : hs[i] # 0 /\ head[hs[i]] = 0
               /\ \A i, j \in 1..n : i # j => hs[i] # hs[j]
    /\ LET items == BatchItems(hs, rev)
           r     == Apply(items, head, next, d) IN
       /\ ins' = ins \o items
       /\ head' = r.hd
       /\ next' = r.nx
       /\ hist' = Append(hist, items)
       /\ top' = top + n
       /\ UNCHANGED <<d, cap>>

Next == InsertBatch
Spec == Init /\ [][Next]_vars

(******************************* meaning ***********************************)
RECURSIVE CutPruned(_)
CutPruned(s) == IF s = <<>> \/ s[1] < d THEN <<>> ELSE <<s[1] - d>> \o CutPruned(Tail(s))

Chain(h) ==
  LET mine == SelectSeq(ins, LAMBDA it : it[2] = h) IN
  CutPruned(Rev([i \in 1..Len(mine) |-> mine[i][1]]))

Lookup(items) ==
  Flat([k \in 1..Len(items) |->
          LET c == Chain(items[k][2]) IN [j \in 1..Len(c) |-> <<items[k][1], c[j]>>]])

Contains(h) == \E i \in 1..Len(ins) : ins[i][2] = h
LenAbs      == Cardinality({ins[i][2] : i \in 1..Len(ins)})

\* probe = sequence of <<hash, valid>>; items = valid rows <<0-based index, hash>>
ProbeItems(p) ==
  LET all == [i \in 1..Len(p) |-> <<i - 1, p[i][1], p[i][2]>>]
      ok  == SelectSeq(all, LAMBDA t : t[3] = 1) IN
  [i \in 1..Len(ok) |-> <<ok[i][1], ok[i][2]>>]

(************************ implementation-grain lookup **********************)
RECURSIVE Walk(_, _)
Walk(i, fuel) ==
  IF fuel = 0 THEN <<-99>>
  ELSE IF i < d THEN <<>>
  ELSE LET m  == i - d
           nx == next[m + 1] IN
       <<m>> \o (IF nx = 0 THEN <<>> ELSE Walk(nx - 1, fuel - 1))
ChainImpl(h) == IF head[h] = 0 THEN <<>> ELSE Walk(head[h] - 1, cap + 2)

\* traverse_chain(next, prob_idx, start_chain_idx, remaining, .., is_last_input)
RECURSIVE Trav(_, _, _, _)
Trav(pi, start, rem, isLast) ==
  LET m  == start - 1
      nx == next[m + 1] IN
  IF rem = 1
  THEN [pairs |-> << <<pi, m>> >>, rem |-> 0,
        ret |-> IF isLast /\ nx = 0 THEN NoneOff ELSE <<pi, nx>>]
  ELSE IF nx = 0
  THEN [pairs |-> << <<pi, m>> >>, rem |-> rem - 1, ret |-> NoneOff]
  ELSE LET r == Trav(pi, nx, rem - 1, isLast) IN
       [r EXCEPT !.pairs = << <<pi, m>> >> \o @]

RECURSIVE Scan(_, _, _, _)
Scan(p, row, rem, acc) ==
  IF row >= Len(p) THEN [pairs |-> acc, ret |-> NoneOff]
  ELSE IF p[row + 1][2] = 0 \/ head[p[row + 1][1]] = 0 THEN Scan(p, row + 1, rem, acc)
  ELSE LET r == Trav(row, head[p[row + 1][1]], rem, row = Len(p) - 1) IN
       IF r.ret # NoneOff THEN [pairs |-> acc \o r.pairs, ret |-> r.ret]
       ELSE Scan(p, row + 1, r.rem, acc \o r.pairs)

NDistinct == Cardinality({h \in Hs : head[h] # 0})
Unique    == NDistinct = cap              \* map.len() == next.len()

FastPage(p, limit, off) ==
  LET start == off[1]
      end   == Min(start + limit, Len(p)) IN
  [pairs |-> Flat([i \in 1..(end - start) |->
                     LET row == start + i - 1 IN
                     IF p[row + 1][2] = 1 /\ head[p[row + 1][1]] # 0
                     THEN << <<row, head[p[row + 1][1]] - 1>> >> ELSE <<>>]),
   ret |-> IF end = Len(p) THEN NoneOff ELSE <<end, -1>>]

\* one call of get_matched_indices_with_limit_offset (d = 0 only)
Page(p, limit, off) ==
  IF Unique THEN FastPage(p, limit, off)
  ELSE IF off[2] = -1 THEN Scan(p, off[1], limit, <<>>)
  ELSE IF off[2] = 0 THEN Scan(p, off[1] + 1, limit, <<>>)
  ELSE LET r == Trav(off[1], off[2], limit, off[1] = Len(p) - 1) IN
       IF r.ret # NoneOff THEN [pairs |-> r.pairs, ret |-> r.ret]
       ELSE Scan(p, off[1] + 1, r.rem, r.pairs)

RECURSIVE Pages(_, _, _, _)
Pages(p, limit, off, fuel) ==
  IF fuel = 0 THEN << [pairs |-> <<>>, ret |-> <<-2, -2>>] >>
  ELSE LET r == Page(p, limit, off) IN
       IF r.ret = NoneOff THEN <<r>> ELSE <<r>> \o Pages(p, limit, r.ret, fuel - 1)

PageFuel(p) == Len(p) * (cap + 1) + 3
AllPages(p, limit) == Pages(p, limit, <<0, -1>>, PageFuel(p))
Concat(pgs) == Flat([i \in 1..Len(pgs) |-> pgs[i].pairs])

(***************************** probes **************************************)
Sym == PH \X {0, 1}
SeqsOf(S, n) == UNION {[1..k -> S] : k \in 1..n}
ChkProbes == SeqsOf(Sym, CHKPL)
\* sampled probes: every NULL-marked row carries a hash that may be in the table
SymGen    == (PH \X {1}) \cup (Hs \X {0})
AllProbes == SeqsOf(SymGen, MAXPL)

(**************************** invariants ***********************************)
TypeOK ==
  /\ top <= cap
  /\ \A h \in PH : head[h] \in 0..(d + cap)
  /\ head[NH + 1] = 0

ChainRefines == \A h \in PH : ChainImpl(h) = Chain(h)

ContainsAgrees ==
  /\ \A h \in PH : Contains(h) <=> head[h] # 0
  /\ d = 0 => \A h \in PH : Contains(h) <=> (Chain(h) # <<>>)
  /\ LenAbs = NDistinct

EachOnce ==  \* every inserted live row with hash h occurs exactly once in Chain(h), nothing else
  d = 0 => \A h \in Hs :
     LET c == Chain(h) IN
     /\ \A i, j \in 1..Len(c) : i # j => c[i] # c[j]
     /\ {c[i] : i \in 1..Len(c)} = {ins[i][1] : i \in {k \in 1..Len(ins) : ins[k][2] = h}}

PagedEqLookup ==
  d = 0 => \A p \in ChkProbes : \A L \in 1..(Len(p) * cap + 1) :
     LET pgs == AllPages(p, L) IN
     /\ Concat(pgs) = Lookup(ProbeItems(p))
     /\ \A i \in 1..Len(pgs) : Len(pgs[i].pairs) <= L
     /\ pgs[Len(pgs)].ret = NoneOff

SpecOK == ChainRefines /\ ContainsAgrees /\ EachOnce /\ PagedEqLookup

(******************************* cases *************************************)
PageLimits(p) == {1, 2, 3, Len(p) * cap + 1}

ProbeCase(p) ==
  LET it == ProbeItems(p) IN
  [p        |-> p,
   fwd      |-> Lookup(it),
   rev      |-> Lookup(Rev(it)),
   contains |-> [i \in 1..Len(p) |-> IF Contains(p[i][1]) THEN 1 ELSE 0],
   pages    |-> IF d # 0 THEN <<>>
                ELSE LET Ls == PageLimits(p)
                         sq == CHOOSE s \in [1..Cardinality(Ls) -> Ls] :
                                 \A i, j \in 1..Cardinality(Ls) : i < j => s[i] < s[j] IN
                     [i \in 1..Len(sq) |-> [limit |-> sq[i], pgs |-> AllPages(p, sq[i])]]]

Case ==
  [d |-> d, cap |-> cap, hist |-> hist, len |-> LenAbs, unique |-> IF Unique THEN 1 ELSE 0,
   chains |-> [h \in PH |-> Chain(h)],
   probes |-> {ProbeCase(p) : p \in RandomSubset(NPROBE, AllProbes)}]   \* a set prints as a JSON array

Emit == PrintT(<<"CASE", ToJson(Case)>>)
=============================================================================
