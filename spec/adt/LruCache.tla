------------------------------ MODULE LruCache ------------------------------
(***************************************************************************)
(* C40 -- DefaultCache (datafusion execution cache/default_cache.rs,        *)
(* cache/lru_queue.rs): a least-recently-used map with a byte budget, an    *)
(* optional time-to-live fixed at insertion, hit counters and table-scoped  *)
(* removal.                                                                 *)
(*                                                                         *)
(* State: queue (keys, least recently used first), per live key the value   *)
(* id, the accounted total size (key + value), the expiry time (-1 = never) *)
(* and the hit count; limit, ttl (0 = none), mock time `now`, `used`.       *)
(* Sizes are in units; the driver scales them to bytes (all keys of one     *)
(* cache instance have the same byte size, a value's byte size is chosen so *)
(* that key + value = units * U).  T = 0 in Put stands for a value of size  *)
(* zero.  Keys 1,2 belong to table 1, key 3 to table 2.                     *)
(***************************************************************************)
EXTENDS Integers, Sequences, FiniteSets, TLC, Json, Randomization

CONSTANTS NKEYS, MAXT, LIMITS, TTLS, MAXOPS,
          TABLED,  \* FALSE: keys carry no table reference (Path keys): drop_table_entries removes nothing
          NB       \* 0: all successors; n > 0: at most n randomly drawn Put successors per step (simulation)

VARIABLES queue, val, tot, exp, hits, limit, ttl, now, used, nextId, hist,
          cfg0     \* <<limit, ttl>> the cache was created with
vars == <<queue, val, tot, exp, hits, limit, ttl, now, used, nextId, hist, cfg0>>
view == <<queue, tot, [k \in 1..NKEYS |-> IF exp[k] = -1 THEN -1 ELSE exp[k] - now], hits, limit, ttl, used, Len(hist)>>

Keys == 1..NKEYS
TableOf(k) == IF k <= 2 THEN 1 ELSE 2
Live == {queue[i] : i \in 1..Len(queue)}
Without(q, k) == SelectSeq(q, LAMBDA x : x # k)
RECURSIVE SumTot(_, _)
SumTot(q, t) == IF q = <<>> THEN 0 ELSE t[Head(q)] + SumTot(Tail(q), t)

\* evict least recently used entries until the budget holds: returns the remaining queue
RECURSIVE Evict(_, _, _)
Evict(q, t, lim) == IF SumTot(q, t) <= lim \/ q = <<>> THEN q ELSE Evict(Tail(q), t, lim)

\* projection compared with the real cache after every operation
Proj(q, v, t, e, h, lim, tl, u) ==
  [entries |-> {[k |-> k, id |-> v[k], tot |-> t[k], exp |-> e[k], hits |-> h[k]] : k \in {q[i] : i \in 1..Len(q)}},
   len |-> Len(q), used |-> u, limit |-> lim, ttl |-> tl]

Rec(op, k, a, ret, q, v, t, e, h, lim, tl, u, nw) ==
  [op |-> op, k |-> k, a |-> a, ret |-> ret, now |-> nw, post |-> Proj(q, v, t, e, h, lim, tl, u)]

Init ==
  /\ queue = <<>> /\ val = [k \in Keys |-> -1] /\ tot = [k \in Keys |-> 0] /\ exp = [k \in Keys |-> -1]
  /\ hits = [k \in Keys |-> 0] /\ limit \in LIMITS /\ ttl \in TTLS /\ now = 0 /\ used = 0 /\ nextId = 1
  /\ hist = <<>> /\ cfg0 = <<limit, ttl>>

\* common shape of a step: new queue/val/tot/exp/hits, everything else given
Step(op, k, a, ret, q, v, t, e, h, lim, tl, nw, id) ==
  /\ queue' = q /\ val' = v /\ tot' = t /\ exp' = e /\ hits' = h /\ limit' = lim /\ ttl' = tl /\ now' = nw
  /\ used' = SumTot(q, t) /\ nextId' = id /\ UNCHANGED cfg0
  /\ hist' = Append(hist, Rec(op, k, a, ret, q, v, t, e, h, lim, tl, SumTot(q, t), nw))

Same(op, k, a, ret) == Step(op, k, a, ret, queue, val, tot, exp, hits, limit, ttl, now, nextId)

Drop(q, ks) == SelectSeq(q, LAMBDA x : x \notin ks)
Reset(f, ks, d) == [k \in Keys |-> IF k \in ks THEN d ELSE f[k]]
\* remove a set of keys from the state
Removed(op, k, a, ret, ks, lim, id) ==
  Step(op, k, a, ret, Drop(queue, ks), Reset(val, ks, -1), Reset(tot, ks, 0), Reset(exp, ks, -1), Reset(hits, ks, 0),
       lim, ttl, now, id)

Expired(k) == exp[k] # -1 /\ now > exp[k]

Put(k, T) ==
  LET id == nextId IN
  IF T = 0 THEN Step("put", k, T, -1, queue, val, tot, exp, hits, limit, ttl, now, id + 1)     \* zero-size value: ignored
  ELSE IF T > limit THEN                                                                      \* cannot fit: drop a stale entry
    Removed("put", k, T, IF k \in Live THEN val[k] ELSE -1, {k}, limit, id + 1)
  ELSE
    LET q1 == Append(Without(queue, k), k)
        t1 == [tot EXCEPT ![k] = T]
        q2 == Evict(q1, t1, limit)
        gone == {q1[i] : i \in 1..Len(q1)} \ {q2[i] : i \in 1..Len(q2)} IN
    Step("put", k, T, IF k \in Live THEN val[k] ELSE -1, q2,
         Reset([val EXCEPT ![k] = id], gone, -1), Reset(t1, gone, 0),
         Reset([exp EXCEPT ![k] = IF ttl = 0 THEN -1 ELSE now + ttl], gone, -1),
         Reset([hits EXCEPT ![k] = 0], gone, 0), limit, ttl, now, id + 1)

Get(k) ==
  IF k \notin Live THEN Same("get", k, 0, -1)
  ELSE IF Expired(k) THEN Removed("get", k, 0, -1, {k}, limit, nextId)
  ELSE Step("get", k, 0, val[k], Append(Without(queue, k), k), val, tot, exp, [hits EXCEPT ![k] = @ + 1], limit, ttl, now, nextId)

ContainsKey(k) ==
  IF k \notin Live THEN Same("contains", k, 0, 0)
  ELSE IF Expired(k) THEN Removed("contains", k, 0, 0, {k}, limit, nextId)
  ELSE Same("contains", k, 0, 1)

Remove(k) == IF k \in Live THEN Removed("remove", k, 0, val[k], {k}, limit, nextId) ELSE Same("remove", k, 0, -1)
Clear == Removed("clear", 0, 0, -1, Live, limit, nextId)
UpdateLimit(l) ==
  LET q2 == Evict(queue, tot, l) IN Removed("limit", 0, l, -1, Live \ {q2[i] : i \in 1..Len(q2)}, l, nextId)
UpdateTtl(t) == Step("ttl", 0, t, -1, queue, val, tot, exp, hits, limit, t, now, nextId)
Advance(dt) == Step("advance", 0, dt, -1, queue, val, tot, exp, hits, limit, ttl, now + dt, nextId)
DropTable(tb) == Removed("drop_table", 0, tb, -1, {k \in Live : TABLED /\ TableOf(k) = tb}, limit, nextId)

Puts == Keys \X (0..MAXT)
\* simulation only (NB > 0): thin out the less interesting operations so that fills, hits and expiry occur
Gate(n) == NB = 0 \/ RandomElement(1..n) = 1
Next ==
  /\ Len(hist) < MAXOPS
  /\ \/ \E kt \in (IF NB = 0 THEN Puts ELSE RandomSubset(NB, Puts)) : Put(kt[1], kt[2])
     \/ \E k \in Keys : Get(k)
     \/ Gate(2) /\ \E k \in Keys : ContainsKey(k)
     \/ Gate(3) /\ \E k \in Keys : Remove(k)
     \/ Gate(6) /\ Clear
     \/ Gate(3) /\ \E l \in LIMITS : l # limit /\ UpdateLimit(l)
     \/ Gate(3) /\ \E t \in TTLS : t # ttl /\ UpdateTtl(t)
     \/ \E dt \in {1, 2} : Advance(dt)
     \/ Gate(4) /\ \E tb \in {1, 2} : DropTable(tb)

Done == Len(hist) = MAXOPS
Spec == Init /\ [][Next]_vars
SimSpec == Init /\ [][Next \/ (Done /\ UNCHANGED vars)]_vars

(**************************** invariants ***********************************)
NoDup == \A i, j \in 1..Len(queue) : i # j => queue[i] # queue[j]
Accounting == used = SumTot(queue, tot) /\ \A k \in Keys : (k \in Live) <=> (tot[k] > 0)
Budget == used <= limit
Shape == \A k \in Keys : k \notin Live => (val[k] = -1 /\ exp[k] = -1 /\ hits[k] = 0)
Last == hist[Len(hist)]
\* a hit returns the live value and only if it is not expired; a miss leaves no expired entry behind
GetOK == (hist # <<>> /\ Last.op = "get" /\ Last.ret # -1) =>
           (Last.k \in Live /\ val[Last.k] = Last.ret /\ ~Expired(Last.k) /\ queue[Len(queue)] = Last.k)
DropOK == (hist # <<>> /\ Last.op = "drop_table" /\ TABLED) => \A k \in Live : TableOf(k) # Last.a
SpecOK == NoDup /\ Accounting /\ Budget /\ Shape /\ GetOK /\ DropOK

Emit == Done => PrintT(<<"CASE", ToJson([limit0 |-> cfg0[1], ttl0 |-> cfg0[2], tabled |-> TABLED, ops |-> hist])>>)
=============================================================================
