---------------------------- MODULE GroupValues ----------------------------
(***************************************************************************)
(* C13 -- group key interning (GroupValues trait, datafusion physical-plan  *)
(* aggregates/group_values).                                                *)
(*                                                                         *)
(* State: `keys`, the sequence of distinct live group keys; the group id of *)
(* a key is its 0-based position.  A key is a tuple of NCOL column values,  *)
(* each in 0..KV where 0 is NULL (NULL is an ordinary key value).           *)
(*   Intern(batch)  returns for every row the id of its key; unseen keys    *)
(*                  are appended in first-seen order (new ids are exactly   *)
(*                  Len(keys), Len(keys)+1, ...).                           *)
(*   EmitAll        returns keys, leaves the store empty.                   *)
(*   EmitFirst(n)   returns the first n keys; the rest is renumbered down.  *)
(*   ClearShrink    empties the store.                                      *)
(*   Len            = Len(keys).                                            *)
(* `hist` records every operation with its expected observable result; a    *)
(* complete history (MAXOPS operations) is printed as one case and replayed *)
(* on every GroupValues implementation by `vadt c13`.                       *)
(***************************************************************************)
EXTENDS Integers, Sequences, FiniteSets, TLC, Json, Randomization

CONSTANTS NCOL,    \* number of key columns
          KV,      \* non-NULL values per column are 1..KV
          MAXB,    \* rows per interned batch (0..MAXB)
          MAXOPS,  \* operations per history
          NB,      \* 0: every batch is a successor (exhaustive); n > 0: n randomly drawn batches per step
                   \* (simulation: keeps intern from crowding out the other operations)
          MAXKEYS  \* state constraint: at most this many live keys (keeps exhaustive runs small)

VARIABLES keys, hist
vars == <<keys, hist>>

Vals  == 0..KV
Key   == [1..NCOL -> Vals]
Batches == UNION {[1..n -> Key] : n \in 0..MAXB}

RECURSIVE PosOf(_, _, _)
PosOf(ks, k, i) == IF i > Len(ks) THEN 0 ELSE IF ks[i] = k THEN i ELSE PosOf(ks, k, i + 1)

\* fold one batch: result = [keys, ids]
RECURSIVE InternRows(_, _, _)
InternRows(ks, batch, ids) ==
  IF batch = <<>> THEN [keys |-> ks, ids |-> ids]
  ELSE LET k == Head(batch)
           p == PosOf(ks, k, 1) IN
       IF p # 0 THEN InternRows(ks, Tail(batch), Append(ids, p - 1))
       ELSE InternRows(Append(ks, k), Tail(batch), Append(ids, Len(ks)))

Init == keys = <<>> /\ hist = <<>>

Rec(op, arg, batch, ids, out, ks) ==
  [op |-> op, arg |-> arg, batch |-> batch, ids |-> ids, out |-> out, len |-> Len(ks), pre |-> Len(keys)]

Intern(b) ==
  LET r == InternRows(keys, b, <<>>) IN
  /\ Len(r.keys) <= MAXKEYS
  /\ keys' = r.keys
  /\ hist' = Append(hist, Rec("intern", 0, b, r.ids, <<>>, r.keys))

\* emit needs a previous intern on this store (GroupValuesRows has no row buffer before that)
Interned == \E i \in 1..Len(hist) : hist[i].op = "intern"

EmitAll ==
  /\ Interned
  /\ keys' = <<>>
  /\ hist' = Append(hist, Rec("emit_all", 0, <<>>, <<>>, keys, <<>>))

EmitFirst(n) ==
  /\ Interned
  /\ n <= Len(keys)
  /\ keys' = SubSeq(keys, n + 1, Len(keys))
  /\ hist' = Append(hist, Rec("emit_first", n, <<>>, <<>>, SubSeq(keys, 1, n), SubSeq(keys, n + 1, Len(keys))))

ClearShrink(n) ==
  /\ keys' = <<>>
  /\ hist' = Append(hist, Rec("clear", n, <<>>, <<>>, <<>>, <<>>))

Next ==
  /\ Len(hist) < MAXOPS
  /\ \/ \E b \in (IF NB = 0 THEN Batches ELSE RandomSubset(NB, Batches)) : Intern(b)
     \/ EmitAll
     \/ \E n \in 1..MAXKEYS : EmitFirst(n)
     \/ \E n \in {0, 3} : ClearShrink(n)

Done == Len(hist) = MAXOPS
Spec == Init /\ [][Next]_vars
SimSpec == Init /\ [][Next \/ (Done /\ UNCHANGED vars)]_vars

(**************************** invariants ***********************************)
Last == hist[Len(hist)]

KeysDistinct == \A i, j \in 1..Len(keys) : i # j => keys[i] # keys[j]

\* the property, stated on the last operation
InternOK ==
  (hist # <<>> /\ Last.op = "intern") =>
    LET b == Last.batch  ids == Last.ids IN
    /\ Len(ids) = Len(b)
    /\ \A i \in 1..Len(b) : ids[i] \in 0..(Len(keys) - 1) /\ keys[ids[i] + 1] = b[i]   \* dense; id names the key
    /\ \A i, j \in 1..Len(b) : (b[i] = b[j]) <=> (ids[i] = ids[j])                    \* equal keys <=> equal ids
    /\ Last.len = Len(keys)
    /\ \A i \in 1..Len(b) :                            \* unseen keys get the ids pre, pre+1, ... in first-seen order
         ids[i] <= Last.pre + Cardinality({ids[j] : j \in {l \in 1..(i - 1) : ids[l] >= Last.pre}})
    /\ Len(keys) = Last.pre + Cardinality({ids[i] : i \in {l \in 1..Len(b) : ids[l] >= Last.pre}})

EmitOK ==
  (hist # <<>> /\ Last.op \in {"emit_all", "emit_first"}) =>
    /\ Last.len = Len(keys)
    /\ \A i, j \in 1..Len(Last.out) : i # j => Last.out[i] # Last.out[j]

SpecOK == KeysDistinct /\ InternOK /\ EmitOK

Emit == Done => PrintT(<<"CASE", ToJson([ncol |-> NCOL, ops |-> hist])>>)
=============================================================================
