------------------------------- MODULE Catalog -------------------------------
(***************************************************************************)
(* C49 -- catalog changes are applied exactly and reflected in the          *)
(* information schema (datafusion core/src/execution/context/mod.rs DDL     *)
(* handlers, catalog/src/memory/{catalog,schema}.rs, information_schema.rs, *)
(* view.rs, sql/src/statement.rs, common/src/table_reference.rs).           *)
(*                                                                         *)
(* State: catalogs -> schemas -> objects (tables with rows, views with a    *)
(* defining query over a source object), each object with its column list   *)
(* (name, Arrow type, nullability).  Actions = SQL statements, each of      *)
(* which either succeeds and updates the state or fails and leaves it:      *)
(*   CREATE DATABASE [IF NOT EXISTS] c                                      *)
(*   CREATE SCHEMA [IF NOT EXISTS] [c.]s       DROP SCHEMA [IF EXISTS] [c.]s [CASCADE] *)
(*   CREATE [OR REPLACE] TABLE [IF NOT EXISTS] ref (cols) | AS VALUES | AS SELECT *)
(*   CREATE [OR REPLACE] VIEW ref AS SELECT ... FROM src                    *)
(*   DROP TABLE|VIEW [IF EXISTS] ref           INSERT INTO ref VALUES (..)  *)
(*   SELECT * FROM ref                                                      *)
(* Name resolution: ref = [catalog.][schema.]name; a missing catalog is     *)
(* "datafusion", a missing schema is "public"; an identifier is a stored    *)
(* string plus a spelling: unquoted spellings (any letter case) denote the  *)
(* lower-case string, a quoted spelling denotes exactly its text (so "Ab",  *)
(* "AB" and ab are three names and "S1" is not s1).                         *)
(* A view evaluates its defining query over the CURRENT rows of its source; *)
(* the engine binds the source object when the view is created, so when the *)
(* source has since been dropped or replaced the view's rows are left       *)
(* unspecified (existence, columns and information schema stay specified).  *)
(* InformationSchema(state): IsTables / IsColumns / IsViews / IsSchemata.   *)
(*                                                                         *)
(* Histories come from a seed-threaded generator (pattern of PlanGen.tla);  *)
(* Emit prints every complete history with the expected outcome of every    *)
(* statement and the expected information schema after it.                  *)
(***************************************************************************)
EXTENDS Values, TLC, Json, Randomization, SequencesExt

CONSTANTS NH, LEN, BR,
          MUT     \* "none"; selftest only: a deliberately wrong reference ("foldquoted": a quoted identifier is
                  \* folded to lower case, "noreplace": OR REPLACE keeps the old object, "dropifexists": DROP IF
                  \* EXISTS of a missing object fails, "staleview": a view keeps the rows it had when created)

M == 46337
Mix(sd, k) == (sd * 31321 + k * 7919 + 12345) % M
Rnd(sd, n) == (Mix(sd, 77) % n)
PickSeq(seq, sd) == seq[Rnd(sd, Len(seq)) + 1]
Chance(p, sd) == Rnd(sd, 100) < p

DefCat == "datafusion"
DefSch == "public"

(* ---------------- identifiers and references ---------------- *)
\* sp: 0 as stored (lower case), 1 UPPER CASE unquoted, 3 Capitalised unquoted, 2 quoted
Id(x, sp) == [x |-> x, sp |-> sp]
NoId == Id("", 0)
LowerNames == {"a", "ab", "s1", "c2", "public", "datafusion"}
GenSp(x, sd) == IF x \in LowerNames THEN PickSeq(<<0, 0, 0, 1, 2, 3>>, sd) ELSE 2
GenId(x, sd) == Id(x, GenSp(x, sd))
Ref(c, s, n) == [c |-> c, s |-> s, n |-> n]
\* the stored name an identifier denotes ("foldquoted" is a selftest mutant)
Lower(x) == IF x = "Ab" \/ x = "AB" THEN "ab" ELSE IF x = "S1" THEN "s1" ELSE x
Den(id) == IF MUT = "foldquoted" THEN Lower(id.x) ELSE id.x
Resolve(r) == <<IF r.c.x = "" THEN DefCat ELSE Den(r.c), IF r.s.x = "" THEN DefSch ELSE Den(r.s), Den(r.n)>>

(* ---------------- columns, shapes, queries ---------------- *)
ColR(n, t, nn) == [n |-> n, t |-> t, nn |-> nn]
ShapeCols(sh) ==
  CASE sh = "T1" -> <<ColR("c1", "Int64", FALSE)>>
    [] sh = "T2" -> <<ColR("c1", "Int64", FALSE), ColR("c2", "Utf8View", FALSE)>>
    [] sh = "T3" -> <<ColR("c1", "Int32", TRUE), ColR("V", "Boolean", FALSE)>>
    [] sh = "V1" -> <<ColR("column1", "Int64", TRUE), ColR("column2", "Utf8", FALSE)>>
    [] sh = "V2" -> <<ColR("column1", "Int64", TRUE)>>
    [] sh = "A1" -> <<ColR("c1", "Int64", FALSE), ColR("c2", "Utf8", FALSE)>>      \* registered through the Rust API
ShapeRows(sh) ==
  CASE sh = "V1" -> << <<I(1), S(1)>>, <<I(2), Null>> >>
    [] sh = "V2" -> << <<I(3)>> >>
    [] sh = "A1" -> << <<I(1), S(1)>> >>
    [] OTHER -> <<>>

\* queries over a source whose first column is an integer:
\*   star: SELECT * FROM src     pos: SELECT f FROM src WHERE f > 0     expr: SELECT f + 1 AS d FROM src
\*   cast: SELECT CAST(f AS BIGINT) AS k, f AS "F2" FROM src        (aliases, one of them case-sensitive, and a cast)
\*   ren:  the object declares its own column list:  CREATE VIEW v (x) AS SELECT f FROM src   (column renamed)
\*                                                   CREATE TABLE t(x BIGINT) AS SELECT f FROM src (renamed and cast)
QCols(q, cols, isview) ==
  CASE q = "star" -> cols
    [] q = "pos" -> <<cols[1]>>
    [] q = "expr" -> <<ColR("d", "Int64", cols[1].nn)>>
    [] q = "cast" -> <<ColR("k", "Int64", cols[1].nn), ColR("F2", cols[1].t, cols[1].nn)>>
    [] q = "ren" -> <<ColR("x", IF isview THEN cols[1].t ELSE "Int64", cols[1].nn)>>
    [] q = "last" -> <<cols[Len(cols)]>>
    [] OTHER -> cols
QRows(q, rows) ==
  CASE q = "star" -> rows
    [] q = "pos" -> LET sel == SelectSeq(rows, LAMBDA r : r[1].k = "i" /\ r[1].v > 0) IN [i \in 1..Len(sel) |-> <<sel[i][1]>>]
    [] q = "expr" -> [i \in 1..Len(rows) |-> <<IF rows[i][1].k = "i" THEN I(rows[i][1].v + 1) ELSE Null>>]
    [] q = "cast" -> [i \in 1..Len(rows) |-> <<rows[i][1], rows[i][1]>>]
    [] q = "ren" -> [i \in 1..Len(rows) |-> <<rows[i][1]>>]
    [] q = "last" -> [i \in 1..Len(rows) |-> <<rows[i][Len(rows[i])]>>]
    [] OTHER -> rows

(* ---------------- state ---------------- *)
VARIABLES seed0, cur,
          cats,    \* sequence of catalog names
          schs,    \* sequence of <<catalog, schema>>
          objs,    \* sequence of objects
          hist
vars == <<seed0, cur, cats, schs, objs, hist>>

\* object: c, s, n; ty "table"|"view"; cols; rows (tables); unk (table content unknown: copied from an
\* unspecified view); q, src (views: query and the id of the source object); id = number of the creating statement
Obj(c, s, n, ty, cols, rows, unk, q, src, id, api) ==
  [c |-> c, s |-> s, n |-> n, ty |-> ty, cols |-> cols, rows |-> rows, unk |-> unk, q |-> q, src |-> src, id |-> id,
   api |-> api]       \* api: registered through SessionContext::register_table (a view then has no definition text)

HasCat(c) == \E i \in 1..Len(cats) : cats[i] = c
HasSch(c, s) == \E i \in 1..Len(schs) : schs[i] = <<c, s>>
ObjAt(t) == IF \E i \in 1..Len(objs) : <<objs[i].c, objs[i].s, objs[i].n>> = t
              THEN CHOOSE i \in 1..Len(objs) : <<objs[i].c, objs[i].s, objs[i].n>> = t ELSE 0
ObjById(id) == IF \E i \in 1..Len(objs) : objs[i].id = id THEN CHOOSE i \in 1..Len(objs) : objs[i].id = id ELSE 0

\* current rows of an object: [u |-> unspecified?, rows]
RECURSIVE RowsOf(_)
RowsOf(o) ==
  IF o.ty = "table" THEN [u |-> o.unk, rows |-> o.rows]
  ELSE IF MUT = "staleview" THEN [u |-> FALSE, rows |-> o.rows]
  ELSE LET j == ObjById(o.src) IN
       IF j = 0 THEN [u |-> TRUE, rows |-> <<>>]
       ELSE LET r == RowsOf(objs[j]) IN [u |-> r.u, rows |-> IF r.u THEN <<>> ELSE QRows(o.q, r.rows)]

(* ---------------- the information schema of a state ---------------- *)
IsTables(os) == [i \in 1..Len(os) |-> <<os[i].c, os[i].s, os[i].n, IF os[i].ty = "table" THEN "BASE TABLE" ELSE "VIEW">>]
IsColumns(os) == [i \in 1..Len(os) |-> [c |-> os[i].c, s |-> os[i].s, n |-> os[i].n, cols |-> os[i].cols]]
IsViews(os) == LET vs == SelectSeq(os, LAMBDA o : o.ty = "view" /\ ~o.api) IN
               [i \in 1..Len(vs) |-> [c |-> vs[i].c, s |-> vs[i].s, n |-> vs[i].n, id |-> vs[i].id]]
IsSchemata(ss) == ss

(* ---------------- statements ---------------- *)
Stmt(k, ref, src, q, shape, ine, orr, ifx, casc, row) ==
  [k |-> k, ref |-> ref, src |-> src, q |-> q, shape |-> shape, ine |-> ine, orr |-> orr, ifx |-> ifx, casc |-> casc,
   row |-> row]
NoRef == Ref(NoId, NoId, NoId)

CatPool == <<"datafusion", "datafusion", "datafusion", "datafusion", "datafusion", "c2">>
SchPool == <<"public", "public", "public", "s1", "s1", "S1">>
NamePool == <<"a", "a", "a", "ab", "ab", "ab", "Ab", "Ab", "AB", "a.b">>     \* "a.b": one quoted identifier containing a dot

\* a reference to the triple <<c, s, n>> in one of the qualifications that denote it
RefTo(t, sd) ==
  LET full == Ref(GenId(t[1], Mix(sd, 1)), GenId(t[2], Mix(sd, 2)), GenId(t[3], Mix(sd, 3)))
      part == Ref(NoId, GenId(t[2], Mix(sd, 2)), GenId(t[3], Mix(sd, 3)))
      bare == Ref(NoId, NoId, GenId(t[3], Mix(sd, 3)))
      c == Rnd(Mix(sd, 4), 10) IN
  IF t[1] # DefCat THEN full
  ELSE IF t[2] # DefSch THEN (IF c < 7 THEN part ELSE full)
  ELSE (IF c < 5 THEN bare ELSE IF c < 8 THEN part ELSE full)

\* with probability pe an existing object, else a name of the pool in (mostly) an existing schema
GenRef(pe, sd) ==
  IF Len(objs) > 0 /\ Chance(pe, Mix(sd, 1))
    THEN LET o == PickSeq(objs, Mix(sd, 2)) IN RefTo(<<o.c, o.s, o.n>>, Mix(sd, 3))
    ELSE LET cs == IF Len(schs) > 0 /\ Chance(75, Mix(sd, 7)) THEN PickSeq(schs, Mix(sd, 8))
                   ELSE <<PickSeq(CatPool, Mix(sd, 4)), PickSeq(SchPool, Mix(sd, 5))>> IN
         RefTo(<<cs[1], cs[2], PickSeq(NamePool, Mix(sd, 6))>>, Mix(sd, 3))

\* for the API readers: now and then a schema / catalog of the pools that may not exist (the call must fail)
ApiRef(pe, sd) ==
  IF Chance(30, Mix(sd, 21))
    THEN RefTo(<<PickSeq(CatPool, Mix(sd, 22)), PickSeq(<<"s1", "S1", "s1", "public">>, Mix(sd, 23)), PickSeq(NamePool, Mix(sd, 24))>>, Mix(sd, 25))
    ELSE GenRef(pe, sd)

\* a row for INSERT matching the columns (the first column is always a non-NULL integer)
GenVal(col, first, sd) ==
  IF first THEN PickSeq(<<I(0 - 1), I(0), I(1), I(2)>>, sd)
  ELSE IF ~col.nn /\ Chance(30, Mix(sd, 1)) THEN Null
  ELSE IF col.t \in {"Utf8", "Utf8View"} THEN S(Rnd(Mix(sd, 2), 3) + 1)
  ELSE IF col.t = "Boolean" THEN B(Chance(50, Mix(sd, 2)))
  ELSE I(Rnd(Mix(sd, 2), 3))
GenRowFor(cols, sd) == [j \in 1..Len(cols) |-> GenVal(cols[j], j = 1, Mix(sd, j))]

\* views whose source object still exists, and (for a view directly over a table) that table
LiveViews == SelectSeq(objs, LAMBDA o : o.ty = "view" /\ ObjById(o.src) # 0)

GenStmtBase(sd) ==
  LET c == IF Len(objs) = 0 /\ Chance(80, Mix(sd, 9))       \* nothing to refer to yet: mostly create something
             THEN PickSeq(<<3, 16, 25, 26, 27, 28, 29, 30, 84, 101>>, Mix(sd, 1))
             ELSE Rnd(Mix(sd, 1), 124)
      fl1 == Chance(40, Mix(sd, 2))
      fl2 == Chance(35, Mix(sd, 3))
      sref == LET s == PickSeq(<<"s1", "s1", "s1", "S1", "S1", "public">>, Mix(sd, 4))
                  cc == Rnd(Mix(sd, 5), 10) IN
              Ref(IF cc < 2 THEN GenId("c2", Mix(sd, 6)) ELSE IF cc < 4 THEN GenId("datafusion", Mix(sd, 6)) ELSE NoId,
                  GenId(s, Mix(sd, 7)), NoId) IN
  CASE c \in 0..8 -> Stmt("create_schema", sref, NoRef, "", "", fl1, FALSE, FALSE, FALSE, <<>>)
    [] c \in 9..14 -> Stmt("drop_schema", sref, NoRef, "", "", FALSE, FALSE, fl1, fl2, <<>>)
    [] c \in 15..18 -> Stmt("create_database", Ref(GenId("c2", Mix(sd, 6)), NoId, NoId), NoRef, "", "", fl1, FALSE, FALSE, FALSE, <<>>)
    [] c \in 19..39 ->
         LET how == Rnd(Mix(sd, 8), 10)
             ine == Chance(25, Mix(sd, 2))
             orr == Chance(30, Mix(sd, 3)) IN
         IF how < 5 \/ (Len(objs) = 0 /\ how >= 7) THEN Stmt("create_table", GenRef(35, Mix(sd, 10)), NoRef, "", PickSeq(<<"T1", "T2", "T3">>, Mix(sd, 11)), ine, orr, FALSE, FALSE, <<>>)
         ELSE IF how < 7 THEN Stmt("create_table", GenRef(35, Mix(sd, 10)), NoRef, "", PickSeq(<<"V1", "V2">>, Mix(sd, 11)), ine, orr, FALSE, FALSE, <<>>)
         ELSE Stmt("create_table", GenRef(35, Mix(sd, 10)), GenRef(85, Mix(sd, 12)),
                   PickSeq(<<"star", "pos", "expr", "cast", "ren", "ren", "bad2">>, Mix(sd, 11)), "", ine, orr, FALSE, FALSE, <<>>)
    [] c \in 40..54 -> Stmt("create_view", GenRef(35, Mix(sd, 10)), GenRef(85, Mix(sd, 12)), PickSeq(<<"star", "pos", "expr", "cast", "ren">>, Mix(sd, 11)), "",
                            FALSE, Chance(40, Mix(sd, 3)), FALSE, FALSE, <<>>)
    [] c \in 55..62 -> Stmt("drop_table", GenRef(75, Mix(sd, 10)), NoRef, "", "", FALSE, FALSE, fl1, FALSE, <<>>)
    [] c \in 63..69 -> Stmt("drop_view", GenRef(75, Mix(sd, 10)), NoRef, "", "", FALSE, FALSE, fl1, FALSE, <<>>)
    [] c \in 70..82 ->
         LET r == GenRef(85, Mix(sd, 10))
             i == ObjAt(Resolve(r)) IN
         Stmt("insert", r, NoRef, "", "", FALSE, FALSE, FALSE, FALSE,
              IF i # 0 THEN GenRowFor(objs[i].cols, Mix(sd, 13)) ELSE <<I(1)>>)
    \* SELECT * / SELECT f .. WHERE f > 0 / SELECT <last column> / SELECT * .. LIMIT 1  (projection, filter and limit reach the
    \* provider of a view separately)
    [] c \in 83..86 -> Stmt("select", GenRef(80, Mix(sd, 10)), NoRef, PickSeq(<<"star", "star", "pos", "last", "lim">>, Mix(sd, 11)), "",
                            FALSE, FALSE, FALSE, FALSE, <<>>)
    \* statements that must be refused: temporary objects, duplicate column names in the defining query
    [] c \in 119..123 -> Stmt(PickSeq(<<"create_table", "create_view">>, Mix(sd, 13)), GenRef(35, Mix(sd, 10)), GenRef(95, Mix(sd, 12)),
                       PickSeq(<<"dup", "temp">>, Mix(sd, 11)), "", FALSE, Chance(50, Mix(sd, 3)), FALSE, FALSE, <<>>)
    \* other readers of the same information
    [] c \in {89, 90, 113, 114, 115} -> Stmt("describe", GenRef(80, Mix(sd, 10)), NoRef, "", "", FALSE, FALSE, FALSE, FALSE, <<>>)
    [] c \in {91, 92, 110, 111, 112} -> Stmt("show_columns", GenRef(80, Mix(sd, 10)), NoRef, "", "", FALSE, FALSE, FALSE, FALSE, <<>>)
    [] c \in {93, 116} -> Stmt("show_tables", NoRef, NoRef, "", "", FALSE, FALSE, FALSE, FALSE, <<>>)
    \* the Rust API of SessionContext, interleaved with the SQL statements
    [] c \in {94, 95, 100, 101, 102, 103, 104, 105} -> Stmt("api_register_table", GenRef(30, Mix(sd, 10)), NoRef, "", "A1", FALSE, FALSE, FALSE, FALSE, <<>>)
    [] c \in {96, 106, 107, 108, 109} -> Stmt("api_register_view", GenRef(30, Mix(sd, 10)), GenRef(90, Mix(sd, 12)), PickSeq(<<"star", "pos", "cast">>, Mix(sd, 11)), "",
                      FALSE, FALSE, FALSE, FALSE, <<>>)
    [] c \in {87, 97, 98, 117, 118} -> Stmt("api_deregister", ApiRef(75, Mix(sd, 10)), NoRef, "", "", FALSE, FALSE, FALSE, FALSE, <<>>)
    [] OTHER -> Stmt("api_exists", ApiRef(60, Mix(sd, 10)), NoRef, "", "", FALSE, FALSE, FALSE, FALSE, <<>>)

\* when a live view exists, a good share of the statements change its source table or read the view
\* (the view must show the CURRENT rows of its source)
GenStmt(sd) ==
  IF Len(objs) > 0 /\ Len(LiveViews) = 0 /\ Chance(30, Mix(sd, 55))
    THEN Stmt("create_view", GenRef(20, Mix(sd, 56)), GenRef(100, Mix(sd, 57)), PickSeq(<<"star", "star", "pos", "expr">>, Mix(sd, 58)), "",
              FALSE, Chance(40, Mix(sd, 59)), FALSE, FALSE, <<>>)
  ELSE IF HasCat("c2") /\ ~(\E i \in 1..Len(schs) : schs[i][1] = "c2") /\ Chance(40, Mix(sd, 63))
    \* the second catalog exists but is empty: give it a schema ...
    THEN Stmt("create_schema", Ref(GenId("c2", Mix(sd, 64)), GenId(PickSeq(<<"s1", "S1", "public">>, Mix(sd, 65)), Mix(sd, 66)), NoId), NoRef, "", "",
              Chance(30, Mix(sd, 67)), FALSE, FALSE, FALSE, <<>>)
  ELSE IF (\E i \in 1..Len(schs) : schs[i][1] = "c2") /\ ~(\E i \in 1..Len(objs) : objs[i].c = "c2") /\ Chance(40, Mix(sd, 63))
    \* ... and objects (catalog-qualified creation in a non-default catalog)
    THEN LET cs == PickSeq(SelectSeq(schs, LAMBDA x : x[1] = "c2"), Mix(sd, 64)) IN
         Stmt("create_table", RefTo(<<cs[1], cs[2], PickSeq(NamePool, Mix(sd, 65))>>, Mix(sd, 66)), NoRef, "",
              PickSeq(<<"T1", "T2", "T3", "V1", "V2">>, Mix(sd, 67)), FALSE, FALSE, FALSE, FALSE, <<>>)
  ELSE IF (\E i \in 1..Len(objs) : objs[i].s # DefSch) /\ Chance(7, Mix(sd, 68))
    \* a schema with objects in it is dropped (CASCADE mostly; without it the statement must fail)
    THEN LET o == PickSeq(SelectSeq(objs, LAMBDA x : x.s # DefSch), Mix(sd, 69)) IN
         Stmt("drop_schema", Ref(IF o.c = DefCat /\ Chance(60, Mix(sd, 70)) THEN NoId ELSE GenId(o.c, Mix(sd, 71)), GenId(o.s, Mix(sd, 72)), NoId),
              NoRef, "", "", FALSE, FALSE, Chance(40, Mix(sd, 73)), Chance(75, Mix(sd, 74)), <<>>)
  ELSE IF Len(LiveViews) > 0 /\ Chance(45, Mix(sd, 50))
    THEN LET v == PickSeq(LiveViews, Mix(sd, 51))
             b == objs[ObjById(v.src)] IN
         IF b.ty = "table" /\ Chance(15, Mix(sd, 60))
           \* replace / drop the table a view reads: the view keeps existing with its columns
           THEN (IF Chance(70, Mix(sd, 61))
                   THEN Stmt("create_table", RefTo(<<b.c, b.s, b.n>>, Mix(sd, 53)), NoRef, "", PickSeq(<<"T1", "T2", "T3", "V1">>, Mix(sd, 62)),
                             FALSE, TRUE, FALSE, FALSE, <<>>)
                   ELSE Stmt("drop_table", RefTo(<<b.c, b.s, b.n>>, Mix(sd, 53)), NoRef, "", "", FALSE, FALSE, FALSE, FALSE, <<>>))
         ELSE IF b.ty = "table" /\ Chance(55, Mix(sd, 52))
           THEN Stmt("insert", RefTo(<<b.c, b.s, b.n>>, Mix(sd, 53)), NoRef, "", "", FALSE, FALSE, FALSE, FALSE,
                     GenRowFor(b.cols, Mix(sd, 54)))
           ELSE Stmt("select", RefTo(<<v.c, v.s, v.n>>, Mix(sd, 53)), NoRef, PickSeq(<<"star", "star", "pos", "last", "lim">>, Mix(sd, 55)), "",
                     FALSE, FALSE, FALSE, FALSE, <<>>)
    ELSE GenStmtBase(sd)

(* ---------------- meaning of a statement ---------------- *)
\* result: ok, count (INSERT), rows/unspec/cols (SELECT), and the state after
Out(ok, count, rows, unspec, cols, c2, s2, o2) ==
  [ok |-> ok, count |-> count, rows |-> rows, unspec |-> unspec, cols |-> cols, cats |-> c2, schs |-> s2, objs |-> o2]
Fail == Out(FALSE, 0, <<>>, FALSE, <<>>, cats, schs, objs)
Done(c2, s2, o2) == Out(TRUE, 0, <<>>, FALSE, <<>>, c2, s2, o2)
Noop == Done(cats, schs, objs)

Without(os, i) == IF i = 0 THEN os ELSE RemoveAt(os, i)

Apply(st, id) ==
  LET t == Resolve(st.ref)
      i == ObjAt(t)
      j == IF st.src = NoRef THEN 0 ELSE ObjAt(Resolve(st.src))
      schemaOK == HasCat(t[1]) /\ HasSch(t[1], t[2])
      replace(o) == IF MUT = "noreplace" /\ i # 0 THEN objs ELSE Append(Without(objs, i), o) IN
  CASE st.k = "create_database" ->
         LET c == Den(st.ref.c) IN
         IF HasCat(c) THEN (IF st.ine THEN Noop ELSE Fail) ELSE Done(Append(cats, c), schs, objs)
    [] st.k = "create_schema" ->
         IF ~HasCat(t[1]) THEN Fail
         ELSE IF HasSch(t[1], t[2]) THEN (IF st.ine THEN Noop ELSE Fail)
         ELSE Done(cats, Append(schs, <<t[1], t[2]>>), objs)
    [] st.k = "drop_schema" ->
         IF ~HasCat(t[1]) \/ ~HasSch(t[1], t[2]) THEN (IF st.ifx /\ MUT # "dropifexists" THEN Noop ELSE Fail)
         ELSE IF (\E k \in 1..Len(objs) : objs[k].c = t[1] /\ objs[k].s = t[2]) /\ ~st.casc THEN Fail
         ELSE Done(cats, SelectSeq(schs, LAMBDA x : x # <<t[1], t[2]>>),
                   SelectSeq(objs, LAMBDA o : ~(o.c = t[1] /\ o.s = t[2])))
    [] st.k = "create_table" ->
         IF (st.src # NoRef /\ j = 0) \/ ~schemaOK \/ st.q \in {"bad2", "dup", "temp"} THEN Fail      \* bad2: 2 columns declared, query has 1
         ELSE IF i # 0 /\ st.ine /\ st.orr THEN Fail
         ELSE IF i # 0 /\ st.ine THEN Noop
         ELSE IF i # 0 /\ ~st.orr THEN Fail
         ELSE IF st.src = NoRef
           THEN Done(cats, schs, replace(Obj(t[1], t[2], t[3], "table", ShapeCols(st.shape), ShapeRows(st.shape), FALSE, "", 0, id, FALSE)))
           ELSE LET r == RowsOf(objs[j]) IN
                Done(cats, schs, replace(Obj(t[1], t[2], t[3], "table", QCols(st.q, objs[j].cols, FALSE),
                                             IF r.u THEN <<>> ELSE QRows(st.q, r.rows), r.u, "", 0, id, FALSE)))
    [] st.k = "create_view" ->
         IF j = 0 \/ ~schemaOK \/ st.q \in {"dup", "temp"} THEN Fail
         ELSE IF i # 0 /\ ~st.orr THEN Fail
         ELSE LET r == RowsOf(objs[j]) IN
              Done(cats, schs, replace(Obj(t[1], t[2], t[3], "view", QCols(st.q, objs[j].cols, TRUE),
                                           IF MUT = "staleview" /\ ~r.u THEN QRows(st.q, r.rows) ELSE <<>>, FALSE, st.q, objs[j].id, id, FALSE)))
    [] st.k \in {"drop_table", "drop_view"} ->
         LET want == IF st.k = "drop_table" THEN "table" ELSE "view" IN
         IF i # 0 /\ objs[i].ty = want THEN Done(cats, schs, Without(objs, i))
         ELSE IF st.ifx /\ MUT # "dropifexists" THEN Noop ELSE Fail
    [] st.k = "insert" ->
         IF i = 0 \/ objs[i].ty # "table" \/ Len(st.row) # Len(objs[i].cols) THEN Fail
         ELSE Out(TRUE, 1, <<>>, FALSE, <<>>, cats, schs, [objs EXCEPT ![i].rows = Append(@, st.row)])
    [] st.k = "select" ->
         IF i = 0 THEN Fail
         ELSE LET r == RowsOf(objs[i])
                  qq == IF st.q \in {"pos", "last"} THEN st.q ELSE "star" IN      \* "lim": any one row of the object (checked by the driver)
              Out(TRUE, 0, IF r.u THEN <<>> ELSE QRows(qq, r.rows), r.u, QCols(qq, objs[i].cols, TRUE), cats, schs, objs)
    [] st.k \in {"describe", "show_columns"} ->
         IF i = 0 THEN Fail ELSE Out(TRUE, 0, <<>>, FALSE, objs[i].cols, cats, schs, objs)
    [] st.k = "show_tables" -> Noop
    \* SessionContext::register_table: no replace, no IF NOT EXISTS
    [] st.k = "api_register_table" ->
         IF ~schemaOK \/ i # 0 THEN Fail
         ELSE Done(cats, schs, Append(objs, Obj(t[1], t[2], t[3], "table", ShapeCols(st.shape), ShapeRows(st.shape), FALSE, "", 0, id, TRUE)))
    [] st.k = "api_register_view" ->
         IF j = 0 \/ ~schemaOK \/ i # 0 THEN Fail
         ELSE Done(cats, schs, Append(objs, Obj(t[1], t[2], t[3], "view", QCols(st.q, objs[j].cols, TRUE), <<>>, FALSE, st.q, objs[j].id, id, TRUE)))
    \* SessionContext::deregister_table removes a table or a view alike and reports whether there was one
    [] st.k = "api_deregister" ->
         IF ~schemaOK THEN Fail
         ELSE Out(TRUE, IF i # 0 THEN 1 ELSE 0, <<>>, FALSE, <<>>, cats, schs, Without(objs, i))
    [] st.k = "api_exists" ->
         IF ~schemaOK THEN Fail ELSE Out(TRUE, IF i # 0 THEN 1 ELSE 0, <<>>, FALSE, <<>>, cats, schs, objs)

(* ---------------- the state machine ---------------- *)
Init == /\ seed0 \in RandomSubset(NH, 1..(M - 1))
        /\ cur = seed0
        /\ cats = <<DefCat>>
        /\ schs = << <<DefCat, DefSch>> >>
        /\ objs = <<>>
        /\ hist = <<>>

\* what the renderer needs beyond the statement: first column name / all columns of the source or target
FirstCol(ref) == LET i == ObjAt(Resolve(ref)) IN IF i = 0 THEN "c1" ELSE objs[i].cols[1].n

Step(b) ==
  LET s1 == Mix(cur, b)
      st == GenStmt(s1)
      r == Apply(st, Len(hist) + 1) IN
  /\ cats' = r.cats /\ schs' = r.schs /\ objs' = r.objs
  /\ hist' = Append(hist, [st |-> st, tgt |-> Resolve(st.ref), fcol |-> IF st.src = NoRef THEN "" ELSE FirstCol(st.src),
                           ok |-> r.ok, count |-> r.count, rows |-> r.rows, unspec |-> r.unspec, cols |-> r.cols,
                           tables |-> IsTables(r.objs), columns |-> IsColumns(r.objs), views |-> IsViews(r.objs),
                           schemata |-> IsSchemata(r.schs)])
  /\ cur' = Mix(s1, 4242)
  /\ UNCHANGED seed0

Next == Len(hist) < LEN /\ \E b \in 1..BR : Step(b)
Spec == Init /\ [][Next]_vars

(* ---------------- invariants of the specification ---------------- *)
TypeOK ==
  /\ \A i \in 1..Len(objs) : HasCat(objs[i].c) /\ HasSch(objs[i].c, objs[i].s)          \* objects live in existing schemas
  /\ \A i, k \in 1..Len(objs) : i # k => <<objs[i].c, objs[i].s, objs[i].n>> # <<objs[k].c, objs[k].s, objs[k].n>>
  /\ \A i, k \in 1..Len(schs) : i # k => schs[i] # schs[k]
  /\ \A i \in 1..Len(schs) : HasCat(schs[i][1])
  /\ \A i \in 1..Len(objs) : Len(objs[i].cols) >= 1
\* a failed statement leaves the state unchanged (checked on the recorded history: consecutive information schemas)
FailKeeps ==
  \A i \in 2..Len(hist) : ~hist[i].ok =>
     (hist[i].tables = hist[i-1].tables /\ hist[i].schemata = hist[i-1].schemata /\ hist[i].columns = hist[i-1].columns)

Emit ==
  (Len(hist) = LEN) => PrintT(<<"CASE", ToJson([seed |-> seed0, steps |-> hist])>>)
=============================================================================
