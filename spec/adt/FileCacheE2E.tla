---------------------------- MODULE FileCacheE2E ----------------------------
(***************************************************************************)
(* C40 end-to-end layer: a listing table over a directory whose files are   *)
(* rewritten, added and deleted between queries, with the list-files cache, *)
(* the file-statistics cache and the file-metadata cache enabled.           *)
(*                                                                         *)
(* Files 1 and 3 live in partition p=1, file 2 in partition p=2.  A file    *)
(* has a content version, a size class and a modification time.  Caches:    *)
(*   lc        the cached listing of the whole table WITH the size and     *)
(*             modification time each file had when it was listed (used     *)
(*             while valid: until its TTL expires or the table is dropped;  *)
(*             CREATE EXTERNAL TABLE lists the directory),                  *)
(*   st[f]     the set of <<size, mtime, version>> entries the statistics   *)
(*             cache MAY hold for f (table scoped: dropped with the table); *)
(*             after a query with unconstrained answer it is not known      *)
(*             whether the old entry was replaced, and an entry may have    *)
(*             been stored under the stale size/mtime of a cached listing,  *)
(*   fm[f]     the same for the file-metadata cache (never dropped).        *)
(* A query over partition filter q must return exactly the current content  *)
(* of the files of the effective listing, unless                            *)
(*   - the (still valid) cached listing names a deleted file or a file      *)
(*     whose size / modification time changed since it was listed, or       *)
(*   - some listed file was rewritten with unchanged size AND unchanged     *)
(*     modification time while a cache holds its old version                *)
(* (then the validity conditions still hold and the property allows the     *)
(* cached data: expect = "any").                                            *)
(***************************************************************************)
EXTENDS Integers, Sequences, FiniteSets, TLC, Json, Randomization

CONSTANTS LISTMODE,  \* "off" | "inf" | "ttl"
          MAXOPS,
          NB         \* 0: all successors; > 0: simulation thinning

VARIABLES files, lc, st, fm, clock, nextver, hist
vars == <<files, lc, st, fm, clock, nextver, hist>>

F == 1..3
PartOf(f) == IF f = 2 THEN 2 ELSE 1
Present == {f \in F : files[f].present}
Cur(f) == <<files[f].sz, files[f].mt, files[f].ver>>

StaleRisk(c, f) == \E t \in c[f] : t[1] = files[f].sz /\ t[2] = files[f].mt /\ t[3] # files[f].ver
\* the listing a CREATE / a cache miss stores
Listed(fs) == IF LISTMODE = "off" THEN [valid |-> FALSE, list |-> {}, meta |-> [f \in F |-> <<0, 0>>]]
              ELSE [valid |-> TRUE, list |-> {f \in F : fs[f].present}, meta |-> [f \in F |-> <<fs[f].sz, fs[f].mt>>]]

Init ==
  /\ files = [f \in F |-> [present |-> f # 3, ver |-> f, sz |-> 1, mt |-> 1]]
  /\ lc = Listed([f \in F |-> [present |-> f # 3, ver |-> f, sz |-> 1, mt |-> 1]])
  /\ st = [f \in F |-> {}]
  /\ fm = [f \in F |-> IF f # 3 THEN {<<1, 1, f>>} ELSE {}]    \* CREATE may read the footers
  /\ clock = 1 /\ nextver = 4 /\ hist = <<>>

Rec(op, f, a, b, expect) == [op |-> op, f |-> f, a |-> a, b |-> b, expect |-> expect]
Log(r) == hist' = Append(hist, r)

Rewrite(f, keepSize, keepMtime) ==
  /\ files[f].present
  /\ files' = [files EXCEPT ![f] = [present |-> TRUE, ver |-> nextver,
                                    sz |-> IF keepSize THEN @.sz ELSE 3 - @.sz,
                                    mt |-> IF keepMtime THEN @.mt ELSE clock + 1]]
  /\ clock' = clock + 1 /\ nextver' = nextver + 1
  /\ Log(Rec("rewrite", f, IF keepSize THEN 1 ELSE 0, IF keepMtime THEN 1 ELSE 0, <<>>))
  /\ UNCHANGED <<lc, st, fm>>

Add(f, s) ==
  /\ ~files[f].present
  /\ files' = [files EXCEPT ![f] = [present |-> TRUE, ver |-> nextver, sz |-> s, mt |-> clock + 1]]
  /\ clock' = clock + 1 /\ nextver' = nextver + 1
  /\ Log(Rec("add", f, s, 0, <<>>))
  /\ UNCHANGED <<lc, st, fm>>

Delete(f) ==
  /\ files[f].present /\ Cardinality(Present) > 1
  /\ files' = [files EXCEPT ![f].present = FALSE]
  /\ Log(Rec("delete", f, 0, 0, <<>>))
  /\ UNCHANGED <<lc, st, fm, clock, nextver>>

DropCreate ==
  /\ lc' = Listed(files)
  /\ st' = [f \in F |-> {}]
  /\ fm' = [f \in F |-> IF files[f].present THEN fm[f] \cup {Cur(f)} ELSE fm[f]]
  /\ Log(Rec("drop_create", 0, 0, 0, <<>>))
  /\ UNCHANGED <<files, clock, nextver>>

Expire ==
  /\ LISTMODE = "ttl"
  /\ lc' = [lc EXCEPT !.valid = FALSE]
  /\ Log(Rec("expire", 0, 0, 0, <<>>))
  /\ UNCHANGED <<files, st, fm, clock, nextver>>

\* q = 0: no partition filter, 1 / 2: WHERE p = q (prefix-scoped listing)
Query(q) ==
  LET full  == IF LISTMODE # "off" /\ lc.valid THEN lc.list ELSE Present
      L     == {f \in full : q = 0 \/ PartOf(f) = q}
      exact == /\ \A f \in L : files[f].present
               /\ (LISTMODE # "off" /\ lc.valid) => \A f \in L : lc.meta[f] = <<files[f].sz, files[f].mt>>
               /\ \A f \in L : ~StaleRisk(st, f) /\ ~StaleRisk(fm, f)
      exp   == IF exact THEN {<<f, files[f].ver, files[f].sz>> : f \in L} ELSE {<<0, 0, 0>>} IN
  /\ lc' = IF LISTMODE = "off" \/ lc.valid THEN lc ELSE Listed(files)
  /\ LET upd(c) == [f \in F |->
                      IF f \notin L \/ ~files[f].present THEN c[f]
                      ELSE IF exact THEN {Cur(f)}
                      ELSE c[f] \cup {Cur(f)} \cup (IF lc.valid THEN {<<lc.meta[f][1], lc.meta[f][2], files[f].ver>>} ELSE {})] IN
     st' = upd(st) /\ fm' = upd(fm)
  /\ Log(Rec("query", 0, q, IF exact THEN 1 ELSE 0, exp))
  /\ UNCHANGED <<files, clock, nextver>>

Gate(n) == NB = 0 \/ RandomElement(1..n) = 1
Next ==
  /\ Len(hist) < MAXOPS
  /\ \/ \E q \in 0..2 : Query(q)
     \/ \E f \in F : \E ks \in BOOLEAN : \E km \in BOOLEAN : Rewrite(f, ks, km)
     \/ Gate(2) /\ \E f \in F : \E s \in {1, 2} : Add(f, s)
     \/ Gate(2) /\ \E f \in F : Delete(f)
     \/ Gate(3) /\ DropCreate
     \/ Gate(2) /\ Expire
Done == Len(hist) = MAXOPS
Spec == Init /\ [][Next]_vars
SimSpec == Init /\ [][Next \/ (Done /\ UNCHANGED vars)]_vars

(* the property, on the model: an exact answer never contains a file that is not listed/current, and every    *)
(* cache entry that would be used for it passes the validity rule with the current version                    *)
Last == hist[Len(hist)]
ValidityOK ==
  (hist # <<>> /\ Last.op = "query" /\ Last.b = 1) =>
     \A t \in Last.expect : /\ files[t[1]].present /\ files[t[1]].ver = t[2]
                            /\ \A e \in st[t[1]] : (e[1] = files[t[1]].sz /\ e[2] = files[t[1]].mt) => e[3] = t[2]
ListingOK == lc.valid => (LISTMODE # "off")
SpecOK == ValidityOK /\ ListingOK

Emit == Done => PrintT(<<"CASE", ToJson([listmode |-> LISTMODE, ops |-> hist])>>)
=============================================================================
