CONSTANTS NH = 30  LEN = 6  BR = 1  MUT = "none"
SPECIFICATION Spec
INVARIANTS TypeOK FailKeeps Emit
CHECK_DEADLOCK FALSE
