-------------------------- MODULE FileCacheValidity --------------------------
(***************************************************************************)
(* C40 validity layer: a cached per-file entry (file metadata, statistics)  *)
(* may be used for the current file only if the file's size and             *)
(* modification time -- and, for statistics, the table's schema fingerprint *)
(* -- are the ones it was cached with.  Every combination is a case.        *)
(***************************************************************************)
EXTENDS Integers, TLC, Json
VARIABLE c
Cases == [csize : {1, 2}, cmtime : {1, 2}, cfp : {1, 2}, size : {1, 2}, mtime : {1, 2}, fp : {1, 2}]
Valid(x) == x.csize = x.size /\ x.cmtime = x.mtime /\ x.cfp = x.fp
Init == c \in Cases
Next == UNCHANGED c
Spec == Init /\ [][Next]_c
Emit == PrintT(<<"CASE", ToJson([csize |-> c.csize, cmtime |-> c.cmtime, cfp |-> c.cfp, size |-> c.size,
                                 mtime |-> c.mtime, fp |-> c.fp, valid |-> Valid(c)])>>)
=============================================================================
