------------------------------ MODULE PlanGen ------------------------------
(***************************************************************************)
(* Program generator: typed random query plans (AST records of Rel.tla)     *)
(* over random small databases, each printed with the result the reference  *)
(* semantics assigns to it.  One TLC initial state = one case; the invariant*)
(* Emit prints <<"CASE", json>>.  Run:  tlc -seed S  (RandomElement and     *)
(* RandomSubset are seeded by -seed, so cases are reproducible).            *)
(*                                                                         *)
(* Scope: NT tables with fixed column kinds, 0..MAXROWS rows, integer       *)
(* values {NULL,-1,0,1,2}, string pool indices {NULL,1,2,3}, booleans.      *)
(***************************************************************************)
EXTENDS Rel, TLC, Json, Randomization, SequencesExt

CONSTANTS N,        \* number of cases
          DEPTH,    \* plan nesting depth
          EDEPTH,   \* expression nesting depth
          MAXROWS,  \* rows per table 0..MAXROWS
          FEATURES  \* subset of {"join","agg","setop","subquery","sort","limit","distinct","case","arith"}

Schemas == << <<"i", "i", "s">>, <<"i", "i">>, <<"i", "s", "b">> >>
NT == Len(Schemas)

(***************************************************************************)
(* Randomness is threaded explicitly: every generator takes a seed and      *)
(* derives sub-seeds with Mix, so generation is a pure function of the seed *)
(* (TLC may evaluate a LET definition more than once; with RandomElement    *)
(* inside, two uses of the same definition would disagree).  The per-case   *)
(* seeds themselves come from RandomSubset in Init (seeded by `tlc -seed`). *)
(* Modulus 46337 keeps every product inside TLC's 32-bit integers.          *)
(***************************************************************************)
M == 46337
Mix(sd, k) == (sd * 31321 + k * 7919 + 12345) % M
Rnd(sd, n) == (Mix(sd, 77) % n)                    \* 0..n-1
PickSeq(seq, sd) == seq[Rnd(sd, Len(seq)) + 1]
Chance(p, sd) == Rnd(sd, 100) < p
SetSeq(set) == SetToSortSeq(set, <)
Has(f) == f \in FEATURES

IntVals == <<Null, I(0 - 1), I(0), I(1), I(2)>>
StrVals == <<Null, S(1), S(2), S(3)>>
BoolVals == <<Null, TrueV, FalseV>>
ValsOf(k) == IF k = "i" THEN IntVals ELSE IF k = "s" THEN StrVals ELSE BoolVals

GenRow(sch, sd) == [c \in 1..Len(sch) |-> PickSeq(ValsOf(sch[c]), Mix(sd, c))]
GenTable(sch, sd) == LET n == Rnd(sd, MAXROWS + 1) IN [r \in 1..n |-> GenRow(sch, Mix(sd, 100 + r))]
GenDB(sd) == [t \in 1..NT |-> GenTable(Schemas[t], Mix(sd, t))]

ColsOf(sch, k) == {c \in 1..Len(sch) : sch[c] = k}
PickCol(sch, k, sd) == PickSeq(SetSeq(ColsOf(sch, k)), sd)
\* literals are mostly non-NULL
\* literals carry their kind `t` so that a NULL literal can be rendered with a type
LitT(v, k) == [op |-> "lit", v |-> v, t |-> k]
GenLit(k, sd) == LitT(IF Chance(85, sd) THEN PickSeq(Tail(ValsOf(k)), Mix(sd, 1)) ELSE Null, k)

(* ---------------- expressions ---------------- *)
\* a leaf of kind k over schema sch (column if there is one, else literal); osch = outer schema
Leaf(k, sch, osch, sd) ==
  IF ColsOf(osch, k) # {} /\ Chance(35, Mix(sd, 1)) THEN [op |-> "outer", i |-> PickCol(osch, k, Mix(sd, 2))]
  ELSE IF ColsOf(sch, k) # {} /\ Chance(75, Mix(sd, 3)) THEN Col(PickCol(sch, k, Mix(sd, 4)))
  ELSE GenLit(k, Mix(sd, 5))

RECURSIVE GenE(_, _, _, _, _)
GenE(k, d, sch, osch, sd) ==
  LET A == GenE("i", d - 1, sch, osch, Mix(sd, 11))
      B2 == GenE("i", d - 1, sch, osch, Mix(sd, 12))
      P1 == GenE("b", d - 1, sch, osch, Mix(sd, 13))
      P2 == GenE("b", d - 1, sch, osch, Mix(sd, 14))
      c == Rnd(Mix(sd, 15), 12) + 1 IN
  IF d = 0 \/ Chance(25, Mix(sd, 16)) THEN Leaf(k, sch, osch, Mix(sd, 17))
  ELSE IF k = "i" THEN
    (CASE c \in {1, 2, 3} /\ Has("arith") -> Bin(PickSeq(<<"+", "-", "*">>, Mix(sd, 18)), A, B2)
      [] c = 4 /\ Has("arith") -> Bin(PickSeq(<<"/", "%">>, Mix(sd, 18)), A, B2)
      [] c = 5 /\ Has("arith") -> Un(PickSeq(<<"neg", "abs">>, Mix(sd, 18)), A)
      [] c \in {6, 9} /\ Has("case") -> CaseE(<< <<P1, A>> >>, IF Chance(50, Mix(sd, 18)) THEN LitT(Null, "i") ELSE B2)
      [] c \in {7, 10} /\ Has("case") -> Coalesce(<<A, B2>>)
      [] c = 8 /\ Has("case") -> NullIfE(A, B2)
      [] OTHER -> Leaf(k, sch, osch, Mix(sd, 17)))
  ELSE IF k = "s" THEN
    (IF Has("case") /\ Chance(40, Mix(sd, 18))
       THEN Coalesce(<<Leaf("s", sch, osch, Mix(sd, 19)), Leaf("s", sch, osch, Mix(sd, 20))>>)
       ELSE Leaf("s", sch, osch, Mix(sd, 17)))
  ELSE \* boolean
    LET ck == PickSeq(<<"i", "i", "s">>, Mix(sd, 21)) IN
    (CASE c \in {1, 2, 3} -> Bin(PickSeq(<<"=", "<>", "<", "<=", ">", ">=">>, Mix(sd, 18)), A, B2)
      [] c = 4 -> Bin(PickSeq(<<"=", "<>", "<", ">=">>, Mix(sd, 18)), Leaf("s", sch, osch, Mix(sd, 19)), Leaf("s", sch, osch, Mix(sd, 20)))
      [] c = 5 -> Bin(PickSeq(<<"and", "or">>, Mix(sd, 18)), P1, P2)
      [] c = 6 -> Un("not", P1)
      [] c = 7 -> Un(PickSeq(<<"isnull", "isnotnull">>, Mix(sd, 18)), GenE(PickSeq(<<"i", "s">>, Mix(sd, 22)), d - 1, sch, osch, Mix(sd, 23)))
      [] c = 8 -> Un(PickSeq(<<"istrue", "isfalse", "isnottrue", "isnotfalse">>, Mix(sd, 18)), P1)
      [] c = 9 -> InList(A, [j \in 1..(Rnd(Mix(sd, 24), 3) + 1) |-> GenLit("i", Mix(sd, 30 + j))], Chance(40, Mix(sd, 25)))
      [] c = 10 -> BetweenE(A, GenLit("i", Mix(sd, 26)), GenLit("i", Mix(sd, 27)), Chance(30, Mix(sd, 25)))
      [] c = 11 -> Bin(PickSeq(<<"isdistinct", "isnotdistinct">>, Mix(sd, 18)),
                       GenE(ck, d - 1, sch, osch, Mix(sd, 28)), GenE(ck, d - 1, sch, osch, Mix(sd, 29)))
      [] c = 12 -> Leaf("b", sch, osch, Mix(sd, 17)))

(* ---------------- plans ---------------- *)
Scan(t) == [p |-> [op |-> "scan", t |-> t], sch |-> Schemas[t]]

\* a correlated or uncorrelated subquery predicate over the outer schema `sch` (which has an int column)
SubPred(sch, sd) ==
  LET t == Rnd(Mix(sd, 1), NT) + 1
      tsch == Schemas[t]
      tcol == Col(PickCol(tsch, "i", Mix(sd, 2)))
      ocol == PickCol(sch, "i", Mix(sd, 3))
      c == Rnd(Mix(sd, 7), 3) + 1
      neg == Chance(50, Mix(sd, 10))
      \* the engine rejects a *correlated* NOT IN at planning time ("null_aware anti join only supports
      \* single column join key"): that combination is outside the supported fragment and not generated
      correlated == Chance(60, Mix(sd, 4)) /\ ~(c = 1 /\ neg)
      corr == IF correlated THEN Bin("=", tcol, [op |-> "outer", i |-> ocol])
              ELSE GenE("b", 1, tsch, <<>>, Mix(sd, 5))
      base == IF Chance(70, Mix(sd, 6)) THEN [op |-> "filter", p |-> corr, src |-> [op |-> "scan", t |-> t]]
              ELSE [op |-> "scan", t |-> t] IN
  CASE c = 1 -> [op |-> "insub", e |-> Col(PickCol(sch, "i", Mix(sd, 8))),
                 sub |-> [op |-> "project", es |-> <<Col(PickCol(tsch, "i", Mix(sd, 9)))>>, src |-> base],
                 neg |-> neg]
    [] c = 2 -> [op |-> "exists", sub |-> base, neg |-> neg]
    [] c = 3 -> Bin(PickSeq(<<"=", "<", ">=", "<>">>, Mix(sd, 10)), Col(PickCol(sch, "i", Mix(sd, 8))),
                    [op |-> "scalarsub", sub |-> [op |-> "agg", keys |-> <<>>,
                         aggs |-> <<[f |-> PickSeq(<<"max", "min", "sum", "count">>, Mix(sd, 11)),
                                     e |-> Col(PickCol(tsch, "i", Mix(sd, 9))), distinct |-> FALSE]>>,
                         src |-> base]])

GenAgg(sch, sd) ==
  LET f == PickSeq(<<"count", "countstar", "sum", "min", "max">>, Mix(sd, 1))
      k == IF f \in {"min", "max"} /\ ColsOf(sch, "s") # {} /\ Chance(30, Mix(sd, 2)) THEN "s" ELSE "i" IN
  [a |-> [f |-> f, e |-> IF f = "countstar" THEN LitT(I(1), "i")
                         ELSE GenE(k, IF Chance(70, Mix(sd, 3)) THEN 0 ELSE 1, sch, <<>>, Mix(sd, 4)),
          distinct |-> (f \in {"count", "sum"} /\ Chance(30, Mix(sd, 5)))],
   k |-> IF f \in {"count", "countstar"} THEN "i" ELSE k]

KindSeq == <<"i", "i", "s", "b">>

RECURSIVE GenPlan(_, _)
GenPlan(d, sd) ==
  IF d = 0 THEN Scan(Rnd(sd, NT) + 1)
  ELSE
    LET c == Rnd(Mix(sd, 1), 10) + 1
        s == GenPlan(d - 1, Mix(sd, 2))
        r0 == GenPlan(IF Chance(60, Mix(sd, 3)) THEN 0 ELSE d - 1, Mix(sd, 4)) IN
    CASE c \in {1, 2} ->
           IF ColsOf(s.sch, "i") # {} /\ Has("subquery") /\ Chance(35, Mix(sd, 5))
             THEN [p |-> [op |-> "filter", p |-> SubPred(s.sch, Mix(sd, 6)), src |-> s.p], sch |-> s.sch]
             ELSE [p |-> [op |-> "filter", p |-> GenE("b", EDEPTH, s.sch, <<>>, Mix(sd, 6)), src |-> s.p], sch |-> s.sch]
      [] c = 3 ->
           LET ks == [j \in 1..(Rnd(Mix(sd, 5), 3) + 1) |-> PickSeq(KindSeq, Mix(sd, 20 + j))] IN
           [p |-> [op |-> "project", es |-> [j \in 1..Len(ks) |-> GenE(ks[j], EDEPTH, s.sch, <<>>, Mix(sd, 30 + j))], src |-> s.p],
            sch |-> ks]
      [] c \in {4, 5} /\ Has("join") ->
           LET lw == Len(s.sch)  rw == Len(r0.sch)
               both == s.sch \o r0.sch
               eq == IF ColsOf(s.sch, "i") # {} /\ ColsOf(r0.sch, "i") # {}
                       THEN Bin(PickSeq(<<"=", "=", "=", "<", "isnotdistinct">>, Mix(sd, 5)),
                                Col(PickCol(s.sch, "i", Mix(sd, 6))), Col(lw + PickCol(r0.sch, "i", Mix(sd, 7))))
                       ELSE LitT(TrueV, "b")
               on == IF Chance(35, Mix(sd, 8)) THEN Bin("and", eq, GenE("b", 1, both, <<>>, Mix(sd, 9))) ELSE eq
               jt == PickSeq(<<"inner", "left", "right", "full", "semi", "anti">>, Mix(sd, 10)) IN
           [p |-> [op |-> "join", jt |-> jt, on |-> on, l |-> s.p, r |-> r0.p, lw |-> lw, rw |-> rw],
            sch |-> IF jt \in {"semi", "anti"} THEN s.sch ELSE both]
      [] c \in {6, 7} /\ Has("agg") ->
           LET nk == Rnd(Mix(sd, 5), 3)
               kks == [j \in 1..nk |-> PickSeq(KindSeq, Mix(sd, 20 + j))]
               keys == [j \in 1..nk |-> GenE(kks[j], IF Chance(70, Mix(sd, 40 + j)) THEN 0 ELSE 1, s.sch, <<>>, Mix(sd, 30 + j))]
               as == [j \in 1..(Rnd(Mix(sd, 6), 2) + 1) |-> GenAgg(s.sch, Mix(sd, 50 + j))] IN
           [p |-> [op |-> "agg", keys |-> keys, aggs |-> [j \in 1..Len(as) |-> as[j].a], src |-> s.p],
            sch |-> kks \o [j \in 1..Len(as) |-> as[j].k]]
      [] c = 8 /\ Has("distinct") -> [p |-> [op |-> "distinct", src |-> s.p], sch |-> s.sch]
      [] c = 9 /\ Has("setop") ->
           \* half of the set operations are over one narrow integer column on both sides, so that
           \* duplicate rows and rows common to both inputs are frequent (multiplicities matter for ALL)
           IF ColsOf(s.sch, "i") # {} /\ ColsOf(r0.sch, "i") # {} /\ Chance(50, Mix(sd, 7))
             THEN [p |-> [op |-> "setop", f |-> PickSeq(<<"union", "intersect", "except">>, Mix(sd, 5)), all |-> Chance(60, Mix(sd, 6)),
                          l |-> [op |-> "project", es |-> <<Col(PickCol(s.sch, "i", Mix(sd, 8)))>>, src |-> s.p],
                          r |-> [op |-> "project", es |-> <<Col(PickCol(r0.sch, "i", Mix(sd, 9)))>>, src |-> r0.p]],
                   sch |-> <<"i">>]
             ELSE
           LET r == [op |-> "project", es |-> [j \in 1..Len(s.sch) |-> GenE(s.sch[j], 1, r0.sch, <<>>, Mix(sd, 30 + j))], src |-> r0.p] IN
           [p |-> [op |-> "setop", f |-> PickSeq(<<"union", "intersect", "except">>, Mix(sd, 5)), all |-> Chance(50, Mix(sd, 6)),
                   l |-> s.p, r |-> r], sch |-> s.sch]
      [] OTHER -> s

\* optional ORDER BY / LIMIT at the root only
GenRoot(sd) ==
  LET s == GenPlan(DEPTH, Mix(sd, 1))
      w == Len(s.sch)
      keys == [j \in 1..(Rnd(Mix(sd, 2), IF w < 2 THEN w ELSE 2) + 1) |->
                 [i |-> Rnd(Mix(sd, 10 + j), w) + 1, asc |-> Chance(50, Mix(sd, 20 + j)), nf |-> Chance(50, Mix(sd, 30 + j))]]
      sorted == IF Has("sort") /\ Chance(35, Mix(sd, 3)) THEN [op |-> "sort", keys |-> keys, src |-> s.p] ELSE s.p
      limited == IF Has("limit") /\ Chance(25, Mix(sd, 4))
                   THEN [op |-> "limit", skip |-> Rnd(Mix(sd, 5), 3), fetch |-> PickSeq(<<0 - 1, 0, 1, 2, 3>>, Mix(sd, 6)), src |-> sorted]
                   ELSE sorted IN
  [p |-> limited, sch |-> s.sch]

VARIABLES n, dbseed, planseed
vars == <<n, dbseed, planseed>>

\* N cases; the per-case seeds are drawn by TLC's seeded RNG (tlc -seed)
Init == /\ n \in 1..N
        /\ dbseed = RandomElement(1..(M - 1))
        /\ planseed = RandomElement(1..(M - 1))
Next == UNCHANGED vars

Emit ==
  LET db == GenDB(dbseed)
      plan == GenRoot(planseed)
      res == EvalPlan(plan.p, <<>>, db)
      alt == EvalPlan(AltPlan(plan.p), <<>>, db)
      universe == IF plan.p.op = "limit"
                    THEN EvalPlan(IF plan.p.src.op = "sort" THEN plan.p.src.src ELSE plan.p.src, <<>>, db).rows
                    ELSE <<>> IN
  PrintT(<<"CASE", ToJson([id |-> n, dbseed |-> dbseed, planseed |-> planseed, db |-> db, schemas |-> Schemas,
                           plan |-> plan.p, schema |-> plan.sch, mode |-> Mode(plan.p), expect |-> res, expect_alt |-> alt,
                           universe |-> universe])>>)
=============================================================================
