CONSTANTS N = 200  DEPTH = 2  EDEPTH = 2  MAXROWS = 3
  FEATURES = {"join","agg","setop","subquery","sort","limit","distinct","case","arith"}
INIT Init
NEXT Next
INVARIANT Emit
CHECK_DEADLOCK FALSE
