------------------------------ MODULE JoinGen ------------------------------
(***************************************************************************)
(* Case generator for C05: every state is one join case                     *)
(*   [l, r, jt, nen, nk, f, kt, na]  +  the expected result computed with   *)
(* the reference definition of spec/lib/Join.tla.  TLC prints one JSON      *)
(* line per case (invariant Emit); the Rust driver (harness/vops c05) runs  *)
(* every join operator that supports the case on the real engine.           *)
(*                                                                         *)
(* Sections (tag `sec`):                                                    *)
(*   A  keyed joins (nk = 1 or 2), <= 3 rows per side over {NULL,0,1}       *)
(*   B  keyless joins (nk = 0): cross / nested-loop / piecewise-merge       *)
(*   C  an empty side (left, right, both)                                   *)
(*   D  bigger skewed inputs (4..6 rows, keys {NULL,0,1,2})                 *)
(*   E  null-aware anti joins (NOT IN semantics)                            *)
(*   X  exhaustive: every pair of relations with <= XR rows (thorough)      *)
(* Sample sizes are constants set by lib/c05.py; RandomSubset is seeded by  *)
(* TLC's -seed.                                                             *)
(***************************************************************************)
EXTENDS Join, Randomization, Json, TLC

CONSTANTS NCA, NLA, NRA,     \* section A: configs, left relations per config, right per left
          NCB, NLB, NRB,     \* section B
          NCC, NRC,          \* section C
          NCD, ND,           \* section D
          NLE, NRE,          \* section E
          XR                 \* section X: max rows (0 = section off)

VARIABLE c
vars == <<c>>

KD(kt)  == IF kt = "s" THEN {Null, S(0), S(1)} ELSE {Null, I(0), I(1)}
KDB(kt) == IF kt = "s" THEN {Null, S(0), S(1), S(2)} ELSE {Null, I(0), I(1), I(2)}
PD      == {Null, I(0), I(1)}
PDB     == {Null, I(0), I(1), I(2)}

RelsN(kt, n)  == [1..n -> KD(kt) \X PD]
Rels(kt, max) == UNION {RelsN(kt, n) : n \in 0..max}
\* skewed: most rows share key 0 / NULL
BigRels(kt, n) == [1..n -> KDB(kt) \X PDB]

F1 == {"none", "lt", "ge", "lnull", "rnull"}
Cfgs1 == {[jt |-> jt, nen |-> nen, nk |-> nk, f |-> f, kt |-> kt, na |-> FALSE] :
            jt \in JoinTypes, nen \in BOOLEAN, nk \in {1, 2}, f \in F1, kt \in {"i", "s"}}
Cfgs0 == {[jt |-> jt, nen |-> FALSE, nk |-> 0, f |-> f, kt |-> "i", na |-> FALSE] :
            jt \in JoinTypes, f \in Filters}
CfgsE == {[jt |-> jt, nen |-> FALSE, nk |-> 1, f |-> "none", kt |-> kt, na |-> TRUE] :
            jt \in {"LeftAnti", "RightAnti"}, kt \in {"i", "s"}}

Sub(n, SS) == IF n >= Cardinality(SS) THEN SS ELSE RandomSubset(n, SS)

Expect(cf, l, r) ==
  IF cf.na THEN NullAwareAnti(cf.jt, l, r)
  ELSE Join(cf.jt, l, r, 2, 2, cf.nk, cf.nen, cf.f)

Case(sec, cf, l, r) ==
  [sec |-> sec, jt |-> cf.jt, nen |-> cf.nen, nk |-> cf.nk, f |-> cf.f, kt |-> cf.kt, na |-> cf.na,
   l |-> l, r |-> r,
   ln |-> ColNullable(l, 2), rn |-> ColNullable(r, 2),
   nullable |-> OutNullable(cf.jt, ColNullable(l, 2), ColNullable(r, 2)),
   expect |-> Expect(cf, l, r)]

Init ==
  \/ \E cf \in Sub(NCA, Cfgs1) : \E l \in Sub(NLA, Rels(cf.kt, 3)) : \E r \in Sub(NRA, Rels(cf.kt, 3)) :
        c = Case("A", cf, l, r)
  \/ \E cf \in Sub(NCB, Cfgs0) : \E l \in Sub(NLB, Rels("i", 3)) : \E r \in Sub(NRB, Rels("i", 3)) :
        c = Case("B", cf, l, r)
  \/ \E cf \in Sub(NCC, Cfgs1 \cup Cfgs0 \cup CfgsE) : \E x \in Sub(NRC, Rels(cf.kt, 3)) :
        \/ c = Case("C", cf, <<>>, x)
        \/ c = Case("C", cf, x, <<>>)
  \/ \E cf \in Sub(NCD, Cfgs1 \cup Cfgs0 \cup CfgsE) : \E n \in 4..6 : \E m \in {1, 3, 6} :
        \E l \in RandomSubset(ND, BigRels(cf.kt, n)) : \E r \in RandomSubset(ND, BigRels(cf.kt, m)) :
        c = Case("D", cf, l, r)
  \/ \E cf \in CfgsE : \E l \in Sub(NLE, Rels(cf.kt, 3)) : \E r \in Sub(NRE, Rels(cf.kt, 3)) :
        c = Case("E", cf, l, r)
  \/ /\ XR > 0
     /\ \E cf \in {x \in Cfgs1 : x.kt = "i" /\ x.nk = 1} \cup CfgsE \cup Cfgs0 :
          \E l \in Rels(cf.kt, XR) : \E r \in Rels(cf.kt, XR) : c = Case("X", cf, l, r)

Next == UNCHANGED vars
Spec == Init /\ [][Next]_vars

Emit == PrintT(<<"CASE", ToJson(c)>>)

\* specification-level sanity of the reference definition (checked on every generated case)
Sane ==
  LET nl == Len(c.l)  nr == Len(c.r)  ne == Len(c.expect) IN
  /\ c.jt \in {"LeftSemi", "LeftAnti"} => ne <= nl
  /\ c.jt \in {"RightSemi", "RightAnti"} => ne <= nr
  /\ c.jt = "LeftMark" => ne = nl
  /\ c.jt = "RightMark" => ne = nr
  /\ c.jt = "Left" => ne >= nl
  /\ c.jt = "Right" => ne >= nr
  /\ c.jt = "Full" => ne >= nl /\ ne >= nr
  /\ c.jt = "Inner" => ne <= nl * nr
  /\ \A i \in 1..ne : Len(c.expect[i]) = Len(c.nullable)
  /\ \A i \in 1..ne : \A k \in 1..Len(c.nullable) : IsNull(c.expect[i][k]) => c.nullable[k]
=============================================================================
