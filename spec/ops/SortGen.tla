------------------------------ MODULE SortGen ------------------------------
(***************************************************************************)
(* Case generator for C08.  Every state is one sort case:                   *)
(*   types   kind of each key column ("i" int, "f" float token, "s" string) *)
(*   keys    [col, desc, nf] per key (1..3 keys; column nk+1 is a row id)   *)
(*   rows    the input in arrival order                                     *)
(*   sorted  canonical sorted permutation (stable insertion sort, Sort.tla) *)
(*   fetch   -1 (none), 0, 1, 2, 3, or more than the number of rows         *)
(*   pl      length of the key prefix on which `presorted` is sorted        *)
(*   presorted  rows stably sorted on the first pl keys only                *)
(*   assign  partition (1..np) of every row of `sorted` (merge inputs)      *)
(*   ptk     expected rows of per-partition TopK for the three kinds        *)
(* TLC checks on every case that `sorted` satisfies the property text       *)
(* (Sorted /\ SameBag) -- invariant Sane.                                   *)
(***************************************************************************)
EXTENDS Sort, Json, TLC

CONSTANTS NSMALL,   \* number of small cases (0..8 rows)
          NBIG,     \* number of big cases (20..40 rows, for spills / multi-level merges)
          NEDGE,    \* number of edge cases (0/1 rows, all-equal keys, all NULL)
          NMED,     \* medium cases (33..131 rows, odd and even): spilled runs with odd-sized batches
          NREV,     \* adversarial arrival orders (reverse sorted / already sorted): every row replaces
                    \* a TopK heap row, heap compaction, early-exhausted merge inputs
          NTIE,     \* 10..40 rows over two values per key, fetch inside a group of equal keys
          NLARGE    \* large single-key cases (514..2051 rows) whose sorted order is given in closed form

VARIABLE c
vars == <<c>>

Ints   == {Null, I(0 - 1), I(0), I(1), I(2)}
Floats == {Null} \cup {F(i) : i \in 0..6}
Strs   == {Null} \cup {S(i) : i \in 0..5}
Dom(t) == IF t = "i" THEN Ints ELSE IF t = "f" THEN Floats ELSE Strs
\* per case and column only one of the two zero tokens is used (see Sort.tla): the zero token of
\* column j in case i is a deterministic function of (i, j), applied to the drawn rows
ZeroOf(i, j) == 2 + ((i + j) % 2)
FixZeros(rows, i) ==
  [r \in 1..Len(rows) |-> [j \in 1..Len(rows[r]) |->
      IF rows[r][j].k = "f" /\ rows[r][j].v \in {2, 3} THEN F(ZeroOf(i, j)) ELSE rows[r][j]]]

Types == {"i", "f", "s"}
RandTypes(nk) == [j \in 1..nk |-> RandomElement(Types)]
RandKeys(nk)  == [j \in 1..nk |-> [col |-> j, desc |-> RandomElement(BOOLEAN), nf |-> RandomElement(BOOLEAN)]]
RandRow(ty, id) == [j \in 1..(Len(ty) + 1) |-> IF j <= Len(ty) THEN RandomElement(Dom(ty[j])) ELSE I(id)]
RandRows(ty, n) == [i \in 1..n |-> RandRow(ty, i)]
\* low-cardinality rows (many ties): each key drawn from 2 values of its domain
TieRow(ty, id, pick) == [j \in 1..(Len(ty) + 1) |-> IF j <= Len(ty) THEN RandomElement(pick[j]) ELSE I(id)]

Case(sec, ci, ty, keys, rows0, fetch, np) ==
  LET rows == FixZeros(rows0, ci)
      s  == SortSeq(rows, keys)
      pl == IF Len(keys) = 1 THEN 1 ELSE RandomElement(1..(Len(keys) - 1))
      k  == IF fetch < 1 THEN 1 ELSE fetch
  IN [sec |-> sec, types |-> ty, keys |-> keys, rows |-> rows, sorted |-> s, fetch |-> fetch,
      pl |-> pl, presorted |-> SortSeq(rows, SubSeq(keys, 1, pl)),
      np |-> np, assign |-> [i \in 1..Len(s) |-> RandomElement(1..np)],
      ptk |-> IF Len(keys) < 2 THEN [k |-> 0, rownumber |-> <<>>, rank |-> <<>>, denserank |-> <<>>]
              ELSE [k |-> k, rownumber |-> PTopK("rownumber", s, keys, 1, k),
                    rank |-> PTopK("rank", s, keys, 1, k), denserank |-> PTopK("denserank", s, keys, 1, k)]]

Fetches(n) == {0 - 1, 0, 1, 2, 3, n + 2}

Small(i) ==
  LET nk == RandomElement(1..3)
      ty == RandTypes(nk)
      n  == RandomElement(0..8)
      tie == RandomElement(BOOLEAN)
      pick == [j \in 1..nk |-> {RandomElement(Dom(ty[j])), RandomElement(Dom(ty[j])), Null}]
      rows == IF tie THEN [r \in 1..n |-> TieRow(ty, r, pick)] ELSE RandRows(ty, n)
  IN Case("S", i, ty, RandKeys(nk), rows, RandomElement(Fetches(n)), RandomElement(1..4))

Big(i) ==
  LET nk == RandomElement(1..3)
      ty == RandTypes(nk)
      n  == RandomElement(20..40)
  IN Case("B", i, ty, RandKeys(nk), RandRows(ty, n), RandomElement({0 - 1, 0 - 1, 1, 5, 17, n + 1}), RandomElement(1..4))

Med(i) ==
  LET nk == RandomElement(1..3)
      ty == RandTypes(nk)
      n  == RandomElement({33, 34, 66, 67, 130, 131})
  IN Case("M", i, ty, RandKeys(nk), RandRows(ty, n), RandomElement({0 - 1, 0 - 1, 0 - 1, 7, 64, n - 1}), RandomElement(2..4))

Reverse(s) == [i \in 1..Len(s) |-> s[Len(s) + 1 - i]]
Rev(i) ==
  LET nk == RandomElement(1..3)
      ty == RandTypes(nk)
      n  == RandomElement(6..40)
      keys == RandKeys(nk)
      base == SortSeq(FixZeros(RandRows(ty, n), i), keys)
      rows == IF RandomElement(BOOLEAN) THEN Reverse(base) ELSE base
  IN Case("W", i, ty, keys, rows, RandomElement({0 - 1, 1, 2, 3, 5, n - 1}), RandomElement(1..4))

Tie(i) ==
  LET nk == RandomElement(1..2)
      ty == RandTypes(nk)
      n  == RandomElement(10..40)
      pick == [j \in 1..nk |-> {RandomElement(Dom(ty[j])), RandomElement(Dom(ty[j]))}]
      rows == [r \in 1..n |-> TieRow(ty, r, pick)]
  IN Case("T", i, ty, RandKeys(nk), rows, RandomElement(1..n), RandomElement(1..4))

(***************************************************************************)
(* Large cases: n rows, one integer key.  Row i (0-based) has               *)
(*   p(i) = (a * i) % n   (a coprime to n: a permutation of 0..n-1)         *)
(*   key  = NULL if p < z, else p \div t  (t > 1 gives ties), id = i + 1    *)
(* so listing the rows by ascending p lists NULLs first and then the keys   *)
(* in non-decreasing order; the four option combinations are the four       *)
(* obvious rearrangements of that listing.  inv is the inverse of a mod n.  *)
(***************************************************************************)
LargeParams == {[n |-> 514, a |-> 3, inv |-> 343], [n |-> 1030, a |-> 3, inv |-> 687],
                [n |-> 2050, a |-> 3, inv |-> 1367], [n |-> 2051, a |-> 2, inv |-> 1026],
                [n |-> 515, a |-> 2, inv |-> 258]}
Large(i) ==
  LET q  == RandomElement(LargeParams)
      n  == q.n
      t  == RandomElement({1, 1, 2, 7})
      z  == RandomElement({0, 0, 1, 5})
      desc == RandomElement(BOOLEAN)
      nf == RandomElement(BOOLEAN)
      KeyAt(p) == IF p < z THEN Null ELSE I(p \div t)
      RowAtP(p) == <<KeyAt(p), I(((q.inv * p) % n) + 1)>>
      rows == [r \in 1..n |-> <<KeyAt((q.a * (r - 1)) % n), I(r)>>]
      \* position j (1-based) of the sorted output -> p
      PAt(j) == IF ~desc /\ nf THEN j - 1
                ELSE IF ~desc /\ ~nf THEN (IF j <= n - z THEN z + j - 1 ELSE j - (n - z) - 1)
                ELSE IF desc /\ nf THEN (IF j <= z THEN j - 1 ELSE n - 1 - (j - z - 1))
                ELSE (IF j <= n - z THEN n - j ELSE j - (n - z) - 1)
      s == [j \in 1..n |-> RowAtP(PAt(j))]
      fetch == RandomElement({0 - 1, 0 - 1, 0 - 1, 100, n - 1})
  IN [sec |-> "L", types |-> <<"i">>, keys |-> <<[col |-> 1, desc |-> desc, nf |-> nf]>>, rows |-> rows,
      sorted |-> s, fetch |-> fetch, pl |-> 1, presorted |-> s, np |-> RandomElement(2..4),
      assign |-> [j \in 1..n |-> 1 + (j % 2)],
      ptk |-> [k |-> 0, rownumber |-> <<>>, rank |-> <<>>, denserank |-> <<>>]]

Edge(i) ==
  LET nk == RandomElement(1..3)
      ty == RandTypes(nk)
      n  == RandomElement({0, 1, 2, 5})
      v  == [j \in 1..nk |-> RandomElement(Dom(ty[j]))]
      rows == [r \in 1..n |-> [j \in 1..(nk + 1) |-> IF j <= nk THEN v[j] ELSE I(r)]]
  IN Case("E", i, ty, RandKeys(nk), rows, RandomElement(Fetches(n)), RandomElement(1..4))

Init ==
  \/ \E i \in 1..NSMALL : c = Small(i)
  \/ \E i \in 1..NBIG : c = Big(i)
  \/ \E i \in 1..NEDGE : c = Edge(i)
  \/ \E i \in 1..NMED : c = Med(i)
  \/ \E i \in 1..NREV : c = Rev(i)
  \/ \E i \in 1..NTIE : c = Tie(i)
  \/ \E i \in 1..NLARGE : c = Large(i)
Next == UNCHANGED vars
Spec == Init /\ [][Next]_vars

Emit == PrintT(<<"CASE", ToJson(c)>>)

OneZero == \A j \in 1..Len(c.keys) : ~(\E r1, r2 \in 1..Len(c.rows) : c.rows[r1][j] = F(2) /\ c.rows[r2][j] = F(3))

\* large cases: linear-time check that `sorted` is a sorted permutation of `rows` (ids are 1..n)
SaneLarge ==
  LET n == Len(c.rows) IN
  /\ Len(c.sorted) = n
  /\ Sorted(c.sorted, c.keys)
  /\ \A j \in 1..n : c.sorted[j][2].v \in 1..n /\ c.rows[c.sorted[j][2].v] = c.sorted[j]
  /\ Cardinality({c.sorted[j][2].v : j \in 1..n}) = n

Sane ==
  IF c.sec = "L" THEN SaneLarge ELSE
  /\ OneZero
  /\ IsSortOf(c.sorted, c.rows, c.keys)
  /\ IsTopKOf(Prefix(c.sorted, IF c.fetch < 0 THEN Len(c.sorted) ELSE c.fetch), c.rows, c.keys, c.fetch)
  /\ Sorted(c.presorted, SubSeq(c.keys, 1, c.pl)) /\ SameBag(c.presorted, c.rows)
  /\ IsSubBag(c.ptk.rownumber, c.rows) /\ IsSubBag(c.ptk.rank, c.rows) /\ IsSubBag(c.ptk.denserank, c.rows)
  /\ Sorted(c.ptk.rank, c.keys) /\ Sorted(c.ptk.denserank, c.keys) /\ Sorted(c.ptk.rownumber, c.keys)
  /\ IsSubBag(c.ptk.rownumber, c.ptk.rank) /\ IsSubBag(c.ptk.rank, c.ptk.denserank)
=============================================================================
