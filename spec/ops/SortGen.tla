------------------------------ MODULE SortGen ------------------------------
(***************************************************************************)
(* Case generator for C08.  Every state is one sort case:                   *)
(*   types   kind of each key column ("i" int, "f" float token, "s" string) *)
(*   keys    [col, desc, nf] per key (1..3 keys; column nk+1 is a row id)   *)
(*   rows    the input in arrival order                                     *)
(*   sorted  canonical sorted permutation (stable insertion sort, Sort.tla) *)
(*   fetch   -1 (none), 0, 1, 2, 3, or more than the number of rows         *)
(*   pl      length of the key prefix on which `presorted` is sorted        *)
(*   presorted  rows stably sorted on the first pl keys only                *)
(*   assign  partition (1..np) of every row of `sorted` (merge inputs)      *)
(*   ptk     expected rows of per-partition TopK for the three kinds        *)
(* TLC checks on every case that `sorted` satisfies the property text       *)
(* (Sorted /\ SameBag) -- invariant Sane.                                   *)
(***************************************************************************)
EXTENDS Sort, Json, TLC

CONSTANTS NSMALL,   \* number of small cases (0..8 rows)
          NBIG,     \* number of big cases (20..40 rows, for spills / multi-level merges)
          NEDGE     \* number of edge cases (0/1 rows, all-equal keys, all NULL)

VARIABLE c
vars == <<c>>

Ints   == {Null, I(0 - 1), I(0), I(1), I(2)}
Floats == {Null} \cup {F(i) : i \in 0..6}
Strs   == {Null} \cup {S(i) : i \in 0..5}
Dom(t) == IF t = "i" THEN Ints ELSE IF t = "f" THEN Floats ELSE Strs
\* per case and column only one of the two zero tokens is used (see Sort.tla): the zero token of
\* column j in case i is a deterministic function of (i, j), applied to the drawn rows
ZeroOf(i, j) == 2 + ((i + j) % 2)
FixZeros(rows, i) ==
  [r \in 1..Len(rows) |-> [j \in 1..Len(rows[r]) |->
      IF rows[r][j].k = "f" /\ rows[r][j].v \in {2, 3} THEN F(ZeroOf(i, j)) ELSE rows[r][j]]]

Types == {"i", "f", "s"}
RandTypes(nk) == [j \in 1..nk |-> RandomElement(Types)]
RandKeys(nk)  == [j \in 1..nk |-> [col |-> j, desc |-> RandomElement(BOOLEAN), nf |-> RandomElement(BOOLEAN)]]
RandRow(ty, id) == [j \in 1..(Len(ty) + 1) |-> IF j <= Len(ty) THEN RandomElement(Dom(ty[j])) ELSE I(id)]
RandRows(ty, n) == [i \in 1..n |-> RandRow(ty, i)]
\* low-cardinality rows (many ties): each key drawn from 2 values of its domain
TieRow(ty, id, pick) == [j \in 1..(Len(ty) + 1) |-> IF j <= Len(ty) THEN RandomElement(pick[j]) ELSE I(id)]

Case(sec, ci, ty, keys, rows0, fetch, np) ==
  LET rows == FixZeros(rows0, ci)
      s  == SortSeq(rows, keys)
      pl == IF Len(keys) = 1 THEN 1 ELSE RandomElement(1..(Len(keys) - 1))
      k  == IF fetch < 1 THEN 1 ELSE fetch
  IN [sec |-> sec, types |-> ty, keys |-> keys, rows |-> rows, sorted |-> s, fetch |-> fetch,
      pl |-> pl, presorted |-> SortSeq(rows, SubSeq(keys, 1, pl)),
      np |-> np, assign |-> [i \in 1..Len(s) |-> RandomElement(1..np)],
      ptk |-> IF Len(keys) < 2 THEN [k |-> 0, rownumber |-> <<>>, rank |-> <<>>, denserank |-> <<>>]
              ELSE [k |-> k, rownumber |-> PTopK("rownumber", s, keys, 1, k),
                    rank |-> PTopK("rank", s, keys, 1, k), denserank |-> PTopK("denserank", s, keys, 1, k)]]

Fetches(n) == {0 - 1, 0, 1, 2, 3, n + 2}

Small(i) ==
  LET nk == RandomElement(1..3)
      ty == RandTypes(nk)
      n  == RandomElement(0..8)
      tie == RandomElement(BOOLEAN)
      pick == [j \in 1..nk |-> {RandomElement(Dom(ty[j])), RandomElement(Dom(ty[j])), Null}]
      rows == IF tie THEN [r \in 1..n |-> TieRow(ty, r, pick)] ELSE RandRows(ty, n)
  IN Case("S", i, ty, RandKeys(nk), rows, RandomElement(Fetches(n)), RandomElement(1..4))

Big(i) ==
  LET nk == RandomElement(1..3)
      ty == RandTypes(nk)
      n  == RandomElement(20..40)
  IN Case("B", i, ty, RandKeys(nk), RandRows(ty, n), RandomElement({0 - 1, 0 - 1, 1, 5, 17, n + 1}), RandomElement(1..4))

Edge(i) ==
  LET nk == RandomElement(1..3)
      ty == RandTypes(nk)
      n  == RandomElement({0, 1, 2, 5})
      v  == [j \in 1..nk |-> RandomElement(Dom(ty[j]))]
      rows == [r \in 1..n |-> [j \in 1..(nk + 1) |-> IF j <= nk THEN v[j] ELSE I(r)]]
  IN Case("E", i, ty, RandKeys(nk), rows, RandomElement(Fetches(n)), RandomElement(1..4))

Init ==
  \/ \E i \in 1..NSMALL : c = Small(i)
  \/ \E i \in 1..NBIG : c = Big(i)
  \/ \E i \in 1..NEDGE : c = Edge(i)
Next == UNCHANGED vars
Spec == Init /\ [][Next]_vars

Emit == PrintT(<<"CASE", ToJson(c)>>)

OneZero == \A j \in 1..Len(c.keys) : ~(\E r1, r2 \in 1..Len(c.rows) : c.rows[r1][j] = F(2) /\ c.rows[r2][j] = F(3))

Sane ==
  /\ OneZero
  /\ IsSortOf(c.sorted, c.rows, c.keys)
  /\ IsTopKOf(Prefix(c.sorted, IF c.fetch < 0 THEN Len(c.sorted) ELSE c.fetch), c.rows, c.keys, c.fetch)
  /\ Sorted(c.presorted, SubSeq(c.keys, 1, c.pl)) /\ SameBag(c.presorted, c.rows)
  /\ IsSubBag(c.ptk.rownumber, c.rows) /\ IsSubBag(c.ptk.rank, c.rows) /\ IsSubBag(c.ptk.denserank, c.rows)
  /\ Sorted(c.ptk.rank, c.keys) /\ Sorted(c.ptk.denserank, c.keys) /\ Sorted(c.ptk.rownumber, c.keys)
  /\ IsSubBag(c.ptk.rownumber, c.ptk.rank) /\ IsSubBag(c.ptk.rank, c.ptk.denserank)
=============================================================================
