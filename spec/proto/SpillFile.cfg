CONSTANTS KINDS = {"full", "empty", "sliced", "nulls"}  MAXOPS = 4
SPECIFICATION Spec
INVARIANTS FinishedNonEmpty ContentIsAppends Emit
CHECK_DEADLOCK FALSE
