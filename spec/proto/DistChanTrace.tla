--------------------------- MODULE DistChanTrace ---------------------------
(* Binding B2: executions of the real distributor channels recorded by the   *)
(* harness (one event per executed region, with the API-level result that    *)
(* the step produced) are validated against DistChanImpl.  All invariants    *)
(* are evaluated in every matched state.                                     *)
EXTENDS DistChanImpl, Json, IOUtils, TLCExt

\* one line per recorded run: [ev |-> <<event, ...>>]
\* event: k ("s"/"r"), c, i, l (label), res ("" | "ok" | "err" | "pend" | "some" | "none" | "done"), v (<<i, k>> for "some")
Runs == ndJsonDeserialize(IOEnv.TRACE)

VARIABLES run, l
tvars == <<vars, run, l>>

TraceInit == Init /\ run \in 1..Len(Runs) /\ l = 1

Evs == Runs[run].ev
Ev == Evs[l]
P == <<Ev.c, Ev.i>>

\* the API-level observation made by the harness during this step must be what the model says
ResOk ==
  IF Ev.k = "s"
    THEN /\ (Ev.res = "ok")   <=> (sentCnt'[P] = sentCnt[P] + 1)
         /\ (Ev.res = "err")  <=> (sendErr'[P] /\ ~sendErr[P])
         /\ (Ev.res = "pend") <=> (pc'[P] = "S_park")
         /\ (Ev.res = "done") <=> (pc'[P] = "Done")
    ELSE /\ (Ev.res = "some") <=> (rcnt'[Ev.c] = rcnt[Ev.c] + 1)
         /\ (Ev.res = "some") => recvd'[Ev.c][rcnt'[Ev.c]] = <<Ev.v[1], Ev.v[2]>>
         /\ (Ev.res = "none") <=> (gotNone'[Ev.c] /\ ~gotNone[Ev.c])
         /\ (Ev.res = "pend") <=> (pc'[P] = "R_park")
         /\ (Ev.res = "done") <=> (pc'[P] = "Done")

TraceStep ==
  /\ l <= Len(Evs)
  /\ ~AllDone /\ Next
  /\ last' = <<Ev.k, Ev.c, Ev.i, Ev.l>>
  /\ ResOk
  /\ l' = l + 1 /\ UNCHANGED run

\* a fully matched run stutters; a run that cannot match its next event is a TLC deadlock, whose
\* counterexample is the longest matched prefix (the state before the first unmatched event)
TraceDone == l > Len(Evs) /\ UNCHANGED tvars

TraceNext == TraceStep \/ TraceDone
TraceSpec == TraceInit /\ [][TraceNext]_tvars

Alias == [run |-> run, l |-> l, next_event |-> IF l <= Len(Evs) THEN Ev ELSE [k |-> "none"],
          pc |-> pc, queue |-> queue, alive |-> alive, rwSome |-> rwSome, rwReg |-> rwReg, held |-> held,
          nSend |-> nSend, empty |-> empty, swSome |-> swSome, swList |-> swList, wk |-> wk,
          recvd |-> recvd, pushed |-> pushed]
=============================================================================
