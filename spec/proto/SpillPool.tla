------------------------------ MODULE SpillPool ------------------------------
(***************************************************************************)
(* Implementation-grain model of datafusion/physical-plan/src/spill/        *)
(* spill_pool.rs: one action per lock region.  Every action name is the     *)
(* hook site `sp_<name>` placed immediately before that lock region in the  *)
(* Rust code (cfg datafusion_verif), so a TLC behaviour is a schedule the   *)
(* controlled scheduler can drive the real code through (binding B1) and a  *)
(* recorded execution is a sequence of these labels (binding B2).           *)
(*                                                                         *)
(* Locks: the pool lock protects <<files, openW, remW, poolWk>>; each file  *)
(* lock protects <<written, finished, fileWk, hasW>> of that file.  No      *)
(* action touches both groups, which is the "never hold both locks" rule.   *)
(* Wakers: `wake` sets the reader's `woken` flag, which survives until the  *)
(* next poll begins - exactly a task waker's semantics.                     *)
(***************************************************************************)
EXTENDS Naturals, Sequences, FiniteSets, TLC

CONSTANTS W,       \* number of writers (1 = spsc_channel, >1 = mpsc_channel clones)
          NB,      \* max pushes per writer
          ROT,     \* a file is rotated once it holds ROT batches
          FAILS,   \* push faults enabled (append failure, finish-on-rotation failure)
          MAXF,    \* bound on files created
          MAXIO,   \* bound on disk reads that return Pending first (i/o in flight)
          FIXED    \* TRUE: the error paths finalise the popped file (the repaired code)

Writers == 1..W
Files   == 1..MAXF

VARIABLES
  wpc, wf, wdone, wfs,             \* writer locals: pc, file in hand, pushes finished, files to finalise in Drop
  files, openW, remW, poolWk, nf,  \* pool-lock state (nf = files created so far; ghost counter)
  written, finished, fileWk, hasW, \* file-lock state
  rpc, cur, readCnt, parked, woken, eos, io,  \* reader (io = i/o-pending reads so far; bounded by MAXIO)
  out,                             \* batches the reader has yielded, in order
  okPushed, attempted,             \* ghost: batches whose push_batch call returned Ok / was started
  last                             \* <<process kind, index, label>> of the last step (schedule extraction; hidden by VIEW)

wvars == <<wpc, wf, wdone, wfs>>
pvars == <<files, openW, remW, poolWk, nf>>
fvars == <<written, finished, fileWk, hasW>>
rvars == <<rpc, cur, readCnt, parked, eos, io>>
gvars == <<out, okPushed, attempted>>
vars  == <<wvars, pvars, fvars, rvars, woken, gvars, last>>
view  == <<wvars, pvars, fvars, rvars, woken, gvars>>

Batch(w, k) == <<w, k>>

Init ==
  /\ wpc = [w \in Writers |-> "P1"] /\ wf = [w \in Writers |-> 0]
  /\ wdone = [w \in Writers |-> 0] /\ wfs = [w \in Writers |-> <<>>]
  /\ files = <<>> /\ openW = <<>> /\ remW = W /\ poolWk = FALSE /\ nf = 0
  /\ written = [f \in Files |-> <<>>] /\ finished = [f \in Files |-> FALSE]
  /\ fileWk = [f \in Files |-> FALSE] /\ hasW = [f \in Files |-> FALSE]
  /\ rpc = "B" /\ cur = 0 /\ readCnt = 0 /\ parked = FALSE /\ woken = FALSE /\ eos = FALSE /\ io = 0
  /\ out = <<>> /\ okPushed = <<>> /\ attempted = {}
  /\ last = <<"init", 0, "init">>

\* waker delivery (inside the lock region that calls wake())
WakePool == IF poolWk THEN poolWk' = FALSE /\ woken' = TRUE ELSE UNCHANGED <<poolWk, woken>>
WakeFile(f) == IF fileWk[f] THEN fileWk' = [fileWk EXCEPT ![f] = FALSE] /\ woken' = TRUE
               ELSE UNCHANGED <<fileWk, woken>>

Lbl(p, l) == last' = <<p[1], p[2], l>>
WN(w) == <<"w", w>>

\* A writer at "P1" is between API calls: it may start another push (if it has pushes left)
\* or be dropped.
(* ------------------------------ push_batch ------------------------------ *)
\* sp_w_p1: lock pool; pop an open write file, or decide to create one
W_p1(w) ==
  /\ wpc[w] = "P1" /\ wdone[w] < NB
  /\ attempted' = attempted \cup {Batch(w, wdone[w] + 1)}
  /\ IF openW # <<>>
       THEN /\ wf' = [wf EXCEPT ![w] = Head(openW)] /\ openW' = Tail(openW)
            /\ wpc' = [wpc EXCEPT ![w] = "P3"]
       ELSE /\ wpc' = [wpc EXCEPT ![w] = "P2a"] /\ UNCHANGED <<wf, openW>>
  /\ Lbl(WN(w), "w_p1")
  /\ UNCHANGED <<wdone, wfs, files, remW, poolWk, nf, fvars, rvars, woken, out, okPushed>>

\* sp_w_p2a: create the spill file (no lock held).
W_p2a(w) ==
  /\ wpc[w] = "P2a" /\ nf < MAXF
  /\ nf' = nf + 1 /\ wf' = [wf EXCEPT ![w] = nf + 1]
  /\ hasW' = [hasW EXCEPT ![nf + 1] = TRUE]
  /\ wpc' = [wpc EXCEPT ![w] = "P2b"]
  /\ Lbl(WN(w), "w_p2a")
  /\ UNCHANGED <<wdone, wfs, files, openW, remW, poolWk, written, finished, fileWk, rvars, woken, gvars>>

\* sp_w_p2b: lock pool; files.push_back(new file); wake pool reader
W_p2b(w) ==
  /\ wpc[w] = "P2b"
  /\ files' = Append(files, wf[w]) /\ WakePool
  /\ wpc' = [wpc EXCEPT ![w] = "P3"]
  /\ Lbl(WN(w), "w_p2b")
  /\ UNCHANGED <<wf, wdone, wfs, openW, remW, nf, fvars, rvars, gvars>>

\* sp_w_p3: lock file; append + flush; wake file reader; rotate when full
W_p3_ok(w) ==
  LET f == wf[w]  b == Batch(w, wdone[w] + 1) IN
  /\ wpc[w] = "P3"
  /\ IF hasW[f] THEN written' = [written EXCEPT ![f] = Append(@, b)] ELSE UNCHANGED written
  /\ WakeFile(f)
  /\ IF Len(written'[f]) >= ROT
       THEN /\ hasW' = [hasW EXCEPT ![f] = FALSE] /\ finished' = [finished EXCEPT ![f] = TRUE]
            /\ wpc' = [wpc EXCEPT ![w] = "P1"] /\ wdone' = [wdone EXCEPT ![w] = @ + 1]
            /\ okPushed' = Append(okPushed, b)          \* push_batch returns Ok(())
       ELSE /\ wpc' = [wpc EXCEPT ![w] = "P4"] /\ UNCHANGED <<hasW, finished, wdone, okPushed>>
  /\ Lbl(WN(w), "w_p3")
  /\ UNCHANGED <<wf, wfs, pvars, rvars, out, attempted>>

\* sp_w_p3 with an injected append failure: `?` returns before batches_written is incremented.
\* Pinned code: the popped file is neither re-queued nor finished (orphan).  FIXED: it is finished.
W_p3_fail(w) ==
  LET f == wf[w] IN
  /\ FAILS /\ wpc[w] = "P3"
  /\ wpc' = [wpc EXCEPT ![w] = "P1"] /\ wdone' = [wdone EXCEPT ![w] = @ + 1]
  /\ IF FIXED
       THEN /\ hasW' = [hasW EXCEPT ![f] = FALSE] /\ finished' = [finished EXCEPT ![f] = TRUE]
            /\ WakeFile(f) /\ UNCHANGED written
       ELSE UNCHANGED <<fvars, woken>>
  /\ Lbl(WN(w), "w_p3_fail")
  /\ UNCHANGED <<wf, wfs, pvars, rvars, gvars>>

\* sp_w_p3 where the append succeeds but finishing the file at rotation fails:
\* the batch is readable (batches_written incremented, reader woken) but push returns Err.
W_p3_finfail(w) ==
  LET f == wf[w]  b == Batch(w, wdone[w] + 1) IN
  /\ FAILS /\ wpc[w] = "P3" /\ hasW[f] /\ Len(written[f]) + 1 >= ROT
  /\ written' = [written EXCEPT ![f] = Append(@, b)]
  /\ hasW' = [hasW EXCEPT ![f] = FALSE]          \* writer.take()
  /\ IF FIXED
       THEN finished' = [finished EXCEPT ![f] = TRUE]
       ELSE UNCHANGED finished
  /\ WakeFile(f)
  /\ wpc' = [wpc EXCEPT ![w] = "P1"] /\ wdone' = [wdone EXCEPT ![w] = @ + 1]
  /\ Lbl(WN(w), "w_p3_finfail")
  /\ UNCHANGED <<wf, wfs, pvars, rvars, gvars>>

\* sp_w_p4: lock pool; open_write_files.push_back(file)
W_p4(w) ==
  /\ wpc[w] = "P4"
  /\ openW' = Append(openW, wf[w])
  /\ wpc' = [wpc EXCEPT ![w] = "P1"] /\ wdone' = [wdone EXCEPT ![w] = @ + 1]
  /\ okPushed' = Append(okPushed, Batch(w, wdone[w] + 1))    \* push_batch returns Ok(())
  /\ Lbl(WN(w), "w_p4")
  /\ UNCHANGED <<wf, wfs, files, remW, poolWk, nf, fvars, rvars, woken, out, attempted>>

(* ------------------------------ Drop for SpillPoolSink ------------------------------ *)
\* sp_d_q1: lock pool; remaining_writer_count -= 1; last writer takes the open files
D_q1(w) ==
  /\ wpc[w] = "P1"
  /\ remW' = remW - 1
  /\ IF remW > 1
       THEN /\ wpc' = [wpc EXCEPT ![w] = "gone"] /\ UNCHANGED <<openW, wfs, poolWk, woken>>
       ELSE IF openW # <<>>
              THEN /\ wfs' = [wfs EXCEPT ![w] = openW] /\ openW' = <<>>
                   /\ wpc' = [wpc EXCEPT ![w] = "Q2"] /\ UNCHANGED <<poolWk, woken>>
              ELSE /\ WakePool /\ wpc' = [wpc EXCEPT ![w] = "gone"] /\ UNCHANGED <<openW, wfs>>
  /\ Lbl(WN(w), "d_q1")
  /\ UNCHANGED <<wf, wdone, files, nf, fvars, rvars, gvars>>

\* sp_d_q2: lock file; finish writer; writer_finished = true; wake file reader (one per file)
D_q2(w) ==
  /\ wpc[w] = "Q2" /\ wfs[w] # <<>>
  /\ LET f == Head(wfs[w]) IN
       /\ hasW' = [hasW EXCEPT ![f] = FALSE] /\ finished' = [finished EXCEPT ![f] = TRUE]
       /\ WakeFile(f)
  /\ wfs' = [wfs EXCEPT ![w] = Tail(@)]
  /\ wpc' = [wpc EXCEPT ![w] = IF Len(wfs[w]) = 1 THEN "Q3" ELSE "Q2"]
  /\ Lbl(WN(w), "d_q2")
  /\ UNCHANGED <<wf, wdone, pvars, written, rvars, gvars>>

\* sp_d_q3: lock pool; wake pool reader
D_q3(w) ==
  /\ wpc[w] = "Q3"
  /\ WakePool /\ wpc' = [wpc EXCEPT ![w] = "gone"]
  /\ Lbl(WN(w), "d_q3")
  /\ UNCHANGED <<wf, wdone, wfs, files, openW, remW, nf, fvars, rvars, gvars>>

(* ------------------------------ reader: SpillPoolReader::poll_next ------------------------------ *)
RN == <<"r", 0>>

\* "resume": the task was woken; the executor polls again (runs to the first lock region)
R_resume ==
  /\ parked /\ woken
  /\ parked' = FALSE /\ woken' = FALSE
  /\ rpc' = IF cur # 0 THEN "F1" ELSE "B"
  /\ Lbl(RN, "r_resume")
  /\ UNCHANGED <<cur, readCnt, eos, io, wvars, pvars, fvars, gvars>>

\* sp_r_b: lock pool; front file becomes current | EOF if no writers remain | register pool waker
R_b ==
  /\ rpc = "B" /\ ~parked /\ ~eos
  /\ IF files # <<>>
       THEN /\ cur' = Head(files) /\ readCnt' = 0 /\ rpc' = "F1" /\ UNCHANGED <<eos, poolWk, parked>>
       ELSE IF remW = 0
              THEN /\ eos' = TRUE /\ UNCHANGED <<cur, readCnt, rpc, poolWk, parked>>
              ELSE /\ poolWk' = TRUE /\ parked' = TRUE /\ UNCHANGED <<cur, readCnt, rpc, eos>>
  /\ Lbl(RN, "r_b")
  /\ UNCHANGED <<files, openW, remW, nf, io, wvars, fvars, woken, gvars>>

\* sp_r_f1: lock file; data available | finished -> EOF of file | register file waker
R_f1 ==
  /\ rpc = "F1" /\ ~parked
  /\ IF readCnt < Len(written[cur]) THEN rpc' = "READ" /\ UNCHANGED fileWk
     ELSE IF finished[cur] THEN rpc' = "FIN" /\ UNCHANGED fileWk
     ELSE fileWk' = [fileWk EXCEPT ![cur] = TRUE] /\ rpc' = "FPEND"
  /\ Lbl(RN, "r_f1")
  /\ UNCHANGED <<cur, readCnt, parked, eos, io, written, finished, hasW, wvars, pvars, woken, gvars>>

\* sp_r_read: read the next batch from disk (no lock) and yield it.  The poll returns Ready, so the
\* next poll starts afresh: a wake-up delivered meanwhile is consumed (the harness' and an
\* executor's rule; resetting here is the stricter reading, so liveness is checked under it).
R_read ==
  /\ rpc = "READ"
  /\ out' = Append(out, written[cur][readCnt + 1]) /\ readCnt' = readCnt + 1
  /\ rpc' = "F1" /\ woken' = FALSE
  /\ Lbl(RN, "r_read")
  /\ UNCHANGED <<cur, parked, eos, io, wvars, pvars, fvars, okPushed, attempted>>

\* sp_r_read when the disk read is still in flight: the file stream returns Pending, and
\* SpillPoolReader goes on to register the pool waker (sp_r_fpend) before returning Pending.
R_read_io ==
  /\ rpc = "READ" /\ io < MAXIO
  /\ io' = io + 1 /\ rpc' = "FPEND_IO"
  /\ Lbl(RN, "r_read")
  /\ UNCHANGED <<cur, readCnt, parked, eos, wvars, pvars, fvars, woken, gvars>>

\* sp_r_fpend after an i/o Pending: register the pool waker; the runtime completes the read and
\* wakes the task, which polls again (no protocol wait: the reader stays enabled).
R_fpend_io ==
  /\ rpc = "FPEND_IO"
  /\ poolWk' = TRUE /\ rpc' = "F1" /\ woken' = FALSE
  /\ Lbl(RN, "r_fpend")
  /\ UNCHANGED <<files, openW, remW, nf, cur, readCnt, parked, eos, io, wvars, fvars, gvars>>

\* sp_r_fin: lock file; re-read writer_finished (always true here: it never reverts)
R_fin ==
  /\ rpc = "FIN"
  /\ rpc' = IF finished[cur] THEN "FD" ELSE "DONE"
  /\ eos' = IF finished[cur] THEN eos ELSE TRUE
  /\ Lbl(RN, "r_fin")
  /\ UNCHANGED <<cur, readCnt, parked, io, wvars, pvars, fvars, woken, gvars>>

\* sp_r_fd: lock pool; files.pop_front(); current_file = None
R_fd ==
  /\ rpc = "FD"
  /\ files' = Tail(files) /\ cur' = 0 /\ readCnt' = 0 /\ rpc' = "B"
  /\ Lbl(RN, "r_fd")
  /\ UNCHANGED <<openW, remW, poolWk, nf, parked, eos, io, wvars, fvars, woken, gvars>>

\* sp_r_fpend: lock pool; register pool waker; return Pending
R_fpend ==
  /\ rpc = "FPEND"
  /\ poolWk' = TRUE /\ parked' = TRUE /\ rpc' = "F1"
  /\ Lbl(RN, "r_fpend")
  /\ UNCHANGED <<files, openW, remW, nf, cur, readCnt, eos, io, wvars, fvars, woken, gvars>>

AllGone == \A w \in Writers : wpc[w] = "gone"
AllDone == eos /\ AllGone

Next ==
  \/ \E w \in Writers : \/ W_p1(w) \/ W_p2a(w) \/ W_p2b(w) \/ W_p3_ok(w) \/ W_p3_fail(w)
                        \/ W_p3_finfail(w) \/ W_p4(w) \/ D_q1(w) \/ D_q2(w) \/ D_q3(w)
  \/ R_resume \/ R_b \/ R_f1 \/ R_read \/ R_read_io \/ R_fpend_io \/ R_fin \/ R_fd \/ R_fpend
  \/ (AllDone /\ UNCHANGED vars)

\* Writers are eventually dropped (weak fairness on drop steps and on finishing a started push);
\* starting another push is not forced.
Fair ==
  /\ \A w \in Writers :
       /\ WF_vars(D_q1(w)) /\ WF_vars(D_q2(w)) /\ WF_vars(D_q3(w))
       /\ WF_vars(W_p2a(w)) /\ WF_vars(W_p2b(w)) /\ WF_vars(W_p4(w))
       /\ WF_vars(W_p3_ok(w) \/ W_p3_fail(w) \/ W_p3_finfail(w))
  /\ WF_vars(R_resume) /\ WF_vars(R_b) /\ WF_vars(R_f1) /\ WF_vars(R_read \/ R_read_io) /\ WF_vars(R_fpend_io)
  /\ WF_vars(R_fin) /\ WF_vars(R_fd) /\ WF_vars(R_fpend)

Spec == Init /\ [][Next]_vars /\ Fair

(* ------------------------------ properties (C16) ------------------------------ *)
SeqToSet(s) == {s[i] : i \in 1..Len(s)}
Count(s, x) == Cardinality({i \in 1..Len(s) : s[i] = x})

\* every yielded batch was pushed (started), and is yielded at most once
NoInvention  == SeqToSet(out) \subseteq attempted
NoDuplicate  == \A i, j \in 1..Len(out) : out[i] = out[j] => i = j
\* single writer: the reader's output restricted to successfully pushed batches is a prefix of them
FifoSPSC == W = 1 =>
  LET okOut == SelectSeq(out, LAMBDA b : b \in SeqToSet(okPushed)) IN
  \E k \in 0..Len(okPushed) : okOut = SubSeq(okPushed, 1, k)
\* end of stream only after the last writer is dropped and every successfully pushed batch was read
EosComplete == eos => (remW = 0 /\ SeqToSet(okPushed) \subseteq SeqToSet(out))
\* the reader is never parked without a registered waker while it has not been woken
NoLostWaker == (parked /\ ~woken) => (poolWk \/ (cur # 0 /\ fileWk[cur]))
\* lock discipline is structural (no action touches pool and file state); counted sanity:
TypeOK == /\ remW \in 0..W /\ nf \in 0..MAXF /\ cur \in 0..MAXF

\* liveness: once every writer is gone the reader reaches end of stream
ReaderTerminates == <>eos
DeliversAll == <>(eos /\ SeqToSet(okPushed) \subseteq SeqToSet(out))
=============================================================================
