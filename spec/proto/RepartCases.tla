---------------------------- MODULE RepartCases ----------------------------
(* Case generator (binding B3) for the batch partitioner: every state is a   *)
(* case <<scheme, n, key column, routing parameters>> with the partition of  *)
(* every row as RepartRoute defines it.  Hash values of the key domain are   *)
(* supplied as the constant HV (measured on the real `create_hashes` with    *)
(* the repartition seed), so hash placement is decided here as well.         *)
EXTENDS RepartRoute, TLC, Json

CONSTANTS HV,     \* HV[d] = limbs of the hash of domain value number d (1 = NULL, d = value d-2)
          MAXLEN, \* max rows of the key column
          MAXN,   \* max partitions for hash / round robin
          MAXSP   \* max split points for range

Nul == [nul |-> TRUE, v |-> 0]
Val(x) == [nul |-> FALSE, v |-> x]
Dom == {Nul} \cup {Val(x) : x \in 0..2}          \* column values
SDom == {Nul} \cup {Val(x) : x \in 0..3}         \* split point values
Hash(k) == IF k.nul THEN HV[1] ELSE HV[k.v + 2]

Cols == UNION {[1..m -> Dom] : m \in 0..MAXLEN}
Bools == {TRUE, FALSE}

HashCases == {[scheme |-> "hash", kc |-> "k1", n |-> n, col |-> c, splits |-> <<>>, desc |-> FALSE, nf |-> FALSE,
               rr_in |-> 0, rr_nin |-> 1, rr_batches |-> 0,
               expect |-> [j \in 1..Len(c) |-> HashPart(Hash(c[j]), n) + 1]] : n \in 1..MAXN, c \in Cols}

SplitSeqs(d, f) == UNION {{s \in [1..m -> SDom] : SplitsSorted([j \in 1..m |-> <<s[j]>>], <<d>>, <<f>>)} : m \in 0..MAXSP}

\* kc = the key column: "k1" (Int32) or "k2" (Utf8; the values 0..3 are then ranks in the string domain
\* "" < "a" < "ab" < "b", the comparison is the same)
RangeFor(d, f) == {[scheme |-> "range", kc |-> kc, n |-> Len(s) + 1, col |-> c, splits |-> s, desc |-> d, nf |-> f,
                    rr_in |-> 0, rr_nin |-> 1, rr_batches |-> 0,
                    expect |-> [j \in 1..Len(c) |-> RangePart(<<c[j]>>, [k \in 1..Len(s) |-> <<s[k]>>], <<d>>, <<f>>) + 1]]
                   : c \in Cols, s \in SplitSeqs(d, f), kc \in {"k1", "k2"}}
RangeCases == UNION {RangeFor(d, f) : d \in Bools, f \in Bools}

\* split points that are NOT strictly increasing under the ordering (duplicates, reversed pairs, NULL
\* on the wrong side) are not a partitioning: construction must be rejected
BadFor(d, f) == {[scheme |-> "range_bad", kc |-> kc, n |-> 3, col |-> <<>>, splits |-> s, desc |-> d, nf |-> f,
                  rr_in |-> 0, rr_nin |-> 1, rr_batches |-> 0, expect |-> <<>>]
                 : s \in {t \in [1..2 -> SDom] : ~SplitsSorted([j \in 1..2 |-> <<t[j]>>], <<d>>, <<f>>)}, kc \in {"k1", "k2"}}
BadCases == UNION {BadFor(d, f) : d \in Bools, f \in Bools}

\* round robin: the column is fed as single-row batches; input index 0-based as the API takes it
RRCases == {[scheme |-> "rr", kc |-> "k1", n |-> n, col |-> [j \in 1..MAXLEN |-> Val(0)], splits |-> <<>>, desc |-> FALSE, nf |-> FALSE,
             rr_in |-> i, rr_nin |-> nin, rr_batches |-> MAXLEN,
             expect |-> [j \in 1..MAXLEN |-> RRPart(i + 1, nin, n, j - 1, FALSE) + 1]]
            : n \in 1..MAXN, nin \in 1..4, i \in 0..3}

AllCases == HashCases \cup RangeCases \cup BadCases \cup {c \in RRCases : c.rr_in < c.rr_nin}

VARIABLE case
Init == case \in AllCases
Next == UNCHANGED case
Spec == Init /\ [][Next]_case

\* sanity of the definitions themselves (checked on every case)
Sane == /\ \A j \in 1..Len(case.expect) : case.expect[j] \in 1..case.n
        /\ case.scheme \in {"hash", "range"} =>
             \A j, k \in 1..Len(case.col) : case.col[j] = case.col[k] => case.expect[j] = case.expect[k]
        /\ case.scheme = "range" =>
             \A j, k \in 1..Len(case.col) :
               CmpKey(case.col[j], case.col[k], case.desc, case.nf) < 0 => case.expect[j] <= case.expect[k]

Emit == PrintT(<<"CASE", ToJson(case)>>)
=============================================================================
