CONSTANTS W = 1  NB = 4  ROT = 2  FAILS = TRUE  MAXF = 8  MAXIO = 1000  FIXED = TRUE
SPECIFICATION TraceSpec
INVARIANTS TypeOK NoInvention NoDuplicate FifoSPSC EosComplete NoLostWaker
ALIAS Alias
CHECK_DEADLOCK TRUE
