CONSTANTS W = 2  NB = 2  ROT = 2  FAILS = TRUE  MAXF = 4  FIXED = TRUE
SPECIFICATION SimSpec
INVARIANTS EmitWhenDone NoInvention NoDuplicate FifoSPSC EosComplete NoLostWaker
CHECK_DEADLOCK FALSE
