------------------------------ MODULE SpillFile ------------------------------
(***************************************************************************)
(* A spill file as the sequence of batch *tokens* appended to it            *)
(* (datafusion/physical-plan/src/spill/in_progress_spill_file.rs,           *)
(* spill_manager.rs).  API history of one InProgressSpillFile:              *)
(*   Append(k)  append_batch of a batch of kind k                           *)
(*   Flush      flush                                                       *)
(*   Finish     finish: Ok(None) while nothing was ever appended (the file  *)
(*              stays usable), Ok(Some(file)) once, an error afterwards     *)
(* After Finish returned a file, reading it (any number of times) yields    *)
(* exactly the appended tokens in order (`content`).  Every reachable state *)
(* is one case for binding B3: the operations with the expected result of   *)
(* each, and the expected read-back sequence.  Value equality of the        *)
(* batches is decided in the harness; which batches, in which order, and    *)
(* what every call returns is decided here.                                 *)
(***************************************************************************)
EXTENDS Naturals, Sequences, TLC, Json

CONSTANTS KINDS,    \* batch kinds: "full", "empty", "sliced", "nulls"
          MAXOPS

VARIABLES st, content, hist
vars == <<st, content, hist>>

Init == st = "open" /\ content = <<>> /\ hist = <<>>

Op(o, k, r) == hist' = Append(hist, [op |-> o, k |-> k, res |-> r])

AppendB(k) ==
  /\ Len(hist) < MAXOPS
  /\ IF st = "open"
       THEN content' = Append(content, k) /\ Op("append", k, "ok")
       ELSE UNCHANGED content /\ Op("append", k, "err")
  /\ UNCHANGED st

Flush == Len(hist) < MAXOPS /\ Op("flush", "-", "ok") /\ UNCHANGED <<st, content>>

Finish ==
  /\ Len(hist) < MAXOPS
  /\ UNCHANGED content
  /\ IF st = "finished" THEN Op("finish", "-", "err") /\ UNCHANGED st
     ELSE IF content = <<>> THEN Op("finish", "-", "none") /\ UNCHANGED st
     ELSE Op("finish", "-", "file") /\ st' = "finished"

Next == (\E k \in KINDS : AppendB(k)) \/ Flush \/ Finish
Spec == Init /\ [][Next]_vars

\* what a reader of the finished file must see
ReadBack == IF st = "finished" THEN content ELSE <<>>

(* invariants *)
FinishedNonEmpty == st = "finished" => content # <<>>
\* the file content is exactly the successfully appended tokens, in order
ContentIsAppends ==
  content = [i \in 1..Len(SelectSeq(hist, LAMBDA h : h.op = "append" /\ h.res = "ok")) |->
               SelectSeq(hist, LAMBDA h : h.op = "append" /\ h.res = "ok")[i].k]
Emit == PrintT(<<"CASE", ToJson([ops |-> hist, finished |-> IF st = "finished" THEN 1 ELSE 0,
                                  read |-> ReadBack])>>)
=============================================================================
