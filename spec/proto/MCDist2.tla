---- MODULE MCDist2 ----
EXTENDS DistChanImpl
SendersOfV == <<2, 1>>
====
