------------------------------ MODULE DynFilter ------------------------------
(***************************************************************************)
(* DynamicFilterPhysicalExpr (datafusion/physical-expr/src/expressions/     *)
(* dynamic_filters/mod.rs) at the grain of its lock regions.                *)
(*                                                                         *)
(* inner = <<gen, expr, complete>> under one RwLock, shared by the base     *)
(* filter and every filter derived from it by with_new_children; each       *)
(* filter f has its own cache <<cgen[f], cexp[f]>> under its own RwLock.    *)
(* The expression installed by the k-th update is the token k (the harness  *)
(* uses the literal k), so "which generation did current() return" is       *)
(* observable.  genOf[k] = generation at which token k was installed.       *)
(*                                                                         *)
(* current():  r1 read <<expr, gen>> under inner.read                       *)
(*             r2 read the cache: hit iff cached generation = gen           *)
(*             (remap outside any lock)                                     *)
(*             r4 cache.write: publish iff strictly newer; return own remap *)
(* update():   w1 inner.write: gen+1, expr ;  w2 broadcast InProgress(gen)  *)
(* complete(): c1 inner.write: complete    ;  c2 broadcast Complete(gen)    *)
(*                                                                         *)
(* SEQ = TRUE serialises API calls (an operation starts only when no other  *)
(* is in flight): behaviours are then sequential histories for binding B3.  *)
(***************************************************************************)
EXTENDS Naturals, Sequences, FiniteSets, TLC

CONSTANTS NW,      \* writers
          NRD,     \* readers
          NF,      \* filters sharing the inner state (1 = base, 2.. = derived by with_new_children)
          NU,      \* total updates
          NREADS,  \* current() calls per reader
          SEQ,
          MAXOPS

Writers == 1..NW
Readers == 1..NRD
Filters == 1..NF

VARIABLES gen, expr, complete, genOf, nupd,
          cgen, cexp,
          watch,                      \* last broadcast <<generation, complete (0/1)>>
          wpc, wgen,
          rpc, rf, rgen, rexp, startGen, ret, reads,
          hist, last

vars == <<gen, expr, complete, genOf, nupd, cgen, cexp, watch, wpc, wgen, rpc, rf, rgen, rexp, startGen, ret, reads, hist, last>>
view == <<gen, expr, complete, genOf, nupd, cgen, cexp, watch, wpc, wgen, rpc, rf, rgen, rexp, startGen, ret, reads>>

AllIdle == (\A w \in Writers : wpc[w] = "idle") /\ (\A r \in Readers : rpc[r] = "idle")
MayStart == (~SEQ \/ AllIdle) /\ Len(hist) < MAXOPS

Init ==
  /\ gen = 1 /\ expr = 0 /\ complete = FALSE /\ genOf = [k \in 0..NU |-> IF k = 0 THEN 1 ELSE 0] /\ nupd = 0
  /\ cgen = [f \in Filters |-> 0] /\ cexp = [f \in Filters |-> 0]
  /\ watch = <<1, 0>>
  /\ wpc = [w \in Writers |-> "idle"] /\ wgen = [w \in Writers |-> 0]
  /\ rpc = [r \in Readers |-> "idle"] /\ rf = [r \in Readers |-> 1] /\ rgen = [r \in Readers |-> 0]
  /\ rexp = [r \in Readers |-> 0] /\ startGen = [r \in Readers |-> 0] /\ ret = [r \in Readers |-> 0]
  /\ reads = [r \in Readers |-> 0]
  /\ hist = <<>> /\ last = <<"init", 0, "init">>

H(op, who, f, val, g) == hist' = Append(hist, [op |-> op, who |-> who, f |-> f, val |-> val, gen |-> g])

(* -------------------------------- writers -------------------------------- *)
W1(w) ==
  /\ wpc[w] = "idle" /\ MayStart /\ nupd < NU
  /\ nupd' = nupd + 1 /\ gen' = gen + 1 /\ expr' = nupd + 1
  /\ genOf' = [genOf EXCEPT ![nupd + 1] = gen + 1]
  /\ wgen' = [wgen EXCEPT ![w] = gen + 1] /\ wpc' = [wpc EXCEPT ![w] = "w2"]
  /\ H("update", w, 0, nupd + 1, gen + 1) /\ last' = <<"w", w, "w1">>
  /\ UNCHANGED <<complete, cgen, cexp, watch, rpc, rf, rgen, rexp, startGen, ret, reads>>
W2(w) ==
  /\ wpc[w] = "w2"
  /\ watch' = <<wgen[w], 0>> /\ wpc' = [wpc EXCEPT ![w] = "idle"]
  /\ last' = <<"w", w, "w2">>
  /\ UNCHANGED <<gen, expr, complete, genOf, nupd, cgen, cexp, wgen, rpc, rf, rgen, rexp, startGen, ret, reads, hist>>
C1(w) ==
  /\ wpc[w] = "idle" /\ MayStart /\ ~complete
  /\ complete' = TRUE /\ wgen' = [wgen EXCEPT ![w] = gen] /\ wpc' = [wpc EXCEPT ![w] = "c2"]
  /\ H("mark_complete", w, 0, 0, gen) /\ last' = <<"w", w, "c1">>
  /\ UNCHANGED <<gen, expr, genOf, nupd, cgen, cexp, watch, rpc, rf, rgen, rexp, startGen, ret, reads>>
C2(w) ==
  /\ wpc[w] = "c2"
  /\ watch' = <<wgen[w], 1>> /\ wpc' = [wpc EXCEPT ![w] = "idle"]
  /\ last' = <<"w", w, "c2">>
  /\ UNCHANGED <<gen, expr, complete, genOf, nupd, cgen, cexp, wgen, rpc, rf, rgen, rexp, startGen, ret, reads, hist>>

(* -------------------------------- readers -------------------------------- *)
Begin(r, f) ==
  /\ rpc[r] = "idle" /\ MayStart /\ reads[r] < NREADS
  /\ rf' = [rf EXCEPT ![r] = f] /\ startGen' = [startGen EXCEPT ![r] = gen]
  /\ rpc' = [rpc EXCEPT ![r] = "r1"] /\ reads' = [reads EXCEPT ![r] = @ + 1]
  /\ last' = <<"r", r, "begin">>
  /\ UNCHANGED <<gen, expr, complete, genOf, nupd, cgen, cexp, watch, wpc, wgen, rgen, rexp, ret, hist>>
R1(r) ==
  /\ rpc[r] = "r1"
  /\ rgen' = [rgen EXCEPT ![r] = gen] /\ rexp' = [rexp EXCEPT ![r] = expr]
  /\ rpc' = [rpc EXCEPT ![r] = "r2"] /\ last' = <<"r", r, "r1">>
  /\ UNCHANGED <<gen, expr, complete, genOf, nupd, cgen, cexp, watch, wpc, wgen, rf, startGen, ret, reads, hist>>
R2(r) ==
  /\ rpc[r] = "r2"
  /\ IF cgen[rf[r]] = rgen[r]
       THEN /\ ret' = [ret EXCEPT ![r] = cexp[rf[r]]] /\ rpc' = [rpc EXCEPT ![r] = "idle"]
            /\ H("current", r, rf[r], cexp[rf[r]], rgen[r])
       ELSE /\ rpc' = [rpc EXCEPT ![r] = "r4"] /\ UNCHANGED <<ret, hist>>
  /\ last' = <<"r", r, "r2">>
  /\ UNCHANGED <<gen, expr, complete, genOf, nupd, cgen, cexp, watch, wpc, wgen, rf, rgen, rexp, startGen, reads>>
R4(r) ==
  /\ rpc[r] = "r4"
  /\ IF rgen[r] > cgen[rf[r]]
       THEN cgen' = [cgen EXCEPT ![rf[r]] = rgen[r]] /\ cexp' = [cexp EXCEPT ![rf[r]] = rexp[r]]
       ELSE UNCHANGED <<cgen, cexp>>
  /\ ret' = [ret EXCEPT ![r] = rexp[r]] /\ rpc' = [rpc EXCEPT ![r] = "idle"]
  /\ H("current", r, rf[r], rexp[r], rgen[r]) /\ last' = <<"r", r, "r4">>
  /\ UNCHANGED <<gen, expr, complete, genOf, nupd, watch, wpc, wgen, rf, rgen, rexp, startGen, reads>>

Next ==
  \/ \E w \in Writers : W1(w) \/ W2(w) \/ C1(w) \/ C2(w)
  \/ \E r \in Readers : (\E f \in Filters : Begin(r, f)) \/ R1(r) \/ R2(r) \/ R4(r)

Spec == Init /\ [][Next]_vars

(* ------------------------------ invariants ------------------------------- *)
Returned(r) == rpc[r] = "idle" /\ reads[r] > 0
\* every current() returns the expression of ONE published generation, not older than the one
\* visible when the call began
NotStale == \A r \in Readers : Returned(r) => (genOf[ret[r]] >= startGen[r] /\ genOf[ret[r]] <= gen)
\* the cache always holds the expression of the generation it is labelled with
CacheConsistent == \A f \in Filters : cgen[f] > 0 => (cexp[f] \in 0..NU /\ genOf[cexp[f]] = cgen[f])
InnerConsistent == genOf[expr] = gen
GenMonotone == [][gen' >= gen /\ \A f \in Filters : cgen'[f] >= cgen[f]]_vars
\* diagnostic only (NOT part of C31): with two writers the broadcasts may be delivered out of order,
\* so the watch channel can end up behind the inner state (affects wait_update/wait_complete)
WatchInOrder == AllIdle => (watch[1] = gen /\ (watch[2] = 1) = complete)
=============================================================================
