----------------------------- MODULE StreamTree -----------------------------
(***************************************************************************)
(* A query as a tree of operator processes (C18, C19, C20).                 *)
(*                                                                         *)
(* Every node is a demand-driven process: its parent (or the task that owns *)
(* it, or the client for the root) sets want[n]; the node answers with one  *)
(* item in out[n]: "b" (a batch), "err" or "eos".  Exchange nodes spawn one *)
(* task per child at their first poll; the task owns the child stream, pulls*)
(* it eagerly and pushes into the node's queue; tasks are abort-on-drop:    *)
(* dropping the exchange marks its tasks `aborting`, and only the later     *)
(* TaskStop step (the runtime dropping the task's future) releases the      *)
(* child subtree.  Blocking nodes reserve memory per buffered batch against *)
(* a shared limit and either spill (temp file) or fail (ResourcesExhausted).*)
(*                                                                         *)
(* One initial state = one case <<shape, fault, drop point, memory limit>>; *)
(* the invariant Emit prints it with the outcome class the model assigns.   *)
(* The shape catalogue names real physical-plan constructions of            *)
(* harness/vlife (same names), leaves are <<table, partition>> sources.     *)
(***************************************************************************)
EXTENDS Naturals, Sequences, FiniteSets, TLC, Json
(* Partial consumers (MODE = "partial"): the root exchange has m output partitions that the client drives       *)
(* individually (OutTake), some of which it drops early (OutDrop, before or after the fault fires).  Batches are  *)
(* routed to one output; a terminal item of an input (error, or end once all inputs ended) is FANNED OUT to the   *)
(* outputs one by one in an arbitrary order (the HashMap order of wait_for_task); closed outputs are skipped.     *)
(* FanSurfaces: a fault that reached the exchange surfaces at EVERY live output (none ends cleanly).              *)

CONSTANTS NB,       \* batches per source partition
          MODE,     \* "fault" | "drop" | "mem" | "partial"
          SHAPES,   \* shape names explored (subset of DOMAIN Catalog)
          MOUTS,    \* partial mode: numbers of output partitions of the root exchange
          BREAKS    \* partial mode: TRUE = the (wrong) error fan-out that stops at the first closed output

Ample == 99
Never == 99

(* ---------------- shape catalogue ---------------- *)
N0(kind, op, kids, t, p, spill, l) ==
  [kind |-> kind, op |-> op, kids |-> kids, t |-> t, p |-> p, spill |-> spill, lim |-> l]
Src(t, p)        == N0("src", "source", <<>>, t, p, FALSE, 0)
Pipe(op, c)      == N0("pipe", op, <<c>>, "", 0, FALSE, 0)
Udf(op, c)       == N0("udf", op, <<c>>, "", 0, FALSE, 0)
Block(op, c, sp) == N0("block", op, <<c>>, "", 0, sp, 0)
Xchg(op, cs)     == N0("xchg", op, cs, "", 0, FALSE, 0)
Merge(op, cs)    == N0("merge", op, cs, "", 0, FALSE, 0)
Join(op, b, pr)  == N0("join", op, <<b, pr>>, "", 0, FALSE, 0)
Limit(op, c, l)  == N0("limit", op, <<c>>, "", 0, FALSE, l)

\* node 1 is the root; children are node indices
Catalog == [
  filter            |-> << Pipe("filter", 2), Src("L", 0) >>,
  projection        |-> << Pipe("projection", 2), Src("L", 0) >>,
  projection_udf    |-> << Udf("projection_udf", 2), Src("L", 0) >>,
  filter_udf        |-> << Udf("filter_udf", 2), Src("L", 0) >>,
  coalesce_batches  |-> << Pipe("coalesce_batches", 2), Src("L", 0) >>,
  sort              |-> << Block("sort", 2, TRUE), Src("L", 0) >>,
  topk              |-> << Block("topk", 2, FALSE), Src("L", 0) >>,
  agg_single        |-> << Block("agg_single", 2, TRUE), Src("L", 0) >>,
  window            |-> << Block("window", 2, FALSE), Src("L", 0) >>,
  bounded_window    |-> << Pipe("bounded_window", 2), Block("sort", 3, TRUE), Src("L", 0) >>,
  union             |-> << Xchg("coalesce_partitions", <<2>>), Merge("union", <<3, 4>>), Src("L", 0), Src("R", 0) >>,
  union_agg         |-> << Block("agg_single", 2, TRUE), Xchg("coalesce_partitions", <<3>>), Merge("union", <<4, 5>>), Src("L", 0), Src("R", 0) >>,
  distinct          |-> << Block("agg_distinct", 2, TRUE), Src("L", 0) >>,
  semi_join         |-> << Join("semi_join", 2, 3), Src("R", 0), Src("L", 0) >>,
  anti_join         |-> << Join("anti_join", 2, 3), Src("R", 0), Src("L", 0) >>,
  scalar_subquery   |-> << Join("scalar_subquery_join", 2, 3), Block("agg_single", 4, FALSE), Src("L", 0), Src("R", 0) >>,
  coalesce_parts    |-> << Xchg("coalesce_partitions", <<2, 3>>), Src("L", 0), Src("L", 1) >>,
  repart_rr         |-> << Xchg("coalesce_partitions", <<2>>), Xchg("repartition_rr", <<3>>), Src("L", 0) >>,
  repart_hash       |-> << Xchg("coalesce_partitions", <<2>>), Xchg("repartition_hash", <<3, 4>>), Src("L", 0), Src("L", 1) >>,
  spm               |-> << Merge("spm", <<2, 3>>), Block("sort", 4, TRUE), Block("sort", 5, TRUE), Src("L", 0), Src("L", 1) >>,
  agg_partial_final |-> << Xchg("coalesce_partitions", <<2>>), Block("agg_final", 3, TRUE), Xchg("repartition_hash", <<4, 5>>),
                           Block("agg_partial", 6, TRUE), Block("agg_partial", 7, TRUE), Src("L", 0), Src("L", 1) >>,
  hash_join         |-> << Join("hash_join_collect_left", 2, 3), Src("L", 0), Src("R", 0) >>,
  hash_join_part    |-> << Xchg("coalesce_partitions", <<2>>), Join("hash_join_partitioned", 3, 4),
                           Xchg("repartition_hash", <<5, 6>>), Xchg("repartition_hash", <<7, 8>>),
                           Src("L", 0), Src("L", 1), Src("R", 0), Src("R", 1) >>,
  hash_join_outer   |-> << Join("hash_join_full", 2, 3), Src("L", 0), Src("R", 0) >>,
  smj               |-> << Join("sort_merge_join", 2, 3), Block("sort", 4, TRUE), Block("sort", 5, TRUE), Src("L", 0), Src("R", 0) >>,
  nlj               |-> << Join("nested_loop_join", 2, 3), Src("L", 0), Src("R", 0) >>,
  cross             |-> << Join("cross_join", 2, 3), Src("L", 0), Src("R", 0) >>,
  limit             |-> << Limit("global_limit", 2, 1), Src("L", 0) >>,
  limit_xchg        |-> << Limit("global_limit", 2, 1), Xchg("coalesce_partitions", <<3, 4>>), Src("L", 0), Src("L", 1) >>,
  sort_repart       |-> << Block("sort", 2, TRUE), Xchg("coalesce_partitions", <<3>>), Xchg("repartition_rr", <<4>>), Src("L", 0) >>,
  p_repart_rr       |-> << Xchg("repartition_rr", <<2>>), Src("L", 0) >>,
  p_repart_hash     |-> << Xchg("repartition_hash", <<2, 3>>), Src("L", 0), Src("L", 1) >>,
  p_repart_filter   |-> << Xchg("repartition_rr", <<2>>), Pipe("filter", 3), Src("L", 0) >>,
  p_agg_final       |-> << Xchg("repartition_hash", <<2, 3>>), Block("agg_partial", 4, TRUE), Block("agg_partial", 5, TRUE), Src("L", 0), Src("L", 1) >>,
  p_window_hash     |-> << Xchg("repartition_hash", <<2, 3>>), Src("L", 0), Src("L", 1) >>,
  p_hash_join_part  |-> << Xchg("repartition_hash", <<2, 3>>), Src("L", 0), Src("L", 1) >>,
  p_smj             |-> << Xchg("repartition_hash", <<2>>), Src("L", 0) >>,
  p_shared_build    |-> << Xchg("once_async_build_side", <<2>>), Src("L", 0) >>,
  p_nlj_build       |-> << Xchg("once_async_build_side", <<2>>), Src("L", 0) >>,
  p_cross_build     |-> << Xchg("once_async_build_side", <<2>>), Src("L", 0) >>,
  p_interleave      |-> << Xchg("interleave_of_repartitions", <<2, 3>>), Src("L", 0), Src("L", 1) >>,
  p_local_limit     |-> << Xchg("repartition_hash", <<2, 3>>), Src("L", 0), Src("L", 1) >>,
  analyze           |-> << Block("analyze", 2, FALSE), Xchg("coalesce_partitions", <<3, 4>>), Src("L", 0), Src("L", 1) >>,
  shj               |-> << Join("symmetric_hash_join", 2, 3), Src("L", 0), Src("R", 0) >>,
  filter_union_sort |-> << Pipe("filter", 2), Block("sort", 3, TRUE), Xchg("coalesce_partitions", <<4>>), Merge("union", <<5, 6>>), Src("L", 0), Src("R", 0) >>
]

VARIABLES sh, fault, dropAt, lim,            \* the case (constant along a behaviour)
          fan,                               \* partial mode: the root exchange's outputs (a dummy record otherwise)
          st, pos, buf, disk, phase, want, out, q, eosn, spawned,
          tasks, aborting, fired, got, rootEnd, cause, started
vars == <<sh, fault, dropAt, lim, fan, st, pos, buf, disk, phase, want, out, q, eosn, spawned,
          tasks, aborting, fired, got, rootEnd, cause, started>>
\* `fan` is listed here because none of the tree actions below touches it (the Fan* / Out* actions do)
caseVars == <<sh, fault, dropAt, lim, fan>>
realCaseVars == <<sh, fault, dropAt, lim>>

T == Catalog[sh]
Nodes == 1..Len(T)
Kids(n) == T[n].kids
KidSet(n) == {Kids(n)[i] : i \in 1..Len(Kids(n))}
NoFault == [n |-> 0, k |-> 0, kind |-> "none"]

RECURSIVE Anc(_, _)
\* ancestors of node m (parents found by search), tree given as tr
Anc(tr, m) == LET ps == {a \in 1..Len(tr) : \E i \in 1..Len(tr[a].kids) : tr[a].kids[i] = m}
              IN ps \cup UNION {Anc(tr, a) : a \in ps}

RECURSIVE SumSeq(_, _)
SumSeq(f, s) == IF s = <<>> THEN 0 ELSE f[Head(s)] + SumSeq(f, Tail(s))
Min(a, b) == IF a < b THEN a ELSE b

\* number of batch tokens each node delivers in a fault-free, unlimited-memory run
RECURSIVE RefOut(_, _)
RefOut(tr, n) ==
  LET nd == tr[n] IN
  CASE nd.kind = "src" -> NB
    [] nd.kind \in {"pipe", "udf", "block"} -> RefOut(tr, nd.kids[1])
    [] nd.kind \in {"xchg", "merge"} -> SumSeq([c \in 1..Len(tr) |-> RefOut(tr, c)], nd.kids)
    [] nd.kind = "join" -> RefOut(tr, nd.kids[2])
    [] nd.kind = "limit" -> Min(nd.lim, RefOut(tr, nd.kids[1]))
Ref == RefOut(T, 1)

\* a fault below an early-stopping operator may legitimately stay unobserved
MustErrAt(tr, n) == \A a \in Anc(tr, n) : tr[a].kind # "limit"

FP(tr, n) ==
  LET nd == tr[n] IN
  CASE nd.kind = "src" -> {[n |-> n, k |-> k, kind |-> kd] : k \in 0..NB, kd \in {"src_err", "src_panic"}}
    [] nd.kind = "udf" -> {[n |-> n, k |-> k, kind |-> "udf"] : k \in 0..(RefOut(tr, n) - 1)}
    [] nd.kind = "block" /\ nd.spill ->
         {[n |-> n, k |-> k, kind |-> "deny"] : k \in 0..(RefOut(tr, n) - 1)}
         \cup {[n |-> n, k |-> k, kind |-> "spillw"] : k \in 0..1}
    [] (nd.kind = "block" /\ ~nd.spill) \/ nd.kind = "join" ->
         {[n |-> n, k |-> k, kind |-> "deny"] : k \in 0..(RefOut(tr, nd.kids[1]) - 1)}
    [] OTHER -> {}
FaultPoints(tr) == UNION {FP(tr, n) : n \in 1..Len(tr)}

TotalIn(tr) == SumSeq([c \in 1..Len(tr) |-> IF tr[c].kind = "src" THEN NB ELSE 0],
                      [i \in 1..Len(tr) |-> i])

InitCase ==
  /\ sh \in SHAPES
  /\ CASE MODE = "fault" ->
            /\ fault \in FaultPoints(Catalog[sh]) \cup {NoFault}
            /\ dropAt = Never
            /\ lim = IF fault.kind = "spillw" THEN 1 ELSE Ample
       [] MODE = "drop" ->
            /\ fault \in {NoFault} \cup {f \in FaultPoints(Catalog[sh]) : f.kind = "src_err" /\ f.k = 1}
            /\ dropAt \in 0..RefOut(Catalog[sh], 1)
            /\ lim \in {1, Ample}
       [] MODE = "mem" ->
            /\ fault = NoFault
            /\ dropAt = Never
            /\ lim \in 0..(TotalIn(Catalog[sh]) + 1)
       [] MODE = "partial" ->
            /\ fault \in {f \in FaultPoints(Catalog[sh]) : f.kind \in {"src_err", "src_panic"}}
            /\ dropAt = Never
            /\ lim = Ample
  /\ IF MODE = "partial"
       THEN \E m \in MOUTS : \E d \in (SUBSET (1..m)) \ {{}, 1..m} : \E w \in {"before", "after"} :
              fan = [m |-> m, drop |-> d, when |-> w,
                     oq |-> [o \in 1..m |-> <<>>], ost |-> [o \in 1..m |-> "live"],
                     ogot |-> [o \in 1..m |-> 0], routed |-> [o \in 1..m |-> 0],
                     pending |-> <<>>, pitem |-> "none"]
       ELSE fan = [m |-> 0, drop |-> {}, when |-> "before", oq |-> <<>>, ost |-> <<>>, ogot |-> <<>>, routed |-> <<>>,
                   pending |-> <<>>, pitem |-> "none"]

Init ==
  /\ InitCase
  /\ st = [n \in Nodes |-> "open"]
  /\ pos = [n \in Nodes |-> 0]
  /\ buf = [n \in Nodes |-> 0]
  /\ disk = [n \in Nodes |-> 0]
  /\ phase = [n \in Nodes |-> "fill"]
  /\ want = [n \in Nodes |-> FALSE]
  /\ out = [n \in Nodes |-> "none"]
  /\ q = [n \in Nodes |-> <<>>]
  /\ eosn = [n \in Nodes |-> 0]
  /\ spawned = [n \in Nodes |-> FALSE]
  /\ tasks = {} /\ aborting = {}
  /\ fired = FALSE /\ got = 0 /\ rootEnd = "none" /\ cause = "none" /\ started = FALSE

(* ---------------- dropping ---------------- *)
\* nodes released synchronously when the stream of node n is dropped: children owned by a
\* still-running task stay until that task stops
RECURSIVE DropSet(_, _)
DropSet(n, tk) ==
  {n} \cup UNION {IF <<n, c>> \in tk THEN {} ELSE DropSet(c, tk) : c \in KidSet(n)}
TasksOf(D, tk) == {t \in tk : t[1] \in D}

DropEffect(D, tk, ab) ==
  /\ st' = [n \in Nodes |-> IF n \in D THEN "dropped" ELSE st[n]]
  /\ buf' = [n \in Nodes |-> IF n \in D THEN 0 ELSE buf[n]]
  /\ disk' = [n \in Nodes |-> IF n \in D THEN 0 ELSE disk[n]]
  /\ want' = [n \in Nodes |-> IF n \in D THEN FALSE ELSE want[n]]
  /\ out' = [n \in Nodes |-> IF n \in D THEN "none" ELSE out[n]]
  /\ q' = [n \in Nodes |-> IF n \in D THEN <<>> ELSE q[n]]
  /\ tasks' = tk \ TasksOf(D, tk)
  /\ aborting' = ab \cup TasksOf(D, tk)

(* ---------------- node steps ---------------- *)
Ready(n) == want[n] /\ out[n] = "none" /\ st[n] = "open"
Reserved == SumSeq(buf, [i \in Nodes |-> i])

Emit1(n, item) ==
  /\ out' = [out EXCEPT ![n] = item]
  /\ want' = [want EXCEPT ![n] = FALSE]
  /\ st' = [st EXCEPT ![n] = IF item = "err" THEN "failed" ELSE IF item = "eos" THEN "ended" ELSE @]

\* emit and consume the child's item in one step
EmitTake(n, c, item) ==
  /\ out' = [out EXCEPT ![n] = item, ![c] = "none"]
  /\ want' = [want EXCEPT ![n] = FALSE]
  /\ st' = [st EXCEPT ![n] = IF item = "err" THEN "failed" ELSE IF item = "eos" THEN "ended" ELSE @]

Request(c) == /\ out[c] = "none" /\ ~want[c] /\ st[c] = "open"
              /\ want' = [want EXCEPT ![c] = TRUE]

\* partial mode, drop-before-fault cases: the failing source is parked until the victims were dropped
GateOpen == MODE # "partial" \/ fan.when = "after" \/ \A o \in fan.drop : fan.ost[o] # "live"

SrcStep(n) ==
  /\ T[n].kind = "src" /\ Ready(n)
  /\ ~(fault.n = n /\ fault.k = pos[n] /\ ~GateOpen)
  /\ IF fault.n = n /\ fault.k = pos[n]
       THEN /\ Emit1(n, "err") /\ fired' = TRUE /\ cause' = "fault" /\ UNCHANGED pos
       ELSE IF pos[n] < NB
         THEN /\ Emit1(n, "b") /\ pos' = [pos EXCEPT ![n] = @ + 1] /\ UNCHANGED <<fired, cause>>
         ELSE /\ Emit1(n, "eos") /\ UNCHANGED <<pos, fired, cause>>
  /\ UNCHANGED <<caseVars, buf, disk, phase, q, eosn, spawned, tasks, aborting, got, rootEnd, started>>

PipeStep(n) ==
  /\ T[n].kind \in {"pipe", "udf"} /\ Ready(n)
  /\ LET c == Kids(n)[1] IN
     \/ /\ Request(c)
        /\ UNCHANGED <<out, st, pos, fired, cause>>
     \/ /\ out[c] = "b"
        /\ IF fault.n = n /\ fault.k = pos[n]
             THEN EmitTake(n, c, "err") /\ fired' = TRUE /\ cause' = "fault" /\ UNCHANGED pos
             ELSE EmitTake(n, c, "b") /\ pos' = [pos EXCEPT ![n] = @ + 1] /\ UNCHANGED <<fired, cause>>
     \/ /\ out[c] \in {"err", "eos"}
        /\ EmitTake(n, c, out[c])
        /\ UNCHANGED <<pos, fired, cause>>
  /\ UNCHANGED <<caseVars, buf, disk, phase, q, eosn, spawned, tasks, aborting, got, rootEnd, started>>

LimitStep(n) ==
  /\ T[n].kind = "limit" /\ Ready(n)
  /\ LET c == Kids(n)[1] IN
     \/ /\ pos[n] < T[n].lim /\ Request(c)
        /\ UNCHANGED <<out, st, pos, buf, disk, q, tasks, aborting>>
     \/ /\ pos[n] < T[n].lim /\ out[c] = "b"
        /\ EmitTake(n, c, "b") /\ pos' = [pos EXCEPT ![n] = @ + 1]
        /\ UNCHANGED <<buf, disk, q, tasks, aborting>>
     \/ /\ pos[n] < T[n].lim /\ out[c] \in {"err", "eos"}
        /\ EmitTake(n, c, out[c])
        /\ UNCHANGED <<pos, buf, disk, q, tasks, aborting>>
     \/ \* limit reached: end early and release the input
        /\ pos[n] >= T[n].lim
        /\ LET D == DropSet(c, tasks) IN
           /\ st' = [m \in Nodes |-> IF m \in D THEN "dropped" ELSE IF m = n THEN "ended" ELSE st[m]]
           /\ buf' = [m \in Nodes |-> IF m \in D THEN 0 ELSE buf[m]]
           /\ disk' = [m \in Nodes |-> IF m \in D THEN 0 ELSE disk[m]]
           /\ want' = [m \in Nodes |-> IF m \in D \/ m = n THEN FALSE ELSE want[m]]
           /\ out' = [m \in Nodes |-> IF m \in D THEN "none" ELSE IF m = n THEN "eos" ELSE out[m]]
           /\ q' = [m \in Nodes |-> IF m \in D THEN <<>> ELSE q[m]]
           /\ tasks' = tasks \ TasksOf(D, tasks)
           /\ aborting' = aborting \cup TasksOf(D, tasks)
        /\ UNCHANGED pos
  /\ UNCHANGED <<caseVars, phase, eosn, spawned, fired, cause, got, rootEnd, started>>

\* consume one batch into a buffering node: reserve, or spill, or fail
Buffer(n, c) ==
  LET denied == (Reserved + 1 > lim) \/ (fault.n = n /\ fault.kind = "deny" /\ fault.k = pos[n])
      injected == fault.n = n /\ fault.kind = "deny" /\ fault.k = pos[n] IN
  IF ~denied
    THEN /\ buf' = [buf EXCEPT ![n] = @ + 1] /\ pos' = [pos EXCEPT ![n] = @ + 1]
         /\ out' = [out EXCEPT ![c] = "none"]
         /\ UNCHANGED <<disk, want, st, fired, cause, eosn>>
    ELSE IF T[n].spill /\ T[n].kind = "block"
      THEN IF fault.n = n /\ fault.kind = "spillw" /\ fault.k = eosn[n]
             THEN /\ EmitTake(n, c, "err") /\ fired' = TRUE /\ cause' = "fault"
                  /\ UNCHANGED <<buf, disk, pos, eosn>>
             ELSE \* spill the buffered batches and the incoming one to a temp file (eosn counts spills)
                  /\ disk' = [disk EXCEPT ![n] = @ + buf[n] + 1] /\ buf' = [buf EXCEPT ![n] = 0]
                  /\ pos' = [pos EXCEPT ![n] = @ + 1] /\ eosn' = [eosn EXCEPT ![n] = @ + 1]
                  /\ out' = [out EXCEPT ![c] = "none"]
                  /\ fired' = (fired \/ injected)
                  /\ UNCHANGED <<want, st, cause>>
      ELSE /\ EmitTake(n, c, "err") /\ fired' = (fired \/ injected)
           /\ cause' = IF injected THEN "fault" ELSE "oom"
           /\ UNCHANGED <<buf, disk, pos, eosn>>

BlockStep(n) ==
  /\ T[n].kind = "block" /\ Ready(n)
  /\ LET c == Kids(n)[1] IN
     \/ /\ phase[n] = "fill" /\ Request(c)
        /\ UNCHANGED <<out, st, pos, buf, disk, phase, fired, cause, eosn>>
     \/ /\ phase[n] = "fill" /\ out[c] = "b" /\ Buffer(n, c) /\ UNCHANGED phase
     \/ /\ phase[n] = "fill" /\ out[c] = "eos"
        /\ phase' = [phase EXCEPT ![n] = "emit"] /\ out' = [out EXCEPT ![c] = "none"]
        /\ UNCHANGED <<want, st, pos, buf, disk, fired, cause, eosn>>
     \/ /\ phase[n] = "fill" /\ out[c] = "err" /\ EmitTake(n, c, "err")
        /\ UNCHANGED <<pos, buf, disk, phase, fired, cause, eosn>>
     \/ /\ phase[n] = "emit" /\ disk[n] > 0
        /\ Emit1(n, "b") /\ disk' = [disk EXCEPT ![n] = @ - 1]
        /\ UNCHANGED <<pos, buf, phase, fired, cause, eosn>>
     \/ /\ phase[n] = "emit" /\ disk[n] = 0 /\ buf[n] > 0
        /\ Emit1(n, "b") /\ buf' = [buf EXCEPT ![n] = @ - 1]
        /\ UNCHANGED <<pos, disk, phase, fired, cause, eosn>>
     \/ /\ phase[n] = "emit" /\ disk[n] = 0 /\ buf[n] = 0
        /\ Emit1(n, "eos")
        /\ UNCHANGED <<pos, buf, disk, phase, fired, cause, eosn>>
  /\ UNCHANGED <<caseVars, q, spawned, tasks, aborting, got, rootEnd, started>>

JoinStep(n) ==
  /\ T[n].kind = "join" /\ Ready(n)
  /\ LET b == Kids(n)[1]
         p == Kids(n)[2] IN
     \/ /\ phase[n] = "fill" /\ Request(b)
        /\ UNCHANGED <<out, st, pos, buf, disk, phase, fired, cause, eosn>>
     \/ /\ phase[n] = "fill" /\ out[b] = "b" /\ Buffer(n, b) /\ UNCHANGED phase
     \/ /\ phase[n] = "fill" /\ out[b] = "eos"
        /\ phase' = [phase EXCEPT ![n] = "emit"] /\ out' = [out EXCEPT ![b] = "none"]
        /\ UNCHANGED <<want, st, pos, buf, disk, fired, cause, eosn>>
     \/ /\ phase[n] = "fill" /\ out[b] = "err" /\ EmitTake(n, b, "err")
        /\ UNCHANGED <<pos, buf, disk, phase, fired, cause, eosn>>
     \/ /\ phase[n] = "emit" /\ Request(p)
        /\ UNCHANGED <<out, st, pos, buf, disk, phase, fired, cause, eosn>>
     \/ /\ phase[n] = "emit" /\ out[p] # "none" /\ EmitTake(n, p, out[p])
        /\ UNCHANGED <<pos, buf, disk, phase, fired, cause, eosn>>
  /\ UNCHANGED <<caseVars, q, spawned, tasks, aborting, got, rootEnd, started>>

MergeStep(n) ==
  /\ T[n].kind = "merge" /\ Ready(n)
  /\ \/ \E c \in KidSet(n) : /\ Request(c) /\ UNCHANGED <<out, st, eosn>>
     \/ \E c \in KidSet(n) : /\ out[c] \in {"b", "err"} /\ EmitTake(n, c, out[c]) /\ UNCHANGED eosn
     \/ \E c \in KidSet(n) :
          /\ out[c] = "eos"
          /\ IF eosn[n] + 1 = Len(Kids(n))
               THEN EmitTake(n, c, "eos")
               ELSE out' = [out EXCEPT ![c] = "none"] /\ UNCHANGED <<want, st>>
          /\ eosn' = [eosn EXCEPT ![n] = @ + 1]
  /\ UNCHANGED <<caseVars, pos, buf, disk, phase, q, spawned, tasks, aborting, fired, cause, got, rootEnd, started>>

XchgStep(n) ==
  /\ T[n].kind = "xchg" /\ Ready(n)
  /\ \/ /\ ~spawned[n]
        /\ spawned' = [spawned EXCEPT ![n] = TRUE]
        /\ tasks' = tasks \cup {<<n, c>> : c \in KidSet(n)}
        /\ UNCHANGED <<out, want, st, q, eosn>>
     \/ /\ spawned[n] /\ q[n] # <<>> /\ Head(q[n]) \in {"b", "err"}
        /\ Emit1(n, Head(q[n])) /\ q' = [q EXCEPT ![n] = Tail(@)]
        /\ UNCHANGED <<spawned, tasks, eosn>>
     \/ /\ spawned[n] /\ q[n] # <<>> /\ Head(q[n]) = "eos"
        /\ q' = [q EXCEPT ![n] = Tail(@)] /\ eosn' = [eosn EXCEPT ![n] = @ + 1]
        /\ IF eosn[n] + 1 = Len(Kids(n)) THEN Emit1(n, "eos") ELSE UNCHANGED <<out, want, st>>
        /\ UNCHANGED <<spawned, tasks>>
  /\ UNCHANGED <<caseVars, pos, buf, disk, phase, aborting, fired, cause, got, rootEnd, started>>

NodeStep(n) == SrcStep(n) \/ PipeStep(n) \/ LimitStep(n) \/ BlockStep(n) \/ JoinStep(n) \/ MergeStep(n) \/ XchgStep(n)

(* ---------------- spawned tasks ---------------- *)
AllTasks == {<<n, c>> \in Nodes \X Nodes : T[n].kind = "xchg" /\ c \in KidSet(n)}

TaskStep(t) ==
  /\ t \in tasks
  /\ LET n == t[1]
         c == t[2] IN
     \/ /\ Request(c)
        /\ UNCHANGED <<out, st, buf, disk, q, tasks, aborting>>
     \/ /\ out[c] = "b"
        /\ q' = [q EXCEPT ![n] = Append(@, "b")] /\ out' = [out EXCEPT ![c] = "none"]
        /\ UNCHANGED <<want, st, buf, disk, tasks, aborting>>
     \/ \* last item: the task finishes and its future (owning the child stream) is dropped
        /\ out[c] \in {"err", "eos"}
        /\ LET D == DropSet(c, tasks \ {t}) IN
           /\ st' = [m \in Nodes |-> IF m \in D THEN "dropped" ELSE st[m]]
           /\ buf' = [m \in Nodes |-> IF m \in D THEN 0 ELSE buf[m]]
           /\ disk' = [m \in Nodes |-> IF m \in D THEN 0 ELSE disk[m]]
           /\ want' = [m \in Nodes |-> IF m \in D THEN FALSE ELSE want[m]]
           /\ out' = [m \in Nodes |-> IF m \in D THEN "none" ELSE out[m]]
           /\ q' = [m \in Nodes |-> IF m \in D THEN <<>> ELSE IF m = n THEN Append(q[n], out[c]) ELSE q[m]]
           /\ tasks' = (tasks \ {t}) \ TasksOf(D, tasks)
           /\ aborting' = aborting \cup TasksOf(D, tasks \ {t})
  /\ UNCHANGED <<caseVars, pos, phase, eosn, spawned, fired, cause, got, rootEnd, started>>

\* the runtime drops an aborted task's future: everything the task owned is released
TaskStop(t) ==
  /\ t \in aborting
  /\ DropEffect(DropSet(t[2], tasks), tasks, aborting \ {t})
  /\ UNCHANGED <<caseVars, pos, phase, eosn, spawned, fired, cause, got, rootEnd, started>>

(* ---------------- the client ---------------- *)
Start == /\ ~started /\ started' = TRUE
         /\ UNCHANGED <<caseVars, st, pos, buf, disk, phase, want, out, q, eosn, spawned, tasks, aborting, fired, got, rootEnd, cause>>

ClientPoll ==
  /\ MODE # "partial"
  /\ started /\ rootEnd = "none" /\ got < dropAt /\ Request(1)
  /\ UNCHANGED <<caseVars, st, pos, buf, disk, phase, out, q, eosn, spawned, tasks, aborting, fired, got, rootEnd, cause, started>>

ClientTake ==
  /\ MODE # "partial"
  /\ started /\ rootEnd = "none" /\ out[1] # "none"
  /\ out' = [out EXCEPT ![1] = "none"]
  /\ got' = IF out[1] = "b" THEN got + 1 ELSE got
  /\ rootEnd' = IF out[1] = "b" THEN "none" ELSE IF out[1] = "eos" THEN "ok" ELSE "err"
  /\ UNCHANGED <<caseVars, st, pos, buf, disk, phase, want, q, eosn, spawned, tasks, aborting, fired, cause, started>>

\* drop the stream: at the requested drop point, or after the terminal item
ClientDrop ==
  /\ MODE # "partial"
  /\ started /\ st[1] # "dropped"
  /\ \/ rootEnd = "none" /\ got = dropAt /\ out[1] = "none" /\ ~want[1] /\ rootEnd' = "dropped"
     \/ rootEnd \in {"ok", "err"} /\ UNCHANGED rootEnd
  /\ DropEffect(DropSet(1, tasks), tasks, aborting)
  /\ UNCHANGED <<caseVars, pos, phase, eosn, spawned, fired, cause, got, started>>

Client == Start \/ ClientPoll \/ ClientTake \/ ClientDrop

(* ---------------- partial consumers of the root exchange ---------------- *)
Outs == 1..fan.m
Perms(S) == {p \in [1..Cardinality(S) -> S] : \A i, j \in 1..Cardinality(S) : i # j => p[i] # p[j]}
TreeUnchanged == UNCHANGED <<realCaseVars, st, pos, buf, disk, phase, want, out, eosn, spawned, tasks, aborting, fired, got, rootEnd, cause, started>>

FanStart ==
  /\ MODE = "partial" /\ started /\ ~spawned[1] /\ st[1] = "open"
  /\ spawned' = [spawned EXCEPT ![1] = TRUE]
  /\ tasks' = tasks \cup {<<1, c>> : c \in KidSet(1)}
  /\ UNCHANGED <<realCaseVars, fan, st, pos, buf, disk, phase, want, out, q, eosn, aborting, fired, got, rootEnd, cause, started>>

\* the exchange takes the next item of an input task: a batch goes to one output, a terminal item starts a fan-out
Route ==
  /\ MODE = "partial" /\ st[1] = "open" /\ q[1] # <<>> /\ fan.pitem = "none"
  /\ LET h == Head(q[1]) IN
     \/ /\ h = "b"
        /\ \E o \in Outs :
             fan' = [fan EXCEPT !.routed[o] = @ + 1,
                                !.oq[o] = IF fan.ost[o] = "live" THEN Append(@, "b") ELSE @]
        /\ UNCHANGED eosn
     \/ /\ h = "err"
        /\ \E p \in Perms(Outs) : fan' = [fan EXCEPT !.pitem = "err", !.pending = p]
        /\ UNCHANGED eosn
     \/ /\ h = "eos"
        /\ eosn' = [eosn EXCEPT ![1] = @ + 1]
        /\ IF eosn[1] + 1 = Len(Kids(1))
             THEN \E p \in Perms(Outs) : fan' = [fan EXCEPT !.pitem = "eos", !.pending = p]
             ELSE UNCHANGED fan
  /\ q' = [q EXCEPT ![1] = Tail(@)]
  /\ UNCHANGED <<realCaseVars, st, pos, buf, disk, phase, want, out, spawned, tasks, aborting, fired, got, rootEnd, cause, started>>

\* one step of the fan-out loop (wait_for_task): a closed output is skipped -- or, with BREAKS, ends the loop
FanStep ==
  /\ MODE = "partial" /\ fan.pitem # "none" /\ fan.pending # <<>>
  /\ LET o == Head(fan.pending) IN
     IF fan.ost[o] = "dropped"
       THEN fan' = [fan EXCEPT !.pending = IF BREAKS THEN <<>> ELSE Tail(@),
                               !.pitem = IF BREAKS \/ Len(fan.pending) = 1 THEN "none" ELSE @]
       ELSE fan' = [fan EXCEPT !.oq[o] = IF fan.ost[o] = "live" THEN Append(@, fan.pitem) ELSE @,
                               !.pending = Tail(@),
                               !.pitem = IF Len(fan.pending) = 1 THEN "none" ELSE @]
  /\ TreeUnchanged /\ UNCHANGED q

InputsDone == spawned[1] /\ (\A c \in KidSet(1) : <<1, c>> \notin tasks) /\ q[1] = <<>> /\ fan.pitem = "none"

OutTake(o) ==
  /\ MODE = "partial" /\ fan.ost[o] = "live"
  /\ \/ /\ fan.oq[o] # <<>>
        /\ LET h == Head(fan.oq[o]) IN
           fan' = [fan EXCEPT !.oq[o] = Tail(@),
                              !.ogot[o] = IF h = "b" THEN @ + 1 ELSE @,
                              !.ost[o] = IF h = "b" THEN "live" ELSE IF h = "err" THEN "err" ELSE "ok"]
     \/ \* every sender is gone and nothing is queued: the channel is closed, the output ends cleanly
        /\ fan.oq[o] = <<>> /\ InputsDone
        /\ fan' = [fan EXCEPT !.ost[o] = "ok"]
  /\ TreeUnchanged /\ UNCHANGED q

OutDrop(o) ==
  /\ MODE = "partial" /\ o \in fan.drop /\ fan.ost[o] = "live" /\ started
  /\ IF fan.when = "before" THEN ~fired ELSE fired
  /\ fan' = [fan EXCEPT !.ost[o] = "dropped", !.oq[o] = <<>>]
  /\ TreeUnchanged /\ UNCHANGED q

\* every output ended or was dropped: the plan and what is left of the exchange are dropped
FanFinish ==
  /\ MODE = "partial" /\ started /\ st[1] # "dropped"
  /\ \A o \in Outs : fan.ost[o] # "live"
  /\ DropEffect(DropSet(1, tasks), tasks, aborting)
  /\ UNCHANGED <<realCaseVars, fan, pos, phase, eosn, spawned, fired, cause, got, rootEnd, started>>

Fan == FanStart \/ Route \/ FanStep \/ FanFinish \/ (\E o \in 1..8 : o \in Outs /\ (OutTake(o) \/ OutDrop(o)))

Next == Client \/ Fan \/ (\E n \in Nodes : NodeStep(n)) \/ (\E t \in AllTasks : TaskStep(t) \/ TaskStop(t))

\* every step consumes something (the state graph is acyclic), so weak fairness of Next suffices
Fair == WF_vars(Next)

Spec == Init /\ [][Next]_vars /\ Fair
\* case enumeration only: the initial states
GenSpec == Init /\ [][UNCHANGED vars]_vars

(* ---------------- properties ---------------- *)
Released == tasks = {} /\ aborting = {} /\ \A n \in Nodes : buf[n] = 0 /\ disk[n] = 0
Quiescent == st[1] = "dropped" /\ aborting = {}

TypeOK ==
  /\ \A n \in Nodes : st[n] \in {"open", "ended", "failed", "dropped"} /\ out[n] \in {"none", "b", "err", "eos"}
  /\ rootEnd \in {"none", "ok", "err", "dropped"} /\ cause \in {"none", "fault", "oom"}
  /\ tasks \subseteq AllTasks /\ aborting \subseteq AllTasks /\ tasks \cap aborting = {}

\* C20: a successful end delivers everything; a fault that is necessarily observed never ends with End(ok)
NoTruncation == rootEnd = "ok" => got = Ref
Effective(f) == f.kind \in {"src_err", "src_panic", "udf", "spillw"}
                \/ (f.kind = "deny" /\ ~(T[f.n].kind = "block" /\ T[f.n].spill))
MustErr == fault.n # 0 /\ Effective(fault) /\ MustErrAt(T, fault.n)
FaultSurfaces == (fired /\ MustErr) => rootEnd # "ok"
\* without an early-stopping ancestor the fault is reached in every complete behaviour
FaultReached == (rootEnd = "ok" /\ MustErr /\ fault.kind \in {"src_err", "src_panic", "udf"}) => FALSE
\* C18: an error without an injected fault is resource exhaustion; memory stays within the limit
CleanFailure == (rootEnd = "err" /\ fault.n = 0) => cause = "oom"
WithinLimit == Reserved <= lim
\* C18/C19: when the stream is gone and every aborted task has stopped, nothing is held
ReleasedWhenQuiescent == Quiescent => Released
\* owned-by-dropped: a dropped node holds nothing
DroppedHoldsNothing == \A n \in Nodes : st[n] = "dropped" => buf[n] = 0 /\ disk[n] = 0 /\ ~want[n]

\* partial consumers: once the fault fired no live output ends cleanly, and a clean end is complete
FanSurfaces == MODE = "partial" => \A o \in Outs : fan.ost[o] = "ok" => ~fired
FanComplete == MODE = "partial" => \A o \in Outs : fan.ost[o] = "ok" => fan.ogot[o] = fan.routed[o]

\* liveness (weak fairness of every process): the query terminates, and a dropped stream releases everything
Terminates == <>(st[1] = "dropped")
DropReleases == (st[1] = "dropped") ~> Released
StaysReleased == [](Quiescent => []Released)

(* ---------------- case emission ---------------- *)
LeafOf(n) == [node |-> n, t |-> T[n].t, p |-> T[n].p]
CaseRec ==
  [shape |-> sh, mode |-> MODE, nb |-> NB,
   ops |-> [n \in Nodes |-> [kind |-> T[n].kind, op |-> T[n].op, kids |-> T[n].kids, t |-> T[n].t, p |-> T[n].p]],
   fault |-> [node |-> fault.n, k |-> fault.k, kind |-> fault.kind,
              op |-> IF fault.n = 0 THEN "" ELSE T[fault.n].op,
              t |-> IF fault.n = 0 THEN "" ELSE T[fault.n].t,
              p |-> IF fault.n = 0 THEN 0 ELSE T[fault.n].p],
   drop_at |-> dropAt, lim |-> lim, ref_batches |-> Ref,
   must_err |-> MustErr,
   fan |-> [m |-> fan.m, drop |-> fan.drop, when |-> fan.when],
   spawns |-> \E n \in Nodes : T[n].kind = "xchg",
   spills |-> \E n \in Nodes : T[n].spill]
Emit == (~started) => PrintT(<<"CASE", ToJson(CaseRec)>>)
=============================================================================
