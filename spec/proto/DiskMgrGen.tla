----------------------------- MODULE DiskMgrGen -----------------------------
(* History generator for binding B3: every complete sequential behaviour of  *)
(* DiskMgr (T = 1) is printed as one JSON case: the operations with the      *)
(* observable values the specification expects after each of them.           *)
EXTENDS DiskMgr, Json

Emit == (Quiescent /\ nops = MAXOPS) =>
          PrintT(<<"CASE", ToJson([lim0 |-> LIM0, nf |-> NF, ops |-> hist])>>)
=============================================================================
