----------------------------- MODULE DynPushGen -----------------------------
(***************************************************************************)
(* Case generator for C31 layers (b)/(c): small build/probe tables and     *)
(* ORDER BY .. LIMIT k inputs with the result the reference semantics       *)
(* (spec/lib/Join.tla nested loop, spec/lib/Sort.tla) assigns.  The driver  *)
(* runs every case on the real engine over Parquet sources with dynamic     *)
(* filter pushdown on and off, in every partition mode: a dynamic filter    *)
(* that discards a contributing row changes the result bag.                 *)
(*                                                                         *)
(* join case:  rows <<key, id>>; the key is NULL or 0..2, the id is unique  *)
(*             (10+i on the left, 20+j on the right) so lost/duplicated     *)
(*             rows are visible; equi-join on the key, NULL = nothing.      *)
(* topk case:  rows <<key, id>>, ORDER BY key [DESC] [NULLS FIRST], id      *)
(*             LIMIT k  (id makes the order total).                         *)
(***************************************************************************)
EXTENDS Join, Sort, Randomization, Json, TLC

CONSTANTS NPAIRS,   \* sampled <<left keys, right keys>> pairs per join type
          NTOPK,    \* sampled topk inputs
          MAXROWS   \* max rows of a join side

VARIABLE c
vars == <<c>>

Keys == {Null, I(0), I(1), I(2)}
KeySeqs(max) == UNION {[1..n -> Keys] : n \in 0..max}
Tab(ks, base) == [i \in 1..Len(ks) |-> <<ks[i], I(base + i)>>]
SqlJoinTypes == {"Inner", "Left", "Right", "Full", "LeftSemi", "RightSemi", "LeftAnti", "RightAnti"}
Sub(n, SS) == IF n >= Cardinality(SS) THEN SS ELSE RandomSubset(n, SS)

JoinCase(jt, lk, rk) ==
  LET L == Tab(lk, 10)  R == Tab(rk, 20) IN
  [kind |-> "join", jt |-> jt, l |-> L, r |-> R, desc |-> FALSE, nf |-> FALSE, k |-> 0,
   expect |-> Join(jt, L, R, 2, 2, 1, FALSE, "none")]

TopKCase(ks, desc, nf, k) ==
  LET X == Tab(ks, 10)
      keys == <<[col |-> 1, desc |-> desc, nf |-> nf], [col |-> 2, desc |-> FALSE, nf |-> FALSE]>> IN
  [kind |-> "topk", jt |-> "-", l |-> X, r |-> <<>>, desc |-> desc, nf |-> nf, k |-> k,
   expect |-> Prefix(SortSeq(X, keys), k)]

Init ==
  \/ \E jt \in SqlJoinTypes : \E lk \in Sub(NPAIRS, KeySeqs(MAXROWS)) : \E rk \in Sub(3, KeySeqs(MAXROWS)) :
       c = JoinCase(jt, lk, rk)
  \/ \E ks \in Sub(NTOPK, UNION {[1..n -> Keys] : n \in 2..5}) : \E desc \in BOOLEAN, nf \in BOOLEAN :
       \E k \in {1, 3} : c = TopKCase(ks, desc, nf, k)

Next == UNCHANGED vars
Spec == Init /\ [][Next]_vars
Emit == PrintT(<<"CASE", ToJson(c)>>)
\* the reference itself: semi + anti partition the preserved side; outer joins contain the inner join
RefSane ==
  c.kind = "join" =>
    LET L == c.l  R == c.r IN
    /\ Len(Join("LeftSemi", L, R, 2, 2, 1, FALSE, "none")) + Len(Join("LeftAnti", L, R, 2, 2, 1, FALSE, "none")) = Len(L)
    /\ Len(Join("Full", L, R, 2, 2, 1, FALSE, "none")) >= Len(Join("Inner", L, R, 2, 2, 1, FALSE, "none"))
=============================================================================
