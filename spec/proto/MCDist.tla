---- MODULE MCDist ----
EXTENDS DistChanImpl
SendersOfV == <<1, 1>>
====
