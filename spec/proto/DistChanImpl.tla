---------------------------- MODULE DistChanImpl ----------------------------
(***************************************************************************)
(* Implementation-grain model of datafusion/physical-plan/src/repartition/ *)
(* distributor_channels.rs (property C15).  One action per shared-memory   *)
(* access region; every action label is the hook site `dc_<label>` placed  *)
(* immediately before that region in the Rust code (cfg datafusion_verif), *)
(* so a TLC behaviour is a schedule the controlled scheduler can drive the *)
(* real code through (B1) and a recorded execution is a sequence of these  *)
(* labels (B2).                                                            *)
(*                                                                         *)
(* Shared state: per channel, the channel mutex protects <<queue, alive,   *)
(* rwSome, rwReg>>; `held[c]` says the mutex is taken (regions that access *)
(* the gate while the channel mutex is held are separate actions, so the   *)
(* mutex is held across actions).  The gate has the atomic `empty` and the *)
(* mutex-protected <<swSome, swList>>; every gate-mutex region is a single *)
(* action, so that mutex is never held across actions.  `nSend[c]` is the  *)
(* atomic sender count.                                                    *)
(* Steps that touch only state protected by the held channel mutex (push,  *)
(* take_recv_wakers, unlock) are merged into the preceding action: they    *)
(* commute with every action of the other processes.                       *)
(* Wakers: a parked process (pc = "S_park"/"R_park") is disabled; `wake`   *)
(* moves it to "S_res"/"R_res" (the executor polls the future again).      *)
(***************************************************************************)
EXTENDS Integers, Sequences, FiniteSets, TLC

CONSTANTS NCH,          \* number of channels of the gate (channels(NCH))
          S1, S2, S3,   \* number of sender handles (clones) on channel 1, 2, 3
          MSGS,         \* max sends per sender handle
          RDROP,        \* a receiver may be dropped before it has seen end-of-stream
          SDROP         \* a sender handle may be dropped before it has sent MSGS values

SendersOf == <<S1, S2, S3>>
Chans   == 1..NCH
Senders == { p \in Chans \X (1..3) : p[2] <= SendersOf[p[1]] }
Recvs   == { <<c, 0>> : c \in Chans }
Procs   == Senders \cup Recvs
Ch(p)   == p[1]
Rx(c)   == <<c, 0>>

VARIABLES
  pc,                               \* control state of every process
  queue, alive, rwSome, rwReg, held, \* channel state: data (None = ~alive), recv_wakers Some?, receiver registered?, mutex taken
  nSend,                            \* atomic n_senders
  empty, swSome, swList,            \* gate: empty_channels, send_wakers is Some?, registered senders
  wk,                               \* local: wakers taken, to be woken outside the lock
  started, sentCnt, sendErr,        \* ghost: sends started / returned Ok / a send returned Err
  pushed, recvd, rcnt, gotNone,     \* ghost: values pushed per channel (commit order), dequeued, returned by recv, recv returned None
  last                              \* <<kind, chan, index, label>> of the last step (hidden by VIEW)

cvars == <<queue, alive, rwSome, rwReg, held>>
gvars == <<empty, swSome, swList>>
hvars == <<started, sentCnt, sendErr, pushed, recvd, rcnt, gotNone>>
vars  == <<pc, cvars, nSend, gvars, wk, hvars, last>>
view  == <<pc, cvars, nSend, gvars, wk, hvars>>

Init ==
  /\ pc = [p \in Procs |-> IF p \in Senders THEN "S0" ELSE "R0"]
  /\ queue = [c \in Chans |-> <<>>] /\ alive = [c \in Chans |-> TRUE]
  /\ rwSome = [c \in Chans |-> TRUE] /\ rwReg = [c \in Chans |-> FALSE]
  /\ held = [c \in Chans |-> FALSE]
  /\ nSend = [c \in Chans |-> SendersOf[c]]
  /\ empty = NCH /\ swSome = FALSE /\ swList = {}
  /\ wk = [p \in Procs |-> {}]
  /\ started = [p \in Senders |-> 0] /\ sentCnt = [p \in Senders |-> 0]
  /\ sendErr = [p \in Senders |-> FALSE]
  /\ pushed = [c \in Chans |-> <<>>] /\ recvd = [c \in Chans |-> <<>>]
  /\ rcnt = [c \in Chans |-> 0] /\ gotNone = [c \in Chans |-> FALSE]
  /\ last = <<"init", 0, 0, "init">>

Lbl(p, l) == last' = <<IF p[2] = 0 THEN "r" ELSE "s", p[1], p[2], l>>
Goto(p, l) == pc' = [pc EXCEPT ![p] = l]
\* wake(): the parked owner of each waker becomes runnable again; this process moves to `l`
WakeGoto(p, l) ==
  pc' = [q \in Procs |-> IF q = p THEN l
                         ELSE IF q \in wk[p] /\ pc[q] = "S_park" THEN "S_res"
                         ELSE IF q \in wk[p] /\ pc[q] = "R_park" THEN "R_res" ELSE pc[q]]
Unlock(c) == held' = [held EXCEPT ![c] = FALSE]
Msg(p) == <<p[2], sentCnt[p] + 1>>

(* ------------------------------ SendFuture::poll ------------------------------ *)
\* dc_s_lock: channel.state.lock(); receiver gone -> Ready(Err)
S_lock(p) == LET c == Ch(p) IN
  /\ pc[p] \in {"S0", "S1"} /\ ~held[c]
  /\ pc[p] = "S0" => (started[p] < MSGS /\ ~sendErr[p])
  /\ started' = IF pc[p] = "S0" THEN [started EXCEPT ![p] = @ + 1] ELSE started
  /\ IF ~alive[c]
       THEN /\ sendErr' = [sendErr EXCEPT ![p] = TRUE] /\ Goto(p, "S0") /\ UNCHANGED held
       ELSE /\ held' = [held EXCEPT ![c] = TRUE] /\ Goto(p, "S3") /\ UNCHANGED sendErr
  /\ Lbl(p, "s_lock")
  /\ UNCHANGED <<queue, alive, rwSome, rwReg, nSend, gvars, wk, sentCnt, pushed, recvd, rcnt, gotNone>>

\* data.push_back(element) (+ everything up to the next shared access)
Push(p) == LET c == Ch(p) IN
  /\ queue' = [queue EXCEPT ![c] = Append(@, Msg(p))]
  /\ pushed' = [pushed EXCEPT ![c] = Append(@, Msg(p))]
  /\ IF queue[c] = <<>>
       THEN /\ Goto(p, "S6") /\ UNCHANGED <<held, sentCnt>>       \* was_empty: decr_empty_channels next
       ELSE /\ Unlock(c) /\ Goto(p, "S0")                          \* Ready(Ok(()))
            /\ sentCnt' = [sentCnt EXCEPT ![p] = @ + 1]

\* dc_s_load: gate.empty_channels.load()
S_load(p) ==
  /\ pc[p] = "S3"
  /\ IF empty = 0 THEN Goto(p, "S4") /\ UNCHANGED <<queue, pushed, held, sentCnt>>
                  ELSE Push(p)
  /\ Lbl(p, "s_load")
  /\ UNCHANGED <<alive, rwSome, rwReg, nSend, gvars, wk, started, sendErr, recvd, rcnt, gotNone>>

\* dc_s_gate: gate.send_wakers.lock(); Some(list) -> register, Pending (channel mutex released)
S_gate(p) == LET c == Ch(p) IN
  /\ pc[p] = "S4"
  /\ IF swSome
       THEN /\ swList' = swList \cup {p} /\ Unlock(c) /\ Goto(p, "S_park")
            /\ UNCHANGED <<queue, pushed, sentCnt>>
       ELSE /\ Push(p) /\ UNCHANGED swList
  /\ Lbl(p, "s_gate")
  /\ UNCHANGED <<alive, rwSome, rwReg, nSend, empty, swSome, wk, started, sendErr, recvd, rcnt, gotNone>>

(* ------------------------------ Gate::decr_empty_channels ------------------------------ *)
\* continuation after decr_empty_channels returned (still inside the channel mutex)
AfterDecr(p) == LET c == Ch(p) IN
  CASE pc[p] \in {"S6", "S7"} ->       \* take_recv_wakers(); unlock; wake outside the lock
         /\ wk' = [wk EXCEPT ![p] = IF rwReg[c] THEN {Rx(c)} ELSE {}]
         /\ rwReg' = [rwReg EXCEPT ![c] = FALSE] /\ Unlock(c)
         /\ IF rwReg[c] THEN Goto(p, "S9") /\ UNCHANGED sentCnt
                        ELSE Goto(p, "S0") /\ sentCnt' = [sentCnt EXCEPT ![p] = @ + 1]
         /\ UNCHANGED <<rwSome>>
    [] pc[p] \in {"D6", "D7"} ->       \* recv_wakers.take(); unlock
         /\ wk' = [wk EXCEPT ![p] = IF rwReg[c] THEN {Rx(c)} ELSE {}]
         /\ rwSome' = [rwSome EXCEPT ![c] = FALSE] /\ rwReg' = [rwReg EXCEPT ![c] = FALSE]
         /\ Unlock(c) /\ Goto(p, IF rwReg[c] THEN "D9" ELSE "Done")
         /\ UNCHANGED sentCnt
    [] pc[p] \in {"X6", "X7"} ->       \* wake_channel_senders next, mutex still held
         /\ Goto(p, "X4") /\ UNCHANGED <<wk, rwSome, rwReg, held, sentCnt>>

\* dc_decr: empty_channels.fetch_sub(1)
Decr(p) ==
  /\ pc[p] \in {"S6", "D6", "X6"}
  /\ empty' = empty - 1
  /\ IF empty = 1
       THEN /\ Goto(p, CASE pc[p] = "S6" -> "S7" [] pc[p] = "D6" -> "D7" [] OTHER -> "X7")
            /\ UNCHANGED <<wk, rwSome, rwReg, held, sentCnt>>
       ELSE AfterDecr(p)
  /\ Lbl(p, "decr")
  /\ UNCHANGED <<queue, alive, nSend, swSome, swList, started, sendErr, pushed, recvd, rcnt, gotNone>>

\* dc_decr_gate: send_wakers.lock(); if empty_channels = 0 and None then Some([])
DecrGate(p) ==
  /\ pc[p] \in {"S7", "D7", "X7"}
  /\ IF empty = 0 /\ ~swSome THEN swSome' = TRUE /\ swList' = {} ELSE UNCHANGED <<swSome, swList>>
  /\ AfterDecr(p)
  /\ Lbl(p, "decr_gate")
  /\ UNCHANGED <<queue, alive, nSend, empty, started, sendErr, pushed, recvd, rcnt, gotNone>>

\* dc_s_wake: wake the receiver outside the lock; Ready(Ok(()))
S_wake(p) ==
  /\ pc[p] = "S9"
  /\ WakeGoto(p, "S0") /\ wk' = [wk EXCEPT ![p] = {}]
  /\ sentCnt' = [sentCnt EXCEPT ![p] = @ + 1]
  /\ Lbl(p, "s_wake")
  /\ UNCHANGED <<cvars, nSend, gvars, started, sendErr, pushed, recvd, rcnt, gotNone>>

\* the executor polls a woken future again (no shared access up to the first hook)
Resume(p) ==
  /\ pc[p] \in {"S_res", "R_res"}
  /\ Goto(p, IF pc[p] = "S_res" THEN "S1" ELSE "R1")
  /\ Lbl(p, "resume")
  /\ UNCHANGED <<cvars, nSend, gvars, wk, hvars>>

(* ------------------------------ Drop for DistributionSender ------------------------------ *)
\* dc_d_nsend: n_senders.fetch_sub(1); not the last handle -> return
D_nsend(p) == LET c == Ch(p) IN
  /\ pc[p] = "S0"
  /\ SDROP \/ started[p] = MSGS \/ sendErr[p]
  /\ nSend' = [nSend EXCEPT ![c] = @ - 1]
  /\ Goto(p, IF nSend[c] > 1 THEN "Done" ELSE "D2")
  /\ Lbl(p, "d_nsend")
  /\ UNCHANGED <<cvars, gvars, wk, hvars>>

\* dc_d_lock: channel.state.lock(); open and empty -> decr_empty_channels; then recv_wakers.take()
D_lock(p) == LET c == Ch(p) IN
  /\ pc[p] = "D2" /\ ~held[c]
  /\ rwSome[c]                      \* expect("not closed yet")
  /\ IF alive[c] /\ queue[c] = <<>>
       THEN /\ held' = [held EXCEPT ![c] = TRUE] /\ Goto(p, "D6") /\ UNCHANGED <<wk, rwSome, rwReg>>
       ELSE /\ wk' = [wk EXCEPT ![p] = IF rwReg[c] THEN {Rx(c)} ELSE {}]
            /\ rwSome' = [rwSome EXCEPT ![c] = FALSE] /\ rwReg' = [rwReg EXCEPT ![c] = FALSE]
            /\ Goto(p, IF rwReg[c] THEN "D9" ELSE "Done") /\ UNCHANGED held
  /\ Lbl(p, "d_lock")
  /\ UNCHANGED <<queue, alive, nSend, gvars, hvars>>

\* dc_d_wake
D_wake(p) ==
  /\ pc[p] = "D9"
  /\ WakeGoto(p, "Done") /\ wk' = [wk EXCEPT ![p] = {}]
  /\ Lbl(p, "d_wake")
  /\ UNCHANGED <<cvars, nSend, gvars, hvars>>

(* ------------------------------ RecvFuture::poll ------------------------------ *)
\* dc_r_lock: channel.state.lock(); pop_front | register waker, Pending | Ready(None)
R_lock(p) == LET c == Ch(p) IN
  /\ pc[p] \in {"R0", "R1"} /\ ~held[c]
  /\ pc[p] = "R0" => ~gotNone[c]
  /\ IF queue[c] # <<>>
       THEN /\ recvd' = [recvd EXCEPT ![c] = Append(@, Head(queue[c]))]
            /\ queue' = [queue EXCEPT ![c] = Tail(@)]
            /\ IF Len(queue[c]) = 1 /\ rwSome[c]
                 THEN /\ held' = [held EXCEPT ![c] = TRUE] /\ Goto(p, "R3") /\ UNCHANGED rcnt
                 ELSE /\ Goto(p, "R0") /\ rcnt' = [rcnt EXCEPT ![c] = @ + 1] /\ UNCHANGED held
            /\ UNCHANGED <<rwReg, gotNone>>
       ELSE /\ IF rwSome[c]
                 THEN /\ rwReg' = [rwReg EXCEPT ![c] = TRUE] /\ Goto(p, "R_park") /\ UNCHANGED gotNone
                 ELSE /\ gotNone' = [gotNone EXCEPT ![c] = TRUE] /\ Goto(p, "R0") /\ UNCHANGED rwReg
            /\ UNCHANGED <<recvd, queue, held, rcnt>>
  /\ Lbl(p, "r_lock")
  /\ UNCHANGED <<alive, rwSome, nSend, gvars, wk, started, sentCnt, sendErr, pushed>>

\* dc_r_incr: empty_channels.fetch_add(1)
R_incr(p) == LET c == Ch(p) IN
  /\ pc[p] = "R3"
  /\ empty' = empty + 1
  /\ IF empty = 0
       THEN Goto(p, "R4") /\ UNCHANGED <<held, rcnt>>
       ELSE Unlock(c) /\ Goto(p, "R0") /\ rcnt' = [rcnt EXCEPT ![c] = @ + 1]
  /\ Lbl(p, "r_incr")
  /\ UNCHANGED <<queue, alive, rwSome, rwReg, nSend, swSome, swList, wk, started, sentCnt, sendErr, pushed, recvd, gotNone>>

\* dc_r_gate: send_wakers.lock(); if empty_channels > 0 then take the list (gate opens)
R_gate(p) == LET c == Ch(p)
                 w == IF empty > 0 /\ swSome THEN swList ELSE {} IN
  /\ pc[p] = "R4"
  /\ IF empty > 0 THEN swSome' = FALSE /\ swList' = {} ELSE UNCHANGED <<swSome, swList>>
  /\ wk' = [wk EXCEPT ![p] = w]
  /\ Unlock(c)
  /\ IF w # {} THEN Goto(p, "R6") /\ UNCHANGED rcnt
               ELSE Goto(p, "R0") /\ rcnt' = [rcnt EXCEPT ![c] = @ + 1]
  /\ Lbl(p, "r_gate")
  /\ UNCHANGED <<queue, alive, rwSome, rwReg, nSend, empty, started, sentCnt, sendErr, pushed, recvd, gotNone>>

\* dc_r_wake: wake the gate's senders outside the lock; Ready(Some(v))
R_wake(p) ==
  /\ pc[p] = "R6"
  /\ WakeGoto(p, "R0") /\ wk' = [wk EXCEPT ![p] = {}]
  /\ rcnt' = [rcnt EXCEPT ![Ch(p)] = @ + 1]
  /\ Lbl(p, "r_wake")
  /\ UNCHANGED <<cvars, nSend, gvars, started, sentCnt, sendErr, pushed, recvd, gotNone>>

(* ------------------------------ Drop for DistributionReceiver ------------------------------ *)
\* dc_x_lock: channel.state.lock(); data.take(); empty and senders left -> decr_empty_channels
X_lock(p) == LET c == Ch(p) IN
  /\ pc[p] = "R0" /\ ~held[c]
  /\ RDROP \/ gotNone[c]
  /\ held' = [held EXCEPT ![c] = TRUE]
  /\ alive' = [alive EXCEPT ![c] = FALSE] /\ queue' = [queue EXCEPT ![c] = <<>>]
  /\ Goto(p, IF queue[c] = <<>> /\ nSend[c] > 0 THEN "X6" ELSE "X4")
  /\ Lbl(p, "x_lock")
  /\ UNCHANGED <<rwSome, rwReg, nSend, gvars, wk, hvars>>

\* dc_x_wcs: wake_channel_senders: send_wakers.lock(); drain this channel's senders
X_wcs(p) == LET c == Ch(p)
                w == IF swSome THEN {q \in swList : Ch(q) = c} ELSE {} IN
  /\ pc[p] = "X4"
  /\ swList' = swList \ w
  /\ wk' = [wk EXCEPT ![p] = w]
  /\ IF w # {} THEN Goto(p, "X5") /\ UNCHANGED held
               ELSE Goto(p, "Done") /\ Unlock(c)
  /\ Lbl(p, "x_wcs")
  /\ UNCHANGED <<queue, alive, rwSome, rwReg, nSend, empty, swSome, hvars>>

\* dc_x_wake: wake them (the channel mutex is released when drop returns)
X_wake(p) ==
  /\ pc[p] = "X5"
  /\ WakeGoto(p, "Done") /\ wk' = [wk EXCEPT ![p] = {}]
  /\ Unlock(Ch(p))
  /\ Lbl(p, "x_wake")
  /\ UNCHANGED <<queue, alive, rwSome, rwReg, nSend, gvars, hvars>>

AllDone == \A p \in Procs : pc[p] = "Done"

SNext(p) == \/ S_lock(p) \/ S_load(p) \/ S_gate(p) \/ Decr(p) \/ DecrGate(p) \/ S_wake(p) \/ Resume(p)
            \/ D_nsend(p) \/ D_lock(p) \/ D_wake(p)
RNext(p) == \/ R_lock(p) \/ R_incr(p) \/ R_gate(p) \/ R_wake(p) \/ Resume(p)
            \/ X_lock(p) \/ Decr(p) \/ DecrGate(p) \/ X_wcs(p) \/ X_wake(p)
Next ==
  \/ \E p \in Senders : SNext(p)
  \/ \E p \in Recvs : RNext(p)
  \/ (AllDone /\ UNCHANGED vars)

Spec == Init /\ [][Next]_vars /\ WF_vars(Next)

(* ------------------------------ properties (C15) ------------------------------ *)
Quiescent == \A p \in Procs : pc[p] \in {"S0", "R0", "Done", "S_park", "R_park", "S_res", "R_res", "S1", "R1"}
OpenEmpty == { c \in Chans : alive[c] /\ rwSome[c] /\ queue[c] = <<>> }

TypeOK == /\ empty \in 0..(NCH + 1) /\ \A c \in Chans : nSend[c] \in 0..3
          /\ swList \subseteq Senders /\ (~swSome => swList = {})
\* exactly once, in order: what was dequeued, followed by what is queued, is what was pushed
ExactlyOnceInOrder == \A c \in Chans : alive[c] => recvd[c] \o queue[c] = pushed[c]
RecvdPrefix == \A c \in Chans : \E k \in 0..Len(pushed[c]) : recvd[c] = SubSeq(pushed[c], 1, k)
\* per sender handle the values appear in send order, each at most once
PerSenderOrder == \A c \in Chans : \A i, j \in 1..Len(pushed[c]) :
                    (i < j /\ pushed[c][i][1] = pushed[c][j][1]) => pushed[c][i][2] < pushed[c][j][2]
\* end of stream only after every sender handle is gone and every pushed value was dequeued
EosOk == \A c \in Chans : gotNone[c] => (nSend[c] = 0 /\ recvd[c] = pushed[c])
\* a send fails only once the receiver is gone
ErrOk == \A p \in Senders : sendErr[p] => ~alive[Ch(p)]
\* one-sided gate counter (an under-count could close the gate in front of a starving receiver)
GateCounter == Quiescent => empty >= Cardinality(OpenEmpty)
\* diagnostic only: the real code violates the exact form without violating C15 (DESIGN.md §10 item 3)
GateCounterExact == Quiescent => empty = Cardinality(OpenEmpty)
GateShape == Quiescent => (swSome <=> (empty = 0))
\* no lost wake-up: a parked process has its waker registered, or in the hands of a process about to wake it
NoLostWaker ==
  /\ \A p \in Senders : pc[p] = "S_park" => ((swSome /\ p \in swList) \/ \E q \in Procs : p \in wk[q])
  /\ \A c \in Chans : pc[Rx(c)] = "R_park" => (rwReg[c] \/ \E q \in Procs : Rx(c) \in wk[q])
\* a sender stays parked on the gate only while its channel is open and no open channel is empty
ParkedSenderJustified ==
  Quiescent => \A p \in Senders : pc[p] = "S_park" => (alive[Ch(p)] /\ OpenEmpty = {})
\* a receiver stays parked only while its queue is empty and a sender handle is left
ParkedReceiverJustified ==
  Quiescent => \A c \in Chans : pc[Rx(c)] = "R_park" => (queue[c] = <<>> /\ rwSome[c])

Termination == <>AllDone
=============================================================================
