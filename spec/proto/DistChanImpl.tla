---- MODULE DistChanImpl ----
EXTENDS Naturals, Sequences, FiniteSets, TLC
CONSTANTS NCH, SendersOf, MSGS, RecvMayDrop
\* SendersOf: function chan -> number of senders ; each sender sends MSGS messages then drops
Chans == 1..NCH
Senders == { <<c, i>> : c \in Chans, i \in 1..2 } \cap { s \in (Chans \X (1..2)) : s[2] <= SendersOf[s[1]] }
Recvs == { <<c, 0>> : c \in Chans }
Procs == Senders \cup Recvs
ChanOf(p) == p[1]
NoProc == <<0,0>>

VARIABLES pc, queue, recvAlive, rwSome, rwReg, nSenders, empty, swSome, swList,
          chLock, parked, loc, sentCnt, pushed, recvd, gotNone, sendErr
vars == <<pc, queue, recvAlive, rwSome, rwReg, nSenders, empty, swSome, swList,
          chLock, parked, loc, sentCnt, pushed, recvd, gotNone, sendErr>>

Init ==
  /\ pc = [p \in Procs |-> IF p \in Senders THEN "S_idle" ELSE "R_idle"]
  /\ queue = [c \in Chans |-> <<>>]
  /\ recvAlive = [c \in Chans |-> TRUE]
  /\ rwSome = [c \in Chans |-> TRUE]
  /\ rwReg = [c \in Chans |-> FALSE]
  /\ nSenders = [c \in Chans |-> SendersOf[c]]
  /\ empty = NCH
  /\ swSome = FALSE /\ swList = {}
  /\ chLock = [c \in Chans |-> NoProc]
  /\ parked = [p \in Procs |-> FALSE]
  /\ loc = [p \in Procs |-> [e |-> 0, we |-> FALSE, old |-> 0, wake |-> {}]]
  /\ sentCnt = [p \in Senders |-> 0]
  /\ pushed = [c \in Chans |-> <<>>]
  /\ recvd = [c \in Chans |-> <<>>]
  /\ gotNone = [c \in Chans |-> FALSE]
  /\ sendErr = [p \in Senders |-> FALSE]

Goto(p, l) == pc' = [pc EXCEPT ![p] = l]
SetLoc(p, f, v) == loc' = [loc EXCEPT ![p][f] = v]
Lock(p) == chLock[ChanOf(p)] = NoProc /\ chLock' = [chLock EXCEPT ![ChanOf(p)] = p]
Unlock(p) == chLock' = [chLock EXCEPT ![ChanOf(p)] = NoProc]
Wake(S) == parked' = [q \in Procs |-> IF q \in S THEN FALSE ELSE parked[q]]

\* ---------- Sender: send ----------
S_start(p) == LET c == ChanOf(p) IN
  /\ pc[p] = "S_idle" /\ ~parked[p]
  /\ IF sentCnt[p] < MSGS /\ ~sendErr[p]
       THEN Lock(p) /\ Goto(p, "S2") 
       ELSE Goto(p, "D1") /\ UNCHANGED chLock
  /\ UNCHANGED <<queue, recvAlive, rwSome, rwReg, nSenders, empty, swSome, swList, parked, loc, sentCnt, pushed, recvd, gotNone, sendErr>>

S2(p) == LET c == ChanOf(p) IN
  /\ pc[p] = "S2"
  /\ IF ~recvAlive[c]
       THEN /\ sendErr' = [sendErr EXCEPT ![p] = TRUE] /\ Unlock(p) /\ Goto(p, "S_idle") /\ UNCHANGED loc
       ELSE /\ SetLoc(p, "e", empty) /\ Goto(p, "S4") /\ UNCHANGED <<sendErr, chLock>>
  /\ UNCHANGED <<queue, recvAlive, rwSome, rwReg, nSenders, empty, swSome, swList, parked, sentCnt, pushed, recvd, gotNone>>

S4(p) == LET c == ChanOf(p) IN
  /\ pc[p] = "S4"
  /\ IF loc[p].e = 0 /\ swSome
       THEN /\ swList' = swList \cup {p} /\ parked' = [parked EXCEPT ![p] = TRUE]
            /\ Unlock(p) /\ Goto(p, "S_idle")
            /\ UNCHANGED <<queue, pushed, loc>>
       ELSE /\ SetLoc(p, "we", queue[c] = <<>>)
            /\ queue' = [queue EXCEPT ![c] = Append(@, <<p, sentCnt[p] + 1>>)]
            /\ pushed' = [pushed EXCEPT ![c] = Append(@, <<p, sentCnt[p] + 1>>)]
            /\ Goto(p, "S6") /\ UNCHANGED <<swList, parked, chLock>>
  /\ UNCHANGED <<recvAlive, rwSome, rwReg, nSenders, empty, swSome, sentCnt, recvd, gotNone, sendErr>>

\* generic decrement sub-steps: DecrA (fetch_sub), DecrB (gate region if old = 1)
S6(p) ==
  /\ pc[p] = "S6"
  /\ IF loc[p].we
       THEN /\ loc' = [loc EXCEPT ![p].old = empty] /\ empty' = empty - 1 /\ Goto(p, "S7")
       ELSE /\ Goto(p, "S8") /\ UNCHANGED <<loc, empty>>
  /\ UNCHANGED <<queue, recvAlive, rwSome, rwReg, nSenders, swSome, swList, chLock, parked, sentCnt, pushed, recvd, gotNone, sendErr>>

GateClose == IF empty = 0 /\ ~swSome THEN swSome' = TRUE /\ swList' = {} ELSE UNCHANGED <<swSome, swList>>

S7(p) ==
  /\ pc[p] = "S7"
  /\ IF loc[p].old = 1 THEN GateClose ELSE UNCHANGED <<swSome, swList>>
  /\ Goto(p, "S8")
  /\ UNCHANGED <<queue, recvAlive, rwSome, rwReg, nSenders, empty, chLock, parked, loc, sentCnt, pushed, recvd, gotNone, sendErr>>

S8(p) == LET c == ChanOf(p) IN
  /\ pc[p] = "S8"
  /\ SetLoc(p, "wake", IF loc[p].we /\ rwReg[c] THEN {<<c,0>>} ELSE {})
  /\ rwReg' = [rwReg EXCEPT ![c] = IF loc[p].we THEN FALSE ELSE @]
  /\ Unlock(p) /\ Goto(p, "S9")
  /\ UNCHANGED <<queue, recvAlive, rwSome, nSenders, empty, swSome, swList, parked, sentCnt, pushed, recvd, gotNone, sendErr>>

S9(p) ==
  /\ pc[p] = "S9"
  /\ Wake(loc[p].wake)
  /\ sentCnt' = [sentCnt EXCEPT ![p] = @ + 1]
  /\ Goto(p, "S_idle")
  /\ UNCHANGED <<queue, recvAlive, rwSome, rwReg, nSenders, empty, swSome, swList, chLock, loc, pushed, recvd, gotNone, sendErr>>

\* ---------- Sender: drop ----------
D1(p) == LET c == ChanOf(p) IN
  /\ pc[p] = "D1"
  /\ nSenders' = [nSenders EXCEPT ![c] = @ - 1]
  /\ IF nSenders[c] > 1 THEN Goto(p, "Done") ELSE Goto(p, "D2")
  /\ UNCHANGED <<queue, recvAlive, rwSome, rwReg, empty, swSome, swList, chLock, parked, loc, sentCnt, pushed, recvd, gotNone, sendErr>>

D2(p) ==
  /\ pc[p] = "D2" /\ Lock(p) /\ Goto(p, "D3")
  /\ UNCHANGED <<queue, recvAlive, rwSome, rwReg, nSenders, empty, swSome, swList, parked, loc, sentCnt, pushed, recvd, gotNone, sendErr>>

D3(p) == LET c == ChanOf(p) IN
  /\ pc[p] = "D3"
  /\ IF recvAlive[c] /\ queue[c] = <<>>
       THEN /\ loc' = [loc EXCEPT ![p].old = empty] /\ empty' = empty - 1 /\ Goto(p, "D3b")
       ELSE /\ Goto(p, "D4") /\ UNCHANGED <<loc, empty>>
  /\ UNCHANGED <<queue, recvAlive, rwSome, rwReg, nSenders, swSome, swList, chLock, parked, sentCnt, pushed, recvd, gotNone, sendErr>>

D3b(p) ==
  /\ pc[p] = "D3b"
  /\ IF loc[p].old = 1 THEN GateClose ELSE UNCHANGED <<swSome, swList>>
  /\ Goto(p, "D4")
  /\ UNCHANGED <<queue, recvAlive, rwSome, rwReg, nSenders, empty, chLock, parked, loc, sentCnt, pushed, recvd, gotNone, sendErr>>

D4(p) == LET c == ChanOf(p) IN
  /\ pc[p] = "D4"
  /\ rwSome[c]   \* expect("not closed yet")
  /\ SetLoc(p, "wake", IF rwReg[c] THEN {<<c,0>>} ELSE {})
  /\ rwSome' = [rwSome EXCEPT ![c] = FALSE] /\ rwReg' = [rwReg EXCEPT ![c] = FALSE]
  /\ Unlock(p) /\ Goto(p, "D5")
  /\ UNCHANGED <<queue, recvAlive, nSenders, empty, swSome, swList, parked, sentCnt, pushed, recvd, gotNone, sendErr>>

D5(p) ==
  /\ pc[p] = "D5" /\ Wake(loc[p].wake) /\ Goto(p, "Done")
  /\ UNCHANGED <<queue, recvAlive, rwSome, rwReg, nSenders, empty, swSome, swList, chLock, loc, sentCnt, pushed, recvd, gotNone, sendErr>>

\* ---------- Receiver: recv ----------
R_start(p) == LET c == ChanOf(p) IN
  /\ pc[p] = "R_idle" /\ ~parked[p]
  /\ \/ /\ ~gotNone[c] /\ Lock(p) /\ Goto(p, "R2")
     \/ /\ (RecvMayDrop \/ gotNone[c]) /\ Lock(p) /\ Goto(p, "X2")
  /\ UNCHANGED <<queue, recvAlive, rwSome, rwReg, nSenders, empty, swSome, swList, parked, loc, sentCnt, pushed, recvd, gotNone, sendErr>>

R2(p) == LET c == ChanOf(p) IN
  /\ pc[p] = "R2"
  /\ IF queue[c] # <<>>
       THEN /\ recvd' = [recvd EXCEPT ![c] = Append(@, Head(queue[c]))]
            /\ queue' = [queue EXCEPT ![c] = Tail(@)]
            /\ IF Len(queue[c]) = 1 /\ rwSome[c]
                 THEN /\ loc' = [loc EXCEPT ![p].old = empty] /\ empty' = empty + 1 /\ Goto(p, "R4") /\ UNCHANGED chLock
                 ELSE /\ Unlock(p) /\ Goto(p, "R_idle") /\ UNCHANGED <<loc, empty>>
            /\ UNCHANGED <<rwReg, parked, gotNone>>
       ELSE /\ IF rwSome[c]
                 THEN /\ rwReg' = [rwReg EXCEPT ![c] = TRUE] /\ parked' = [parked EXCEPT ![p] = TRUE] /\ UNCHANGED gotNone
                 ELSE /\ gotNone' = [gotNone EXCEPT ![c] = TRUE] /\ UNCHANGED <<rwReg, parked>>
            /\ Unlock(p) /\ Goto(p, "R_idle")
            /\ UNCHANGED <<recvd, queue, loc, empty>>
  /\ UNCHANGED <<recvAlive, rwSome, nSenders, swSome, swList, sentCnt, pushed, sendErr>>

R4(p) ==
  /\ pc[p] = "R4"
  /\ IF loc[p].old = 0
       THEN IF empty > 0
              THEN /\ SetLoc(p, "wake", IF swSome THEN swList ELSE {}) /\ swSome' = FALSE /\ swList' = {}
              ELSE /\ SetLoc(p, "wake", {}) /\ UNCHANGED <<swSome, swList>>
       ELSE /\ SetLoc(p, "wake", {}) /\ UNCHANGED <<swSome, swList>>
  /\ Unlock(p) /\ Goto(p, "R6")
  /\ UNCHANGED <<queue, recvAlive, rwSome, rwReg, nSenders, empty, parked, sentCnt, pushed, recvd, gotNone, sendErr>>

R6(p) ==
  /\ pc[p] = "R6" /\ Wake(loc[p].wake) /\ Goto(p, "R_idle")
  /\ UNCHANGED <<queue, recvAlive, rwSome, rwReg, nSenders, empty, swSome, swList, chLock, loc, sentCnt, pushed, recvd, gotNone, sendErr>>

\* ---------- Receiver: drop ----------
X2(p) == LET c == ChanOf(p) IN
  /\ pc[p] = "X2"
  /\ recvAlive' = [recvAlive EXCEPT ![c] = FALSE]
  /\ queue' = [queue EXCEPT ![c] = <<>>]
  /\ IF queue[c] = <<>> /\ nSenders[c] > 0
       THEN /\ loc' = [loc EXCEPT ![p].old = empty] /\ empty' = empty - 1 /\ Goto(p, "X3")
       ELSE /\ Goto(p, "X4") /\ UNCHANGED <<loc, empty>>
  /\ UNCHANGED <<rwSome, rwReg, nSenders, swSome, swList, chLock, parked, sentCnt, pushed, recvd, gotNone, sendErr>>

X3(p) ==
  /\ pc[p] = "X3"
  /\ IF loc[p].old = 1 THEN GateClose ELSE UNCHANGED <<swSome, swList>>
  /\ Goto(p, "X4")
  /\ UNCHANGED <<queue, recvAlive, rwSome, rwReg, nSenders, empty, chLock, parked, loc, sentCnt, pushed, recvd, gotNone, sendErr>>

X4(p) == LET c == ChanOf(p) IN
  /\ pc[p] = "X4"
  /\ IF swSome
       THEN /\ SetLoc(p, "wake", {w \in swList : ChanOf(w) = c}) /\ swList' = {w \in swList : ChanOf(w) # c}
       ELSE /\ SetLoc(p, "wake", {}) /\ UNCHANGED swList
  /\ Goto(p, "X5")
  /\ UNCHANGED <<queue, recvAlive, rwSome, rwReg, nSenders, empty, swSome, chLock, parked, sentCnt, pushed, recvd, gotNone, sendErr>>

X5(p) ==
  /\ pc[p] = "X5" /\ Wake(loc[p].wake) /\ Unlock(p) /\ Goto(p, "Done")
  /\ UNCHANGED <<queue, recvAlive, rwSome, rwReg, nSenders, empty, swSome, swList, loc, sentCnt, pushed, recvd, gotNone, sendErr>>

AllDone == \A p \in Procs : pc[p] = "Done"
Next ==
  \/ \E p \in Senders : S_start(p) \/ S2(p) \/ S4(p) \/ S6(p) \/ S7(p) \/ S8(p) \/ S9(p)
                        \/ D1(p) \/ D2(p) \/ D3(p) \/ D3b(p) \/ D4(p) \/ D5(p)
  \/ \E p \in Recvs : R_start(p) \/ R2(p) \/ R4(p) \/ R6(p) \/ X2(p) \/ X3(p) \/ X4(p) \/ X5(p)
  \/ (AllDone /\ UNCHANGED vars)
Spec == Init /\ [][Next]_vars /\ WF_vars(Next)

\* ---------- properties ----------
Idle(p) == pc[p] \in {"S_idle", "R_idle", "Done"}
Quiescent == \A p \in Procs : Idle(p)
OpenEmpty == { c \in Chans : recvAlive[c] /\ rwSome[c] /\ queue[c] = <<>> }
GateCounter == Quiescent => empty >= Cardinality(OpenEmpty)
GateCounterExact == Quiescent => empty = Cardinality(OpenEmpty)
GateShape == Quiescent => (swSome <=> (empty = 0))
ExactlyOnceInOrder == \A c \in Chans : recvAlive[c] => recvd[c] \o queue[c] = pushed[c]
RecvdPrefix == \A c \in Chans : \E k \in 0..Len(pushed[c]) : recvd[c] = SubSeq(pushed[c], 1, k)
EosOk == \A c \in Chans : gotNone[c] => (nSenders[c] = 0 /\ recvd[c] = pushed[c])
ErrOk == \A p \in Senders : sendErr[p] => ~recvAlive[ChanOf(p)]
NoParkedInWakerlessGate == Quiescent => \A p \in Senders : parked[p] => (swSome /\ p \in swList)
Termination == <>AllDone
====
