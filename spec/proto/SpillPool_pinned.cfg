CONSTANTS W = 1  NB = 3  ROT = 2  FAILS = TRUE  MAXF = 4  FIXED = FALSE
SPECIFICATION Spec
VIEW view
INVARIANTS TypeOK NoInvention NoDuplicate FifoSPSC EosComplete NoLostWaker
PROPERTIES ReaderTerminates DeliversAll
CHECK_DEADLOCK TRUE
