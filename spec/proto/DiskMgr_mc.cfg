CONSTANTS NF = 2  T = 2  SIZES = {0, 1, 2}  LIMITS = {2, 3, 1000000}  LIM0 = 3  MAXH = 2  MAXOPS = 5  FAULTS = TRUE  FIXED = TRUE
SPECIFICATION Spec
VIEW view
INVARIANTS TypeOK UsedEqSum UsedEqSumQuiescent ZeroAfterRelease ActiveEq LimitRespected SeqWithinLimit
CHECK_DEADLOCK FALSE
