------------------------------- MODULE DiskMgr -------------------------------
(***************************************************************************)
(* Disk usage accounting of datafusion/execution/src/disk_manager.rs.       *)
(*                                                                         *)
(* State: the global counter `used` (DiskManager::used_disk_space), the     *)
(* active file counter, the limit (max_temp_directory_size) and, per file,  *)
(* its own usage counter and the handles that keep it alive: `arcs` =       *)
(* Arc<dyn SpillFile> clones of the struct returned by create_tmp_file,     *)
(* `scl` = struct-level RefCountedTempFile::clone()s (each shares the       *)
(* tempfile Arc; the file is released by the Drop that sees strong_count    *)
(* = 1).  `FileSpillWriter::write` is cut at its shared-memory accesses:    *)
(*   w_add   used.fetch_add(len)            (new_global captured)           *)
(*   w_check new_global > limit ? rollback + reject                         *)
(*   w_os    file.write_all  - MAY FAIL (injected fault / broken writer)    *)
(*   w_file  file_usage.fetch_add(len)                                      *)
(* so TLC interleaves T threads between them.  FIXED = TRUE is the property *)
(* ("usage returns to zero ... including after writes that failed"): a      *)
(* failed OS write rolls the global counter back; FIXED = FALSE is the      *)
(* behaviour of the pinned code (no rollback) and violates UsedEqSum.       *)
(*                                                                         *)
(* MUT = TRUE models the write as `load used; reject if used+len > limit;   *)
(* write the file; then add len to both counters` - sequentially the same   *)
(* function, but two writers released together both pass the check: TLC     *)
(* refutes LimitRespected (committed bytes beyond the limit in force).       *)
(* This is why the implementation adds first and rolls back.                *)
(*                                                                         *)
(* With T = 1 every behaviour is a sequential API history; `hist` carries   *)
(* the operations with the observable values expected after each of them    *)
(* (binding B3: replayed on the real DiskManager).                          *)
(***************************************************************************)
EXTENDS Naturals, Sequences, FiniteSets, TLC

CONSTANTS NF,       \* max files created
          T,        \* threads
          SIZES,    \* write sizes (units), 0 allowed (write of an empty buffer)
          LIMITS,   \* limits SetLimit may install (units); INF = no limit
          LIM0,     \* initial limit
          MAXH,     \* max handles (arcs + struct clones) per file
          MAXOPS,   \* ops per behaviour
          FAULTS,   \* OS write faults enabled
          FIXED,    \* failed OS write rolls back the global counter
          MUT       \* negative control: check-then-add (load used; compare; OS write; THEN add to the counters)

INF == 1000000
Files == 1..NF
Threads == 1..T

VARIABLES limit, used, active, usage, arcs, scl, created, broken,
          pc, wf, wn, wflt, wng,
          nops, hist, over, last

impl  == <<limit, used, active, usage, arcs, scl, created, broken>>
loc   == <<pc, wf, wn, wflt, wng>>
vars  == <<impl, loc, nops, hist, over, last>>
view  == <<impl, loc, nops, over>>          \* exhaustive checking ignores the history text

Live(f) == arcs[f] + scl[f] > 0
LiveSet == {f \in Files : Live(f)}
RECURSIVE Sum(_, _)
Sum(fn, S) == IF S = {} THEN 0 ELSE LET x == CHOOSE x \in S : TRUE IN fn[x] + Sum(fn, S \ {x})
Quiescent == \A t \in Threads : pc[t] = "idle"
InFlight(t) == IF ~MUT /\ pc[t] \in {"w_check", "w_os", "w_file"} THEN wn[t] ELSE 0
Committed == Sum(usage, LiveSet)
             + Sum([t \in Threads |-> IF pc[t] \in {"w_os", "w_file"} THEN wn[t] ELSE 0], Threads)
Sizes == [f \in Files |-> IF Live(f) THEN usage[f] ELSE 0]
Alive == [f \in Files |-> IF Live(f) THEN 1 ELSE 0]

Init ==
  /\ limit = LIM0 /\ used = 0 /\ active = 0
  /\ usage = [f \in Files |-> 0] /\ arcs = [f \in Files |-> 0] /\ scl = [f \in Files |-> 0]
  /\ created = 0 /\ broken = [f \in Files |-> FALSE]
  /\ pc = [t \in Threads |-> "idle"] /\ wf = [t \in Threads |-> 0] /\ wn = [t \in Threads |-> 0]
  /\ wflt = [t \in Threads |-> FALSE] /\ wng = [t \in Threads |-> 0]
  /\ nops = 0 /\ hist = <<>> /\ over = FALSE
  /\ last = <<"init", 0, "init">>

\* observation record appended to the history when an operation completes (primed state)
Rec(t, op, f, n, flt, res) ==
  [t |-> t, op |-> op, f |-> f, n |-> n, flt |-> IF flt THEN 1 ELSE 0, res |-> res,
   used |-> used', active |-> active', limit |-> limit',
   sizes |-> [g \in Files |-> IF arcs'[g] + scl'[g] > 0 THEN usage'[g] ELSE 0],
   alive |-> [g \in Files |-> IF arcs'[g] + scl'[g] > 0 THEN 1 ELSE 0]]
Done(t, op, f, n, flt, res) ==
  /\ hist' = Append(hist, Rec(t, op, f, n, flt, res))
  /\ last' = <<"t", t, op>>
Idle(t) == pc[t] = "idle" /\ nops < MAXOPS

(* ------------------------------- handles -------------------------------- *)
Create(t) ==
  /\ Idle(t) /\ created < NF
  /\ LET f == created + 1 IN
     /\ created' = f /\ arcs' = [arcs EXCEPT ![f] = 1] /\ active' = active + 1
     /\ nops' = nops + 1
     /\ UNCHANGED <<limit, used, usage, scl, broken, loc, over>>
     /\ Done(t, "create", f, 0, FALSE, "ok")

CloneArc(t, f) ==
  /\ Idle(t) /\ arcs[f] > 0 /\ arcs[f] + scl[f] < MAXH
  /\ arcs' = [arcs EXCEPT ![f] = @ + 1] /\ nops' = nops + 1
  /\ UNCHANGED <<limit, used, active, usage, scl, created, broken, loc, over>>
  /\ Done(t, "clone_arc", f, 0, FALSE, "ok")

CloneStruct(t, f) ==
  /\ Idle(t) /\ Live(f) /\ arcs[f] + scl[f] < MAXH
  /\ scl' = [scl EXCEPT ![f] = @ + 1] /\ nops' = nops + 1
  /\ UNCHANGED <<limit, used, active, usage, arcs, created, broken, loc, over>>
  /\ Done(t, "clone_struct", f, 0, FALSE, "ok")

\* nobody releases a file another thread is writing (the writer's owner holds a handle)
NoWriter(f) == \A u \in Threads : pc[u] = "idle" \/ wf[u] # f

\* dropping a handle; the last one releases the file: its usage leaves the global counter
DropH(t, f, kind) ==
  /\ Idle(t) /\ Live(f)
  /\ IF kind = "drop_arc" THEN arcs[f] > 0 ELSE scl[f] > 0
  /\ LET a2 == IF kind = "drop_arc" THEN arcs[f] - 1 ELSE arcs[f]
         s2 == IF kind = "drop_arc" THEN scl[f] ELSE scl[f] - 1
         lastOne == a2 + s2 = 0 IN
     /\ lastOne => NoWriter(f)
     /\ arcs' = [arcs EXCEPT ![f] = a2] /\ scl' = [scl EXCEPT ![f] = s2]
     /\ IF lastOne
          THEN /\ used' = used - usage[f] /\ active' = active - 1
               /\ usage' = [usage EXCEPT ![f] = 0] /\ broken' = [broken EXCEPT ![f] = FALSE]
          ELSE UNCHANGED <<used, active, usage, broken>>
     /\ nops' = nops + 1
     /\ UNCHANGED <<limit, created, loc, over>>
     /\ Done(t, kind, f, 0, FALSE, "ok")

\* a new writer for a file whose writer was broken by an OS failure
Reopen(t, f) ==
  /\ Idle(t) /\ Live(f) /\ broken[f] /\ NoWriter(f)
  /\ broken' = [broken EXCEPT ![f] = FALSE] /\ nops' = nops + 1
  /\ UNCHANGED <<limit, used, active, usage, arcs, scl, created, loc, over>>
  /\ Done(t, "reopen", f, 0, FALSE, "ok")

\* The limit changes only between writes: "the limit in force at the write" is then well defined.
\* (With a write in flight TLC finds the benign stale check: T1 adds, T2 adds+commits, the limit
\* is lowered, T1 compares its *earlier* new_global with the new limit and is admitted.)
SetLimit(t, l) ==
  /\ Idle(t) /\ l # limit /\ Quiescent
  /\ limit' = l /\ nops' = nops + 1
  /\ UNCHANGED <<used, active, usage, arcs, scl, created, broken, loc, over>>
  /\ Done(t, "set_limit", 0, l, FALSE, "ok")

(* -------------------------------- write --------------------------------- *)
\* one writer per file at a time (a FileSpillWriter is &mut); n = 0 returns Ok(0) at once
W_add(t, f, n, flt) ==
  /\ Idle(t) /\ Live(f) /\ NoWriter(f)
  /\ flt => (FAULTS /\ n > 0)
  /\ nops' = nops + 1
  /\ IF n = 0
       THEN /\ UNCHANGED <<impl, loc, over>>
            /\ Done(t, "write", f, 0, FALSE, "ok")
       ELSE /\ used' = (IF MUT THEN used ELSE used + n)
            /\ pc' = [pc EXCEPT ![t] = "w_check"] /\ wf' = [wf EXCEPT ![t] = f]
            /\ wn' = [wn EXCEPT ![t] = n] /\ wflt' = [wflt EXCEPT ![t] = flt]
            /\ wng' = [wng EXCEPT ![t] = used + n]
            /\ last' = <<"t", t, "w_add">>
            /\ UNCHANGED <<limit, active, usage, arcs, scl, created, broken, hist, over>>

W_check(t) ==
  /\ pc[t] = "w_check"
  /\ UNCHANGED <<limit, active, usage, arcs, scl, created, broken, wf, wn, wflt, wng, nops>>
  /\ IF wng[t] > limit
       THEN /\ used' = (IF MUT THEN used ELSE used - wn[t]) /\ pc' = [pc EXCEPT ![t] = "idle"]
            /\ UNCHANGED over
            /\ Done(t, "write", wf[t], wn[t], wflt[t], "rejected")
       ELSE /\ pc' = [pc EXCEPT ![t] = "w_os"]
            \* ghost: an admitted write never takes the committed total (bytes of live files +
            \* admitted writes in flight) beyond the limit in force at the check
            /\ over' = (over \/ Committed + wn[t] > limit)
            /\ last' = <<"t", t, "w_check">>
            /\ UNCHANGED <<used, hist>>

W_os(t) ==
  /\ pc[t] = "w_os"
  /\ UNCHANGED <<limit, active, usage, arcs, scl, created, wf, wn, wflt, wng, nops, over>>
  /\ IF wflt[t] \/ broken[wf[t]]
       THEN /\ broken' = [broken EXCEPT ![wf[t]] = TRUE]
            /\ used' = (IF FIXED /\ ~MUT THEN used - wn[t] ELSE used)
            /\ pc' = [pc EXCEPT ![t] = "idle"]
            /\ Done(t, "write", wf[t], wn[t], wflt[t], "oserr")
       ELSE /\ pc' = [pc EXCEPT ![t] = "w_file"]
            /\ last' = <<"t", t, "w_os">>
            /\ UNCHANGED <<broken, used, hist>>

W_file(t) ==
  /\ pc[t] = "w_file"
  /\ usage' = [usage EXCEPT ![wf[t]] = @ + wn[t]]
  /\ pc' = [pc EXCEPT ![t] = "idle"]
  /\ used' = (IF MUT THEN used + wn[t] ELSE used)
  /\ UNCHANGED <<limit, active, arcs, scl, created, broken, wf, wn, wflt, wng, nops, over>>
  /\ Done(t, "write", wf[t], wn[t], wflt[t], "ok")

Next ==
  \E t \in Threads :
    \/ Create(t)
    \/ \E f \in Files : CloneArc(t, f) \/ CloneStruct(t, f) \/ DropH(t, f, "drop_arc")
                        \/ DropH(t, f, "drop_struct") \/ Reopen(t, f)
    \/ \E l \in LIMITS : SetLimit(t, l)
    \/ \E f \in Files, n \in SIZES, flt \in BOOLEAN : W_add(t, f, n, flt)
    \/ W_check(t) \/ W_os(t) \/ W_file(t)

Spec == Init /\ [][Next]_vars

(* ------------------------------ invariants ------------------------------ *)
TypeOK ==
  /\ used \in Nat /\ active \in Nat /\ limit \in LIMITS \cup {LIM0}
  /\ \A f \in Files : usage[f] \in Nat /\ arcs[f] \in 0..MAXH /\ scl[f] \in 0..MAXH
  /\ \A t \in Threads : pc[t] \in {"idle", "w_check", "w_os", "w_file"}

\* reported usage = bytes held by live files (+ the reserved bytes of writes in flight)
UsedEqSum == used = Sum(usage, LiveSet) + Sum([t \in Threads |-> InFlight(t)], Threads)
UsedEqSumQuiescent == Quiescent => used = Sum(usage, LiveSet)
ZeroAfterRelease == (Quiescent /\ LiveSet = {}) => used = 0
ActiveEq == active = Cardinality(LiveSet)
LimitRespected == ~over
\* sequential form: after an admitted write the reported usage is within the limit
SeqWithinLimit == (T = 1 /\ Quiescent /\ hist # <<>> /\ hist[Len(hist)].op = "write" /\ hist[Len(hist)].res = "ok"
                   /\ hist[Len(hist)].n > 0) => used <= limit
=============================================================================
