-------------------------- MODULE RepartitionTrace --------------------------
(* Binding B2 for C10: executions of the real RepartitionExec recorded by   *)
(* the harness are validated event by event.  One NDJSON line per run:      *)
(*   scheme ("hash"|"rr"|"range"), n, nin, po, rrstart, splits, desc, nf,   *)
(*   rows: every row the inputs can produce: [id, i (input), bk (0-based    *)
(*         index of its non-empty batch), h (hash limbs measured with the   *)
(*         public create_hashes and the repartition seed), key, s (sort key)]*)
(*   ev:   in(i, ids) | idone(i) | ierr(i) | out(o, ids) | eos(o) |         *)
(*         oerr(o) | ores(o) | drop(o)   in real-time order                 *)
(* The specification decides placement (RepartRoute), exactly-once, clean   *)
(* end-of-stream completeness, and order preservation.  A run whose next    *)
(* event is not allowed is a TLC deadlock at the longest accepted prefix.   *)
EXTENDS RepartRoute, Json, IOUtils, TLC, TLCExt

Runs == ndJsonDeserialize(IOEnv.TRACE)

VARIABLES run, l, pulled, delivered, lastS, lastSeq, ost, idone, ierr
tvars == <<run, l, pulled, delivered, lastS, lastSeq, ost, idone, ierr>>

R == Runs[run]
Evs == R.ev
Ev == Evs[l]
RowIdx(id) == CHOOSE j \in 1..Len(R.rows) : R.rows[j].id = id
Known(id) == \E j \in 1..Len(R.rows) : R.rows[j].id = id
Outs == 1..R.n

\* the output (1-based) the documented routing function selects for a row
Part(row) ==
  1 + CASE R.scheme = "hash" -> HashPart(row.h, R.n)
        [] R.scheme = "rr" -> RRPartFrom(R.rrstart[row.i], R.n, row.bk)   \* one start per input, as observed
        [] OTHER -> RangePart(row.key, R.splits, R.desc, R.nf)

Init ==
  /\ run \in 1..Len(Runs) /\ l = 1
  /\ pulled = {} /\ delivered = {}
  /\ lastS = [o \in 1..64 |-> -1000000] /\ lastSeq = [o \in 1..64 |-> [i \in 1..8 |-> 0]]
  /\ ost = [o \in 1..64 |-> "live"] /\ idone = {} /\ ierr = FALSE

SeqOfIds(ids) == [k \in 1..Len(ids) |-> R.rows[RowIdx(ids[k])]]

\* a batch arriving at output o
OutOk(o, ids) ==
  /\ ost[o] = "live"
  /\ \A k \in 1..Len(ids) : Known(ids[k])
  /\ LET rs == SeqOfIds(ids) IN
       /\ \A k \in 1..Len(ids) : /\ ids[k] \in pulled            \* nothing invented, not before it was pulled
                                 /\ ids[k] \notin delivered       \* at most once
                                 /\ Part(rs[k]) = o               \* the right partition
       /\ \A j, k \in 1..Len(ids) : j < k => ids[j] # ids[k]
       /\ R.po => /\ \A k \in 1..Len(ids) : rs[k].s >= (IF k = 1 THEN lastS[o] ELSE rs[k - 1].s)     \* sortedness kept
                  /\ \A j, k \in 1..Len(ids) : (j < k /\ rs[j].i = rs[k].i) => RowIdx(ids[j]) < RowIdx(ids[k])
                  /\ \A k \in 1..Len(ids) : RowIdx(ids[k]) > lastSeq[o][rs[k].i]                      \* per-input FIFO

Step ==
  /\ l <= Len(Evs)
  /\ l' = l + 1 /\ UNCHANGED run
  /\ CASE Ev.e = "in" -> /\ pulled' = pulled \cup {Ev.ids[k] : k \in 1..Len(Ev.ids)}
                         /\ UNCHANGED <<delivered, lastS, lastSeq, ost, idone, ierr>>
       [] Ev.e = "idone" -> idone' = idone \cup {Ev.i} /\ UNCHANGED <<pulled, delivered, lastS, lastSeq, ost, ierr>>
       [] Ev.e = "ierr" -> ierr' = TRUE /\ UNCHANGED <<pulled, delivered, lastS, lastSeq, ost, idone>>
       [] Ev.e = "out" ->
            /\ OutOk(Ev.o, Ev.ids)
            /\ delivered' = delivered \cup {Ev.ids[k] : k \in 1..Len(Ev.ids)}
            /\ LET rs == SeqOfIds(Ev.ids) IN
                 /\ lastS' = [lastS EXCEPT ![Ev.o] = IF Len(Ev.ids) = 0 THEN @ ELSE rs[Len(rs)].s]
                 /\ lastSeq' = [lastSeq EXCEPT ![Ev.o] =
                                  [i \in 1..8 |-> LET S == {RowIdx(Ev.ids[k]) : k \in {k \in 1..Len(Ev.ids) : rs[k].i = i}} IN
                                                    IF S = {} THEN @[i] ELSE CHOOSE m \in S : \A x \in S : x <= m]]
            /\ UNCHANGED <<pulled, ost, idone, ierr>>
       [] Ev.e = "eos" ->
            \* clean end of stream: no input failed, all inputs ended, every row routed here was delivered
            /\ ost[Ev.o] = "live" /\ ~ierr /\ idone = 1..R.nin
            /\ \A j \in 1..Len(R.rows) : Part(R.rows[j]) = Ev.o => R.rows[j].id \in delivered
            /\ ost' = [ost EXCEPT ![Ev.o] = "eos"] /\ UNCHANGED <<pulled, delivered, lastS, lastSeq, idone, ierr>>
       [] Ev.e = "oerr" -> /\ ierr /\ ost' = [ost EXCEPT ![Ev.o] = "err"]
                           /\ UNCHANGED <<pulled, delivered, lastS, lastSeq, idone, ierr>>
       [] Ev.e = "ores" -> /\ ost' = [ost EXCEPT ![Ev.o] = "err"]       \* resources exhausted: allowed to fail
                           /\ UNCHANGED <<pulled, delivered, lastS, lastSeq, idone, ierr>>
       [] Ev.e = "drop" -> /\ ost' = [ost EXCEPT ![Ev.o] = "dropped"]
                           /\ UNCHANGED <<pulled, delivered, lastS, lastSeq, idone, ierr>>

Finished == l > Len(Evs) /\ UNCHANGED tvars
Next == Step \/ Finished
TraceSpec == Init /\ [][Next]_tvars

\* redundant with the step guards; evaluated on every accepted state
DeliveredWerePulled == delivered \subseteq pulled

Alias == [run |-> run, l |-> l, next_event |-> IF l <= Len(Evs) THEN Ev ELSE [e |-> "none"],
          scheme |-> R.scheme, n |-> R.n, delivered |-> delivered, ost |-> [o \in Outs |-> ost[o]], ierr |-> ierr, idone |-> idone]
=============================================================================
