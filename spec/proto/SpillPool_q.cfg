CONSTANTS W = 2  NB = 2  ROT = 2  FAILS = TRUE  MAXF = 4  FIXED = TRUE
SPECIFICATION Spec
VIEW view
INVARIANTS TypeOK NoInvention NoDuplicate FifoSPSC EosComplete NoLostWaker
PROPERTIES ReaderTerminates DeliversAll
CHECK_DEADLOCK TRUE
