---------------------------- MODULE DynFilterGen ----------------------------
(* Sequential API histories of DynFilter (SEQ = TRUE) for binding B3.        *)
EXTENDS DynFilter, Json
Emit == (AllIdle /\ Len(hist) = MAXOPS) => PrintT(<<"CASE", ToJson([nf |-> NF, ops |-> hist])>>)
=============================================================================
