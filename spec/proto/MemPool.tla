------------------------------- MODULE MemPool -------------------------------
(***************************************************************************)
(* Memory pools of datafusion/execution/src/memory_pool/{mod,pool,          *)
(* peak_recording}.rs.                                                      *)
(*                                                                         *)
(* Consumers are registered in order (c = 1, 2, ..), each spillable or not; *)
(* a registration owns one or more reservations (register / new_empty /     *)
(* split / take) and is unregistered when its last reservation is dropped.  *)
(* Pool kinds: "unbounded", "greedy" (limit on the total), "fair" (state    *)
(* <<numSpill, spillable, unspillable>>; a spilling consumer may hold at    *)
(* most (limit - unspillable) / numSpill; an unspillable one is bounded by  *)
(* the free remainder).  Wrappers are transparent observers: per-consumer   *)
(* tracking (tr, pk, entry present) and peak recording (run, peak, max).    *)
(*                                                                         *)
(* Reservation operations are cut as in the code into a pool half and a     *)
(* size half (grow: pool then size; shrink/free: size then pool) so that T  *)
(* threads interleave between them; `pend[t]` is the delta in flight and    *)
(* the accounting invariant reads  used = sum of sizes + sum of pend   *)
(* (granted but not yet in the size / taken from the size but not yet returned).       *)
(*                                                                         *)
(* PERRES = TRUE is the pinned FairSpillPool::try_grow, which compares      *)
(* `reservation.size() + additional` with the share, i.e. bounds each       *)
(* *reservation*; PERRES = FALSE is the property ("a spilling consumer's    *)
(* fair share"): the *consumer's* total is bounded.  FairPerConsumer fails  *)
(* under PERRES = TRUE (known finding).                                     *)
(*                                                                         *)
(* MUT = TRUE replaces the greedy pool's atomic compare-and-add by an       *)
(* optimistic add followed by a check and a rollback (pend[t][3] = bytes    *)
(* added but not yet confirmed).  Sequentially this is the same function;   *)
(* with two threads TLC refutes WithinLimit (the failing attempt's bytes    *)
(* are visible in `reserved`) and NoSpuriousRefusal (a growth that fits is  *)
(* refused because of them): this is why the implementation needs the CAS.  *)
(***************************************************************************)
EXTENDS Integers, Sequences, FiniteSets, TLC

CONSTANTS NC,        \* max consumers registered
          NR,        \* max reservations created
          T,         \* threads
          KINDS,     \* pool kinds explored (chosen in Init)
          LIMITS,    \* limits explored (chosen in Init)
          SIZES,     \* operand sizes
          MAXOPS,
          PERRES,
          MUT,          \* negative control: greedy try_grow as "fetch_add, then fetch_sub + error if over the limit"
          FALLIBLE_ONLY \* infallible grow disabled (then a bounded greedy pool stays within its limit in EVERY state)

Cons == 1..NC
Res == 1..NR
Threads == 1..T

VARIABLES kind, limit,
          spill, ncons, nres, owner, alive, size,       \* consumers / reservations
          used, numSpill, spillable, unspillable,       \* pool state (used = total granted)
          tr, pk, present,                              \* TrackConsumersPool
          run, peak, max,                               \* PeakRecordingPool
          pc, pend,                                     \* per thread: phase, <<reservation, delta>> in flight
          nops, hist, overc, last

poolv == <<used, numSpill, spillable, unspillable>>
resv  == <<spill, ncons, nres, owner, alive, size>>
wrapv == <<tr, pk, present, run, peak, max>>
vars  == <<kind, limit, resv, poolv, wrapv, pc, pend, nops, hist, overc, last>>
view  == <<kind, limit, resv, poolv, wrapv, pc, pend, nops, overc>>

Max(a, b) == IF a > b THEN a ELSE b
Monus(a, b) == IF a > b THEN a - b ELSE 0
RECURSIVE Sum(_, _)
Sum(fn, S) == IF S = {} THEN 0 ELSE LET x == CHOOSE x \in S : TRUE IN fn[x] + Sum(fn, S \ {x})
AliveSet == {r \in Res : alive[r]}
ResOf(c) == {r \in Res : alive[r] /\ owner[r] = c}
ConsTotal(c) == Sum(size, ResOf(c))
Quiescent == \A t \in Threads : pc[t] = "idle"

Init ==
  /\ kind \in KINDS /\ limit \in LIMITS
  /\ spill = [c \in Cons |-> FALSE] /\ ncons = 0 /\ nres = 0
  /\ owner = [r \in Res |-> 0] /\ alive = [r \in Res |-> FALSE] /\ size = [r \in Res |-> 0]
  /\ used = 0 /\ numSpill = 0 /\ spillable = 0 /\ unspillable = 0
  /\ tr = [c \in Cons |-> 0] /\ pk = [c \in Cons |-> 0] /\ present = [c \in Cons |-> FALSE]
  /\ run = 0 /\ peak = 0 /\ max = 0
  /\ pc = [t \in Threads |-> "idle"] /\ pend = [t \in Threads |-> <<0, 0, 0>>]
  /\ nops = 0 /\ hist = <<>> /\ overc = {}
  /\ last = <<"init", 0, "init">>

\* observation record of a completed operation (evaluated on the primed state: call it last)
Rec(t, op, r, n, res, ret) ==
  [t |-> t, op |-> op, r |-> r, n |-> n, res |-> res, ret |-> ret,
   reserved |-> used', sizes |-> [x \in Res |-> IF alive'[x] THEN size'[x] ELSE 0],
   alive |-> [x \in Res |-> IF alive'[x] THEN 1 ELSE 0], owner |-> owner',
   tr |-> tr', pk |-> pk', present |-> [c \in Cons |-> IF present'[c] THEN 1 ELSE 0],
   spill |-> [c \in Cons |-> IF spill'[c] THEN 1 ELSE 0],
   peak |-> peak', max |-> max']
Done(t, op, r, n, res, ret) == hist' = Append(hist, Rec(t, op, r, n, res, ret)) /\ last' = <<"t", t, op>>
Idle(t) == pc[t] = "idle" /\ nops < MAXOPS

(* ------------------------- pool halves (atomic) -------------------------- *)
\* pool.grow / successful try_grow of n by a reservation of consumer c
PoolAddRest(c, n) ==
  /\ IF kind = "fair" THEN IF spill[c] THEN spillable' = spillable + n /\ UNCHANGED unspillable
                                       ELSE unspillable' = unspillable + n /\ UNCHANGED spillable
     ELSE UNCHANGED <<spillable, unspillable>>
  /\ tr' = [tr EXCEPT ![c] = @ + n] /\ pk' = [pk EXCEPT ![c] = Max(@, tr[c] + n)]
  /\ run' = run + n /\ peak' = Max(peak, run + n) /\ max' = Max(max, run + n)
PoolAdd(c, n) == used' = used + n /\ PoolAddRest(c, n)
PoolSub(c, n) ==
  /\ used' = used - n
  /\ IF kind = "fair" THEN IF spill[c] THEN spillable' = spillable - n /\ UNCHANGED unspillable
                                       ELSE unspillable' = unspillable - n /\ UNCHANGED spillable
     ELSE UNCHANGED <<spillable, unspillable>>
  /\ tr' = [tr EXCEPT ![c] = @ - n]
  /\ run' = run - n
  /\ UNCHANGED <<pk, peak, max>>
\* the fallible admission rule
Share == IF numSpill = 0 THEN Monus(limit, unspillable) ELSE Monus(limit, unspillable) \div numSpill
Admit(r, n) ==
  CASE kind = "unbounded" -> TRUE
    [] kind = "greedy"    -> used + n <= limit
    [] kind = "fair"      -> IF spill[owner[r]]
                               THEN (IF PERRES THEN size[r] ELSE ConsTotal(owner[r])) + n <= Share
                               ELSE n <= Monus(limit, unspillable + spillable)
\* what the pinned per-reservation rule would say (recorded so the replay can classify a divergence)
AdmitPerRes(r, n) == IF kind = "fair" /\ spill[owner[r]] THEN size[r] + n <= Share ELSE Admit(r, n)

(* ------------------------------ operations ------------------------------ *)
Register(t, sp) ==
  /\ Idle(t) /\ ncons < NC /\ nres < NR
  /\ LET c == ncons + 1  r == nres + 1 IN
     /\ ncons' = c /\ nres' = r /\ spill' = [spill EXCEPT ![c] = sp]
     /\ owner' = [owner EXCEPT ![r] = c] /\ alive' = [alive EXCEPT ![r] = TRUE] /\ size' = [size EXCEPT ![r] = 0]
     /\ numSpill' = IF kind = "fair" /\ sp THEN numSpill + 1 ELSE numSpill
     /\ present' = [present EXCEPT ![c] = TRUE] /\ tr' = [tr EXCEPT ![c] = 0] /\ pk' = [pk EXCEPT ![c] = 0]
     /\ nops' = nops + 1
     /\ UNCHANGED <<kind, limit, used, spillable, unspillable, run, peak, max, pc, pend, overc>>
     /\ Done(t, IF sp THEN "register_spill" ELSE "register", r, 0, "ok", 0)

\* what every thread has been granted (in the sizes, or granted and on its way into a size, or taken
\* out of a size and not yet returned to the pool) - the pool total a correct pool reports
Granted == Sum(size, AliveSet) + Sum([t \in Threads |-> pend[t][2]], Threads)

\* grow / try_grow, first half: the pool
GrowP(t, r, n, fallible) ==
  /\ Idle(t) /\ alive[r] /\ n > 0
  /\ fallible \/ ~FALLIBLE_ONLY
  /\ ~(MUT /\ fallible /\ kind = "greedy")
  /\ nops' = nops + 1
  /\ UNCHANGED <<kind, limit, resv, numSpill, present>>
  /\ IF fallible /\ ~Admit(r, n)
       THEN /\ UNCHANGED <<used, spillable, unspillable, tr, pk, run, peak, max, pc, pend>>
            \* ghost: a refusal is justified only by what the threads really hold
            /\ overc' = IF kind = "greedy" /\ Granted + n <= limit THEN overc \cup {"spurious"} ELSE overc
            /\ Done(t, "try_grow", r, n, "err", IF AdmitPerRes(r, n) THEN 1 ELSE 0)
       ELSE /\ PoolAdd(owner[r], n)
            /\ pc' = [pc EXCEPT ![t] = IF fallible THEN "try_grow2" ELSE "grow2"]
            /\ pend' = [pend EXCEPT ![t] = <<r, n, 0>>]
            \* ghost: a granted fallible growth of a spilling consumer stays within the consumer's share
            /\ overc' = IF fallible /\ kind = "fair" /\ spill[owner[r]] /\ ConsTotal(owner[r]) + n > Share
                           THEN overc \cup {"fair"} ELSE overc
            /\ last' = <<"t", t, "grow_pool">> /\ UNCHANGED hist

\* MUT: greedy try_grow as optimistic add ...
MutAdd(t, r, n) ==
  /\ MUT /\ kind = "greedy" /\ Idle(t) /\ alive[r] /\ n > 0
  /\ nops' = nops + 1
  /\ used' = used + n
  /\ pc' = [pc EXCEPT ![t] = "mut_check"] /\ pend' = [pend EXCEPT ![t] = <<r, 0, n>>]
  /\ last' = <<"t", t, "mut_add">>
  /\ UNCHANGED <<kind, limit, resv, numSpill, spillable, unspillable, wrapv, hist, overc>>
\* ... then check, and roll back + fail when the total went over the limit
MutCheck(t) ==
  /\ pc[t] = "mut_check"
  /\ UNCHANGED <<kind, limit, resv, numSpill, present, nops>>
  /\ LET r == pend[t][1]  n == pend[t][3] IN
     IF used > limit
       THEN /\ used' = used - n
            /\ pc' = [pc EXCEPT ![t] = "idle"] /\ pend' = [pend EXCEPT ![t] = <<0, 0, 0>>]
            /\ UNCHANGED <<spillable, unspillable, tr, pk, run, peak, max>>
            /\ overc' = IF Granted + n <= limit THEN overc \cup {"spurious"} ELSE overc
            /\ Done(t, "try_grow", r, n, "err", 0)
       ELSE /\ UNCHANGED used /\ PoolAddRest(owner[r], n)
            /\ pc' = [pc EXCEPT ![t] = "try_grow2"] /\ pend' = [pend EXCEPT ![t] = <<r, n, 0>>]
            /\ last' = <<"t", t, "mut_check">> /\ UNCHANGED <<hist, overc>>

\* second half: the reservation's size
GrowS(t) ==
  /\ pc[t] \in {"grow2", "try_grow2"}
  /\ LET r == pend[t][1]  n == pend[t][2] IN
     /\ size' = [size EXCEPT ![r] = @ + n]
     /\ pc' = [pc EXCEPT ![t] = "idle"] /\ pend' = [pend EXCEPT ![t] = <<0, 0, 0>>]
     /\ UNCHANGED <<kind, limit, spill, ncons, nres, owner, alive, poolv, wrapv, nops, overc>>
     /\ Done(t, IF pc[t] = "grow2" THEN "grow" ELSE "try_grow", r, n, "ok", 0)

\* shrink / try_shrink / free, first half: the size (n <= size by contract for shrink)
ShrinkS(t, r, n, op) ==
  /\ Idle(t) /\ alive[r]
  /\ op = "shrink" => (n > 0 /\ n <= size[r])
  /\ op = "try_shrink" => n > 0
  /\ op = "free" => n = size[r]
  /\ nops' = nops + 1
  /\ UNCHANGED <<kind, limit, spill, ncons, nres, owner, alive, poolv, wrapv, overc>>
  /\ IF n > size[r]
       THEN /\ UNCHANGED <<size, pc, pend>> /\ Done(t, op, r, n, "err", 0)
       ELSE IF n = 0
         THEN /\ UNCHANGED <<size, pc, pend>> /\ Done(t, op, r, 0, "ok", 0)     \* free of an empty reservation
         ELSE /\ size' = [size EXCEPT ![r] = @ - n]
              /\ pc' = [pc EXCEPT ![t] = op] /\ pend' = [pend EXCEPT ![t] = <<r, n, 0>>]
              /\ last' = <<"t", t, "shrink_size">> /\ UNCHANGED hist
ShrinkP(t) ==
  /\ pc[t] \in {"shrink", "try_shrink", "free"}
  /\ LET r == pend[t][1]  n == pend[t][2] IN
     /\ PoolSub(owner[r], n)
     /\ pc' = [pc EXCEPT ![t] = "idle"] /\ pend' = [pend EXCEPT ![t] = <<0, 0, 0>>]
     /\ UNCHANGED <<kind, limit, resv, numSpill, present, nops, overc>>
     /\ Done(t, pc[t], r, n, "ok", IF pc[t] = "free" THEN n ELSE size[r])

\* split / take / new_empty: a new reservation under the same registration, no pool traffic
NewRes(t, r, n, op) ==
  /\ Idle(t) /\ alive[r] /\ nres < NR /\ n <= size[r]
  /\ op = "split" => n > 0
  /\ op = "take" => n = size[r]
  /\ op = "new_empty" => n = 0
  /\ LET q == nres + 1 IN
     /\ nres' = q /\ owner' = [owner EXCEPT ![q] = owner[r]] /\ alive' = [alive EXCEPT ![q] = TRUE]
     /\ size' = [size EXCEPT ![r] = @ - n, ![q] = n]
     /\ nops' = nops + 1
     /\ UNCHANGED <<kind, limit, spill, ncons, poolv, wrapv, pc, pend, overc>>
     /\ Done(t, op, r, n, "ok", q)

\* drop: free, then unregister when it was the registration's last reservation
DropR(t, r) ==
  /\ Idle(t) /\ alive[r]
  /\ \A u \in Threads : pc[u] = "idle" \/ pend[u][1] # r
  /\ LET c == owner[r]  lastOne == ResOf(c) = {r} IN
     /\ lastOne => \A u \in Threads : pc[u] = "idle"
     /\ alive' = [alive EXCEPT ![r] = FALSE] /\ size' = [size EXCEPT ![r] = 0]
     /\ used' = used - size[r]
     /\ IF kind = "fair" THEN IF spill[c] THEN spillable' = spillable - size[r] /\ UNCHANGED unspillable
                                          ELSE unspillable' = unspillable - size[r] /\ UNCHANGED spillable
        ELSE UNCHANGED <<spillable, unspillable>>
     /\ run' = run - size[r]
     /\ IF lastOne
          THEN /\ numSpill' = IF kind = "fair" /\ spill[c] THEN numSpill - 1 ELSE numSpill
               /\ present' = [present EXCEPT ![c] = FALSE]
               /\ tr' = [tr EXCEPT ![c] = 0] /\ pk' = [pk EXCEPT ![c] = 0]
          ELSE /\ tr' = [tr EXCEPT ![c] = @ - size[r]] /\ UNCHANGED <<numSpill, present, pk>>
     /\ nops' = nops + 1
     /\ UNCHANGED <<kind, limit, spill, ncons, nres, owner, peak, max, pc, pend, overc>>
     /\ Done(t, "drop", r, size[r], "ok", IF lastOne THEN 1 ELSE 0)

ResetPeak(t) ==
  /\ Idle(t) /\ peak # run
  /\ peak' = run /\ nops' = nops + 1
  /\ UNCHANGED <<kind, limit, resv, poolv, tr, pk, present, run, max, pc, pend, overc>>
  /\ Done(t, "reset_peak", 0, 0, "ok", 0)

Next ==
  \E t \in Threads :
    \/ \E sp \in BOOLEAN : Register(t, sp)
    \/ \E r \in Res, n \in SIZES, f \in BOOLEAN : GrowP(t, r, n, f)
    \/ \E r \in Res, n \in SIZES : MutAdd(t, r, n)
    \/ MutCheck(t)
    \/ GrowS(t) \/ ShrinkP(t)
    \/ \E r \in Res, n \in SIZES : ShrinkS(t, r, n, "shrink") \/ ShrinkS(t, r, n, "try_shrink")
                                   \/ NewRes(t, r, n, "split")
    \/ \E r \in Res : ShrinkS(t, r, size[r], "free") \/ NewRes(t, r, size[r], "take")
                      \/ NewRes(t, r, 0, "new_empty") \/ DropR(t, r)
    \/ ResetPeak(t)

Spec == Init /\ [][Next]_vars

(* ------------------------------ invariants ------------------------------ *)
PendSum == Sum([t \in Threads |-> pend[t][2]], Threads)
OptSum == Sum([t \in Threads |-> pend[t][3]], Threads)
\* reserved = sum of live reservation sizes (+ deltas in flight; + unconfirmed bytes under MUT)
Accounting == used = Sum(size, AliveSet) + PendSum + OptSum
AccountingQuiescent == Quiescent => used = Sum(size, AliveSet)
AllDroppedZero == (AliveSet = {} /\ Quiescent) => (used = 0 /\ spillable = 0 /\ unspillable = 0 /\ numSpill = 0)
FairState == kind = "fair" => (used = spillable + unspillable
                               /\ numSpill = Cardinality({c \in Cons : present[c] /\ spill[c]}))
\* granted fallible growth keeps the greedy pool within its limit - unless an infallible grow pushed it over before
Tracked == Quiescent => \A c \in Cons : IF present[c] THEN tr[c] = ConsTotal(c) /\ pk[c] >= tr[c]
                                                        ELSE ResOf(c) = {}
PeakRec == run = used - OptSum /\ peak >= run /\ max >= peak
FairPerConsumer == "fair" \notin overc
\* with only fallible growth in play a bounded greedy pool reports at most its limit in EVERY state
\* (what an observer thread sampling reserved() may rely on)
WithinLimit == (FALLIBLE_ONLY /\ kind = "greedy") => used <= limit
\* a fallible growth is refused only when it does not fit next to what the threads really hold: a
\* try_grow that fits whatever the other threads can ever hold must succeed
NoSpuriousRefusal == "spurious" \notin overc
LastOp == hist[Len(hist)]
FailedChangesNothing ==
  (T = 1 /\ Quiescent /\ Len(hist) >= 2 /\ LastOp.res = "err") =>
     /\ LastOp.reserved = hist[Len(hist) - 1].reserved /\ LastOp.sizes = hist[Len(hist) - 1].sizes
     /\ LastOp.tr = hist[Len(hist) - 1].tr /\ LastOp.peak = hist[Len(hist) - 1].peak
GreedyWithinLimit ==
  (T = 1 /\ Quiescent /\ hist # <<>> /\ kind = "greedy" /\ LastOp.op = "try_grow" /\ LastOp.res = "ok") => used <= limit
=============================================================================
