--------------------------- MODULE SpillPoolTrace ---------------------------
(* Binding B2: executions of the real spill channel recorded by the harness  *)
(* (one event per executed lock region, with the API-level observations made *)
(* during that step) are validated against SpillPool.  All of SpillPool's    *)
(* invariants are evaluated in every matched state.                          *)
EXTENDS SpillPool, Json, IOUtils, TLCExt

\* one line per recorded run: [ev |-> <<event, ...>>]
Runs == ndJsonDeserialize(IOEnv.TRACE)

VARIABLES run, l
tvars == <<vars, run, l>>

TraceInit == Init /\ run \in 1..Len(Runs) /\ l = 1

Evs == Runs[run].ev
Ev == Evs[l]

AsSeq(x) == [i \in 1..Len(x) |-> <<x[i][1], x[i][2]>>]

TraceStep ==
  /\ l <= Len(Evs)
  /\ ~AllDone /\ Next
  /\ last' = <<Ev.k, Ev.i, Ev.l>>
  /\ out' = out \o AsSeq(Ev.out)            \* batches the reader yielded during this step
  /\ okPushed' = okPushed \o AsSeq(Ev.ok)   \* pushes that returned Ok during this step
  /\ eos' = Ev.eos
  /\ l' = l + 1 /\ UNCHANGED run

\* a fully matched run stutters; a run that cannot match its next event is a TLC deadlock, whose
\* counterexample is the longest matched prefix (the state before the first unmatched event)
TraceDone == l > Len(Evs) /\ UNCHANGED tvars

TraceNext == TraceStep \/ TraceDone
TraceSpec == TraceInit /\ [][TraceNext]_tvars

\* shown with a rejection
Alias == [run |-> run, l |-> l, next_event |-> IF l <= Len(Evs) THEN Ev ELSE "none",
          wpc |-> wpc, rpc |-> rpc, files |-> files, openW |-> openW, remW |-> remW, written |-> written,
          finished |-> finished, parked |-> parked, woken |-> woken, out |-> out, okPushed |-> okPushed]
=============================================================================
