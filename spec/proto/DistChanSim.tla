---------------------------- MODULE DistChanSim ----------------------------
(* Behaviour generator for binding B1: random walks of DistChanImpl printed  *)
(* as schedules (one JSON line per complete behaviour).                      *)
EXTENDS DistChanImpl, TLCExt, Json

SimNext == ~AllDone /\ Next
SimSpec == Init /\ [][SimNext]_vars

\* evaluated as an invariant: print the schedule once the behaviour is complete
EmitWhenDone ==
  AllDone => PrintT(<<"CASE", ToJson([nch |-> NCH, senders |-> SubSeq(SendersOf, 1, NCH),
                        steps |-> [i \in 1..(Len(Trace) - 1) |-> Trace[i + 1].last],
                        pushed |-> pushed, recvd |-> recvd])>>)
=============================================================================
