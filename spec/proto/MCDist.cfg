CONSTANTS
  NCH = 2
  SendersOf <- SendersOfV
  MSGS = 2
  RecvMayDrop = TRUE
SPECIFICATION Spec
INVARIANTS GateCounter GateShape ExactlyOnceInOrder RecvdPrefix EosOk ErrOk NoParkedInWakerlessGate
PROPERTY Termination
CHECK_DEADLOCK TRUE
