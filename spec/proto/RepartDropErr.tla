--------------------------- MODULE RepartDropErr ---------------------------
(* Case generator for the combined "early drop, then input failure"          *)
(* scenarios of C10: which outputs are dropped early, which are never        *)
(* executed, which are read to the end, which input fails and where, under   *)
(* every scheme / order-preserving mode / spilling.  The verdict the         *)
(* protocol model (Repartition.tla: NoCleanEndAfterFailure, ErrorSurfaces)   *)
(* gives for every such case: a live output ends with the error, never       *)
(* cleanly.                                                                  *)
EXTENDS Integers, Sequences, FiniteSets, TLC, Json

CONSTANTS MAXOUT, NIN

Schemes == {"hash", "rr", "range"}
Pos == {"first", "mid", "last"}
SetToSeq(S) == LET n == Cardinality(S) IN CHOOSE f \in [1..n -> S] : \A i, j \in 1..n : i < j => f[i] < f[j]

\* at least one output dropped early and at least one read to the end; optionally one never executed
Shapes == {<<n, D, N>> \in (2..MAXOUT) \X (SUBSET (1..MAXOUT)) \X (SUBSET (1..MAXOUT)) :
             /\ D \subseteq 1..n /\ N \subseteq 1..n /\ D # {} /\ D \cap N = {} /\ Cardinality(N) <= 1
             /\ (1..n) \ (D \cup N) # {}}

AllCases == {[nout |-> sh[1], drop |-> SetToSeq(sh[2]), never |-> SetToSeq(sh[3]), live |-> SetToSeq((1..sh[1]) \ (sh[2] \cup sh[3])),
              err_in |-> e, err_pos |-> p, scheme |-> s, po |-> po, spill |-> sp,
              expect_live |-> "err"]
             : sh \in Shapes, e \in 1..NIN, p \in Pos, s \in Schemes, po \in BOOLEAN, sp \in BOOLEAN}

VARIABLE case
Init == case \in AllCases
Next == UNCHANGED case
Spec == Init /\ [][Next]_case
Emit == PrintT(<<"CASE", ToJson(case)>>)
=============================================================================
