----------------------------- MODULE MemPoolGen -----------------------------
(* History generator for binding B3: every complete sequential behaviour of  *)
(* MemPool (T = 1) is printed as one JSON case with the observable values    *)
(* expected after each operation.                                            *)
EXTENDS MemPool, Json

Emit == (Quiescent /\ nops = MAXOPS) =>
          PrintT(<<"CASE", ToJson([kind |-> kind, limit |-> limit, ops |-> hist])>>)
=============================================================================
