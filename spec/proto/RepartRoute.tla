---------------------------- MODULE RepartRoute ----------------------------
(* The routing functions of the exchange operator (property C10), as pure    *)
(* definitions shared by the case generator (RepartCases), the protocol      *)
(* model (Repartition) and the trace validator (RepartitionTrace).           *)
(* Partitions are 0-based here, like `partition_iter`'s indices.             *)
EXTENDS Integers, Sequences, FiniteSets

\* A 64-bit hash is carried as four 16-bit limbs (most significant first), because TLC integers are
\* 32-bit: hash % n by Horner's rule, n <= 64.
ModLimbs(h, n) ==
  LET r1 == h[1] % n
      r2 == (r1 * 65536 + h[2]) % n
      r3 == (r2 * 65536 + h[3]) % n
  IN  (r3 * 65536 + h[4]) % n

\* hash partitioning: `hash(key columns) % n`; equal keys have equal hashes, hence the same output
HashPart(h, n) == ModLimbs(h, n)

\* round robin routes whole batches: the k-th (0-based) non-empty batch of an input goes to
\* (start + k) % n.  The property does not fix `start`; the implementation documents
\* start = floor((i-1) * n / nin) for input i (1-based) of nin, and 0 in order-preserving mode.
RRPartFrom(start, n, k) == (start + k) % n
RRDocStart(i, nin, n, po) == IF po THEN 0 ELSE ((i - 1) * n) \div nin
RRPart(i, nin, n, k, po) == RRPartFrom(RRDocStart(i, nin, n, po), n, k)

\* A key value is [nul |-> BOOLEAN, v |-> Int].  SQL sort options: NULL placement is decided by
\* nulls_first alone; `desc` reverses the order of non-NULL values.
CmpKey(a, b, desc, nf) ==
  IF a.nul /\ b.nul THEN 0
  ELSE IF a.nul THEN (IF nf THEN -1 ELSE 1)
  ELSE IF b.nul THEN (IF nf THEN 1 ELSE -1)
  ELSE IF a.v = b.v THEN 0
  ELSE IF (a.v < b.v) # desc THEN -1 ELSE 1

\* lexicographic comparison of two rows (sequences of key values) under per-key options
RECURSIVE CmpFrom(_, _, _, _, _)
CmpFrom(a, b, desc, nf, j) ==
  IF j > Len(a) THEN 0
  ELSE LET c == CmpKey(a[j], b[j], desc[j], nf[j]) IN IF c # 0 THEN c ELSE CmpFrom(a, b, desc, nf, j + 1)
CmpRows(a, b, desc, nf) == CmpFrom(a, b, desc, nf, 1)

\* range partitioning: split points are strictly increasing under the ordering; a row belongs to the
\* partition numbered by how many split points are <= the row (rows equal to a split point go right)
RangePart(key, splits, desc, nf) ==
  Cardinality({j \in 1..Len(splits) : CmpRows(splits[j], key, desc, nf) <= 0})

SplitsSorted(splits, desc, nf) ==
  \A j \in 1..(Len(splits) - 1) : CmpRows(splits[j], splits[j + 1], desc, nf) < 0
=============================================================================
