----------------------------- MODULE Repartition -----------------------------
(***************************************************************************)
(* Abstract protocol model of the exchange operator RepartitionExec        *)
(* (datafusion/physical-plan/src/repartition/mod.rs), property C10.        *)
(* NI input tasks pull batches (one row each, identified <<input, seq>>),   *)
(* route every row to one output (an arbitrary routing function: `routed`  *)
(* is chosen when the row is pulled, so TLC checks all of them), and send   *)
(* it through the per-output queue either in memory (memory budget MEM     *)
(* permits) or through the spill FIFO with a `spill` marker in the queue.   *)
(* Outputs read their queues, may be dropped at any time; an input may      *)
(* fail.  Order-preserving mode (PO) has one queue and one spill FIFO per   *)
(* <<input, output>>; otherwise one shared queue and spill FIFO per output. *)
(* The gate/back-pressure layer is the subject of DistChanImpl (C15), the   *)
(* spill FIFO's internals of SpillPool (C16); here they are reliable FIFOs. *)
(***************************************************************************)
EXTENDS Integers, Sequences, FiniteSets, TLC

CONSTANTS NI, NO, NB,   \* inputs, outputs, batches per input
          PO,           \* order-preserving mode
          MEM,          \* memory budget in batches (0 = everything spills)
          ERRS, DROPS,  \* an input may fail / outputs may be dropped early
          FANOUT_BREAKS \* FALSE = the code; TRUE = a defective error fan-out that stops at the first output whose
                        \* receiver is gone (the outputs "after" it in the map order never get the error)

Inputs == 1..NI
Outputs == 1..NO
RowIds == Inputs \X (1..NB)
NoRow == <<0, 0>>
\* queue identity: per <<input, output>> in PO mode, shared per output otherwise
Q(i, o) == IF PO THEN <<i, o>> ELSE <<0, o>>
Queues == IF PO THEN Inputs \X Outputs ELSE {0} \X Outputs
QsOf(o) == {q \in Queues : q[2] = o}

VARIABLES ipos, ist, pend,      \* input tasks: batches pulled, run|done|err, pending send <<row, output>>
          routed,               \* the routing function, fixed for a row when it is pulled (0 = not yet)
          chan, spill, rem,     \* per queue: items, spilled rows, end-of-input markers still expected
          reserved,             \* memory reserved for in-memory batches in flight
          ost, out              \* per output: live|eos|err|dropped, rows delivered in order

vars == <<ipos, ist, pend, routed, chan, spill, rem, reserved, ost, out>>

Item(t, r) == [t |-> t, r |-> r]

Init ==
  /\ ipos = [i \in Inputs |-> 0] /\ ist = [i \in Inputs |-> "run"] /\ pend = [i \in Inputs |-> <<NoRow, 0>>]
  /\ routed = [r \in RowIds |-> 0]
  /\ chan = [q \in Queues |-> <<>>] /\ spill = [q \in Queues |-> <<>>]
  /\ rem = [q \in Queues |-> IF PO THEN 1 ELSE NI]
  /\ reserved = 0
  /\ ost = [o \in Outputs |-> "live"] /\ out = [o \in Outputs |-> <<>>]

Gone(o) == ost[o] # "live"           \* the receiver end no longer exists: sends fail and are discarded
AllGone == \A o \in Outputs : Gone(o)

\* pull the next batch from the input stream and route its row
Pull(i) ==
  /\ ist[i] = "run" /\ pend[i][2] = 0 /\ ipos[i] < NB /\ ~AllGone
  /\ \E o \in Outputs :
       /\ routed' = [routed EXCEPT ![<<i, ipos[i] + 1>>] = o]
       /\ pend' = [pend EXCEPT ![i] = <<<<i, ipos[i] + 1>>, o>>]
  /\ ipos' = [ipos EXCEPT ![i] = @ + 1]
  /\ UNCHANGED <<ist, chan, spill, rem, reserved, ost, out>>

\* OutputChannel::send: try_grow succeeds -> Memory(batch); otherwise push to the spill pool + marker
Send(i) ==
  LET r == pend[i][1]  o == pend[i][2]  q == Q(i, o) IN
  /\ o # 0
  /\ pend' = [pend EXCEPT ![i] = <<NoRow, 0>>]
  /\ IF Gone(o) THEN UNCHANGED <<chan, spill, reserved>>
     ELSE IF reserved < MEM
       THEN /\ chan' = [chan EXCEPT ![q] = Append(@, Item("mem", r))]
            /\ reserved' = reserved + 1 /\ UNCHANGED spill
       ELSE /\ spill' = [spill EXCEPT ![q] = Append(@, r)]
            /\ chan' = [chan EXCEPT ![q] = Append(@, Item("spill", NoRow))]
            /\ UNCHANGED reserved
  /\ UNCHANGED <<ipos, ist, routed, rem, ost, out>>

\* the input ended (or every output is gone): wait_for_task sends the end marker to every output
Finish(i) ==
  /\ ist[i] = "run" /\ pend[i][2] = 0 /\ (ipos[i] = NB \/ AllGone)
  /\ ist' = [ist EXCEPT ![i] = "done"]
  /\ chan' = [q \in Queues |-> IF q \in {Q(i, o) : o \in Outputs} /\ ~Gone(q[2]) THEN Append(chan[q], Item("done", NoRow)) ELSE chan[q]]
  /\ UNCHANGED <<ipos, pend, routed, spill, rem, reserved, ost, out>>

\* the input stream failed: wait_for_task sends the error to EVERY output whose receiver still exists
\* (a failed send to a dropped output must not stop the fan-out)
Fail(i) ==
  /\ ERRS /\ ist[i] = "run" /\ pend[i][2] = 0 /\ \A j \in Inputs : ist[j] # "err"
  /\ ist' = [ist EXCEPT ![i] = "err"]
  /\ \E S \in SUBSET {o \in Outputs : ~Gone(o)} :
       \* the outputs reached by the fan-out: all live ones; with the defect, any prefix of the map order
       \* that ends at a gone output, i.e. any subset of the live ones as soon as some output is gone
       /\ (S = {o \in Outputs : ~Gone(o)}) \/ (FANOUT_BREAKS /\ \E o \in Outputs : Gone(o))
       /\ chan' = [q \in Queues |-> IF q \in {Q(i, o) : o \in S} THEN Append(chan[q], Item("err", NoRow)) ELSE chan[q]]
  /\ UNCHANGED <<ipos, pend, routed, spill, rem, reserved, ost, out>>

MemIn(q) == Cardinality({k \in 1..Len(chan[q]) : chan[q][k].t = "mem"})
\* releasing an output: its queues are discarded and their memory released
Release(o, st) ==
  /\ ost' = [ost EXCEPT ![o] = st]
  /\ chan' = [q \in Queues |-> IF q[2] = o THEN <<>> ELSE chan[q]]
  /\ spill' = [q \in Queues |-> IF q[2] = o THEN <<>> ELSE spill[q]]

\* PerPartitionStream::poll_next on queue q of output o
Recv(o, q) ==
  /\ ost[o] = "live" /\ q \in QsOf(o) /\ chan[q] # <<>>
  /\ LET it == Head(chan[q]) IN
     CASE it.t = "mem" ->
            /\ out' = [out EXCEPT ![o] = Append(@, it.r)] /\ reserved' = reserved - 1
            /\ chan' = [chan EXCEPT ![q] = Tail(@)] /\ UNCHANGED <<spill, rem, ost>>
       [] it.t = "spill" ->
            /\ spill[q] # <<>>
            /\ out' = [out EXCEPT ![o] = Append(@, Head(spill[q]))]
            /\ spill' = [spill EXCEPT ![q] = Tail(@)] /\ chan' = [chan EXCEPT ![q] = Tail(@)]
            /\ UNCHANGED <<reserved, rem, ost>>
       [] it.t = "done" ->
            /\ rem' = [rem EXCEPT ![q] = @ - 1]
            /\ IF \A q2 \in QsOf(o) : rem'[q2] = 0
                 THEN /\ ost' = [ost EXCEPT ![o] = "eos"] /\ chan' = [chan EXCEPT ![q] = Tail(@)]
                 ELSE /\ chan' = [chan EXCEPT ![q] = Tail(@)] /\ UNCHANGED ost
            /\ UNCHANGED <<spill, reserved, out>>
       [] it.t = "err" ->
            /\ reserved' = reserved - (LET S == QsOf(o) IN
                                         Cardinality({<<q2, k>> \in S \X (1..(NI * NB + NI)) : k <= Len(chan[q2]) /\ chan[q2][k].t = "mem"}))
            /\ Release(o, "err") /\ UNCHANGED <<rem, out>>
  /\ UNCHANGED <<ipos, ist, pend, routed>>

\* every sender handle of the queue is gone (its input tasks have ended or failed) and nothing is queued:
\* recv() returns None - "channel closed" - and the stream ends *cleanly*
InputsOf(q) == IF PO THEN {q[1]} ELSE Inputs
Closed(q) == chan[q] = <<>> /\ \A i \in InputsOf(q) : ist[i] # "run"
RecvClosed(o) ==
  /\ ost[o] = "live" /\ \A q \in QsOf(o) : Closed(q)
  /\ ost' = [ost EXCEPT ![o] = "eos"]
  /\ UNCHANGED <<ipos, ist, pend, routed, chan, spill, rem, reserved, out>>

\* the consumer drops the output stream early (LIMIT)
Drop(o) ==
  /\ DROPS /\ ost[o] = "live"
  /\ reserved' = reserved - Cardinality({<<q2, k>> \in QsOf(o) \X (1..(NI * NB + NI)) : k <= Len(chan[q2]) /\ chan[q2][k].t = "mem"})
  /\ Release(o, "dropped")
  /\ UNCHANGED <<ipos, ist, pend, routed, rem, out>>

Done == (\A i \in Inputs : ist[i] # "run") /\ (\A o \in Outputs : ost[o] # "live")

Next ==
  \/ \E i \in Inputs : Pull(i) \/ Send(i) \/ Finish(i) \/ Fail(i)
  \/ \E o \in Outputs : Drop(o) \/ RecvClosed(o) \/ \E q \in QsOf(o) : Recv(o, q)
  \/ (Done /\ UNCHANGED vars)

Fair == /\ \A i \in Inputs : WF_vars(Pull(i)) /\ WF_vars(Send(i)) /\ WF_vars(Finish(i))
        /\ \A o \in Outputs : WF_vars(RecvClosed(o)) /\ \A q \in Queues : WF_vars(Recv(o, q))
Spec == Init /\ [][Next]_vars /\ Fair

(* ------------------------------ properties (C10) ------------------------------ *)
SeqSet(s) == {s[k] : k \in 1..Len(s)}
TypeOK == reserved \in 0..MEM /\ \A q \in Queues : rem[q] >= 0
\* every delivered row is at the output its routing selected
RightPartition == \A o \in Outputs : \A k \in 1..Len(out[o]) : routed[out[o][k]] = o
\* at most once, anywhere
NoDuplicate == /\ \A o \in Outputs : \A j, k \in 1..Len(out[o]) : out[o][j] = out[o][k] => j = k
               /\ \A o1, o2 \in Outputs : o1 # o2 => SeqSet(out[o1]) \cap SeqSet(out[o2]) = {}
\* a clean end of stream means: every input finished without error and every row routed here was delivered
EosComplete == \A o \in Outputs : ost[o] = "eos" =>
                 /\ \A i \in Inputs : ist[i] = "done"
                 /\ \A r \in RowIds : (routed[r] = o) => r \in SeqSet(out[o])
\* an input failure reaches every output that is still being read: such an output never ends cleanly, it
\* ends with the error (EosComplete forbids the clean end; this says the error does arrive)
ErrorSurfaces == (\E i \in Inputs : ist[i] = "err") ~> (\A o \in Outputs : ost[o] \in {"err", "dropped"})
NoCleanEndAfterFailure == \A o \in Outputs : (ost[o] = "eos") => \A i \in Inputs : ist[i] # "err"
\* order-preserving mode: rows of one input reach an output in input order, across the memory/spill boundary
FifoPO == PO => \A o \in Outputs : \A j, k \in 1..Len(out[o]) :
                  (j < k /\ out[o][j][1] = out[o][k][1]) => out[o][j][2] < out[o][k][2]
\* memory accounting: what is reserved is exactly the in-memory batches still queued
MemExact == reserved = Cardinality({<<q, k>> \in Queues \X (1..(NI * NB + NI)) : k <= Len(chan[q]) /\ chan[q][k].t = "mem"})
Released == Done => reserved = 0
\* a spill marker always has its batch in the spill FIFO
MarkerHasBatch == \A q \in Queues : Cardinality({k \in 1..Len(chan[q]) : chan[q][k].t = "spill"}) = Len(spill[q])
\* dropped outputs never block live ones: every output terminates
Termination == <>Done
=============================================================================
