CONSTANTS NB = 2  MODE = "partial"  MOUTS = {2, 3}  BREAKS = FALSE
  SHAPES = {"p_repart_rr","p_repart_hash","p_repart_filter","p_agg_final"}
SPECIFICATION Spec
INVARIANTS TypeOK NoTruncation FaultSurfaces FaultReached CleanFailure WithinLimit ReleasedWhenQuiescent DroppedHoldsNothing FanSurfaces FanComplete Emit
PROPERTIES Terminates DropReleases StaysReleased
CHECK_DEADLOCK FALSE
