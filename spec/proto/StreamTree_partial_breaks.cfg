CONSTANTS NB = 2  MODE = "partial"  MOUTS = {2, 3}  BREAKS = TRUE
  SHAPES = {"p_repart_rr"}
SPECIFICATION Spec
INVARIANTS TypeOK NoTruncation FaultSurfaces FaultReached CleanFailure WithinLimit ReleasedWhenQuiescent DroppedHoldsNothing FanSurfaces FanComplete Emit
PROPERTIES Terminates DropReleases StaysReleased
CHECK_DEADLOCK FALSE
