---------------------------- MODULE SpillPoolSim ----------------------------
(* Behaviour generator for binding B1: random walks of SpillPool printed as  *)
(* schedules (one JSON line per complete behaviour).                         *)
EXTENDS SpillPool, TLCExt, Json

SimNext == ~AllDone /\ Next
SimSpec == Init /\ [][SimNext]_vars

\* evaluated as an invariant: print the schedule once the behaviour is complete
EmitWhenDone ==
  AllDone => PrintT(<<"CASE", ToJson([W |-> W, rot |-> ROT,
                        steps |-> [i \in 1..(Len(Trace) - 1) |-> Trace[i + 1].last]])>>)
=============================================================================
