--------------------------- MODULE RepartSpillGate ---------------------------
(***************************************************************************)
(* The interplay found by C10 on the real RepartitionExec: W input tasks    *)
(* send NB batches each to ONE output through (a) the shared multi-writer   *)
(* spill pool (files read strictly in creation order; a file is left only   *)
(* when it is finished) and (b) the output's channel, guarded by the gate   *)
(* (a send parks while the channel is non-empty - with a single output      *)
(* "every channel non-empty" is "the channel is non-empty").  Every batch   *)
(* is either spilled (append to a pool file, then send a marker) or kept in *)
(* memory (send it) - chosen nondeterministically, as the memory budget     *)
(* decides in the code.  The reader handles one channel item at a time and, *)
(* for a marker, waits on the spill pool before looking at the channel.     *)
(* File creation (sp_w_p2a, no lock) and publication to `files` (sp_w_p2b)  *)
(* are separate actions, as in push_batch and in SpillPool.tla: with them   *)
(* merged, the small repair "only the newest file goes back to              *)
(* open_write_files" looks sufficient, which it is not (a writer returning  *)
(* its file between another writer's p2a and p2b still sees itself newest). *)
(* FIXED = FALSE is the code as it is: TLC finds the deadlock.              *)
(* FIXED = TRUE is a repair that holds at this grain: an older file is      *)
(* finished when returned AND every idle older file is retired when a new   *)
(* file is published (a change of the pool's file policy - see the finding).*)
(***************************************************************************)
EXTENDS Integers, Sequences, FiniteSets, TLC

CONSTANTS W, NB, FIXED
Writers == 1..W
MaxF == W * NB

VARIABLES wpc, wf, wsent,      \* writer: pc, file in hand, batches sent
          files, openW,        \* pool: all files in creation order (ids), idle open files
          data, fin, nf,       \* per file: unread-or-read batches count written, finished; files created
          chan,                \* the output's channel: sequence of "mem" | "spill"
          rpc, cur, nread, got \* reader: pc, index into files, batches read from the current file, delivered count
vars == <<wpc, wf, wsent, files, openW, data, fin, nf, chan, rpc, cur, nread, got>>

Init ==
  /\ wpc = [w \in Writers |-> "idle"] /\ wf = [w \in Writers |-> 0] /\ wsent = [w \in Writers |-> 0]
  /\ files = <<>> /\ openW = <<>> /\ data = [f \in 1..MaxF |-> 0] /\ fin = [f \in 1..MaxF |-> FALSE] /\ nf = 0
  /\ chan = <<>> /\ rpc = "chan" /\ cur = 1 /\ nread = 0 /\ got = 0

AllSent == \A w \in Writers : wpc[w] = "done"

\* next batch: in memory (straight to the send) or spilled (take a pool file first)
Choose(w) ==
  /\ wpc[w] = "idle" /\ wsent[w] < NB
  /\ \/ wpc' = [wpc EXCEPT ![w] = "send_mem"] /\ UNCHANGED <<wf, files, openW, nf>>
     \/ IF openW # <<>>
          THEN /\ wf' = [wf EXCEPT ![w] = Head(openW)] /\ openW' = Tail(openW)
               /\ wpc' = [wpc EXCEPT ![w] = "append"] /\ UNCHANGED <<files, nf>>
          ELSE /\ nf' = nf + 1 /\ wf' = [wf EXCEPT ![w] = nf + 1] /\ UNCHANGED files
               /\ wpc' = [wpc EXCEPT ![w] = "publish"] /\ UNCHANGED openW
  /\ UNCHANGED <<wsent, data, fin, chan, rpc, cur, nread, got>>

\* sp_w_p2b: the created file is published to `files` in a separate lock region
Publish(w) ==
  /\ wpc[w] = "publish"
  /\ files' = Append(files, wf[w])
  /\ wpc' = [wpc EXCEPT ![w] = "append"]
  /\ IF FIXED THEN /\ fin' = [f \in 1..MaxF |-> fin[f] \/ f \in {openW[k] : k \in 1..Len(openW)}]
                   /\ openW' = <<>>
     ELSE UNCHANGED <<openW, fin>>
  /\ UNCHANGED <<wf, wsent, data, nf, chan, rpc, cur, nread, got>>

\* push_batch: append + flush; then give the file back
Append_(w) ==
  /\ wpc[w] = "append"
  /\ data' = [data EXCEPT ![wf[w]] = @ + 1]
  /\ wpc' = [wpc EXCEPT ![w] = "return"]
  /\ UNCHANGED <<wf, wsent, files, openW, fin, nf, chan, rpc, cur, nread, got>>

Return(w) ==
  /\ wpc[w] = "return"
  /\ IF FIXED /\ files # <<>> /\ files[Len(files)] # wf[w]
       THEN fin' = [fin EXCEPT ![wf[w]] = TRUE] /\ UNCHANGED openW      \* repair: an older file is finished
       ELSE openW' = Append(openW, wf[w]) /\ UNCHANGED fin
  /\ wpc' = [wpc EXCEPT ![w] = "send_spill"]
  /\ UNCHANGED <<wf, wsent, files, data, nf, chan, rpc, cur, nread, got>>

\* DistributionSender::send: parks while the gate is closed (the channel is non-empty)
Send(w) ==
  /\ wpc[w] \in {"send_mem", "send_spill"}
  /\ chan = <<>>
  /\ chan' = Append(chan, IF wpc[w] = "send_mem" THEN "mem" ELSE "spill")
  /\ wsent' = [wsent EXCEPT ![w] = @ + 1]
  /\ wpc' = [wpc EXCEPT ![w] = IF wsent[w] + 1 = NB THEN "done" ELSE "idle"]
  /\ UNCHANGED <<wf, files, openW, data, fin, nf, rpc, cur, nread, got>>

\* the last writer to finish finalises the idle open files (Drop for SpillPoolSink)
Finalize ==
  /\ AllSent /\ openW # <<>>
  /\ fin' = [f \in 1..MaxF |-> fin[f] \/ f \in {openW[k] : k \in 1..Len(openW)}]
  /\ openW' = <<>>
  /\ UNCHANGED <<wpc, wf, wsent, files, data, nf, chan, rpc, cur, nread, got>>

\* PerPartitionStream: ReadingMemory
RChan ==
  /\ rpc = "chan" /\ chan # <<>>
  /\ chan' = Tail(chan)
  /\ IF Head(chan) = "mem" THEN got' = got + 1 /\ UNCHANGED rpc ELSE rpc' = "spill" /\ UNCHANGED got
  /\ UNCHANGED <<wpc, wf, wsent, files, openW, data, fin, nf, cur, nread>>

\* PerPartitionStream: ReadingSpilled -> SpillPoolReader: current file in creation order
RSpill ==
  /\ rpc = "spill" /\ cur <= Len(files)
  /\ LET f == files[cur] IN
       IF nread < data[f] THEN /\ nread' = nread + 1 /\ got' = got + 1 /\ rpc' = "chan" /\ UNCHANGED cur
       ELSE /\ fin[f]                                   \* otherwise the reader is parked on f
            /\ cur' = cur + 1 /\ nread' = 0 /\ UNCHANGED <<got, rpc>>
  /\ UNCHANGED <<wpc, wf, wsent, files, openW, data, fin, nf, chan>>

Done == AllSent /\ chan = <<>> /\ rpc = "chan"
Next == \/ \E w \in Writers : Choose(w) \/ Publish(w) \/ Append_(w) \/ Return(w) \/ Send(w)
        \/ Finalize \/ RChan \/ RSpill
        \/ (Done /\ UNCHANGED vars)
Spec == Init /\ [][Next]_vars /\ WF_vars(Next)

\* every batch that was sent is delivered exactly once when everything has ended
Delivered == Done => got = W * NB
NeverTooMany == got <= W * NB
Termination == <>Done
=============================================================================
