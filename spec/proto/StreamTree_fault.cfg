CONSTANTS NB = 2  MODE = "fault"  MOUTS = {2, 3}  BREAKS = FALSE
  SHAPES = {"filter","projection","projection_udf","filter_udf","coalesce_batches","sort","topk","agg_single","window","bounded_window","union","interleave","coalesce_parts","repart_rr","repart_hash","repart_preserve","spm","agg_partial_final","hash_join","hash_join_part","hash_join_outer","smj","nlj","cross","limit","limit_xchg","sort_repart","filter_union_sort"}
SPECIFICATION Spec
INVARIANTS TypeOK NoTruncation FaultSurfaces FaultReached CleanFailure WithinLimit ReleasedWhenQuiescent DroppedHoldsNothing FanSurfaces FanComplete Emit
PROPERTIES Terminates DropReleases StaysReleased
CHECK_DEADLOCK FALSE
