SPECIFICATION Spec
INVARIANT Check
CHECK_DEADLOCK FALSE
