------------------------------ MODULE CliScript ------------------------------
(***************************************************************************)
(* C51, end-to-end part: well-formed input lines for the client's           *)
(* interactive loop.  A line is 1..MaxStmts statements, each                 *)
(*     S:  x ' body '          (x = "select ",  string literal)              *)
(*     D:  x y " body "        (y = "1 as ",    quoted identifier)           *)
(* whose bodies contain letters, blanks, SEMICOLONS, the other quote         *)
(* character and the doubled own quote; statements are joined by             *)
(* semicolons with optional blanks / empty statements.  TLC checks that the  *)
(* documented rule (CliSplit!Statements) splits every such line into         *)
(* exactly its statements, and prints the line with the value each           *)
(* statement must produce (the unescaped body).                              *)
(***************************************************************************)
EXTENDS CliSplit

CONSTANTS MaxStmts, MaxBody, ScriptN

\* body tokens: "a" letter, "s" semicolon, "_" blank, "E" the doubled own quote, "O" the other quote
Tok == {"a", "s", "_", "E", "O"}
Bodies == UNION {[1..n -> Tok] : n \in 0..MaxBody}
Own(kind)   == IF kind = "S" THEN "q" ELSE "d"
Other(kind) == IF kind = "S" THEN "d" ELSE "q"

RECURSIVE Render(_, _)      \* body as it is typed
Render(b, kind) == IF b = <<>> THEN <<>> ELSE
  (CASE Head(b) = "E" -> <<Own(kind), Own(kind)>> [] Head(b) = "O" -> <<Other(kind)>> [] OTHER -> <<Head(b)>>) \o Render(Tail(b), kind)
RECURSIVE Value(_, _)       \* body as the engine must read it
Value(b, kind) == IF b = <<>> THEN <<>> ELSE
  (CASE Head(b) = "E" -> <<Own(kind)>> [] Head(b) = "O" -> <<Other(kind)>> [] OTHER -> <<Head(b)>>) \o Value(Tail(b), kind)

Stmt(st) == IF st.kind = "S" THEN <<"x", "q">> \o Render(st.body, "S") \o <<"q">>
                             ELSE <<"x", "y", "d">> \o Render(st.body, "D") \o <<"d">>
Seps == {<<"s">>, <<"_", "s", "_">>, <<"s", "s">>, <<"s", "_", "s", "_">>}

StmtSet == {st \in [kind : {"S", "D"}, body : Bodies] : st.kind = "D" => \E i \in 1..Len(st.body) : st.body[i] # "_"}

RECURSIVE Glue(_, _)
Glue(sts, seps) == IF Len(sts) = 1 THEN Stmt(sts[1]) \o <<"s">>
                   ELSE Stmt(sts[1]) \o seps[1] \o Glue(Tail(sts), Tail(seps))

VARIABLES stmts, seps
Scripts(n) == [1..n -> StmtSet]
InitS == \E n \in 1..MaxStmts :
           /\ stmts \in RandomSubset(ScriptN, Scripts(n))
           /\ seps \in RandomSubset(1, [1..n -> Seps])
           /\ line = <<>>               \* (variable of CliSplit, unused here)
NextS == UNCHANGED <<stmts, seps, line>>
SpecS == InitS /\ [][NextS]_<<stmts, seps, line>>

ScriptLine == Glue(stmts, seps)
\* the documented rule splits a well-formed line into exactly its statements
SplitsIntoStatements ==
  /\ Statements(ScriptLine) = [i \in 1..Len(stmts) |-> Stmt(stmts[i])]
  /\ TogglePieces(ScriptLine) = Pieces(ScriptLine)
HasInnerSemicolon == \E i \in 1..Len(stmts) : \E j \in 1..Len(stmts[i].body) : stmts[i].body[j] = "s"

EmitS == PrintT(<<"CASE", ToJson([line |-> Str(ScriptLine),
                                  expect |-> [i \in 1..Len(stmts) |-> [kind |-> stmts[i].kind, val |-> Str(Value(stmts[i].body, stmts[i].kind))]],
                                  inner |-> HasInnerSemicolon])>>)
=============================================================================
