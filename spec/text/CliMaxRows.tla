----------------------------- MODULE CliMaxRows -----------------------------
(***************************************************************************)
(* C51, row limits: `--maxrows N` is documented as "the max number of rows  *)
(* to display for the Table format".  A result of n rows arriving in         *)
(* batches of size k is printed in format f under limit m:                  *)
(*   f = table, m < n : the first m rows are shown and the footer says       *)
(*                      "(First m displayed. Use --maxrows to adjust)";      *)
(*   otherwise        : every row is shown (the CSV/TSV/JSON/NDJSON formats   *)
(*                      "encode every result row") and there is no notice.   *)
(* The footer always reports n rows fetched.  Each state is one case for the *)
(* client's real interactive loop.                                          *)
(***************************************************************************)
EXTENDS Naturals, TLC, Json

CONSTANTS Formats, Limits, MaxN, BatchSizes      \* Limits: naturals, 99 stands for "inf"

VARIABLES f, m, n, k
vars == <<f, m, n, k>>
Init == f \in Formats /\ m \in Limits /\ n \in 0..MaxN /\ k \in BatchSizes
Next == UNCHANGED vars
Spec == Init /\ [][Next]_vars

Truncated == f = "table" /\ m < n
Shown  == IF Truncated THEN m ELSE n
Notice == Truncated
\* rows are never lost silently: whatever is not shown is announced
NoSilentLoss == Shown = n \/ Notice
Emit == PrintT(<<"CASE", ToJson([fmt |-> f, maxrows |-> m, n |-> n, batch |-> k, shown |-> Shown, notice |-> Notice])>>)
=============================================================================
