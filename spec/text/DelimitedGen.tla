---------------------------- MODULE DelimitedGen ----------------------------
(***************************************************************************)
(* Generator of result grids for C51 and specification-level check of the   *)
(* decoders of Delimited.tla: every grid of the scope, written by each       *)
(* reference writer, is read back by the decoder (RoundTrip), and a writer   *)
(* that forgets to quote / escape is rejected (Sensitive).  Each state is    *)
(* one grid, printed as a CASE for the harness, which prints it with the     *)
(* real datafusion_cli::print_format::PrintFormat.                           *)
(***************************************************************************)
EXTENDS Delimited, Json, Randomization

CONSTANTS MaxRows,     \* rows 0..MaxRows
          ExhCells,    \* grids with rows*cols <= ExhCells are enumerated exhaustively
          SampleN      \* bigger shapes: SampleN random grids per (shape, kinds, names)

StrPool == << <<>>, <<"a">>, <<",">>, <<TAB>>, <<QT>>, <<NL>>, <<"a", ",", "b">>, <<QT, "a", QT>>,
              <<"U+00E9">>, <<" ">>, <<"a", NL, "b">>, <<"n", "u", "l", "l">>, <<"1">>, <<BS>>, <<"'">>,
              <<"{", "}">>, <<"U+1F600", TAB, QT, QT>>, <<";">>, <<BS, "n">> >>
IntPool == << <<"0">>, <<"-", "1">>, <<"1", "2">> >>
NameSets == { << <<"c">>, <<"d">> >>, << <<"c", ",", "x">>, <<"d", QT>> >>, << <<"c", TAB>>, <<"U+00E9">> >> }

Cells(kind) == {Null} \cup (IF kind = "s" THEN {[k |-> "s", c |-> StrPool[j]] : j \in 1..Len(StrPool)}
                                          ELSE {[k |-> "i", c |-> IntPool[j]] : j \in 1..Len(IntPool)})
AllCells == Cells("s") \cup Cells("i")
RowSet(kinds) == {r \in [1..Len(kinds) -> AllCells] : \A j \in 1..Len(kinds) : r[j] \in Cells(kinds[j])}

VARIABLES nc, nr, kinds, names, rows
vars == <<nc, nr, kinds, names, rows>>

Init == /\ nc \in 1..2
        /\ nr \in 0..MaxRows
        /\ kinds \in [1..nc -> {"s", "i"}]
        /\ names \in {SubSeq(ns, 1, nc) : ns \in NameSets}
        /\ rows \in IF nr * nc <= ExhCells THEN [1..nr -> RowSet(kinds)]
                    ELSE LET all == [1..nr -> RowSet(kinds)]
                             k == IF Cardinality(RowSet(kinds)) < 8 /\ nr <= 3 /\ Cardinality(all) < SampleN
                                    THEN Cardinality(all) ELSE SampleN
                         IN RandomSubset(k, all)
Next == UNCHANGED vars
Spec == Init /\ [][Next]_vars

Run(fmt, header, text) == [fmt |-> fmt, header |-> header, names |-> names, rows |-> rows, text |-> text]

RoundTrip ==
  /\ \A header \in BOOLEAN, always \in BOOLEAN :
       /\ Accept(Run("csv", header, CsvWrite(header, names, rows, ",", always)))
       /\ Accept(Run("tsv", header, CsvWrite(header, names, rows, TAB, always)))
  /\ \A en \in BOOLEAN :
       /\ Accept(Run("json", TRUE, JsonWrite(names, rows, en)))
       /\ Accept(Run("ndjson", TRUE, NdJsonWrite(names, rows, en)))

\* the decoders are not vacuous: sloppy writers are rejected where it matters
RECURSIVE Raw(_, _)
Raw(fs, sep) == IF Len(fs) <= 1 THEN Cat(fs) ELSE Head(fs) \o <<sep>> \o Raw(Tail(fs), sep)
RawCsv(sep) == Cat([r \in 1..Len(rows) |-> Raw(CsvRows(rows)[r], sep) \o <<NL>>])
Special(sep) == \E r \in 1..nr, j \in 1..nc : \E i \in 1..Len(rows[r][j].c) : rows[r][j].c[i] \in {sep, QT, NL}
HasNullStr == \E r \in 1..nr, j \in 1..nc : rows[r][j] = Null /\ kinds[j] = "s"
NullAsEmpty == [r \in 1..nr |-> [j \in 1..nc |-> IF rows[r][j] = Null /\ kinds[j] = "s" THEN [k |-> "s", c |-> <<>>] ELSE rows[r][j]]]
Sensitive ==
  /\ Special(",") => ~Accept(Run("csv", FALSE, RawCsv(",")))
  /\ Special(TAB) => ~Accept(Run("tsv", FALSE, RawCsv(TAB)))
  /\ HasNullStr => ~Accept(Run("json", TRUE, JsonWrite(names, NullAsEmpty, FALSE)))
  /\ HasNullStr => ~Accept(Run("ndjson", TRUE, NdJsonWrite(names, NullAsEmpty, TRUE)))

Emit == PrintT(<<"CASE", ToJson([names |-> names, kinds |-> kinds, rows |-> rows])>>)
=============================================================================
