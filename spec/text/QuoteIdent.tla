----------------------------- MODULE QuoteIdent -----------------------------
(***************************************************************************)
(* C52 - qualified names round-trip through their quoted text form.        *)
(*                                                                         *)
(* An identifier is a finite sequence of characters; a character is a      *)
(* token (a string): single letters/digits stand for themselves, and       *)
(*   "dq" = the double quote   "sp" = a space   "eacute" = U+00E9 (a       *)
(*   non-ASCII letter)          "." and "_" stand for themselves.           *)
(* A reference is a sequence of 1..4 identifiers (table reference: 1..3 =  *)
(* [catalog.][schema.]table; column: relation parts + column name, 1..4;   *)
(* schema reference: [catalog.]schema, 1..2).                              *)
(*                                                                         *)
(* DOMAIN.  The property quantifies over "any catalog, schema and table    *)
(* identifiers (any characters and letter case)".  The EMPTY identifier IS *)
(* in the domain: it is a value of the identifier type the API accepts     *)
(* (TableReference::partial("", "t"), an Arrow field named ""), and the     *)
(* text form has a spelling for it (a pair of double quotes, which the SQL  *)
(* tokenizer reads back as the empty delimited identifier).  Hence         *)
(* Bare(<<>>) = FALSE below and Quote(<<>>) = <<dq, dq>>.                  *)
(*                                                                         *)
(* Documented rules transcribed here:                                      *)
(*  Quote  (datafusion_common::utils::quote_identifier / needs_quotes):    *)
(*     an identifier is written bare iff it matches [a-z_][a-z0-9_]*;       *)
(*     otherwise it is wrapped in double quotes with every embedded double *)
(*     quote doubled.                                                      *)
(*  Render (TableReference::to_quoted_string, Column::quoted_flat_name):    *)
(*     the quoted parts joined by ".".                                     *)
(*  ParseMulti (parse_identifiers_normalized = the SQL multipart           *)
(*     identifier grammar): parts separated by "." outside quotes; a part  *)
(*     is a delimited identifier ("..." , "" inside stands for one quote,  *)
(*     taken verbatim) or a word [letter|_][letter|digit|_]* which is      *)
(*     folded to lower case (ASCII only); blanks between tokens are        *)
(*     skipped; anything else is a parse failure.                          *)
(*  Parse  (TableReference::parse_str / Column::from_qualified_name):      *)
(*     ParseMulti, and if that fails or has too many parts, the whole text *)
(*     is taken as ONE unqualified name.                                   *)
(*                                                                         *)
(* THEOREM  RoundTrip: Parse(Render(ref)) = ref for every reference.       *)
(***************************************************************************)
EXTENDS Naturals, Sequences, FiniteSets, TLC, Json

CONSTANTS
    Alpha,              \* the enumeration alphabet (a set of characters)
    T1, T2, T3,         \* table references with 1/2/3 parts: max identifier length (NONE = kind/arity not enumerated)
    C1, C2, C3, C4,     \* columns with 1..4 parts
    S1, S2,             \* schema references with 1..2 parts
    XT, XC,             \* max arity for references whose parts are drawn from ExtraIds (0 = none)
    EMIT                \* print every complete case for replay

(* character classes (ASCII), independent of the enumeration alphabet *)
LowerSeq == <<"a","b","c","d","e","f","g","h","i","j","k","l","m","n","o","p","q","r","s","t","u","v","w","x","y","z">>
UpperSeq == <<"A","B","C","D","E","F","G","H","I","J","K","L","M","N","O","P","Q","R","S","T","U","V","W","X","Y","Z">>
Lower == {LowerSeq[i] : i \in 1..26}
Upper == {UpperSeq[i] : i \in 1..26}
Digit == {"0", "1", "2", "3", "4", "5", "6", "7", "8", "9"}
\* non-ASCII letters (e-acute, sharp s, n-tilde, capital E-acute): word characters for the tokenizer, untouched by
\* ASCII folding, and NEVER bare for the renderer (the bare rule is ASCII-only)
UniLetter == {"eacute", "eszett", "ntilde", "Eacute"}
\* non-ASCII digits / number-like characters (subscript two, superscript two, Arabic-Indic one, circled one): neither
\* bare for the renderer nor word characters for the tokenizer - an identifier containing one must be quoted
UniDigit == {"sub2", "sup2", "arabic1", "circled1"}
FoldFn == [c \in Upper |-> LowerSeq[CHOOSE i \in 1..26 : UpperSeq[i] = c]]
Fold(c) == IF c \in Upper THEN FoldFn[c] ELSE c

(* SQL keywords (and case variants) used as whole identifiers *)
ExtraIds == {
    <<"s","e","l","e","c","t">>,
    <<"f","r","o","m">>,
    <<"t","a","b","l","e">>,
    <<"o","r","d","e","r">>,
    <<"g","r","o","u","p">>,
    <<"u","s","e","r">>,
    <<"n","u","l","l">>,
    <<"t","r","u","e">>,
    <<"i","n">>,
    <<"a","s">>,
    <<"j","o","i","n">>,
    <<"w","h","e","r","e">>,
    <<"c","u","r","r","e","n","t","_","d","a","t","e">>,
    <<"d","e","f","a","u","l","t">>,
    <<"a","l","l">>,
    <<"c","a","s","e">>,
    <<"e","n","d">>,
    <<"i","n","t","e","r","v","a","l">>,
    <<"d","a","t","e">>,
    <<"v","a","l","u","e","s">>,
    <<"S","E","L","E","C","T">>,
    <<"T","a","b","l","e">>,
    <<"n","U","L","L">>,
    <<"O","r","d","e","r">>,
    \* identifiers with non-ASCII digits and letters in leading and non-leading position
    <<"c","o","sub2">>, <<"x","sup2">>, <<"a","arabic1">>, <<"a","circled1">>, <<"_","sub2","a">>, <<"a","1","sup2">>,
    <<"eszett">>, <<"a","eszett">>, <<"ntilde","a">>, <<"a","ntilde">>, <<"Eacute">>, <<"a","Eacute">>, <<"sub2">> }

NONE == 99
DQ == "dq"
SP == "sp"
DOT == "."
US == "_"

Alphabet == Alpha
ASSUME Alpha \subseteq Lower \cup Upper \cup Digit \cup UniLetter \cup UniDigit \cup {US, DOT, DQ, SP}

-----------------------------------------------------------------------------
(* identifiers of length 0..n over the alphabet *)
RECURSIVE IdsOfLen(_)
IdsOfLen(n) == IF n = 0 THEN {<<>>}
               ELSE {Append(s, c) : s \in IdsOfLen(n - 1), c \in Alphabet}
RECURSIVE IdsUpToRec(_)
IdsUpToRec(n) == IF n = 0 THEN IdsOfLen(0) ELSE IdsOfLen(n) \cup IdsUpToRec(n - 1)
\* evaluated once (constant-level, zero-arity definitions are cached by TLC)
MaxIdLen == 5
IdsTable == [n \in 0..MaxIdLen |-> IdsUpToRec(n)]
IdsUpTo(n) == IdsTable[n]

-----------------------------------------------------------------------------
(* Quote *)
BareStart(c) == c \in Lower \/ c = US
BareRest(c)  == c \in Lower \/ c \in Digit \/ c = US

Bare(id) == /\ Len(id) > 0
            /\ BareStart(id[1])
            /\ \A i \in 2..Len(id) : BareRest(id[i])

RECURSIVE Escape(_)
Escape(id) == IF id = <<>> THEN <<>>
              ELSE (IF Head(id) = DQ THEN <<DQ, DQ>> ELSE <<Head(id)>>) \o Escape(Tail(id))

Quote(id) == IF Bare(id) THEN id ELSE <<DQ>> \o Escape(id) \o <<DQ>>

RECURSIVE Render(_)
Render(ref) == IF Len(ref) = 1 THEN Quote(ref[1])
               ELSE Quote(ref[1]) \o <<DOT>> \o Render(Tail(ref))

(* the unquoted form (Display / flat_name) *)
RECURSIVE Flat(_)
Flat(ref) == IF Len(ref) = 1 THEN ref[1] ELSE ref[1] \o <<DOT>> \o Flat(Tail(ref))

-----------------------------------------------------------------------------
(* ParseMulti: the multipart-identifier grammar *)
WordStart(c) == c \in Lower \/ c \in Upper \/ c \in UniLetter \/ c = US
WordRest(c)  == WordStart(c) \/ c \in Digit

FoldAll(id) == [i \in 1..Len(id) |-> Fold(id[i])]

Fail == [ok |-> FALSE, parts |-> <<>>]

\* mode: "start" (a part must begin), "word", "quoted", "after" (a "." or the end must follow)
\* f = TRUE: bare words are folded to lower case (parse_str); f = FALSE: case is preserved
\* (parse_str_normalized(.., ignore_case = true), from_qualified_name_ignore_case, enable_ident_normalization = false)
Norm(id, f) == IF f THEN FoldAll(id) ELSE id
RECURSIVE Scan(_, _, _, _, _, _)
Scan(t, i, mode, cur, acc, f) ==
    IF i > Len(t) THEN
        CASE mode = "word"   -> [ok |-> TRUE, parts |-> Append(acc, Norm(cur, f))]
          [] mode = "after"  -> [ok |-> TRUE, parts |-> acc]
          [] OTHER           -> Fail       \* empty input, trailing period, unterminated quote
    ELSE LET c == t[i] IN
        CASE mode = "start" ->
                 IF c = SP THEN Scan(t, i + 1, "start", cur, acc, f)
                 ELSE IF c = DQ THEN Scan(t, i + 1, "quoted", <<>>, acc, f)
                 ELSE IF WordStart(c) THEN Scan(t, i + 1, "word", <<c>>, acc, f)
                 ELSE Fail
          [] mode = "word" ->
                 IF WordRest(c) THEN Scan(t, i + 1, "word", Append(cur, c), acc, f)
                 ELSE IF c = DOT THEN Scan(t, i + 1, "start", <<>>, Append(acc, Norm(cur, f)), f)
                 ELSE IF c = SP THEN Scan(t, i + 1, "after", <<>>, Append(acc, Norm(cur, f)), f)
                 ELSE Fail                 \* a quote glued to a word is not an identifier
          [] mode = "quoted" ->
                 IF c = DQ THEN
                     IF i < Len(t) /\ t[i + 1] = DQ
                     THEN Scan(t, i + 2, "quoted", Append(cur, DQ), acc, f)
                     ELSE Scan(t, i + 1, "after", <<>>, Append(acc, cur), f)   \* verbatim, no folding
                 ELSE Scan(t, i + 1, "quoted", Append(cur, c), acc, f)
          [] OTHER -> \* "after"
                 IF c = SP THEN Scan(t, i + 1, "after", cur, acc, f)
                 ELSE IF c = DOT THEN Scan(t, i + 1, "start", <<>>, acc, f)
                 ELSE Fail

ParseMultiF(t, f) == Scan(t, 1, "start", <<>>, <<>>, f)
ParseMulti(t) == ParseMultiF(t, TRUE)

(* parse with the fall-back of parse_str / from_qualified_name: maxParts = 3 (table), 4 (column), 2 (schema) *)
Parse(t, maxParts) ==
    LET r == ParseMulti(t) IN
    IF r.ok /\ Len(r.parts) \in 1..maxParts THEN r.parts ELSE <<t>>

ParseF(t, maxParts, f) ==
    LET r == ParseMultiF(t, f) IN
    IF r.ok /\ Len(r.parts) \in 1..maxParts THEN r.parts ELSE <<t>>

MaxParts(k) == CASE k = "T" -> 3 [] k = "C" -> 4 [] OTHER -> 2

RoundTripHolds(k, ref) == Parse(Render(ref), MaxParts(k)) = ref

(* the unquoted form parses back exactly when every part is bare *)
FlatHolds(k, ref) == (\A i \in 1..Len(ref) : Bare(ref[i])) => Parse(Flat(ref), MaxParts(k)) = ref

(* case-preserving parse: the quoted form still round-trips, and so does the UNQUOTED form of word-shaped parts *)
WordShaped(id) == Len(id) > 0 /\ WordStart(id[1]) /\ \A i \in 2..Len(id) : WordRest(id[i])
RoundTripICHolds(k, ref) == ParseF(Render(ref), MaxParts(k), FALSE) = ref
FlatICHolds(k, ref) == (\A i \in 1..Len(ref) : WordShaped(ref[i])) => ParseF(Flat(ref), MaxParts(k), FALSE) = ref

(* TableReference::resolve: missing leading parts are taken from the defaults; the resolved reference is a
   3-part reference like any other (ResolvedTableReference -> TableReference::Full) *)
Resolve(ref, dc, ds) == CASE Len(ref) = 3 -> ref [] Len(ref) = 2 -> <<dc>> \o ref [] OTHER -> <<dc, ds>> \o ref
ResolveHolds(ref) == \A dc \in {<<"d", "c">>, <<"D", "sp", "c">>} : \A ds \in {<<"p">>, <<"p", ".", "S">>} :
                        LET r3 == Resolve(ref, dc, ds) IN
                        /\ Len(r3) = 3 /\ r3[3] = ref[Len(ref)]
                        /\ Parse(Render(r3), 3) = r3

-----------------------------------------------------------------------------
(* Lemmas about single identifiers, checked as ASSUMEs over the whole alphabet scope *)
LemmaScope == IdsUpTo(IF T1 # NONE THEN T1 ELSE 1) \cup ExtraIds

ASSUME QuoteParsesBack == \A id \in LemmaScope : ParseMulti(Quote(id)) = [ok |-> TRUE, parts |-> <<id>>]
ASSUME BareIsLossless == \A id \in LemmaScope : Bare(id) => FoldAll(id) = id
ASSUME QuoteInjective == \A x, y \in IdsUpTo(2) : Quote(x) = Quote(y) => x = y
ASSUME QuotedHasNoBareDot ==   \* a "." inside an identifier never splits the rendered text
    \A id \in LemmaScope : Len(ParseMulti(Quote(id)).parts) = 1

-----------------------------------------------------------------------------
(* Case enumeration: a state is a reference under construction *)
VARIABLES k, n, src, p

vars == <<k, n, src, p>>

Bound(kk, nn) ==
    CASE kk = "T" /\ nn = 1 -> T1 [] kk = "T" /\ nn = 2 -> T2 [] kk = "T" /\ nn = 3 -> T3
      [] kk = "C" /\ nn = 1 -> C1 [] kk = "C" /\ nn = 2 -> C2 [] kk = "C" /\ nn = 3 -> C3
      [] kk = "C" /\ nn = 4 -> C4
      [] kk = "S" /\ nn = 1 -> S1 [] kk = "S" /\ nn = 2 -> S2
      [] OTHER -> NONE

Pool == IF src = "alpha" THEN IdsUpTo(Bound(k, n)) ELSE ExtraIds

Init == /\ k \in {"T", "C", "S"}
        /\ n \in 1..4
        /\ src \in {"alpha", "extra"}
        /\ n <= MaxParts(k)
        /\ IF src = "alpha" THEN Bound(k, n) # NONE
           ELSE ExtraIds # {} /\ n <= (IF k = "T" THEN XT ELSE IF k = "C" THEN XC ELSE 0)
        /\ p \in {<<x>> : x \in Pool}

Extend == /\ Len(p) < n
          /\ \E x \in Pool : p' = Append(p, x)
          /\ UNCHANGED <<k, n, src>>

Done == Len(p) = n /\ UNCHANGED vars

Next == Extend \/ Done

Spec == Init /\ [][Next]_vars

Complete == Len(p) = n

RoundTrip == Complete => RoundTripHolds(k, p)
FlatRoundTrip == Complete => FlatHolds(k, p)
RoundTripIC == Complete => RoundTripICHolds(k, p)
FlatRoundTripIC == Complete => FlatICHolds(k, p)
ResolveRoundTrip == (Complete /\ k = "T") => ResolveHolds(p)

\* classification of a case, for vacuity accounting in the driver
Shape(ref) == [bare     |-> Cardinality({i \in 1..Len(ref) : Bare(ref[i])}),
               escaped  |-> Cardinality({i \in 1..Len(ref) : \E j \in 1..Len(ref[i]) : ref[i][j] = DQ}),
               dotted   |-> Cardinality({i \in 1..Len(ref) : \E j \in 1..Len(ref[i]) : ref[i][j] = DOT}),
               upper    |-> Cardinality({i \in 1..Len(ref) : \E j \in 1..Len(ref[i]) : ref[i][j] \in Upper}),
               word     |-> Cardinality({i \in 1..Len(ref) : WordShaped(ref[i])}),
               empty    |-> Cardinality({i \in 1..Len(ref) : ref[i] = <<>>})]

Emit == (EMIT /\ Complete) =>
          PrintT(<<"CASE", ToJson([k |-> k, p |-> p, t |-> Render(p), src |-> src, shape |-> Shape(p)])>>)
=============================================================================
