CONSTANTS Keys = {1, 2}  Texts = {1, 2, 3}
SPECIFICATION Spec
INVARIANTS RoundTrip ShownIsCanonical
CHECK_DEADLOCK FALSE
