------------------------------- MODULE FastMod -------------------------------
(***************************************************************************)
(* C11 - hash partition index = hash mod partition count.                  *)
(*                                                                         *)
(* Transcription of `StrengthReducedU64` (datafusion/physical-plan/src/    *)
(* repartition/mod.rs), parametric in the word width W (the code is the    *)
(* instance W = 64; a "double word" is 2W bits, u128 in the code):         *)
(*                                                                         *)
(*   new(d):  d a power of two  -> PowerOfTwo { mask = d - 1 }             *)
(*            otherwise         -> Reciprocal { d, M = (2^(2W) - 1) / d + 1 }  *)
(*   quotient(n, M):  Mlo = M mod 2^W ; Mhi = M / 2^W                       *)
(*                    low = n * Mlo ; high = n * Mhi          (W x W -> 2W) *)
(*                    carry = ((high mod 2^W) + (low / 2^W)) / 2^W         *)
(*                    q = ((high / 2^W) + carry)  truncated to W bits      *)
(*   partition index: PowerOfTwo -> n & mask ;  Reciprocal -> n - q * d    *)
(*                                                                         *)
(* THEOREMS (checked by TLC for every 0 < d < 2^W, 0 <= n < 2^W):          *)
(*   Index(d, n) = n % d,   q = n \div d,   0 <= n - q*d < d (no underflow,*)
(*   no truncation in q, M fits a double word), and the limb/carry         *)
(*   expression equals the high double-word half of the exact product n*M. *)
(* TLC's integers are 32-bit: the exact product n*M < 2^(3W) bounds W <= 10.*)
(***************************************************************************)
EXTENDS Naturals, TLC, Json

CONSTANTS WS,       \* the set of word widths (in bits) to check; each width is a separate instance
          EMIT,     \* print every case (for replay into the 64-bit code)
          MUT       \* "none" = the code as written; otherwise a seeded transcription error, used by the driver's
                    \* self-test to show that the theorems are not vacuous: "recip_floor" (the `+ 1` forgotten),
                    \* "recip_plus2" (`+ 2`), "no_carry" (carry dropped), "carry_low_only" (carry = low >> W),
                    \* "mask_d" (mask = d instead of d - 1)

RECURSIVE Pow2(_)
Pow2(k) == IF k = 0 THEN 1 ELSE 2 * Pow2(k - 1)

VARIABLE W               \* the word width of this case

B == Pow2(W)             \* 2^W: one word
BB == B * B              \* 2^(2W): one double word

ASSUME WS \subseteq 1..10   \* n * M < 2^(3W) <= 2^30 stays inside TLC's 32-bit integers

IsPow2(x) == \E k \in 0..(W - 1) : x = Pow2(k)      \* u64::is_power_of_two

\* bitwise AND on naturals (the mask path)
RECURSIVE BitAnd(_, _)
BitAnd(a, b) == IF a = 0 \/ b = 0 THEN 0
                ELSE 2 * BitAnd(a \div 2, b \div 2) + (IF a % 2 = 1 /\ b % 2 = 1 THEN 1 ELSE 0)

Reciprocal(d) == (BB - 1) \div d + (CASE MUT = "recip_floor" -> 0 [] MUT = "recip_plus2" -> 2 [] OTHER -> 1)
                                                    \* u128::MAX / d + 1

Mlo(d) == Reciprocal(d) % B                         \* reciprocal as u64
Mhi(d) == Reciprocal(d) \div B                      \* (reciprocal >> 64) as u64

Low(d, n)  == n * Mlo(d)                            \* u128 products of two words
High(d, n) == n * Mhi(d)
Carry(d, n) == CASE MUT = "no_carry" -> 0
                 [] MUT = "carry_low_only" -> (Low(d, n) \div B) \div B
                 [] OTHER -> ((High(d, n) % B) + (Low(d, n) \div B)) \div B
QWide(d, n) == (High(d, n) \div B) + Carry(d, n)    \* before `as u64`
Quotient(d, n) == QWide(d, n) % B                   \* `as u64`

\* the partition index as the code computes it (natural-number subtraction is checked separately)
Mask(d) == IF MUT = "mask_d" THEN d ELSE d - 1
Index(d, n) == IF IsPow2(d) THEN BitAnd(n, Mask(d))
               ELSE n - Quotient(d, n) * d

-----------------------------------------------------------------------------
VARIABLES d, n           \* divisor and value
vars == <<W, d, n>>

\* a case is a pair (d, n).  The divisor is chosen first and the value in a second step (n = B means
\* "not chosen yet") so that TLC's workers share the enumeration; all facts are stated for chosen pairs.
Init == W \in WS /\ d \in 1..(Pow2(W) - 1) /\ n = Pow2(W)
Next == \/ n = B /\ n' \in 0..(B - 1) /\ UNCHANGED <<W, d>>
        \/ n < B /\ UNCHANGED vars
Spec == Init /\ [][Next]_vars
Chosen == n < B

(* the statement of C11 *)
IndexIsMod_ == Index(d, n) = n % d

(* the intermediate facts the code relies on *)
MaskIsMod_       == IsPow2(d) => BitAnd(n, Mask(d)) = n % d
ReciprocalFits_  == ~IsPow2(d) => /\ Reciprocal(d) < BB                  \* no u128 overflow in `+ 1`
                                 /\ Reciprocal(d) * d >= BB             \* M = ceil(2^2W / d)
                                 /\ Reciprocal(d) * d - BB < d
QuotientExact_   == ~IsPow2(d) => Quotient(d, n) = n \div d
NoTruncation_    == ~IsPow2(d) => QWide(d, n) < B
NoUnderflow_     == ~IsPow2(d) => /\ Quotient(d, n) * d <= n             \* `hash - quotient * divisor`
                                 /\ Quotient(d, n) * d < B              \* the u64 product does not wrap
                                 /\ n - Quotient(d, n) * d < d
LimbsAreHighHalf_ == ~IsPow2(d) => QWide(d, n) = (n * Reciprocal(d)) \div BB
CarryIsBit_      == ~IsPow2(d) => Carry(d, n) \in {0, 1}

IndexIsMod == Chosen => IndexIsMod_
MaskIsMod == Chosen => MaskIsMod_
ReciprocalFits == Chosen => ReciprocalFits_
QuotientExact == Chosen => QuotientExact_
NoTruncation == Chosen => NoTruncation_
NoUnderflow == Chosen => NoUnderflow_
LimbsAreHighHalf == Chosen => LimbsAreHighHalf_
CarryIsBit == Chosen => CarryIsBit_

(* all of the above in one pass (shared sub-terms evaluated once; used at the larger widths; MUT = "none") *)
All == Chosen => LET pow == IsPow2(d)
           M   == Reciprocal(d)
           lo  == n * (M % B)
           hi  == n * (M \div B)
           c   == ((hi % B) + (lo \div B)) \div B
           qw  == (hi \div B) + c
           q   == qw % B
       IN  IF pow THEN BitAnd(n, d - 1) = n % d
           ELSE /\ M < BB /\ M * d >= BB /\ M * d - BB < d
                /\ c \in {0, 1}
                /\ qw < B
                /\ qw = (n * M) \div BB
                /\ q = n \div d
                /\ q * d <= n /\ q * d < B
                /\ n - q * d = n % d

Emit == (EMIT /\ Chosen) => PrintT(<<"CASE", ToJson([w |-> W, d |-> d, n |-> n, r |-> n % d,
                                        pow2 |-> IsPow2(d),
                                        carry |-> IF IsPow2(d) THEN 0 ELSE Carry(d, n)])>>)
=============================================================================
