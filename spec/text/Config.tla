------------------------------- MODULE Config -------------------------------
(***************************************************************************)
(* C43 - configuration options round-trip through their text form.         *)
(*                                                                         *)
(* cfg : Key -> Text  (Text 0 = "no value": the option prints nothing).     *)
(* Every option has an implementation-defined parser.  What the property   *)
(* fixes is the CONTRACT between parser and printer:                       *)
(*   Valid   \subseteq Key \X Text      texts the parser accepts           *)
(*   Canon[k, t]                      the text printed after accepting t   *)
(*   (C1) a printed text is accepted:   <<k, Canon[k,t]>> \in Valid        *)
(*   (C2) and is a fixpoint:            Canon[k, Canon[k,t]] = Canon[k,t]  *)
(*   Set(k, t): valid   => cfg' = [cfg EXCEPT ![k] = Canon[k, t]]          *)
(*              invalid => error /\ cfg' = cfg                             *)
(*   Show(k) = cfg[k]                                                      *)
(* THEOREM RoundTrip: in every reachable state, for every key whose value  *)
(* prints as text, Set(k, Show(k)) succeeds and leaves cfg unchanged.      *)
(* TLC checks it for EVERY parser/printer pair satisfying the contract     *)
(* over a small key/text universe (Valid and Canon are chosen in Init).    *)
(* The real parser/printer pairs are bound by ConfigTrace.tla.             *)
(***************************************************************************)
EXTENDS Naturals, FiniteSets, TLC

CONSTANTS Keys, Texts      \* small universes, e.g. {1,2} and {1,2,3}

VARIABLES valid, canon,    \* the (arbitrary, contract-satisfying) implementation
          cfg, err

vars == <<valid, canon, cfg, err>>

Contract(v, c) ==
    \A k \in Keys : \A t \in Texts :
        <<k, t>> \in v => /\ <<k, c[<<k, t>>]>> \in v
                          /\ c[<<k, c[<<k, t>>]>>] = c[<<k, t>>]

Init == /\ valid \in SUBSET (Keys \X Texts)
        /\ canon \in [Keys \X Texts -> Texts]
        /\ Contract(valid, canon)
        \* the initial (default) configuration was produced by the printer
        /\ cfg \in [Keys -> Texts \cup {0}]
        /\ \A k \in Keys : cfg[k] # 0 => <<k, cfg[k]>> \in valid /\ canon[<<k, cfg[k]>>] = cfg[k]
        /\ err = FALSE

SetResult(c, k, t) == IF <<k, t>> \in valid THEN [c EXCEPT ![k] = canon[<<k, t>>]] ELSE c

Set(k, t) == /\ cfg' = SetResult(cfg, k, t)
             /\ err' = (<<k, t>> \notin valid)
             /\ UNCHANGED <<valid, canon>>

Next == \E k \in Keys, t \in Texts : Set(k, t)
Spec == Init /\ [][Next]_vars

Show(k) == cfg[k]

RoundTrip == \A k \in Keys : Show(k) # 0 =>
                 /\ <<k, Show(k)>> \in valid
                 /\ SetResult(cfg, k, Show(k)) = cfg
ShownIsCanonical == \A k \in Keys : cfg[k] # 0 => canon[<<k, cfg[k]>>] = cfg[k]
=============================================================================
