--------------------------- MODULE DelimitedTrace ---------------------------
(***************************************************************************)
(* B2 for C51: every text the real PrintFormat produced (one NDJSON line    *)
(* per run: format, header flag, column names, the grid, and the produced    *)
(* text as a character sequence) must be accepted by Delimited!Accept, i.e. *)
(* decode to the grid.  One state per run; a rejected run is printed as      *)
(* <<"REJECT", i>> (all runs are examined; the driver confirms each          *)
(* rejection with an independent reader before raising).                     *)
(***************************************************************************)
EXTENDS Delimited, Json, IOUtils

Runs == ndJsonDeserialize(IOEnv.TRACE)

VARIABLE i
Init == i \in 1..Len(Runs)
Next == UNCHANGED i
Spec == Init /\ [][Next]_i

Check == IF Accept(Runs[i]) THEN TRUE ELSE PrintT(<<"REJECT", i>>)
=============================================================================
