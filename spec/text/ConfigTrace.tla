---------------------------- MODULE ConfigTrace ----------------------------
(***************************************************************************)
(* Binding B2 for C43: histories recorded from the real configuration      *)
(* (ConfigOptions::set / entries, SessionConfig, SQL SET / SHOW /          *)
(* information_schema.df_settings) are validated against Config.           *)
(* Texts are interned to integers by the harness (0 = no value).           *)
(*                                                                         *)
(* One line per run: [keys |-> N, over |-> <<[k, js]...>>, raw |-> <<[k, js]...>>, ev |-> <<...>>] *)
(*  init  [op, cfg, dflt]           the texts printed for every key, and    *)
(*                                  those of a fresh default configuration  *)
(*  reset [op, k, ok, ch]           RESET k and the keys that changed       *)
(*  rebuild [op, via, ok, diff]     the configuration rebuilt from its own  *)
(*        listing; diff = keys whose text differs in the rebuilt one       *)
(*  show  [op, k, t]                a front end printed t for key k        *)
(*  set   [op, k, t, ok, ch, plain, inval]   Set(k, t) returned ok / error;*)
(*        ch = <<<<j, tj>>...>> every key whose printed text differs after  *)
(*        the call; plain = t is a canonical spelling for k's class (must   *)
(*        print back verbatim if accepted); inval = t is in the fixed pool  *)
(*        of texts invalid for k's class.                                   *)
(* The parser of each option is implementation-defined, so acceptance is    *)
(* decided only in the uncontroversial directions:                          *)
(*   - a text the configuration itself printed for k  (seen) is valid, and  *)
(*     setting it prints the same text again (Config!Contract C1, C2);      *)
(*   - a text of the invalid pool is rejected;                              *)
(*   - a rejected Set changes nothing; an accepted Set changes only k (and  *)
(*     the keys k is documented to override);                               *)
(*   - Set(k, Show(k)) changes nothing at all   (Config!RoundTrip);         *)
(*   - every Show equals the model's cfg (no change without a Set).         *)
(* A run is processed to its end; rejected event numbers are collected and  *)
(* printed (the model re-synchronises on the observed texts), so one TLC    *)
(* run yields the verdict for every event of every run.                     *)
(***************************************************************************)
EXTENDS Naturals, Sequences, FiniteSets, TLC, Json, IOUtils

Runs == ndJsonDeserialize(IOEnv.TRACE)

VARIABLES run, l, cfg, seen, rej
vars == <<run, l, cfg, seen, rej>>

Evs == Runs[run].ev
Ev == Evs[l]
N == Runs[run].keys

Over(k) == UNION {{o.js[i] : i \in 1..Len(o.js)} : o \in {Runs[run].over[i] : i \in {j \in 1..Len(Runs[run].over) : Runs[run].over[j].k = k}}}

\* keys that are a second, finer observation of k's real value (e.g. the byte count behind a printed size)
Raw(k) == UNION {{o.js[i] : i \in 1..Len(o.js)} : o \in {Runs[run].raw[i] : i \in {j \in 1..Len(Runs[run].raw) : Runs[run].raw[j].k = k}}}

Init == /\ run \in 1..Len(Runs)
        /\ l = 2
        /\ cfg = [k \in 1..Runs[run].keys |-> Runs[run].ev[1].cfg[k]]
        /\ seen = {<<k, Runs[run].ev[1].cfg[k]>> : k \in {j \in 1..Runs[run].keys : Runs[run].ev[1].cfg[j] # 0}}
        /\ rej = <<>>

Changed(e) == {e.ch[i][1] : i \in 1..Len(e.ch)}
After(c, e) == [k \in DOMAIN c |-> IF \E i \in 1..Len(e.ch) : e.ch[i][1] = k
                                   THEN e.ch[CHOOSE i \in 1..Len(e.ch) : e.ch[i][1] = k][2] ELSE c[k]]

AcceptShow(e) == e.t = cfg[e.k]

AcceptSet(e) ==
    LET c == After(cfg, e)[e.k] IN
    IF ~e.ok THEN /\ e.ch = <<>>                       \* invalid => nothing changes
                  /\ <<e.k, e.t>> \notin seen          \* a printed text is never rejected
    ELSE /\ ~e.inval                                   \* the invalid pool is rejected
         /\ Changed(e) \subseteq ({e.k} \cup Over(e.k) \cup Raw(e.k))
         /\ e.plain => c = e.t                         \* canonical spellings print back verbatim
         /\ <<e.k, e.t>> \in seen => c = e.t           \* a printed text is a fixpoint
         /\ (e.t = cfg[e.k] /\ Over(e.k) = {}) => e.ch = <<>>   \* Set(k, Show(k)) = identity

\* RESET k: the option shows its default again (the text of the init event); a refused RESET changes nothing
Dflt(k) == Runs[run].ev[1].dflt[k]        \* the listing of a fresh default configuration
AcceptReset(e) ==
    IF ~e.ok THEN e.ch = <<>>
    ELSE /\ Changed(e) \subseteq ({e.k} \cup Over(e.k) \cup Raw(e.k))
         /\ After(cfg, e)[e.k] = Dflt(e.k)

\* the whole configuration rebuilt from its own listing (from_string_hash_map / from_env / alter_with_string_hash_map):
\* every option is Set from the text it shows, so the rebuilt listing is the same (Config!RoundTrip for all keys at once);
\* the recorder reports the keys that differ
AcceptRebuild(e) == e.ok /\ e.diff = <<>>

Step ==
    /\ l <= Len(Evs)
    /\ LET e == Ev IN
       CASE e.op = "show" ->
              /\ rej' = IF AcceptShow(e) THEN rej ELSE Append(rej, l)
              /\ cfg' = [cfg EXCEPT ![e.k] = e.t]
              /\ seen' = IF e.t # 0 THEN seen \cup {<<e.k, e.t>>} ELSE seen
         [] e.op = "set" ->
              /\ rej' = IF AcceptSet(e) THEN rej ELSE Append(rej, l)
              /\ cfg' = After(cfg, e)
              /\ seen' = seen \cup {<<e.ch[i][1], e.ch[i][2]>> : i \in {j \in 1..Len(e.ch) : e.ch[j][2] # 0}}
         [] e.op = "reset" ->
              /\ rej' = IF AcceptReset(e) THEN rej ELSE Append(rej, l)
              /\ cfg' = After(cfg, e)
              /\ seen' = seen \cup {<<e.ch[i][1], e.ch[i][2]>> : i \in {j \in 1..Len(e.ch) : e.ch[j][2] # 0}}
         [] e.op = "rebuild" ->
              /\ rej' = IF AcceptRebuild(e) THEN rej ELSE Append(rej, l)
              /\ UNCHANGED <<cfg, seen>>
         [] OTHER -> UNCHANGED <<rej, cfg, seen>>
    /\ l' = l + 1 /\ UNCHANGED run

Done == l > Len(Evs) /\ UNCHANGED vars
Next == Step \/ Done
Spec == Init /\ [][Next]_vars

Emit == (l = Len(Evs) + 1) => PrintT(<<"CASE", ToJson([run |-> run, events |-> Len(Evs), rejected |-> rej])>>)
=============================================================================
