------------------------------ MODULE CliSplit ------------------------------
(***************************************************************************)
(* C51 (first half): "the command-line client splits each line of input    *)
(* into statements exactly at semicolons outside string literals and       *)
(* quoted identifiers".                                                     *)
(*                                                                         *)
(* A line is a sequence over the abstract alphabet                          *)
(*     a  letter      s  semicolon      q  single quote  '                  *)
(*     d  double quote "     _  blank     n  newline                       *)
(* (the harness maps the symbols to real characters, in several ways).     *)
(*                                                                         *)
(* Statements(l) is the DOCUMENTED rule, written as the SQL lexer reads a   *)
(* line: a string literal starts at ' and ends at the next ' that is not    *)
(* doubled ('' inside a literal is an escaped quote and stays inside);     *)
(* likewise "..." for quoted identifiers; a semicolon is a separator iff    *)
(* it is outside both.  An unterminated literal extends to the end of the   *)
(* line.  The statements are the non-blank pieces, surrounding blanks       *)
(* removed.                                                                 *)
(*                                                                         *)
(* ToggleStatements(l) is the implementation-grain automaton of             *)
(* datafusion-cli/src/helper.rs (two booleans toggled by each quote).  TLC  *)
(* checks for every line of the scope that it equals the documented rule    *)
(* and that Rejoin (nothing lost, nothing invented) holds; every line is    *)
(* printed as a CASE with its expected statement list and replayed into     *)
(* the real splitter (B3).                                                  *)
(***************************************************************************)
EXTENDS Naturals, Sequences, FiniteSets, TLC, Json, Randomization

CONSTANTS MaxLen,      \* every line of length 0..MaxLen
          SampleLen,   \* plus SampleN random lines of each length MaxLen+1..SampleLen
          SampleN

Sym == {"a", "s", "q", "d", "_", "n"}
Blank(c) == c = "_" \/ c = "n"

(* ---------------------------------------------------------- documented rule *)
\* mode: "N" outside, "S" inside '...', "D" inside "..."
RECURSIVE Scan(_, _, _, _, _)
Scan(l, i, mode, cur, acc) ==
  IF i > Len(l) THEN Append(acc, cur)
  ELSE LET c == l[i] IN
    CASE mode = "N" /\ c = "s" -> Scan(l, i + 1, "N", <<>>, Append(acc, cur))
      [] mode = "N" /\ c = "q" -> Scan(l, i + 1, "S", Append(cur, c), acc)
      [] mode = "N" /\ c = "d" -> Scan(l, i + 1, "D", Append(cur, c), acc)
      [] mode = "S" /\ c = "q" ->
           IF i < Len(l) /\ l[i + 1] = "q"
             THEN Scan(l, i + 2, "S", cur \o <<"q", "q">>, acc)      \* doubled quote stays inside
             ELSE Scan(l, i + 1, "N", Append(cur, c), acc)           \* literal closed
      [] mode = "D" /\ c = "d" ->
           IF i < Len(l) /\ l[i + 1] = "d"
             THEN Scan(l, i + 2, "D", cur \o <<"d", "d">>, acc)
             ELSE Scan(l, i + 1, "N", Append(cur, c), acc)
      [] OTHER -> Scan(l, i + 1, mode, Append(cur, c), acc)

Pieces(l) == Scan(l, 1, "N", <<>>, <<>>)

RECURSIVE TrimL(_)
TrimL(p) == IF p # <<>> /\ Blank(Head(p)) THEN TrimL(Tail(p)) ELSE p
RECURSIVE TrimR(_)
TrimR(p) == IF p # <<>> /\ Blank(p[Len(p)]) THEN TrimR(SubSeq(p, 1, Len(p) - 1)) ELSE p
Trim(p) == TrimR(TrimL(p))

NonBlank(ps) == SelectSeq([i \in 1..Len(ps) |-> Trim(ps[i])], LAMBDA p : p # <<>>)
Statements(l) == NonBlank(Pieces(l))

(* ------------------------------------------- implementation-grain automaton *)
RECURSIVE Toggle(_, _, _, _, _, _)
Toggle(l, i, inS, inD, cur, acc) ==
  IF i > Len(l) THEN Append(acc, cur)
  ELSE LET c == l[i]
           s2 == IF c = "q" /\ ~inD THEN ~inS ELSE inS
           d2 == IF c = "d" /\ ~inS THEN ~inD ELSE inD
       IN IF c = "s" /\ ~s2 /\ ~d2
            THEN Toggle(l, i + 1, s2, d2, <<>>, Append(acc, cur))
            ELSE Toggle(l, i + 1, s2, d2, Append(cur, c), acc)
TogglePieces(l) == Toggle(l, 1, FALSE, FALSE, <<>>, <<>>)
ToggleStatements(l) == NonBlank(TogglePieces(l))

(* ------------------------------------------------------------------- laws *)
RECURSIVE JoinS(_)
JoinS(ps) == IF Len(ps) = 1 THEN ps[1] ELSE ps[1] \o <<"s">> \o JoinS(Tail(ps))

Rejoin(l)     == JoinS(Pieces(l)) = l
SameAsImpl(l) == TogglePieces(l) = Pieces(l)
\* a line made of well-formed literals only splits at its top-level semicolons
Count(l, c) == Cardinality({i \in 1..Len(l) : l[i] = c})
NoQuoteAllSplit(l) == (Count(l, "q") = 0 /\ Count(l, "d") = 0) => Len(Pieces(l)) = Count(l, "s") + 1

(* ------------------------------------------------------------- enumeration *)
RECURSIVE Str(_)
Str(p) == IF p = <<>> THEN "" ELSE Head(p) \o Str(Tail(p))

Lines == (UNION {[1..n -> Sym] : n \in 0..MaxLen})
         \cup (UNION {RandomSubset(SampleN, [1..n -> Sym]) : n \in (MaxLen + 1)..SampleLen})

VARIABLE line
Init == line \in Lines
Next == UNCHANGED line
Spec == Init /\ [][Next]_line

Laws == Rejoin(line) /\ SameAsImpl(line) /\ NoQuoteAllSplit(line)

Emit == PrintT(<<"CASE", ToJson([s |-> Str(line),
                                 expect |-> [i \in 1..Len(Statements(line)) |-> Str(Statements(line)[i])],
                                 pieces |-> Len(Pieces(line))])>>)
=============================================================================
