----------------------------- MODULE BenchVerify -----------------------------
(***************************************************************************)
(* C46: benchmark result validation and placeholder resolution.             *)
(*                                                                         *)
(* Part 1 — persisted results.  A result grid is persisted as a             *)
(* '|'-delimited file with a header (NULL and '' are both the empty field)  *)
(* and later read back as the EXPECTED rows; a fresh result is RENDERED      *)
(* (NULL shown as NULL) and compared cell by cell with the documented rule   *)
(*    expected NULL     accepts an empty actual cell,                       *)
(*    expected (empty)  accepts an empty or NULL actual cell,               *)
(*    otherwise the texts must be equal,                                    *)
(* after the row count and each row's column count were found equal (two    *)
(* empty results are equal).  Verify(P, R) is that rule.  TLC checks on the  *)
(* whole scope that the rule implies the property:                          *)
(*    AcceptsOwn        Verify(P, P)                                        *)
(*    RejectsDifferent  Verify(P, R) => same shape and every cell pair is    *)
(*                      equal or inside the NULL/empty class                *)
(*                      {NULL, '', 'NULL', '(empty)'}                       *)
(* and prints every <<P, R, Verify(P, R)>> as a case for the real           *)
(* SqlBenchmark::persist / run / verify.                                    *)
(*                                                                         *)
(* Part 2 (placeholders) is BenchResolve.tla.                               *)
(***************************************************************************)
EXTENDS Naturals, Sequences, FiniteSets, TLC, Json, Randomization

CONSTANTS SampleN

(* ------------------------------------------------------------ part 1 ---- *)
NullC == [k |-> "n", t |-> ""]
Str(s) == [k |-> "s", t |-> s]
Int(s) == [k |-> "i", t |-> s]
StrCells == {NullC} \cup {Str(s) : s \in {"", "NULL", "(empty)", "a", "b", "a|b", "q\"q", "U+00E9", " a", "it's"}}
IntCells == {NullC} \cup {Int(s) : s \in {"0", "12", "-1"}}
Flt(s) == [k |-> "f", t |-> s]
FltCells == {NullC} \cup {Flt(s) : s \in {"0.0", "12.0", "-1.5"}}        \* a DOUBLE column: 12.0 is shown as 12.0, not 12
Cells(kind) == IF kind = "s" THEN StrCells ELSE IF kind = "i" THEN IntCells ELSE FltCells

Render(c)   == IF c.k = "n" THEN "NULL" ELSE c.t          \* how a fresh result cell is shown
Stored(c)   == IF c.k = "n" THEN "" ELSE c.t              \* the field written to the '|' file
ReadBack(f) == IF f \in {"", "NULL"} THEN "NULL" ELSE f   \* empty field and NULL read as NULL
Expected(c) == ReadBack(Stored(c))

CellOk(e, a) == \/ (e = "NULL" /\ a = "")
                \/ e = a
                \/ (e = "(empty)" /\ a \in {"", "NULL"})

Verify(P, R) ==
  \/ (P = <<>> /\ R = <<>>)
  \/ /\ Len(P) = Len(R)
     /\ \A i \in 1..Len(P) : /\ Len(P[i]) = Len(R[i])
                             /\ \A j \in 1..Len(P[i]) : CellOk(Expected(P[i][j]), Render(R[i][j]))

NullClass == {"", "NULL", "(empty)"}
MayEquiv(p, r) == Render(p) = Render(r) \/ ({Render(p), Stored(p)} \cup {Render(r), Stored(r)}) \subseteq NullClass
SameShape(P, R) == Len(P) = Len(R) /\ \A i \in 1..Len(P) : Len(P[i]) = Len(R[i])

VARIABLES kinds, P, R, mut
vars == <<kinds, P, R, mut>>

RowSet(ks) == {r \in [1..Len(ks) -> StrCells \cup IntCells \cup FltCells] : \A j \in 1..Len(ks) : r[j] \in Cells(ks[j])}
Grids(ks, nr) == [1..nr -> RowSet(ks)]
Pick(S) == IF Cardinality(S) <= SampleN THEN S ELSE RandomSubset(SampleN, S)

\* mutations of P: identity, one cell replaced, a row dropped / duplicated, rows swapped, a column dropped / added
CellMut(G, ks) == (UNION {{[G EXCEPT ![i][j] = c] : i \in 1..Len(G), c \in Cells(ks[j])} : j \in 1..Len(ks)}) \ {G}
DropRow(G)  == {SubSeq(G, 1, i - 1) \o SubSeq(G, i + 1, Len(G)) : i \in 1..Len(G)}
DupRow(G)   == IF G = <<>> THEN {} ELSE {Append(G, G[Len(G)])}
SwapRows(G) == IF Len(G) = 2 /\ G[1] # G[2] THEN {<<G[2], G[1]>>} ELSE {}
DropCol(G)  == IF G # <<>> /\ Len(G[1]) = 2 THEN {[i \in 1..Len(G) |-> <<G[i][1]>>]} ELSE {}
\* the same numbers in a column of the other numeric type (1 vs 1.0): the comparison is textual, so it must be rejected
Retype(c)   == IF c.k = "i" THEN Flt(c.t \o ".0") ELSE IF c.k = "f" /\ c.t \in {"0.0", "12.0"} THEN Int(IF c.t = "0.0" THEN "0" ELSE "12") ELSE c
Whole(c)    == c.k = "n" \/ c.k = "i" \/ (c.k = "f" /\ c.t \in {"0.0", "12.0"})
RetypeCol(G, ks) == IF G # <<>> /\ ks[1] \in {"i", "f"} /\ (\A i \in 1..Len(G) : Whole(G[i][1])) /\ (\E i \in 1..Len(G) : G[i][1].k # "n")
                      THEN {[i \in 1..Len(G) |-> [G[i] EXCEPT ![1] = Retype(G[i][1])]]} ELSE {}
AddCol(G)   == IF G # <<>> /\ Len(G[1]) = 1 THEN {[i \in 1..Len(G) |-> <<G[i][1], Str("a")>>]} ELSE {}

Init == /\ kinds \in {<<"s">>, <<"i">>, <<"f">>, <<"s", "s">>, <<"s", "i">>, <<"f", "s">>}
        /\ \E nr \in 0..2 : P \in Pick(Grids(kinds, nr))
        /\ \/ (mut = "same" /\ R = P)
           \/ (mut = "cell" /\ R \in Pick(CellMut(P, kinds)))
           \/ (mut = "droprow" /\ R \in DropRow(P))
           \/ (mut = "duprow" /\ R \in DupRow(P))
           \/ (mut = "swap" /\ R \in SwapRows(P))
           \/ (mut = "dropcol" /\ R \in DropCol(P))
           \/ (mut = "addcol" /\ R \in AddCol(P))
           \/ (mut = "retype" /\ R \in RetypeCol(P, kinds))
Next == UNCHANGED vars
Spec == Init /\ [][Next]_vars

AcceptsOwn == Verify(P, P)
RejectsDifferent == Verify(P, R) => (SameShape(P, R) /\ \A i \in 1..Len(P) : \A j \in 1..Len(P[i]) : MayEquiv(P[i][j], R[i][j]))
\* the NULL/empty class is really used: some accepted pair differs
Emit == PrintT(<<"CASE", ToJson([kinds |-> kinds, P |-> P, R |-> R, mut |-> mut, accept |-> Verify(P, R)])>>)

=============================================================================
