------------------------------- MODULE NumLine -------------------------------
(***************************************************************************)
(* C47 - mixed-type comparisons are order-independent and exact for         *)
(* integers and decimals.                                                   *)
(*                                                                         *)
(* TLC has 32-bit integers and no rationals, so a number is an INDEX into   *)
(* one globally ordered constant list of K "interesting rationals" (type    *)
(* minima/maxima of every integer width, +-2^53 and neighbours, 2^63, 2^64-1,*)
(* decimal scale edges, 0 which floats also spell -0, ...).  The driver     *)
(* holds the list itself (exact decimal strings); the order of the list is  *)
(* the mathematical order, so the mathematically correct comparison of two  *)
(* values is the comparison of their indices.                               *)
(*   A value is <<type, index>> with index \in Rep[type] (the table of      *)
(*   which numbers a type represents exactly).                              *)
(*   Exact = the integer and decimal types: for them the engine's answer    *)
(*   must be Cmp; for the other types (floats, digit strings, ...) only the *)
(*   laws between engine answers are required.                              *)
(***************************************************************************)
EXTENDS Integers, Sequences, FiniteSets, TLC, Json

CONSTANTS K,            \* length of the global list
          Types,        \* set of type names
          Rep,          \* [Types -> SUBSET 1..K]
          Exact         \* \subseteq Types: integer and decimal types

ASSUME /\ \A t \in Types : Rep[t] \subseteq 1..K
       /\ Exact \subseteq Types

Ops == {"=", "<>", "<", "<=", ">", ">="}

Cmp(op, i, j) == CASE op = "="  -> i = j
                   [] op = "<>" -> i # j
                   [] op = "<"  -> i < j
                   [] op = "<=" -> i <= j
                   [] op = ">"  -> i > j
                   [] OTHER     -> i >= j

Mirror(op) == CASE op = "<" -> ">" [] op = "<=" -> ">=" [] op = ">" -> "<" [] op = ">=" -> "<=" [] OTHER -> op
Negate(op) == CASE op = "=" -> "<>" [] op = "<>" -> "=" [] op = "<" -> ">=" [] op = "<=" -> ">" [] op = ">" -> "<=" [] OTHER -> "<"

In(i, S) == \E j \in S : Cmp("=", i, j)                      \* x IN (list)
Join(A, B) == {<<i, j>> \in A \X B : Cmp("=", i, j)}         \* equi-join on the key

VARIABLES ta, tb
vars == <<ta, tb>>
Init == ta \in Types /\ tb \in Types
Next == UNCHANGED vars
Spec == Init /\ [][Next]_vars

A == Rep[ta]
B == Rep[tb]

(* the laws of the property, over every pair of values of the two types *)
MirrorLaw == \A i \in A, j \in B, op \in Ops : Cmp(op, i, j) = Cmp(Mirror(op), j, i)
NegateLaw == \A i \in A, j \in B, op \in Ops : Cmp(op, i, j) = ~Cmp(Negate(op), i, j)
Trichotomy == \A i \in A, j \in B : Cardinality({op \in {"<", "=", ">"} : Cmp(op, i, j)}) = 1
InLaw == \A i \in A : In(i, B) = (\E j \in B : Cmp("=", i, j)) /\ (In(i, B) = (i \in B))
JoinLaw == /\ Join(A, B) = {<<i, i>> : i \in A \cap B}
           /\ Join(B, A) = {<<p[2], p[1]>> : p \in Join(A, B)}

SetToSeq(S) == LET RECURSIVE F(_) 
                   F(T) == IF T = {} THEN <<>> ELSE LET m == CHOOSE x \in T : \A y \in T : x <= y IN <<m>> \o F(T \ {m})
               IN F(S)

Emit == PrintT(<<"CASE", ToJson([ta |-> ta, tb |-> tb, exact |-> (ta \in Exact /\ tb \in Exact),
                                a |-> SetToSeq(A), b |-> SetToSeq(B), common |-> Cardinality(A \cap B)])>>)
=============================================================================
