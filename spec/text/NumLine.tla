------------------------------- MODULE NumLine -------------------------------
(***************************************************************************)
(* C47 - mixed-type comparisons are order-independent and exact for         *)
(* integers and decimals.                                                   *)
(*                                                                         *)
(* TLC has 32-bit integers and no rationals, so a number is an INDEX into   *)
(* one globally ordered constant list of K "interesting rationals" (type    *)
(* minima/maxima of every integer width, +-2^53 and neighbours, 2^63, 2^64-1,*)
(* decimal scale edges, 0 which floats also spell -0, ...).  The driver     *)
(* holds the list itself (exact decimal strings); the order of the list is  *)
(* the mathematical order, so the mathematically correct comparison of two  *)
(* values is the comparison of their indices.                               *)
(*   A value is <<type, index>> with index \in Rep[type] (the table of      *)
(*   which numbers a type represents exactly).                              *)
(*   Exact = the integer and decimal types: for them the engine's answer    *)
(*   must be Cmp; for the other types (floats, digit strings, ...) only the *)
(*   laws between engine answers are required.                              *)
(***************************************************************************)
EXTENDS Integers, Sequences, FiniteSets, TLC, Json

CONSTANTS K,            \* length of the global list
          Types,        \* set of type names
          Rep,          \* [Types -> SUBSET 1..K]
          Exact         \* \subseteq Types: integer and decimal types

ASSUME /\ \A t \in Types : Rep[t] \subseteq 1..K
       /\ Exact \subseteq Types

Ops == {"=", "<>", "<", "<=", ">", ">="}

Cmp(op, i, j) == CASE op = "="  -> i = j
                   [] op = "<>" -> i # j
                   [] op = "<"  -> i < j
                   [] op = "<=" -> i <= j
                   [] op = ">"  -> i > j
                   [] OTHER     -> i >= j

Mirror(op) == CASE op = "<" -> ">" [] op = "<=" -> ">=" [] op = ">" -> "<" [] op = ">=" -> "<=" [] OTHER -> op
Negate(op) == CASE op = "=" -> "<>" [] op = "<>" -> "=" [] op = "<" -> ">=" [] op = "<=" -> ">" [] op = ">" -> "<=" [] OTHER -> "<"

In(i, S) == \E j \in S : Cmp("=", i, j)                      \* x IN (list)
Join(A, B) == {<<i, j>> \in A \X B : Cmp("=", i, j)}         \* equi-join on the key

VARIABLES ta, tb
vars == <<ta, tb>>
Init == ta \in Types /\ tb \in Types
Next == UNCHANGED vars
Spec == Init /\ [][Next]_vars

A == Rep[ta]
B == Rep[tb]

(* three-valued comparison: index 0 is NULL *)
Cmp3(op, i, j) == IF i = 0 \/ j = 0 THEN "N" ELSE IF Cmp(op, i, j) THEN "T" ELSE "F"
Not3(x) == CASE x = "T" -> "F" [] x = "F" -> "T" [] OTHER -> "N"
Or3(X) == IF "T" \in X THEN "T" ELSE IF "N" \in X THEN "N" ELSE "F"       \* OR over a set of truth values
In3(i, S) == Or3({Cmp3("=", i, j) : j \in S})                             \* x IN (list), list may contain NULL
NotDistinct(i, j) == IF i = 0 /\ j = 0 THEN TRUE ELSE IF i = 0 \/ j = 0 THEN FALSE ELSE i = j
A0 == A \cup {0}
B0 == B \cup {0}

(* the laws of the property, over every pair of values (NULL included) of the two types *)
MirrorLaw == \A i \in A0, j \in B0, op \in Ops : Cmp3(op, i, j) = Cmp3(Mirror(op), j, i)
NegateLaw == \A i \in A0, j \in B0, op \in Ops : Cmp3(op, i, j) = Not3(Cmp3(Negate(op), i, j))
Trichotomy == \A i \in A, j \in B : Cardinality({op \in {"<", "=", ">"} : Cmp(op, i, j)}) = 1
InLaw == /\ \A i \in A : In(i, B) = (\E j \in B : Cmp("=", i, j)) /\ (In(i, B) = (i \in B))
         /\ \A i \in A0 : /\ In3(i, B) = (IF i = 0 THEN "N" ELSE IF i \in B THEN "T" ELSE "F")
                           /\ In3(i, B0) = (IF i # 0 /\ i \in B THEN "T" ELSE "N")      \* a NULL entry turns "no" into "unknown"
                           /\ In3(i, {}) = "F"
JoinLaw == /\ Join(A, B) = {<<i, i>> : i \in A \cap B}
           /\ Join(B, A) = {<<p[2], p[1]>> : p \in Join(A, B)}
           /\ {<<i, j>> \in A0 \X B0 : Cmp3("=", i, j) = "T"} = Join(A, B)              \* NULL keys never join ...
           /\ {<<i, j>> \in A0 \X B0 : NotDistinct(i, j)} = Join(A, B) \cup {<<0, 0>>}   \* ... except under IS NOT DISTINCT FROM
BetweenLaw == \A i \in A0, j \in B0 :                                   \* x BETWEEN y AND y is x = y
                 (IF Cmp3(">=", i, j) = "T" /\ Cmp3("<=", i, j) = "T" THEN "T"
                  ELSE IF Cmp3(">=", i, j) = "F" \/ Cmp3("<=", i, j) = "F" THEN "F" ELSE "N") = Cmp3("=", i, j)

SetToSeq(S) == LET RECURSIVE F(_) 
                   F(T) == IF T = {} THEN <<>> ELSE LET m == CHOOSE x \in T : \A y \in T : x <= y IN <<m>> \o F(T \ {m})
               IN F(S)

Emit == PrintT(<<"CASE", ToJson([ta |-> ta, tb |-> tb, exact |-> (ta \in Exact /\ tb \in Exact),
                                a |-> SetToSeq(A), b |-> SetToSeq(B), common |-> Cardinality(A \cap B)])>>)
=============================================================================
