---------------------------- MODULE BenchResolve -----------------------------
(***************************************************************************)
(* C46, part 2 — placeholders in benchmark files.  ${K}, ${K:-d} and        *)
(* ${K:-d|T|F}: the value of K is the explicit (caller) value if any, else  *)
(* the environment value if any, else the default, else an error; the       *)
(* boolean form selects T iff the value is "true" (any case), F otherwise,   *)
(* and then resolves the placeholders of the selected branch by the same     *)
(* precedence (nested defaults).                                            *)
(***************************************************************************)
EXTENDS Naturals, Sequences, FiniteSets, TLC, Json, Randomization

CONSTANTS TemplN

(* ------------------------------------------------------------ part 2 ---- *)
Keys == {"VFA", "VFB"}
EVals == {"true", "v", "False"}        \* values a caller may pass explicitly
NVals == {"TRUE", "false", "w"}        \* values the environment may hold (disjoint, so precedence is observable)
None == "<none>"
Opt(S) == S \cup {None}

\* simple items: literal text, or a variable with an optional default
SimpleItems == [kind : {"lit"}, text : {"x", "-"}] \cup [kind : {"var"}, key : Keys, dflt : Opt({"d", "true"})]
Branches == {<<>>} \cup {<<it>> : it \in SimpleItems} \cup {<<[kind |-> "lit", text |-> "x"], it>> : it \in [kind : {"var"}, key : Keys, dflt : Opt({"d"})]}
\* the false branch of the boolean form extends to the first "}" of the text, so it cannot hold a
\* placeholder (the documented examples only nest placeholders in the true branch): literals only
LitBranches == {<<[kind |-> "lit", text |-> "x"]>>, <<[kind |-> "lit", text |-> "-"]>>,
                <<[kind |-> "lit", text |-> "x"], [kind |-> "lit", text |-> "-"]>>}
TfItems == [kind : {"tf"}, key : Keys, dflt : Opt({"true", "false", "d"}), tb : Branches \ {<<>>}, fb : LitBranches]

Lookup(key, explicit, env) ==
  IF explicit[key] # None THEN explicit[key] ELSE env[key]      \* explicit beats environment

IsTrue(v) == v \in {"true", "TRUE", "True"}

ResolveSimple(it, explicit, env) ==
  IF it.kind = "lit" THEN it.text
  ELSE LET v == Lookup(it.key, explicit, env) IN
       IF v # None THEN v ELSE IF it.dflt # None THEN it.dflt ELSE "<ERR>"

RECURSIVE ResolveBranch(_, _, _)
ResolveBranch(b, explicit, env) ==
  IF b = <<>> THEN ""
  ELSE LET h == ResolveSimple(Head(b), explicit, env)
           t == ResolveBranch(Tail(b), explicit, env)
       IN IF h = "<ERR>" \/ t = "<ERR>" THEN "<ERR>" ELSE h \o t

ResolveItem(it, explicit, env) ==
  IF it.kind = "tf" THEN
    LET v0 == Lookup(it.key, explicit, env)
        v == IF v0 # None THEN v0 ELSE it.dflt
    IN IF v = None THEN "<ERR>"
       ELSE ResolveBranch(IF IsTrue(v) THEN it.tb ELSE it.fb, explicit, env)
  ELSE ResolveSimple(it, explicit, env)

RECURSIVE Resolve(_, _, _)
Resolve(tpl, explicit, env) ==
  IF tpl = <<>> THEN ""
  ELSE LET h == ResolveItem(Head(tpl), explicit, env)
           t == Resolve(Tail(tpl), explicit, env)
       IN IF h = "<ERR>" \/ t = "<ERR>" THEN "<ERR>" ELSE h \o t

VARIABLES tpl, explicit, env
pvars == <<tpl, explicit, env>>
EMaps == [Keys -> Opt(EVals)]
NMaps == [Keys -> Opt(NVals)]
Templates == {<<a>> : a \in SimpleItems \cup TfItems} \cup {<<a, [kind |-> "lit", text |-> "-"], b>> : a \in TfItems, b \in SimpleItems}
InitP == /\ tpl \in RandomSubset(TemplN, Templates)
         /\ explicit \in RandomSubset(6, EMaps)
         /\ env \in RandomSubset(6, NMaps)
NextP == UNCHANGED pvars
SpecP == InitP /\ [][NextP]_pvars

\* the precedence, stated directly for a single variable
Precedence == \A k \in Keys :
  LET it == [kind |-> "var", key |-> k, dflt |-> "d"] IN
  /\ explicit[k] # None => ResolveSimple(it, explicit, env) = explicit[k]
  /\ (explicit[k] = None /\ env[k] # None) => ResolveSimple(it, explicit, env) = env[k]
  /\ (explicit[k] = None /\ env[k] = None) => ResolveSimple(it, explicit, env) = "d"
EmitP == PrintT(<<"CASE", ToJson([tpl |-> tpl, explicit |-> explicit, env |-> env, expect |-> Resolve(tpl, explicit, env)])>>)
=============================================================================
