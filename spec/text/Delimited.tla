------------------------------ MODULE Delimited ------------------------------
(***************************************************************************)
(* C51 (second half): "its CSV, TSV, JSON and NDJSON output formats encode  *)
(* every result row so that parsing the output yields the query's values". *)
(*                                                                         *)
(* This module is the READER's side of the four formats: decoders from a    *)
(* character sequence to a grid, and the acceptance predicate               *)
(*        Accept(run)  ==  Decode(run.fmt, run.text) = run.grid             *)
(* modulo exactly the conflations the format itself forces:                 *)
(*   csv / tsv : the format has no NULL; NULL and the empty string are      *)
(*               both the empty field (every other cell is exact, as text); *)
(*               a blank line is not a record (as CSV readers treat it);    *)
(*   json/ndjson: none.  NULL is an absent key or `null`, the empty string  *)
(*               is "", a number is a number token, a string is a string.   *)
(*   all       : an empty output is the empty result (the client prints     *)
(*               nothing, not even a header, for a result without rows).    *)
(* Any quoting/escaping style that these decoders read back is accepted.    *)
(*                                                                         *)
(* Characters are opaque one-symbol strings; the driver passes non-ASCII    *)
(* characters as symbols such as "U+00E9".                                  *)
(* A cell is [k |-> "n" | "s" | "i", c |-> characters] (NULL, string,       *)
(* integer in canonical decimal).                                           *)
(***************************************************************************)
EXTENDS Naturals, Sequences, FiniteSets, TLC

Null == [k |-> "n", c |-> <<>>]
QT == "\""
NL == "\n"
TAB == "\t"
BS == "\\"
Fail == [ok |-> FALSE, pos |-> 0, v |-> <<>>]
Digits == {"0", "1", "2", "3", "4", "5", "6", "7", "8", "9"}

(* ============================================================ CSV / TSV == *)
\* st: "start" at the start of a field, "unq" inside an unquoted field,
\*     "q" inside a quoted field, "qend" just after a quote inside a quoted field
RECURSIVE Csv(_, _, _, _, _, _, _)
Csv(t, i, st, f, rec, recs, sep) ==
  IF i > Len(t) THEN
    CASE st = "start" /\ rec = <<>> -> [ok |-> TRUE, recs |-> recs]
      [] st = "q"                    -> [ok |-> FALSE, recs |-> <<>>]      \* unterminated quote
      [] OTHER                       -> [ok |-> TRUE, recs |-> Append(recs, Append(rec, f))]
  ELSE LET c == t[i] IN
    CASE st = "start" /\ c = QT -> Csv(t, i + 1, "q", <<>>, rec, recs, sep)
      [] st \in {"start", "unq", "qend"} /\ c = sep ->
           Csv(t, i + 1, "start", <<>>, Append(rec, f), recs, sep)
      [] st \in {"start", "unq", "qend"} /\ c = NL ->
           IF st = "start" /\ rec = <<>>
             THEN Csv(t, i + 1, "start", <<>>, <<>>, recs, sep)             \* blank line: no record
             ELSE Csv(t, i + 1, "start", <<>>, <<>>, Append(recs, Append(rec, f)), sep)
      [] st = "q" /\ c = QT    -> Csv(t, i + 1, "qend", f, rec, recs, sep)
      [] st = "qend" /\ c = QT -> Csv(t, i + 1, "q", Append(f, QT), rec, recs, sep)   \* doubled quote
      [] st = "qend" /\ c \notin {QT, sep, NL} -> [ok |-> FALSE, recs |-> <<>>]   \* text after closing quote
      [] st = "q" /\ c # QT    -> Csv(t, i + 1, "q", Append(f, c), rec, recs, sep)
      [] st = "unq" /\ c = QT  -> [ok |-> FALSE, recs |-> <<>>]            \* quote inside bare field
      [] OTHER                 -> Csv(t, i + 1, "unq", Append(f, c), rec, recs, sep)

CsvDecode(t, sep) == Csv(t, 1, "start", <<>>, <<>>, <<>>, sep)

\* what a CSV reader can recover of a cell: its text; NULL is the empty field
CsvCell(cell) == cell.c
CsvRows(rows) == [r \in 1..Len(rows) |-> [j \in 1..Len(rows[r]) |-> CsvCell(rows[r][j])]]

CsvAccept(text, sep, header, names, rows) ==
  LET d == CsvDecode(text, sep) IN
  /\ d.ok
  /\ IF rows = <<>> THEN d.recs = <<>> \/ (header /\ d.recs = <<names>>)
     ELSE IF header THEN Len(d.recs) >= 1 /\ d.recs[1] = names /\ Tail(d.recs) = CsvRows(rows)
     ELSE d.recs = CsvRows(rows)

(* ================================================================= JSON == *)
RECURSIVE SkipWs(_, _)
SkipWs(t, i) == IF i <= Len(t) /\ t[i] \in {" ", NL, TAB, "\r"} THEN SkipWs(t, i + 1) ELSE i

RECURSIVE PStr(_, _, _)
PStr(t, i, acc) ==
  IF i > Len(t) THEN Fail
  ELSE LET c == t[i] IN
    IF c = QT THEN [ok |-> TRUE, pos |-> i + 1, v |-> acc]
    ELSE IF c = BS THEN
      IF i + 1 > Len(t) THEN Fail
      ELSE LET e == t[i + 1] IN
        CASE e = "n" -> PStr(t, i + 2, Append(acc, NL))
          [] e = "t" -> PStr(t, i + 2, Append(acc, TAB))
          [] e = "r" -> PStr(t, i + 2, Append(acc, "\r"))
          [] e = QT  -> PStr(t, i + 2, Append(acc, QT))
          [] e = BS  -> PStr(t, i + 2, Append(acc, BS))
          [] e = "/" -> PStr(t, i + 2, Append(acc, "/"))
          [] OTHER   -> Fail                      \* \u, \b, \f: outside the modelled alphabet
    ELSE IF c \in {NL, TAB, "\r"} THEN Fail        \* raw control character inside a JSON string
    ELSE PStr(t, i + 1, Append(acc, c))

RECURSIVE PNum(_, _, _)
PNum(t, i, acc) ==
  IF i <= Len(t) /\ (t[i] \in Digits \/ (acc = <<>> /\ t[i] = "-"))
    THEN PNum(t, i + 1, Append(acc, t[i]))
    ELSE IF acc = <<>> \/ acc = <<"-">> THEN Fail ELSE [ok |-> TRUE, pos |-> i, v |-> acc]

IsAt(t, i, w) == i + Len(w) - 1 <= Len(t) /\ SubSeq(t, i, i + Len(w) - 1) = w

\* a scalar value -> a cell
PValue(t, i) ==
  IF i > Len(t) THEN Fail
  ELSE IF t[i] = QT THEN
         LET s == PStr(t, i + 1, <<>>) IN
         IF s.ok THEN [ok |-> TRUE, pos |-> s.pos, v |-> [k |-> "s", c |-> s.v]] ELSE Fail
  ELSE IF IsAt(t, i, <<"n", "u", "l", "l">>) THEN [ok |-> TRUE, pos |-> i + 4, v |-> Null]
  ELSE LET n == PNum(t, i, <<>>) IN
         IF n.ok THEN [ok |-> TRUE, pos |-> n.pos, v |-> [k |-> "i", c |-> n.v]] ELSE Fail

\* "key" : value
PPair(t, i) ==
  IF i > Len(t) \/ t[i] # QT THEN Fail
  ELSE LET k == PStr(t, i + 1, <<>>) IN
    IF ~k.ok THEN Fail
    ELSE LET j == SkipWs(t, k.pos) IN
      IF j > Len(t) \/ t[j] # ":" THEN Fail
      ELSE LET val == PValue(t, SkipWs(t, j + 1)) IN
        IF ~val.ok THEN Fail
        ELSE [ok |-> TRUE, pos |-> val.pos, v |-> [key |-> k.v, val |-> val.v]]

\* after "{": pairs separated by commas, up to "}"
RECURSIVE PPairs(_, _, _)
PPairs(t, i, acc) ==
  LET p == PPair(t, SkipWs(t, i)) IN
  IF ~p.ok THEN Fail
  ELSE LET j == SkipWs(t, p.pos) IN
    IF j > Len(t) THEN Fail
    ELSE IF t[j] = "," THEN PPairs(t, j + 1, Append(acc, p.v))
    ELSE IF t[j] = "}" THEN [ok |-> TRUE, pos |-> j + 1, v |-> Append(acc, p.v)]
    ELSE Fail

PObject(t, i) ==
  IF i > Len(t) \/ t[i] # "{" THEN Fail
  ELSE LET j == SkipWs(t, i + 1) IN
    IF j <= Len(t) /\ t[j] = "}" THEN [ok |-> TRUE, pos |-> j + 1, v |-> <<>>]
    ELSE PPairs(t, i + 1, <<>>)

\* objects separated by `sepc` (","), closed by `close` ("]"); or, for NDJSON, juxtaposed
RECURSIVE PObjects(_, _, _)
PObjects(t, i, acc) ==
  LET o == PObject(t, SkipWs(t, i)) IN
  IF ~o.ok THEN Fail
  ELSE LET j == SkipWs(t, o.pos) IN
    IF j > Len(t) THEN Fail
    ELSE IF t[j] = "," THEN PObjects(t, j + 1, Append(acc, o.v))
    ELSE IF t[j] = "]" THEN [ok |-> TRUE, pos |-> j + 1, v |-> Append(acc, o.v)]
    ELSE Fail

JsonArrayDecode(t) ==
  LET i == SkipWs(t, 1) IN
  IF i > Len(t) \/ t[i] # "[" THEN Fail
  ELSE LET j == SkipWs(t, i + 1) IN
    IF j <= Len(t) /\ t[j] = "]"
      THEN (IF SkipWs(t, j + 1) > Len(t) THEN [ok |-> TRUE, pos |-> j + 1, v |-> <<>>] ELSE Fail)
      ELSE LET a == PObjects(t, i + 1, <<>>) IN
           IF a.ok /\ SkipWs(t, a.pos) > Len(t) THEN a ELSE Fail

\* NDJSON: one object per line
RECURSIVE PLines(_, _, _)
PLines(t, i, acc) ==
  LET j == SkipWs(t, i) IN
  IF j > Len(t) THEN [ok |-> TRUE, pos |-> j, v |-> acc]
  ELSE LET o == PObject(t, j) IN
    IF ~o.ok THEN Fail
    ELSE IF o.pos <= Len(t) /\ t[o.pos] # NL THEN Fail       \* one object per line
    ELSE PLines(t, o.pos, Append(acc, o.v))
NdJsonDecode(t) == PLines(t, 1, <<>>)

\* an object read against the column names: absent key = NULL; unknown or duplicate keys are wrong
ObjOk(pairs, names) ==
  /\ \A p \in 1..Len(pairs) : \E j \in 1..Len(names) : names[j] = pairs[p].key
  /\ \A p, q \in 1..Len(pairs) : pairs[p].key = pairs[q].key => p = q
ObjRow(pairs, names) ==
  [j \in 1..Len(names) |->
     IF \E p \in 1..Len(pairs) : pairs[p].key = names[j]
       THEN pairs[CHOOSE p \in 1..Len(pairs) : pairs[p].key = names[j]].val
       ELSE Null]

JsonAccept(d, names, rows) ==
  /\ d.ok
  /\ Len(d.v) = Len(rows)
  /\ \A r \in 1..Len(rows) : ObjOk(d.v[r], names) /\ ObjRow(d.v[r], names) = rows[r]

(* ============================================================== Accept ==== *)
\* run = [fmt, header, names, rows, text]
Accept(run) ==
  CASE run.fmt \in {"csv", "automatic"} -> CsvAccept(run.text, ",", run.header, run.names, run.rows)
    [] run.fmt = "tsv"    -> CsvAccept(run.text, TAB, run.header, run.names, run.rows)
    [] run.fmt = "psv"    -> CsvAccept(run.text, "|", run.header, run.names, run.rows)     \* C46: persisted results
    [] run.fmt = "json"   -> (run.rows = <<>> /\ run.text = <<>>) \/ JsonAccept(JsonArrayDecode(run.text), run.names, run.rows)
    [] run.fmt = "ndjson" -> (run.rows = <<>> /\ run.text = <<>>) \/ JsonAccept(NdJsonDecode(run.text), run.names, run.rows)

(* ====================================================== reference writers == *)
\* Used only to check the decoders at specification level (DelimitedGen): two CSV writers
\* (minimal quoting, always quoting) and a JSON writer.  The implementation may use any other
\* style the decoders read back.
RECURSIVE Cat(_)
Cat(ss) == IF ss = <<>> THEN <<>> ELSE Head(ss) \o Cat(Tail(ss))
RECURSIVE Sep(_, _)
Sep(ss, s) == IF Len(ss) <= 1 THEN Cat(ss) ELSE Head(ss) \o s \o Sep(Tail(ss), s)

RECURSIVE Dbl(_, _)
Dbl(f, q) == IF f = <<>> THEN <<>> ELSE (IF Head(f) = q THEN <<q, q>> ELSE <<Head(f)>>) \o Dbl(Tail(f), q)
NeedsQuote(f, sep, alone) == (\E i \in 1..Len(f) : f[i] \in {sep, QT, NL, "\r"}) \/ (alone /\ f = <<>>)
CsvField(f, sep, alone, always) ==
  IF always \/ NeedsQuote(f, sep, alone) THEN <<QT>> \o Dbl(f, QT) \o <<QT>> ELSE f
CsvRecord(fs, sep, always) ==
  Sep([j \in 1..Len(fs) |-> CsvField(fs[j], sep, Len(fs) = 1, always)], <<sep>>) \o <<NL>>
CsvWrite(header, names, rows, sep, always) ==
  IF rows = <<>> THEN <<>>
  ELSE (IF header THEN CsvRecord(names, sep, always) ELSE <<>>)
       \o Cat([r \in 1..Len(rows) |-> CsvRecord(CsvRows(rows)[r], sep, always)])

RECURSIVE JEsc(_)
JEsc(f) == IF f = <<>> THEN <<>>
           ELSE (CASE Head(f) = QT -> <<BS, QT>> [] Head(f) = BS -> <<BS, BS>> [] Head(f) = NL -> <<BS, "n">>
                   [] Head(f) = TAB -> <<BS, "t">> [] OTHER -> <<Head(f)>>) \o JEsc(Tail(f))
JStr(f) == <<QT>> \o JEsc(f) \o <<QT>>
JCell(cell) == CASE cell.k = "n" -> <<"n", "u", "l", "l">> [] cell.k = "s" -> JStr(cell.c) [] OTHER -> cell.c
\* explicitNull = FALSE leaves NULL cells out (as arrow's writer does), TRUE writes `null`
JObj(names, row, explicitNull) ==
  LET keep == SelectSeq([j \in 1..Len(names) |-> j], LAMBDA j : explicitNull \/ row[j].k # "n") IN
  <<"{">> \o Sep([x \in 1..Len(keep) |-> JStr(names[keep[x]]) \o <<":">> \o JCell(row[keep[x]])], <<",">>) \o <<"}">>
JsonWrite(names, rows, explicitNull) ==
  IF rows = <<>> THEN <<>>
  ELSE <<"[">> \o Sep([r \in 1..Len(rows) |-> JObj(names, rows[r], explicitNull)], <<",">>) \o <<"]", NL>>
NdJsonWrite(names, rows, explicitNull) ==
  Cat([r \in 1..Len(rows) |-> JObj(names, rows[r], explicitNull) \o <<NL>>])
=============================================================================
