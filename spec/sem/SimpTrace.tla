------------------------------ MODULE SimpTrace ------------------------------
(***************************************************************************)
(* C04, trace validation in semantic form (B2): every recorded call of the  *)
(* real expression simplifier                                               *)
(*    ev = [ev, tbl, before, after, nonnull, guar, filt]                    *)
(* is accepted iff, for EVERY row of the exhaustive small-scope table that  *)
(* is in the call's scope (columns declared non-nullable hold no NULL, and  *)
(* the row satisfies the column guarantees given to the simplifier),        *)
(*    Eval(before, row) # ERR  =>  Eval(after, row) = Eval(before, row)     *)
(* under the reference semantics Expr.Eval.  A rejected event is printed    *)
(* with its witness rows; the driver confirms a witness by evaluating both  *)
(* expressions in the engine before anything is reported (DESIGN.md §6).    *)
(* The trace (NDJSON, one event per line) is read from IOEnv.TRACE.         *)
(* State graph: root -> one state per chunk of events -> one state per      *)
(* event, so TLC's workers validate the events in parallel.                 *)
(***************************************************************************)
EXTENDS ExprScope, TLC, Json, IOUtils, SequencesExt

Events == ndJsonDeserialize(IOEnv.TRACE)
NEv == Len(Events)

\* a guarantee g = [col, nk, lo, hi]: column col is "null" (always NULL), "maybe" (NULL or within lo..hi) or
\* "notnull" (not NULL and within lo..hi); booleans are 0/1
Sat(row, g) ==
  LET v == row[g.col] IN
  CASE g.nk = "null" -> IsNull(v)
    [] g.nk = "maybe" -> IsNull(v) \/ (g.lo <= v.v /\ v.v <= g.hi)
    [] OTHER -> ~IsNull(v) /\ g.lo <= v.v /\ v.v <= g.hi
InScope(ev, row) ==
  /\ \A c \in 1..4 : ev.nonnull[c] => ~IsNull(row[c])
  /\ \A j \in 1..Len(ev.guar) : Sat(row, ev.guar[j])
\* row r is a witness against the event
Witness(ev, r) ==
  LET row == RowAt(ev.tbl, r) IN
  /\ InScope(ev, row)
  /\ LET b == Eval(ev.before, row)
         a == Eval(ev.after, row) IN
     \* ev.filt: the call rewrites the conjuncts of a filter predicate: only "the row is kept" (TRUE) must be preserved
     ~IsErr(b) /\ (IF ev.filt THEN IsTrue(a) # IsTrue(b) ELSE a # b)
Scope(ev) == {r \in 1..NRowsOf(ev.tbl) : InScope(ev, RowAt(ev.tbl, r))}

CHUNK == 20
VARIABLES g, i
vars == <<g, i>>
Init == g = 0 /\ i = 0
Next ==
  \/ /\ g = 0 /\ i = 0
     /\ g' \in 1..((NEv + CHUNK - 1) \div CHUNK) /\ i' = 0
  \/ /\ g > 0 /\ i = 0
     /\ i' \in ((g - 1) * CHUNK + 1)..(IF g * CHUNK > NEv THEN NEv ELSE g * CHUNK) /\ g' = g

\* the acceptance verdict of one event (always TRUE as an invariant: every event is judged, rejections are printed)
Accept ==
  IF i = 0 THEN TRUE
  ELSE LET ev == Events[i]
           bad == {r \in 1..NRowsOf(ev.tbl) : Witness(ev, r)} IN
       PrintT(<<"CASE", ToJson([ev |-> ev.ev, accepted |-> bad = {}, scope |-> Cardinality(Scope(ev)),
                                witnesses |-> SetToSortSeq(bad, <)])>>)
=============================================================================
