------------------------------ MODULE ExprGen ------------------------------
(***************************************************************************)
(* Expression generator for C33 / C04: typed scalar expression ASTs         *)
(* (spec/lib/Expr.tla, incl. like / casex / cast / tbin / tun) over an      *)
(* EXHAUSTIVE small-scope table, each printed with the value the reference  *)
(* semantics Expr.Eval assigns to it on EVERY row of the table.             *)
(*                                                                         *)
(* Tables (TBL):                                                            *)
(*  "A": c1 BIGINT, c2 BIGINT over {NULL,-1,0,1,2}; c3 VARCHAR over         *)
(*       {NULL,a,ab,b}; c4 BOOLEAN over {NULL,T,F}      -> 300 rows         *)
(*  "B": c1 TINYINT, c2 TINYINT over {NULL,-128,-1,0,1,127}; c3 SMALLINT    *)
(*       over {NULL,-32768,1,32767}; c4 INT over {NULL,1,300} -> 432 rows   *)
(* Families (PLAN[p].fam): "rand" random typed trees of depth EDEPTH; "inlist",  *)
(* "case", "guard", "like" enumerate the shapes that select each evaluation *)
(* strategy of the engine (index space sampled by SEED when N < size).      *)
(* One TLC state = one case (the root state prints the tables).            *)
(* Randomness is threaded explicitly (see gen/PlanGen.tla).                 *)
(***************************************************************************)
EXTENDS ExprScope, TLC, Json, SequencesExt

CONSTANTS SEED,   \* run seed (< 46337)
          PLAN    \* sequence of [fam |-> family, tbl |-> "A"|"B", n |-> number of cases, d |-> expression depth]
                  \* (defined by a generated MC module: TLC configuration files cannot hold sequences)

M == 46337
Mix(sd, k) == (sd * 31321 + k * 7919 + 12345) % M
Rnd(sd, n) == (Mix(sd, 77) % n)                    \* 0..n-1
PickSeq(seq, sd) == seq[Rnd(sd, Len(seq)) + 1]
Chance(p, sd) == Rnd(sd, 100) < p
SetSeq(set) == SetToSortSeq(set, <)

\* non-NULL literal values per kind (a superset of the column domain)
LitVals(k) ==
  CASE k = "i" -> <<I(0 - 2), I(0 - 1), I(0), I(1), I(2), I(3)>>
    [] k = "s" -> <<S(1), S(2), S(3)>>
    [] k = "b" -> <<TrueV, FalseV>>
    [] k = "i8" -> <<I(0 - 128), I(0 - 127), I(0 - 1), I(0), I(1), I(2), I(126), I(127)>>
    [] k = "i16" -> <<I(0 - 32768), I(0 - 1), I(0), I(1), I(2), I(32767)>>
    [] k = "i32" -> <<I(0 - 1), I(0), I(1), I(299), I(300)>>
\* wider literal pool for long IN lists
ListVals(k) ==
  CASE k = "i" -> [j \in 1..41 |-> I(j - 21)]
    [] k = "i8" -> [j \in 1..41 |-> I(IF j = 1 THEN 0 - 128 ELSE IF j = 41 THEN 127 ELSE j - 21)]
    [] k = "i16" -> [j \in 1..41 |-> I(IF j = 1 THEN 0 - 32768 ELSE IF j = 41 THEN 32767 ELSE j - 21)]
    [] k = "i32" -> [j \in 1..41 |-> I(IF j = 41 THEN 300 ELSE j - 21)]
    [] OTHER -> LitVals(k)

IsIntK(k) == k \in {"i", "i8", "i16", "i32"}

(* ---------------- leaves ---------------- *)
ColsOf(sch, k) == {c \in 1..Len(sch) : sch[c] = k}
PickCol(sch, k, sd) == PickSeq(SetSeq(ColsOf(sch, k)), sd)
LitOf(k, sd) == LitK(IF Chance(88, sd) THEN PickSeq(LitVals(k), Mix(sd, 1)) ELSE Null, k)
Leaf(k, sch, sd) ==
  IF ColsOf(sch, k) # {} /\ Chance(75, Mix(sd, 3)) THEN Col(PickCol(sch, k, Mix(sd, 4)))
  ELSE LitOf(k, Mix(sd, 5))
KindsIn(sch) == {sch[c] : c \in 1..Len(sch)}
IntKindsOf(sch) == IF sch = SchA THEN <<"i">> ELSE <<"i8", "i16", "i32", "i">>
\* kinds a comparison / IN / CASE operand may have
OperandKinds(sch) == IntKindsOf(sch) \o (IF "s" \in KindsIn(sch) THEN <<"s", "s">> ELSE <<>>) \o <<"b">>

ArithE(k, f, a, b) == IF k = "i" THEN Bin(f, a, b) ELSE TBin(k, f, a, b)
UnArithE(k, f, a) == IF k = "i" THEN Un(f, a) ELSE TUnE(k, f, a)
\* products are generated only where the checked width (or the tiny domain of table A) bounds them
MulOK(k, sch) == k \in {"i8", "i16"} \/ (k = "i" /\ sch = SchA)
PatLit(i) == LitK(PatV(i), "p")

ListSizes == <<1, 1, 2, 2, 3, 3, 4, 5, 8, 9, 16, 17, 18, 32, 33, 40>>

(* ---------------- random typed trees ---------------- *)
RECURSIVE GenX(_, _, _, _)
\* an IN list of n literals of kind k (about one in five lists has NULLs; optionally one column element)
GenList(k, n, sch, sd) ==
  LET withNull == Chance(25, Mix(sd, 1))
      dyn == Chance(12, Mix(sd, 2)) /\ ColsOf(sch, k) # {}
      pool == IF n > 5 THEN ListVals(k) ELSE LitVals(k) IN
  [j \in 1..n |->
     IF dyn /\ j = (Rnd(Mix(sd, 3), n) + 1) THEN Col(PickCol(sch, k, Mix(sd, 4)))
     ELSE IF withNull /\ Chance(IF n > 5 THEN 12 ELSE 35, Mix(sd, 100 + j)) THEN LitK(Null, k)
     ELSE LitK(PickSeq(IF Chance(25, Mix(sd, 300 + j)) THEN Tail(ValsOf(k)) ELSE pool, Mix(sd, 200 + j)), k)]

GenCaseE(k, d, sch, sd) ==
  LET nw == PickSeq(<<1, 1, 1, 2, 3>>, Mix(sd, 1))
      whens == [j \in 1..nw |-> <<GenX("b", d - 1, sch, Mix(sd, 10 + j)),
                                  IF Chance(35, Mix(sd, 20 + j)) THEN LitOf(k, Mix(sd, 30 + j)) ELSE GenX(k, d - 1, sch, Mix(sd, 40 + j))>>]
      els == IF Chance(40, Mix(sd, 2)) THEN LitK(Null, k)
             ELSE IF Chance(40, Mix(sd, 3)) THEN LitOf(k, Mix(sd, 4)) ELSE GenX(k, d - 1, sch, Mix(sd, 5)) IN
  CaseE(whens, els)

GenCaseX(k, d, sch, sd) ==
  LET ko == PickSeq(OperandKinds(sch), Mix(sd, 1))
      nw == PickSeq(<<1, 2, 2, 3, 4>>, Mix(sd, 2))
      litw == Chance(80, Mix(sd, 3))
      litt == Chance(70, Mix(sd, 4))
      whens == [j \in 1..nw |-> <<IF litw THEN LitOf(ko, Mix(sd, 10 + j)) ELSE GenX(ko, d - 1, sch, Mix(sd, 20 + j)),
                                  IF litt THEN LitOf(k, Mix(sd, 30 + j)) ELSE GenX(k, d - 1, sch, Mix(sd, 40 + j))>>]
      els == IF Chance(40, Mix(sd, 5)) THEN LitK(Null, k)
             ELSE IF Chance(60, Mix(sd, 6)) THEN LitOf(k, Mix(sd, 7)) ELSE GenX(k, d - 1, sch, Mix(sd, 8)) IN
  CaseXE(GenX(ko, d - 1, sch, Mix(sd, 9)), whens, els)

GenLike(d, sch, sd) ==
  LET f == PickSeq(<<"like", "like", "ilike", "similar", "isimilar">>, Mix(sd, 1))
      sim == f \in {"similar", "isimilar"}
      pi == IF sim THEN PickSeq(<<1, 2, 3, 4, 5, 6, 7, 8, 9, 11, 12, 13, 14, 17, 24, 25, 26>>, Mix(sd, 2))
            ELSE Rnd(Mix(sd, 2), NPatLike) + 1
      pj == Rnd(Mix(sd, 3), 18) + 1
      pat == IF Chance(6, Mix(sd, 4)) THEN LitK(Null, "p")
             ELSE IF Chance(12, Mix(sd, 5)) THEN CaseE(<< <<GenX("b", d - 1, sch, Mix(sd, 6)), PatLit(pi)>> >>, PatLit(pj))
             ELSE PatLit(pi) IN
  LikeE(f, GenX("s", d - 1, sch, Mix(sd, 7)), pat, Chance(35, Mix(sd, 8)))

GenX(k, d, sch, sd) ==
  LET A == GenX(k, d - 1, sch, Mix(sd, 11))
      B2 == GenX(k, d - 1, sch, Mix(sd, 12))
      P1 == GenX("b", d - 1, sch, Mix(sd, 13))
      P2 == GenX("b", d - 1, sch, Mix(sd, 14))
      c == Rnd(Mix(sd, 15), 14) + 1 IN
  IF d = 0 \/ Chance(18, Mix(sd, 16)) THEN Leaf(k, sch, Mix(sd, 17))
  ELSE IF IsIntK(k) THEN
    (CASE c \in {1, 2} -> ArithE(k, PickSeq(<<"+", "-">>, Mix(sd, 18)), A, B2)
      [] c = 3 -> IF MulOK(k, sch) THEN ArithE(k, "*", A, B2) ELSE ArithE(k, "-", A, B2)
      [] c = 4 -> ArithE(k, PickSeq(<<"/", "%">>, Mix(sd, 18)), A, B2)
      [] c = 5 -> UnArithE(k, PickSeq(<<"neg", "abs">>, Mix(sd, 18)), A)
      [] c \in {6, 7} -> GenCaseE(k, d, sch, Mix(sd, 19))
      [] c \in {8, 9} -> GenCaseX(k, d, sch, Mix(sd, 19))
      [] c = 10 -> Coalesce(IF Chance(30, Mix(sd, 18)) THEN <<A, B2, Leaf(k, sch, Mix(sd, 20))>> ELSE <<A, B2>>)
      [] c = 11 -> NullIfE(A, B2)
      [] c \in {12, 13} ->
           LET k2 == PickSeq(SelectSeq(IntKindsOf(sch), LAMBDA x : x # k) \o <<"b">>, Mix(sd, 21)) IN
           CastE(k, Chance(40, Mix(sd, 22)), GenX(k2, d - 1, sch, Mix(sd, 23)))
      [] OTHER -> Leaf(k, sch, Mix(sd, 17)))
  ELSE IF k = "s" THEN
    (CASE c \in {1, 2, 3} -> Coalesce(IF Chance(30, Mix(sd, 18)) THEN <<A, B2, Leaf(k, sch, Mix(sd, 20))>> ELSE <<A, B2>>)
      [] c \in {4, 5, 6} -> GenCaseE(k, d, sch, Mix(sd, 19))
      [] c \in {7, 8, 9} -> GenCaseX(k, d, sch, Mix(sd, 19))
      [] c = 10 -> NullIfE(A, B2)
      [] OTHER -> Leaf(k, sch, Mix(sd, 17)))
  ELSE \* boolean
    LET ck == PickSeq(OperandKinds(sch), Mix(sd, 21))
        X == GenX(ck, d - 1, sch, Mix(sd, 28))
        Y == GenX(ck, d - 1, sch, Mix(sd, 29))
        c2 == Rnd(Mix(sd, 15), 20) + 1 IN
    (CASE c2 \in {1, 2, 3} -> Bin(PickSeq(<<"=", "<>", "<", "<=", ">", ">=">>, Mix(sd, 18)), X, Y)
      [] c2 \in {4, 5} -> Bin(PickSeq(<<"and", "or">>, Mix(sd, 18)), P1, P2)
      [] c2 = 6 -> Un("not", P1)
      [] c2 = 7 -> Un(PickSeq(<<"isnull", "isnotnull">>, Mix(sd, 18)), X)
      [] c2 = 8 -> Un(PickSeq(<<"istrue", "isfalse", "isnottrue", "isnotfalse", "isunknown", "isnotunknown">>, Mix(sd, 18)), P1)
      [] c2 \in {9, 10, 11} -> InList(X, GenList(ck, PickSeq(ListSizes, Mix(sd, 24)), sch, Mix(sd, 30)), Chance(40, Mix(sd, 25)))
      [] c2 = 12 -> BetweenE(X, IF Chance(70, Mix(sd, 26)) THEN LitOf(ck, Mix(sd, 31)) ELSE Y,
                             IF Chance(70, Mix(sd, 27)) THEN LitOf(ck, Mix(sd, 32)) ELSE GenX(ck, d - 1, sch, Mix(sd, 33)),
                             Chance(35, Mix(sd, 25)))
      [] c2 = 13 -> Bin(PickSeq(<<"isdistinct", "isnotdistinct">>, Mix(sd, 18)), X, Y)
      [] c2 \in {14, 15} -> IF "s" \in KindsIn(sch) THEN GenLike(d, sch, Mix(sd, 19)) ELSE Bin("=", X, Y)
      [] c2 = 16 -> GenCaseE("b", d, sch, Mix(sd, 19))
      [] c2 = 17 -> GenCaseX("b", d, sch, Mix(sd, 19))
      [] c2 = 18 -> CastE("b", Chance(40, Mix(sd, 22)), GenX(PickSeq(IntKindsOf(sch), Mix(sd, 21)), d - 1, sch, Mix(sd, 23)))
      [] c2 = 19 -> Coalesce(<<P1, P2>>)
      [] OTHER -> Leaf("b", sch, Mix(sd, 17)))

ResultKinds(TBL) == IF TBL = "A" THEN <<"b", "b", "b", "i", "i", "s">> ELSE <<"b", "b", "i8", "i8", "i16", "i32", "i">>

(* ---------------- targeted families ---------------- *)
\* mixed-radix decoding of a 0-based index
Digit(ix, below, radix) == (ix \div below) % radix

\* IN lists: needle shape x list size x NULLs in the list x negation x constant/dynamic list
Needles(TBL) ==
  IF TBL = "A" THEN
    << [k |-> "i", e |-> Col(1)], [k |-> "i", e |-> Bin("+", Col(1), Col(2))], [k |-> "i", e |-> LitK(I(1), "i")],
       [k |-> "i", e |-> LitK(Null, "i")], [k |-> "s", e |-> Col(3)], [k |-> "b", e |-> Col(4)],
       [k |-> "s", e |-> Coalesce(<<Col(3), LitK(S(2), "s")>>)], [k |-> "s", e |-> LitK(S(2), "s")] >>
  ELSE
    << [k |-> "i8", e |-> Col(1)], [k |-> "i16", e |-> Col(3)], [k |-> "i32", e |-> Col(4)],
       [k |-> "i8", e |-> TBin("i8", "-", Col(1), Col(2))], [k |-> "i16", e |-> CastE("i16", FALSE, Col(1))],
       [k |-> "i", e |-> CastE("i", FALSE, Col(3))], [k |-> "i8", e |-> LitK(I(127), "i8")] >>
InSizes == <<1, 2, 3, 4, 5, 8, 9, 16, 17, 18, 32, 33, 40>>
InListTotal(TBL) == Len(Needles(TBL)) * Len(InSizes) * 3 * 2 * 2
GenInList(TBL, ix, sd) ==
  LET Sch == SchOf(TBL)
      nd == Needles(TBL)[Digit(ix, 1, Len(Needles(TBL))) + 1]
      b1 == Len(Needles(TBL))
      n == InSizes[Digit(ix, b1, Len(InSizes)) + 1]
      b2 == b1 * Len(InSizes)
      nulls == Digit(ix, b2, 3)             \* 0 none, 1 one NULL, 2 several
      neg == Digit(ix, b2 * 3, 2) = 1
      dyn == Digit(ix, b2 * 6, 2) = 1 /\ ColsOf(Sch, nd.k) # {}
      pool == IF n > 5 THEN ListVals(nd.k) ELSE LitVals(nd.k)
      np == Rnd(Mix(sd, 1), n) + 1
      dp == Rnd(Mix(sd, 2), n) + 1
      list == [j \in 1..n |->
                IF dyn /\ j = dp THEN Col(PickCol(Sch, nd.k, Mix(sd, 3)))
                ELSE IF (nulls >= 1 /\ j = np) \/ (nulls = 2 /\ Chance(30, Mix(sd, 100 + j))) THEN LitK(Null, nd.k)
                ELSE LitK(PickSeq(IF Chance(25, Mix(sd, 300 + j)) THEN Tail(ValsOf(nd.k)) ELSE pool, Mix(sd, 200 + j)), nd.k)] IN
  [k |-> "b", e |-> InList(nd.e, list, neg)]

\* CASE forms (one per evaluation method of the engine) x result kind; sub-expressions are random
CaseForms == 14
CaseKinds(TBL) == IF TBL = "A" THEN <<"i", "s", "b">> ELSE <<"i8", "i16", "i">>
CaseTotal(TBL) == CaseForms * Len(CaseKinds(TBL)) * 6
GenCaseFam(TBL, ix, sd) ==
  LET Sch == SchOf(TBL)
      form == Digit(ix, 1, CaseForms) + 1
      k == CaseKinds(TBL)[Digit(ix, CaseForms, Len(CaseKinds(TBL))) + 1]
      ko == PickSeq(OperandKinds(Sch), Mix(sd, 1))
      cnd(j) == GenX("b", 1, Sch, Mix(sd, 10 + j))
      colOrLit(j) == Leaf(k, Sch, Mix(sd, 20 + j))
      lit(j) == LitOf(k, Mix(sd, 30 + j))
      ex(j) == GenX(k, 2, Sch, Mix(sd, 40 + j))
      olit(j) == LitOf(ko, Mix(sd, 50 + j))
      opnd == IF Chance(70, Mix(sd, 2)) THEN Leaf(ko, Sch, Mix(sd, 3)) ELSE GenX(ko, 1, Sch, Mix(sd, 3))
      nul == LitK(Null, k) IN
  [k |-> k, e |->
    CASE form = 1 -> CaseE(<< <<cnd(1), IF ColsOf(Sch, k) # {} THEN Col(PickCol(Sch, k, Mix(sd, 4))) ELSE ex(1)>> >>, nul)
      [] form = 2 -> CaseE(<< <<cnd(1), lit(1)>> >>, LitK(PickSeq(LitVals(k), Mix(sd, 5)), k))
      [] form = 3 -> CaseE(<< <<cnd(1), ex(1)>> >>, nul)
      [] form = 4 -> CaseE(<< <<cnd(1), ex(1)>> >>, ex(2))
      [] form = 5 -> CaseE(<< <<cnd(1), colOrLit(1)>> >>, lit(2))
      [] form = 6 -> CaseE(<< <<cnd(1), colOrLit(1)>>, <<cnd(2), lit(2)>> >>, nul)
      [] form = 7 -> CaseE(<< <<cnd(1), ex(1)>>, <<cnd(2), lit(2)>>, <<cnd(3), colOrLit(3)>> >>, ex(4))
      [] form = 8 -> CaseXE(opnd, << <<olit(1), lit(1)>>, <<olit(2), lit(2)>> >>, nul)
      [] form = 9 -> CaseXE(opnd, << <<olit(1), lit(1)>>, <<olit(2), lit(2)>>, <<olit(3), lit(3)>> >>, LitK(PickSeq(LitVals(k), Mix(sd, 5)), k))
      [] form = 10 -> CaseXE(opnd, << <<olit(1), lit(1)>>, <<LitK(Null, ko), lit(2)>>, <<olit(1), lit(3)>>, <<olit(4), nul>> >>, lit(5))
      [] form = 11 -> CaseXE(opnd, << <<olit(1), ex(1)>>, <<olit(2), colOrLit(2)>> >>, IF Chance(50, Mix(sd, 6)) THEN nul ELSE ex(3))
      [] form = 12 -> CaseXE(opnd, << <<GenX(ko, 1, Sch, Mix(sd, 7)), lit(1)>>, <<olit(2), lit(2)>> >>, lit(3))
      [] form = 13 -> CaseE(<< <<LitK(PickSeq(<<TrueV, FalseV, Null>>, Mix(sd, 8)), "b"), ex(1)>> >>, IF Chance(50, Mix(sd, 6)) THEN nul ELSE ex(2))
      [] form = 14 -> CaseXE(LitOf(ko, Mix(sd, 9)), << <<olit(1), lit(1)>>, <<olit(2), lit(2)>> >>, lit(3))]

\* CASE guarding a branch that fails on exactly the rows the guard excludes
GuardForms == 10
GuardTotal == GuardForms * 8
GenGuard(TBL, ix, sd) ==
  LET Sch == SchOf(TBL)
      form == Digit(ix, 1, GuardForms) + 1
      k == IF TBL = "A" THEN "i" ELSE "i8"
      x == IF Chance(50, Mix(sd, 1)) THEN Col(1) ELSE GenX(k, 1, Sch, Mix(sd, 2))
      y == Col(2)
      z == LitK(I(0), k)
      dv == PickSeq(<<"/", "%">>, Mix(sd, 3))
      fail == ArithE(k, dv, LitK(I(1), k), z)                      \* 1/0
      big == LitK(I(IF TBL = "A" THEN 5 ELSE 120), k)
      safe == IF Chance(50, Mix(sd, 4)) THEN LitK(Null, k) ELSE LitOf(k, Mix(sd, 5)) IN
  [k |-> k, e |->
    CASE form = 1 -> CaseE(<< <<Bin("<>", y, z), ArithE(k, dv, x, y)>> >>, safe)
      [] form = 2 -> CaseE(<< <<Bin("=", y, z), safe>> >>, ArithE(k, dv, x, y))
      [] form = 3 -> CaseE(<< <<Bin("or", Un("isnull", y), Bin("=", y, z)), safe>> >>, ArithE(k, dv, x, y))
      [] form = 4 -> CaseE(<< <<Bin(">", Col(1), big), fail>> >>, Col(1))      \* no row selects the failing branch
      [] form = 5 -> CaseE(<< <<LitK(FalseV, "b"), fail>> >>, x)
      [] form = 6 -> CaseE(<< <<Bin(">", y, z), ArithE(k, dv, x, y)>>, <<Bin("<", y, z), ArithE(k, dv, y, y)>> >>, safe)
      [] form = 7 -> CaseXE(y, << <<z, safe>> >>, ArithE(k, dv, x, y))
      [] form = 8 -> CaseE(<< <<Un("isnotnull", Col(1)), Col(1)>> >>, fail)   \* ELSE reached only by NULL rows: guarded for the others
      [] form = 9 -> CaseE(<< <<Bin(">", y, z), CaseE(<< <<Bin(">", Col(1), z), ArithE(k, dv, x, y)>> >>, safe)>> >>, ArithE(k, "+", Col(1), LitK(I(1), k)))
      [] form = 10 -> IF TBL = "A" THEN CaseE(<< <<Bin("=", y, z), safe>>, <<Bin("=", Col(1), y), LitK(I(1), k)>> >>, ArithE(k, dv, x, y))
                      ELSE CaseE(<< <<Bin("<", Col(1), LitK(I(100), k)), TBin(k, "+", Col(1), LitK(I(27), k))>> >>, safe)]

\* LIKE family x operand shape x pattern x negation (table A only)
LikeOps == <<"like", "ilike", "similar", "isimilar">>
LikeTotal == 3 * 4 * 2 * (Len(PatPool) + 2)
GenLikeFam(ix, sd) ==
  LET es == Digit(ix, 1, 3)
      f == LikeOps[Digit(ix, 3, 4) + 1]
      neg == Digit(ix, 12, 2) = 1
      pi == Digit(ix, 24, Len(PatPool) + 2) + 1
      sim == f \in {"similar", "isimilar"}
      \* SIMILAR TO has no escape character: patterns with \ are replaced; LIKE has no alternation
      pok == IF pi > Len(PatPool) THEN pi
             ELSE IF sim /\ 7 \in {PatPool[pi][j] : j \in 1..Len(PatPool[pi])} THEN 9
             ELSE IF ~sim /\ pi > NPatLike THEN 11 ELSE pi
      e == CASE es = 0 -> Col(3)
             [] es = 1 -> Coalesce(<<Col(3), LitK(S(2), "s")>>)
             [] es = 2 -> LitK(PickSeq(<<S(1), S(2), S(3), Null>>, Mix(sd, 1)), "s")
      pat == IF pok = Len(PatPool) + 1 THEN LitK(Null, "p")
             ELSE IF pok = Len(PatPool) + 2 THEN CaseE(<< <<Col(4), PatLit(3)>> >>, PatLit(IF sim THEN 24 ELSE 6))
             ELSE PatLit(pok) IN
  [k |-> "b", e |-> LikeE(f, e, pat, neg)]


\* Shapes the expression simplifier has rewrite rules for, over random sub-expressions that are REUSED inside the
\* shape (A = A, A AND NOT A, A OR (A AND B), X >= c AND X <= c, NOT (..), IN-list algebra, CASE folding, LIKE,
\* arithmetic identities, casts compared with literals, constant folding).
SimpForms == 147
SimpTotal == SimpForms * 12
GenSimp(TBL, ix, sd) ==
  LET Sch == SchOf(TBL)
      t == Digit(ix, 1, SimpForms) + 1
      k == IF TBL = "A" THEN "i" ELSE PickSeq(<<"i8", "i8", "i16">>, Mix(sd, 1))
      sub(kk, j) == IF Chance(45, Mix(sd, 10 + j)) THEN Leaf(kk, Sch, Mix(sd, 20 + j)) ELSE GenX(kk, PickSeq(<<1, 1, 2>>, Mix(sd, 30 + j)), Sch, Mix(sd, 40 + j))
      X == IF Chance(60, Mix(sd, 2)) /\ ColsOf(Sch, k) # {} THEN Col(PickCol(Sch, k, Mix(sd, 3))) ELSE sub(k, 1)
      Y == sub(k, 2)
      Pb == sub("b", 3)
      Qb == sub("b", 4)
      Rb == sub("b", 5)
      St == IF TBL = "A" THEN (IF Chance(60, Mix(sd, 4)) THEN Col(3) ELSE sub("s", 6)) ELSE LitK(S(1), "s")
      L(j) == LitK(PickSeq(LitVals(k), Mix(sd, 50 + j)), k)
      one == LitK(I(1), k)
      zero == LitK(I(0), k)
      nulk == LitK(Null, k)
      tru == LitK(TrueV, "b")
      fls == LitK(FalseV, "b")
      nulb == LitK(Null, "b")
      cmp == PickSeq(<<"=", "<>", "<", "<=", ">", ">=">>, Mix(sd, 5))
      neg == Chance(50, Mix(sd, 6))
      lst(j, n) == [q \in 1..n |-> IF Chance(12, Mix(sd, 60 + 10 * j + q)) THEN nulk ELSE LitK(PickSeq(LitVals(k), Mix(sd, 70 + 10 * j + q)), k)]
      pat == PatLit(PickSeq(<<1, 22, 8, 14, 3, 4, 2, 7, 9, 12>>, Mix(sd, 7)))
      likef == PickSeq(<<"like", "like", "ilike">>, Mix(sd, 8))
      \* a narrow column widened by a cast, compared with literals around the narrow type's bounds
      wk == IF TBL = "A" THEN "i32" ELSE PickSeq(<<"i16", "i32", "i">>, Mix(sd, 9))
      ncol == IF TBL = "A" THEN Col(1) ELSE Col(PickSeq(<<1, 2>>, Mix(sd, 3)))
      wcast == CastE(wk, Chance(30, Mix(sd, 10)), ncol)
      wlit(j) == LitK(I(PickSeq(IF TBL = "A" THEN <<0 - 2, 0 - 1, 0, 1, 2, 3, 100>> ELSE <<0 - 129, 0 - 128, 0 - 127, 0 - 1, 0, 1, 126, 127, 128, 300>>, Mix(sd, 80 + j))), wk)
      KC == Col(PickCol(Sch, k, Mix(sd, 3)))
      pc(j) == PickSeq(<<"<", "<=", ">", ">=", "=", ">", "<">>, Mix(sd, 90 + j))
      bk(e1) == [k |-> "b", e |-> e1]
      ik(e1) == [k |-> k, e |-> e1]
      AE(f, a, b) == ArithE(k, f, a, b) IN
  CASE t = 1 -> bk(Bin("=", X, X))
    [] t = 2 -> bk(Bin("<>", X, X))
    [] t = 3 -> bk(Bin("and", Pb, Un("not", Pb)))
    [] t = 4 -> bk(Bin("and", Un("not", Pb), Pb))
    [] t = 5 -> bk(Bin("or", Pb, Un("not", Pb)))
    [] t = 6 -> bk(Bin("or", Un("not", Pb), Pb))
    [] t = 7 -> bk(Bin("=", Pb, tru))
    [] t = 8 -> bk(Bin("=", Pb, fls))
    [] t = 9 -> bk(Bin("=", tru, Pb))
    [] t = 10 -> bk(Bin("<>", fls, Pb))
    [] t = 11 -> bk(Bin("<>", Pb, tru))
    [] t = 12 -> bk(Bin(PickSeq(<<"=", "<>">>, Mix(sd, 5)), Pb, nulb))
    [] t = 13 -> bk(Bin("or", Pb, tru))
    [] t = 14 -> bk(Bin("and", Pb, fls))
    [] t = 15 -> bk(Bin("or", fls, Pb))
    [] t = 16 -> bk(Bin("and", tru, Pb))
    [] t = 17 -> bk(Bin("and", Pb, nulb))
    [] t = 18 -> bk(Bin("or", nulb, Pb))
    [] t = 19 -> bk(Bin("or", Pb, Bin("and", Pb, Qb)))
    [] t = 20 -> bk(Bin("or", Bin("and", Qb, Pb), Pb))
    [] t = 21 -> bk(Bin("and", Pb, Bin("or", Pb, Qb)))
    [] t = 22 -> bk(Bin("and", Bin("or", Qb, Pb), Pb))
    [] t = 23 -> bk(Bin("or", Bin("and", Pb, Qb), Bin("and", Pb, Rb)))
    [] t = 24 -> bk(Bin("and", Bin("and", Pb, Qb), Pb))
    [] t = 25 -> bk(Bin("or", Pb, Bin("or", Qb, Pb)))
    [] t = 26 -> bk(Bin("and", Bin(">=", X, L(1)), Bin("<=", X, L(1))))
    [] t = 27 -> bk(Bin("and", Bin("=", X, L(1)), Bin("<>", X, L(2))))
    [] t = 28 -> bk(Bin("and", Bin("<>", X, L(2)), Bin("=", X, L(1))))
    [] t = 29 -> bk(Un("not", Bin(cmp, X, Y)))
    [] t = 30 -> bk(Un("not", Bin("and", Pb, Qb)))
    [] t = 31 -> bk(Un("not", Bin("or", Pb, Qb)))
    [] t = 32 -> bk(Un("not", Un("not", Pb)))
    [] t = 33 -> bk(Un("not", BetweenE(X, L(1), L(2), neg)))
    [] t = 34 -> bk(BetweenE(X, L(1), L(2), neg))
    [] t = 35 -> bk(BetweenE(X, Y, L(2), neg))
    [] t = 36 -> bk(Un("not", Un(PickSeq(<<"isnull", "isnotnull">>, Mix(sd, 5)), X)))
    [] t = 37 -> bk(Un("not", LikeE(likef, St, pat, neg)))
    [] t = 38 -> bk(Un("not", InList(X, lst(1, 3), neg)))
    [] t = 39 -> bk(Un("not", Bin(PickSeq(<<"isdistinct", "isnotdistinct">>, Mix(sd, 5)), X, Y)))
    [] t = 40 -> bk(InList(X, <<L(1)>>, neg))
    [] t = 41 -> bk(InList(X, <<L(1), L(1), L(2)>>, neg))
    [] t = 42 -> bk(InList(nulk, lst(1, 3), neg))
    [] t = 43 -> bk(InList(X, <<nulk>>, neg))
    [] t = 44 -> bk(InList(X, <<nulk, L(1)>>, neg))
    [] t = 45 -> bk(Bin("or", Bin("or", Bin("=", X, L(1)), Bin("=", X, L(2))), Bin("=", X, L(3))))
    [] t = 46 -> bk(Bin("or", Bin("=", X, L(1)), Bin("=", L(2), X)))
    [] t = 47 -> bk(Bin("and", InList(X, lst(1, 3), FALSE), InList(X, lst(2, 3), FALSE)))
    [] t = 48 -> bk(Bin("and", InList(X, lst(1, 4), FALSE), InList(X, lst(2, 3), TRUE)))
    [] t = 49 -> bk(Bin("and", InList(X, lst(1, 3), TRUE), InList(X, lst(2, 4), FALSE)))
    [] t = 50 -> bk(Bin("or", InList(X, lst(1, 3), TRUE), InList(X, lst(2, 3), TRUE)))
    [] t = 51 -> bk(Bin("or", InList(X, lst(1, 3), FALSE), InList(X, lst(2, 3), FALSE)))
    [] t = 52 -> bk(Bin("and", InList(X, lst(1, 3), TRUE), InList(X, lst(2, 3), TRUE)))
    [] t = 53 -> bk(Bin("and", Bin("<>", X, L(1)), Bin("<>", X, L(2))))
    [] t = 54 -> bk(LikeE(likef, St, PatLit(PickSeq(<<1, 22>>, Mix(sd, 5))), neg))
    [] t = 55 -> bk(LikeE(likef, St, PatLit(PickSeq(<<8, 14, 7, 17>>, Mix(sd, 5))), neg))
    [] t = 56 -> bk(LikeE(likef, St, LitK(Null, "p"), neg))
    [] t = 57 -> bk(LikeE(likef, LitK(Null, "s"), pat, neg))
    [] t = 58 -> bk(LikeE(likef, St, pat, neg))
    [] t = 59 -> bk(LikeE(likef, LitK(PickSeq(<<S(1), S(2), S(3)>>, Mix(sd, 5)), "s"), pat, neg))
    [] t = 60 -> bk(Bin("isnotdistinct", X, X))
    [] t = 61 -> bk(Bin("isdistinct", X, X))
    [] t = 62 -> bk(Bin("isnotdistinct", X, nulk))
    [] t = 63 -> bk(Bin("isdistinct", nulk, X))
    [] t = 64 -> ik(CaseE(<< <<tru, X>> >>, Y))
    [] t = 65 -> ik(CaseE(<< <<fls, X>> >>, Y))
    [] t = 66 -> ik(CaseE(<< <<fls, X>> >>, nulk))
    [] t = 67 -> ik(CaseE(<< <<Pb, X>>, <<tru, Y>> >>, L(1)))
    [] t = 68 -> ik(CaseE(<< <<Pb, X>>, <<fls, Y>> >>, L(1)))
    [] t = 69 -> ik(CaseE(<< <<nulb, X>> >>, Y))
    [] t = 70 -> bk(CaseE(<< <<Pb, tru>> >>, fls))
    [] t = 71 -> bk(CaseE(<< <<Pb, fls>> >>, tru))
    [] t = 72 -> bk(CaseE(<< <<Pb, tru>>, <<Qb, fls>> >>, IF neg THEN tru ELSE nulb))
    [] t = 73 -> bk(CaseE(<< <<Pb, Qb>> >>, Rb))
    [] t = 74 -> bk(CaseE(<< <<Pb, Qb>>, <<Rb, tru>> >>, nulb))
    [] t = 75 -> bk(CaseE(<< <<Pb, tru>>, <<Qb, tru>>, <<Rb, fls>> >>, tru))
    [] t = 76 -> bk(Bin(cmp, CaseE(<< <<Pb, L(1)>>, <<Qb, L(2)>> >>, L(3)), L(1)))
    [] t = 77 -> bk(Bin("=", CaseE(<< <<Pb, L(1)>> >>, nulk), L(1)))
    [] t = 78 -> bk(Bin(cmp, wcast, wlit(1)))
    [] t = 79 -> bk(Bin(cmp, wlit(1), wcast))
    [] t = 80 -> bk(InList(wcast, <<wlit(1), wlit(2), wlit(3)>>, neg))
    [] t = 81 -> bk(Bin(PickSeq(<<"isdistinct", "isnotdistinct">>, Mix(sd, 5)), wcast, wlit(1)))
    [] t = 82 -> bk(BetweenE(wcast, wlit(1), wlit(2), neg))
    [] t = 83 -> bk(Un(PickSeq(<<"istrue", "isfalse", "isnottrue", "isnotfalse", "isunknown", "isnotunknown">>, Mix(sd, 5)), Bin(cmp, X, Y)))
    [] t = 84 -> bk(Un(PickSeq(<<"isnull", "isnotnull">>, Mix(sd, 5)), Bin(cmp, X, L(1))))
    [] t = 85 -> bk(Un(PickSeq(<<"isnull", "isnotnull">>, Mix(sd, 5)), X))
    [] t = 86 -> bk(Bin(cmp, AE(PickSeq(<<"+", "-">>, Mix(sd, 7)), L(1), L(2)), X))
    [] t = 87 -> bk(Bin(cmp, X, AE("/", L(1), zero)))
    [] t = 88 -> bk(Bin(cmp, AE(PickSeq(<<"+", "-">>, Mix(sd, 7)), X, L(1)), L(2)))
    [] t = 89 -> bk(Bin("and", Bin(cmp, X, L(1)), Bin(PickSeq(<<"<", ">", "<=", ">=">>, Mix(sd, 7)), X, L(2))))
    [] t = 90 -> bk(Bin("or", Bin(cmp, X, L(1)), Bin(PickSeq(<<"<", ">", "=", "<>">>, Mix(sd, 7)), X, L(2))))
    [] t = 91 -> ik(AE("*", X, one))
    [] t = 92 -> ik(AE("*", one, X))
    [] t = 93 -> ik(AE("*", X, zero))
    [] t = 94 -> ik(AE("*", zero, X))
    [] t = 95 -> ik(AE("/", X, one))
    [] t = 96 -> ik(AE("%", X, one))
    [] t = 97 -> ik(AE("+", X, zero))
    [] t = 98 -> ik(AE("-", X, zero))
    [] t = 99 -> ik(AE("/", X, X))
    [] t = 100 -> ik(AE("-", X, X))
    [] t = 101 -> ik(UnArithE(k, "neg", UnArithE(k, "neg", X)))
    [] t = 102 -> ik(UnArithE(k, "neg", AE(PickSeq(<<"+", "-", "*">>, Mix(sd, 7)), X, Y)))
    [] t = 103 -> ik(AE("%", X, Y))
    [] t = 104 -> ik(AE("*", X, nulk))
    [] t = 105 -> ik(Coalesce(<<X, X>>))
    [] t = 106 -> ik(Coalesce(<<nulk, X>>))
    [] t = 107 -> ik(Coalesce(<<L(1), X>>))
    [] t = 108 -> ik(Coalesce(<<X, nulk, Y>>))
    [] t = 109 -> ik(NullIfE(X, X))
    [] t = 110 -> ik(NullIfE(X, nulk))
    [] t = 111 -> ik(NullIfE(X, L(1)))
    [] t = 112 -> ik(CaseE(<< <<Pb, X>> >>, X))
    [] t = 113 -> ik(CaseE(<< <<Un("isnotnull", X), X>> >>, Y))
    [] t = 114 -> ik(CaseXE(X, << <<L(1), L(2)>>, <<L(1), L(3)>>, <<nulk, L(4)>> >>, Y))
    [] t = 115 -> ik(CaseXE(L(1), << <<L(1), X>>, <<L(2), Y>> >>, nulk))
    [] t = 116 -> ik(CastE(k, neg, L(1)))
    [] t = 117 -> bk(Bin("and", Bin("or", Pb, Qb), Bin("or", Pb, Rb)))
    [] t = 118 -> bk(Bin(PickSeq(<<"and", "or">>, Mix(sd, 5)), Bin(cmp, X, Y), Un("not", Bin(cmp, X, Y))))
    \* bitwise identities / absorption / shifts (the shift templates only on BIGINT), nvl
    [] t = 123 -> ik(Bin("&", X, zero))
    [] t = 124 -> ik(Bin("&", zero, X))
    [] t = 125 -> ik(Bin("|", X, zero))
    [] t = 126 -> ik(Bin("|", zero, X))
    [] t = 127 -> ik(Bin("^", X, zero))
    [] t = 128 -> ik(Bin("&", X, X))
    [] t = 129 -> ik(Bin("|", X, X))
    [] t = 130 -> ik(Bin("^", X, X))
    [] t = 131 -> ik(Bin("&", X, Bin("|", X, Y)))
    [] t = 132 -> ik(Bin("|", X, Bin("&", Y, X)))
    [] t = 133 -> ik(Bin("&", Bin("&", Y, X), X))
    [] t = 134 -> ik(Bin("^", X, Bin("^", Y, X)))
    [] t = 135 -> ik(Bin(IF TBL = "A" THEN ">>" ELSE "|", X, zero))
    [] t = 136 -> ik(Bin(IF TBL = "A" THEN "<<" ELSE "^", X, zero))
    [] t = 137 -> ik(IF TBL = "A" THEN Bin("<<", X, LitK(I(PickSeq(<<1, 2, 3>>, Mix(sd, 5))), k)) ELSE Bin("&", X, L(1)))
    [] t = 138 -> ik(IF TBL = "A" THEN Bin(">>", X, LitK(I(PickSeq(<<1, 2, 3>>, Mix(sd, 5))), k)) ELSE Bin("|", X, L(1)))
    [] t = 139 -> ik(Bin(PickSeq(<<"&", "|", "^">>, Mix(sd, 5)), Bin(PickSeq(<<"&", "|", "^">>, Mix(sd, 7)), L(1), L(2)), X))
    [] t = 140 -> ik(NvlE(X, Y))
    [] t = 141 -> ik(NvlE(nulk, X))
    [] t = 142 -> ik(NvlE(L(1), X))
    [] t = 143 -> bk(Bin(cmp, Bin(PickSeq(<<"&", "|", "^">>, Mix(sd, 5)), X, L(1)), L(2)))
    \* arithmetic negation combined with bitwise operators (the simplifier has "!A & A" rules keyed on Expr::Negative)
    [] t = 144 -> ik(Bin("&", UnArithE(k, "neg", X), X))
    [] t = 145 -> ik(Bin("&", X, UnArithE(k, "neg", X)))
    [] t = 146 -> ik(Bin("|", UnArithE(k, "neg", X), X))
    [] t = 147 -> ik(Bin("^", X, UnArithE(k, "neg", X)))
    \* conjunctions of comparisons of one COLUMN with literals (simplify_predicates keeps the most restrictive bound)
    [] t = 119 -> bk(Bin("and", Bin(pc(1), KC, L(1)), Bin(pc(2), KC, L(2))))
    [] t = 120 -> bk(Bin("and", Bin("and", Bin(pc(1), KC, L(1)), Bin(pc(2), KC, L(2))), Bin(pc(3), KC, L(3))))
    [] t = 121 -> bk(Bin("and", Bin("and", Bin(pc(1), L(1), KC), Bin(pc(2), KC, L(2))), Pb))
    [] t = 122 -> bk(Bin("and", Bin("and", Bin("=", KC, L(1)), Bin(pc(2), KC, L(2))), Bin(pc(3), Col(PickCol(Sch, k, Mix(sd, 95))), L(3))))


\* Regular-expression operators, LIKE with wildcard characters IN THE DATA, starts_with and nvl over table C (strings that
\* contain _ % . as ordinary characters): the shapes the simplifier rewrites into LIKE / = / IN / IS NOT NULL.
Alt(st, en, items) == [s |-> st, e |-> en, items |-> items]
Re(grp, alts) == [null |-> FALSE, grp |-> grp, alts |-> alts]
ReNull == [null |-> TRUE, grp |-> FALSE, alts |-> <<>>]
Wfo_o == <<11, 12, 31, 12>>
Wfoxo == <<11, 12, 13, 12>>
Wfopo == <<11, 12, 32, 12>>
WFOXO == <<21, 22, 23, 22>>
Wadotb == <<1, 33, 2>>
RePool == <<
  Re(FALSE, <<Alt(TRUE, TRUE, Wfo_o)>>), Re(FALSE, <<Alt(TRUE, TRUE, Wfoxo)>>), Re(FALSE, <<Alt(TRUE, TRUE, Wfopo)>>),
  Re(FALSE, <<Alt(TRUE, TRUE, WFOXO)>>), Re(FALSE, <<Alt(TRUE, TRUE, <<1>>)>>), Re(FALSE, <<Alt(TRUE, TRUE, Wadotb)>>),
  Re(FALSE, <<Alt(TRUE, TRUE, <<1, 203, 2>>)>>), Re(FALSE, <<Alt(TRUE, TRUE, <<11, 12, 203, 12>>)>>),
  Re(FALSE, <<Alt(FALSE, FALSE, Wfo_o)>>), Re(FALSE, <<Alt(FALSE, FALSE, <<12>>)>>), Re(FALSE, <<Alt(FALSE, FALSE, Wfopo)>>),
  Re(FALSE, <<Alt(FALSE, FALSE, <<31>>)>>), Re(FALSE, <<Alt(FALSE, FALSE, <<32>>)>>), Re(FALSE, <<Alt(FALSE, FALSE, <<13>>)>>),
  Re(FALSE, <<Alt(FALSE, FALSE, <<1, 203, 2>>)>>), Re(FALSE, <<Alt(FALSE, FALSE, Wadotb)>>),
  Re(FALSE, <<Alt(TRUE, FALSE, <<11, 12>>)>>), Re(FALSE, <<Alt(TRUE, FALSE, <<11, 12, 31>>)>>), Re(FALSE, <<Alt(TRUE, FALSE, <<1>>)>>),
  Re(FALSE, <<Alt(FALSE, TRUE, <<12>>)>>), Re(FALSE, <<Alt(FALSE, TRUE, <<31, 12>>)>>), Re(FALSE, <<Alt(FALSE, TRUE, <<32, 12>>)>>),
  Re(FALSE, <<Alt(FALSE, TRUE, <<2>>)>>),
  Re(TRUE, <<Alt(TRUE, TRUE, Wfo_o)>>), Re(TRUE, <<Alt(TRUE, TRUE, Wfo_o), Alt(TRUE, TRUE, Wfoxo)>>),
  Re(TRUE, <<Alt(TRUE, TRUE, <<1>>), Alt(TRUE, TRUE, <<2>>)>>),
  Re(TRUE, <<Alt(TRUE, TRUE, Wfopo), Alt(TRUE, TRUE, Wadotb), Alt(TRUE, TRUE, WFOXO)>>),
  Re(FALSE, <<Alt(TRUE, TRUE, <<1>>), Alt(TRUE, TRUE, <<2>>)>>), Re(FALSE, <<Alt(FALSE, FALSE, Wfo_o), Alt(TRUE, FALSE, <<1>>)>>),
  Re(FALSE, <<Alt(FALSE, FALSE, <<1>>), Alt(FALSE, FALSE, <<2>>)>>), Re(FALSE, <<Alt(TRUE, TRUE, Wfo_o), Alt(FALSE, FALSE, <<13>>)>>),
  Re(FALSE, <<Alt(FALSE, FALSE, <<>>)>>), Re(FALSE, <<Alt(TRUE, TRUE, <<>>)>>), Re(FALSE, <<Alt(FALSE, FALSE, <<204>>)>>),
  Re(FALSE, <<Alt(TRUE, TRUE, <<204>>)>>), Re(FALSE, <<Alt(FALSE, FALSE, <<11, 204>>)>>), Re(FALSE, <<Alt(TRUE, TRUE, <<11, 204, 12>>)>>),
  ReNull >>
LxPool == << Wfo_o, <<11, 12, 102, 12>>, Wfopo, <<11, 12, 101, 12>>, <<101>>, <<101, 12>>, <<11, 101>>, <<102, 102, 102, 102>>, <<>>,
             <<1>>, WFOXO, <<101, 31, 101>>, Wadotb, <<1, 102, 2>>, <<101, 101>>, Wfoxo, <<101, 32, 101>>, <<102>> >>
RxOps == <<"~", "~*", "!~", "!~*">>
RxForms == 12
RxOperands == 6
RxTotal == RxForms * 4 * RxOperands * Len(RePool)
GenRx(ix, sd) ==
  LET form == Digit(ix, 1, RxForms) + 1
      f == RxOps[Digit(ix, RxForms, 4) + 1]
      oi == Digit(ix, RxForms * 4, RxOperands)
      ri == Digit(ix, RxForms * 4 * RxOperands, Len(RePool)) + 1
      xl(j) == LitK(XStr(Rnd(Mix(sd, j), 8) + 1), "x")
      opnd == CASE oi = 0 -> Col(1)
                [] oi = 1 -> Col(1)
                [] oi = 2 -> Coalesce(<<Col(1), LitK(XStr(8), "x")>>)
                [] oi = 3 -> xl(1)
                [] oi = 4 -> IF Chance(50, Mix(sd, 2)) THEN LitK(Null, "x") ELSE NvlE(Col(1), LitK(XStr(7), "x"))
                [] oi = 5 -> CaseE(<< <<Col(2), Col(1)>> >>, xl(3))
      rx == RegexE(f, opnd, RePool[ri])
      rx2 == RegexE(PickSeq(RxOps, Mix(sd, 4)), opnd, RePool[Rnd(Mix(sd, 5), Len(RePool)) + 1])
      lf == IF f \in {"~*", "!~*"} THEN "ilike" ELSE "like"
      lx == LikeXE(lf, opnd, LxPool[((ri - 1) % Len(LxPool)) + 1], f \in {"!~", "!~*"})
      sw == StartsWithE(opnd, IF Chance(85, Mix(sd, 6)) THEN xl(7) ELSE LitK(Null, "x"))
      bk(e1) == [k |-> "b", e |-> e1] IN
  CASE form = 1 -> bk(rx)
    [] form = 2 -> bk(Un("not", rx))
    [] form = 3 -> bk(Bin(PickSeq(<<"and", "or">>, Mix(sd, 8)), rx, Col(3)))
    [] form = 4 -> bk(Bin(PickSeq(<<"and", "or">>, Mix(sd, 8)), rx, rx2))
    [] form = 5 -> [k |-> "i", e |-> CaseE(<< <<rx, Col(4)>> >>, IF Chance(50, Mix(sd, 9)) THEN LitK(Null, "i") ELSE LitK(I(0), "i"))]
    [] form = 6 -> bk(Un(PickSeq(<<"isnull", "isnottrue", "istrue", "isnotnull">>, Mix(sd, 8)), rx))
    [] form = 7 -> bk(lx)
    [] form = 8 -> bk(Un("not", lx))
    [] form = 9 -> bk(sw)
    [] form = 10 -> bk(Bin(PickSeq(<<"and", "or">>, Mix(sd, 8)), sw, Un("not", lx)))
    [] form = 11 -> bk(IF Chance(50, Mix(sd, 8)) THEN Bin(PickSeq(<<"=", "<>", "<", ">=">>, Mix(sd, 9)), opnd, xl(10))
                       ELSE InList(opnd, <<xl(11), xl(12), IF Chance(30, Mix(sd, 13)) THEN LitK(Null, "x") ELSE xl(14)>>, Chance(40, Mix(sd, 15))))
    [] form = 12 -> bk(Bin("=", NvlE(opnd, xl(16)), xl(17)))

Total(fam, tbl) == CASE fam = "inlist" -> InListTotal(tbl) [] fam = "case" -> CaseTotal(tbl)
                     [] fam = "guard" -> GuardTotal [] fam = "like" -> LikeTotal [] fam = "simp" -> SimpTotal [] fam = "rx" -> RxTotal [] fam = "rxcore" -> 4 * Len(RePool) [] OTHER -> M
\* number of cases of plan entry p
CountOf(p) == IF PLAN[p].n > Total(PLAN[p].fam, PLAN[p].tbl) THEN Total(PLAN[p].fam, PLAN[p].tbl) ELSE PLAN[p].n
GenCase(p, n) ==
  LET fam == PLAN[p].fam
      tbl == PLAN[p].tbl
      sd == Mix(Mix(Mix(SEED % M, p), n), 5)
      tot == Total(fam, tbl)
      ix == IF PLAN[p].n >= tot THEN n - 1 ELSE Rnd(Mix(sd, 1), tot) IN
  CASE fam = "rand" -> LET k == PickSeq(ResultKinds(tbl), Mix(sd, 2)) IN [k |-> k, e |-> GenX(k, PLAN[p].d, SchOf(tbl), Mix(sd, 3))]
    [] fam = "inlist" -> GenInList(tbl, ix, Mix(sd, 4))
    [] fam = "case" -> GenCaseFam(tbl, ix, Mix(sd, 4))
    [] fam = "guard" -> GenGuard(tbl, ix, Mix(sd, 4))
    [] fam = "like" -> GenLikeFam(ix, Mix(sd, 4))
    [] fam = "simp" -> GenSimp(tbl, ix, Mix(sd, 4))
    [] fam = "rx" -> GenRx(ix, Mix(sd, 4))
    \* the core of the regex family, always enumerated: column ~ / ~* / !~ / !~* every pattern of RePool
    [] fam = "rxcore" -> GenRx(RxForms * (ix % 4) + RxForms * 4 * RxOperands * (ix \div 4), Mix(sd, 4))

(* ---------------- emission ---------------- *)
\* compact value code: the kind of every value of a case is the case's result kind
ErrCode == 0 - 999999
NullCode == 0 - 999998
Code(v) == IF IsErr(v) THEN ErrCode ELSE IF IsNull(v) THEN NullCode ELSE v.v

\* State graph: root (vp = 0) -> one group state per chunk of CHUNK cases (vn < 0) -> the cases of the
\* chunk (vn > 0); TLC's workers expand the groups in parallel and check Emit on every case.
CHUNK == 20
VARIABLES vp, vn, vk, ve
vars == <<vp, vn, vk, ve>>
Dummy == LitK(TrueV, "b")
Init == vp = 0 /\ vn = 0 /\ vk = "b" /\ ve = Dummy
Next ==
  \/ /\ vp = 0
     /\ \E p \in 1..Len(PLAN) : \E c \in 1..((CountOf(p) + CHUNK - 1) \div CHUNK) :
          vp' = p /\ vn' = 0 - c /\ vk' = "b" /\ ve' = Dummy
  \/ /\ vp > 0 /\ vn < 0
     /\ \E j \in ((0 - vn - 1) * CHUNK + 1)..(IF (0 - vn) * CHUNK > CountOf(vp) THEN CountOf(vp) ELSE (0 - vn) * CHUNK) :
          LET g == GenCase(vp, j) IN vp' = vp /\ vn' = j /\ vk' = g.k /\ ve' = g.e

Emit ==
  IF vp = 0 THEN PrintT(<<"CASE", ToJson([id |-> 0,
           \* row i (1-based) of a table has in column c the value vals[c][((i-1) div strides[c]) mod Len(vals[c]) + 1]
           tables |-> [A |-> [schema |-> SchA, vals |-> [c \in 1..4 |-> ValsOf(SchA[c])], strides |-> StridesOf("A")],
                       B |-> [schema |-> SchB, vals |-> [c \in 1..4 |-> ValsOf(SchB[c])], strides |-> StridesOf("B")],
                       C |-> [schema |-> SchC, vals |-> [c \in 1..4 |-> ValsOf(SchC[c])], strides |-> StridesOf("C")]],
           pats |-> PatPool, errcode |-> ErrCode, nullcode |-> NullCode])>>)
  ELSE IF vn < 0 THEN TRUE
  ELSE PrintT(<<"CASE", ToJson([id |-> vn, p |-> vp, fam |-> PLAN[vp].fam, tbl |-> PLAN[vp].tbl, k |-> vk, e |-> ve,
                                exp |-> [i \in 1..NRowsOf(PLAN[vp].tbl) |-> Code(Eval(ve, RowAt(PLAN[vp].tbl, i)))]])>>)
=============================================================================
