------------------------------ MODULE ExprGen ------------------------------
(***************************************************************************)
(* Expression generator for C33 / C04: typed scalar expression ASTs         *)
(* (spec/lib/Expr.tla, incl. like / casex / cast / tbin / tun) over an      *)
(* EXHAUSTIVE small-scope table, each printed with the value the reference  *)
(* semantics Expr.Eval assigns to it on EVERY row of the table.             *)
(*                                                                         *)
(* Tables (TBL):                                                            *)
(*  "A": c1 BIGINT, c2 BIGINT over {NULL,-1,0,1,2}; c3 VARCHAR over         *)
(*       {NULL,a,ab,b}; c4 BOOLEAN over {NULL,T,F}      -> 300 rows         *)
(*  "B": c1 TINYINT, c2 TINYINT over {NULL,-128,-1,0,1,127}; c3 SMALLINT    *)
(*       over {NULL,-32768,1,32767}; c4 INT over {NULL,1,300} -> 432 rows   *)
(* Families (PLAN[p].fam): "rand" random typed trees of depth EDEPTH; "inlist",  *)
(* "case", "guard", "like" enumerate the shapes that select each evaluation *)
(* strategy of the engine (index space sampled by SEED when N < size).      *)
(* One TLC state = one case (the root state prints the tables).            *)
(* Randomness is threaded explicitly (see gen/PlanGen.tla).                 *)
(***************************************************************************)
EXTENDS Expr, TLC, Json, SequencesExt

CONSTANTS SEED,   \* run seed (< 46337)
          PLAN    \* sequence of [fam |-> family, tbl |-> "A"|"B", n |-> number of cases, d |-> expression depth]
                  \* (defined by a generated MC module: TLC configuration files cannot hold sequences)

M == 46337
Mix(sd, k) == (sd * 31321 + k * 7919 + 12345) % M
Rnd(sd, n) == (Mix(sd, 77) % n)                    \* 0..n-1
PickSeq(seq, sd) == seq[Rnd(sd, Len(seq)) + 1]
Chance(p, sd) == Rnd(sd, 100) < p
SetSeq(set) == SetToSortSeq(set, <)

SchA == <<"i", "i", "s", "b">>
SchB == <<"i8", "i8", "i16", "i32">>
SchOf(tbl) == IF tbl = "A" THEN SchA ELSE SchB

ValsOf(k) ==
  CASE k = "i" -> <<Null, I(0 - 1), I(0), I(1), I(2)>>
    [] k = "s" -> <<Null, S(1), S(2), S(3)>>
    [] k = "b" -> <<Null, TrueV, FalseV>>
    [] k = "i8" -> <<Null, I(0 - 128), I(0 - 1), I(0), I(1), I(127)>>
    [] k = "i16" -> <<Null, I(0 - 32768), I(1), I(32767)>>
    [] k = "i32" -> <<Null, I(1), I(300)>>
\* non-NULL literal values per kind (a superset of the column domain)
LitVals(k) ==
  CASE k = "i" -> <<I(0 - 2), I(0 - 1), I(0), I(1), I(2), I(3)>>
    [] k = "s" -> <<S(1), S(2), S(3)>>
    [] k = "b" -> <<TrueV, FalseV>>
    [] k = "i8" -> <<I(0 - 128), I(0 - 127), I(0 - 1), I(0), I(1), I(2), I(126), I(127)>>
    [] k = "i16" -> <<I(0 - 32768), I(0 - 1), I(0), I(1), I(2), I(32767)>>
    [] k = "i32" -> <<I(0 - 1), I(0), I(1), I(299), I(300)>>
\* wider literal pool for long IN lists
ListVals(k) ==
  CASE k = "i" -> [j \in 1..41 |-> I(j - 21)]
    [] k = "i8" -> [j \in 1..41 |-> I(IF j = 1 THEN 0 - 128 ELSE IF j = 41 THEN 127 ELSE j - 21)]
    [] k = "i16" -> [j \in 1..41 |-> I(IF j = 1 THEN 0 - 32768 ELSE IF j = 41 THEN 32767 ELSE j - 21)]
    [] k = "i32" -> [j \in 1..41 |-> I(IF j = 41 THEN 300 ELSE j - 21)]
    [] OTHER -> LitVals(k)

IsIntK(k) == k \in {"i", "i8", "i16", "i32"}

(* ---------------- the exhaustive table ---------------- *)
LensOf(tbl) == [c \in 1..4 |-> Len(ValsOf(SchOf(tbl)[c]))]
StridesOf(tbl) == IF tbl = "A" THEN <<1, 5, 25, 100, 300>> ELSE <<1, 6, 36, 144, 432>>
ASSUME \A tbl \in {"A", "B"} : \A c \in 1..4 : StridesOf(tbl)[c + 1] = StridesOf(tbl)[c] * LensOf(tbl)[c]
NRowsOf(tbl) == StridesOf(tbl)[5]
RowAt(tbl, i) == [c \in 1..4 |-> ValsOf(SchOf(tbl)[c])[(((i - 1) \div StridesOf(tbl)[c]) % LensOf(tbl)[c]) + 1]]
RowsOf(tbl) == [i \in 1..NRowsOf(tbl) |-> RowAt(tbl, i)]

(* ---------------- leaves ---------------- *)
ColsOf(sch, k) == {c \in 1..Len(sch) : sch[c] = k}
PickCol(sch, k, sd) == PickSeq(SetSeq(ColsOf(sch, k)), sd)
LitOf(k, sd) == LitK(IF Chance(88, sd) THEN PickSeq(LitVals(k), Mix(sd, 1)) ELSE Null, k)
Leaf(k, sch, sd) ==
  IF ColsOf(sch, k) # {} /\ Chance(75, Mix(sd, 3)) THEN Col(PickCol(sch, k, Mix(sd, 4)))
  ELSE LitOf(k, Mix(sd, 5))
KindsIn(sch) == {sch[c] : c \in 1..Len(sch)}
IntKindsOf(sch) == IF sch = SchA THEN <<"i">> ELSE <<"i8", "i16", "i32", "i">>
\* kinds a comparison / IN / CASE operand may have
OperandKinds(sch) == IntKindsOf(sch) \o (IF "s" \in KindsIn(sch) THEN <<"s", "s">> ELSE <<>>) \o <<"b">>

ArithE(k, f, a, b) == IF k = "i" THEN Bin(f, a, b) ELSE TBin(k, f, a, b)
UnArithE(k, f, a) == IF k = "i" THEN Un(f, a) ELSE TUnE(k, f, a)
\* products are generated only where the checked width (or the tiny domain of table A) bounds them
MulOK(k, sch) == k \in {"i8", "i16"} \/ (k = "i" /\ sch = SchA)
PatLit(i) == LitK(PatV(i), "p")

ListSizes == <<1, 1, 2, 2, 3, 3, 4, 5, 8, 9, 16, 17, 18, 32, 33, 40>>

(* ---------------- random typed trees ---------------- *)
RECURSIVE GenX(_, _, _, _)
\* an IN list of n literals of kind k (about one in five lists has NULLs; optionally one column element)
GenList(k, n, sch, sd) ==
  LET withNull == Chance(25, Mix(sd, 1))
      dyn == Chance(12, Mix(sd, 2)) /\ ColsOf(sch, k) # {}
      pool == IF n > 5 THEN ListVals(k) ELSE LitVals(k) IN
  [j \in 1..n |->
     IF dyn /\ j = (Rnd(Mix(sd, 3), n) + 1) THEN Col(PickCol(sch, k, Mix(sd, 4)))
     ELSE IF withNull /\ Chance(IF n > 5 THEN 12 ELSE 35, Mix(sd, 100 + j)) THEN LitK(Null, k)
     ELSE LitK(PickSeq(pool, Mix(sd, 200 + j)), k)]

GenCaseE(k, d, sch, sd) ==
  LET nw == PickSeq(<<1, 1, 1, 2, 3>>, Mix(sd, 1))
      whens == [j \in 1..nw |-> <<GenX("b", d - 1, sch, Mix(sd, 10 + j)),
                                  IF Chance(35, Mix(sd, 20 + j)) THEN LitOf(k, Mix(sd, 30 + j)) ELSE GenX(k, d - 1, sch, Mix(sd, 40 + j))>>]
      els == IF Chance(40, Mix(sd, 2)) THEN LitK(Null, k)
             ELSE IF Chance(40, Mix(sd, 3)) THEN LitOf(k, Mix(sd, 4)) ELSE GenX(k, d - 1, sch, Mix(sd, 5)) IN
  CaseE(whens, els)

GenCaseX(k, d, sch, sd) ==
  LET ko == PickSeq(OperandKinds(sch), Mix(sd, 1))
      nw == PickSeq(<<1, 2, 2, 3, 4>>, Mix(sd, 2))
      litw == Chance(80, Mix(sd, 3))
      litt == Chance(70, Mix(sd, 4))
      whens == [j \in 1..nw |-> <<IF litw THEN LitOf(ko, Mix(sd, 10 + j)) ELSE GenX(ko, d - 1, sch, Mix(sd, 20 + j)),
                                  IF litt THEN LitOf(k, Mix(sd, 30 + j)) ELSE GenX(k, d - 1, sch, Mix(sd, 40 + j))>>]
      els == IF Chance(40, Mix(sd, 5)) THEN LitK(Null, k)
             ELSE IF Chance(60, Mix(sd, 6)) THEN LitOf(k, Mix(sd, 7)) ELSE GenX(k, d - 1, sch, Mix(sd, 8)) IN
  CaseXE(GenX(ko, d - 1, sch, Mix(sd, 9)), whens, els)

GenLike(d, sch, sd) ==
  LET f == PickSeq(<<"like", "like", "ilike", "similar", "isimilar">>, Mix(sd, 1))
      sim == f \in {"similar", "isimilar"}
      pi == IF sim THEN PickSeq(<<1, 2, 3, 4, 5, 6, 7, 8, 9, 11, 12, 13, 14, 17, 24, 25, 26>>, Mix(sd, 2))
            ELSE Rnd(Mix(sd, 2), NPatLike) + 1
      pj == Rnd(Mix(sd, 3), 18) + 1
      pat == IF Chance(6, Mix(sd, 4)) THEN LitK(Null, "p")
             ELSE IF Chance(12, Mix(sd, 5)) THEN CaseE(<< <<GenX("b", d - 1, sch, Mix(sd, 6)), PatLit(pi)>> >>, PatLit(pj))
             ELSE PatLit(pi) IN
  LikeE(f, GenX("s", d - 1, sch, Mix(sd, 7)), pat, Chance(35, Mix(sd, 8)))

GenX(k, d, sch, sd) ==
  LET A == GenX(k, d - 1, sch, Mix(sd, 11))
      B2 == GenX(k, d - 1, sch, Mix(sd, 12))
      P1 == GenX("b", d - 1, sch, Mix(sd, 13))
      P2 == GenX("b", d - 1, sch, Mix(sd, 14))
      c == Rnd(Mix(sd, 15), 14) + 1 IN
  IF d = 0 \/ Chance(18, Mix(sd, 16)) THEN Leaf(k, sch, Mix(sd, 17))
  ELSE IF IsIntK(k) THEN
    (CASE c \in {1, 2} -> ArithE(k, PickSeq(<<"+", "-">>, Mix(sd, 18)), A, B2)
      [] c = 3 -> IF MulOK(k, sch) THEN ArithE(k, "*", A, B2) ELSE ArithE(k, "-", A, B2)
      [] c = 4 -> ArithE(k, PickSeq(<<"/", "%">>, Mix(sd, 18)), A, B2)
      [] c = 5 -> UnArithE(k, PickSeq(<<"neg", "abs">>, Mix(sd, 18)), A)
      [] c \in {6, 7} -> GenCaseE(k, d, sch, Mix(sd, 19))
      [] c \in {8, 9} -> GenCaseX(k, d, sch, Mix(sd, 19))
      [] c = 10 -> Coalesce(IF Chance(30, Mix(sd, 18)) THEN <<A, B2, Leaf(k, sch, Mix(sd, 20))>> ELSE <<A, B2>>)
      [] c = 11 -> NullIfE(A, B2)
      [] c \in {12, 13} ->
           LET k2 == PickSeq(SelectSeq(IntKindsOf(sch), LAMBDA x : x # k) \o <<"b">>, Mix(sd, 21)) IN
           CastE(k, Chance(40, Mix(sd, 22)), GenX(k2, d - 1, sch, Mix(sd, 23)))
      [] OTHER -> Leaf(k, sch, Mix(sd, 17)))
  ELSE IF k = "s" THEN
    (CASE c \in {1, 2, 3} -> Coalesce(IF Chance(30, Mix(sd, 18)) THEN <<A, B2, Leaf(k, sch, Mix(sd, 20))>> ELSE <<A, B2>>)
      [] c \in {4, 5, 6} -> GenCaseE(k, d, sch, Mix(sd, 19))
      [] c \in {7, 8, 9} -> GenCaseX(k, d, sch, Mix(sd, 19))
      [] c = 10 -> NullIfE(A, B2)
      [] OTHER -> Leaf(k, sch, Mix(sd, 17)))
  ELSE \* boolean
    LET ck == PickSeq(OperandKinds(sch), Mix(sd, 21))
        X == GenX(ck, d - 1, sch, Mix(sd, 28))
        Y == GenX(ck, d - 1, sch, Mix(sd, 29))
        c2 == Rnd(Mix(sd, 15), 20) + 1 IN
    (CASE c2 \in {1, 2, 3} -> Bin(PickSeq(<<"=", "<>", "<", "<=", ">", ">=">>, Mix(sd, 18)), X, Y)
      [] c2 \in {4, 5} -> Bin(PickSeq(<<"and", "or">>, Mix(sd, 18)), P1, P2)
      [] c2 = 6 -> Un("not", P1)
      [] c2 = 7 -> Un(PickSeq(<<"isnull", "isnotnull">>, Mix(sd, 18)), X)
      [] c2 = 8 -> Un(PickSeq(<<"istrue", "isfalse", "isnottrue", "isnotfalse", "isunknown", "isnotunknown">>, Mix(sd, 18)), P1)
      [] c2 \in {9, 10, 11} -> InList(X, GenList(ck, PickSeq(ListSizes, Mix(sd, 24)), sch, Mix(sd, 30)), Chance(40, Mix(sd, 25)))
      [] c2 = 12 -> BetweenE(X, IF Chance(70, Mix(sd, 26)) THEN LitOf(ck, Mix(sd, 31)) ELSE Y,
                             IF Chance(70, Mix(sd, 27)) THEN LitOf(ck, Mix(sd, 32)) ELSE GenX(ck, d - 1, sch, Mix(sd, 33)),
                             Chance(35, Mix(sd, 25)))
      [] c2 = 13 -> Bin(PickSeq(<<"isdistinct", "isnotdistinct">>, Mix(sd, 18)), X, Y)
      [] c2 \in {14, 15} -> IF "s" \in KindsIn(sch) THEN GenLike(d, sch, Mix(sd, 19)) ELSE Bin("=", X, Y)
      [] c2 = 16 -> GenCaseE("b", d, sch, Mix(sd, 19))
      [] c2 = 17 -> GenCaseX("b", d, sch, Mix(sd, 19))
      [] c2 = 18 -> CastE("b", Chance(40, Mix(sd, 22)), GenX(PickSeq(IntKindsOf(sch), Mix(sd, 21)), d - 1, sch, Mix(sd, 23)))
      [] c2 = 19 -> Coalesce(<<P1, P2>>)
      [] OTHER -> Leaf("b", sch, Mix(sd, 17)))

ResultKinds(TBL) == IF TBL = "A" THEN <<"b", "b", "b", "i", "i", "s">> ELSE <<"b", "b", "i8", "i8", "i16", "i32", "i">>

(* ---------------- targeted families ---------------- *)
\* mixed-radix decoding of a 0-based index
Digit(ix, below, radix) == (ix \div below) % radix

\* IN lists: needle shape x list size x NULLs in the list x negation x constant/dynamic list
Needles(TBL) ==
  IF TBL = "A" THEN
    << [k |-> "i", e |-> Col(1)], [k |-> "i", e |-> Bin("+", Col(1), Col(2))], [k |-> "i", e |-> LitK(I(1), "i")],
       [k |-> "i", e |-> LitK(Null, "i")], [k |-> "s", e |-> Col(3)], [k |-> "b", e |-> Col(4)],
       [k |-> "s", e |-> Coalesce(<<Col(3), LitK(S(2), "s")>>)], [k |-> "s", e |-> LitK(S(2), "s")] >>
  ELSE
    << [k |-> "i8", e |-> Col(1)], [k |-> "i16", e |-> Col(3)], [k |-> "i32", e |-> Col(4)],
       [k |-> "i8", e |-> TBin("i8", "-", Col(1), Col(2))], [k |-> "i16", e |-> CastE("i16", FALSE, Col(1))],
       [k |-> "i", e |-> CastE("i", FALSE, Col(3))], [k |-> "i8", e |-> LitK(I(127), "i8")] >>
InSizes == <<1, 2, 3, 4, 5, 8, 9, 16, 17, 18, 32, 33, 40>>
InListTotal(TBL) == Len(Needles(TBL)) * Len(InSizes) * 3 * 2 * 2
GenInList(TBL, ix, sd) ==
  LET Sch == SchOf(TBL)
      nd == Needles(TBL)[Digit(ix, 1, Len(Needles(TBL))) + 1]
      b1 == Len(Needles(TBL))
      n == InSizes[Digit(ix, b1, Len(InSizes)) + 1]
      b2 == b1 * Len(InSizes)
      nulls == Digit(ix, b2, 3)             \* 0 none, 1 one NULL, 2 several
      neg == Digit(ix, b2 * 3, 2) = 1
      dyn == Digit(ix, b2 * 6, 2) = 1 /\ ColsOf(Sch, nd.k) # {}
      pool == IF n > 5 THEN ListVals(nd.k) ELSE LitVals(nd.k)
      np == Rnd(Mix(sd, 1), n) + 1
      dp == Rnd(Mix(sd, 2), n) + 1
      list == [j \in 1..n |->
                IF dyn /\ j = dp THEN Col(PickCol(Sch, nd.k, Mix(sd, 3)))
                ELSE IF (nulls >= 1 /\ j = np) \/ (nulls = 2 /\ Chance(30, Mix(sd, 100 + j))) THEN LitK(Null, nd.k)
                ELSE LitK(PickSeq(pool, Mix(sd, 200 + j)), nd.k)] IN
  [k |-> "b", e |-> InList(nd.e, list, neg)]

\* CASE forms (one per evaluation method of the engine) x result kind; sub-expressions are random
CaseForms == 14
CaseKinds(TBL) == IF TBL = "A" THEN <<"i", "s", "b">> ELSE <<"i8", "i16", "i">>
CaseTotal(TBL) == CaseForms * Len(CaseKinds(TBL)) * 6
GenCaseFam(TBL, ix, sd) ==
  LET Sch == SchOf(TBL)
      form == Digit(ix, 1, CaseForms) + 1
      k == CaseKinds(TBL)[Digit(ix, CaseForms, Len(CaseKinds(TBL))) + 1]
      ko == PickSeq(OperandKinds(Sch), Mix(sd, 1))
      cnd(j) == GenX("b", 1, Sch, Mix(sd, 10 + j))
      colOrLit(j) == Leaf(k, Sch, Mix(sd, 20 + j))
      lit(j) == LitOf(k, Mix(sd, 30 + j))
      ex(j) == GenX(k, 2, Sch, Mix(sd, 40 + j))
      olit(j) == LitOf(ko, Mix(sd, 50 + j))
      opnd == IF Chance(70, Mix(sd, 2)) THEN Leaf(ko, Sch, Mix(sd, 3)) ELSE GenX(ko, 1, Sch, Mix(sd, 3))
      nul == LitK(Null, k) IN
  [k |-> k, e |->
    CASE form = 1 -> CaseE(<< <<cnd(1), IF ColsOf(Sch, k) # {} THEN Col(PickCol(Sch, k, Mix(sd, 4))) ELSE ex(1)>> >>, nul)
      [] form = 2 -> CaseE(<< <<cnd(1), lit(1)>> >>, LitK(PickSeq(LitVals(k), Mix(sd, 5)), k))
      [] form = 3 -> CaseE(<< <<cnd(1), ex(1)>> >>, nul)
      [] form = 4 -> CaseE(<< <<cnd(1), ex(1)>> >>, ex(2))
      [] form = 5 -> CaseE(<< <<cnd(1), colOrLit(1)>> >>, lit(2))
      [] form = 6 -> CaseE(<< <<cnd(1), colOrLit(1)>>, <<cnd(2), lit(2)>> >>, nul)
      [] form = 7 -> CaseE(<< <<cnd(1), ex(1)>>, <<cnd(2), lit(2)>>, <<cnd(3), colOrLit(3)>> >>, ex(4))
      [] form = 8 -> CaseXE(opnd, << <<olit(1), lit(1)>>, <<olit(2), lit(2)>> >>, nul)
      [] form = 9 -> CaseXE(opnd, << <<olit(1), lit(1)>>, <<olit(2), lit(2)>>, <<olit(3), lit(3)>> >>, LitK(PickSeq(LitVals(k), Mix(sd, 5)), k))
      [] form = 10 -> CaseXE(opnd, << <<olit(1), lit(1)>>, <<LitK(Null, ko), lit(2)>>, <<olit(1), lit(3)>>, <<olit(4), nul>> >>, lit(5))
      [] form = 11 -> CaseXE(opnd, << <<olit(1), ex(1)>>, <<olit(2), colOrLit(2)>> >>, IF Chance(50, Mix(sd, 6)) THEN nul ELSE ex(3))
      [] form = 12 -> CaseXE(opnd, << <<GenX(ko, 1, Sch, Mix(sd, 7)), lit(1)>>, <<olit(2), lit(2)>> >>, lit(3))
      [] form = 13 -> CaseE(<< <<LitK(PickSeq(<<TrueV, FalseV, Null>>, Mix(sd, 8)), "b"), ex(1)>> >>, IF Chance(50, Mix(sd, 6)) THEN nul ELSE ex(2))
      [] form = 14 -> CaseXE(LitOf(ko, Mix(sd, 9)), << <<olit(1), lit(1)>>, <<olit(2), lit(2)>> >>, lit(3))]

\* CASE guarding a branch that fails on exactly the rows the guard excludes
GuardForms == 10
GuardTotal == GuardForms * 8
GenGuard(TBL, ix, sd) ==
  LET Sch == SchOf(TBL)
      form == Digit(ix, 1, GuardForms) + 1
      k == IF TBL = "A" THEN "i" ELSE "i8"
      x == IF Chance(50, Mix(sd, 1)) THEN Col(1) ELSE GenX(k, 1, Sch, Mix(sd, 2))
      y == Col(2)
      z == LitK(I(0), k)
      dv == PickSeq(<<"/", "%">>, Mix(sd, 3))
      fail == ArithE(k, dv, LitK(I(1), k), z)                      \* 1/0
      big == LitK(I(IF TBL = "A" THEN 5 ELSE 120), k)
      safe == IF Chance(50, Mix(sd, 4)) THEN LitK(Null, k) ELSE LitOf(k, Mix(sd, 5)) IN
  [k |-> k, e |->
    CASE form = 1 -> CaseE(<< <<Bin("<>", y, z), ArithE(k, dv, x, y)>> >>, safe)
      [] form = 2 -> CaseE(<< <<Bin("=", y, z), safe>> >>, ArithE(k, dv, x, y))
      [] form = 3 -> CaseE(<< <<Bin("or", Un("isnull", y), Bin("=", y, z)), safe>> >>, ArithE(k, dv, x, y))
      [] form = 4 -> CaseE(<< <<Bin(">", Col(1), big), fail>> >>, Col(1))      \* no row selects the failing branch
      [] form = 5 -> CaseE(<< <<LitK(FalseV, "b"), fail>> >>, x)
      [] form = 6 -> CaseE(<< <<Bin(">", y, z), ArithE(k, dv, x, y)>>, <<Bin("<", y, z), ArithE(k, dv, y, y)>> >>, safe)
      [] form = 7 -> CaseXE(y, << <<z, safe>> >>, ArithE(k, dv, x, y))
      [] form = 8 -> CaseE(<< <<Un("isnotnull", Col(1)), Col(1)>> >>, fail)   \* ELSE reached only by NULL rows: guarded for the others
      [] form = 9 -> CaseE(<< <<Bin(">", y, z), CaseE(<< <<Bin(">", Col(1), z), ArithE(k, dv, x, y)>> >>, safe)>> >>, ArithE(k, "+", Col(1), LitK(I(1), k)))
      [] form = 10 -> IF TBL = "A" THEN CaseE(<< <<Bin("=", y, z), safe>>, <<Bin("=", Col(1), y), LitK(I(1), k)>> >>, ArithE(k, dv, x, y))
                      ELSE CaseE(<< <<Bin("<", Col(1), LitK(I(100), k)), TBin(k, "+", Col(1), LitK(I(27), k))>> >>, safe)]

\* LIKE family x operand shape x pattern x negation (table A only)
LikeOps == <<"like", "ilike", "similar", "isimilar">>
LikeTotal == 3 * 4 * 2 * (Len(PatPool) + 2)
GenLikeFam(ix, sd) ==
  LET es == Digit(ix, 1, 3)
      f == LikeOps[Digit(ix, 3, 4) + 1]
      neg == Digit(ix, 12, 2) = 1
      pi == Digit(ix, 24, Len(PatPool) + 2) + 1
      sim == f \in {"similar", "isimilar"}
      \* SIMILAR TO has no escape character: patterns with \ are replaced; LIKE has no alternation
      pok == IF pi > Len(PatPool) THEN pi
             ELSE IF sim /\ 7 \in {PatPool[pi][j] : j \in 1..Len(PatPool[pi])} THEN 9
             ELSE IF ~sim /\ pi > NPatLike THEN 11 ELSE pi
      e == CASE es = 0 -> Col(3)
             [] es = 1 -> Coalesce(<<Col(3), LitK(S(2), "s")>>)
             [] es = 2 -> LitK(PickSeq(<<S(1), S(2), S(3), Null>>, Mix(sd, 1)), "s")
      pat == IF pok = Len(PatPool) + 1 THEN LitK(Null, "p")
             ELSE IF pok = Len(PatPool) + 2 THEN CaseE(<< <<Col(4), PatLit(3)>> >>, PatLit(IF sim THEN 24 ELSE 6))
             ELSE PatLit(pok) IN
  [k |-> "b", e |-> LikeE(f, e, pat, neg)]

Total(fam, tbl) == CASE fam = "inlist" -> InListTotal(tbl) [] fam = "case" -> CaseTotal(tbl)
                     [] fam = "guard" -> GuardTotal [] fam = "like" -> LikeTotal [] OTHER -> M
\* number of cases of plan entry p
CountOf(p) == IF PLAN[p].n > Total(PLAN[p].fam, PLAN[p].tbl) THEN Total(PLAN[p].fam, PLAN[p].tbl) ELSE PLAN[p].n
GenCase(p, n) ==
  LET fam == PLAN[p].fam
      tbl == PLAN[p].tbl
      sd == Mix(Mix(Mix(SEED % M, p), n), 5)
      tot == Total(fam, tbl)
      ix == IF PLAN[p].n >= tot THEN n - 1 ELSE Rnd(Mix(sd, 1), tot) IN
  CASE fam = "rand" -> LET k == PickSeq(ResultKinds(tbl), Mix(sd, 2)) IN [k |-> k, e |-> GenX(k, PLAN[p].d, SchOf(tbl), Mix(sd, 3))]
    [] fam = "inlist" -> GenInList(tbl, ix, Mix(sd, 4))
    [] fam = "case" -> GenCaseFam(tbl, ix, Mix(sd, 4))
    [] fam = "guard" -> GenGuard(tbl, ix, Mix(sd, 4))
    [] fam = "like" -> GenLikeFam(ix, Mix(sd, 4))

(* ---------------- emission ---------------- *)
\* compact value code: the kind of every value of a case is the case's result kind
ErrCode == 0 - 999999
NullCode == 0 - 999998
Code(v) == IF IsErr(v) THEN ErrCode ELSE IF IsNull(v) THEN NullCode ELSE v.v

\* State graph: root (vp = 0) -> one group state per chunk of CHUNK cases (vn < 0) -> the cases of the
\* chunk (vn > 0); TLC's workers expand the groups in parallel and check Emit on every case.
CHUNK == 20
VARIABLES vp, vn, vk, ve
vars == <<vp, vn, vk, ve>>
Dummy == LitK(TrueV, "b")
Init == vp = 0 /\ vn = 0 /\ vk = "b" /\ ve = Dummy
Next ==
  \/ /\ vp = 0
     /\ \E p \in 1..Len(PLAN) : \E c \in 1..((CountOf(p) + CHUNK - 1) \div CHUNK) :
          vp' = p /\ vn' = 0 - c /\ vk' = "b" /\ ve' = Dummy
  \/ /\ vp > 0 /\ vn < 0
     /\ \E j \in ((0 - vn - 1) * CHUNK + 1)..(IF (0 - vn) * CHUNK > CountOf(vp) THEN CountOf(vp) ELSE (0 - vn) * CHUNK) :
          LET g == GenCase(vp, j) IN vp' = vp /\ vn' = j /\ vk' = g.k /\ ve' = g.e

Emit ==
  IF vp = 0 THEN PrintT(<<"CASE", ToJson([id |-> 0,
           \* row i (1-based) of a table has in column c the value vals[c][((i-1) div strides[c]) mod Len(vals[c]) + 1]
           tables |-> [A |-> [schema |-> SchA, vals |-> [c \in 1..4 |-> ValsOf(SchA[c])], strides |-> StridesOf("A")],
                       B |-> [schema |-> SchB, vals |-> [c \in 1..4 |-> ValsOf(SchB[c])], strides |-> StridesOf("B")]],
           pats |-> PatPool, errcode |-> ErrCode, nullcode |-> NullCode])>>)
  ELSE IF vn < 0 THEN TRUE
  ELSE PrintT(<<"CASE", ToJson([id |-> vn, p |-> vp, fam |-> PLAN[vp].fam, tbl |-> PLAN[vp].tbl, k |-> vk, e |-> ve,
                                exp |-> [i \in 1..NRowsOf(PLAN[vp].tbl) |-> Code(Eval(ve, RowAt(PLAN[vp].tbl, i)))]])>>)
=============================================================================
