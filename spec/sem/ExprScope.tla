------------------------------ MODULE ExprScope ------------------------------
(***************************************************************************)
(* The exhaustive small-scope tables shared by the expression generator     *)
(* (ExprGen) and the simplifier trace validator (SimpTrace):                *)
(*  "A": c1 BIGINT, c2 BIGINT over {NULL,-1,0,1,2}; c3 VARCHAR over         *)
(*       {NULL,a,ab,b}; c4 BOOLEAN over {NULL,T,F}      -> 300 rows         *)
(*  "B": c1 TINYINT, c2 TINYINT over {NULL,-128,-1,0,1,127}; c3 SMALLINT    *)
(*       over {NULL,-32768,1,32767}; c4 INT over {NULL,1,300} -> 432 rows   *)
(*  "C": c1 VARCHAR over {NULL,FOXO,a,a.b,ab,b,fo%o,fo_o,foxo} (strings that  *)
(*       contain LIKE wildcards / regex metacharacters as plain characters); *)
(*       c2, c3 BOOLEAN; c4 BIGINT over {NULL,-1,0,1,2}       -> 405 rows    *)
(* Row i (1-based) has in column c the value                                *)
(*   ValsOf(kind c)[((i-1) div stride c) mod (number of values) + 1].       *)
(***************************************************************************)
EXTENDS Expr

SchA == <<"i", "i", "s", "b">>
SchB == <<"i8", "i8", "i16", "i32">>
SchC == <<"x", "b", "b", "i">>     \* table C: c1 VARCHAR over the second string pool (kind "x"), c2, c3 BOOLEAN, c4 BIGINT (405 rows)
SchOf(tbl) == IF tbl = "A" THEN SchA ELSE IF tbl = "B" THEN SchB ELSE SchC

ValsOf(k) ==
  CASE k = "i" -> <<Null, I(0 - 1), I(0), I(1), I(2)>>
    [] k = "s" -> <<Null, S(1), S(2), S(3)>>
    [] k = "b" -> <<Null, TrueV, FalseV>>
    [] k = "i8" -> <<Null, I(0 - 128), I(0 - 1), I(0), I(1), I(127)>>
    [] k = "i16" -> <<Null, I(0 - 32768), I(1), I(32767)>>
    [] k = "i32" -> <<Null, I(1), I(300)>>
    [] k = "x" -> <<Null, XStr(1), XStr(2), XStr(3), XStr(4), XStr(5), XStr(6), XStr(7), XStr(8)>>
LensOf(tbl) == [c \in 1..4 |-> Len(ValsOf(SchOf(tbl)[c]))]
StridesOf(tbl) == IF tbl = "A" THEN <<1, 5, 25, 100, 300>> ELSE IF tbl = "B" THEN <<1, 6, 36, 144, 432>> ELSE <<1, 9, 27, 81, 405>>
ASSUME \A tbl \in {"A", "B", "C"} : \A c \in 1..4 : StridesOf(tbl)[c + 1] = StridesOf(tbl)[c] * LensOf(tbl)[c]
NRowsOf(tbl) == StridesOf(tbl)[5]
RowAt(tbl, i) == [c \in 1..4 |-> ValsOf(SchOf(tbl)[c])[(((i - 1) \div StridesOf(tbl)[c]) % LensOf(tbl)[c]) + 1]]
RowsOf(tbl) == [i \in 1..NRowsOf(tbl) |-> RowAt(tbl, i)]

=============================================================================
