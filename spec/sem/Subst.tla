-------------------------------- MODULE Subst --------------------------------
(***************************************************************************)
(* C41: the meaning of a parameterised query IS the query with the bound    *)
(* values substituted for the placeholders.                                 *)
(*   expression node  [op |-> "param", i |-> n, t |-> kind]  = n-th value   *)
(*   plan node  limit [.., pskip |-> n or 0, pfetch |-> n or 0]  takes its  *)
(*   OFFSET / LIMIT count from the n-th value when n > 0.                   *)
(* SubstE / SubstP replace every placeholder by the literal of its value;   *)
(* EvalBound(plan, params, db) == EvalPlan(SubstP(plan, params), <<>>, db). *)
(***************************************************************************)
EXTENDS Rel

RECURSIVE SubstE(_, _), SubstP(_, _)

SubstE(e, ps) ==
  LET X(x) == SubstE(x, ps)
      XS(s) == [j \in 1..Len(s) |-> SubstE(s[j], ps)] IN
  CASE e.op = "param" -> [op |-> "lit", v |-> ps[e.i], t |-> e.t]
    [] e.op \in {"col", "outer", "lit"} -> e
    [] e.op = "bin" -> [e EXCEPT !.l = X(e.l), !.r = X(e.r)]
    [] e.op = "tbin" -> [e EXCEPT !.l = X(e.l), !.r = X(e.r)]
    [] e.op \in {"un", "tun", "cast"} -> [e EXCEPT !.e = X(e.e)]
    [] e.op = "in" -> [e EXCEPT !.e = X(e.e), !.list = XS(e.list)]
    [] e.op = "between" -> [e EXCEPT !.e = X(e.e), !.lo = X(e.lo), !.hi = X(e.hi)]
    [] e.op = "case" -> [e EXCEPT !.whens = [j \in 1..Len(e.whens) |-> <<X(e.whens[j][1]), X(e.whens[j][2])>>], !.else = X(e.else)]
    [] e.op = "casex" -> [e EXCEPT !.e = X(e.e), !.whens = [j \in 1..Len(e.whens) |-> <<X(e.whens[j][1]), X(e.whens[j][2])>>], !.else = X(e.else)]
    [] e.op = "coalesce" -> [e EXCEPT !.args = XS(e.args)]
    [] e.op = "nullif" -> [e EXCEPT !.l = X(e.l), !.r = X(e.r)]
    [] e.op = "like" -> [e EXCEPT !.e = X(e.e), !.pat = X(e.pat)]
    [] e.op = "insub" -> [e EXCEPT !.e = X(e.e), !.sub = SubstP(e.sub, ps)]
    [] e.op = "exists" -> [e EXCEPT !.sub = SubstP(e.sub, ps)]
    [] e.op = "scalarsub" -> [e EXCEPT !.sub = SubstP(e.sub, ps)]

SubstP(p, ps) ==
  CASE p.op = "scan" -> p
    [] p.op = "filter" -> [p EXCEPT !.p = SubstE(p.p, ps), !.src = SubstP(p.src, ps)]
    [] p.op = "project" -> [p EXCEPT !.es = [j \in 1..Len(p.es) |-> SubstE(p.es[j], ps)], !.src = SubstP(p.src, ps)]
    [] p.op = "join" -> [p EXCEPT !.on = SubstE(p.on, ps), !.l = SubstP(p.l, ps), !.r = SubstP(p.r, ps)]
    [] p.op = "agg" -> [p EXCEPT !.keys = [j \in 1..Len(p.keys) |-> SubstE(p.keys[j], ps)],
                                 !.aggs = [j \in 1..Len(p.aggs) |-> [p.aggs[j] EXCEPT !.e = SubstE(p.aggs[j].e, ps)]],
                                 !.src = SubstP(p.src, ps)]
    [] p.op = "distinct" -> [p EXCEPT !.src = SubstP(p.src, ps)]
    [] p.op = "setop" -> [p EXCEPT !.l = SubstP(p.l, ps), !.r = SubstP(p.r, ps)]
    [] p.op = "sort" -> [p EXCEPT !.src = SubstP(p.src, ps)]
    [] p.op = "limit" -> [op |-> "limit",
                          skip |-> IF p.pskip > 0 THEN ps[p.pskip].v ELSE p.skip,
                          fetch |-> IF p.pfetch > 0 THEN ps[p.pfetch].v ELSE p.fetch,
                          src |-> SubstP(p.src, ps)]

EvalBound(plan, params, db) == EvalPlan(SubstP(plan, params), <<>>, db)
=============================================================================
