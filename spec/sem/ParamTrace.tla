------------------------------ MODULE ParamTrace ------------------------------
(***************************************************************************)
(* C41 cases (NDJSON in IOEnv.TRACE): [id, db, plan (with placeholders),    *)
(* params, expect].  For every case TLC evaluates the parameterised plan    *)
(* under the specification's binding semantics (Subst.EvalBound) and prints *)
(* the reference result the bound executions of the engine are compared     *)
(* with, together with whether it equals `expect` (the reference result of  *)
(* the literal query the case was derived from: binding = substitution).    *)
(***************************************************************************)
EXTENDS Subst, TLC, Json, IOUtils

Cases == ndJsonDeserialize(IOEnv.TRACE)
NC == Len(Cases)
CHUNK == 20
VARIABLES g, i
Init == g = 0 /\ i = 0
Next ==
  \/ /\ g = 0 /\ i = 0
     /\ g' \in 1..((NC + CHUNK - 1) \div CHUNK) /\ i' = 0
  \/ /\ g > 0 /\ i = 0
     /\ i' \in ((g - 1) * CHUNK + 1)..(IF g * CHUNK > NC THEN NC ELSE g * CHUNK) /\ g' = g

Emit ==
  IF i = 0 THEN TRUE
  ELSE LET c == Cases[i]
           res == EvalBound(c.plan, c.params, c.db)
           lim == SubstP(c.plan, c.params)
           universe == IF lim.op = "limit"
                         THEN EvalPlan(IF lim.src.op = "sort" THEN lim.src.src ELSE lim.src, <<>>, c.db).rows
                         ELSE <<>> IN
       PrintT(<<"CASE", ToJson([id |-> c.id, expect |-> res, universe |-> universe,
                                same |-> (res.err = c.expect.err /\ (res.err \/ res.rows = c.expect.rows))])>>)
=============================================================================
