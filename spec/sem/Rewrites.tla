------------------------------ MODULE Rewrites ------------------------------
(***************************************************************************)
(* Design-level statement of WHEN the central logical rewrites are legal.   *)
(* Every rewrite schema is an operator over the plan AST of Rel.tla with    *)
(* its side condition (guard).  TLC checks, for every schema,               *)
(*        Applies(rw, p)  =>  EvalPlan(Rw(rw, p), db) ~ EvalPlan(p, db)     *)
(* over (1) a family of plans shaped for that schema with seeded random     *)
(* parameters and (2) random SemGen plans of depth <= 2 in which the schema *)
(* is applied at the first matching node, on a slice of databases.          *)
(* With a schema name in UNGUARDED its side condition is dropped: TLC must  *)
(* then REFUTE the equivalence (lib/c03.py runs both and requires exactly   *)
(* that) - this is how the two optimizer defects found while calibrating    *)
(* C01 are expressed: "filter_agg" unguarded = a (constant) filter pushed   *)
(* below a GLOBAL aggregate; "sort_const" unguarded = a column that is      *)
(* constant on the null-supplying side of an outer join treated as constant *)
(* above the join, so an ORDER BY on it is dropped.                         *)
(*   ~  is: equal bags (or, for ORDER BY / LIMIT roots, the comparison mode *)
(* of Rel.Mode), and anything goes when either side is an evaluation error  *)
(* (a rewrite may change which rows an erroring expression is evaluated on).*)
(***************************************************************************)
EXTENDS SemGen

CONSTANTS NPLANS,     \* plans per schema (family) and random plans per schema (anywhere)
          NDBS,       \* databases per plan
          UNGUARDED   \* set of schema names whose side condition is dropped

RwNames == <<"filter_join_left", "filter_join_right", "on_to_right", "on_to_left", "filter_agg", "outer_to_inner",
             "limit_project", "limit_union", "limit_join", "limit_filter", "limit_agg",
             "empty_join", "empty_agg", "distinct_groupby", "single_distinct", "union_filter",
             "null_join_keys", "sort_const">>
G(name) == name \notin UNGUARDED

(* ---------------- expression utilities ---------------- *)
RECURSIVE Simple(_), ColsE(_), Subst(_, _)
SeqAll(s, P(_)) == \A i \in 1..Len(s) : P(s[i])
\* no subquery / outer reference inside
Simple(e) ==
  CASE e.op \in {"col", "lit"} -> TRUE
    [] e.op = "bin" -> Simple(e.l) /\ Simple(e.r)
    [] e.op = "un" -> Simple(e.e)
    [] e.op = "in" -> Simple(e.e) /\ \A i \in 1..Len(e.list) : Simple(e.list[i])
    [] e.op = "between" -> Simple(e.e) /\ Simple(e.lo) /\ Simple(e.hi)
    [] e.op = "case" -> Simple(e.else) /\ \A i \in 1..Len(e.whens) : Simple(e.whens[i][1]) /\ Simple(e.whens[i][2])
    [] e.op = "coalesce" -> \A i \in 1..Len(e.args) : Simple(e.args[i])
    [] e.op = "nullif" -> Simple(e.l) /\ Simple(e.r)
    [] OTHER -> FALSE
ColsE(e) ==
  CASE e.op = "col" -> {e.i}
    [] e.op = "lit" -> {}
    [] e.op = "bin" -> ColsE(e.l) \cup ColsE(e.r)
    [] e.op = "un" -> ColsE(e.e)
    [] e.op = "in" -> ColsE(e.e) \cup UNION {ColsE(e.list[i]) : i \in 1..Len(e.list)}
    [] e.op = "between" -> ColsE(e.e) \cup ColsE(e.lo) \cup ColsE(e.hi)
    [] e.op = "case" -> ColsE(e.else) \cup UNION {ColsE(e.whens[i][1]) \cup ColsE(e.whens[i][2]) : i \in 1..Len(e.whens)}
    [] e.op = "coalesce" -> UNION {ColsE(e.args[i]) : i \in 1..Len(e.args)}
    [] e.op = "nullif" -> ColsE(e.l) \cup ColsE(e.r)
    [] OTHER -> {}
\* replace column i by m[i]   (m = sequence of expressions)
Subst(e, m) ==
  CASE e.op = "col" -> m[e.i]
    [] e.op = "lit" -> e
    [] e.op = "bin" -> [e EXCEPT !.l = Subst(e.l, m), !.r = Subst(e.r, m)]
    [] e.op = "un" -> [e EXCEPT !.e = Subst(e.e, m)]
    [] e.op = "in" -> [e EXCEPT !.e = Subst(e.e, m), !.list = [i \in 1..Len(e.list) |-> Subst(e.list[i], m)]]
    [] e.op = "between" -> [e EXCEPT !.e = Subst(e.e, m), !.lo = Subst(e.lo, m), !.hi = Subst(e.hi, m)]
    [] e.op = "case" -> [e EXCEPT !.else = Subst(e.else, m),
                                  !.whens = [i \in 1..Len(e.whens) |-> <<Subst(e.whens[i][1], m), Subst(e.whens[i][2], m)>>]]
    [] e.op = "coalesce" -> [e EXCEPT !.args = [i \in 1..Len(e.args) |-> Subst(e.args[i], m)]]
    [] e.op = "nullif" -> [e EXCEPT !.l = Subst(e.l, m), !.r = Subst(e.r, m)]
Shift(e, w, k) == Subst(e, [i \in 1..w |-> Col(IF i - k >= 1 THEN i - k ELSE i)])   \* column i -> i - k

\* Strict(e, C): e is NULL whenever every column of C is NULL.  NullRej(e, C): e is not TRUE then.
RECURSIVE Strict(_, _), NullRej(_, _)
Strict(e, C) ==
  CASE e.op = "col" -> e.i \in C
    [] e.op = "bin" -> e.f \notin {"and", "or", "isdistinct", "isnotdistinct"} /\ (Strict(e.l, C) \/ Strict(e.r, C))
    [] e.op = "un" -> e.f \in {"not", "neg", "abs"} /\ Strict(e.e, C)
    [] e.op = "in" -> Strict(e.e, C)
    [] e.op = "between" -> Strict(e.e, C)
    [] e.op = "nullif" -> Strict(e.l, C)
    [] OTHER -> FALSE
NullRej(e, C) ==
  Strict(e, C) \/
  CASE e.op = "bin" -> (e.f = "and" /\ (NullRej(e.l, C) \/ NullRej(e.r, C))) \/ (e.f = "or" /\ NullRej(e.l, C) /\ NullRej(e.r, C))
    [] e.op = "un" -> (e.f = "istrue" /\ NullRej(e.e, C)) \/ (e.f \in {"isnotnull", "isnotunknown"} /\ Strict(e.e, C))
                      \/ (e.f = "isfalse" /\ Strict(e.e, C))
    [] e.op = "lit" -> ~IsTrue(e.v)
    [] OTHER -> FALSE

Conj(e) == IF e.op = "bin" /\ e.f = "and" THEN <<e.l, e.r>> ELSE <<e>>     \* top-level conjuncts (at most two)
TrueE == LitT(TrueV, "b")
FalseE == LitT(FalseV, "b")

(* ---------------- plan utilities ---------------- *)
RECURSIVE Width(_)
Width(p) ==
  CASE p.op = "scan" -> Len(Schemas[p.t])
    [] p.op \in {"filter", "distinct", "sort", "limit"} -> Width(p.src)
    [] p.op = "project" -> Len(p.es)
    [] p.op = "join" -> IF p.jt \in {"semi", "anti"} THEN p.lw ELSE p.lw + p.rw
    [] p.op = "agg" -> Len(p.keys) + Len(p.aggs)
    [] p.op = "setop" -> Width(p.l)
    [] p.op = "ufilter" -> Len(Schemas[p.t])
    [] p.op = "window" -> Width(p.src) + 1
    [] p.op \in {"distincton", "pack"} -> Width(p.src)
    [] p.op = "lateral" -> p.lw + p.rw
    [] p.op = "aggsets" -> Len(p.keys) + Len(p.aggs)
Filter(pr, s) == [op |-> "filter", p |-> pr, src |-> s]
Limit(sk, fe, s) == [op |-> "limit", skip |-> sk, fetch |-> fe, src |-> s]
EmptyOf(p) == Limit(0, 0, p)                                  \* an empty relation of p's shape
IsEmpty(p) == (p.op = "limit" /\ p.fetch = 0) \/ (p.op = "filter" /\ p.p.op = "lit" /\ ~IsTrue(p.p.v))
\* column i of p has the same non-NULL value on every row (syntactic)
RECURSIVE ConstCol(_, _, _)
ConstCol(p, i, guarded) ==
  CASE p.op = "project" -> p.es[i].op = "lit" /\ ~IsNull(p.es[i].v)
    [] p.op \in {"filter", "distinct", "sort"} -> ConstCol(p.src, i, guarded)
    [] p.op = "join" ->
         IF i <= p.lw THEN (p.jt \in {"inner", "left", "semi", "anti"} \/ ~guarded) /\ ConstCol(p.l, i, guarded)
         ELSE p.jt \notin {"semi", "anti"} /\ (p.jt \in {"inner", "right"} \/ ~guarded) /\ ConstCol(p.r, i - p.lw, guarded)
    [] OTHER -> FALSE

(* ---------------- the rewrite schemas ---------------- *)
\* Applies(name, p): pattern and side condition;  Rw(name, p): the rewritten plan
IsFJ(p) == p.op = "filter" /\ p.src.op = "join" /\ Simple(p.p)
IsLim(p, o) == p.op = "limit" /\ p.src.op = o
LeftOnly(e, j) == ColsE(e) \subseteq 1..j.lw
RightOnly(e, j) == ColsE(e) \subseteq (j.lw + 1)..(j.lw + j.rw) /\ j.jt \notin {"semi", "anti"}
OuterSideNulls(j) == \* columns that are all NULL on padded rows, per outer join type: <<left-null cols, right-null cols>>
  <<1..j.lw, (j.lw + 1)..(j.lw + j.rw)>>

Applies(name, p) ==
  CASE name = "filter_join_left" -> IsFJ(p) /\ LeftOnly(p.p, p.src) /\ (G(name) => p.src.jt \in {"inner", "left", "semi", "anti"})
    [] name = "filter_join_right" -> IsFJ(p) /\ RightOnly(p.p, p.src) /\ (G(name) => p.src.jt \in {"inner", "right"})
    [] name = "on_to_right" -> p.op = "join" /\ Len(Conj(p.on)) = 2 /\ Simple(p.on)
                               /\ ColsE(Conj(p.on)[2]) \subseteq (p.lw + 1)..(p.lw + p.rw)
                               /\ (G(name) => p.jt \in {"inner", "left", "semi", "anti"})
    [] name = "on_to_left" -> p.op = "join" /\ Len(Conj(p.on)) = 2 /\ Simple(p.on) /\ ColsE(Conj(p.on)[2]) \subseteq 1..p.lw
                              /\ (G(name) => p.jt \in {"inner", "right", "semi"})
    [] name = "filter_agg" -> p.op = "filter" /\ p.src.op = "agg" /\ Simple(p.p) /\ ColsE(p.p) \subseteq 1..Len(p.src.keys)
                              /\ SeqAll(p.src.keys, Simple) /\ (G(name) => Len(p.src.keys) > 0)
    [] name = "outer_to_inner" -> IsFJ(p) /\ p.src.jt \in {"left", "right", "full"}
                              /\ (G(name) => \/ (p.src.jt = "left" /\ NullRej(p.p, OuterSideNulls(p.src)[2]))
                                             \/ (p.src.jt = "right" /\ NullRej(p.p, OuterSideNulls(p.src)[1]))
                                             \/ (p.src.jt = "full" /\ (NullRej(p.p, OuterSideNulls(p.src)[1]) \/ NullRej(p.p, OuterSideNulls(p.src)[2]))))
    [] name = "limit_project" -> IsLim(p, "project")
    [] name = "limit_union" -> IsLim(p, "setop") /\ p.src.f = "union" /\ p.fetch >= 0 /\ (G(name) => p.src.all)
    [] name = "limit_join" -> IsLim(p, "join") /\ p.fetch >= 0 /\ p.src.jt \in {"inner", "left", "right", "full"}
                              /\ (G(name) => p.src.jt \in {"left", "right"})
    [] name = "limit_filter" -> IsLim(p, "filter") /\ p.fetch >= 0 /\ ~G(name)      \* never legal
    [] name = "limit_agg" -> IsLim(p, "agg") /\ p.fetch >= 0 /\ ~G(name)            \* never legal
    [] name = "empty_join" -> p.op = "join" /\ (IsEmpty(p.l) \/ IsEmpty(p.r))
                              /\ (G(name) => \/ p.jt \in {"inner", "semi"}
                                             \/ (p.jt \in {"left", "anti"} /\ IsEmpty(p.l))
                                             \/ (p.jt = "right" /\ IsEmpty(p.r))
                                             \/ (p.jt = "full" /\ IsEmpty(p.l) /\ IsEmpty(p.r)))
    [] name = "empty_agg" -> p.op = "agg" /\ IsEmpty(p.src) /\ (G(name) => Len(p.keys) > 0)
    [] name = "distinct_groupby" -> p.op = "distinct"
    [] name = "single_distinct" -> p.op = "agg" /\ Len(p.aggs) >= 1 /\ p.aggs[1].distinct /\ SeqAll(p.keys, Simple) /\ Simple(p.aggs[1].e)
                                   /\ (G(name) => \A i \in 1..Len(p.aggs) : p.aggs[i].distinct /\ p.aggs[i].e = p.aggs[1].e)
    [] name = "union_filter" -> p.op = "setop" /\ p.f = "union" /\ p.l.op = "filter" /\ p.r.op = "filter" /\ p.l.src = p.r.src
                                /\ Simple(p.l.p) /\ Simple(p.r.p) /\ (G(name) => ~p.all)
    [] name = "null_join_keys" -> p.op = "join" /\ Conj(p.on)[1].op = "bin" /\ Conj(p.on)[1].f = "=" /\ Conj(p.on)[1].l.op = "col"
                                  /\ Conj(p.on)[1].l.i <= p.lw /\ (G(name) => p.jt \in {"inner", "right", "semi"})
    [] name = "sort_const" -> p.op = "sort" /\ \A k \in 1..Len(p.keys) : ConstCol(p.src, p.keys[k].i, G(name))

Rw(name, p) ==
  LET j == p.src IN
  CASE name = "filter_join_left" -> [j EXCEPT !.l = Filter(p.p, j.l)]
    [] name = "filter_join_right" -> [j EXCEPT !.r = Filter(Shift(p.p, j.lw + j.rw, j.lw), j.r)]
    [] name = "on_to_right" -> [p EXCEPT !.on = Conj(p.on)[1], !.r = Filter(Shift(Conj(p.on)[2], p.lw + p.rw, p.lw), p.r)]
    [] name = "on_to_left" -> [p EXCEPT !.on = Conj(p.on)[1], !.l = Filter(Conj(p.on)[2], p.l)]
    [] name = "filter_agg" -> [j EXCEPT !.src = Filter(Subst(p.p, j.keys), j.src)]
    [] name = "outer_to_inner" ->
         LET rl == NullRej(p.p, OuterSideNulls(j)[1])  rr == NullRej(p.p, OuterSideNulls(j)[2])
             jt2 == IF ~G(name) THEN "inner"
                    ELSE IF j.jt = "full" THEN (IF rl /\ rr THEN "inner" ELSE IF rl THEN "left" ELSE IF rr THEN "right" ELSE "full")
                    ELSE "inner" IN
         [p EXCEPT !.src = [j EXCEPT !.jt = jt2]]
    [] name = "limit_project" -> [j EXCEPT !.src = Limit(p.skip, p.fetch, j.src)]
    [] name = "limit_union" -> [p EXCEPT !.src = [j EXCEPT !.l = Limit(0, p.skip + p.fetch, j.l), !.r = Limit(0, p.skip + p.fetch, j.r)]]
    [] name = "limit_join" -> [p EXCEPT !.src = IF j.jt = "right" THEN [j EXCEPT !.r = Limit(0, p.skip + p.fetch, j.r)]
                                                ELSE [j EXCEPT !.l = Limit(0, p.skip + p.fetch, j.l)]]
    [] name = "limit_filter" -> [j EXCEPT !.src = Limit(p.skip, p.fetch, j.src)]
    [] name = "limit_agg" -> [j EXCEPT !.src = Limit(p.skip, p.fetch, j.src)]
    [] name = "empty_join" -> EmptyOf(p)
    [] name = "empty_agg" -> EmptyOf(p)
    [] name = "distinct_groupby" -> [op |-> "agg", keys |-> [i \in 1..Width(p.src) |-> Col(i)], aggs |-> <<>>, src |-> p.src]
    [] name = "single_distinct" ->
         LET nk == Len(p.keys) IN
         [op |-> "agg", keys |-> [i \in 1..nk |-> Col(i)],
          aggs |-> [i \in 1..Len(p.aggs) |-> [f |-> p.aggs[i].f, e |-> Col(nk + 1), distinct |-> FALSE]],
          src |-> [op |-> "agg", keys |-> Append(p.keys, p.aggs[1].e), aggs |-> <<>>, src |-> p.src]]
    [] name = "union_filter" ->
         LET f == Filter(Bin("or", p.l.p, p.r.p), p.l.src) IN IF p.all THEN f ELSE [op |-> "distinct", src |-> f]
    [] name = "null_join_keys" -> [p EXCEPT !.l = Filter(Un("isnotnull", Conj(p.on)[1].l), p.l)]
    [] name = "sort_const" -> p.src

\* apply at the first matching node (top-down, left to right)
RECURSIVE Matches(_, _), RwAny(_, _)
Kids(p) == IF p.op \in {"join", "setop", "lateral"} THEN <<p.l, p.r>> ELSE IF p.op \in {"scan", "ufilter"} THEN <<>> ELSE <<p.src>>
Matches(name, p) == Applies(name, p) \/ \E i \in 1..Len(Kids(p)) : Matches(name, Kids(p)[i])
RwAny(name, p) ==
  IF Applies(name, p) THEN Rw(name, p)
  ELSE IF p.op \in {"join", "setop", "lateral"}
         THEN IF Matches(name, p.l) THEN [p EXCEPT !.l = RwAny(name, p.l)] ELSE [p EXCEPT !.r = RwAny(name, p.r)]
         ELSE [p EXCEPT !.src = RwAny(name, p.src)]

(* ---------------- equivalence ---------------- *)
Equiv(p, q, db) ==
  LET a == EvalPlan(p, <<>>, db)  b == EvalPlan(q, <<>>, db)  m == Mode(p) IN
  IF a.err \/ b.err THEN TRUE
  ELSE IF m = "bag" THEN SameBag(a.rows, b.rows)
  ELSE IF m = "ordered" THEN SameBag(a.rows, b.rows) /\ IsSortedBy(b.rows, p.keys)
  ELSE \* LIMIT root: same number of rows, drawn from the limit's input (for top-k: same key sequence)
       /\ Len(a.rows) = Len(b.rows)
       /\ IsSubBag(b.rows, UniverseOf(p, db))
       /\ (m = "topk" => \A i \in 1..Len(a.rows) : \A k \in 1..Len(p.src.keys) :
                            a.rows[i][p.src.keys[k].i] = b.rows[i][p.src.keys[k].i])

(* ---------------- plan families shaped for each schema ---------------- *)
SidePred(sch, lo, hi, sd) ==    \* predicate over columns lo..hi of schema sch (one column, or a constant)
  LET c == lo + Rnd(MixS(sd, 1), hi - lo + 1) IN
  IF Chance(10, MixS(sd, 2)) THEN PickSeq(<<FalseE, LitT(Null, "b"), TrueE>>, MixS(sd, 3))
  ELSE IF sch[c] = "b" THEN PickSeq(<<Col(c), Un("isnottrue", Col(c)), Un("isnull", Col(c))>>, MixS(sd, 3))
  ELSE ColPred(c, sch[c], MixS(sd, 3))
JoinOf(jt, on, a, b) == [op |-> "join", jt |-> jt, on |-> on, l |-> a.p, r |-> b.p, lw |-> Len(a.sch), rw |-> Len(b.sch)]
EqOn(a, b, sd) ==
  IF ColsOf(a.sch, "i") # {} /\ ColsOf(b.sch, "i") # {}
    THEN Bin("=", Col(PickCol(a.sch, "i", MixS(sd, 1))), Col(Len(a.sch) + PickCol(b.sch, "i", MixS(sd, 2))))
    ELSE TrueE
AllJt == <<"inner", "left", "right", "full", "semi", "anti">>
OutJt == <<"inner", "left", "right", "full">>
Input(sd) == GenS(IF Chance(60, sd) THEN 0 ELSE 1, MixS(sd, 5))

Family(name, sd) ==
  LET a == Input(MixS(sd, 1))  b == Input(MixS(sd, 2))
      lw == Len(a.sch)  rw == Len(b.sch)  both == a.sch \o b.sch
      jt == PickSeq(AllJt, MixS(sd, 3))  ojt == PickSeq(OutJt, MixS(sd, 3))
      on == EqOn(a, b, MixS(sd, 4))
      sk == Rnd(MixS(sd, 6), 2)  fe == Rnd(MixS(sd, 7), 3)
      nk == Rnd(MixS(sd, 8), 3)
      keys == [k \in 1..nk |-> Col(Rnd(MixS(sd, 20 + k), lw) + 1)]
      kks == [k \in 1..nk |-> a.sch[keys[k].i]]
      ag == GenAgg(a.sch, MixS(sd, 9)).a
      aggP == [op |-> "agg", keys |-> keys, aggs |-> <<ag>>, src |-> a.p] IN
  CASE name = "filter_join_left" -> Filter(SidePred(both, 1, lw, MixS(sd, 10)), JoinOf(jt, on, a, b))
    [] name = "filter_join_right" -> Filter(SidePred(both, lw + 1, lw + rw, MixS(sd, 10)), JoinOf(ojt, on, a, b))
    [] name = "on_to_right" -> JoinOf(jt, Bin("and", on, SidePred(both, lw + 1, lw + rw, MixS(sd, 10))), a, b)
    [] name = "on_to_left" -> JoinOf(jt, Bin("and", on, SidePred(both, 1, lw, MixS(sd, 10))), a, b)
    [] name = "filter_agg" -> Filter(IF nk = 0 THEN PickSeq(<<FalseE, TrueE, LitT(Null, "b")>>, MixS(sd, 10))
                                     ELSE SidePred(kks, 1, nk, MixS(sd, 10)), aggP)
    [] name = "outer_to_inner" -> Filter(IF Chance(70, MixS(sd, 11)) THEN SidePred(both, 1, lw + rw, MixS(sd, 10))
                                         ELSE GenE("b", 2, both, <<>>, MixS(sd, 10)),
                                         JoinOf(PickSeq(<<"left", "right", "full">>, MixS(sd, 3)), on, a, b))
    [] name = "limit_project" -> Limit(sk, fe, [op |-> "project", es |-> [k \in 1..2 |-> GenE("i", 1, a.sch, <<>>, MixS(sd, 30 + k))], src |-> a.p])
    [] name = "limit_union" -> Limit(sk, fe, [op |-> "setop", f |-> "union", all |-> Chance(50, MixS(sd, 10)), l |-> a.p,
                                              r |-> [op |-> "project", es |-> [k \in 1..lw |-> GenE(a.sch[k], 0, b.sch, <<>>, MixS(sd, 30 + k))], src |-> b.p]])
    [] name = "limit_join" -> Limit(0, 1 + Rnd(MixS(sd, 7), 2), JoinOf(ojt, on, a, b))   \* small fetch: the pushed limit really truncates
    [] name = "limit_filter" -> Limit(sk, fe, Filter(SidePred(a.sch, 1, lw, MixS(sd, 10)), a.p))
    [] name = "limit_agg" -> Limit(sk, fe, aggP)
    [] name = "empty_join" -> LET e == PickSeq(<<FalseE, LitT(Null, "b")>>, MixS(sd, 10))
                                  l2 == IF Chance(50, MixS(sd, 11)) THEN [a EXCEPT !.p = Filter(e, a.p)] ELSE a
                                  r2 == IF l2 = a \/ Chance(30, MixS(sd, 12)) THEN [b EXCEPT !.p = Filter(e, b.p)] ELSE b IN
                              JoinOf(jt, on, l2, r2)
    [] name = "empty_agg" -> [aggP EXCEPT !.src = IF Chance(50, MixS(sd, 10)) THEN Filter(FalseE, a.p) ELSE Limit(0, 0, a.p)]
    [] name = "distinct_groupby" -> [op |-> "distinct", src |-> a.p]
    [] name = "single_distinct" ->
         LET x == IF ColsOf(a.sch, "i") # {} THEN Col(PickCol(a.sch, "i", MixS(sd, 10))) ELSE LitT(I(1), "i")
             d1 == [f |-> PickSeq(<<"count", "sum", "min", "max">>, MixS(sd, 11)), e |-> x, distinct |-> TRUE]
             d2 == PickSeq(<<[f |-> "countstar", e |-> LitT(I(1), "i"), distinct |-> FALSE],
                             [f |-> "sum", e |-> x, distinct |-> FALSE],
                             [f |-> "count", e |-> x, distinct |-> TRUE]>>, MixS(sd, 12)) IN
         [aggP EXCEPT !.aggs = IF Chance(50, MixS(sd, 13)) THEN <<d1>> ELSE <<d1, d2>>]
    [] name = "union_filter" ->
         [op |-> "setop", f |-> "union", all |-> Chance(50, MixS(sd, 10)),
          l |-> Filter(SidePred(a.sch, 1, lw, MixS(sd, 11)), a.p), r |-> Filter(SidePred(a.sch, 1, lw, MixS(sd, 12)), a.p)]
    [] name = "null_join_keys" -> JoinOf(jt, on, a, b)
    [] name = "sort_const" ->
         LET cb == [p |-> [op |-> "project", es |-> <<Col(1), LitT(I(1), "i")>>, src |-> b.p], sch |-> <<b.sch[1], "i">>]
             ca == [p |-> [op |-> "project", es |-> <<Col(1), LitT(I(2), "i")>>, src |-> a.p], sch |-> <<a.sch[1], "i">>]
             on2 == IF a.sch[1] = "i" /\ b.sch[1] = "i" THEN Bin("=", Col(1), Col(3)) ELSE TrueE
             key == PickSeq(<<2, 4>>, MixS(sd, 10)) IN
         [op |-> "sort", keys |-> <<[i |-> key, asc |-> Chance(50, MixS(sd, 11)), nf |-> Chance(50, MixS(sd, 12))]>>,
          src |-> JoinOf(ojt, on2, ca, cb)]

(* ---------------- model ---------------- *)
VARIABLES rw, k, kind
rvars == <<rw, k, kind, n, dbseed, planseed>>
RInit == /\ rw \in 1..Len(RwNames) /\ k \in 1..NPLANS /\ kind \in {"family", "anywhere"}
         /\ n = 0 /\ dbseed = RandomElement(1..(M - 1)) /\ planseed = RandomElement(1..(M - 1))
RNext == UNCHANGED rvars

PlanOf == IF kind = "family" THEN Family(RwNames[rw], planseed) ELSE GenS(DEPTH, planseed).p
Fires == IF kind = "family" THEN Applies(RwNames[rw], PlanOf) ELSE Matches(RwNames[rw], PlanOf)
After == IF kind = "family" THEN Rw(RwNames[rw], PlanOf) ELSE RwAny(RwNames[rw], PlanOf)
DBs == [d \in 1..NDBS |-> GenDB(MixS(dbseed, d))]

\* the design-level statement: a rewrite that applies preserves the result on every database of the slice
Sound == Fires => \A d \in 1..NDBS : Equiv(PlanOf, After, DBs[d])
\* bookkeeping for the driver: which schema fired (vacuity accounting) / was refuted (UNGUARDED runs)
Count == PrintT(<<"RW", RwNames[rw], kind, IF Fires THEN "fired" ELSE "idle">>)
Report == IF Sound THEN TRUE ELSE PrintT(<<"REFUTED", RwNames[rw], kind, ToJson([plan |-> PlanOf, after |-> After, dbseed |-> dbseed])>>)
=============================================================================
