------------------------------- MODULE SemGen -------------------------------
(***************************************************************************)
(* Case generator of the plan-level semantic checks C03 / C02 / C48.        *)
(* Same AST, reference semantics (Rel.EvalPlan) and seed threading as       *)
(* gen/PlanGen, with                                                        *)
(*   - operator weights shifted towards the shapes logical rewrites act on  *)
(*     (filters over joins of every type, aggregates over joins, filters    *)
(*     over aggregates, subqueries in WHERE and in the select list, unions  *)
(*     of filters over one table, constant predicates, DISTINCT over        *)
(*     aggregates, ORDER BY / LIMIT / OFFSET over all of these);            *)
(*   - every plan evaluated on 1 + NDB databases of the same schema (a      *)
(*     rewrite is wrong only on specific data: a NULL in a join key, an     *)
(*     empty side, duplicates), each with its own reference result.         *)
(* One TLC initial state = one case; EmitS prints <<"CASE", json>>.         *)
(***************************************************************************)
EXTENDS PlanGen

CONSTANTS NDB      \* number of additional databases per plan

\* PlanGen's Mix is affine in both arguments, so two sub-seeds MixS(sd, j), MixS(sd, k) of one seed differ by a constant and the
\* choices drawn from them are correlated (e.g. join type and LIMIT count).  The generators of this directory derive their
\* sub-seeds through a squaring step (46336^2 < 2^31).
MixS(sd, k) == LET x == Mix(sd, k) IN (x * x + 101 * k + sd) % M

(* ---------------- expressions with a bias to rewrite-relevant predicates ---------------- *)
\* a one-column predicate that is NOT null-rejecting / is null-rejecting, over column c of kind k
ColPred(c, k, sd) ==
  LET x == Col(c)
      l == GenLit(k, MixS(sd, 1))
      ch == Rnd(MixS(sd, 2), 10) + 1 IN
  CASE ch = 1 -> Un("isnull", x)
    [] ch = 2 -> Un("isnotnull", x)
    [] ch = 3 -> Bin("=", Coalesce(<<x, l>>), l)
    [] ch = 4 -> Un("isnottrue", Bin("=", x, l))
    [] ch = 5 -> Bin("isdistinct", x, l)
    [] ch = 6 -> Bin("isnotdistinct", x, l)
    [] ch = 7 -> Bin("or", Bin("<", x, l), Un("isnull", x))
    [] ch = 8 -> Un("not", Bin(">=", x, l))
    [] OTHER -> Bin(PickSeq(<<"=", "<>", "<", ">=">>, MixS(sd, 3)), x, l)

\* predicate for a filter: generic random expression, or a one-column predicate, or a constant
FilterPred(sch, sd) ==
  LET ch == Rnd(MixS(sd, 1), 100)
      c == Rnd(MixS(sd, 2), Len(sch)) + 1 IN
  IF ch < 45 THEN GenE("b", EDEPTH, sch, <<>>, MixS(sd, 3))
  ELSE IF ch < 85 /\ sch[c] \in {"i", "s"} THEN ColPred(c, sch[c], MixS(sd, 4))
  ELSE IF ch < 92 /\ sch[c] \in {"i", "s"} THEN Bin("and", ColPred(c, sch[c], MixS(sd, 4)), GenE("b", 1, sch, <<>>, MixS(sd, 5)))
  ELSE IF ch < 96 /\ sch[c] = "b" THEN Col(c)
  ELSE PickSeq(<<LitT(FalseV, "b"), LitT(TrueV, "b"), LitT(Null, "b"),
                 Bin("=", LitT(I(1), "i"), LitT(I(0), "i"))>>, MixS(sd, 6))

\* scalar subquery expression (global aggregate over a possibly correlated, possibly filtered scan)
ScalarSubE(sch, sd) ==
  LET t == Rnd(MixS(sd, 1), NT) + 1
      tsch == Schemas[t]
      tcol == Col(PickCol(tsch, "i", MixS(sd, 2)))
      correlated == ColsOf(sch, "i") # {} /\ Chance(70, MixS(sd, 4))
      corr == IF correlated THEN Bin("=", tcol, [op |-> "outer", i |-> PickCol(sch, "i", MixS(sd, 3))])
              ELSE GenE("b", 1, tsch, <<>>, MixS(sd, 5))
      base == IF correlated \/ Chance(60, MixS(sd, 6)) THEN [op |-> "filter", p |-> corr, src |-> [op |-> "scan", t |-> t]]
              ELSE [op |-> "scan", t |-> t]
      f == PickSeq(<<"count", "countstar", "sum", "min", "max", "count">>, MixS(sd, 11)) IN
  [op |-> "scalarsub", sub |-> [op |-> "agg", keys |-> <<>>,
       aggs |-> <<[f |-> f, e |-> IF f = "countstar" THEN LitT(I(1), "i") ELSE Col(PickCol(tsch, "i", MixS(sd, 9))),
                   distinct |-> FALSE]>>,
       src |-> base]]

(* ---------------- plans ---------------- *)
\* e <cmp> ANY / ALL (one-column subquery), uncorrelated or correlated on one column
QuantPred(sch, sd) ==
  LET t == Rnd(MixS(sd, 1), NT) + 1
      tsch == Schemas[t]
      tcol == Col(PickCol(tsch, "i", MixS(sd, 2)))
      correlated == Chance(35, MixS(sd, 4))
      corr == IF correlated THEN Bin("=", tcol, [op |-> "outer", i |-> PickCol(sch, "i", MixS(sd, 3))])
              ELSE GenE("b", 1, tsch, <<>>, MixS(sd, 5))
      base == IF correlated \/ Chance(50, MixS(sd, 6)) THEN [op |-> "filter", p |-> corr, src |-> [op |-> "scan", t |-> t]]
              ELSE [op |-> "scan", t |-> t] IN
  [op |-> "quant", f |-> PickSeq(<<"=", "<>", "<", "<=", ">", ">=">>, MixS(sd, 7)), all |-> Chance(50, MixS(sd, 8)),
   e |-> Col(PickCol(sch, "i", MixS(sd, 9))),
   sub |-> [op |-> "project", es |-> <<Col(PickCol(tsch, "i", MixS(sd, 10)))>>, src |-> base]]

\* expressions that repeat one partial (division) subexpression inside conditional branches: CASE / COALESCE are lazy in
\* the reference, so a rewrite that evaluates the shared subexpression unconditionally shows as an evaluation error
CseExprs(sch, sd) ==
  LET x == IF ColsOf(sch, "i") # {} THEN Col(PickCol(sch, "i", MixS(sd, 1))) ELSE LitT(I(1), "i")
      y == IF ColsOf(sch, "i") # {} THEN Col(PickCol(sch, "i", MixS(sd, 2))) ELSE LitT(I(0), "i")
      A == Bin(PickSeq(<<"/", "%", "/">>, MixS(sd, 3)), x, y)
      P == Bin("<>", y, LitT(I(0), "i"))
      Z == LitT(Null, "i") IN
  << CaseE(<< <<P, A>> >>, LitT(I(0), "i")),
     CaseE(<< <<P, Bin("+", A, LitT(I(1), "i"))>> >>, Z),
     Coalesce(<<CaseE(<< <<P, A>> >>, Z), LitT(I(2), "i")>>),
     CaseE(<< <<P, Bin(">", A, LitT(I(0), "i"))>> >>, LitT(FalseV, "b")),
     CaseE(<< <<Bin("and", P, Un("isnotnull", x)), Bin("*", A, A)>> >>, x) >>

AllColsKeys(w, sd) == [j \in 1..w |-> [i |-> j, asc |-> Chance(50, MixS(sd, 20 + j)), nf |-> Chance(50, MixS(sd, 30 + j))]]

RECURSIVE GenSC(_, _, _)
GenS(d, sd) == GenSC(d, sd, 0)
\* forced > 0 fixes the operator chosen at this level (quota of shapes per run, see Focus below)
GenSC(d, sd, forced) ==
  IF d = 0 THEN Scan(Rnd(sd, NT) + 1)
  ELSE
    LET c == IF forced > 0 THEN forced ELSE Rnd(MixS(sd, 1), 47) + 1
        s == GenSC(d - 1, MixS(sd, 2), 0)
        r0 == GenSC(IF Chance(65, MixS(sd, 3)) THEN 0 ELSE d - 1, MixS(sd, 4), 0)
        w == Len(s.sch)
        icol(k) == IF ColsOf(s.sch, "i") # {} THEN PickCol(s.sch, "i", MixS(sd, k)) ELSE 0 IN
    CASE c \in {1, 2, 3, 4, 5} ->
           IF ColsOf(s.sch, "i") # {} /\ Has("quant") /\ Chance(12, MixS(sd, 7))
             THEN [p |-> [op |-> "filter", p |-> QuantPred(s.sch, MixS(sd, 6)), src |-> s.p], sch |-> s.sch]
           ELSE IF ColsOf(s.sch, "i") # {} /\ Has("subquery") /\ Chance(35, MixS(sd, 5))
             THEN [p |-> [op |-> "filter", p |-> SubPred(s.sch, MixS(sd, 6)), src |-> s.p], sch |-> s.sch]
             ELSE [p |-> [op |-> "filter", p |-> FilterPred(s.sch, MixS(sd, 6)), src |-> s.p], sch |-> s.sch]
      [] c = 33 /\ Has("quant") /\ ColsOf(s.sch, "i") # {} ->
           [p |-> [op |-> "filter", p |-> QuantPred(s.sch, MixS(sd, 6)), src |-> s.p], sch |-> s.sch]
      [] c = 23 /\ Has("window") ->
           LET f0 == PickSeq(<<"rank", "dense_rank", "row_number", "sum", "count", "min", "max", "countstar", "rank", "sum">>, MixS(sd, 5))
               f == IF f0 \in {"sum", "count", "min", "max"} /\ icol(6) = 0 THEN "countstar" ELSE f0
               np == Rnd(MixS(sd, 7), 3)
               part == [j \in 1..np |-> Rnd(MixS(sd, 40 + j), w) + 1]
               order == IF f = "row_number" THEN AllColsKeys(w, MixS(sd, 8))
                        ELSE IF f \in {"rank", "dense_rank"} \/ Chance(50, MixS(sd, 9))
                          THEN [j \in 1..(Rnd(MixS(sd, 10), 2) + 1) |->
                                  [i |-> Rnd(MixS(sd, 50 + j), w) + 1, asc |-> Chance(50, MixS(sd, 60 + j)), nf |-> Chance(50, MixS(sd, 70 + j))]]
                          ELSE <<>> IN
           [p |-> [op |-> "window", f |-> f, part |-> part, order |-> order,
                   arg |-> IF f \in {"sum", "count", "min", "max"} THEN icol(6) ELSE 0, src |-> s.p],
            sch |-> Append(s.sch, "i")]
      [] c = 24 /\ Has("lateral") /\ ColsOf(s.sch, "i") # {} ->
           LET t == Rnd(MixS(sd, 5), NT) + 1
               tsch == Schemas[t]
               corr0 == Bin("=", Col(PickCol(tsch, "i", MixS(sd, 6))), [op |-> "outer", i |-> icol(7)])
               corr == IF Chance(30, MixS(sd, 8)) THEN Bin("and", corr0, GenE("b", 1, tsch, <<>>, MixS(sd, 9))) ELSE corr0
               base == [op |-> "filter", p |-> corr, src |-> [op |-> "scan", t |-> t]]
               ch == Rnd(MixS(sd, 10), 3)
               ag == PickSeq(<<"count", "countstar", "sum", "min", "max", "count">>, MixS(sd, 11))
               r == IF ch = 0 THEN [p |-> base, sch |-> tsch]
                    ELSE IF ch = 1 THEN [p |-> [op |-> "project", es |-> <<Col(PickCol(tsch, "i", MixS(sd, 12))), GenE("i", 1, tsch, <<>>, MixS(sd, 13))>>, src |-> base],
                                         sch |-> <<"i", "i">>]
                    ELSE [p |-> [op |-> "agg", keys |-> <<>>, src |-> base,
                                 aggs |-> <<[f |-> ag, e |-> IF ag = "countstar" THEN LitT(I(1), "i") ELSE Col(PickCol(tsch, "i", MixS(sd, 12))), distinct |-> FALSE]>>],
                          sch |-> <<"i">>] IN
           [p |-> [op |-> "lateral", jt |-> PickSeq(<<"inner", "left">>, MixS(sd, 14)), l |-> s.p, r |-> r.p, lw |-> w, rw |-> Len(r.sch)],
            sch |-> s.sch \o r.sch]
      [] c = 25 /\ Has("having") /\ Has("agg") ->
           LET nk == Rnd(MixS(sd, 5), 3)
               kks == [j \in 1..nk |-> PickSeq(KindSeq, MixS(sd, 20 + j))]
               keys == [j \in 1..nk |-> GenE(kks[j], 0, s.sch, <<>>, MixS(sd, 30 + j))]
               as == [j \in 1..(Rnd(MixS(sd, 6), 2) + 1) |-> GenAgg(s.sch, MixS(sd, 50 + j))]
               osch == kks \o [j \in 1..Len(as) |-> as[j].k] IN
           [p |-> [op |-> "filter", having |-> TRUE, p |-> FilterPred(osch, MixS(sd, 7)),
                   src |-> [op |-> "agg", keys |-> keys, aggs |-> [j \in 1..Len(as) |-> as[j].a], src |-> s.p]],
            sch |-> osch]
      [] c = 26 /\ Has("sets") /\ Has("agg") ->
           LET nk == IF w >= 3 /\ Chance(40, MixS(sd, 5)) THEN 3 ELSE 2
               kc == [j \in 1..nk |-> Rnd(MixS(sd, 20 + j), w) + 1]
               sets == IF nk = 3 THEN PickSeq(<< <<{1, 2, 3}, {1, 2}, {1}>>, <<{1}, {2, 3}>>, <<{1, 2}, {3}, {1, 2, 3}>> >>, MixS(sd, 6))
                       ELSE PickSeq(<< <<{1, 2}, {1}>>, <<{1}, {2}>>, <<{1, 2}, {2}, {1}>> >>, MixS(sd, 6))
               as == [j \in 1..(Rnd(MixS(sd, 7), 2) + 1) |-> GenAgg(s.sch, MixS(sd, 50 + j))] IN
           [p |-> [op |-> "aggsets", keys |-> [j \in 1..nk |-> Col(kc[j])], sets |-> sets, aggs |-> [j \in 1..Len(as) |-> as[j].a], src |-> s.p],
            sch |-> [j \in 1..nk |-> s.sch[kc[j]]] \o [j \in 1..Len(as) |-> as[j].k]]
      [] c = 27 /\ Has("distincton") ->
           [p |-> [op |-> "distincton", n |-> IF w = 1 THEN 1 ELSE Rnd(MixS(sd, 5), w - 1) + 1, src |-> s.p], sch |-> s.sch]
      [] c \in {28, 34, 35} /\ Has("pack") ->
           LET pk == [op |-> "pack", src |-> s.p]
               ch == IF c = 28 THEN 0 ELSE IF c = 34 THEN 1 ELSE 2
               ks == [j \in 1..(Rnd(MixS(sd, 6), 2) + 1) |-> PickSeq(KindSeq, MixS(sd, 20 + j))]
               ga == GenAgg(s.sch, MixS(sd, 8))
               kc == Rnd(MixS(sd, 9), w) + 1 IN
           IF ch = 0 THEN [p |-> [op |-> "filter", p |-> FilterPred(s.sch, MixS(sd, 7)), src |-> pk], sch |-> s.sch]
           ELSE IF ch = 1 THEN [p |-> [op |-> "project", es |-> [j \in 1..Len(ks) |-> GenE(ks[j], 1, s.sch, <<>>, MixS(sd, 30 + j))], src |-> pk], sch |-> ks]
           ELSE [p |-> [op |-> "agg", keys |-> <<Col(kc)>>, aggs |-> <<ga.a>>, src |-> pk], sch |-> <<s.sch[kc], ga.k>>]
      \* ---- shapes that make one particular rewrite applicable (used through Focus; reachable at random too) ----
      [] c = 36 /\ Has("join") /\ ColsOf(s.sch, "i") # {} /\ ColsOf(r0.sch, "i") # {} ->
           \* null-rejecting filter on the null-supplying side of an outer join (outer-join elimination)
           LET lw == w  rw == Len(r0.sch)
               jt == PickSeq(<<"left", "right", "full">>, MixS(sd, 5))
               lk == icol(6)  rk == lw + PickCol(r0.sch, "i", MixS(sd, 7))
               cx == IF jt = "left" THEN rk ELSE IF jt = "right" THEN lk ELSE PickSeq(<<lk, rk>>, MixS(sd, 8))
               pr == PickSeq(<<Bin(">=", Col(cx), LitT(I(0), "i")), Un("isnotnull", Col(cx)), Bin("=", Col(cx), Col(IF cx = lk THEN rk ELSE lk)),
                               Bin("or", Bin("<", Col(cx), LitT(I(1), "i")), Un("isnull", Col(cx))), Un("isnull", Col(cx))>>, MixS(sd, 9)) IN
           [p |-> [op |-> "filter", p |-> pr,
                   src |-> [op |-> "join", jt |-> jt, on |-> Bin("=", Col(lk), Col(rk)), l |-> s.p, r |-> r0.p, lw |-> lw, rw |-> rw]],
            sch |-> s.sch \o r0.sch]
      [] c = 37 /\ Has("join") /\ ColsOf(s.sch, "i") # {} /\ ColsOf(r0.sch, "i") # {} ->
           \* keyless inner join with the join predicate in a filter above it (cross-join elimination)
           LET lw == w  rw == Len(r0.sch)
               eq == Bin("=", Col(icol(6)), Col(lw + PickCol(r0.sch, "i", MixS(sd, 7))))
               pr == IF Chance(50, MixS(sd, 8)) THEN Bin("and", eq, FilterPred(s.sch \o r0.sch, MixS(sd, 9))) ELSE eq IN
           [p |-> [op |-> "filter", p |-> pr,
                   src |-> [op |-> "join", jt |-> "inner", on |-> LitT(TrueV, "b"), l |-> s.p, r |-> r0.p, lw |-> lw, rw |-> rw]],
            sch |-> s.sch \o r0.sch]
      [] c = 38 /\ Has("agg") /\ ColsOf(s.sch, "i") # {} ->
           \* one DISTINCT aggregate (single-distinct -> group by), alone or next to a second aggregate
           LET x == Col(icol(5))
               nk == Rnd(MixS(sd, 6), 2)
               kc == [j \in 1..nk |-> Rnd(MixS(sd, 20 + j), w) + 1]
               d1 == [f |-> PickSeq(<<"count", "sum">>, MixS(sd, 7)), e |-> x, distinct |-> TRUE]
               d2 == PickSeq(<<[f |-> "countstar", e |-> LitT(I(1), "i"), distinct |-> FALSE], [f |-> "max", e |-> x, distinct |-> FALSE],
                               [f |-> "count", e |-> x, distinct |-> TRUE]>>, MixS(sd, 8))
               as == IF Chance(50, MixS(sd, 9)) THEN <<d1>> ELSE <<d1, d2>> IN
           [p |-> [op |-> "agg", keys |-> [j \in 1..nk |-> Col(kc[j])], aggs |-> as, src |-> s.p],
            sch |-> [j \in 1..nk |-> s.sch[kc[j]]] \o [j \in 1..Len(as) |-> "i"]]
      [] c = 39 /\ Has("subquery") ->
           [p |-> [op |-> "project", es |-> <<Col(Rnd(MixS(sd, 5), w) + 1), ScalarSubE(s.sch, MixS(sd, 8))>>, src |-> s.p],
            sch |-> <<s.sch[Rnd(MixS(sd, 5), w) + 1], "i">>]
      [] c = 40 /\ Has("agg") ->
           \* constant and duplicated grouping keys
           LET k1 == Rnd(MixS(sd, 5), w) + 1
               ga == GenAgg(s.sch, MixS(sd, 6))
               keys == PickSeq(<< <<LitT(I(1), "i"), Col(k1)>>, <<Col(k1), Col(k1)>>, <<Col(k1), LitT(S(1), "s"), Col(k1)>> >>, MixS(sd, 7))
               kk(e) == IF e.op = "lit" THEN e.t ELSE s.sch[k1] IN
           [p |-> [op |-> "agg", keys |-> keys, aggs |-> <<ga.a>>, src |-> s.p], sch |-> [j \in 1..Len(keys) |-> kk(keys[j])] \o <<ga.k>>]
      [] c = 42 /\ Has("join") ->
           \* a join that can never match / an input that is empty (join elimination, empty-relation propagation)
           LET lw == w  rw == Len(r0.sch)
               jt == PickSeq(<<"inner", "left", "right", "full", "semi", "anti">>, MixS(sd, 5))
               ch == Rnd(MixS(sd, 6), 3)
               fe == PickSeq(<<LitT(FalseV, "b"), LitT(Null, "b"), Bin("=", LitT(I(1), "i"), LitT(I(0), "i"))>>, MixS(sd, 7))
               l2 == IF ch = 1 THEN [op |-> "filter", p |-> fe, src |-> s.p] ELSE s.p
               r2 == IF ch = 2 THEN [op |-> "filter", p |-> fe, src |-> r0.p] ELSE r0.p
               on == IF ch = 0 THEN fe ELSE LitT(TrueV, "b") IN
           [p |-> [op |-> "join", jt |-> jt, on |-> on, l |-> l2, r |-> r2, lw |-> lw, rw |-> rw],
            sch |-> IF jt \in {"semi", "anti"} THEN s.sch ELSE s.sch \o r0.sch]
      [] c = 44 /\ Has("setop") ->
           \* nested unions (flattening), one branch possibly empty
           LET br(k) == [op |-> "project", es |-> [j \in 1..w |-> GenE(s.sch[j], 0, s.sch, <<>>, MixS(sd, 30 * k + j))], src |-> s.p]
               al == Chance(60, MixS(sd, 5))
               b3 == IF Chance(30, MixS(sd, 6)) THEN [op |-> "filter", p |-> LitT(FalseV, "b"), src |-> br(3)] ELSE br(3) IN
           [p |-> [op |-> "setop", f |-> "union", all |-> al,
                   l |-> [op |-> "setop", f |-> "union", all |-> al, l |-> s.p, r |-> br(2)], r |-> b3], sch |-> s.sch]
      [] c = 45 ->
           [p |-> [op |-> "filter", p |-> PickSeq(<<LitT(FalseV, "b"), LitT(TrueV, "b"), LitT(Null, "b"), Bin("=", LitT(I(1), "i"), LitT(I(0), "i")),
                                                   Bin("or", LitT(TrueV, "b"), FilterPred(s.sch, MixS(sd, 6)))>>, MixS(sd, 5)), src |-> s.p], sch |-> s.sch]
      [] c = 46 /\ Has("subquery") /\ ColsOf(s.sch, "i") # {} ->
           [p |-> [op |-> "filter", p |-> SubPred(s.sch, MixS(sd, 6)), src |-> s.p], sch |-> s.sch]
      [] c = 47 /\ Has("pack") /\ Has("join") /\ ColsOf(s.sch, "i") # {} /\ ColsOf(r0.sch, "i") # {} ->
           \* join whose inputs are struct columns: the ON clause reads fields of columns of both sides
           LET lw == w  rw == Len(r0.sch)
               both == s.sch \o r0.sch
               eq == Bin(PickSeq(<<"=", "=", "<">>, MixS(sd, 5)), Col(icol(6)), Col(lw + PickCol(r0.sch, "i", MixS(sd, 7))))
               on == IF Chance(40, MixS(sd, 8)) THEN Bin("and", eq, GenE("b", 1, both, <<>>, MixS(sd, 9))) ELSE eq
               jt == PickSeq(<<"inner", "left", "right", "full", "semi", "anti">>, MixS(sd, 10)) IN
           [p |-> [op |-> "join", jt |-> jt, on |-> on, l |-> [op |-> "pack", src |-> s.p], r |-> [op |-> "pack", src |-> r0.p], lw |-> lw, rw |-> rw],
            sch |-> IF jt \in {"semi", "anti"} THEN s.sch ELSE both]
      [] c = 29 /\ Has("tlimit") ->
           \* a LIMIT over a total ORDER BY is a deterministic bag: allowed inside a plan
           [p |-> [op |-> "limit", skip |-> Rnd(MixS(sd, 5), 2), fetch |-> Rnd(MixS(sd, 6), 3) + 1,
                   src |-> [op |-> "sort", keys |-> AllColsKeys(w, MixS(sd, 7)), src |-> s.p]], sch |-> s.sch]
      [] c = 30 /\ Has("cse") /\ Has("case") /\ Has("arith") ->
           LET ce == CseExprs(s.sch, MixS(sd, 5))
               pick == PickSeq(<< <<1, 2>>, <<1, 3, 4>>, <<2, 5, 1>>, <<4, 1>>, <<3, 5>> >>, MixS(sd, 6))
               kind(j) == IF j = 4 THEN "b" ELSE "i" IN
           IF Chance(25, MixS(sd, 7)) THEN [p |-> [op |-> "filter", p |-> Bin("and", ce[4], Bin(">=", ce[1], LitT(I(0), "i"))), src |-> s.p], sch |-> s.sch]
           ELSE [p |-> [op |-> "project", es |-> [j \in 1..Len(pick) |-> ce[pick[j]]], src |-> s.p], sch |-> [j \in 1..Len(pick) |-> kind(pick[j])]]
      [] c \in {31, 32} /\ Has("join") /\ ColsOf(s.sch, "i") # {} /\ ColsOf(r0.sch, "i") # {} ->
           LET lw == w  rw == Len(r0.sch)
               both == s.sch \o r0.sch
               lk == icol(6)  rk == lw + PickCol(r0.sch, "i", MixS(sd, 7))
               eq == Bin("=", Col(lk), Col(rk))
               jt == PickSeq(<<"inner", "left", "right", "full">>, MixS(sd, 10))
               cx == IF Chance(50, MixS(sd, 11)) THEN lk ELSE rk
               on == IF c = 32 THEN Bin("and", eq, ColPred(cx, "i", MixS(sd, 9))) ELSE eq
               j == [op |-> "join", jt |-> jt, on |-> on, l |-> s.p, r |-> r0.p, lw |-> lw, rw |-> rw]
               side == Chance(50, MixS(sd, 12)) IN
           IF c = 31
             THEN \* only one side of the join is used above it
                  LET cols == IF side THEN [k \in 1..lw |-> Col(k)] ELSE [k \in 1..rw |-> Col(lw + k)] IN
                  [p |-> [op |-> "project", es |-> cols, src |-> j], sch |-> IF side THEN s.sch ELSE r0.sch]
             ELSE \* a filter on the column the join filter already constrains (equal / contradicting / overlapping)
                  [p |-> [op |-> "filter", p |-> ColPred(cx, "i", MixS(sd, 13)), src |-> j], sch |-> both]
      [] c \in {6, 7} ->
           LET ks == [j \in 1..(Rnd(MixS(sd, 5), 3) + 1) |-> PickSeq(KindSeq, MixS(sd, 20 + j))]
               es == [j \in 1..Len(ks) |-> GenE(ks[j], EDEPTH, s.sch, <<>>, MixS(sd, 30 + j))]
               withSub == Has("subquery") /\ Chance(35, MixS(sd, 7)) IN
           [p |-> [op |-> "project", es |-> IF withSub THEN Append(es, ScalarSubE(s.sch, MixS(sd, 8))) ELSE es, src |-> s.p],
            sch |-> IF withSub THEN Append(ks, "i") ELSE ks]
      [] c \in {8, 9, 10, 11, 12, 13} /\ Has("join") ->
           LET lw == Len(s.sch)  rw == Len(r0.sch)
               both == s.sch \o r0.sch
               eq == IF ColsOf(s.sch, "i") # {} /\ ColsOf(r0.sch, "i") # {}
                       THEN Bin(PickSeq(<<"=", "=", "=", "=", "<", "isnotdistinct">>, MixS(sd, 5)),
                                Col(PickCol(s.sch, "i", MixS(sd, 6))), Col(lw + PickCol(r0.sch, "i", MixS(sd, 7))))
                       ELSE LitT(TrueV, "b")
               cx == Rnd(MixS(sd, 11), Len(both)) + 1
               extra == IF Chance(50, MixS(sd, 12)) /\ both[cx] \in {"i", "s"}
                          THEN ColPred(cx, both[cx], MixS(sd, 9))
                          ELSE GenE("b", 1, both, <<>>, MixS(sd, 9))
               ch == Rnd(MixS(sd, 8), 100)
               on == IF ch < 40 THEN Bin("and", eq, extra)
                     ELSE IF ch < 45 THEN LitT(FalseV, "b")
                     ELSE IF ch < 50 THEN extra
                     ELSE eq
               jt == PickSeq(<<"inner", "left", "right", "full", "semi", "anti", "left", "right", "full">>, MixS(sd, 10)) IN
           [p |-> [op |-> "join", jt |-> jt, on |-> on, l |-> s.p, r |-> r0.p, lw |-> lw, rw |-> rw],
            sch |-> IF jt \in {"semi", "anti"} THEN s.sch ELSE both]
      [] c \in {14, 15, 16, 17} /\ Has("agg") ->
           LET nk == Rnd(MixS(sd, 5), 3)
               kks == [j \in 1..nk |-> PickSeq(KindSeq, MixS(sd, 20 + j))]
               keys == [j \in 1..nk |-> GenE(kks[j], IF Chance(70, MixS(sd, 40 + j)) THEN 0 ELSE 1, s.sch, <<>>, MixS(sd, 30 + j))]
               as == [j \in 1..(Rnd(MixS(sd, 6), 3) + 1) |-> GenAgg(s.sch, MixS(sd, 50 + j))] IN
           [p |-> [op |-> "agg", keys |-> keys, aggs |-> [j \in 1..Len(as) |-> as[j].a], src |-> s.p],
            sch |-> kks \o [j \in 1..Len(as) |-> as[j].k]]
      [] c \in {18, 19} /\ Has("distinct") -> [p |-> [op |-> "distinct", src |-> s.p], sch |-> s.sch]
      [] c \in {20, 21} /\ Has("setop") /\ ColsOf(s.sch, "i") # {} /\ ColsOf(r0.sch, "i") # {} /\ Chance(50, MixS(sd, 7)) ->
           \* one narrow integer column on both sides: duplicates and common rows are frequent (multiplicities matter for ALL)
           [p |-> [op |-> "setop", f |-> PickSeq(<<"union", "intersect", "except">>, MixS(sd, 5)), all |-> Chance(60, MixS(sd, 6)),
                   l |-> [op |-> "project", es |-> <<Col(PickCol(s.sch, "i", MixS(sd, 8)))>>, src |-> s.p],
                   r |-> [op |-> "project", es |-> <<Col(PickCol(r0.sch, "i", MixS(sd, 9)))>>, src |-> r0.p]],
            sch |-> <<"i">>]
      [] c \in {20, 21} /\ Has("setop") ->
           LET r == [op |-> "project", es |-> [j \in 1..Len(s.sch) |-> GenE(s.sch[j], 1, r0.sch, <<>>, MixS(sd, 30 + j))], src |-> r0.p] IN
           [p |-> [op |-> "setop", f |-> PickSeq(<<"union", "intersect", "except">>, MixS(sd, 5)), all |-> Chance(50, MixS(sd, 6)),
                   l |-> s.p, r |-> r], sch |-> s.sch]
      [] c = 22 /\ Has("setop") ->
           \* UNION [ALL] of 2-3 filters over the same table, every branch with the same select list
           \* (unions-to-filter / optimize-unions shapes)
           LET t == Rnd(MixS(sd, 5), NT) + 1 IN
           [p |-> [op |-> "ufilter", t |-> t, all |-> Chance(35, MixS(sd, 6)), wrap |-> Chance(40, MixS(sd, 8)),
                   ps |-> [k \in 1..(IF Chance(30, MixS(sd, 7)) THEN 3 ELSE 2) |-> FilterPred(Schemas[t], MixS(sd, 10 + k))]],
            sch |-> Schemas[t]]
      [] OTHER -> s

\* Shape quota: every second case forces the operator at the top of the plan body (and for some a LIMIT at the root),
\* cycling through Focus, so that every rewrite-relevant shape occurs in every run by construction.
Focus == << [c |-> 23, lim |-> 0], [c |-> 24, lim |-> 0], [c |-> 25, lim |-> 0], [c |-> 26, lim |-> 0], [c |-> 27, lim |-> 0],
            [c |-> 28, lim |-> 0], [c |-> 29, lim |-> 0], [c |-> 30, lim |-> 0], [c |-> 31, lim |-> 0], [c |-> 32, lim |-> 0],
            [c |-> 22, lim |-> 0], [c |-> 33, lim |-> 0], [c |-> 34, lim |-> 0], [c |-> 35, lim |-> 0], [c |-> 28, lim |-> 2],
            [c |-> 36, lim |-> 0], [c |-> 37, lim |-> 0], [c |-> 38, lim |-> 0], [c |-> 39, lim |-> 0], [c |-> 40, lim |-> 0],
            [c |-> 42, lim |-> 0], [c |-> 44, lim |-> 0], [c |-> 45, lim |-> 0], [c |-> 46, lim |-> 0], [c |-> 36, lim |-> 1],
            [c |-> 38, lim |-> 3], [c |-> 44, lim |-> 1], [c |-> 47, lim |-> 0], [c |-> 47, lim |-> 1],
            \* LIMIT over every node type: filter, project, join, aggregate, distinct, set operation, window, sort+limit, lateral, grouping sets
            [c |-> 3, lim |-> 1], [c |-> 6, lim |-> 1], [c |-> 8, lim |-> 1], [c |-> 14, lim |-> 1], [c |-> 18, lim |-> 1],
            [c |-> 20, lim |-> 1], [c |-> 23, lim |-> 1], [c |-> 29, lim |-> 1], [c |-> 24, lim |-> 1], [c |-> 26, lim |-> 1],
            [c |-> 22, lim |-> 1], [c |-> 31, lim |-> 1],
            \* ORDER BY + LIMIT (top-k) over join / aggregate / window / union
            [c |-> 8, lim |-> 2], [c |-> 14, lim |-> 2], [c |-> 23, lim |-> 2], [c |-> 22, lim |-> 2] >>
FocusOf(id) == IF Has("focus") /\ id % 2 = 0 THEN Focus[((id \div 2) % Len(Focus)) + 1] ELSE [c |-> 0, lim |-> 0]

\* optional ORDER BY / LIMIT at the root only (more often than PlanGen: limit pushdown acts here)
GenRootF(sd, fo) ==
  LET s == GenSC(DEPTH, MixS(sd, 1), fo.c)
      w == Len(s.sch)
      keys == [j \in 1..(Rnd(MixS(sd, 2), IF w < 2 THEN w ELSE 2) + 1) |->
                 [i |-> Rnd(MixS(sd, 10 + j), w) + 1, asc |-> Chance(50, MixS(sd, 20 + j)), nf |-> Chance(50, MixS(sd, 30 + j))]]
      sorted == IF Has("sort") /\ (fo.lim = 2 \/ (fo.lim = 0 /\ Chance(35, MixS(sd, 3)))) THEN [op |-> "sort", keys |-> keys, src |-> s.p] ELSE s.p
      limited == IF Has("limit") /\ fo.lim = 3
                   THEN [op |-> "limit", skip |-> 0, fetch |-> PickSeq(<<0, 0 - 1>>, MixS(sd, 6)),
                         src |-> IF Has("sort") THEN [op |-> "sort", keys |-> <<keys[1], keys[1]>>, src |-> s.p] ELSE s.p]
                 ELSE IF Has("limit") /\ (fo.lim > 0 \/ Chance(35, MixS(sd, 4)))
                   THEN [op |-> "limit", skip |-> Rnd(MixS(sd, 5), 3), fetch |-> PickSeq(<<0 - 1, 0, 1, 2, 3, 1, 2>>, MixS(sd, 6)), src |-> sorted]
                   ELSE sorted IN
  [p |-> limited, sch |-> s.sch]
GenRootS(sd) == GenRootF(sd, [c |-> 0, lim |-> 0])

UniverseOf(p, db) ==
  IF p.op = "limit" THEN EvalPlan(IF p.src.op = "sort" THEN p.src.src ELSE p.src, <<>>, db).rows ELSE <<>>

\* universe / expectation under the engine's reading of INTERSECT ALL / EXCEPT ALL (Rel.AltPlan): a result that differs from
\* `expect` but is allowed by `expect_alt` / `universe_alt` shows exactly the recorded defect setop-all-evaluated-as-semi-anti-join
CaseOf(id, ps, ds) ==
  LET plan == GenRootF(ps, FocusOf(id))
      alt == AltPlan(plan.p)
      db == GenDB(ds)
      more == [k \in 1..NDB |->
                 LET dsk == MixS(ds, 1000 + k)  dbk == GenDB(dsk) IN
                 [dbseed |-> dsk, db |-> dbk, expect |-> EvalPlan(plan.p, <<>>, dbk), universe |-> UniverseOf(plan.p, dbk),
                  expect_alt |-> EvalPlan(alt, <<>>, dbk), universe_alt |-> UniverseOf(alt, dbk)]] IN
  [id |-> id, dbseed |-> ds, planseed |-> ps, db |-> db, schemas |-> Schemas,
   plan |-> plan.p, schema |-> plan.sch, mode |-> Mode(plan.p), expect |-> EvalPlan(plan.p, <<>>, db),
   universe |-> UniverseOf(plan.p, db), expect_alt |-> EvalPlan(alt, <<>>, db), universe_alt |-> UniverseOf(alt, db), dbs |-> more]

EmitS == PrintT(<<"CASE", ToJson(CaseOf(n, planseed, dbseed))>>)
=============================================================================
