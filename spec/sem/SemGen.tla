------------------------------- MODULE SemGen -------------------------------
(***************************************************************************)
(* Case generator of the plan-level semantic checks C03 / C02 / C48.        *)
(* Same AST, reference semantics (Rel.EvalPlan) and seed threading as       *)
(* gen/PlanGen, with                                                        *)
(*   - operator weights shifted towards the shapes logical rewrites act on  *)
(*     (filters over joins of every type, aggregates over joins, filters    *)
(*     over aggregates, subqueries in WHERE and in the select list, unions  *)
(*     of filters over one table, constant predicates, DISTINCT over        *)
(*     aggregates, ORDER BY / LIMIT / OFFSET over all of these);            *)
(*   - every plan evaluated on 1 + NDB databases of the same schema (a      *)
(*     rewrite is wrong only on specific data: a NULL in a join key, an     *)
(*     empty side, duplicates), each with its own reference result.         *)
(* One TLC initial state = one case; EmitS prints <<"CASE", json>>.         *)
(***************************************************************************)
EXTENDS PlanGen

CONSTANTS NDB      \* number of additional databases per plan

(* ---------------- expressions with a bias to rewrite-relevant predicates ---------------- *)
\* a one-column predicate that is NOT null-rejecting / is null-rejecting, over column c of kind k
ColPred(c, k, sd) ==
  LET x == Col(c)
      l == GenLit(k, Mix(sd, 1))
      ch == Rnd(Mix(sd, 2), 10) + 1 IN
  CASE ch = 1 -> Un("isnull", x)
    [] ch = 2 -> Un("isnotnull", x)
    [] ch = 3 -> Bin("=", Coalesce(<<x, l>>), l)
    [] ch = 4 -> Un("isnottrue", Bin("=", x, l))
    [] ch = 5 -> Bin("isdistinct", x, l)
    [] ch = 6 -> Bin("isnotdistinct", x, l)
    [] ch = 7 -> Bin("or", Bin("<", x, l), Un("isnull", x))
    [] ch = 8 -> Un("not", Bin(">=", x, l))
    [] OTHER -> Bin(PickSeq(<<"=", "<>", "<", ">=">>, Mix(sd, 3)), x, l)

\* predicate for a filter: generic random expression, or a one-column predicate, or a constant
FilterPred(sch, sd) ==
  LET ch == Rnd(Mix(sd, 1), 100)
      c == Rnd(Mix(sd, 2), Len(sch)) + 1 IN
  IF ch < 45 THEN GenE("b", EDEPTH, sch, <<>>, Mix(sd, 3))
  ELSE IF ch < 85 /\ sch[c] \in {"i", "s"} THEN ColPred(c, sch[c], Mix(sd, 4))
  ELSE IF ch < 92 /\ sch[c] \in {"i", "s"} THEN Bin("and", ColPred(c, sch[c], Mix(sd, 4)), GenE("b", 1, sch, <<>>, Mix(sd, 5)))
  ELSE IF ch < 96 /\ sch[c] = "b" THEN Col(c)
  ELSE PickSeq(<<LitT(FalseV, "b"), LitT(TrueV, "b"), LitT(Null, "b"),
                 Bin("=", LitT(I(1), "i"), LitT(I(0), "i"))>>, Mix(sd, 6))

\* scalar subquery expression (global aggregate over a possibly correlated, possibly filtered scan)
ScalarSubE(sch, sd) ==
  LET t == Rnd(Mix(sd, 1), NT) + 1
      tsch == Schemas[t]
      tcol == Col(PickCol(tsch, "i", Mix(sd, 2)))
      correlated == ColsOf(sch, "i") # {} /\ Chance(70, Mix(sd, 4))
      corr == IF correlated THEN Bin("=", tcol, [op |-> "outer", i |-> PickCol(sch, "i", Mix(sd, 3))])
              ELSE GenE("b", 1, tsch, <<>>, Mix(sd, 5))
      base == IF correlated \/ Chance(60, Mix(sd, 6)) THEN [op |-> "filter", p |-> corr, src |-> [op |-> "scan", t |-> t]]
              ELSE [op |-> "scan", t |-> t]
      f == PickSeq(<<"count", "countstar", "sum", "min", "max", "count">>, Mix(sd, 11)) IN
  [op |-> "scalarsub", sub |-> [op |-> "agg", keys |-> <<>>,
       aggs |-> <<[f |-> f, e |-> IF f = "countstar" THEN LitT(I(1), "i") ELSE Col(PickCol(tsch, "i", Mix(sd, 9))),
                   distinct |-> FALSE]>>,
       src |-> base]]

(* ---------------- plans ---------------- *)
RECURSIVE GenS(_, _)
GenS(d, sd) ==
  IF d = 0 THEN Scan(Rnd(sd, NT) + 1)
  ELSE
    LET c == Rnd(Mix(sd, 1), 24) + 1
        s == GenS(d - 1, Mix(sd, 2))
        r0 == GenS(IF Chance(65, Mix(sd, 3)) THEN 0 ELSE d - 1, Mix(sd, 4)) IN
    CASE c \in {1, 2, 3, 4, 5} ->
           IF ColsOf(s.sch, "i") # {} /\ Has("subquery") /\ Chance(35, Mix(sd, 5))
             THEN [p |-> [op |-> "filter", p |-> SubPred(s.sch, Mix(sd, 6)), src |-> s.p], sch |-> s.sch]
             ELSE [p |-> [op |-> "filter", p |-> FilterPred(s.sch, Mix(sd, 6)), src |-> s.p], sch |-> s.sch]
      [] c \in {6, 7} ->
           LET ks == [j \in 1..(Rnd(Mix(sd, 5), 3) + 1) |-> PickSeq(KindSeq, Mix(sd, 20 + j))]
               es == [j \in 1..Len(ks) |-> GenE(ks[j], EDEPTH, s.sch, <<>>, Mix(sd, 30 + j))]
               withSub == Has("subquery") /\ Chance(35, Mix(sd, 7)) IN
           [p |-> [op |-> "project", es |-> IF withSub THEN Append(es, ScalarSubE(s.sch, Mix(sd, 8))) ELSE es, src |-> s.p],
            sch |-> IF withSub THEN Append(ks, "i") ELSE ks]
      [] c \in {8, 9, 10, 11, 12, 13} /\ Has("join") ->
           LET lw == Len(s.sch)  rw == Len(r0.sch)
               both == s.sch \o r0.sch
               eq == IF ColsOf(s.sch, "i") # {} /\ ColsOf(r0.sch, "i") # {}
                       THEN Bin(PickSeq(<<"=", "=", "=", "=", "<", "isnotdistinct">>, Mix(sd, 5)),
                                Col(PickCol(s.sch, "i", Mix(sd, 6))), Col(lw + PickCol(r0.sch, "i", Mix(sd, 7))))
                       ELSE LitT(TrueV, "b")
               cx == Rnd(Mix(sd, 11), Len(both)) + 1
               extra == IF Chance(50, Mix(sd, 12)) /\ both[cx] \in {"i", "s"}
                          THEN ColPred(cx, both[cx], Mix(sd, 9))
                          ELSE GenE("b", 1, both, <<>>, Mix(sd, 9))
               ch == Rnd(Mix(sd, 8), 100)
               on == IF ch < 40 THEN Bin("and", eq, extra)
                     ELSE IF ch < 45 THEN LitT(FalseV, "b")
                     ELSE IF ch < 50 THEN extra
                     ELSE eq
               jt == PickSeq(<<"inner", "left", "right", "full", "semi", "anti", "left", "right", "full">>, Mix(sd, 10)) IN
           [p |-> [op |-> "join", jt |-> jt, on |-> on, l |-> s.p, r |-> r0.p, lw |-> lw, rw |-> rw],
            sch |-> IF jt \in {"semi", "anti"} THEN s.sch ELSE both]
      [] c \in {14, 15, 16, 17} /\ Has("agg") ->
           LET nk == Rnd(Mix(sd, 5), 3)
               kks == [j \in 1..nk |-> PickSeq(KindSeq, Mix(sd, 20 + j))]
               keys == [j \in 1..nk |-> GenE(kks[j], IF Chance(70, Mix(sd, 40 + j)) THEN 0 ELSE 1, s.sch, <<>>, Mix(sd, 30 + j))]
               as == [j \in 1..(Rnd(Mix(sd, 6), 3) + 1) |-> GenAgg(s.sch, Mix(sd, 50 + j))] IN
           [p |-> [op |-> "agg", keys |-> keys, aggs |-> [j \in 1..Len(as) |-> as[j].a], src |-> s.p],
            sch |-> kks \o [j \in 1..Len(as) |-> as[j].k]]
      [] c \in {18, 19} /\ Has("distinct") -> [p |-> [op |-> "distinct", src |-> s.p], sch |-> s.sch]
      [] c \in {20, 21} /\ Has("setop") ->
           LET r == [op |-> "project", es |-> [j \in 1..Len(s.sch) |-> GenE(s.sch[j], 1, r0.sch, <<>>, Mix(sd, 30 + j))], src |-> r0.p] IN
           [p |-> [op |-> "setop", f |-> PickSeq(<<"union", "intersect", "except">>, Mix(sd, 5)), all |-> Chance(50, Mix(sd, 6)),
                   l |-> s.p, r |-> r], sch |-> s.sch]
      [] c = 22 /\ Has("setop") ->
           \* UNION [ALL] of two filters over the same table (unions-to-filter / optimize-unions shapes)
           LET t == Rnd(Mix(sd, 5), NT) + 1
               br(k) == [op |-> "filter", p |-> FilterPred(Schemas[t], Mix(sd, 10 + k)), src |-> [op |-> "scan", t |-> t]]
               u2 == [op |-> "setop", f |-> "union", all |-> Chance(40, Mix(sd, 6)), l |-> br(1), r |-> br(2)] IN
           [p |-> IF Chance(30, Mix(sd, 7)) THEN [op |-> "setop", f |-> "union", all |-> u2.all, l |-> u2, r |-> br(3)] ELSE u2,
            sch |-> Schemas[t]]
      [] OTHER -> s

\* optional ORDER BY / LIMIT at the root only (more often than PlanGen: limit pushdown acts here)
GenRootS(sd) ==
  LET s == GenS(DEPTH, Mix(sd, 1))
      w == Len(s.sch)
      keys == [j \in 1..(Rnd(Mix(sd, 2), IF w < 2 THEN w ELSE 2) + 1) |->
                 [i |-> Rnd(Mix(sd, 10 + j), w) + 1, asc |-> Chance(50, Mix(sd, 20 + j)), nf |-> Chance(50, Mix(sd, 30 + j))]]
      sorted == IF Has("sort") /\ Chance(35, Mix(sd, 3)) THEN [op |-> "sort", keys |-> keys, src |-> s.p] ELSE s.p
      limited == IF Has("limit") /\ Chance(35, Mix(sd, 4))
                   THEN [op |-> "limit", skip |-> Rnd(Mix(sd, 5), 3), fetch |-> PickSeq(<<0 - 1, 0, 1, 2, 3, 1, 2>>, Mix(sd, 6)), src |-> sorted]
                   ELSE sorted IN
  [p |-> limited, sch |-> s.sch]

UniverseOf(p, db) ==
  IF p.op = "limit" THEN EvalPlan(IF p.src.op = "sort" THEN p.src.src ELSE p.src, <<>>, db).rows ELSE <<>>

CaseOf(id, ps, ds) ==
  LET plan == GenRootS(ps)
      db == GenDB(ds)
      more == [k \in 1..NDB |->
                 LET dsk == Mix(ds, 1000 + k)  dbk == GenDB(dsk) IN
                 [dbseed |-> dsk, db |-> dbk, expect |-> EvalPlan(plan.p, <<>>, dbk), universe |-> UniverseOf(plan.p, dbk)]] IN
  [id |-> id, dbseed |-> ds, planseed |-> ps, db |-> db, schemas |-> Schemas,
   plan |-> plan.p, schema |-> plan.sch, mode |-> Mode(plan.p), expect |-> EvalPlan(plan.p, <<>>, db),
   universe |-> UniverseOf(plan.p, db), dbs |-> more]

EmitS == PrintT(<<"CASE", ToJson(CaseOf(n, planseed, dbseed))>>)
=============================================================================
