----------------------------- MODULE ConfigGen -----------------------------
(***************************************************************************)
(* C02: query results do not depend on the execution configuration.         *)
(*                                                                         *)
(* The state of a case is <<plan, database(s), cfgs>> where cfgs is the     *)
(* sequence of configurations the query is to be executed under.  The      *)
(* specification states the property by construction: the result of a case *)
(* is  Result(plan, db, cfg) == EvalPlan(plan, <<>>, db)  - the             *)
(* configuration is a parameter that the reference semantics does not read, *)
(* so every execution of the case, whatever its configuration, how often    *)
(* and next to whatever other queries it runs, must produce this one value  *)
(* (under the comparison mode of Rel.Mode).                                 *)
(*                                                                         *)
(* Opts is the explicit allow-list of semantics-neutral options with the    *)
(* values explored (keys of ConfigOptions::entries() plus the table layout  *)
(* pseudo-options "layout.partitions" / "layout.batch_rows"); the driver    *)
(* checks that every key exists in the engine and records the keys that are *)
(* NOT on the list.  The covering array: TLC draws NCAND seeded random rows  *)
(* of the option lattice (state n = 0 prints them with the option table);   *)
(* the driver (lib/c02.py) selects rows greedily by the number of value     *)
(* PAIRS not yet covered (row 1 = the default configuration) until MAXCFG   *)
(* rows are chosen, and measures the pair coverage of the rows actually     *)
(* executed (quick: pairwise; thorough: MAXCFG is larger, so the additional *)
(* rows are random k-wise samples).                                         *)
(* States n >= 1 print the cases, each with the indices of the rows of the  *)
(* array it is to be executed under (a sliding window, so all rows are used *)
(* across the cases).                                                      *)
(***************************************************************************)
EXTENDS SemGen

CONSTANTS CSEED,     \* seed of the candidate rows
          NCAND,     \* number of candidate rows drawn
          MAXCFG,    \* number of rows of the covering array
          PERCASE    \* configurations per case

B2 == <<"true", "false">>
Opts == <<
  [k |-> "layout.partitions", vs |-> <<"1", "2", "3", "4">>],
  [k |-> "layout.batch_rows", vs |-> <<"0", "1", "2">>],
  [k |-> "layout.source", vs |-> <<"mem", "parquet", "csv", "parquet">>],   \* MemTable / listing table over files written per case
  [k |-> "layout.sorted", vs |-> <<"false", "true">>],                      \* rows sorted on the first column, order declared to the engine
  [k |-> "datafusion.optimizer.repartition_file_scans", vs |-> B2],
  [k |-> "datafusion.optimizer.repartition_file_min_size", vs |-> <<"1048576", "0", "1">>],
  [k |-> "datafusion.optimizer.preserve_file_partitions", vs |-> <<"0", "1">>],
  [k |-> "datafusion.execution.split_file_groups_by_statistics", vs |-> <<"false", "true">>],
  [k |-> "datafusion.execution.enable_file_stream_work_stealing", vs |-> B2],
  [k |-> "datafusion.execution.meta_fetch_concurrency", vs |-> <<"32", "1">>],
  [k |-> "datafusion.execution.parquet.pushdown_filters", vs |-> <<"false", "true">>],
  [k |-> "datafusion.execution.parquet.reorder_filters", vs |-> <<"false", "true">>],
  [k |-> "datafusion.execution.parquet.force_filter_selections", vs |-> <<"false", "true">>],
  [k |-> "datafusion.execution.parquet.enable_page_index", vs |-> B2],
  [k |-> "datafusion.execution.parquet.pruning", vs |-> B2],
  [k |-> "datafusion.execution.parquet.skip_metadata", vs |-> B2],
  [k |-> "datafusion.execution.parquet.bloom_filter_on_read", vs |-> B2],
  [k |-> "datafusion.execution.parquet.schema_force_view_types", vs |-> B2],
  [k |-> "datafusion.execution.parquet.max_in_list_size", vs |-> <<"20", "1">>],
  [k |-> "datafusion.execution.target_partitions", vs |-> <<"1", "2", "3", "4", "5", "8">>],
  [k |-> "datafusion.execution.batch_size", vs |-> <<"8192", "1", "2", "3">>],
  [k |-> "datafusion.execution.coalesce_batches", vs |-> B2],
  [k |-> "datafusion.execution.collect_statistics", vs |-> B2],
  [k |-> "datafusion.execution.planning_concurrency", vs |-> <<"1", "4">>],
  [k |-> "datafusion.execution.enable_migration_aggregate", vs |-> B2],
  [k |-> "datafusion.execution.sort_spill_reservation_bytes", vs |-> <<"10485760", "64">>],
  [k |-> "datafusion.execution.sort_in_place_threshold_bytes", vs |-> <<"1048576", "0">>],
  [k |-> "datafusion.execution.skip_partial_aggregation_probe_ratio_threshold", vs |-> <<"0.8", "0.0">>],
  [k |-> "datafusion.execution.skip_partial_aggregation_probe_rows_threshold", vs |-> <<"100000", "0", "1">>],
  [k |-> "datafusion.execution.enforce_batch_size_in_joins", vs |-> <<"false", "true">>],
  [k |-> "datafusion.execution.hash_join_buffering_capacity", vs |-> <<"0", "1048576">>],
  [k |-> "datafusion.execution.perfect_hash_join_small_build_threshold", vs |-> <<"1024", "0">>],
  [k |-> "datafusion.execution.perfect_hash_join_min_key_density", vs |-> <<"0.15", "1.0">>],
  [k |-> "datafusion.execution.use_row_number_estimates_to_optimize_partitioning", vs |-> <<"false", "true">>],
  [k |-> "datafusion.optimizer.enable_distinct_aggregation_soft_limit", vs |-> B2],
  [k |-> "datafusion.optimizer.enable_round_robin_repartition", vs |-> B2],
  [k |-> "datafusion.optimizer.enable_topk_aggregation", vs |-> B2],
  [k |-> "datafusion.optimizer.enable_window_limits", vs |-> B2],
  [k |-> "datafusion.optimizer.enable_window_topn", vs |-> <<"false", "true">>],
  [k |-> "datafusion.optimizer.enable_topk_repartition", vs |-> B2],
  [k |-> "datafusion.optimizer.enable_topk_dynamic_filter_pushdown", vs |-> B2],
  [k |-> "datafusion.optimizer.enable_physical_uncorrelated_scalar_subquery", vs |-> B2],
  [k |-> "datafusion.optimizer.enable_join_dynamic_filter_pushdown", vs |-> B2],
  [k |-> "datafusion.optimizer.enable_aggregate_dynamic_filter_pushdown", vs |-> B2],
  [k |-> "datafusion.optimizer.enable_dynamic_filter_pushdown", vs |-> B2],
  [k |-> "datafusion.optimizer.filter_null_join_keys", vs |-> <<"false", "true">>],
  [k |-> "datafusion.optimizer.repartition_aggregations", vs |-> B2],
  [k |-> "datafusion.optimizer.repartition_joins", vs |-> B2],
  [k |-> "datafusion.optimizer.allow_symmetric_joins_without_pruning", vs |-> B2],
  [k |-> "datafusion.optimizer.repartition_windows", vs |-> B2],
  [k |-> "datafusion.optimizer.repartition_sorts", vs |-> B2],
  [k |-> "datafusion.optimizer.subset_repartition_threshold", vs |-> <<"4", "1">>],
  [k |-> "datafusion.optimizer.prefer_existing_sort", vs |-> <<"false", "true">>],
  [k |-> "datafusion.optimizer.max_passes", vs |-> <<"3", "2">>],
  [k |-> "datafusion.optimizer.top_down_join_key_reordering", vs |-> B2],
  [k |-> "datafusion.optimizer.join_reordering", vs |-> B2],
  [k |-> "datafusion.optimizer.prefer_hash_join", vs |-> B2],
  [k |-> "datafusion.optimizer.enable_piecewise_merge_join", vs |-> <<"false", "true">>],
  [k |-> "datafusion.optimizer.hash_join_single_partition_threshold", vs |-> <<"4194304", "0", "1">>],
  [k |-> "datafusion.optimizer.hash_join_single_partition_threshold_rows", vs |-> <<"131072", "0", "1">>],
  [k |-> "datafusion.optimizer.hash_join_inlist_pushdown_max_size", vs |-> <<"131072", "0">>],
  [k |-> "datafusion.optimizer.hash_join_inlist_pushdown_max_distinct_values", vs |-> <<"150", "0", "1">>],
  [k |-> "datafusion.optimizer.default_filter_selectivity", vs |-> <<"20", "100", "0">>],
  [k |-> "datafusion.optimizer.prefer_existing_union", vs |-> <<"false", "true">>],
  [k |-> "datafusion.optimizer.enable_sort_pushdown", vs |-> B2],
  [k |-> "datafusion.optimizer.enable_leaf_expression_pushdown", vs |-> B2],
  [k |-> "datafusion.optimizer.enable_unions_to_filter", vs |-> <<"false", "true">>],
  [k |-> "datafusion.sql_parser.map_string_types_to_utf8view", vs |-> B2],
  [k |-> "datafusion.sql_parser.enable_subquery_sort_elimination", vs |-> B2]
>>
NO == Len(Opts)

\* a configuration = one value index per option
Cand(sd) == [i \in 1..NO |-> Rnd(MixS(MixS(sd, i), 13 * i + 1), Len(Opts[i].vs)) + 1]
RECURSIVE SumPairs(_)
SumPairs(i) == IF i > NO THEN 0
               ELSE SeqSum([j \in 1..(NO - i) |-> Len(Opts[i].vs) * Len(Opts[i + j].vs)]) + SumPairs(i + 1)
AllPairs == SumPairs(1)

\* the first row is the default configuration (value index 1 of every option)
DefaultRow == [i \in 1..NO |-> 1]
Cands == <<DefaultRow>> \o [t \in 1..NCAND |-> Cand(MixS(CSEED, t))]
NCFG == MAXCFG

\* the specification's statement of C02: the configuration is not read
Result(plan, db, cfg) == EvalPlan(plan, <<>>, db)

CfgsOf(id) == [j \in 1..PERCASE |-> ((id * PERCASE + j) % NCFG) + 1]     \* indices into Cover.rows

CInit == /\ n \in 0..N
         /\ dbseed = RandomElement(1..(M - 1))
         /\ planseed = RandomElement(1..(M - 1))

EmitC ==
  IF n = 0
    THEN PrintT(<<"CASE", ToJson([id |-> 0, opts |-> Opts, cands |-> Cands, pairs_total |-> AllPairs])>>)
    ELSE LET c == CaseOf(n, planseed, dbseed) IN
         PrintT(<<"CASE", ToJson(c @@ [cfgs |-> CfgsOf(n)])>>)
=============================================================================
