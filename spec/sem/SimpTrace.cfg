INIT Init
NEXT Next
INVARIANT Accept
CHECK_DEADLOCK FALSE
