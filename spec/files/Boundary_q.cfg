CONSTANTS MaxLen = 6  Alphabet = {"x", "n"}  MaxChunk = 3  Lookaheads = {1, 2}
SPECIFICATION Spec
INVARIANTS TypeOK Theorem DoneCorrect PrefixOK ReadWindow
CHECK_DEADLOCK TRUE
