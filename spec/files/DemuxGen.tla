------------------------------ MODULE DemuxGen ------------------------------
(***************************************************************************)
(* C25 - case generator.  Every initial state is one case                   *)
(*   <dataset, write configuration, expected read-back, expected            *)
(*    directories, expected number of files>.                               *)
(* All random draws are stored in the state variables `raw` and `rr`; the   *)
(* case is a deterministic function of them (RandomElement is re-evaluated  *)
(* at every use, so nothing random is bound by LET).                        *)
(*                                                                         *)
(* Dataset: 0..8 rows <<p1, p2, s, i, b>> (or <<p1, p2, s>>): p1 a string   *)
(* from the awkward pool, p2 an integer or a boolean, s a nullable string   *)
(* from the pool, i a nullable 64-bit integer, b a nullable boolean; split  *)
(* into batches and (INSERT) into two writes.                               *)
(*                                                                         *)
(* Expected read-back = ReadBack(fmt, Restore(files written by Demux.Run)): *)
(* the rows go through DirOfKey / Encode and back through Recover / Decode  *)
(* / ReadPart, and for CSV through CsvEquiv:                                *)
(*                                                                         *)
(*   CsvEquiv   a CSV file has one encoding, the empty field, for NULL and  *)
(*              for the empty string.  With the default reader options a    *)
(*              string column STORED IN THE FILE reads both back as NULL     *)
(*              ('' -> NULL; NULL -> NULL); nothing else is conflated, and   *)
(*              partition columns (not stored in the file) are exact.       *)
(*   JSON       a NULL is an omitted key and reads back as NULL: exact.     *)
(*   Parquet    exact.                                                      *)
(***************************************************************************)
EXTENDS Demux, Json, Randomization

CONSTANTS NCases,   \* cases per run
          PNull     \* 1: one case in five may hold NULLs in partition columns

VARIABLES idx, raw, rr

Pick(X) == RandomElement(X)
PcChoices == << <<>>, <<>>, <<1>>, <<1>>, <<2>>, <<1, 2>>, <<1, 2>>, <<2, 1>> >>
TextComp == <<"none", "none", "gzip", "bzip2", "xz", "zstd">>
PqComp   == <<"none", "none", "snappy", "zstd(3)", "gzip(6)", "lz4", "lz4_raw", "brotli(3)">>

RawCfg(z) == [method |-> Pick({"copy", "insert", "df"}), fmt |-> Pick({"csv", "json", "parquet"}),
           comp |-> Pick(1..24), pcsel |-> Pick(1..Len(PcChoices)), p2t |-> Pick({"j", "j", "b"}),
           single |-> Pick({"auto", "yes", "no"}), pathlike |-> Pick({"dir", "dir", "file"}) ,
           maxrows |-> Pick({1, 2, 3, 1000}), minpar |-> Pick({1, 2, 4}), tp |-> Pick({1, 4}), rtp |-> Pick({1, 4}),
           mempart |-> Pick({1, 1, 2}), hdr |-> Pick({TRUE, FALSE}), reader |-> Pick({"sql", "api"}),
           strview |-> Pick({TRUE, FALSE}), dcols |-> Pick({"sib", "sib", "s"}), n |-> Pick(0..8), wcut |-> Pick(0..8),
           pnull |-> Pick(1..5), cuts |-> [r \in 1..8 |-> Pick(1..3)],
           sv |-> RandomSubset(4, PoolIdx), dv |-> {EmptyIdx} \cup RandomSubset(4, PoolIdx)]
RawRow(z, SV, DV) == [p1 |-> S(Pick(SV)), p2j |-> I(Pick({0 - 1, 0, 7, 10})), p2b |-> B(Pick(BOOLEAN)),
           n1 |-> Pick(1..3), n2 |-> Pick(1..3),
           s |-> Pick({Null} \cup {S(i) : i \in DV}),
           i |-> Pick({Null, I(0), I(0 - 1), I(7), I(2147483647)}),
           b |-> Pick({Null, B(TRUE), B(FALSE)})]

GenInit == /\ idx \in 1..NCases
           /\ raw = RawCfg(idx)
        /\ rr = [r \in 1..8 |-> RawRow(r, raw.sv, raw.dv)]
        /\ conf = [pc |-> <<>>, pt |-> <<>>, single |-> TRUE, maxrows |-> 1, minpar |-> 1]
        /\ input = <<>> /\ pos = 1 /\ cur = Start(conf)
GenNext == UNCHANGED <<idx, raw, rr, conf, input, pos, cur>>
GenSpec == GenInit /\ [][GenNext]_<<idx, raw, rr, conf, input, pos, cur>>

\* ------------------------------------------------------------ the case, a function of raw and rr
Method == raw.method
Fmt == raw.fmt
Comp == IF Fmt = "parquet" THEN PqComp[(raw.comp % Len(PqComp)) + 1] ELSE TextComp[(raw.comp % Len(TextComp)) + 1]
Pc == PcChoices[raw.pcsel]
NullsAllowed == PNull = 1 /\ raw.pnull = 1 /\ Pc # <<>>
\* INSERT needs a directory table; single_file_output is an option of the DataFrame writers only (COPY and INSERT
\* decide by the shape of the path)
PathLike == IF Method = "insert" THEN "dir" ELSE raw.pathlike
SingleOpt == IF Method = "df" THEN raw.single ELSE "auto"
EffSingle == Pc = <<>> /\ (SingleOpt = "yes" \/ (SingleOpt = "auto" /\ PathLike = "file"))
DCfg == [pc |-> Pc, pt |-> [j \in 1..Len(Pc) |-> IF Pc[j] = 1 THEN "s" ELSE raw.p2t],
         single |-> EffSingle, maxrows |-> raw.maxrows, minpar |-> raw.minpar]

RowOf(x) == LET p1 == IF NullsAllowed /\ x.n1 = 1 THEN Null ELSE x.p1
                p2 == IF NullsAllowed /\ x.n2 = 1 THEN Null ELSE IF raw.p2t = "j" THEN x.p2j ELSE x.p2b
            IN IF raw.dcols = "sib" THEN <<p1, p2, x.s, x.i, x.b>> ELSE <<p1, p2, x.s>>
Rows == [r \in 1..raw.n |-> RowOf(rr[r])]
ColTypes == IF raw.dcols = "sib" THEN <<"s", raw.p2t, "s", "i", "b">> ELSE <<"s", raw.p2t, "s">>

\* rows lo..hi as batches: a new batch starts after row r when cuts[r] = 1
RECURSIVE BatchesOf(_, _, _)
BatchesOf(lo, hi, acc) ==
  IF lo > hi THEN (IF acc = <<>> THEN <<>> ELSE <<acc>>)
  ELSE IF raw.cuts[lo] = 1 \/ lo = hi THEN <<Append(acc, Rows[lo])>> \o BatchesOf(lo + 1, hi, <<>>)
  ELSE BatchesOf(lo + 1, hi, Append(acc, Rows[lo]))
WCut == IF raw.wcut > raw.n THEN raw.n ELSE raw.wcut
Writes == IF Method = "insert" THEN <<BatchesOf(1, WCut, <<>>), BatchesOf(WCut + 1, raw.n, <<>>)>>
          ELSE <<BatchesOf(1, raw.n, <<>>)>>

HasNulls == \E r \in 1..raw.n : HasNullKey(DCfg, Rows[r])

\* ------------------------------------------------------------ expected read-back
CsvEquiv(x, stored) == IF stored /\ x = S(EmptyIdx) THEN Null ELSE x
ReadBack(row) == IF Fmt = "csv" THEN [c \in 1..Len(row) |-> IF ColTypes[c] = "s" THEN CsvEquiv(row[c], ~InSeq(c, Pc)) ELSE row[c]]
                 ELSE row
FilesOfWrite(w) == Run(DCfg, Writes[w]).files
RECURSIVE AllFiles(_)
AllFiles(w) == IF w > Len(Writes) THEN <<>> ELSE FilesOfWrite(w) \o AllFiles(w + 1)
Restored == RestoreAll(DCfg, AllFiles(1))
Expect == IF HasNulls THEN [r \in 1..raw.n |-> ReadBack(Rows[r])]
          ELSE [r \in 1..Len(Restored) |-> ReadBack(Restored[r])]
Dirs == IF HasNulls \/ Pc = <<>> THEN {}
        ELSE {[key |-> [j \in 1..Len(Pc) |-> PartText(AllFiles(1)[f].key[j])], dir |-> AllFiles(1)[f].dir] : f \in 1..Len(AllFiles(1))}
NFiles == IF HasNulls THEN 0 - 1 ELSE Len(AllFiles(1))

\* the specification's own laws on the generated case
Laws == HasNulls \/ /\ SameBag(Restored, Rows)
                    /\ \A w \in 1..Len(Writes) : \A f \in 1..Len(FilesOfWrite(w)) :
                          LET fl == FilesOfWrite(w)[f] IN
                            /\ \A j \in 1..Len(fl.src) : Key(DCfg, fl.src[j]) = fl.key
                            /\ DCfg.pc # <<>> => KeyOfDir(DCfg, fl.dir) = fl.key

Case == [idx |-> idx, method |-> Method, fmt |-> Fmt, comp |-> Comp, pc |-> Pc, p2t |-> raw.p2t,
         single |-> SingleOpt, pathlike |-> PathLike, effsingle |-> EffSingle,
         maxrows |-> raw.maxrows, minpar |-> raw.minpar, tp |-> raw.tp, rtp |-> raw.rtp, mempart |-> raw.mempart,
         hdr |-> raw.hdr, reader |-> raw.reader, sv |-> raw.strview, dcols |-> raw.dcols, coltypes |-> ColTypes,
         writes |-> Writes, pnull |-> HasNulls, expect |-> Expect, dirs |-> Dirs, nfiles |-> NFiles, pool |-> Pool]
Emit == Laws /\ PrintT(<<"CASE", ToJson(Case)>>)
=============================================================================
