-------------------------- MODULE BoundaryLayouts --------------------------
(* End-to-end cases for C26: the line structure of a delimited text file.   *)
(*   lines  : sequence of line kinds                                        *)
(*              "e" empty line, "s" short record, "l" long record,           *)
(*              "h" record longer than the 16 KiB end-scan lookahead,        *)
(*              "g" record longer than two lookahead windows (40 KB),        *)
(*              "q" record whose string value contains a line break          *)
(*                  (CSV: quoted, scanned with newlines_in_values = true;    *)
(*                   NDJSON: escaped, so no raw line break)                  *)
(*   crlf   : lines end in CR LF instead of LF                               *)
(*   trail  : the last line has a terminator                                 *)
(*   header : (CSV only) a header line precedes the lines                    *)
(* The records of the file are its non-empty lines; record i carries id i   *)
(* (its index in `lines`), so the expected result of a scan of the file is   *)
(* exactly Records(layout), each once, ascending within one range.          *)
EXTENDS Integers, Sequences, FiniteSets, TLC, Json, Randomization

CONSTANTS MaxLines, Kinds, Sample     \* Sample = 0: all layouts
VARIABLE lay

LineSeqs == UNION {[1..n -> Kinds] : n \in 0..MaxLines}
Layouts == [lines : LineSeqs, crlf : BOOLEAN, trail : BOOLEAN, header : BOOLEAN]
Records(l) == SelectSeq([i \in 1..Len(l.lines) |-> i], LAMBDA i : l.lines[i] # "e")

Init == lay \in (IF Sample = 0 THEN Layouts ELSE RandomSubset(Sample, Layouts))
Next == UNCHANGED lay
Spec == Init /\ [][Next]_lay
Emit == PrintT(<<"CASE", ToJson([lay |-> lay, records |-> Records(lay)])>>)
=============================================================================
