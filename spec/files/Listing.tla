------------------------------ MODULE Listing ------------------------------
(***************************************************************************)
(* C27 - partition-value pruning of listing tables never drops matching     *)
(* files.                                                                   *)
(*                                                                         *)
(* A layout is a set of files below a table directory; file i lives in the  *)
(* Hive-style directory  c1=<v1>/.../cNP=<vNP>/  built from its partition   *)
(* value tuple (string values come from a pool that contains values needing *)
(* escapes; column 2 is an integer column) and holds 1-2 rows <<d, e>>      *)
(* (d: nullable integer data column, e = the file's index).  Some files are *)
(* decoys: wrong extension, or not matched by the table's glob.             *)
(*                                                                         *)
(*   Covered(f)     f belongs to the table (extension and glob match)       *)
(*   Rows(f)        partition values ++ data row, for every row of f        *)
(*   Result(flt)    = Filter(flt, all rows of covered files)   (a bag)      *)
(*   Need(flt)      = covered files holding a row on which flt is TRUE;     *)
(*                    every such file must be opened by the scan            *)
(*   NeedP(flt)     (flt over partition columns only) = covered files whose *)
(*                    partition values satisfy flt: what pruned_partition_  *)
(*                    list must return at least                             *)
(* Predicates are Expr.tla ASTs evaluated with SQL three-valued logic.      *)
(***************************************************************************)
EXTENDS Expr, TLC, Json, Randomization

CONSTANTS NP,        \* number of partition columns (1..3)
          SV,        \* string-pool indices usable as values of columns 1 and 3
          IV,        \* integers usable as values of column 2
          NLay, NFlt, \* sample sizes: layouts, filters from the whole grammar,
          NEq         \* ... and filters built around equalities on partition columns

VARIABLES lay, flt

DV == {Null, I(1), I(2), I(3)}
Slot == [on : BOOLEAN, decoy : 0..7, p1 : SV, p2 : IV, p3 : SV, d1 : DV, d2 : DV, two : BOOLEAN]
Layouts == [f1 : Slot, f2 : Slot, f3 : Slot, f4 : Slot, glob : BOOLEAN, ignsub : BOOLEAN]

SlotSeq(l) == <<l.f1, l.f2, l.f3, l.f4>>
\* f1 is always present
FileIdx(l) == {i \in 1..4 : i = 1 \/ SlotSeq(l)[i].on}
PartVals(s) == SubSeq(<<S(s.p1), I(s.p2), S(s.p3)>>, 1, NP)
DataRows(s, i) == IF s.two THEN << <<s.d1, I(i)>>, <<s.d2, I(i)>> >> ELSE << <<s.d1, I(i)>> >>
\* decoy 1: extension does not match; decoy 2: name not matched by the glob (only if the table has a glob)
\* decoy kinds: 1 wrong extension; 2 name not matched by the table's glob (if it has one); 3 file in a nested
\* non-partition sub-directory of its partition directory (belongs to the table iff sub-directories are not
\* ignored; never matched by the file-name glob); 4 zero-length file (holds no rows)
Decoy(s) == IF s.decoy >= 4 THEN s.decoy - 3 ELSE 0
Covered(l, i) == LET s == SlotSeq(l)[i] IN
  CASE Decoy(s) = 0 -> TRUE
    [] Decoy(s) = 1 -> FALSE
    [] Decoy(s) = 2 -> ~l.glob
    [] Decoy(s) = 3 -> ~l.ignsub /\ ~l.glob
    [] Decoy(s) = 4 -> FALSE
FileRows(l, i) == LET s == SlotSeq(l)[i] IN [k \in 1..Len(DataRows(s, i)) |-> PartVals(s) \o DataRows(s, i)[k]]

\* ------------------------------------------------------------- predicates
NCols == NP + 2                       \* partition columns, d, e
ColVals(c) == IF c > NP THEN {I(1), I(2), I(3)}
              ELSE IF c = 2 THEN {I(v) : v \in IV} ELSE {S(v) : v \in SV}
FCols == 1..(NP + 1)                  \* filters mention partition columns and d
Atoms ==
  UNION {{Bin(op, Col(c), Lit(v)) : op \in {"=", "<>", "<", ">="}, v \in ColVals(c)} : c \in FCols}
  \cup UNION {{Bin("=", Lit(v), Col(c)) : v \in ColVals(c)} : c \in 1..NP}
  \cup UNION {{InList(Col(c), <<Lit(v), Lit(w)>>, ng) : v \in ColVals(c), w \in ColVals(c), ng \in BOOLEAN} : c \in FCols}
  \cup {Un(f, Col(c)) : f \in {"isnull", "isnotnull"}, c \in FCols}
PartAtom(a) == \/ a.op = "bin" /\ (IF a.l.op = "col" THEN a.l.i ELSE a.r.i) <= NP
               \/ a.op = "in" /\ a.e.i <= NP
               \/ a.op = "un" /\ a.e.i <= NP
EqAtoms == {a \in Atoms : a.op = "bin" /\ a.f = "="}
Filters ==
  Atoms
  \cup {Bin("and", a, b) : a \in EqAtoms, b \in Atoms}
  \cup {Bin("or", a, b) : a \in EqAtoms, b \in Atoms}
  \cup {Un("not", a) : a \in Atoms}
  \cup {Bin("and", a, Bin("or", b, c)) : a \in EqAtoms, b \in EqAtoms, c \in EqAtoms}
  \cup {Bin("and", Bin("and", a, b), c) : a \in EqAtoms, b \in EqAtoms, c \in EqAtoms}

\* equality on a partition column (both orientations), alone, with a second one, or with a data-column atom:
\* the shapes that drive the listing-prefix optimisation
PartEqAtoms == {a \in EqAtoms : PartAtom(a)}
DataAtoms == {a \in Atoms : ~PartAtom(a)}
PartEqFilters == PartEqAtoms \cup {Bin("and", a, b) : a \in PartEqAtoms, b \in PartEqAtoms}
                 \cup {Bin("and", a, b) : a \in PartEqAtoms, b \in DataAtoms}

RECURSIVE ColsOf(_)
ColsOf(x) ==
  CASE x.op = "col" -> {x.i}
    [] x.op = "lit" -> {}
    [] x.op = "bin" -> ColsOf(x.l) \cup ColsOf(x.r)
    [] x.op = "un"  -> ColsOf(x.e)
    [] x.op = "in"  -> ColsOf(x.e)
PartOnly(x) == \A c \in ColsOf(x) : c <= NP

\* ---------------------------------------------------------------- meaning
CoveredIdx(l) == {i \in FileIdx(l) : Covered(l, i)}
Matches(l, i, x) == {k \in 1..Len(FileRows(l, i)) : Holds(Eval(x, FileRows(l, i)[k]))}
Need(l, x) == {i \in CoveredIdx(l) : Matches(l, i, x) # {}}
NeedP(l, x) == {i \in CoveredIdx(l) : Holds(Eval(x, PartVals(SlotSeq(l)[i]) \o <<Null, Null>>))}
RECURSIVE ResultFrom(_, _, _)
ResultFrom(l, x, i) ==
  IF i > 4 THEN <<>>
  ELSE (IF i \in CoveredIdx(l)
        THEN SelectSeq(FileRows(l, i), LAMBDA r : Holds(Eval(x, r))) ELSE <<>>) \o ResultFrom(l, x, i + 1)
Result(l, x) == ResultFrom(l, x, 1)

\* sanity theorems of the specification itself (checked on every generated case)
Laws(l, x) ==
  /\ \A i \in CoveredIdx(l) : (i \in Need(l, x)) <=> (\E r \in 1..Len(Result(l, x)) : Result(l, x)[r][NP + 2] = I(i))
  /\ PartOnly(x) => Need(l, x) = NeedP(l, x)

Init == /\ lay \in RandomSubset(NLay, Layouts)
        /\ flt \in RandomSubset(NFlt, Filters) \cup RandomSubset(NEq, PartEqFilters)
Next == UNCHANGED <<lay, flt>>
Spec == Init /\ [][Next]_<<lay, flt>>

Case == [np |-> NP, glob |-> lay.glob, ignsub |-> lay.ignsub, all |-> Result(lay, Lit(TrueV)),
         files |-> [i \in 1..4 |-> [present |-> i \in FileIdx(lay), decoy |-> Decoy(SlotSeq(lay)[i]),
                                    covered |-> i \in CoveredIdx(lay),
                                    pv |-> PartVals(SlotSeq(lay)[i]), rows |-> DataRows(SlotSeq(lay)[i], i)]],
         filter |-> flt, partonly |-> PartOnly(flt),
         need |-> Need(lay, flt), needp |-> IF PartOnly(flt) THEN NeedP(lay, flt) ELSE {},
         expect |-> Result(lay, flt)]
Emit == Laws(lay, flt) /\ PrintT(<<"CASE", ToJson(Case)>>)
=============================================================================
