------------------------------- MODULE Demux -------------------------------
(***************************************************************************)
(* C25 - rows -> output files.  What a file sink does with the batches it   *)
(* receives, and what a reader recovers from the files.                     *)
(*                                                                         *)
(* A row is a tuple of Values.tla values; `cfg.pc` lists (in PARTITIONED BY *)
(* order) the positions of the partition columns, `cfg.pt` their types      *)
(* ("s" string, "j" integer, "b" boolean).  One write consumes a sequence   *)
(* of batches:                                                             *)
(*   partitioned (pc # <<>>)  every batch is split by partition key; the    *)
(*       rows of key k, partition columns removed, are appended to THE file *)
(*       of k, which lives in the directory  DirOfKey(k) =                  *)
(*       name1=Encode(text1)/name2=Encode(text2)  (HivePath.tla); files are *)
(*       created only for keys that occur;                                  *)
(*   single file (pc = <<>>, cfg.single)  exactly one file, the output path *)
(*       itself, even without rows;                                         *)
(*   directory (pc = <<>>, ~cfg.single)  round-robin over `minpar` open     *)
(*       files; a file that already holds >= `maxrows` rows when its turn   *)
(*       comes is closed and replaced by a new one (the limit is soft).     *)
(* Restore(f) is what a reader of file f produces: the stored rows with the *)
(* partition columns re-inserted from  Recover(f.dir)  (percent-decoded,    *)
(* parsed with the column type).                                            *)
(*                                                                         *)
(* Invariants (TLC, exhaustive over the scope NB, BL; cfg by lib/c25.py):    *)
(*   Conservation   bag of Restore(all files) = bag of the consumed rows    *)
(*   Placement      every file's directory is DirOfKey(key of each of its   *)
(*                  rows) and decodes back to that key                      *)
(*   DataUnchanged  stored row = source row without the partition columns   *)
(*   DistinctDirs   files of different keys lie in different directories    *)
(*   Shape          single => exactly one file; partitioned => no empty     *)
(*                  file, one file per key; directory => closed files hold  *)
(*                  >= maxrows rows and every file < maxrows + batch rows   *)
(* NULL partition values are outside Hive directories ("partition values    *)
(* are never null"): a write whose partition columns hold a NULL must fail  *)
(* or read back exactly; the domain of the functions below excludes them.   *)
(***************************************************************************)
EXTENDS HivePath, Values, TLC

\* ------------------------------------------------------------ string pool (bytes)
EmptyIdx == 1
Pool == << <<>>,                 \* 1  empty string
           <<97>>,               \* 2  a
           <<97, 32, 98>>,       \* 3  a b
           <<97, 47, 98>>,       \* 4  a/b
           <<98, 61, 99>>,       \* 5  b=c
           <<37, 50, 70>>,       \* 6  %2F   (the three characters)
           <<97, 37>>,           \* 7  a%
           <<97, 39, 98>>,       \* 8  a'b
           <<97, 34, 98>>,       \* 9  a"b
           <<97, 10, 98>>,       \* 10 a<newline>b
           <<195, 169>>,         \* 11 e-acute
           HiveDefault,          \* 12 __HIVE_DEFAULT_PARTITION__
           <<97, 44, 98>> >>     \* 13 a,b
PoolIdx == 1..Len(Pool)

\* ------------------------------------------------------------ partition value <-> text
RECURSIVE Digits(_)
Digits(n) == IF n < 10 THEN <<48 + n>> ELSE Digits(n \div 10) \o <<48 + (n % 10)>>
IntText(n) == IF n < 0 THEN <<45>> \o Digits(0 - n) ELSE Digits(n)
RECURSIVE DigitsVal(_, _)
DigitsVal(s, acc) == IF s = <<>> THEN acc ELSE DigitsVal(Tail(s), acc * 10 + (Head(s) - 48))
ParseInt(s) == IF s # <<>> /\ s[1] = 45 THEN 0 - DigitsVal(Tail(s), 0) ELSE DigitsVal(s, 0)
TrueText  == <<116, 114, 117, 101>>
FalseText == <<102, 97, 108, 115, 101>>

PartText(x) == CASE x.k = "s" -> Pool[x.v]
                 [] x.k = "i" -> IntText(x.v)
                 [] x.k = "b" -> (IF x.v = 1 THEN TrueText ELSE FalseText)
ReadPart(text, t) == CASE t = "s" -> S(CHOOSE i \in PoolIdx : Pool[i] = text)
                       [] t = "j" -> I(ParseInt(text))
                       [] t = "b" -> B(text = TrueText)

ColName(c) == IF c = 1 THEN N1 ELSE N2      \* p1, p2

\* ------------------------------------------------------------ rows
InSeq(x, s) == \E j \in 1..Len(s) : s[j] = x
Key(cfg, r) == [j \in 1..Len(cfg.pc) |-> r[cfg.pc[j]]]
DataCols(cfg, n) == SelectSeq([c \in 1..n |-> c], LAMBDA c : ~InSeq(c, cfg.pc))
Strip(cfg, r) == LET dc == DataCols(cfg, Len(r)) IN [j \in 1..Len(dc) |-> r[dc[j]]]
HasNullKey(cfg, r) == \E j \in 1..Len(cfg.pc) : IsNull(r[cfg.pc[j]])
DirOfKey(cfg, k) == DirOf([j \in 1..Len(k) |-> ColName(cfg.pc[j])], [j \in 1..Len(k) |-> PartText(k[j])])
KeyOfDir(cfg, dir) == LET t == Recover(dir) IN [j \in 1..Len(cfg.pc) |-> ReadPart(t[j], cfg.pt[j])]
\* position of column c among the partition columns (0 = none)
PcRank(cfg, c) == IF InSeq(c, cfg.pc) THEN CHOOSE j \in 1..Len(cfg.pc) : cfg.pc[j] = c ELSE 0
DataRank(cfg, c) == Cardinality({d \in 1..c : ~InSeq(d, cfg.pc)})
RestoreRow(cfg, dir, stored) ==
  LET n == Len(stored) + Len(cfg.pc)
      k == IF cfg.pc = <<>> THEN <<>> ELSE KeyOfDir(cfg, dir)
  IN [c \in 1..n |-> IF PcRank(cfg, c) > 0 THEN k[PcRank(cfg, c)] ELSE stored[DataRank(cfg, c)]]
Restore(cfg, f) == [i \in 1..Len(f.rows) |-> RestoreRow(cfg, f.dir, f.rows[i])]
RECURSIVE RestoreAll(_, _)
RestoreAll(cfg, files) == IF files = <<>> THEN <<>> ELSE Restore(cfg, Head(files)) \o RestoreAll(cfg, Tail(files))

\* ------------------------------------------------------------ the demultiplexer (one write)
\* a file: directory (bytes, <<>> = the output directory / the output path itself), stored rows,
\* and as ghosts the key and the source rows
NewFile(dir, k) == [dir |-> dir, key |-> k, rows |-> <<>>, src |-> <<>>]
Start(cfg) == IF cfg.pc = <<>> /\ cfg.single
              THEN [files |-> <<NewFile(<<>>, <<>>)>>, open |-> <<1>>, cnt |-> <<0>>, nxt |-> 1]
              ELSE [files |-> <<>>, open |-> <<>>, cnt |-> <<>>, nxt |-> 1]

StepRows(cfg, st, b) ==
  LET mp    == IF cfg.single THEN 1 ELSE cfg.minpar
      grow  == Len(st.open) < mp
      rot   == ~grow /\ ~cfg.single /\ st.cnt[st.nxt] >= cfg.maxrows
      files1 == IF grow \/ rot THEN Append(st.files, NewFile(<<>>, <<>>)) ELSE st.files
      open1 == IF grow THEN Append(st.open, Len(files1))
               ELSE IF rot THEN [st.open EXCEPT ![st.nxt] = Len(files1)] ELSE st.open
      cnt1  == IF grow THEN Append(st.cnt, 0) ELSE IF rot THEN [st.cnt EXCEPT ![st.nxt] = 0] ELSE st.cnt
      f     == open1[st.nxt]
  IN [files |-> [files1 EXCEPT ![f].rows = @ \o b, ![f].src = @ \o b],
      open |-> open1, cnt |-> [cnt1 EXCEPT ![st.nxt] = @ + Len(b)], nxt |-> (st.nxt % mp) + 1]

FileOfKey(files, k) == IF \E i \in 1..Len(files) : files[i].key = k
                       THEN CHOOSE i \in 1..Len(files) : files[i].key = k ELSE 0
RECURSIVE HiveAdd(_, _, _, _)
HiveAdd(cfg, files, b, keys) ==
  IF keys = {} THEN files
  ELSE LET k   == CHOOSE x \in keys : TRUE
           sub == SelectSeq(b, LAMBDA r : Key(cfg, r) = k)
           i0  == FileOfKey(files, k)
           files1 == IF i0 = 0 THEN Append(files, NewFile(DirOfKey(cfg, k), k)) ELSE files
           i   == IF i0 = 0 THEN Len(files1) ELSE i0
       IN HiveAdd(cfg, [files1 EXCEPT ![i].rows = @ \o [j \in 1..Len(sub) |-> Strip(cfg, sub[j])], ![i].src = @ \o sub],
                  b, keys \ {k})
StepHive(cfg, st, b) == [st EXCEPT !.files = HiveAdd(cfg, st.files, b, {Key(cfg, b[j]) : j \in 1..Len(b)})]

Step(cfg, st, b) == IF cfg.pc = <<>> THEN StepRows(cfg, st, b) ELSE StepHive(cfg, st, b)
RECURSIVE RunFrom(_, _, _)
RunFrom(cfg, st, batches) == IF batches = <<>> THEN st ELSE RunFrom(cfg, Step(cfg, st, Head(batches)), Tail(batches))
Run(cfg, batches) == RunFrom(cfg, Start(cfg), batches)

\* ------------------------------------------------------------ the state machine
CONSTANTS NB, BL     \* scope: up to NB batches of 1..BL rows
VARIABLES conf, input, pos, cur
vars == <<conf, input, pos, cur>>

ScopeRows == {<<S(a), I(x), d>> : a \in {4, 6}, x \in {0 - 1, 10}, d \in {S(1)}} \cup {<<S(4), I(10), Null>>}
Batches == UNION {[1..n -> ScopeRows] : n \in 1..BL}
Inputs == UNION {[1..n -> Batches] : n \in 0..NB}
ScopeCfgs ==
  {[pc |-> <<>>, pt |-> <<>>, single |-> TRUE, maxrows |-> 1, minpar |-> 2]}
  \cup {[pc |-> <<>>, pt |-> <<>>, single |-> FALSE, maxrows |-> m, minpar |-> p] : m \in {1, 2}, p \in {1, 2}}
  \cup {[pc |-> q, pt |-> [j \in 1..Len(q) |-> IF q[j] = 1 THEN "s" ELSE "j"], single |-> FALSE, maxrows |-> 1, minpar |-> 1]
          : q \in {<<1>>, <<2, 1>>, <<1, 2>>}}

Init == /\ conf \in ScopeCfgs
        /\ input \in Inputs
        /\ pos = 1
        /\ cur = Start(conf)
Consume == /\ pos <= Len(input)
           /\ cur' = Step(conf, cur, input[pos])
           /\ pos' = pos + 1
           /\ UNCHANGED <<conf, input>>
Finished == /\ pos > Len(input)
            /\ UNCHANGED vars
Next == Consume \/ Finished
Spec == Init /\ [][Next]_vars

Consumed == Flatten(SubSeq(input, 1, pos - 1))
Conservation == SameBag(RestoreAll(conf, cur.files), Consumed)
Placement == \A i \in 1..Len(cur.files) : LET f == cur.files[i] IN
               /\ \A j \in 1..Len(f.src) : Key(conf, f.src[j]) = f.key
               /\ conf.pc # <<>> => /\ f.dir = DirOfKey(conf, f.key)
                                   /\ KeyOfDir(conf, f.dir) = f.key
                                   /\ RecoverNames(f.dir) = [j \in 1..Len(conf.pc) |-> ColName(conf.pc[j])]
DataUnchanged == \A i \in 1..Len(cur.files) : LET f == cur.files[i] IN
                   f.rows = [j \in 1..Len(f.src) |-> Strip(conf, f.src[j])]
DistinctDirs == conf.pc # <<>> =>
                  \A i, j \in 1..Len(cur.files) : i # j => /\ cur.files[i].key # cur.files[j].key
                                                         /\ cur.files[i].dir # cur.files[j].dir
IsOpen(i) == \E s \in 1..Len(cur.open) : cur.open[s] = i
Shape == /\ (conf.pc = <<>> /\ conf.single) => Len(cur.files) = 1
         /\ conf.pc # <<>> => /\ \A i \in 1..Len(cur.files) : Len(cur.files[i].rows) > 0
                             /\ Len(cur.files) = Cardinality({Key(conf, Consumed[j]) : j \in 1..Len(Consumed)})
         /\ (conf.pc = <<>> /\ ~conf.single) =>
               /\ \A i \in 1..Len(cur.files) : /\ Len(cur.files[i].rows) < conf.maxrows + BL
                                              /\ ~IsOpen(i) => Len(cur.files[i].rows) >= conf.maxrows
               /\ Len(cur.open) <= conf.minpar
               /\ (Consumed = <<>>) = (cur.files = <<>>)
=============================================================================
