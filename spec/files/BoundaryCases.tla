--------------------------- MODULE BoundaryCases ---------------------------
(* B3 case generator for C26: one case per file = the file and, for every   *)
(* range [s,e) (0 <= s < e <= size+1), the byte interval the range must     *)
(* yield according to the ownership rule of Boundary.tla.                   *)
EXTENDS Integers, Sequences, FiniteSets, TLC, Json

CONSTANTS MaxLen, Alphabet, MinLen
VARIABLE f

B == INSTANCE Boundary WITH MaxChunk <- 1, Lookaheads <- {1},
       f <- f, s <- 0, e <- 0, L <- 1, phase <- "Done", pos <- 0, iend <- 0, end <- 0,
       plo <- 0, phi <- 0, out <- <<>>, gets <- 0

Init == f \in UNION {[1..n -> Alphabet] : n \in MinLen..MaxLen}
Next == UNCHANGED f
Spec == Init /\ [][Next]_f

Ranges == {<<s, e>> \in (0..Len(f)) \X (0..(Len(f) + 1)) : s < e}
Table == {<<r[1], r[2], B!YieldLo(f, r[1], r[2]), B!YieldHi(f, r[1], r[2])>> : r \in Ranges}
Emit == PrintT(<<"CASE", ToJson([f |-> f, y |-> Table,
                                 lines |-> Cardinality(B!Lines(f))])>>)
=============================================================================
