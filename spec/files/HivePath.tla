------------------------------ MODULE HivePath ------------------------------
(***************************************************************************)
(* C25 - Hive-style partition directories: escaping of partition values.    *)
(*                                                                         *)
(* A partition value is a string = a sequence of BYTES (integers 0..255,    *)
(* UTF-8).  A writer puts the rows whose partition column `name` has the    *)
(* value v into the directory                                               *)
(*        name "=" Encode(v)                                                *)
(* and a reader recovers v as Decode(text after the first "=").             *)
(*                                                                         *)
(*   Encode   replaces every byte of the escape set (and every byte >= 128) *)
(*            by "%" and two upper-case hexadecimal digits;                 *)
(*   Decode   replaces every "%" that is followed by two hexadecimal digits *)
(*            (either case) by that byte and keeps everything else.         *)
(*                                                                         *)
(* Laws (checked by TLC in HivePathLaws.tla for every string of up to MaxLen*)
(* units over the awkward alphabet `Units`):                                *)
(*   RoundTrip    Decode(Encode(v)) = v                                     *)
(*   Injective    v # w  =>  Encode(v) # Encode(w)   (distinct values ->    *)
(*                distinct directories)                                     *)
(*   LegalSegment Encode(v) holds no "/", no control byte, no byte >= 128   *)
(*   PathRecover  splitting  n1=Encode(v1)/n2=Encode(v2)  at "/" and at the *)
(*                first "=" of each segment and decoding gives <<v1, v2>>   *)
(* The laws hold for every escape set that contains "%" , "/" and the       *)
(* controls ("min"); "store" is the set the object store's path parts use,  *)
(* "wide" escapes space = ' : too (Hive's own set).  "broken" (no "%") is   *)
(* the negative control: TLC must find a counterexample.                    *)
(***************************************************************************)
EXTENDS Integers, Sequences, FiniteSets

CONSTANT EscSet     \* "min" | "store" | "wide" | "broken"

PCT == 37
SLASH == 47
EQS == 61

RECURSIVE FlatB(_)
FlatB(ss) == IF ss = <<>> THEN <<>> ELSE Head(ss) \o FlatB(Tail(ss))

\* ------------------------------------------------------------ the alphabet
HiveDefault == <<95,95,72,73,86,69,95,68,69,70,65,85,76,84,95,80,65,82,84,73,84,73,79,78,95,95>>  \* __HIVE_DEFAULT_PARTITION__
Units == { <<97>>,        \* a   (also a hexadecimal digit)
           <<47>>,        \* /
           <<61>>,        \* =
           <<37>>,        \* %
           <<32>>,        \* space
           <<39>>,        \* '
           <<34>>,        \* "
           <<10>>,        \* newline
           <<50>>,        \* 2   \  so that the value  %2F  (three characters) exists
           <<70>>,        \* F   /
           <<195, 169>>,  \* e-acute, two bytes
           HiveDefault }  \* the name Hive gives to the partition of NULL values: an ordinary string here
\* strings of up to n units (the empty string included)
UnitStrings(n) == UNION {[1..k -> Units] : k \in 0..n}
Bytes(us) == FlatB(us)

\* ------------------------------------------------------------ escape sets
Controls == (0..31) \cup {127}
MinSet   == Controls \cup {PCT, SLASH}
\* object_store path parts: controls / \ { ^ } % ` ] " > [ ~ < # | CR LF * ?
StoreSet == MinSet \cup {92, 123, 94, 125, 96, 93, 34, 62, 91, 126, 60, 35, 124, 42, 63}
WideSet  == StoreSet \cup {32, EQS, 39, 58}
Escaped(b) == \/ b >= 128
              \/ b \in (CASE EscSet = "min"    -> MinSet
                          [] EscSet = "store"  -> StoreSet
                          [] EscSet = "wide"   -> WideSet
                          [] EscSet = "broken" -> StoreSet \ {PCT})

\* ------------------------------------------------------------ Encode / Decode
Hex(n) == IF n < 10 THEN 48 + n ELSE 55 + n
EncByte(b) == IF Escaped(b) THEN <<PCT, Hex(b \div 16), Hex(b % 16)>> ELSE <<b>>
Encode(v) == FlatB([i \in 1..Len(v) |-> EncByte(v[i])])

HexVal(c) == IF c \in 48..57 THEN c - 48
             ELSE IF c \in 65..70 THEN c - 55
             ELSE IF c \in 97..102 THEN c - 87 ELSE 0 - 1
RECURSIVE Decode(_)
Decode(s) ==
  IF s = <<>> THEN <<>>
  ELSE IF s[1] = PCT /\ Len(s) >= 3 /\ HexVal(s[2]) >= 0 /\ HexVal(s[3]) >= 0
       THEN <<HexVal(s[2]) * 16 + HexVal(s[3])>> \o Decode(SubSeq(s, 4, Len(s)))
       ELSE <<s[1]>> \o Decode(Tail(s))

\* ------------------------------------------------------------ directories
Segment(name, v) == name \o <<EQS>> \o Encode(v)
RECURSIVE JoinSlash(_)
JoinSlash(segs) == IF segs = <<>> THEN <<>>
                   ELSE IF Len(segs) = 1 THEN segs[1]
                   ELSE segs[1] \o <<SLASH>> \o JoinSlash(Tail(segs))
\* names, vals: sequences of equal length
DirOf(names, vals) == JoinSlash([j \in 1..Len(names) |-> Segment(names[j], vals[j])])

RECURSIVE SplitAt(_, _, _)
\* split s at every occurrence of byte c; acc is the segment under construction
SplitAt(s, c, acc) ==
  IF s = <<>> THEN <<acc>>
  ELSE IF s[1] = c THEN <<acc>> \o SplitAt(Tail(s), c, <<>>)
  ELSE SplitAt(Tail(s), c, Append(acc, s[1]))
FirstEq(seg) == CHOOSE i \in 1..(Len(seg) + 1) : (i = Len(seg) + 1 \/ seg[i] = EQS) /\ \A j \in 1..(i - 1) : seg[j] # EQS
SegName(seg)  == SubSeq(seg, 1, FirstEq(seg) - 1)
SegValue(seg) == Decode(SubSeq(seg, FirstEq(seg) + 1, Len(seg)))
\* what a reader recovers from a directory (names are not checked here)
Recover(dir) == LET segs == SplitAt(dir, SLASH, <<>>) IN [j \in 1..Len(segs) |-> SegValue(segs[j])]
RecoverNames(dir) == LET segs == SplitAt(dir, SLASH, <<>>) IN [j \in 1..Len(segs) |-> SegName(segs[j])]

\* ------------------------------------------------------------ the laws
RoundTrip(v)    == Decode(Encode(v)) = v
LegalSegment(v) == \A i \in 1..Len(Encode(v)) : LET b == Encode(v)[i] IN b # SLASH /\ b \notin Controls /\ b < 128
N1 == <<112, 49>>    \* p1
N2 == <<112, 50>>    \* p2
PathRecover(v, w) == /\ Recover(DirOf(<<N1, N2>>, <<v, w>>)) = <<v, w>>
                     /\ RecoverNames(DirOf(<<N1, N2>>, <<v, w>>)) = <<N1, N2>>
Injective(S) == Cardinality({Encode(v) : v \in S}) = Cardinality(S)
=============================================================================
