------------------------------ MODULE Boundary ------------------------------
(***************************************************************************)
(* C26 - parallel byte-range scans read every record exactly once.          *)
(*                                                                         *)
(* A file is a sequence of bytes over Alphabet ("n" = the line terminator,  *)
(* "x" = content, "r" = CR, which is content as far as range alignment is   *)
(* concerned).  Positions are 0-based: the byte at position p is f[p+1].    *)
(*                                                                         *)
(* Part 1 (meaning): the ownership rule  "a range [s,e) owns the lines      *)
(* whose first byte lies in [s,e)"  and the theorem that for every split of *)
(* [0,size) the yields of the ranges, concatenated in order, are the file   *)
(* and every line is owned exactly once.                                    *)
(*                                                                         *)
(* Part 2 (implementation grain): the phase machine of                      *)
(* datafusion/datasource/src/boundary_stream.rs (AlignedBoundaryStream)     *)
(* over a chunked object store: fetch_start = s-1, initial GET              *)
(* [fetch_start, min(e+L,size)), nondeterministic chunk sizes 1..MaxChunk,  *)
(* refill GETs of L bytes while scanning for the last terminator.           *)
(* Invariant: when the machine is Done its output is Yield(f,s,e).          *)
(***************************************************************************)
EXTENDS Integers, Sequences, FiniteSets, TLC

CONSTANTS MaxLen,      \* maximal file length
          Alphabet,    \* subset of {"x","r","n"}
          MaxChunk,    \* the object store delivers chunks of 1..MaxChunk bytes
          Lookaheads   \* set of values for END_SCAN_LOOKAHEAD

Files == UNION {[1..n -> Alphabet] : n \in 0..MaxLen}
Min(a, b) == IF a < b THEN a ELSE b

\* ---------------------------------------------------------------- meaning
Slice(f, lo, hi) == SubSeq(f, lo + 1, hi)            \* bytes at positions [lo,hi)
IsLineStart(f, p) == p < Len(f) /\ (p = 0 \/ f[p] = "n")
\* first line start at or after p (size if there is none)
AlignStart(f, p) ==
  IF p >= Len(f) THEN Len(f)
  ELSE LET c == {q \in p..(Len(f) - 1) : IsLineStart(f, q)}
       IN IF c = {} THEN Len(f) ELSE CHOOSE q \in c : \A r \in c : q <= r
\* a line = <<first byte, one past its terminator (or size)>>
Lines(f) == {<<p, AlignStart(f, p + 1)>> : p \in {q \in 0..(Len(f) - 1) : IsLineStart(f, q)}}
Owned(f, s, e) == {l \in Lines(f) : s <= l[1] /\ l[1] < e}

RECURSIVE ConcatLines(_, _)
ConcatLines(f, ls) ==
  IF ls = {} THEN <<>>
  ELSE LET l == CHOOSE x \in ls : \A y \in ls : x[1] <= y[1]
       IN Slice(f, l[1], l[2]) \o ConcatLines(f, ls \ {l})

\* what a scan of range [s,e) must produce: the owned lines in file order ...
YieldOwned(f, s, e) == ConcatLines(f, Owned(f, s, e))
\* ... which is the contiguous byte interval [AlignStart(s), AlignStart(e))
YieldLo(f, s, e) == AlignStart(f, s)
YieldHi(f, s, e) == IF AlignStart(f, e) < AlignStart(f, s) THEN AlignStart(f, s) ELSE AlignStart(f, e)
Yield(f, s, e) == Slice(f, YieldLo(f, s, e), YieldHi(f, s, e))

\* all splits of [0,size) into k non-empty ranges, as increasing cut sequences <<0,..,size>>
Cuts3(n) == {<<0, a, b, n>> : a \in 1..(n - 1), b \in 2..(n - 1)}
Splits(n) == {<<0, n>>} \cup {<<0, a, n>> : a \in 1..(n - 1)}
             \cup {c \in Cuts3(n) : c[2] < c[3]}
RECURSIVE ConcatYields(_, _, _)
ConcatYields(f, cuts, i) ==
  IF i >= Len(cuts) THEN <<>>
  ELSE Yield(f, cuts[i], cuts[i + 1]) \o ConcatYields(f, cuts, i + 1)

\* Theorem (checked for every file by TLC as an invariant of the machine's initial states)
ExactlyOnce(f) ==
  /\ \A s \in 0..Len(f), e \in 0..(Len(f) + 1) : s < e => Yield(f, s, e) = YieldOwned(f, s, e)
  /\ Len(f) > 0 =>
       \A cuts \in Splits(Len(f)) :
         /\ ConcatYields(f, cuts, 1) = f
         /\ \A l \in Lines(f) :
              Cardinality({i \in 1..(Len(cuts) - 1) : l \in Owned(f, cuts[i], cuts[i + 1])}) = 1

\* ---------------------------------------------------- implementation grain
VARIABLES f, s, e, L,      \* the case
          phase,           \* "First" | "Fetch" | "Last" | "Done"
          pos,             \* abs_pos(): fetch_start + bytes_consumed
          iend,            \* end of the current GET (inner stream covers [.., iend))
          end,             \* effective end boundary (Inf for the last range)
          plo, phi,        \* pending remainder [plo,phi) (plo = phi: none)
          out,             \* bytes yielded so far
          gets             \* number of GET requests issued
vars == <<f, s, e, L, phase, pos, iend, end, plo, phi, out, gets>>

Inf == MaxLen + 100

Init ==
  /\ f \in Files /\ s \in 0..Len(f) /\ e \in 0..(Len(f) + 1) /\ L \in Lookaheads
  /\ out = <<>> /\ plo = 0 /\ phi = 0
  /\ IF s >= e \/ s >= Len(f)
     THEN phase = "Done" /\ pos = 0 /\ iend = 0 /\ end = 0 /\ gets = 0
     ELSE /\ pos = (IF s = 0 THEN 0 ELSE s - 1)
          /\ phase = (IF s = 0 THEN "Fetch" ELSE "First")
          /\ iend = Min(e + L, Len(f))
          /\ end = (IF e >= Len(f) THEN Inf ELSE e)
          /\ gets = 1

\* first terminator at a position in [lo,hi), or -1
FirstNL(lo, hi) ==
  LET c == {q \in lo..(hi - 1) : f[q + 1] = "n"}
  IN IF c = {} THEN -1 ELSE CHOOSE q \in c : \A r \in c : q <= r

\* FetchingChunks applied to chunk [lo,hi) (hi = abs_pos after the chunk)
Process(lo, hi) ==
  IF hi < end THEN out' = out \o Slice(f, lo, hi) /\ phase' = "Fetch"
  ELSE IF hi = end THEN
       /\ out' = out \o Slice(f, lo, hi)
       /\ phase' = (IF f[hi] = "n" THEN "Done" ELSE "Last")
  ELSE LET q == FirstNL(end - 1, hi)
       IN /\ Assert(end - 1 >= lo, "search_from underflow")
          /\ IF q >= 0 THEN out' = out \o Slice(f, lo, q + 1) /\ phase' = "Done"
             ELSE out' = out \o Slice(f, lo, hi) /\ phase' = "Last"

ChunkFirst(c) ==
  /\ phase = "First" /\ pos < iend /\ c \in 1..Min(MaxChunk, iend - pos)
  /\ pos' = pos + c
  /\ LET q == FirstNL(pos, pos + c)
     IN IF q < 0 THEN UNCHANGED <<phase, plo, phi>>
        ELSE IF q + 1 >= end THEN phase' = "Done" /\ UNCHANGED <<plo, phi>>
        ELSE phase' = "Fetch" /\ plo' = q + 1 /\ phi' = pos + c
  /\ UNCHANGED <<f, s, e, L, iend, end, out, gets>>

TakePending ==
  /\ phase = "Fetch" /\ plo < phi
  /\ Process(plo, phi)
  /\ plo' = 0 /\ phi' = 0
  /\ UNCHANGED <<f, s, e, L, pos, iend, end, gets>>

ChunkFetch(c) ==
  /\ phase = "Fetch" /\ plo = phi /\ pos < iend /\ c \in 1..Min(MaxChunk, iend - pos)
  /\ pos' = pos + c
  /\ Process(pos, pos + c)
  /\ UNCHANGED <<f, s, e, L, iend, end, plo, phi, gets>>

ChunkLast(c) ==
  /\ phase = "Last" /\ pos < iend /\ c \in 1..Min(MaxChunk, iend - pos)
  /\ pos' = pos + c
  /\ LET q == FirstNL(pos, pos + c)
     IN IF q >= 0 THEN out' = out \o Slice(f, pos, q + 1) /\ phase' = "Done"
        ELSE out' = out \o Slice(f, pos, pos + c) /\ UNCHANGED phase
  /\ UNCHANGED <<f, s, e, L, iend, end, plo, phi, gets>>

\* inner stream exhausted
Exhausted ==
  /\ pos = iend /\ plo = phi /\ phase \in {"First", "Fetch", "Last"}
  /\ IF phase = "Last" /\ pos < Len(f)
     THEN iend' = Min(pos + L, Len(f)) /\ gets' = gets + 1 /\ UNCHANGED phase   \* refill GET
     ELSE phase' = "Done" /\ UNCHANGED <<iend, gets>>
  /\ UNCHANGED <<f, s, e, L, pos, end, plo, phi, out>>

Finished == phase = "Done" /\ UNCHANGED vars

Next == \/ \E c \in 1..MaxChunk : ChunkFirst(c) \/ ChunkFetch(c) \/ ChunkLast(c)
        \/ TakePending \/ Exhausted \/ Finished
Spec == Init /\ [][Next]_vars

\* ------------------------------------------------------------- properties
TypeOK == /\ phase \in {"First", "Fetch", "Last", "Done"}
          /\ pos \in 0..MaxLen /\ iend \in 0..MaxLen /\ plo <= phi

\* the theorem about the meaning (evaluated once per file: in initial states with s = e = 0)
Theorem == (s = 0 /\ e = 0 /\ L = CHOOSE l \in Lookaheads : TRUE) => ExactlyOnce(f)

\* the machine computes the meaning
DoneCorrect == phase = "Done" => out = Yield(f, s, e)
\* while running, what has been yielded is a prefix of the meaning
PrefixOK == LET y == Yield(f, s, e) IN Len(out) <= Len(y) /\ out = SubSeq(y, 1, Len(out))
\* never reads past what it needs by more than the lookahead window allows, never before s-1
ReadWindow == phase # "Done" => pos >= (IF s = 0 THEN 0 ELSE s - 1)
=============================================================================
