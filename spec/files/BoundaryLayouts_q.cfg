CONSTANTS MaxLines = 5  Kinds = {"e", "s", "l", "h", "q"}  Sample = 20
SPECIFICATION Spec
INVARIANTS Emit
