CONSTANTS MaxLen = 4  MinLen = 0  Alphabet = {"x", "n"}
SPECIFICATION Spec
INVARIANTS Emit
