---------------------------- MODULE HivePathLaws ----------------------------
(***************************************************************************)
(* TLC driver for the laws of HivePath.tla: one state per string of up to   *)
(* MaxLen units (RoundTrip, LegalSegment), one state per pair of strings of *)
(* up to PairLen units (PathRecover), and Injective over the whole set.     *)
(***************************************************************************)
EXTENDS HivePath, TLC

CONSTANTS MaxLen, PairLen

VARIABLES kind, v, w

Strs == {Bytes(us) : us \in UnitStrings(MaxLen)}
Short == {Bytes(us) : us \in UnitStrings(PairLen)}

ASSUME InjectiveAll == Injective(Strs)
\* distinct unit strings are distinct byte strings (the alphabet itself is unambiguous)
ASSUME Cardinality(Strs) = Cardinality(UnitStrings(MaxLen))

Init == \/ kind = "one" /\ v \in Strs /\ w = <<>>
        \/ kind = "pair" /\ v \in Short /\ w \in Short
Next == UNCHANGED <<kind, v, w>>
Spec == Init /\ [][Next]_<<kind, v, w>>

Law == IF kind = "one" THEN RoundTrip(v) /\ LegalSegment(v) ELSE PathRecover(v, w)
=============================================================================
