---------------------------- MODULE SchemaAdapt ----------------------------
(***************************************************************************)
(* C44 - files with a differing schema are read faithfully into the table   *)
(* schema.                                                                  *)
(*                                                                         *)
(* Table schema (fixed):  a Int64, b Int32, s Utf8, st Struct{p Int64,      *)
(* q Utf8}.  A file's physical schema is a variant of it:                   *)
(*   has    : which of a, b, s, st the file contains                        *)
(*   order  : a permutation code for the column order in the file           *)
(*   extra  : an additional column x the table does not know                *)
(*   ta, tb : physical integer width of a / b  (castable lattice i8<i32<i64)*)
(*   ts     : "utf8" | "large"  physical string type of s                   *)
(*   stv    : the struct's fields in the file: "pq" "qp" "p" "q" "pqr"      *)
(*            (reordered / field missing / extra field)                     *)
(* A logical row is <<a, b, s, p, q>> (struct flattened).                   *)
(*   Adapt(v, row) = per table column the same-named file column (cast), or *)
(*                   NULL if the file does not have it; extra columns and   *)
(*                   extra struct fields are dropped.                       *)
(*   Scan(files, f) = Filter(f, Adapt of every row of every file)           *)
(* whether or not the filter is pushed into the file scan (where it is      *)
(* rewritten against the file schema).                                      *)
(***************************************************************************)
EXTENDS Expr, TLC, Json, Randomization

CONSTANTS N, AV, SVs, NCase, NPred
VARIABLES files, pred

Variants == [ha : BOOLEAN, hb : BOOLEAN, hs : BOOLEAN, hst : BOOLEAN, order : 0..5, extra : BOOLEAN,
             ta : {"i8", "i32", "i64"}, tb : {"i8", "i32", "i64"}, ts : {"utf8", "large"},
             stv : {"pq", "qp", "p", "q", "pqr"}]
IntVals == {I(v) : v \in AV} \cup {Null}
StrVals == {S(v) : v \in SVs} \cup {Null}
RandomRow(k) == <<RandomElement(IntVals), RandomElement(IntVals), RandomElement(StrVals),
                  RandomElement(IntVals), RandomElement(StrVals)>>
RandomFile(k) == [v |-> RandomElement(Variants), rows |-> [i \in 1..N |-> RandomRow(i)]]

HasP(v) == v.hst /\ v.stv \in {"pq", "qp", "p", "pqr"}
HasQ(v) == v.hst /\ v.stv \in {"pq", "qp", "q", "pqr"}
Adapt(v, r) == << IF v.ha THEN r[1] ELSE Null, IF v.hb THEN r[2] ELSE Null, IF v.hs THEN r[3] ELSE Null,
                  IF HasP(v) THEN r[4] ELSE Null, IF HasQ(v) THEN r[5] ELSE Null >>
\* the struct value itself is NULL iff the file has no st column
StructNull(v) == ~v.hst

ColVals(c) == IF c \in {3, 5} THEN {S(v) : v \in SVs} ELSE {I(v) : v \in AV}
Atoms ==
  UNION {{Bin(op, Col(c), Lit(v)) : op \in {"=", "<>", "<", ">="}, v \in ColVals(c)} : c \in 1..5}
  \cup UNION {{InList(Col(c), <<Lit(v), Lit(w)>>, ng) : v \in ColVals(c), w \in ColVals(c), ng \in BOOLEAN} : c \in 1..3}
  \cup {Un(f, Col(c)) : f \in {"isnull", "isnotnull"}, c \in 1..5}
  \cup {Bin(op, Col(1), Col(2)) : op \in {"=", "<", ">="}}
Preds ==
  Atoms
  \cup {Bin("and", x, y) : x \in Atoms, y \in Atoms}
  \cup {Bin("or", x, y) : x \in Atoms, y \in Atoms}
  \cup {Un("not", x) : x \in Atoms}

AdaptedRows(fl) == [i \in 1..Len(fl.rows) |-> Adapt(fl.v, fl.rows[i])]
RECURSIVE ScanFrom(_, _, _)
ScanFrom(fs, p, i) ==
  IF i > Len(fs) THEN <<>>
  ELSE SelectSeq(AdaptedRows(fs[i]), LAMBDA r : Holds(Eval(p, r))) \o ScanFrom(fs, p, i + 1)
Scan(fs, p) == ScanFrom(fs, p, 1)

\* laws of the specification: a column the file lacks is NULL on every adapted row; adapting is
\* the identity on a file that has the table's columns
Laws(fs) ==
  \A i \in 1..Len(fs) :
    /\ ~fs[i].v.ha => \A r \in 1..N : IsNull(AdaptedRows(fs[i])[r][1])
    /\ (fs[i].v.ha /\ fs[i].v.hb /\ fs[i].v.hs /\ fs[i].v.hst /\ fs[i].v.stv \in {"pq", "qp", "pqr"})
          => AdaptedRows(fs[i]) = fs[i].rows

Init == /\ \E k \in 1..NCase : files = <<RandomFile(k), RandomFile(k + 100)>>
        /\ pred \in RandomSubset(NPred, Preds)
Next == UNCHANGED <<files, pred>>
Spec == Init /\ [][Next]_<<files, pred>>

Case == [files |-> files, filter |-> pred, expect |-> Scan(files, pred),
         all |-> Scan(files, Lit(TrueV)),
         structnull |-> [i \in 1..Len(files) |-> StructNull(files[i].v)]]
Emit == Laws(files) /\ PrintT(<<"CASE", ToJson(Case)>>)
=============================================================================
