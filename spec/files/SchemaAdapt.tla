---------------------------- MODULE SchemaAdapt ----------------------------
(***************************************************************************)
(* C44 - files with a differing schema are read faithfully into the table   *)
(* schema.                                                                  *)
(*                                                                         *)
(* Table schema (fixed):  a Int64, b Int32, s Utf8, st Struct{p Int64,      *)
(* q Utf8}.  A file's physical schema is a variant of it:                   *)
(*   has    : which of a, b, s, st the file contains                        *)
(*   order  : a permutation code for the column order in the file           *)
(*   extra  : an additional column x the table does not know                *)
(*   ta, tb : physical integer width of a / b  (castable lattice i8<i32<i64)*)
(*   ts     : "utf8" | "large"  physical string type of s                   *)
(*   stv    : the struct's fields in the file: "pq" "qp" "p" "q" "pqr"      *)
(*            (reordered / field missing / extra field)                     *)
(* A logical row is <<a, b, s, p, q>> (struct flattened).                   *)
(*   Adapt(v, row) = per table column the same-named file column (cast), or *)
(*                   NULL if the file does not have it; extra columns and   *)
(*                   extra struct fields are dropped.                       *)
(*   Scan(files, f) = Filter(f, Adapt of every row of every file)           *)
(* whether or not the filter is pushed into the file scan (where it is      *)
(* rewritten against the file schema).                                      *)
(***************************************************************************)
EXTENDS Expr, TLC, Json, Randomization

(***************************************************************************)
(* Extended scope (coverage audit):                                         *)
(*   st   has a nested struct field  in{u Int64, w Int64}  (two levels);    *)
(*        per row the struct itself may be NULL (sn);                       *)
(*   ls   List<Struct{p, q}> with one element per row (list-of-struct);     *)
(*   t    Timestamp(us) in the table, file unit s/ms/us/ns, optionally UTC; *)
(*   m    Decimal(10,2) in the table, file precision/scale (5,1) (7,2);     *)
(*   s    may be dictionary-encoded in the file.                            *)
(* Logical file row: <<a, b, s, p, q, sn, u, t, m>>; adapted row:           *)
(*   <<a, b, s, st.p, st.q, st IS NULL, st.in.u, st.in.w, ls[1].p, ls[1].q, *)
(*     t (seconds), m>>   (st.in.w carries b's value, ls[1] = {p, q}).      *)
(***************************************************************************)
CONSTANTS N, AV, SVs, NCase
VARIABLES files, pred

Variants == [ha : BOOLEAN, hb : BOOLEAN, hs : BOOLEAN, hst : BOOLEAN, hls : BOOLEAN, ht : BOOLEAN, hm : BOOLEAN,
             order : 0..5, extra : BOOLEAN,
             ta : {"i8", "i32", "i64"}, tb : {"i8", "i32", "i64"}, ts : {"utf8", "large", "dict"},
             stv : {"pq", "qp", "p", "q", "pqr"}, inv : {"none", "uw", "wu", "u", "uwz"},
             tt : {"s", "ms", "us", "ns", "ms_utc"}, tm : {"5_1", "7_2", "10_2"}]
IntVals == {I(v) : v \in AV} \cup {Null}
StrVals == {S(v) : v \in SVs} \cup {Null}
RandomRow(k) == <<RandomElement(IntVals), RandomElement(IntVals), RandomElement(StrVals),
                  RandomElement(IntVals), RandomElement(StrVals), RandomElement({FalseV, FalseV, TrueV}),
                  RandomElement(IntVals), RandomElement(IntVals), RandomElement(IntVals)>>
\* missing columns are more interesting than present ones: bias the presence flags
RandomVariant(k) == [RandomElement(Variants) EXCEPT !.ha = RandomElement({TRUE, TRUE, FALSE}), !.hst = RandomElement({TRUE, TRUE, TRUE, FALSE})]
RandomFile(k) == [v |-> RandomVariant(k), rows |-> [i \in 1..N |-> RandomRow(i)]]

StNull(v, r) == ~v.hst \/ IsTrue(r[6])
HasP(v) == v.stv \in {"pq", "qp", "p", "pqr"}
HasQ(v) == v.stv \in {"pq", "qp", "q", "pqr"}
HasU(v) == v.inv \in {"uw", "wu", "u", "uwz"}
HasW(v) == v.inv \in {"uw", "wu", "uwz"}
Adapt(v, r) == << IF v.ha THEN r[1] ELSE Null, IF v.hb THEN r[2] ELSE Null, IF v.hs THEN r[3] ELSE Null,
                  IF ~StNull(v, r) /\ HasP(v) THEN r[4] ELSE Null,
                  IF ~StNull(v, r) /\ HasQ(v) THEN r[5] ELSE Null,
                  B(StNull(v, r)),
                  IF ~StNull(v, r) /\ HasU(v) THEN r[7] ELSE Null,
                  IF ~StNull(v, r) /\ HasW(v) THEN r[2] ELSE Null,
                  IF v.hls /\ HasP(v) THEN r[4] ELSE Null,
                  IF v.hls /\ HasQ(v) THEN r[5] ELSE Null,
                  IF v.ht THEN r[8] ELSE Null,
                  IF v.hm THEN r[9] ELSE Null >>
NOut == 12

StrCols == {3, 5, 10}
ColVals(c) == IF c \in StrCols THEN {S(v) : v \in SVs} ELSE IF c = 6 THEN {TrueV, FalseV} ELSE {I(v) : v \in AV}
RandLit(c) == Lit(RandomElement(ColVals(c)))
AtomOn(c, kind) ==
  IF c = 6 THEN Bin("=", Col(6), RandLit(6))
  ELSE CASE kind = "cmp"  -> Bin(RandomElement({"=", "<>", "<", ">="}), Col(c), RandLit(c))
         [] kind = "in"   -> InList(Col(c), <<RandLit(c), RandLit(c)>>, RandomElement(BOOLEAN))
         [] kind = "null" -> Un(RandomElement({"isnull", "isnotnull"}), Col(c))
         [] kind = "colcol" -> Bin(RandomElement({"=", "<", ">="}), Col(1), Col(2))
\* list-element fields (columns 9, 10) are projected and compared but not used in predicates
RandAtom(k) == AtomOn(RandomElement({1, 1, 2, 3, 4, 5, 6, 7, 8, 11, 12}), RandomElement({"cmp", "cmp", "in", "null", "colcol"}))
Shape(sh, x, y) ==
  CASE sh = "atom" -> x
    [] sh = "and" -> Bin("and", x, y)
    [] sh = "or" -> Bin("or", x, y)
    [] sh = "not" -> Un("not", x)
RandomPred(k) == Shape(RandomElement({"atom", "atom", "and", "or", "not"}), RandAtom(k), RandAtom(k + 1))

AdaptedRows(fl) == [i \in 1..Len(fl.rows) |-> Adapt(fl.v, fl.rows[i])]
RECURSIVE ScanFrom(_, _, _)
ScanFrom(fs, p, i) ==
  IF i > Len(fs) THEN <<>>
  ELSE SelectSeq(AdaptedRows(fs[i]), LAMBDA r : Holds(Eval(p, r))) \o ScanFrom(fs, p, i + 1)
Scan(fs, p) == ScanFrom(fs, p, 1)

\* laws of the specification: a column the file lacks is NULL on every adapted row; a file without the
\* struct column has a NULL struct on every row and all of its fields are NULL
Laws(fs) ==
  \A i \in 1..Len(fs) : \A r \in 1..N :
    LET x == AdaptedRows(fs[i])[r] IN
    /\ ~fs[i].v.ha => IsNull(x[1])
    /\ ~fs[i].v.hst => IsTrue(x[6])
    /\ IsTrue(x[6]) => IsNull(x[4]) /\ IsNull(x[5]) /\ IsNull(x[7]) /\ IsNull(x[8])
    /\ Len(x) = NOut

Init == \E k \in 1..NCase : /\ files = <<RandomFile(k), RandomFile(k + 100)>>
                            /\ pred = RandomPred(k)
Next == UNCHANGED <<files, pred>>
Spec == Init /\ [][Next]_<<files, pred>>

Case == [files |-> files, filter |-> pred, expect |-> Scan(files, pred),
         all |-> Scan(files, Lit(TrueV))]
Emit == Laws(files) /\ PrintT(<<"CASE", ToJson(Case)>>)
=============================================================================
