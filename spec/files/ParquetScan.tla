---------------------------- MODULE ParquetScan ----------------------------
(***************************************************************************)
(* C24 - Parquet scans with pruning and pushdown return exactly the         *)
(* matching rows.                                                           *)
(*                                                                         *)
(* A table is 1 or 2 files; a file is a sequence of rows <<a, b, s, p>>     *)
(* (a, b, p nullable integers, s a nullable string from an ordered pool;    *)
(* physically: columns a, b, s, a struct st{p, q = s} and a list l = [a,b]);*)
(* row i of a file has file row index i-1.  The writer cuts each file into  *)
(* row groups of RG rows and data pages of PG rows.  The second file may    *)
(* hold values of column a shifted by 10 (disjoint statistics: file-level   *)
(* pruning).  The meaning of a scan with predicate p is Filter(p, rows) of  *)
(* every file - with the row index attached - whatever the reader prunes.   *)
(* The reader's access plan is modelled as successive selections of         *)
(* containers (files, row groups, pages, rows); a selection is SOUND iff it *)
(* keeps every container holding a matching row.  Theorem (checked per      *)
(* case): filtering any sound chain of selections yields Filter(p, rows);   *)
(* the minimal sound selections NeedRG / NeedPages do, and dropping any     *)
(* container of NeedRG loses a matching row.                                *)
(***************************************************************************)
EXTENDS Expr, TLC, Json, Randomization

CONSTANTS N,          \* rows per file
          AV, SVs,    \* integer values / string pool indices used in the data
          NCases
VARIABLES data, pred, lay

Shift == 10
Vals(c) == IF c = 3 THEN {S(v) : v \in SVs} \cup {Null} ELSE {I(v) : v \in AV} \cup {Null}
Arrangements == {"random", "sorted", "clustered", "nulls"}
\* one random data set (RandomElement is re-evaluated for every call of an operator with arguments)
RandomData(k) == [a |-> [i \in 1..N |-> RandomElement(Vals(1))], b |-> [i \in 1..N |-> RandomElement(Vals(2))],
                  s |-> [i \in 1..N |-> RandomElement(Vals(3))], p |-> [i \in 1..N |-> RandomElement(Vals(4))],
                  arrange |-> RandomElement(Arrangements)]

\* value order used for the "sorted" arrangement: NULLs last, integers ascending
Key(v) == IF IsNull(v) THEN 1000000 ELSE v.v
RECURSIVE InsertSorted(_, _), SortByA(_)
InsertSorted(r, sq) == IF sq = <<>> THEN <<r>>
                       ELSE IF Key(r[1]) <= Key(Head(sq)[1]) THEN <<r>> \o sq
                       ELSE <<Head(sq)>> \o InsertSorted(r, Tail(sq))
SortByA(sq) == IF sq = <<>> THEN <<>> ELSE InsertSorted(Head(sq), SortByA(Tail(sq)))

RawRows(d) == [i \in 1..N |-> <<d.a[i], d.b[i], d.s[i], d.p[i]>>]
Rows(d) ==
  CASE d.arrange = "random" -> RawRows(d)
    [] d.arrange = "sorted" -> SortByA(RawRows(d))
    [] d.arrange = "clustered" -> [i \in 1..N |-> <<I(((i - 1) \div 3) + 1), d.b[i], d.s[i], d.p[i]>>]   \* runs of equal a
    [] d.arrange = "nulls" -> [i \in 1..N |-> IF i % 3 = 0 THEN RawRows(d)[i] ELSE <<Null, d.b[i], Null, d.p[i]>>]
ShiftRows(rows, sh) == [i \in 1..Len(rows) |-> <<IF IsNull(rows[i][1]) THEN Null ELSE I(rows[i][1].v + sh),
                                                  rows[i][2], rows[i][3], rows[i][4]>>]

Layouts == [rg : {2, 3, 5, N}, pg : {1, 2, 3}, stats : {"none", "chunk", "page"}, bloom : BOOLEAN, dict : BOOLEAN,
            two : BOOLEAN, shift : {0, Shift}]
Files(d, l) == IF l.two THEN <<Rows(d[1]), ShiftRows(Rows(d[2]), l.shift)>> ELSE <<Rows(d[1])>>

\* ------------------------------------------------------------- predicates
\* columns: 1 a, 2 b, 3 s, 4 st.p
ColVals(c) == IF c = 3 THEN {S(v) : v \in SVs}
              ELSE IF c = 1 THEN {I(v) : v \in AV} \cup {I(v + Shift) : v \in AV} ELSE {I(v) : v \in AV}
RandLit(c) == Lit(RandomElement(ColVals(c)))
AtomOn(c, kind) ==
  CASE kind = "cmp"  -> Bin(RandomElement({"=", "=", "<>", "<", "<=", ">", ">="}), Col(c), RandLit(c))
    [] kind = "in"   -> InList(Col(c), <<RandLit(c), RandLit(c)>>, RandomElement(BOOLEAN))
    [] kind = "null" -> Un(RandomElement({"isnull", "isnotnull"}), Col(c))
    [] kind = "colcol" -> Bin(RandomElement({"=", "<", ">="}), Col(1), Col(2))
RandAtom(k) == AtomOn(RandomElement({1, 1, 2, 3, 4}), RandomElement({"cmp", "in", "null", "colcol"}))
\* biased towards comparisons on column a (statistics / page index / limit pruning paths)
RandAtomA(k) == AtomOn(1, "cmp")
Shape(sh, x, y, z) ==
  CASE sh = "atom" -> x
    [] sh = "and" -> Bin("and", x, y)
    [] sh = "or" -> Bin("or", x, y)
    [] sh = "not" -> Un("not", x)
    [] sh = "andnot" -> Bin("and", x, Un("not", y))
    [] sh = "and3" -> Bin("and", Bin("and", x, y), z)
RandomPred(k) ==
  Shape(RandomElement({"atom", "and", "or", "not", "andnot", "and3"}),
        IF RandomElement(1..3) = 1 THEN RandAtomA(k) ELSE RandAtom(k), RandAtom(k + 1), RandAtom(k + 2))

\* ---------------------------------------------------------------- meaning
Match(p, rows) == {i \in 1..Len(rows) : Holds(Eval(p, rows[i]))}
ExpectFile(p, rows) == [k \in 1..Cardinality(Match(p, rows)) |->
                      LET i == CHOOSE j \in Match(p, rows) : Cardinality({m \in Match(p, rows) : m < j}) = k - 1
                      IN <<I(i - 1)>> \o rows[i]]
RECURSIVE ExpectFrom(_, _, _)
ExpectFrom(p, fs, i) == IF i > Len(fs) THEN <<>> ELSE ExpectFile(p, fs[i]) \o ExpectFrom(p, fs, i + 1)
Expect(p, fs) == ExpectFrom(p, fs, 1)
Container(size, g) == {i \in 1..N : (i - 1) \div size = g}
NContainers(size) == (N + size - 1) \div size
Need(p, rows, size) == {g \in 0..(NContainers(size) - 1) : Container(size, g) \cap Match(p, rows) # {}}
\* pages restart in every row group
PageOf(l, i) == <<(i - 1) \div l.rg, ((i - 1) % l.rg) \div l.pg>>
NeedPages(p, rows, l) == {PageOf(l, i) : i \in Match(p, rows)}
NeedFiles(p, fs) == {f \in 1..Len(fs) : Match(p, fs[f]) # {}}
Sound(sel, p, rows) == Match(p, rows) \subseteq sel
Laws(p, rows, l) ==
  LET m == Match(p, rows)
      rgsel == UNION {Container(l.rg, g) : g \in Need(p, rows, l.rg)}
      pgsel == {i \in 1..N : PageOf(l, i) \in NeedPages(p, rows, l)}
  IN /\ Sound(rgsel, p, rows) /\ Sound(pgsel, p, rows) /\ pgsel \subseteq rgsel
     /\ {i \in pgsel : Holds(Eval(p, rows[i]))} = m
     /\ \A g \in Need(p, rows, l.rg) : ~Sound(rgsel \ Container(l.rg, g), p, rows)
AllLaws(p, fs, l) == \A f \in 1..Len(fs) : Laws(p, fs[f], l)

Init == /\ \E k \in 1..NCases : /\ data = <<RandomData(k), RandomData(k + 1000)>>
                                /\ pred = RandomPred(k)
                                /\ lay = RandomElement(Layouts)
Next == UNCHANGED <<data, pred, lay>>
Spec == Init /\ [][Next]_<<data, pred, lay>>

SumSeq(f, n) == IF n = 1 THEN f[1] ELSE f[1] + f[2]
Case == LET fs == Files(data, lay) IN
        [files |-> fs, arrange |-> <<data[1].arrange, data[2].arrange>>, lay |-> lay, filter |-> pred,
         expect |-> Expect(pred, fs),
         need_files |-> Cardinality(NeedFiles(pred, fs)), n_files |-> Len(fs),
         need_rg |-> SumSeq([f \in 1..Len(fs) |-> Cardinality(Need(pred, fs[f], lay.rg))], Len(fs)),
         n_rg |-> NContainers(lay.rg) * Len(fs),
         need_pages |-> SumSeq([f \in 1..Len(fs) |-> Cardinality(NeedPages(pred, fs[f], lay))], Len(fs))]
Emit == AllLaws(pred, Files(data, lay), lay) /\ PrintT(<<"CASE", ToJson(Case)>>)
=============================================================================
