---------------------------- MODULE ParquetScan ----------------------------
(***************************************************************************)
(* C24 - Parquet scans with pruning and pushdown return exactly the         *)
(* matching rows.                                                           *)
(*                                                                         *)
(* A file is a sequence of rows <<a, b, s>> (a, b nullable integers, s a    *)
(* nullable string from an ordered pool); row i has file row index i-1.     *)
(* The writer cuts it into row groups of RG rows and data pages of PG rows. *)
(* The meaning of a scan with predicate p is Filter(p, rows) - with the row *)
(* index attached - whatever the reader prunes.  The reader's access plan   *)
(* is modelled as successive selections of containers (row groups, pages,   *)
(* rows); a selection is SOUND iff it keeps every container holding a       *)
(* matching row.  Theorem (checked per case): filtering any sound chain of  *)
(* selections yields Filter(p, rows); in particular the minimal sound       *)
(* selections NeedRG / NeedPages do, and dropping any container of NeedRG   *)
(* loses a matching row.                                                    *)
(***************************************************************************)
EXTENDS Expr, TLC, Json, Randomization

CONSTANTS N,          \* rows per file
          AV, SVs,    \* integer values / string pool indices used in the data
          NData, NPred
VARIABLES data, pred, lay

Vals(c) == IF c = 3 THEN {S(v) : v \in SVs} \cup {Null} ELSE {I(v) : v \in AV} \cup {Null}
Arrangements == {"random", "sorted", "clustered", "nulls"}
\* one random data set (RandomElement is re-evaluated for every initial state)
RandomData(k) == [a |-> [i \in 1..N |-> RandomElement(Vals(1))], b |-> [i \in 1..N |-> RandomElement(Vals(2))],
               s |-> [i \in 1..N |-> RandomElement(Vals(3))], arrange |-> RandomElement(Arrangements)]

\* value order used for the "sorted" arrangement: NULLs last, integers ascending
Key(v) == IF IsNull(v) THEN 1000000 ELSE v.v
RECURSIVE InsertSorted(_, _), SortByA(_)
InsertSorted(r, sq) == IF sq = <<>> THEN <<r>>
                       ELSE IF Key(r[1]) <= Key(Head(sq)[1]) THEN <<r>> \o sq
                       ELSE <<Head(sq)>> \o InsertSorted(r, Tail(sq))
SortByA(sq) == IF sq = <<>> THEN <<>> ELSE InsertSorted(Head(sq), SortByA(Tail(sq)))

RawRows(d) == [i \in 1..N |-> <<d.a[i], d.b[i], d.s[i]>>]
Rows(d) ==
  CASE d.arrange = "random" -> RawRows(d)
    [] d.arrange = "sorted" -> SortByA(RawRows(d))
    [] d.arrange = "clustered" -> [i \in 1..N |-> <<I(((i - 1) \div 3) + 1), d.b[i], d.s[i]>>]   \* runs of equal a
    [] d.arrange = "nulls" -> [i \in 1..N |-> IF i % 3 = 0 THEN RawRows(d)[i] ELSE <<Null, d.b[i], Null>>]

Layouts == [rg : {2, 3, 5, N}, pg : {1, 2, 3}, stats : {"none", "chunk", "page"}, bloom : BOOLEAN, dict : BOOLEAN]

\* ------------------------------------------------------------- predicates
ColVals(c) == IF c = 3 THEN {S(v) : v \in SVs} ELSE {I(v) : v \in AV}
Atoms ==
  UNION {{Bin(op, Col(c), Lit(v)) : op \in {"=", "<>", "<", "<=", ">", ">="}, v \in ColVals(c)} : c \in 1..3}
  \cup UNION {{InList(Col(c), <<Lit(v), Lit(w)>>, ng) : v \in ColVals(c), w \in ColVals(c), ng \in BOOLEAN} : c \in 1..3}
  \cup {Un(f, Col(c)) : f \in {"isnull", "isnotnull"}, c \in 1..3}
  \cup {Bin(op, Col(1), Col(2)) : op \in {"=", "<", ">="}}
Preds ==
  Atoms
  \cup {Bin("and", x, y) : x \in Atoms, y \in Atoms}
  \cup {Bin("or", x, y) : x \in Atoms, y \in Atoms}
  \cup {Un("not", x) : x \in Atoms}
  \cup {Bin("and", x, Un("not", y)) : x \in Atoms, y \in Atoms}

\* ---------------------------------------------------------------- meaning
Match(p, rows) == {i \in 1..Len(rows) : Holds(Eval(p, rows[i]))}
Expect(p, rows) == [k \in 1..Cardinality(Match(p, rows)) |->
                      LET i == CHOOSE j \in Match(p, rows) : Cardinality({m \in Match(p, rows) : m < j}) = k - 1
                      IN <<I(i - 1)>> \o rows[i]]
Container(size, g) == {i \in 1..N : (i - 1) \div size = g}
NContainers(size) == (N + size - 1) \div size
Need(p, rows, size) == {g \in 0..(NContainers(size) - 1) : Container(size, g) \cap Match(p, rows) # {}}
\* pages restart in every row group
PageOf(l, i) == <<(i - 1) \div l.rg, ((i - 1) % l.rg) \div l.pg>>
NeedPages(p, rows, l) == {PageOf(l, i) : i \in Match(p, rows)}
Sound(sel, p, rows) == Match(p, rows) \subseteq sel
Laws(p, rows, l) ==
  LET m == Match(p, rows)
      rgsel == UNION {Container(l.rg, g) : g \in Need(p, rows, l.rg)}
      pgsel == {i \in 1..N : PageOf(l, i) \in NeedPages(p, rows, l)}
  IN /\ Sound(rgsel, p, rows) /\ Sound(pgsel, p, rows) /\ pgsel \subseteq rgsel
     /\ {i \in pgsel : Holds(Eval(p, rows[i]))} = m
     /\ \A g \in Need(p, rows, l.rg) : ~Sound(rgsel \ Container(l.rg, g), p, rows)

Init == /\ \E k \in 1..NData : data = RandomData(k)
        /\ pred \in RandomSubset(NPred, Preds)
        /\ lay = RandomElement(Layouts)
Next == UNCHANGED <<data, pred, lay>>
Spec == Init /\ [][Next]_<<data, pred, lay>>

Case == [rows |-> Rows(data), arrange |-> data.arrange, lay |-> lay, filter |-> pred,
         expect |-> Expect(pred, Rows(data)),
         need_rg |-> Cardinality(Need(pred, Rows(data), lay.rg)), n_rg |-> NContainers(lay.rg),
         need_pages |-> Cardinality(NeedPages(pred, Rows(data), lay))]
Emit == Laws(pred, Rows(data), lay) /\ PrintT(<<"CASE", ToJson(Case)>>)
=============================================================================
