--------------------------- MODULE ContractTrace ---------------------------
(* Binding B2: event logs recorded from real executions (one line per run:    *)
(* {"id", "nodes":[...]}) are validated against OperatorContract.  A state is  *)
(* <run, l>: node l of run `run` is being judged; the behaviour walks the      *)
(* nodes of the run.  `Judge` is listed as an invariant: it evaluates the      *)
(* contract selected by CHECK on the node and reports every rejected           *)
(* <node, partition, fact, index> (all of them, so that one rejection cannot   *)
(* hide another); the driver confirms a rejection on the recorded data before  *)
(* it raises a violation.  `Strict` is the same contract as a plain invariant. *)
EXTENDS OperatorContract, Json, IOUtils, TLC

CONSTANT CHECK

Runs == ndJsonDeserialize(IOEnv.TRACE)

VARIABLES run, l
tvars == <<run, l>>

TraceInit == run \in 1..Len(Runs) /\ l = 1
Nodes == Runs[run].nodes
Node == Nodes[l]

TraceStep == l < Len(Nodes) /\ l' = l + 1 /\ UNCHANGED run
TraceDone == l = Len(Nodes) /\ UNCHANGED tvars
TraceNext == TraceStep \/ TraceDone
TraceSpec == TraceInit /\ [][TraceNext]_tvars

Bad == CASE CHECK = "C28" -> C28Viol(Node)
         [] CHECK = "C29" -> C29Viol(Node) \cup (IF l = 1 THEN UNION {AggViol(Runs[run].agg[j]) : j \in 1..Len(Runs[run].agg)} ELSE {})
         [] CHECK = "C30" -> C30Viol(Node) \cup (IF l = 1 THEN LogicalViol(Runs[run].logical, Runs[run].root) ELSE {})
         [] CHECK = "C53" -> C53Viol(Node) \cup (IF l = 1 THEN AnalyzeViol(Runs[run].analyze)
                                                       \cup UNION {SpillViol(Runs[run].spill[j]) : j \in 1..Len(Runs[run].spill)}
                                                  ELSE {})

Strict == Bad = {}
Judge == Bad = {} \/ PrintT(<<"REJECT", ToJson([run |-> Runs[run].id, bad |-> Bad])>>)
=============================================================================
