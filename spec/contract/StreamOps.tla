------------------------------ MODULE StreamOps ------------------------------
(***************************************************************************)
(* C50 — queries accepted over unbounded inputs keep producing.             *)
(*                                                                         *)
(* Streaming operators over endless inputs ordered by ts.  A run feeds the  *)
(* sources batch by batch (never closing them) and records, at every        *)
(* quiescent point, everything the query has emitted so far.  For a shape   *)
(* and the input prefix P seen at a point:                                  *)
(*   Correct(P)     what may have been emitted (rows fixed AND right for P) *)
(*   Determined(P)  rows that no continuation of the input can change       *)
(* Safety   : Emitted is within Correct(P)   (prefix, or sub-bag)           *)
(* Liveness : all of Determined(P) is delivered while the input continues,  *)
(*            up to the bounded buffering of batch coalescing:              *)
(*            |Emitted| + SLACK >= |Determined(P')| at EVERY quiescent      *)
(*            point, where P' is the longest earlier prefix since which     *)
(*            every input partition has delivered LAG more batches          *)
(*            (an operator that waits for end of input falls behind without *)
(*            bound, because the input never ends)                          *)
(* Shapes that can only answer at end of input are not Accepted and must be *)
(* rejected at planning time.                                               *)
(* Rows fed: <<ts, k, v>> (ts non-NULL, strictly increasing over the whole  *)
(* run except for shape "agg", where it is non-decreasing).                 *)
(***************************************************************************)
EXTENDS Rel

CONSTANTS SLACK,   \* rows an accepted pipeline may hold back (batch coalescing)
          LAG,     \* batches EVERY input must have continued with before a determined row is due
                   \* (a multi-input operator polls its inputs in turn: "while the input continues")
          LIMITN,  \* the LIMIT of shape "limit"
          WIN      \* half-width of the join window of shape "shj"

AcceptedShapes == {"filter", "limit", "agg", "agg2", "window", "wpart", "union", "merge", "shj", "shj_nofilter",
                   "shj_left", "shj_right", "shj_full", "filter_limit"}
Accepted(shape) == shape \in AcceptedShapes

\* rows fed to <src, part> by the first k feed events
FedTo(feed, k, src, part) ==
  Flatten([i \in 1..k |-> IF feed[i].src = src /\ feed[i].part = part THEN feed[i].rows ELSE <<>>])

\* the longest prefix j <= k such that every input partition of the run was fed LAG more batches in (j, k]
Slots(feed) == {<<feed[i].src, feed[i].part>> : i \in 1..Len(feed)}
FedIn(feed, j, k, slot) == Cardinality({i \in (j + 1)..k : <<feed[i].src, feed[i].part>> = slot})
LagPrefix(feed, k) ==
  LET ok == {j \in 0..k : \A slot \in Slots(feed) : FedIn(feed, j, k, slot) >= LAG} IN
  IF ok = {} THEN 0 ELSE CHOOSE j \in ok : \A j2 \in ok : j2 <= j

MaxTsOf(P) == P[Len(P)][1].v

TsKey == <<[i |-> 1, asc |-> TRUE, nf |-> FALSE]>>
Ints(vals) == SelectSeq(vals, LAMBDA x : ~IsNull(x))
SumOrNull(vals) == IF Ints(vals) = <<>> THEN Null ELSE I(SumV(Ints(vals)))

(* ---- SELECT ts, v + 1 FROM s WHERE v >= 0 ---- *)
FilterOut(P) ==
  LET keep == SelectSeq(P, LAMBDA r : ~IsNull(r[3]) /\ r[3].v >= 0) IN
  [i \in 1..Len(keep) |-> <<keep[i][1], I(keep[i][3].v + 1)>>]

(* ---- SELECT ts, v FROM s LIMIT n ---- *)
LimitOut(P) == [i \in 1..(IF Len(P) < LIMITN THEN Len(P) ELSE LIMITN) |-> <<P[i][1], P[i][3]>>]

(* ---- SELECT ts, count, sum(v) FROM s GROUP BY ts   (input ordered by ts: a group is closed ---- *)
(* ---- by the first row with a larger ts; the last group of a prefix is still open)            ---- *)
GroupKeys(P) == DedupSeq([i \in 1..Len(P) |-> P[i][1]])
GroupRow(P, key) ==
  LET m == SelectSeq(P, LAMBDA r : r[1] = key) IN
  <<key, I(Len(m)), SumOrNull([i \in 1..Len(m) |-> m[i][3]])>>
ClosedGroups(P) ==
  LET ks == GroupKeys(P) IN [g \in 1..(Len(ks) - 1) |-> GroupRow(P, ks[g])]

(* ---- SELECT ts, k, count, sum(v) FROM s GROUP BY ts, k  (input ordered by ts only: partially ordered ---- *)
(* ---- aggregation; every group of a ts value is closed by the first row with a larger ts)            ---- *)
Group2Keys(P) == DedupSeq([i \in 1..Len(P) |-> <<P[i][1], P[i][2]>>])
Group2Row(P, key) ==
  LET m == SelectSeq(P, LAMBDA r : <<r[1], r[2]>> = key) IN
  <<key[1], key[2], I(Len(m)), SumOrNull([i \in 1..Len(m) |-> m[i][3]])>>
ClosedGroups2(P) ==
  IF P = <<>> THEN <<>>
  ELSE LET ks == SelectSeq(Group2Keys(P), LAMBDA key : key[1].v < MaxTsOf(P)) IN
       [g \in 1..Len(ks) |-> Group2Row(P, ks[g])]

(* ---- sum(v) OVER (PARTITION BY k ORDER BY ts ROWS BETWEEN 1 PRECEDING AND CURRENT ROW): fixed when the row is seen ---- *)
PartPrev(P, i) == SelectSeq(SubSeq(P, 1, i - 1), LAMBDA r : r[2] = P[i][2])
WPartRow(P, i) ==
  LET prev == PartPrev(P, i) IN
  <<P[i][1], P[i][2], P[i][3], SumOrNull(IF prev = <<>> THEN <<P[i][3]>> ELSE <<prev[Len(prev)][3], P[i][3]>>)>>
WPartOut(P) == [i \in 1..Len(P) |-> WPartRow(P, i)]

(* ---- sum(v) OVER (ORDER BY ts ROWS BETWEEN 1 PRECEDING AND 1 FOLLOWING): row i is fixed once row i+1 is seen ---- *)
WindowRow(P, i) ==
  <<P[i][1], P[i][3],
    SumOrNull([j \in 1..3 |-> IF i + j - 2 >= 1 /\ i + j - 2 <= Len(P) THEN P[i + j - 2][3] ELSE Null])>>
WindowOut(P) == [i \in 1..(Len(P) - 1) |-> WindowRow(P, i)]

(* ---- ORDER BY ts over two ordered partitions (sort-preserving merge): rows up to the smaller of the two ---- *)
(* ---- partition maxima are fixed; nothing beyond it may be emitted                                     ---- *)
Proj(P) == [i \in 1..Len(P) |-> <<P[i][1], P[i][3]>>]
MaxTs(P) == P[Len(P)][1].v
MergeBound(P0, P1) == IF MaxTs(P0) < MaxTs(P1) THEN MaxTs(P0) ELSE MaxTs(P1)
Merged(P0, P1) == SortRows(Proj(P0 \o P1), TsKey)
MergeCorrect(P0, P1) ==
  IF P0 = <<>> \/ P1 = <<>> THEN <<>> ELSE SelectSeq(Merged(P0, P1), LAMBDA r : r[1].v <= MergeBound(P0, P1))
MergeDetermined(P0, P1) ==
  IF P0 = <<>> \/ P1 = <<>> THEN <<>> ELSE SelectSeq(Merged(P0, P1), LAMBDA r : r[1].v < MergeBound(P0, P1))

(* ---- l JOIN r ON l.k = r.k [AND l.ts > r.ts - W AND l.ts < r.ts + W]  (symmetric hash join; the window ---- *)
(* ---- lets it prune): an inner match is fixed as soon as both rows have been seen                        ---- *)
JoinOut(L, R, windowed) ==
  Flatten([i \in 1..Len(L) |->
    LET ms == SelectSeq(R, LAMBDA r : /\ ~IsNull(L[i][2]) /\ ~IsNull(r[2]) /\ L[i][2].v = r[2].v
                                      /\ (windowed => (L[i][1].v > r[1].v - WIN /\ L[i][1].v < r[1].v + WIN))) IN
    [j \in 1..Len(ms) |-> <<L[i][1], ms[j][1]>>]])

\* [ordered, correct, determined] for a shape at the point after k feed events
Sem(shape, feed, k) ==
  LET S0 == FedTo(feed, k, 0, 0)
      S01 == FedTo(feed, k, 0, 1)
      S1 == FedTo(feed, k, 1, 0) IN
  CASE shape = "filter" -> [ordered |-> TRUE, correct |-> FilterOut(S0), determined |-> FilterOut(S0)]
    [] shape = "limit"  -> [ordered |-> TRUE, correct |-> LimitOut(S0), determined |-> LimitOut(S0)]
    [] shape = "agg"    -> [ordered |-> TRUE, correct |-> ClosedGroups(S0), determined |-> ClosedGroups(S0)]
    [] shape = "window" -> [ordered |-> TRUE, correct |-> WindowOut(S0), determined |-> WindowOut(S0)]
    [] shape = "union"  -> [ordered |-> FALSE, correct |-> Proj(S0 \o S1), determined |-> Proj(S0 \o S1)]
    [] shape = "merge"  -> [ordered |-> TRUE, correct |-> MergeCorrect(S0, S01), determined |-> MergeDetermined(S0, S01)]
    [] shape = "shj"    -> [ordered |-> FALSE, correct |-> JoinOut(S0, S1, TRUE), determined |-> JoinOut(S0, S1, TRUE)]
    [] shape = "shj_nofilter" -> [ordered |-> FALSE, correct |-> JoinOut(S0, S1, FALSE), determined |-> JoinOut(S0, S1, FALSE)]
    [] shape = "agg2"   -> [ordered |-> FALSE, correct |-> ClosedGroups2(S0), determined |-> ClosedGroups2(S0)]
    [] shape = "wpart"  -> [ordered |-> FALSE, correct |-> WPartOut(S0), determined |-> WPartOut(S0)]
    [] shape = "filter_limit" -> [ordered |-> TRUE, correct |-> SubSeq(FilterOut(S0), 1, IF Len(FilterOut(S0)) < LIMITN THEN Len(FilterOut(S0)) ELSE LIMITN),
                                  determined |-> SubSeq(FilterOut(S0), 1, IF Len(FilterOut(S0)) < LIMITN THEN Len(FilterOut(S0)) ELSE LIMITN)]
    \* outer symmetric joins: the matched pairs are fixed as for the inner join; a NULL-padded row may only be emitted
    \* for a row that never finds a partner (judged against the whole input of the run, see OuterSafe)
    [] shape \in {"shj_left", "shj_right", "shj_full"} ->
         [ordered |-> FALSE, correct |-> JoinOut(S0, S1, TRUE), determined |-> JoinOut(S0, S1, TRUE)]

\* outer joins: emitted = matched pairs (both ts non-NULL) + padded rows; the pairs are within Correct(P); a padded row
\* <<ts, NULL>> / <<NULL, ts>> belongs to a row of the padded side that has no partner in the WHOLE input of the run
Pairs(out) == SelectSeq(out, LAMBDA r : ~IsNull(r[1]) /\ ~IsNull(r[2]))
Padded(out) == SelectSeq(out, LAMBDA r : IsNull(r[1]) \/ IsNull(r[2]))
OuterSafe(shape, out, semNow, semAll, allL, allR) ==
  /\ IsSubBag(Pairs(out), semNow.correct)
  /\ \A i \in 1..Len(Padded(out)) :
        LET r == Padded(out)[i] IN
        IF IsNull(r[2])
          THEN /\ shape \in {"shj_left", "shj_full"}
               /\ \E j \in 1..Len(allL) : allL[j][1] = r[1]
               /\ ~\E j \in 1..Len(semAll.correct) : semAll.correct[j][1] = r[1]
          ELSE /\ shape \in {"shj_right", "shj_full"}
               /\ \E j \in 1..Len(allR) : allR[j][1] = r[2]
               /\ ~\E j \in 1..Len(semAll.correct) : semAll.correct[j][2] = r[2]

IsPrefixOf(a, b) == Len(a) <= Len(b) /\ a = SubSeq(b, 1, Len(a))
Safe(sem, out) == IF sem.ordered THEN IsPrefixOf(out, sem.correct) ELSE IsSubBag(out, sem.correct)
Live(semLagged, out) == Len(out) + SLACK >= Len(semLagged.determined)
\* a reached LIMIT ends the query although the input continues; nothing else ends
EndRule(shape, out, ended) == IF shape \in {"limit", "filter_limit"} THEN (ended <=> Len(out) = LIMITN) ELSE ~ended
=============================================================================
