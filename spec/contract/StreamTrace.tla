---------------------------- MODULE StreamTrace ----------------------------
(* Binding B2 for C50: runs recorded from the real engine over never-ending pump-fed StreamingTables (one line per  *)
(* run: {"id","shape","planned","feed":[{src,part,rows}],"points":[{fed,out,ended,err}]}) validated against          *)
(* StreamOps.  A state is <run, l>: quiescent point l of the run; every rejected clause is reported (Judge).         *)
EXTENDS StreamOps, Json, IOUtils, TLC

Runs == ndJsonDeserialize(IOEnv.TRACE)

VARIABLES run, l
tvars == <<run, l>>
RunRec == Runs[run]
Pt == RunRec.points[l]

TraceInit == run \in 1..Len(Runs) /\ l = 1
TraceStep == l < Len(RunRec.points) /\ l' = l + 1 /\ UNCHANGED run
TraceDone == l = Len(RunRec.points) /\ UNCHANGED tvars
TraceNext == TraceStep \/ TraceDone
TraceSpec == TraceInit /\ [][TraceNext]_tvars

Pairs2(shape, out) == IF shape \in {"shj_left", "shj_right", "shj_full"} THEN Pairs(out) ELSE out
BadAt(f) == [n |-> l, p |-> 0, f |-> f, k |-> 0]
Bad ==
  IF ~RunRec.planned \/ ~Accepted(RunRec.shape)
    THEN (IF RunRec.planned /\ ~Accepted(RunRec.shape) /\ l = 1 THEN {BadAt("acceptance")} ELSE {})
  ELSE LET sem == Sem(RunRec.shape, RunRec.feed, Pt.fed)
           lagged == Sem(RunRec.shape, RunRec.feed, LagPrefix(RunRec.feed, Pt.fed)) IN
       (IF Pt.err THEN {BadAt("error")} ELSE {})
       \cup (IF RunRec.shape \in {"shj_left", "shj_right", "shj_full"}
               THEN (IF ~OuterSafe(RunRec.shape, Pt.out, sem, Sem(RunRec.shape, RunRec.feed, Len(RunRec.feed)),
                                   FedTo(RunRec.feed, Len(RunRec.feed), 0, 0), FedTo(RunRec.feed, Len(RunRec.feed), 1, 0))
                       THEN {BadAt("safety")} ELSE {})
               ELSE (IF ~Safe(sem, Pt.out) THEN {BadAt("safety")} ELSE {}))
       \cup (IF ~Live(lagged, Pairs2(RunRec.shape, Pt.out)) THEN {BadAt("liveness")} ELSE {})
       \cup (IF ~EndRule(RunRec.shape, Pt.out, Pt.ended) THEN {BadAt("end")} ELSE {})

Strict == Bad = {}
Judge == Bad = {} \/ PrintT(<<"REJECT", ToJson([run |-> RunRec.id, bad |-> Bad])>>)
=============================================================================
