------------------------- MODULE OperatorContract -------------------------
(***************************************************************************)
(* The contract between what a physical operator DECLARES about its output  *)
(* and the output it PRODUCES (C28, C29, C30, C53).                          *)
(*                                                                         *)
(* The event log of one executed query is a sequence of node records, one   *)
(* per node of the physical plan (recorded by transparent observer nodes,   *)
(* harness/vcontract).  A node record N has                                 *)
(*   declared, read BEFORE execution:                                       *)
(*     N.w        number of output columns; a row has positions 1..w for    *)
(*                the columns and positions > w for every other expression  *)
(*                a declaration mentions (evaluated on each emitted batch)  *)
(*     N.schema   <<[t |-> type token, n |-> nullable]>>                    *)
(*     N.ords     the orderings of the ordering-equivalence class, each a   *)
(*                sequence of [i |-> position, asc, nf]                     *)
(*     N.outord   output_ordering() (possibly <<>>)                         *)
(*     N.classes  equivalence classes (sequences of positions)              *)
(*     N.consts   <<[i, uni (same across partitions), hasv, v]>>            *)
(*     N.hash     positions of the hash-partitioning keys (<<>> if none)    *)
(*     N.np       declared partition count                                  *)
(*     N.stats    statistics with a Precision::Exact component:             *)
(*                [p (-1 = whole node), rows, cols |-> <<[nulls,min,max,    *)
(*                sum,ndv]>>], each component [x |-> 1 iff Exact, v]        *)
(*   observed:                                                             *)
(*     N.streams  one record per executed stream: [p, ended, err, batches], *)
(*                batch = [n, ok, types, nulls, rows]  (Emit events; `ended`*)
(*                is the End event: the stream was polled to exhaustion)    *)
(*     N.full     every partition executed, every stream ended, no error    *)
(*     N.metrics  [has, rows] = metrics().output_rows after execution       *)
(* Values are Values.tla records.  The comparator is Rel.tla's (KeyBefore / *)
(* RowBefore / IsSortedBy): NULL placement and direction are judged by the  *)
(* specification, not taken from the engine.                                *)
(***************************************************************************)
EXTENDS Rel

V(n, p, f, k) == [n |-> n, p |-> p, f |-> f, k |-> k]

Usable(s) == \A b \in 1..Len(s.batches) : s.batches[b].ok
StreamRows(s) == Flatten([b \in 1..Len(s.batches) |-> s.batches[b].rows])
StreamCount(s) == SeqSum([b \in 1..Len(s.batches) |-> s.batches[b].n])
Streams(N) == 1..Len(N.streams)
AllRows(N) == Flatten([s \in Streams(N) |-> IF Usable(N.streams[s]) THEN StreamRows(N.streams[s]) ELSE <<>>])
Same(a, b) == a = b            \* NULL = NULL here: a constant / an equivalence holds for NULLs too

(* ------------------------------ C28 ------------------------------ *)
\* every partition's concatenated output is sorted under EACH declared ordering
Sorted(rows, ord) == IsSortedBy(rows, ord)
OrderingViol(N) ==
  {V(N.id, N.streams[sk[1]].p, "ordering", sk[2]) :
     sk \in {x \in Streams(N) \X (1..Len(N.ords)) :
               Usable(N.streams[x[1]]) /\ ~Sorted(StreamRows(N.streams[x[1]]), N.ords[x[2]])}}
OutOrdViol(N) ==
  {V(N.id, N.streams[s].p, "outord", 0) :
     s \in {x \in Streams(N) : Usable(N.streams[x]) /\ N.outord # <<>> /\ ~Sorted(StreamRows(N.streams[x]), N.outord)}}

\* members of a declared equivalence class are equal row by row
ClassHolds(rows, c) == \A i \in 1..Len(rows) : \A a \in 1..Len(c) : Same(rows[i][c[a]], rows[i][c[1]])
EquivViol(N) ==
  {V(N.id, N.streams[sk[1]].p, "equiv", sk[2]) :
     sk \in {x \in Streams(N) \X (1..Len(N.classes)) :
               Usable(N.streams[x[1]]) /\ ~ClassHolds(StreamRows(N.streams[x[1]]), N.classes[x[2]])}}

\* a declared constant has one value within a partition; a uniform one has one value across
\* partitions, which is the declared value when one is declared
ConstIn(rows, i) == \A r \in 1..Len(rows) : Same(rows[r][i], rows[1][i])
ConstIs(rows, i, v) == \A r \in 1..Len(rows) : Same(rows[r][i], v)
ConstViol(N) ==
  {V(N.id, N.streams[sk[1]].p, "const", sk[2]) :
     sk \in {x \in Streams(N) \X (1..Len(N.consts)) :
               Usable(N.streams[x[1]]) /\ ~ConstIn(StreamRows(N.streams[x[1]]), N.consts[x[2]].i)}}
  \cup
  {V(N.id, 0 - 1, "const", k) :
     k \in {x \in 1..Len(N.consts) :
              /\ N.consts[x].uni
              /\ IF N.consts[x].hasv THEN ~ConstIs(AllRows(N), N.consts[x].i, N.consts[x].v)
                                     ELSE ~ConstIn(AllRows(N), N.consts[x].i)}}

\* hash partitioning: rows with equal key values are never in two partitions
KeyOf(row, hash) == [e \in 1..Len(hash) |-> row[hash[e]]]
HashHolds(N) ==
  \A s1, s2 \in Streams(N) :
    (Usable(N.streams[s1]) /\ Usable(N.streams[s2]) /\ N.streams[s1].p # N.streams[s2].p) =>
      LET r1 == StreamRows(N.streams[s1])  r2 == StreamRows(N.streams[s2]) IN
      \A i \in 1..Len(r1) : \A j \in 1..Len(r2) : KeyOf(r1[i], N.hash) # KeyOf(r2[j], N.hash)
HashViol(N) == IF N.hash # <<>> /\ ~HashHolds(N) THEN {V(N.id, 0 - 1, "hash", 0)} ELSE {}

C28Viol(N) == OrderingViol(N) \cup OutOrdViol(N) \cup EquivViol(N) \cup ConstViol(N) \cup HashViol(N)

(* ------------------------------ C30 ------------------------------ *)
\* every emitted batch: declared column count, declared type per column, no NULL where non-nullable
BatchViol(N, p, b) ==
  IF ~b.ok THEN {V(N.id, p, "ncols", 0)}
  ELSE {V(N.id, p, "type", c) : c \in {x \in 1..N.w : b.types[x] # N.schema[x].t}}
       \cup {V(N.id, p, "nonnull", c) : c \in {x \in 1..N.w : ~N.schema[x].n /\ b.nulls[x] = 1}}
\* every scalar-function invocation (N.fns[j].calls: the function applied by the engine's evaluator to each
\* batch the node's input emitted): the result has the declared return type and one value per input row
FnViol(N) ==
  {V(N.id, 0 - 1, "fntype", j) : j \in {x \in 1..Len(N.fns) : \E c \in 1..Len(N.fns[x].calls) : N.fns[x].calls[c].t # N.fns[x].t}}
  \cup {V(N.id, 0 - 1, "fnlen", j) : j \in {x \in 1..Len(N.fns) : \E c \in 1..Len(N.fns[x].calls) : N.fns[x].calls[c].len # N.fns[x].calls[c].n}}
C30Viol(N) ==
  FnViol(N) \cup
  UNION {UNION {BatchViol(N, N.streams[s].p, N.streams[s].batches[b]) : b \in 1..Len(N.streams[s].batches)} :
           s \in Streams(N)}
\* the executed result's types are logically equivalent to the logical plan's output types (type tokens
\* normalised by the recorder: a dictionary / view / large encoding maps to the token of its value type)
LogicalViol(logical, root) ==
  IF Len(logical) # Len(root) THEN {V(0, 0 - 1, "logical", 0)}
  ELSE {V(0, 0 - 1, "logical", c) : c \in {x \in 1..Len(root) : logical[x].t # root[x].t}}

(* ------------------------------ C29 ------------------------------ *)
\* a statistic flagged Exact equals the value computed from the observed output.  Judged only where
\* the whole output was observed: node consumed in full and each judged partition executed once.
\* p >= 0: one partition; p = -1: whole node (StatisticsContext / partition_statistics(None)); p = -2: whole node as computed by
\* the pluggable StatisticsRegistry with the built-in operator providers
Of(N, p) == {s \in Streams(N) : p < 0 \/ N.streams[s].p = p}
Judgeable(N, p) ==
  /\ N.full /\ \A s \in Streams(N) : Usable(N.streams[s])
  /\ Cardinality(Of(N, p)) = (IF p < 0 THEN N.np ELSE 1)
RowsOf(N, p) == Flatten([s \in Streams(N) |-> IF s \in Of(N, p) THEN StreamRows(N.streams[s]) ELSE <<>>])
ColVals(rows, c) == [i \in 1..Len(rows) |-> rows[i][c]]
AllInt(vals) == \A i \in 1..Len(vals) : vals[i].k = "i"
ColStatViol(N, p, c, st, rows) ==
  LET vals == ColVals(rows, c)
      nn == NonNull(vals)
      hasnull == Len(nn) # Len(vals)
      nd == Cardinality(SeqToSet(nn)) IN
  (IF st.nulls.x = 1 /\ st.nulls.v.v # Len(vals) - Len(nn) THEN {V(N.id, p, "nulls", c)} ELSE {})
  \cup (IF st.min.x = 1 /\ nn # <<>> /\ st.min.v # MinV(nn) THEN {V(N.id, p, "min", c)} ELSE {})
  \cup (IF st.max.x = 1 /\ nn # <<>> /\ st.max.v # MaxV(nn) THEN {V(N.id, p, "max", c)} ELSE {})
  \cup (IF st.sum.x = 1 /\ nn # <<>> /\ st.sum.v.k = "i" /\ AllInt(nn) /\ st.sum.v.v # SumV(nn)
          THEN {V(N.id, p, "sum", c)} ELSE {})
  \* distinct count: NULL may or may not be counted as a value
  \cup (IF st.ndv.x = 1 /\ nn # <<>> /\ st.ndv.v.v # nd /\ ~(hasnull /\ st.ndv.v.v = nd + 1)
          THEN {V(N.id, p, "ndv", c)} ELSE {})
StatViol(N, st) ==
  IF ~Judgeable(N, st.p) THEN {}
  ELSE LET rows == RowsOf(N, st.p) IN
       (IF st.rows.x = 1 /\ st.rows.v.v # Len(rows) THEN {V(N.id, st.p, "rows", 0)} ELSE {})
       \cup (IF Len(st.cols) > N.w THEN {V(N.id, st.p, "statcols", 0)}
             ELSE UNION {ColStatViol(N, st.p, c, st.cols[c], rows) : c \in 1..Len(st.cols)})
C29Viol(N) == UNION {StatViol(N, N.stats[j]) : j \in 1..Len(N.stats)}

\* answers derived from statistics alone equal answers computed from data: an aggregate query
\*   SELECT count(*), count(c), min(c), max(c) FROM t [WHERE pred]
\* (which the aggregate_statistics rewrite may answer from exact statistics without reading t) returns what
\* Rel.tla's AggValue computes from the rows of t.   ev = [rows, col, pred, result]
AggSel(ev) ==
  SelectSeq(ev.rows, LAMBDA r :
     CASE ev.pred = "none" -> TRUE
       [] ev.pred = "gt0" -> ~IsNull(r[ev.col]) /\ r[ev.col].v > 0
       [] ev.pred = "isnull" -> IsNull(r[ev.col])
       [] ev.pred = "notnull" -> ~IsNull(r[ev.col]))
AggExpected(ev) ==
  LET sel == AggSel(ev)
      vals == [i \in 1..Len(sel) |-> sel[i][ev.col]] IN
  <<AggValue("countstar", FALSE, vals, Len(vals)), AggValue("count", FALSE, vals, Len(vals)),
    AggValue("min", FALSE, vals, Len(vals)), AggValue("max", FALSE, vals, Len(vals))>>
AggViol(ev) == {V(0, 0 - 1, "aggregate", k) : k \in {x \in 1..4 : ev.result[x] # AggExpected(ev)[x]}}

(* ------------------------------ C53 ------------------------------ *)
\* a node consumed in full (decided from the recorded End events) reports output_rows = rows emitted
Emitted(N) == SeqSum([s \in Streams(N) |-> StreamCount(N.streams[s])])
\* ... and, when every output_rows metric carries a partition label, partition by partition
MetricOf(N, p) == SeqSum([i \in 1..Len(N.metrics.per) |-> IF N.metrics.per[i].p = p THEN N.metrics.per[i].n ELSE 0])
EmittedOf(N, p) == SeqSum([s \in Streams(N) |-> IF N.streams[s].p = p THEN StreamCount(N.streams[s]) ELSE 0])
PartsOf(N) == {N.metrics.per[i].p : i \in 1..Len(N.metrics.per)} \cup {N.streams[s].p : s \in Streams(N)}
\* spill metrics of one operator are consistent: files were written iff rows were written (-1 = metric not registered)
SpillConsistencyViol(N) ==
  IF N.metrics.spills >= 0 /\ N.metrics.spilled >= 0 /\ ((N.metrics.spills > 0) # (N.metrics.spilled > 0))
    THEN {V(N.id, 0 - 1, "spill_consistency", 0)} ELSE {}
C53Viol(N) ==
  SpillConsistencyViol(N) \cup
  (IF ~(N.full /\ N.metrics.has) THEN {}
   ELSE (IF N.metrics.rows # Emitted(N) THEN {V(N.id, 0 - 1, "output_rows", 0)} ELSE {})
        \cup (IF SeqSum([i \in 1..Len(N.metrics.per) |-> N.metrics.per[i].n]) = N.metrics.rows
                THEN {V(N.id, p, "part_rows", 0) : p \in {q \in PartsOf(N) : MetricOf(N, q) # EmittedOf(N, q)}}
                ELSE {}))
\* EXPLAIN ANALYZE: the real AnalyzeExec run over the instrumented plan renders, for every node consumed in
\* full, output_rows = the rows the observer above that node counted.   an[j] = [id, has, rv, emitted, full]
AnalyzeViol(an) ==
  {V(an[j].id, 0 - 1, "analyze_rows", 0) : j \in {x \in 1..Len(an) : an[x].full /\ an[x].has /\ an[x].rv # an[x].emitted}}

\* spill metrics report the rows actually written to spill files.  A history of the spill API:
\* sp.files[i] = [appended |-> <<rows of each appended batch>>, some |-> a file was produced, read_back |-> rows
\* read back from that file]; sp.spilled_rows / sp.spill_count = SpillMetrics after the history.
SpillViol(sp) ==
  LET FS == 1..Len(sp.files)
      written == SeqSum([i \in FS |-> IF sp.files[i].some THEN sp.files[i].read_back ELSE 0])
      nfiles == Cardinality({i \in FS : sp.files[i].some}) IN
  {V(0, i, "spill_file_rows", 0) : i \in {x \in FS : sp.files[x].some /\ sp.files[x].read_back # SeqSum(sp.files[x].appended)}}
  \cup (IF sp.spilled_rows # written THEN {V(0, 0 - 1, "spilled_rows", 0)} ELSE {})
  \cup (IF sp.spill_count # nfiles THEN {V(0, 0 - 1, "spill_count", 0)} ELSE {})
=============================================================================
