------------------------------- MODULE Window -------------------------------
(***************************************************************************)
(* C09 -- reference semantics of SQL window functions.                      *)
(*                                                                          *)
(* A table is a sequence of rows [id, p, o, x] (id = position in the input, *)
(* p = PARTITION BY key, o = ORDER BY key, x = argument).  A partition is   *)
(* ordered by o ASC|DESC with NULLS FIRST|LAST [, then id in the same      *)
(* direction].  `total` = TRUE means ORDER BY o, id (no ties: every row is its  *)
(* own peer group); FALSE means ORDER BY o (rows with equal o are peers).   *)
(* A frame is [units, s, e] with bounds [k, n], k in UP | P | C | F | UF    *)
(* (UNBOUNDED PRECEDING, n PRECEDING, CURRENT ROW, n FOLLOWING, UNBOUNDED   *)
(* FOLLOWING).  FrameOf(row) is defined for ROWS / RANGE / GROUPS; every    *)
(* function value is defined over FrameOf or over the whole partition.      *)
(***************************************************************************)
EXTENDS Agg

Bnd(k, n) == [k |-> k, n |-> n]
Frame(u, s, e) == [units |-> u, s |-> s, e |-> e]

\* position of a bound in the order UP < P(n) (decreasing n) < C < F(n) (increasing n) < UF
BPos(b) == CASE b.k = "UP" -> -1000 [] b.k = "P" -> -b.n * 2 - 1 [] b.k = "C" -> 0
             [] b.k = "F" -> b.n * 2 + 1 [] b.k = "UF" -> 1000
\* CURRENT ROW sits between 0 PRECEDING and 0 FOLLOWING for ROWS (they coincide); legality: start <= end
LegalFrame(f) == f.s.k # "UF" /\ f.e.k # "UP" /\ BPos(f.s) <= BPos(f.e)

---------------------------------------------------------------------------
\* partitions and their order
PartVals(tbl) == {tbl[i].p : i \in 1..Len(tbl)}
PartRows(tbl, pv) == SelectSeq(tbl, LAMBDA r : r.p = pv)
\* ORDER BY o {ASC|DESC} NULLS {FIRST|LAST} [, id {ASC|DESC}]: `desc` = descending, `nf` = NULLS FIRST.
\* (id breaks ties in the same direction; under ORDER BY o alone it only fixes a canonical order of the peers.)
WKey(v, desc, nf) == IF IsNull(v) THEN (IF nf THEN -1000000 ELSE 1000000) ELSE (IF desc THEN -v.v ELSE v.v)
RowLe(a, b, desc, nf) == WKey(a.o, desc, nf) < WKey(b.o, desc, nf)
                         \/ (WKey(a.o, desc, nf) = WKey(b.o, desc, nf) /\ (IF desc THEN a.id >= b.id ELSE a.id <= b.id))
RECURSIVE InsertRowW(_, _, _, _), SortPart(_, _, _)
InsertRowW(r, s, desc, nf) == IF s = <<>> THEN <<r>> ELSE IF RowLe(r, Head(s), desc, nf) THEN <<r>> \o s
                              ELSE <<Head(s)>> \o InsertRowW(r, Tail(s), desc, nf)
SortPart(s, desc, nf) == IF s = <<>> THEN <<>> ELSE InsertRowW(Head(s), SortPart(Tail(s), desc, nf), desc, nf)
Ordered(rows, desc, nf) == SortPart(rows, desc, nf)

\* peers
Peer(s, i, j, total) == IF total THEN i = j ELSE s[i].o = s[j].o
FirstPeer(s, i, total) == CHOOSE j \in 1..i : Peer(s, j, i, total) /\ \A m \in 1..(j - 1) : ~Peer(s, m, i, total)
LastPeer(s, i, total) == CHOOSE j \in i..Len(s) : Peer(s, j, i, total) /\ \A m \in (j + 1)..Len(s) : ~Peer(s, m, i, total)
GroupIdx(s, i, total) == 1 + Cardinality({j \in 2..i : ~Peer(s, j - 1, j, total)})

---------------------------------------------------------------------------
\* FrameOf: is position j in the frame of position i ?
RowsIn(s, i, j, f) ==
  LET lo == CASE f.s.k = "UP" -> 1 [] f.s.k = "P" -> i - f.s.n [] f.s.k = "C" -> i [] f.s.k = "F" -> i + f.s.n
      hi == CASE f.e.k = "UF" -> Len(s) [] f.e.k = "P" -> i - f.e.n [] f.e.k = "C" -> i [] f.e.k = "F" -> i + f.e.n
  IN lo <= j /\ j <= hi
GroupsIn(s, i, j, f, total) ==
  LET g == GroupIdx(s, i, total) gj == GroupIdx(s, j, total)
      lo == CASE f.s.k = "UP" -> 1 [] f.s.k = "P" -> g - f.s.n [] f.s.k = "C" -> g [] f.s.k = "F" -> g + f.s.n
      hi == CASE f.e.k = "UF" -> Len(s) + 1 [] f.e.k = "P" -> g - f.e.n [] f.e.k = "C" -> g [] f.e.k = "F" -> g + f.e.n
  IN lo <= gj /\ gj <= hi
\* RANGE: logical offsets on the (single, integer) ORDER BY key; d = signed distance of row j from row i
\* in the direction of the sort.  NULL keys are peers of each other and lie outside every offset bound.
RangeIn(s, i, j, f, total, desc) ==
  IF total THEN   \* several ORDER BY keys: only UNBOUNDED / CURRENT ROW bounds are legal; CURRENT ROW = peers
       /\ (f.s.k = "UP" \/ j >= FirstPeer(s, i, total))
       /\ (f.e.k = "UF" \/ j <= LastPeer(s, i, total))
  ELSE IF IsNull(s[i].o) THEN
       /\ (f.s.k = "UP" \/ IsNull(s[j].o) \/ j >= i)
       /\ (f.e.k = "UF" \/ IsNull(s[j].o) \/ j <= i)
       /\ (IsNull(s[j].o) \/ (j < i /\ f.s.k = "UP") \/ (j > i /\ f.e.k = "UF"))
  ELSE IF IsNull(s[j].o) THEN (j > i /\ f.e.k = "UF") \/ (j < i /\ f.s.k = "UP")
  ELSE LET d == (IF desc THEN -1 ELSE 1) * (s[j].o.v - s[i].o.v)
           lo == CASE f.s.k = "UP" -> TRUE [] f.s.k = "P" -> d >= -f.s.n [] f.s.k = "C" -> d >= 0 [] f.s.k = "F" -> d >= f.s.n
           hi == CASE f.e.k = "UF" -> TRUE [] f.e.k = "P" -> d <= -f.e.n [] f.e.k = "C" -> d <= 0 [] f.e.k = "F" -> d <= f.e.n
       IN lo /\ hi
InFrame(s, i, j, f, total, desc) ==
  CASE f.units = "ROWS" -> RowsIn(s, i, j, f)
    [] f.units = "GROUPS" -> GroupsIn(s, i, j, f, total)
    [] f.units = "RANGE" -> RangeIn(s, i, j, f, total, desc)
\* the argument values of the frame rows, in partition order
FrameOf(s, i, f, total, desc) ==
  LET idx == SelectSeq([j \in 1..Len(s) |-> j], LAMBDA j : InFrame(s, i, j, f, total, desc))
  IN [m \in 1..Len(idx) |-> s[idx[m]].x]

---------------------------------------------------------------------------
\* functions over the frame
FrameFns(s, i, f, total, desc) == LET fr == FrameOf(s, i, f, total, desc) IN
  [ sum |-> Sum(fr), count |-> Count(fr), count_star |-> I(Len(fr)), avg |-> Avg(fr), min |-> Min(fr), max |-> Max(fr),
    first_value |-> FirstValue(fr), last_value |-> LastValue(fr), nth_value_2 |-> NthValue(fr, 2),
    first_value_in |-> FirstValueIN(fr), last_value_in |-> LastValueIN(fr), nth_value_2_in |-> NthValue(NonNull(fr), 2),
    nth_value_m1 |-> NthValue(fr, -1), nth_value_m2 |-> NthValue(fr, -2) ]

\* functions of the position in the partition
Rank(s, i, total) == FirstPeer(s, i, total)
DenseRank(s, i, total) == GroupIdx(s, i, total)
PercentRank(s, i, total) == IF Len(s) = 1 THEN Q(0, 1) ELSE Q(Rank(s, i, total) - 1, Len(s) - 1)
CumeDist(s, i, total) == Q(LastPeer(s, i, total), Len(s))
\* ntile(n): buckets as equal as possible, the first (N mod n) buckets one larger
NtileOf(N, n, i) == LET q == N \div n r == N % n big == r * (q + 1) IN
  IF i <= big THEN ((i - 1) \div (q + 1)) + 1 ELSE r + ((i - big - 1) \div q) + 1
Lag(s, i, k, dflt) == IF i - k >= 1 /\ i - k <= Len(s) THEN s[i - k].x ELSE dflt
Lead(s, i, k, dflt) == Lag(s, i, -k, dflt)
\* functions that depend on the order among peers are only defined under a total order
PosFns(s, i, total) ==
  [ rank |-> I(Rank(s, i, total)), dense_rank |-> I(DenseRank(s, i, total)),
    percent_rank |-> PercentRank(s, i, total), cume_dist |-> CumeDist(s, i, total) ]
TotalFns(s, i) ==
  [ row_number |-> I(i),
    ntile_1 |-> I(NtileOf(Len(s), 1, i)), ntile_2 |-> I(NtileOf(Len(s), 2, i)), ntile_3 |-> I(NtileOf(Len(s), 3, i)),
    lag_0 |-> Lag(s, i, 0, Null), lag_1 |-> Lag(s, i, 1, Null), lag_2 |-> Lag(s, i, 2, Null), lag_1_d |-> Lag(s, i, 1, I(7)),
    lead_0 |-> Lead(s, i, 0, Null), lead_1 |-> Lead(s, i, 1, Null), lead_2 |-> Lead(s, i, 2, Null), lead_2_d |-> Lead(s, i, 2, I(7)) ]

\* results for a whole table: a sequence of <<id, record>> over all partitions
OverTable(tbl, desc, nf, Fn(_, _)) ==
  LET pvs == SetAsSeq(PartVals(tbl)) IN
  Flatten([k \in 1..Len(pvs) |->
     LET s == Ordered(PartRows(tbl, pvs[k]), desc, nf) IN [i \in 1..Len(s) |-> [id |-> s[i].id, r |-> Fn(s, i)]]])
=============================================================================
