------------------------------- MODULE Accum -------------------------------
(***************************************************************************)
(* C07 — the state machine of aggregate accumulators.                       *)
(*                                                                          *)
(* The abstract state of an accumulator is the *sequence* of argument rows  *)
(* it has absorbed (`rows[a]`; order-insensitive functions only look at the *)
(* bag).  Every operation of the Accumulator / GroupsAccumulator contracts  *)
(* is a transition on these contents, and Evaluate returns F(contents) for  *)
(* the reference functions F of module Agg -- so "any split", "any merge    *)
(* order", "vectorised = scalar", "emit-first-n + shift", "convert to state"*)
(* and "retract = recompute" are theorems of this machine: an Evaluate      *)
(* result only ever depends on the contents reached.                        *)
(*                                                                          *)
(* MODE "merge":  scalar accumulators: Update / State>Merge / Evaluate      *)
(* MODE "slide":  sliding accumulators: Update / Retract (FIFO) / Evaluate  *)
(* MODE "groups": GroupsAccumulators: UpdateGroups(values, group index,     *)
(*                filter, total) / Emit(All|First n)->Evaluate /            *)
(*                Emit(All|First n)->State>MergeBatch / ConvertToState>Merge*)
(*                                                                          *)
(* `hist` is the operation history with the expected result of every        *)
(* evaluation; a terminal state is one generated case (B3).                 *)
(***************************************************************************)
EXTENDS Agg, TLC, Json

CONSTANTS NA,        \* number of accumulator instances
          MaxOps,    \* history length
          MaxG,      \* groups per GroupsAccumulator
          MODE

\* supplied by the instantiating module: candidate batches / index vectors / filters
\* (exhaustive modules give full sets, generator modules give seeded random subsets)
CONSTANTS Batches(_),     \* Batches(0) = set of sequences of rows <<x,y>>
          GroupVecs(_, _),\* GroupVecs(len, cur) = set of [1..len -> 0..MaxG-1] (cur = current number of groups)
          Filters(_),     \* Filters(len) = set of sequences over {0,1,2} of length len, or <<>> (no filter)
          PickK(_),       \* PickK(S) = the operation kinds to branch on (S itself when exhaustive)
          Pick(_)         \* Pick(S) = the subset of the finite choice set S to branch on (S itself when exhaustive)

VARIABLES rows,      \* scalar: [1..NA -> Seq(row)]   groups: [1..NA -> Seq(Seq(row))]
          dead,      \* scalar: accumulator consumed by state()
          hist, nops, done,
          inp, outp  \* ghost: all rows ever absorbed / all rows removed (retracted or emitted by evaluate)

vars == <<rows, dead, hist, nops, done, inp, outp>>
Acc  == 1..NA

\* one history entry; `ev` = the contents evaluated by this operation (one entry per value returned)
NoEv == <<>>
Op(name, a, b, rws, gidx, flt, emit, total, ev) ==
  [op |-> name, a |-> a, b |-> b, rows |-> rws, gidx |-> gidx, flt |-> flt, emit |-> emit,
   total |-> total, ev |-> ev]

Init ==
  /\ rows = [a \in Acc |-> <<>>]
  /\ dead = [a \in Acc |-> FALSE]
  /\ hist = <<>> /\ nops = 0 /\ done = FALSE /\ inp = <<>> /\ outp = <<>>

Step(o) == /\ hist' = Append(hist, o) /\ nops' = nops + 1 /\ done' = FALSE

---------------------------------------------------------------------------
\* scalar accumulators
Update(a) ==
  /\ ~dead[a]
  /\ \E b \in Batches(0) :
       /\ rows' = [rows EXCEPT ![a] = @ \o b]
       /\ inp' = inp \o b
       /\ Step(Op("update", a, <<>>, b, <<>>, <<>>, 0, 0, NoEv))
  /\ UNCHANGED <<dead, outp>>

\* state() of every accumulator in `srcs` (which consumes it), merged into `a` as ONE batch of
\* state rows, in the order of `srcs`
MergeInto(a, srcs) ==
  /\ ~dead[a] /\ Len(srcs) > 0
  /\ \A i \in 1..Len(srcs) : srcs[i] # a /\ ~dead[srcs[i]]
  /\ \A i, j \in 1..Len(srcs) : i # j => srcs[i] # srcs[j]
  /\ rows' = [x \in Acc |-> IF x = a THEN rows[a] \o Flatten([i \in 1..Len(srcs) |-> rows[srcs[i]]])
                            ELSE IF \E i \in 1..Len(srcs) : srcs[i] = x THEN <<>> ELSE rows[x]]
  /\ dead' = [x \in Acc |-> dead[x] \/ \E i \in 1..Len(srcs) : srcs[i] = x]
  /\ Step(Op("merge", a, srcs, <<>>, <<>>, <<>>, 0, 0, NoEv))
  /\ UNCHANGED <<inp, outp>>

SrcLists == {<<x>> : x \in Acc} \cup {<<x, y>> : x \in Acc, y \in Acc}

\* sliding window: the k oldest rows leave (retract_batch receives exactly those rows)
Retract(a) ==
  /\ ~dead[a]
  /\ \E k \in Pick(1..Len(rows[a])) :
       /\ k <= 3
       /\ rows' = [rows EXCEPT ![a] = SubSeq(@, k + 1, Len(@))]
       /\ outp' = outp \o SubSeq(rows[a], 1, k)
       /\ Step(Op("retract", a, <<>>, SubSeq(rows[a], 1, k), <<>>, <<>>, 0, 0, NoEv))
  /\ UNCHANGED <<dead, inp>>

Evaluate(a) ==
  /\ ~dead[a]
  /\ Step(Op("eval", a, <<>>, <<>>, <<>>, <<>>, 0, 0, <<rows[a]>>))
  /\ UNCHANGED <<rows, dead, inp, outp>>

---------------------------------------------------------------------------
\* GroupsAccumulator: rows[a] is the sequence (group index order) of per-group contents
NG(a) == Len(rows[a])
Passes(flt, i) == flt = <<>> \/ flt[i] = 1          \* 0 = false, 2 = NULL: row ignored
\* every group index below `total` exists after the call (new groups are created by appearing in gidx)
Covers(gidx, ng, total) == \A g \in ng..(total - 1) : \E i \in 1..Len(gidx) : gidx[i] = g
MaxIdx(gidx) == IF gidx = <<>> THEN -1 ELSE SetMax(SeqToSet(gidx))
TotalOf(gidx, ng) == IF MaxIdx(gidx) + 1 > ng THEN MaxIdx(gidx) + 1 ELSE ng
\* contents after scattering per-row additions `adds` (a sequence of row-sequences) to groups
Scatter(cur, adds, gidx, total) ==
  [g \in 1..total |->
     (IF g <= Len(cur) THEN cur[g] ELSE <<>>)
       \o Flatten([i \in 1..Len(adds) |-> IF gidx[i] = g - 1 THEN adds[i] ELSE <<>>])]

UpdateGroups(a) ==
  \E b \in Batches(0) : \E gidx \in GroupVecs(Len(b), NG(a)) : \E flt \in Filters(Len(b)) :
    LET total == TotalOf(gidx, NG(a))
        adds  == [i \in 1..Len(b) |-> IF Passes(flt, i) THEN <<b[i]>> ELSE <<>>]
    IN /\ Covers(gidx, NG(a), total)
       /\ total > 0
       /\ rows' = [rows EXCEPT ![a] = Scatter(@, adds, gidx, total)]
       /\ inp' = inp \o Flatten(adds)
       /\ Step(Op("gupdate", a, <<>>, b, gidx, flt, 0, total, NoEv))
       /\ UNCHANGED <<dead, outp>>

\* emit = 0: EmitTo::All;  emit = n > 0: EmitTo::First(n); the remaining groups shift down by n
Emitted(a, emit) == IF emit = 0 THEN rows[a] ELSE SubSeq(rows[a], 1, emit)
Remaining(a, emit) == IF emit = 0 THEN <<>> ELSE SubSeq(rows[a], emit + 1, NG(a))
EmitChoices(a) == {0} \cup 1..NG(a)

EvaluateEmit(a) ==
  \E emit \in Pick(EmitChoices(a)) :
    /\ NG(a) > 0
    /\ rows' = [rows EXCEPT ![a] = Remaining(a, emit)]
    /\ outp' = outp \o Flatten(Emitted(a, emit))
    /\ Step(Op("geval", a, <<>>, <<>>, <<>>, <<>>, emit, 0, Emitted(a, emit)))
    /\ UNCHANGED <<dead, inp>>

\* state(emit) of `b`; its rows (one per emitted group) are merged into `a` under index vector gidx
StateMerge(a, b) ==
  /\ a # b /\ NG(b) > 0
  /\ \E emit \in Pick(EmitChoices(b)) :
       LET st == Emitted(b, emit) IN
       \E gidx \in GroupVecs(Len(st), NG(a)) :
         LET total == TotalOf(gidx, NG(a)) IN
         /\ Covers(gidx, NG(a), total)
         /\ rows' = [rows EXCEPT ![b] = Remaining(b, emit), ![a] = Scatter(rows[a], st, gidx, total)]
         /\ Step(Op("gmerge", a, <<b>>, <<>>, gidx, <<>>, emit, total, NoEv))
  /\ UNCHANGED <<dead, inp, outp>>

\* convert_to_state(values, filter) (stateless, on `b`): one state row per input row, merged into `a`
ConvertMerge(a, b) ==
  \E bt \in Batches(1) : \E gidx \in GroupVecs(Len(bt), NG(a)) : \E flt \in Filters(Len(bt)) :
    LET total == TotalOf(gidx, NG(a))
        adds  == [i \in 1..Len(bt) |-> IF Passes(flt, i) THEN <<bt[i]>> ELSE <<>>]
    IN /\ Covers(gidx, NG(a), total)
       /\ rows' = [rows EXCEPT ![a] = Scatter(@, adds, gidx, total)]
       /\ inp' = inp \o Flatten(adds)
       /\ Step(Op("gconvert", a, <<b>>, bt, gidx, flt, 0, total, NoEv))
       /\ UNCHANGED <<dead, outp>>

---------------------------------------------------------------------------
Live == {x \in Acc : ~dead[x]}
NonEmptyG == {x \in Acc : Len(rows[x]) > 0}
ValidSrcs(a) == {s \in SrcLists : /\ \A i \in 1..Len(s) : s[i] # a /\ ~dead[s[i]]
                                  /\ \A i, j \in 1..Len(s) : i # j => s[i] # s[j]}
\* Top-level actions (named, so that TLC's coverage reports each).  Gate(k) randomly closes operation kinds
\* in generator instances (PickK = random subset) and is always open in exhaustive instances (PickK = identity).
Scalar == MODE \in {"merge", "slide"}
Gate(k) == k \in PickK({"u", "e", "m", "c"})
DoUpdate   == nops < MaxOps /\ Scalar /\ Gate("u") /\ \E a \in Pick(Live) : Update(a)
DoEvaluate == nops < MaxOps /\ Scalar /\ Gate("e") /\ \E a \in Pick(Live) : Evaluate(a)
DoMerge    == nops < MaxOps /\ MODE = "merge" /\ Gate("m") /\ \E a \in Pick(Live) : \E s \in Pick(ValidSrcs(a)) : MergeInto(a, s)
DoRetract  == nops < MaxOps /\ MODE = "slide" /\ Gate("m") /\ \E a \in Pick({x \in Acc : rows[x] # <<>>}) : Retract(a)
DoUpdateGroups == nops < MaxOps /\ MODE = "groups" /\ Gate("u") /\ \E a \in Pick(Acc) : UpdateGroups(a)
DoEvaluateEmit == nops < MaxOps /\ MODE = "groups" /\ Gate("e") /\ \E a \in Pick(NonEmptyG) : EvaluateEmit(a)
DoStateMerge   == nops < MaxOps /\ MODE = "groups" /\ Gate("m") /\ \E b \in Pick(NonEmptyG) : \E a \in Pick(Acc \ {b}) : StateMerge(a, b)
DoConvertMerge == nops < MaxOps /\ MODE = "groups" /\ Gate("c") /\ \E a \in Pick(Acc) : \E b \in Pick(Acc) : ConvertMerge(a, b)

\* the single step that closes a history (so that a generated case is printed exactly once)
Finish == nops = MaxOps /\ ~done /\ done' = TRUE /\ UNCHANGED <<rows, dead, hist, nops, inp, outp>>

Next == \/ DoUpdate \/ DoEvaluate \/ DoMerge \/ DoRetract
        \/ DoUpdateGroups \/ DoEvaluateEmit \/ DoStateMerge \/ DoConvertMerge
        \/ Finish

Spec == Init /\ [][Next]_vars
view == <<rows, dead, nops, done>>           \* histories are hidden from the exhaustive run

---------------------------------------------------------------------------
\* Properties of the machine checked exhaustively by TLC
AllRows == IF MODE = "groups" THEN Flatten([a \in Acc |-> Flatten(rows[a])]) ELSE Flatten([a \in Acc |-> rows[a]])

\* nothing absorbed is lost or duplicated by splitting, merging, emitting, converting or retracting
Conservation == SameBag(AllRows \o outp, inp)

\* the reference functions claimed order-insensitive really only depend on the bag
Reverse(s) == [i \in 1..Len(s) |-> s[Len(s) + 1 - i]]
RowKey(r) == OrdKey(r[1]) * 10 + (IF IsNull(r[2]) THEN 9 ELSE r[2].v + 2)
RECURSIVE InsertRow(_, _), SortRows(_)
InsertRow(x, s) == IF s = <<>> THEN <<x>> ELSE IF RowKey(x) <= RowKey(Head(s)) THEN <<x>> \o s
                   ELSE <<Head(s)>> \o InsertRow(x, Tail(s))
SortRows(s) == IF s = <<>> THEN <<>> ELSE InsertRow(Head(s), SortRows(Tail(s)))
BagOnly(s) == LET e1 == Expect(s) e2 == Expect(Reverse(s)) e3 == Expect(SortRows(s)) IN
              \A f \in OrderInsensitive : e1[f] = e2[f] /\ e1[f] = e3[f]
OrderInsensitivity ==
  IF MODE = "groups" THEN \A a \in Acc : \A g \in 1..Len(rows[a]) : BagOnly(rows[a][g])
  ELSE \A a \in Acc : BagOnly(rows[a])

\* a consumed accumulator holds nothing
DeadEmpty == MODE # "groups" => \A a \in Acc : dead[a] => rows[a] = <<>>

\* every expected value recorded in the history was computed from the contents at that point
GroupsBounded == MODE = "groups" => \A a \in Acc : Len(rows[a]) <= MaxG

---------------------------------------------------------------------------
\* B3 case emission: a complete history + the final evaluation of every live accumulator
Final == IF MODE = "groups"
         THEN [a \in Acc |-> [g \in 1..Len(rows[a]) |-> Expect(rows[a][g])]]
         ELSE [a \in Acc |-> IF dead[a] THEN <<>> ELSE <<Expect(rows[a])>>]
WithExpect(o) == [op |-> o.op, a |-> o.a, b |-> o.b, rows |-> o.rows, gidx |-> o.gidx, flt |-> o.flt,
                  emit |-> o.emit, total |-> o.total, ev |-> o.ev,
                  expect |-> [g \in 1..Len(o.ev) |-> Expect(o.ev[g])]]
EmitWhenDone ==
  done => PrintT(<<"CASE", ToJson([mode |-> MODE, na |-> NA,
                                   hist |-> [i \in 1..Len(hist) |-> WithExpect(hist[i])],
                                   final |-> Final, finalrows |-> rows])>>)
=============================================================================
