-------------------------------- MODULE Agg --------------------------------
(***************************************************************************)
(* Reference semantics of SQL aggregate functions.                          *)
(*                                                                          *)
(* Every aggregate is a function of the *sequence* of argument rows it has  *)
(* absorbed (order-insensitive ones only look at the bag).  A row is a pair *)
(* <<x, y>> of Values (first argument, second argument / ORDER BY key).     *)
(*                                                                          *)
(* Results are Values ([k,v]) or one of the extended result shapes          *)
(*   [k |-> "q",  n, d]      the exact rational n/d            (d > 0)      *)
(*   [k |-> "qs", s, n, d]   s * sqrt(n/d)   (s in {-1,0,1}, n >= 0, d > 0) *)
(*   [k |-> "l",  l]         a list (sequence) of Values                    *)
(*   [k |-> "ls", l]         a list whose element order is unspecified      *)
(*   [k |-> "any", of]       any one of a set of Values (SQL leaves open)   *)
(*   [k |-> "nz"]            NULL because a denominator (a variance) is 0   *)
(* These never take part in TLC comparisons with Values of another shape.   *)
(***************************************************************************)
EXTENDS Values

Q(n, d)     == [k |-> "q", n |-> n, d |-> d]
QS(s, n, d) == [k |-> "qs", s |-> s, n |-> n, d |-> d]
L(seq)      == [k |-> "l", l |-> seq]
LS(seq)     == [k |-> "ls", l |-> seq]
AnyOf(set)  == [k |-> "any", of |-> set]
NullZ       == [k |-> "nz"]

---------------------------------------------------------------------------
\* helpers on sequences of Values / integers
NonNull(xs)  == SelectSeq(xs, LAMBDA v : ~IsNull(v))
IntsOf(xs)   == LET nn == NonNull(xs) IN [i \in 1..Len(nn) |-> nn[i].v]
SeqToSet(s)  == {s[i] : i \in 1..Len(s)}
Col1(rows)   == [i \in 1..Len(rows) |-> rows[i][1]]
Col2(rows)   == [i \in 1..Len(rows) |-> rows[i][2]]
\* rows where both arguments are non-NULL (two-argument statistical aggregates)
BothNonNull(rows) == SelectSeq(rows, LAMBDA r : ~IsNull(r[1]) /\ ~IsNull(r[2]))

RECURSIVE SetSum(_)
SetSum(T) == IF T = {} THEN 0 ELSE LET x == CHOOSE z \in T : TRUE IN x + SetSum(T \ {x})
SetMin(T) == CHOOSE x \in T : \A y \in T : x <= y
SetMax(T) == CHOOSE x \in T : \A y \in T : x >= y
SumSq(s)  == SeqSum([i \in 1..Len(s) |-> s[i] * s[i]])
SumProd(s, t) == SeqSum([i \in 1..Len(s) |-> s[i] * t[i]])
Sign(n)   == IF n > 0 THEN 1 ELSE IF n < 0 THEN -1 ELSE 0
Abs(n)    == IF n < 0 THEN -n ELSE n
\* integer division truncating toward zero (Rust / SQL integer division)
TruncDiv(a, b) == Sign(a) * Sign(b) * (Abs(a) \div Abs(b))

RECURSIVE InsertSorted(_, _), SortInts(_)
InsertSorted(x, s) == IF s = <<>> THEN <<x>>
                      ELSE IF x <= Head(s) THEN <<x>> \o s
                      ELSE <<Head(s)>> \o InsertSorted(x, Tail(s))
SortInts(s) == IF s = <<>> THEN <<>> ELSE InsertSorted(Head(s), SortInts(Tail(s)))

\* ORDER BY key of a Value: ascending, NULLS LAST (the engine's default for ASC)
OrdKey(v) == IF IsNull(v) THEN 1000000 ELSE v.v
\* stable sort of Values by OrdKey
RECURSIVE InsertVal(_, _), SortVals(_)
InsertVal(x, s) == IF s = <<>> THEN <<x>>
                   ELSE IF OrdKey(x) < OrdKey(Head(s)) THEN <<x>> \o s
                   ELSE <<Head(s)>> \o InsertVal(x, Tail(s))
SortVals(s) == IF s = <<>> THEN <<>> ELSE InsertVal(Head(s), SortVals(Tail(s)))

---------------------------------------------------------------------------
\* order-insensitive aggregates of one argument (xs: sequence of Values)
Count(xs)  == I(Len(NonNull(xs)))
CountStar(xs) == I(Len(xs))
Sum(xs)    == IF NonNull(xs) = <<>> THEN Null ELSE I(SeqSum(IntsOf(xs)))
Min(xs)    == IF NonNull(xs) = <<>> THEN Null ELSE I(SetMin(SeqToSet(IntsOf(xs))))
Max(xs)    == IF NonNull(xs) = <<>> THEN Null ELSE I(SetMax(SeqToSet(IntsOf(xs))))
Avg(xs)    == IF NonNull(xs) = <<>> THEN Null ELSE Q(SeqSum(IntsOf(xs)), Len(IntsOf(xs)))
DistinctInts(xs)  == SeqToSet(IntsOf(xs))
CountDistinct(xs) == I(Cardinality(DistinctInts(xs)))
SumDistinct(xs)   == IF DistinctInts(xs) = {} THEN Null ELSE I(SetSum(DistinctInts(xs)))
AvgDistinct(xs)   == IF DistinctInts(xs) = {} THEN Null
                     ELSE Q(SetSum(DistinctInts(xs)), Cardinality(DistinctInts(xs)))

\* booleans: the model's integer v is read as the boolean v > 0
AsBool(v)   == IF IsNull(v) THEN Null ELSE B(v.v > 0)
BoolAnd(xs) == IF NonNull(xs) = <<>> THEN Null ELSE B(\A i \in 1..Len(IntsOf(xs)) : IntsOf(xs)[i] > 0)
BoolOr(xs)  == IF NonNull(xs) = <<>> THEN Null ELSE B(\E i \in 1..Len(IntsOf(xs)) : IntsOf(xs)[i] > 0)

\* bitwise: two's complement; bit j of v is (v \div 2^j) % 2 (floor division), width W bits + sign
BitW == 3
Pow2(j) == IF j = 0 THEN 1 ELSE IF j = 1 THEN 2 ELSE IF j = 2 THEN 4 ELSE 8
BitOf(v, j) == (v \div Pow2(j)) % 2
FromBits(b) == b[0] + 2 * b[1] + 4 * b[2] - 8 * b[3]
\* per bit position j: AND = all ones, OR = some one, XOR = odd number of ones
OnesAt(s, j) == Cardinality({i \in 1..Len(s) : BitOf(s[i], j) = 1})
BitAndI(s) == FromBits([j \in 0..BitW |-> IF OnesAt(s, j) = Len(s) THEN 1 ELSE 0])
BitOrI(s)  == FromBits([j \in 0..BitW |-> IF OnesAt(s, j) > 0 THEN 1 ELSE 0])
BitXorI(s) == FromBits([j \in 0..BitW |-> OnesAt(s, j) % 2])
RECURSIVE SetToSeq(_)
SetToSeq(T) == IF T = {} THEN <<>> ELSE LET m == SetMin(T) IN <<m>> \o SetToSeq(T \ {m})
BitAnd(xs) == IF NonNull(xs) = <<>> THEN Null ELSE I(BitAndI(IntsOf(xs)))
BitOr(xs)  == IF NonNull(xs) = <<>> THEN Null ELSE I(BitOrI(IntsOf(xs)))
BitXor(xs) == IF NonNull(xs) = <<>> THEN Null ELSE I(BitXorI(IntsOf(xs)))
BitXorDistinct(xs) == IF NonNull(xs) = <<>> THEN Null ELSE I(BitXorI(SetToSeq(DistinctInts(xs))))

\* median / percentile_cont(0.5): linear interpolation between the closest ranks
MedianQ(xs) == LET s == SortInts(IntsOf(xs)) n == Len(s) IN
  IF n = 0 THEN Null
  ELSE IF n % 2 = 1 THEN Q(s[(n + 1) \div 2], 1)
  ELSE Q(s[n \div 2] + s[n \div 2 + 1], 2)
\* integer-typed median: the two middle values are averaged and truncated toward zero
MedianInt(xs) == LET s == SortInts(IntsOf(xs)) n == Len(s) IN
  IF n = 0 THEN Null ELSE IF n % 2 = 1 THEN I(s[(n + 1) \div 2])
  ELSE I(TruncDiv(s[n \div 2] + s[n \div 2 + 1], 2))

\* variance family (exact rationals):  n*Sxx - Sx^2  over  n*n  or  n*(n-1)
VarNum(s)  == Len(s) * SumSq(s) - SeqSum(s) * SeqSum(s)
VarPop(xs)  == LET s == IntsOf(xs) IN IF Len(s) = 0 THEN Null ELSE Q(VarNum(s), Len(s) * Len(s))
VarSamp(xs) == LET s == IntsOf(xs) IN IF Len(s) < 2 THEN Null ELSE Q(VarNum(s), Len(s) * (Len(s) - 1))
StddevPop(xs)  == LET s == IntsOf(xs) IN IF Len(s) = 0 THEN Null ELSE QS(1, VarNum(s), Len(s) * Len(s))
StddevSamp(xs) == LET s == IntsOf(xs) IN IF Len(s) < 2 THEN Null ELSE QS(1, VarNum(s), Len(s) * (Len(s) - 1))

\* two-argument statistics over rows <<a, b>> with both arguments non-NULL
PA(rows) == LET r == BothNonNull(rows) IN [i \in 1..Len(r) |-> r[i][1].v]
PB(rows) == LET r == BothNonNull(rows) IN [i \in 1..Len(r) |-> r[i][2].v]
CovNum(a, b) == Len(a) * SumProd(a, b) - SeqSum(a) * SeqSum(b)
CovarPop(rows)  == LET a == PA(rows) b == PB(rows) n == Len(a) IN
  IF n = 0 THEN Null ELSE Q(CovNum(a, b), n * n)
CovarSamp(rows) == LET a == PA(rows) b == PB(rows) n == Len(a) IN
  IF n < 2 THEN Null ELSE Q(CovNum(a, b), n * (n - 1))
\* corr = cov / (sd_a sd_b) = CovNum / sqrt(VarNum(a) VarNum(b))
Corr(rows) == LET a == PA(rows) b == PB(rows) n == Len(a) IN
  IF n < 2 THEN Null
  ELSE IF VarNum(a) = 0 \/ VarNum(b) = 0 THEN NullZ
  ELSE QS(Sign(CovNum(a, b)), CovNum(a, b) * CovNum(a, b), VarNum(a) * VarNum(b))
\* linear regression regr_*(y, x): first argument is the dependent variable y
RegrCount(rows) == I(Len(PA(rows)))
RegrAvgY(rows)  == LET y == PA(rows) IN IF Len(y) = 0 THEN Null ELSE Q(SeqSum(y), Len(y))
RegrAvgX(rows)  == LET x == PB(rows) IN IF Len(x) = 0 THEN Null ELSE Q(SeqSum(x), Len(x))
RegrSYY(rows)   == LET y == PA(rows) IN IF Len(y) = 0 THEN Null ELSE Q(VarNum(y), Len(y))
RegrSXX(rows)   == LET x == PB(rows) IN IF Len(x) = 0 THEN Null ELSE Q(VarNum(x), Len(x))
RegrSXY(rows)   == LET y == PA(rows) x == PB(rows) IN IF Len(y) = 0 THEN Null ELSE Q(CovNum(y, x), Len(y))
RegrSlope(rows) == LET y == PA(rows) x == PB(rows) IN
  IF Len(y) < 2 THEN Null ELSE IF VarNum(x) = 0 THEN NullZ
  ELSE Q(Sign(VarNum(x)) * CovNum(y, x), Abs(VarNum(x)))
\* intercept = avg(y) - slope * avg(x) = (Sy*Vx - Cxy*Sx) / (n * Vx)
RegrIntercept(rows) == LET y == PA(rows) x == PB(rows) n == Len(y) IN
  IF n < 2 THEN Null ELSE IF VarNum(x) = 0 THEN NullZ
  ELSE Q(SeqSum(y) * VarNum(x) - CovNum(y, x) * SeqSum(x), n * VarNum(x))
RegrR2(rows) == LET y == PA(rows) x == PB(rows) IN
  IF Len(y) < 2 THEN Null ELSE IF VarNum(x) = 0 \/ VarNum(y) = 0 THEN NullZ
  ELSE Q(CovNum(y, x) * CovNum(y, x), VarNum(x) * VarNum(y))

---------------------------------------------------------------------------
\* order-sensitive aggregates (depend on the sequence absorbed)
FirstValue(xs)   == IF xs = <<>> THEN Null ELSE xs[1]
LastValue(xs)    == IF xs = <<>> THEN Null ELSE xs[Len(xs)]
FirstValueIN(xs) == FirstValue(NonNull(xs))        \* IGNORE NULLS
LastValueIN(xs)  == LastValue(NonNull(xs))
NthValue(xs, n)  == IF n > 0 THEN (IF Len(xs) >= n THEN xs[n] ELSE Null)
                    ELSE IF n < 0 THEN (IF Len(xs) >= -n THEN xs[Len(xs) + n + 1] ELSE Null)
                    ELSE Null
AnyValue(xs)     == IF NonNull(xs) = <<>> THEN Null ELSE AnyOf(SeqToSet(NonNull(xs)))
ArrayAgg(xs)     == IF xs = <<>> THEN Null ELSE L(xs)
ArrayAggIN(xs)   == IF NonNull(xs) = <<>> THEN Null ELSE L(NonNull(xs))
\* DISTINCT: NULL is one of the distinct values; element order unspecified
RECURSIVE Dedup(_)
Dedup(s) == IF s = <<>> THEN <<>>
            ELSE LET r == Dedup(Tail(s)) IN
                 IF \E i \in 1..Len(r) : r[i] = Head(s) THEN r ELSE <<Head(s)>> \o r
ArrayAggDistinct(xs) == IF xs = <<>> THEN Null ELSE LS(Dedup(xs))
\* ORDER BY the argument itself (ASC NULLS LAST): fully determined
ArrayAggSorted(xs)   == IF xs = <<>> THEN Null ELSE L(SortVals(xs))
\* string_agg(x, ','): the non-NULL arguments in sequence (the driver joins them)
StringAgg(xs)    == IF NonNull(xs) = <<>> THEN Null ELSE L(NonNull(xs))
StringAggSorted(xs) == IF NonNull(xs) = <<>> THEN Null ELSE L(SortVals(NonNull(xs)))

\* f(x ORDER BY y): the value of a row whose key is first / last; ties leave the choice open
MinKeyRows(rows) == {i \in 1..Len(rows) : \A j \in 1..Len(rows) : OrdKey(rows[i][2]) <= OrdKey(rows[j][2])}
MaxKeyRows(rows) == {i \in 1..Len(rows) : \A j \in 1..Len(rows) : OrdKey(rows[i][2]) >= OrdKey(rows[j][2])}
FirstValueOrd(rows) == IF rows = <<>> THEN Null ELSE AnyOf({rows[i][1] : i \in MinKeyRows(rows)})
LastValueOrd(rows)  == IF rows = <<>> THEN Null ELSE AnyOf({rows[i][1] : i \in MaxKeyRows(rows)})

---------------------------------------------------------------------------
\* the record of every reference result for one multiset/sequence of rows
Expect(rows) == LET xs == Col1(rows) IN
  [ count |-> Count(xs), sum |-> Sum(xs), min |-> Min(xs), max |-> Max(xs), avg |-> Avg(xs),
    count_distinct |-> CountDistinct(xs), sum_distinct |-> SumDistinct(xs), avg_distinct |-> AvgDistinct(xs),
    bool_and |-> BoolAnd(xs), bool_or |-> BoolOr(xs),
    bit_and |-> BitAnd(xs), bit_or |-> BitOr(xs), bit_xor |-> BitXor(xs), bit_xor_distinct |-> BitXorDistinct(xs),
    median |-> MedianQ(xs), median_int |-> MedianInt(xs),
    var_pop |-> VarPop(xs), var_samp |-> VarSamp(xs), stddev_pop |-> StddevPop(xs), stddev_samp |-> StddevSamp(xs),
    covar_pop |-> CovarPop(rows), covar_samp |-> CovarSamp(rows), corr |-> Corr(rows),
    regr_count |-> RegrCount(rows), regr_avgx |-> RegrAvgX(rows), regr_avgy |-> RegrAvgY(rows),
    regr_sxx |-> RegrSXX(rows), regr_syy |-> RegrSYY(rows), regr_sxy |-> RegrSXY(rows),
    regr_slope |-> RegrSlope(rows), regr_intercept |-> RegrIntercept(rows), regr_r2 |-> RegrR2(rows),
    first_value |-> FirstValue(xs), last_value |-> LastValue(xs),
    first_value_in |-> FirstValueIN(xs), last_value_in |-> LastValueIN(xs),
    first_value_ord |-> FirstValueOrd(rows), last_value_ord |-> LastValueOrd(rows),
    nth_value_2 |-> NthValue(xs, 2), nth_value_m1 |-> NthValue(xs, -1),
    any_value |-> AnyValue(xs),
    array_agg |-> ArrayAgg(xs), array_agg_in |-> ArrayAggIN(xs), array_agg_distinct |-> ArrayAggDistinct(xs),
    array_agg_sorted |-> ArrayAggSorted(xs),
    string_agg |-> StringAgg(xs), string_agg_sorted |-> StringAggSorted(xs) ]

\* names of the fields of Expect that only depend on the bag of rows (checked by TLC in Accum)
OrderInsensitive == {"count", "sum", "min", "max", "avg", "count_distinct", "sum_distinct", "avg_distinct",
  "bool_and", "bool_or", "bit_and", "bit_or", "bit_xor", "bit_xor_distinct", "median", "median_int",
  "var_pop", "var_samp", "stddev_pop", "stddev_samp", "covar_pop", "covar_samp", "corr",
  "regr_count", "regr_avgx", "regr_avgy", "regr_sxx", "regr_syy", "regr_sxy", "regr_slope", "regr_intercept",
  "regr_r2", "first_value_ord", "last_value_ord", "any_value", "array_agg_sorted", "string_agg_sorted"}

---------------------------------------------------------------------------
\* C06 -- grouping.  A table is a sequence of rows <<k1, k2, x, y>>; `ks` is the sequence of the
\* key column indexes grouped on.  NULL is a key value like any other (it forms its own group).
KeyOf(r, ks) == [i \in 1..Len(ks) |-> r[ks[i]]]
GroupKeys(tbl, ks) == {KeyOf(tbl[i], ks) : i \in 1..Len(tbl)}
GroupRows(tbl, ks, key) == SelectSeq(tbl, LAMBDA r : KeyOf(r, ks) = key)
ArgsOf(rs) == [i \in 1..Len(rs) |-> <<rs[i][3], rs[i][4]>>]
RECURSIVE SetAsSeq(_)
SetAsSeq(T) == IF T = {} THEN <<>> ELSE LET x == CHOOSE z \in T : TRUE IN <<x>> \o SetAsSeq(T \ {x})

\* array_agg(x ORDER BY y, x) (ASC NULLS LAST both): fully determined
RECURSIVE InsertYX(_, _), SortYX(_)
LeYX(p, q) == OrdKey(p[2]) < OrdKey(q[2]) \/ (OrdKey(p[2]) = OrdKey(q[2]) /\ OrdKey(p[1]) <= OrdKey(q[1]))
InsertYX(p, s) == IF s = <<>> THEN <<p>> ELSE IF LeYX(p, Head(s)) THEN <<p>> \o s ELSE <<Head(s)>> \o InsertYX(p, Tail(s))
SortYX(s) == IF s = <<>> THEN <<>> ELSE InsertYX(Head(s), SortYX(Tail(s)))
ArrayAggOrdYX(args) == IF args = <<>> THEN Null ELSE L(Col1(SortYX(args)))
\* FILTER (WHERE y > 0): rows whose predicate is TRUE (NULL and FALSE are dropped)
FilterYPos(args) == SelectSeq(args, LAMBDA p : ~IsNull(p[2]) /\ p[2].v > 0)

\* the aggregate values of one group
AggRec(rs) == LET a == ArgsOf(rs) xs == Col1(a) f == Col1(FilterYPos(a)) IN
  [ count_star |-> I(Len(rs)), count |-> Count(xs), sum |-> Sum(xs), min |-> Min(xs), max |-> Max(xs),
    avg |-> Avg(xs), count_distinct |-> CountDistinct(xs), sum_distinct |-> SumDistinct(xs),
    first_value_ord |-> FirstValueOrd(a), last_value_ord |-> LastValueOrd(a),
    array_agg_ord |-> ArrayAggOrdYX(a), median |-> MedianQ(xs), var_pop |-> VarPop(xs),
    bit_xor |-> BitXor(xs), bit_xor_distinct |-> BitXorDistinct(xs),
    sum_filter |-> Sum(f), count_star_filter |-> I(Len(FilterYPos(a))), count_filter |-> Count(f) ]

\* GROUP BY ks: exactly one output row per distinct key
GroupBy(tbl, ks) == LET keys == SetAsSeq(GroupKeys(tbl, ks)) IN
  [i \in 1..Len(keys) |-> [key |-> keys[i], e |-> AggRec(GroupRows(tbl, ks, keys[i]))]]
\* aggregation without GROUP BY: one row, also over the empty table
Global(tbl) == <<[key |-> <<>>, e |-> AggRec(tbl)]>>
\* GROUPING SETS: the union (bag) of the groupings; key columns not in the set are NULL in the output
FullKey(key, ks, nk) == [c \in 1..nk |-> IF \E i \in 1..Len(ks) : ks[i] = c
                                        THEN key[CHOOSE i \in 1..Len(ks) : ks[i] = c] ELSE Null]
GroupingSets(tbl, sets, nk) == Flatten([s \in 1..Len(sets) |->
   LET g == IF sets[s] = <<>> THEN (IF tbl = <<>> THEN <<>> ELSE Global(tbl)) ELSE GroupBy(tbl, sets[s]) IN
   [i \in 1..Len(g) |-> [key |-> FullKey(g[i].key, sets[s], nk), e |-> g[i].e]]])
Rollup2 == << <<1, 2>>, <<1>>, <<>> >>
Cube2   == << <<1, 2>>, <<1>>, <<2>>, <<>> >>
Sets2   == << <<1>>, <<2>> >>

\* grouped TopK: SELECT k1, max(x) m GROUP BY k1 ORDER BY m DESC NULLS LAST LIMIT n  (min: ASC)
\* = the first n values of the sorted per-group extrema (ties leave the choice of group open)
RankKey(v, desc) == IF IsNull(v) THEN 1000000 ELSE IF desc THEN -v.v ELSE v.v
RECURSIVE InsertRank(_, _, _), SortRank(_, _)
InsertRank(x, s, desc) == IF s = <<>> THEN <<x>> ELSE IF RankKey(x, desc) <= RankKey(Head(s), desc) THEN <<x>> \o s
                          ELSE <<Head(s)>> \o InsertRank(x, Tail(s), desc)
SortRank(s, desc) == IF s = <<>> THEN <<>> ELSE InsertRank(Head(s), SortRank(Tail(s), desc), desc)
\* all per-group extrema in rank order; the TopK answer for LIMIT n is its prefix of length min(n, #groups)
RankedExtrema(g1, desc) == SortRank([i \in 1..Len(g1) |-> IF desc THEN g1[i].e.max ELSE g1[i].e.min], desc)
RankedKeys(g1) == SortRank([i \in 1..Len(g1) |-> g1[i].key[1]], FALSE)
Prefix(s, n) == SubSeq(s, 1, IF n < Len(s) THEN n ELSE Len(s))
=============================================================================
