--------------------------------- MODULE Rel ---------------------------------
(***************************************************************************)
(* Reference relational semantics (bags of rows, three-valued logic) for    *)
(* query plans written as AST records (see AST.md).  A database is a        *)
(* sequence of tables; a table is a sequence of rows; a row is a sequence   *)
(* of Values.  EvalPlan returns [err |-> BOOLEAN, rows |-> sequence].       *)
(*                                                                         *)
(* Plan nodes (field `op`):                                                 *)
(*  [op |-> "scan", t |-> k]                          k-th table of the db  *)
(*  [op |-> "filter", p |-> e, src |-> plan]                                *)
(*  [op |-> "project", es |-> <<e,...>>, src |-> plan]                      *)
(*  [op |-> "join", jt |-> "inner"|"left"|"right"|"full"|"semi"|"anti",     *)
(*          on |-> e, l |-> plan, r |-> plan, lw |-> n, rw |-> n]           *)
(*        lw / rw = number of columns of l / r;                             *)
(*        `on` is evaluated on the concatenated row  l-row \o r-row;        *)
(*        semi/anti (LEFT SEMI / LEFT ANTI) return l-rows only              *)
(*  [op |-> "agg", keys |-> <<e,...>>, aggs |-> <<a,...>>, src |-> plan]    *)
(*        a = [f |-> "count"|"countstar"|"sum"|"min"|"max", e |-> e,        *)
(*             distinct |-> BOOLEAN];  output row = keys \o aggregates      *)
(*  [op |-> "distinct", src |-> plan]                                       *)
(*  [op |-> "setop", f |-> "union"|"intersect"|"except", all |-> BOOLEAN,   *)
(*          l |-> plan, r |-> plan]                                         *)
(*  [op |-> "sort", keys |-> <<[i |-> col, asc |-> BOOLEAN,                 *)
(*                             nf |-> BOOLEAN],...>>, src |-> plan]         *)
(*  [op |-> "limit", skip |-> n, fetch |-> n or -1, src |-> plan]           *)
(* Expression nodes beyond Expr.tla (subqueries; `outer` = current row of   *)
(* the enclosing query block):                                              *)
(*  [op |-> "outer", i |-> n]                                               *)
(*  [op |-> "insub", e |-> e, sub |-> plan, neg |-> BOOLEAN]  (1-column sub)*)
(*  [op |-> "exists", sub |-> plan, neg |-> BOOLEAN]                        *)
(*  [op |-> "scalarsub", sub |-> plan]        (sub yields exactly one row)  *)
(***************************************************************************)
EXTENDS Expr

OkRel(rows) == [err |-> FALSE, rows |-> rows]
ErrRel == [err |-> TRUE, rows |-> <<>>]

NullRow(w) == [i \in 1..w |-> Null]
SeqToSet(s) == {s[i] : i \in 1..Len(s)}
AnyErr(vals) == \E i \in 1..Len(vals) : IsErr(vals[i])

(* ---------------- ordering ---------------- *)
\* strict "a sorts before b" for one key; NULL placement by nf (nulls first)
KeyBefore(a, b, asc, nf) ==
  IF IsNull(a) /\ IsNull(b) THEN FALSE
  ELSE IF IsNull(a) THEN nf
  ELSE IF IsNull(b) THEN ~nf
  ELSE IF asc THEN a.v < b.v ELSE a.v > b.v
KeyEq(a, b) == (IsNull(a) /\ IsNull(b)) \/ (~IsNull(a) /\ ~IsNull(b) /\ a.v = b.v)

RECURSIVE RowBefore(_, _, _)
RowBefore(r1, r2, keys) ==
  IF keys = <<>> THEN FALSE
  ELSE LET k == Head(keys) IN
       IF KeyBefore(r1[k.i], r2[k.i], k.asc, k.nf) THEN TRUE
       ELSE IF KeyEq(r1[k.i], r2[k.i]) THEN RowBefore(r1, r2, Tail(keys))
       ELSE FALSE

\* stable insertion sort: one canonical sorted permutation
RECURSIVE InsertSorted(_, _, _), SortRows(_, _)
InsertSorted(sorted, r, keys) ==
  IF sorted = <<>> THEN <<r>>
  ELSE IF RowBefore(r, Head(sorted), keys) THEN <<r>> \o sorted
  ELSE <<Head(sorted)>> \o InsertSorted(Tail(sorted), r, keys)
SortRows(rows, keys) ==
  IF rows = <<>> THEN <<>>
  ELSE InsertSorted(SortRows(SubSeq(rows, 1, Len(rows) - 1), keys), rows[Len(rows)], keys)
IsSortedBy(rows, keys) == \A i \in 1..(Len(rows) - 1) : ~RowBefore(rows[i + 1], rows[i], keys)

(* ---------------- bag helpers ---------------- *)
RECURSIVE DedupSeq(_)
DedupSeq(s) ==
  IF s = <<>> THEN <<>>
  ELSE LET rest == DedupSeq(SubSeq(s, 1, Len(s) - 1)) IN
       IF \E i \in 1..Len(rest) : rest[i] = s[Len(s)] THEN rest ELSE Append(rest, s[Len(s)])
CountIn(s, r) == Cardinality({i \in 1..Len(s) : s[i] = r})
\* bag difference / intersection keeping the left operand's order
RECURSIVE BagMinus(_, _), BagInter(_, _)
BagMinus(a, b) ==
  IF a = <<>> THEN <<>>
  ELSE LET h == Head(a) IN
       IF \E i \in 1..Len(b) : b[i] = h
         THEN LET j == CHOOSE i \in 1..Len(b) : b[i] = h IN
              BagMinus(Tail(a), SubSeq(b, 1, j - 1) \o SubSeq(b, j + 1, Len(b)))
         ELSE <<h>> \o BagMinus(Tail(a), b)
BagInter(a, b) ==
  IF a = <<>> THEN <<>>
  ELSE LET h == Head(a) IN
       IF \E i \in 1..Len(b) : b[i] = h
         THEN LET j == CHOOSE i \in 1..Len(b) : b[i] = h IN
              <<h>> \o BagInter(Tail(a), SubSeq(b, 1, j - 1) \o SubSeq(b, j + 1, Len(b)))
         ELSE BagInter(Tail(a), b)

(* ---------------- aggregates over a sequence of argument values ---------------- *)
NonNull(vals) == SelectSeq(vals, LAMBDA x : ~IsNull(x))
RECURSIVE SumV(_), MinV(_), MaxV(_)
SumV(vals) == IF vals = <<>> THEN 0 ELSE Head(vals).v + SumV(Tail(vals))
MinV(vals) == IF Len(vals) = 1 THEN vals[1]
              ELSE LET m == MinV(Tail(vals)) IN IF Head(vals).v < m.v THEN Head(vals) ELSE m
MaxV(vals) == IF Len(vals) = 1 THEN vals[1]
              ELSE LET m == MaxV(Tail(vals)) IN IF Head(vals).v > m.v THEN Head(vals) ELSE m
AggValue(f, distinct, vals, nrows) ==
  LET nn == IF distinct THEN DedupSeq(NonNull(vals)) ELSE NonNull(vals) IN
  CASE f = "countstar" -> I(nrows)
    [] f = "count" -> I(Len(nn))
    [] f = "sum" -> IF nn = <<>> THEN Null ELSE I(SumV(nn))
    [] f = "min" -> IF nn = <<>> THEN Null ELSE MinV(nn)
    [] f = "max" -> IF nn = <<>> THEN Null ELSE MaxV(nn)

(* ---------------- evaluation ---------------- *)
RECURSIVE EvalX(_, _, _, _), EvalXCase(_, _, _, _, _), EvalXCoalesce(_, _, _, _), EvalPlan(_, _, _)

EvalXCase(whens, els, row, outer, db) ==
  IF whens = <<>> THEN EvalX(els, row, outer, db)
  ELSE LET c == EvalX(Head(whens)[1], row, outer, db) IN
       IF IsErr(c) THEN Err
       ELSE IF IsTrue(c) THEN EvalX(Head(whens)[2], row, outer, db)
       ELSE EvalXCase(Tail(whens), els, row, outer, db)

EvalXCoalesce(args, row, outer, db) ==
  IF args = <<>> THEN Null
  ELSE LET x == EvalX(Head(args), row, outer, db) IN
       IF IsNull(x) THEN EvalXCoalesce(Tail(args), row, outer, db) ELSE x

\* expression evaluation with subqueries; `row` = current row, `outer` = row of the enclosing block
EvalX(e, row, outer, db) ==
  CASE e.op = "col" -> row[e.i]
    [] e.op = "outer" -> outer[e.i]
    [] e.op = "lit" -> e.v
    [] e.op = "bin" -> ApplyBin(e.f, EvalX(e.l, row, outer, db), EvalX(e.r, row, outer, db))
    [] e.op = "un"  -> ApplyUn(e.f, EvalX(e.e, row, outer, db))
    [] e.op = "in"  -> LET r == In3(EvalX(e.e, row, outer, db),
                                    [i \in 1..Len(e.list) |-> EvalX(e.list[i], row, outer, db)])
                       IN IF e.neg THEN Not3(r) ELSE r
    [] e.op = "between" -> Between(EvalX(e.e, row, outer, db), EvalX(e.lo, row, outer, db),
                                   EvalX(e.hi, row, outer, db), e.neg)
    [] e.op = "case" -> EvalXCase(e.whens, e.else, row, outer, db)
    [] e.op = "coalesce" -> EvalXCoalesce(e.args, row, outer, db)
    [] e.op = "nullif" -> NullIf(EvalX(e.l, row, outer, db), EvalX(e.r, row, outer, db))
    [] e.op = "insub" ->
         LET sub == EvalPlan(e.sub, row, db)
             x == EvalX(e.e, row, outer, db) IN
         IF sub.err THEN Err
         ELSE LET r == In3(x, [i \in 1..Len(sub.rows) |-> sub.rows[i][1]]) IN
              IF e.neg THEN Not3(r) ELSE r
    [] e.op = "exists" ->
         LET sub == EvalPlan(e.sub, row, db) IN
         IF sub.err THEN Err ELSE B((sub.rows # <<>>) # e.neg)
    [] e.op = "scalarsub" ->
         LET sub == EvalPlan(e.sub, row, db) IN
         IF sub.err \/ Len(sub.rows) > 1 THEN Err
         ELSE IF sub.rows = <<>> THEN Null ELSE sub.rows[1][1]
    \* e <cmp> ANY / ALL (one-column subquery): Kleene disjunction / conjunction of the comparisons
    [] e.op = "quant" ->
         LET sub == EvalPlan(e.sub, row, db)
             x == EvalX(e.e, row, outer, db) IN
         IF sub.err \/ IsErr(x) THEN Err
         ELSE LET cs == [i \in 1..Len(sub.rows) |-> Cmp(e.f, x, sub.rows[i][1])] IN
              IF e.all THEN (IF \E i \in 1..Len(cs) : IsFalse(cs[i]) THEN FalseV
                             ELSE IF \E i \in 1..Len(cs) : IsNull(cs[i]) THEN Null ELSE TrueV)
              ELSE (IF \E i \in 1..Len(cs) : IsTrue(cs[i]) THEN TrueV
                    ELSE IF \E i \in 1..Len(cs) : IsNull(cs[i]) THEN Null ELSE FalseV)

\* keep rows whose predicate is TRUE; error if the predicate errs on any row
FilterRows(rows, p, outer, db) ==
  LET vals == [i \in 1..Len(rows) |-> EvalX(p, rows[i], outer, db)] IN
  IF AnyErr(vals) THEN ErrRel
  ELSE OkRel(SelectSeq([i \in 1..Len(rows) |-> <<rows[i], vals[i]>>], LAMBDA rv : IsTrue(rv[2])))

\* lw / rw = widths of the left / right rows (needed to pad when one side is empty)
JoinRows(on, L, R, lw, rw, outer, db) ==
  LET M == [i \in 1..Len(L) |-> [j \in 1..Len(R) |-> EvalX(on, L[i] \o R[j], outer, db)]]
      LMatches(i) == SelectSeq([j \in 1..Len(R) |-> j], LAMBDA j : IsTrue(M[i][j]))
      RMatched(j) == \E i \in 1..Len(L) : IsTrue(M[i][j])
  IN [anyErr |-> \E i \in 1..Len(L) : \E j \in 1..Len(R) : IsErr(M[i][j]),
      inner |-> Flatten([i \in 1..Len(L) |-> [k \in 1..Len(LMatches(i)) |-> L[i] \o R[LMatches(i)[k]]]]),
      lpad |-> Flatten([i \in 1..Len(L) |-> IF LMatches(i) = <<>> THEN <<L[i] \o NullRow(rw)>> ELSE <<>>]),
      rpad |-> Flatten([j \in 1..Len(R) |-> IF RMatched(j) THEN <<>> ELSE <<NullRow(lw) \o R[j]>>]),
      semi |-> Flatten([i \in 1..Len(L) |-> IF LMatches(i) # <<>> THEN <<L[i]>> ELSE <<>>]),
      anti |-> Flatten([i \in 1..Len(L) |-> IF LMatches(i) = <<>> THEN <<L[i]>> ELSE <<>>])]

(* ---------------- window functions, DISTINCT ON, UNION of filters over one table ---------------- *)
\* value of the window column for row i of `rows`:  f OVER (PARTITION BY part ORDER BY order) with the default frame
\* (whole partition without ORDER BY; RANGE UNBOUNDED PRECEDING .. CURRENT ROW, i.e. including peers, with it)
WinValue(p, rows, i) ==
  LET r == rows[i]
      samePart(j) == \A k \in 1..Len(p.part) : KeyEq(rows[j][p.part[k]], r[p.part[k]])
      part == SelectSeq([j \in 1..Len(rows) |-> j], samePart)
      before(j) == RowBefore(rows[j], r, p.order)
      after(j) == RowBefore(r, rows[j], p.order)
      frame == IF p.order = <<>> THEN part ELSE SelectSeq(part, LAMBDA j : ~after(j))
      vals == [m \in 1..Len(frame) |-> IF p.arg = 0 THEN I(1) ELSE rows[frame[m]][p.arg]]
      nbefore == Cardinality({j \in SeqToSet(part) : before(j)}) IN
  CASE p.f = "rank" -> I(1 + nbefore)
    [] p.f = "dense_rank" ->
         I(1 + Cardinality({[k \in 1..Len(p.order) |-> rows[j][p.order[k].i]] : j \in {j2 \in SeqToSet(part) : before(j2)}}))
    [] p.f = "row_number" ->   \* generated only with an ORDER BY over all columns: peers are identical rows
         I(1 + nbefore + Cardinality({j \in SeqToSet(part) : j < i /\ ~before(j) /\ ~after(j)}))
    [] OTHER -> AggValue(p.f, FALSE, vals, Len(frame))

\* [op |-> "ufilter", t, ps, all]: (SELECT * FROM t WHERE ps[1]) UNION [ALL] (SELECT * FROM t WHERE ps[2]) UNION [ALL] ...
RECURSIVE UFilterTree(_, _)
UFilterTree(p, k) ==
  LET br == [op |-> "filter", p |-> p.ps[k], src |-> [op |-> "scan", t |-> p.t]] IN
  IF k = 1 THEN br ELSE [op |-> "setop", f |-> "union", all |-> p.all, l |-> UFilterTree(p, k - 1), r |-> br]

EvalPlan(p, outer, db) ==
  CASE p.op = "scan" -> OkRel(db[p.t])
    [] p.op = "filter" ->
         LET s == EvalPlan(p.src, outer, db) IN
         IF s.err THEN ErrRel
         ELSE LET f == FilterRows(s.rows, p.p, outer, db) IN
              IF f.err THEN ErrRel ELSE OkRel([i \in 1..Len(f.rows) |-> f.rows[i][1]])
    [] p.op = "project" ->
         LET s == EvalPlan(p.src, outer, db) IN
         IF s.err THEN ErrRel
         ELSE LET out == [i \in 1..Len(s.rows) |-> [k \in 1..Len(p.es) |-> EvalX(p.es[k], s.rows[i], outer, db)]] IN
              IF \E i \in 1..Len(out) : AnyErr(out[i]) THEN ErrRel ELSE OkRel(out)
    [] p.op = "join" ->
         LET l == EvalPlan(p.l, outer, db)  r == EvalPlan(p.r, outer, db) IN
         IF l.err \/ r.err THEN ErrRel
         ELSE LET j == JoinRows(p.on, l.rows, r.rows, p.lw, p.rw, outer, db) IN
              IF j.anyErr THEN ErrRel
              ELSE (CASE p.jt = "inner" -> OkRel(j.inner)
                     [] p.jt = "left"  -> OkRel(j.inner \o j.lpad)
                     [] p.jt = "right" -> OkRel(j.inner \o j.rpad)
                     [] p.jt = "full"  -> OkRel(j.inner \o j.lpad \o j.rpad)
                     [] p.jt = "semi"  -> OkRel(j.semi)
                     [] p.jt = "anti"  -> OkRel(j.anti))
    [] p.op = "agg" ->
         LET s == EvalPlan(p.src, outer, db) IN
         IF s.err THEN ErrRel
         ELSE LET keyOf == [i \in 1..Len(s.rows) |-> [k \in 1..Len(p.keys) |-> EvalX(p.keys[k], s.rows[i], outer, db)]]
                  argOf == [i \in 1..Len(s.rows) |-> [a \in 1..Len(p.aggs) |->
                               IF p.aggs[a].f = "countstar" THEN I(1) ELSE EvalX(p.aggs[a].e, s.rows[i], outer, db)]]
                  bad == \E i \in 1..Len(s.rows) : AnyErr(keyOf[i]) \/ AnyErr(argOf[i])
                  groups == IF p.keys = <<>> THEN <<<<>>>> ELSE DedupSeq(keyOf)
                  members(g) == SelectSeq([i \in 1..Len(s.rows) |-> i], LAMBDA i : keyOf[i] = g)
                  rowFor(g) == g \o [a \in 1..Len(p.aggs) |->
                                 AggValue(p.aggs[a].f, p.aggs[a].distinct,
                                          [m \in 1..Len(members(g)) |-> argOf[members(g)[m]][a]], Len(members(g)))]
              IN IF bad THEN ErrRel ELSE OkRel([g \in 1..Len(groups) |-> rowFor(groups[g])])
    [] p.op = "distinct" ->
         LET s == EvalPlan(p.src, outer, db) IN IF s.err THEN ErrRel ELSE OkRel(DedupSeq(s.rows))
    [] p.op = "setop" ->
         LET sl == EvalPlan(p.l, outer, db)  sr == EvalPlan(p.r, outer, db) IN
         IF sl.err \/ sr.err THEN ErrRel
         ELSE (CASE p.f = "union" -> OkRel(IF p.all THEN sl.rows \o sr.rows ELSE DedupSeq(sl.rows \o sr.rows))
                [] p.f = "intersect" -> OkRel(IF p.all THEN BagInter(sl.rows, sr.rows)
                                              ELSE DedupSeq(SelectSeq(sl.rows, LAMBDA x : x \in SeqToSet(sr.rows))))
                [] p.f = "except" -> OkRel(IF p.all THEN BagMinus(sl.rows, sr.rows)
                                           ELSE DedupSeq(SelectSeq(sl.rows, LAMBDA x : x \notin SeqToSet(sr.rows))))
                \* NOT SQL: the engine's evaluation of INTERSECT ALL / EXCEPT ALL as a semi / anti join
                \* (multiplicities of the left input kept as they are).  Used only by AltPlan below to
                \* recognise that known defect; never generated.
                [] p.f = "intersectS" -> OkRel(SelectSeq(sl.rows, LAMBDA x : x \in SeqToSet(sr.rows)))
                [] p.f = "exceptS" -> OkRel(SelectSeq(sl.rows, LAMBDA x : x \notin SeqToSet(sr.rows))))
    \* [op |-> "window", f, part |-> <<col..>>, order |-> <<[i, asc, nf]..>>, arg |-> col or 0, src]: src columns + the window column
    [] p.op = "window" ->
         LET s == EvalPlan(p.src, outer, db) IN
         IF s.err THEN ErrRel ELSE OkRel([i \in 1..Len(s.rows) |-> Append(s.rows[i], WinValue(p, s.rows, i))])
    \* [op |-> "lateral", jt |-> "inner"|"left", l, r, lw, rw]: r is evaluated once per row of l, with that row as its outer row
    [] p.op = "lateral" ->
         LET l == EvalPlan(p.l, outer, db) IN
         IF l.err THEN ErrRel
         ELSE LET rs == [i \in 1..Len(l.rows) |-> EvalPlan(p.r, l.rows[i], db)] IN
              IF \E i \in 1..Len(rs) : rs[i].err THEN ErrRel
              ELSE OkRel(Flatten([i \in 1..Len(l.rows) |->
                     IF rs[i].rows = <<>> THEN (IF p.jt = "left" THEN <<l.rows[i] \o NullRow(p.rw)>> ELSE <<>>)
                     ELSE [k \in 1..Len(rs[i].rows) |-> l.rows[i] \o rs[i].rows[k]]]))
    \* [op |-> "aggsets", keys, sets |-> <<set of key indices,..>>, aggs, src]: GROUP BY GROUPING SETS (...); keys outside a set are NULL
    [] p.op = "aggsets" ->
         LET s == EvalPlan(p.src, outer, db) IN
         IF s.err THEN ErrRel
         ELSE LET keyOf == [i \in 1..Len(s.rows) |-> [k \in 1..Len(p.keys) |-> EvalX(p.keys[k], s.rows[i], outer, db)]]
                  argOf == [i \in 1..Len(s.rows) |-> [a \in 1..Len(p.aggs) |->
                               IF p.aggs[a].f = "countstar" THEN I(1) ELSE EvalX(p.aggs[a].e, s.rows[i], outer, db)]]
                  bad == \E i \in 1..Len(s.rows) : AnyErr(keyOf[i]) \/ AnyErr(argOf[i])
                  masked(gs) == [i \in 1..Len(s.rows) |-> [k \in 1..Len(p.keys) |-> IF k \in gs THEN keyOf[i][k] ELSE Null]]
                  rowsFor(gs) ==
                    LET mk == masked(gs)
                        groups == IF gs = {} THEN <<[k \in 1..Len(p.keys) |-> Null]>> ELSE DedupSeq(mk)
                        members(g) == SelectSeq([i \in 1..Len(s.rows) |-> i], LAMBDA i : mk[i] = g) IN
                    [g \in 1..Len(groups) |-> groups[g] \o [a \in 1..Len(p.aggs) |->
                        AggValue(p.aggs[a].f, p.aggs[a].distinct,
                                 [m \in 1..Len(members(groups[g])) |-> argOf[members(groups[g])[m]][a]], Len(members(groups[g])))]]
              IN IF bad THEN ErrRel ELSE OkRel(Flatten([k \in 1..Len(p.sets) |-> rowsFor(p.sets[k])]))
    \* [op |-> "distincton", n, src]: DISTINCT ON (first n columns) with ORDER BY all columns ASC NULLS LAST: first row per key
    [] p.op = "distincton" ->
         LET s == EvalPlan(p.src, outer, db) IN
         IF s.err THEN ErrRel
         ELSE IF s.rows = <<>> THEN OkRel(<<>>)
         ELSE LET w == Len(s.rows[1])
                  sorted == SortRows(s.rows, [i \in 1..w |-> [i |-> i, asc |-> TRUE, nf |-> FALSE]])
                  sameKey(a, b) == \A k \in 1..p.n : KeyEq(a[k], b[k]) IN
              LET firsts == SelectSeq([i \in 1..Len(sorted) |-> i], LAMBDA i : \A j \in 1..(i - 1) : ~sameKey(sorted[j], sorted[i])) IN
              OkRel([k \in 1..Len(firsts) |-> sorted[firsts[k]]])
    \* [op |-> "pack", src]: the SQL rendering packs the columns into one struct column that parents read by field access: identity here
    [] p.op = "pack" -> EvalPlan(p.src, outer, db)
    [] p.op = "ufilter" -> EvalPlan(UFilterTree(p, Len(p.ps)), outer, db)
    [] p.op = "sort" ->
         LET s == EvalPlan(p.src, outer, db) IN IF s.err THEN ErrRel ELSE OkRel(SortRows(s.rows, p.keys))
    [] p.op = "limit" ->
         LET s == EvalPlan(p.src, outer, db) IN
         IF s.err THEN ErrRel
         ELSE LET n == Len(s.rows)
                  from == IF p.skip >= n THEN n + 1 ELSE p.skip + 1
                  to == IF p.fetch < 0 THEN n ELSE IF p.skip + p.fetch > n THEN n ELSE p.skip + p.fetch
              IN OkRel(SubSeq(s.rows, from, to))

(***************************************************************************)
(* AltPlan(p): p with every INTERSECT ALL / EXCEPT ALL replaced by the       *)
(* semi/anti-join reading above.  A case whose engine result differs from    *)
(* EvalPlan(p) but equals EvalPlan(AltPlan(p)) exhibits exactly the known    *)
(* defect "ALL set operations lose multiplicities" and nothing else.         *)
(***************************************************************************)
RECURSIVE AltPlan(_), AltExpr(_)
AltSeq(es) == [i \in 1..Len(es) |-> AltExpr(es[i])]
AltExpr(e) ==
  CASE e.op \in {"col", "outer", "lit"} -> e
    [] e.op = "bin" -> [e EXCEPT !.l = AltExpr(@), !.r = AltExpr(@)]
    [] e.op = "un" -> [e EXCEPT !.e = AltExpr(@)]
    [] e.op = "in" -> [e EXCEPT !.e = AltExpr(@), !.list = AltSeq(@)]
    [] e.op = "between" -> [e EXCEPT !.e = AltExpr(@), !.lo = AltExpr(@), !.hi = AltExpr(@)]
    [] e.op = "case" -> [e EXCEPT !.whens = [i \in 1..Len(@) |-> <<AltExpr(@[i][1]), AltExpr(@[i][2])>>], !.else = AltExpr(@)]
    [] e.op = "coalesce" -> [e EXCEPT !.args = AltSeq(@)]
    [] e.op = "nullif" -> [e EXCEPT !.l = AltExpr(@), !.r = AltExpr(@)]
    [] e.op = "insub" -> [e EXCEPT !.e = AltExpr(@), !.sub = AltPlan(@)]
    [] e.op \in {"exists", "scalarsub"} -> [e EXCEPT !.sub = AltPlan(@)]
    [] e.op = "quant" -> [e EXCEPT !.e = AltExpr(@), !.sub = AltPlan(@)]
    [] OTHER -> e
AltPlan(p) ==
  CASE p.op = "scan" -> p
    [] p.op = "filter" -> [p EXCEPT !.p = AltExpr(@), !.src = AltPlan(@)]
    [] p.op = "project" -> [p EXCEPT !.es = AltSeq(@), !.src = AltPlan(@)]
    [] p.op = "join" -> [p EXCEPT !.on = AltExpr(@), !.l = AltPlan(@), !.r = AltPlan(@)]
    [] p.op = "agg" -> [p EXCEPT !.keys = AltSeq(@), !.src = AltPlan(@),
                                 !.aggs = [i \in 1..Len(@) |-> [@[i] EXCEPT !.e = AltExpr(@)]]]
    [] p.op \in {"distinct", "sort", "limit", "window", "distincton", "pack"} -> [p EXCEPT !.src = AltPlan(@)]
    [] p.op = "lateral" -> [p EXCEPT !.l = AltPlan(@), !.r = AltPlan(@)]
    [] p.op = "aggsets" -> [p EXCEPT !.keys = AltSeq(@), !.src = AltPlan(@),
                                     !.aggs = [i \in 1..Len(@) |-> [@[i] EXCEPT !.e = AltExpr(@)]]]
    [] p.op = "ufilter" -> p
    [] p.op = "setop" -> [p EXCEPT !.l = AltPlan(@), !.r = AltPlan(@),
                                   !.f = IF p.all /\ p.f = "intersect" THEN "intersectS"
                                         ELSE IF p.all /\ p.f = "except" THEN "exceptS" ELSE @]

\* how the engine's answer is to be compared with EvalPlan's canonical answer
\*  "bag"     : same bag of rows
\*  "ordered" : root is a sort: engine rows sorted by the keys and same bag
\*  "topk"    : root is limit over sort: same length, same key sequence, rows drawn from the sort's input
\*  "subset"  : root is limit over an unordered input: same length, rows drawn from the input bag
Mode(p) ==
  IF p.op = "sort" THEN "ordered"
  ELSE IF p.op = "limit" THEN (IF p.src.op = "sort" THEN "topk" ELSE "subset")
  ELSE "bag"
=============================================================================
