-------------------------------- MODULE Sort --------------------------------
(***************************************************************************)
(* Reference semantics of ORDER BY / TopK / merge (property C08).           *)
(*                                                                         *)
(* A row is a tuple of Values; a sort key is a record                      *)
(*    [col |-> column index, desc |-> BOOLEAN, nf |-> BOOLEAN]              *)
(* (descending, NULLS FIRST).  Non-NULL values of one column have one kind: *)
(*   "i" integers           ordered by v                                   *)
(*   "s" strings            v = index into the string pool (pool order =   *)
(*                          byte-wise lexicographic order)                  *)
(*   "f" float tokens       v = index into the pool                         *)
(*         -inf < -1.5 < -0.0 < +0.0 < 1.5 < +inf < NaN                      *)
(*       i.e. IEEE-754 totalOrder (arrow total_cmp), the order the engine's *)
(*       full sorts implement: NaN is larger than every number.  The        *)
(*       relative order of the two zeros is NOT judged: SQL equality says   *)
(*       -0.0 = +0.0 (Values.tla) and the engine itself is not uniform      *)
(*       (full sorts order -0.0 before +0.0, the TopK threshold filter      *)
(*       compares them equal), so the generator never puts both zeros into  *)
(*       one column of a case; each zero alone is ordered against the       *)
(*       other tokens.                                                      *)
(* NULL placement is decided by `nf` alone, independent of `desc`.          *)
(***************************************************************************)
EXTENDS Values

\* strict "sorts before" for one key
KeyLess(a, b, desc, nf) ==
  IF IsNull(a) /\ IsNull(b) THEN FALSE
  ELSE IF IsNull(a) THEN nf
  ELSE IF IsNull(b) THEN ~nf
  ELSE IF desc THEN a.v > b.v ELSE a.v < b.v

KeySame(a, b) == (IsNull(a) /\ IsNull(b)) \/ (~IsNull(a) /\ ~IsNull(b) /\ a.v = b.v)

\* lexicographic strict order over the key list
RowLess(r1, r2, keys) ==
  \E i \in 1..Len(keys) :
     /\ \A j \in 1..(i - 1) : KeySame(r1[keys[j].col], r2[keys[j].col])
     /\ KeyLess(r1[keys[i].col], r2[keys[i].col], keys[i].desc, keys[i].nf)

RowTie(r1, r2, keys) == \A j \in 1..Len(keys) : KeySame(r1[keys[j].col], r2[keys[j].col])

Sorted(s, keys) == \A i \in 1..(Len(s) - 1) : ~RowLess(s[i + 1], s[i], keys)

\* the property: a correct sort output is any sequence with
IsSortOf(out, in, keys) == Sorted(out, keys) /\ SameBag(out, in)

\* one canonical witness: stable insertion sort
RECURSIVE Insert(_, _, _)
Insert(r, s, keys) ==
  IF s = <<>> THEN <<r>>
  ELSE IF RowLess(Head(s), r, keys) THEN <<Head(s)>> \o Insert(r, Tail(s), keys)
  ELSE <<r>> \o s
RECURSIVE SortSeq(_, _)
SortSeq(s, keys) == IF s = <<>> THEN <<>> ELSE Insert(Head(s), SortSeq(Tail(s), keys), keys)

\* projection on the key columns: the key sequence of every correct output is the same
KeyOf(r, keys) == [j \in 1..Len(keys) |-> r[keys[j].col]]
KeySeq(s, keys) == [i \in 1..Len(s) |-> KeyOf(s[i], keys)]

Prefix(s, k) == IF k >= Len(s) THEN s ELSE SubSeq(s, 1, k)

(* TopK(k): out is correct iff KeySeq(out) = KeySeq(first k of a sorted permutation) and out is a     *)
(* sub-bag of the input.  fetch < 0 means no limit.                                                *)
TopKeys(in, keys, fetch) ==
  LET ks == KeySeq(SortSeq(in, keys), keys) IN IF fetch < 0 THEN ks ELSE Prefix(ks, fetch)

IsTopKOf(out, in, keys, fetch) ==
  /\ KeySeq(out, keys) = TopKeys(in, keys, fetch)
  /\ IsSubBag(out, in)

\* merge of sorted streams: precondition every stream sorted; result = sort of their concatenation
IsMergeOf(out, streams, keys) == IsSortOf(out, Flatten(streams), keys)

(***************************************************************************)
(* Per-partition TopK (PartitionedTopKExec): the first `pp` keys are the    *)
(* window PARTITION BY keys, the rest the ORDER BY keys.  Given the sorted   *)
(* sequence s, the rows kept for ROW_NUMBER/RANK/DENSE_RANK <= k.           *)
(***************************************************************************)
SamePart(r1, r2, keys, pp) == \A j \in 1..pp : KeySame(r1[keys[j].col], r2[keys[j].col])

RowNumber(s, i, keys, pp) == Cardinality({j \in 1..i : SamePart(s[j], s[i], keys, pp)})
Rank(s, i, keys, pp) ==
  1 + Cardinality({j \in 1..Len(s) : SamePart(s[j], s[i], keys, pp) /\ RowLess(s[j], s[i], keys)})
DenseRank(s, i, keys, pp) ==
  1 + Cardinality({KeyOf(s[j], keys) : j \in {j \in 1..Len(s) : SamePart(s[j], s[i], keys, pp) /\ RowLess(s[j], s[i], keys)}})

KeepIdx(s, P(_)) == SelectSeq([i \in 1..Len(s) |-> i], P)
PTopK(kind, s, keys, pp, k) ==
  LET idx == CASE kind = "rownumber" -> KeepIdx(s, LAMBDA i : RowNumber(s, i, keys, pp) <= k)
               [] kind = "rank"      -> KeepIdx(s, LAMBDA i : Rank(s, i, keys, pp) <= k)
               [] kind = "denserank" -> KeepIdx(s, LAMBDA i : DenseRank(s, i, keys, pp) <= k)
  IN [n \in 1..Len(idx) |-> s[idx[n]]]
=============================================================================
