-------------------------------- MODULE Tri --------------------------------
(* Kleene three-valued logic over Values: TRUE / FALSE / NULL (unknown),     *)
(* with ERR poison propagating through every operator.                      *)
EXTENDS Values

And3(x, y) ==
  IF IsErr(x) \/ IsErr(y) THEN Err
  ELSE IF IsFalse(x) \/ IsFalse(y) THEN FalseV
  ELSE IF IsNull(x) \/ IsNull(y) THEN Null
  ELSE TrueV
Or3(x, y) ==
  IF IsErr(x) \/ IsErr(y) THEN Err
  ELSE IF IsTrue(x) \/ IsTrue(y) THEN TrueV
  ELSE IF IsNull(x) \/ IsNull(y) THEN Null
  ELSE FalseV
Not3(x) == IF IsErr(x) THEN Err ELSE IF IsNull(x) THEN Null ELSE B(x.v = 0)

\* comparisons: NULL if either side is NULL
Cmp(op, x, y) ==
  IF IsErr(x) \/ IsErr(y) THEN Err
  ELSE IF IsNull(x) \/ IsNull(y) THEN Null
  ELSE CASE op = "="  -> B(x.v = y.v)
         [] op = "<>" -> B(x.v # y.v)
         [] op = "<"  -> B(x.v < y.v)
         [] op = "<=" -> B(x.v <= y.v)
         [] op = ">"  -> B(x.v > y.v)
         [] op = ">=" -> B(x.v >= y.v)
IsDistinctFrom(x, y) ==
  IF IsErr(x) \/ IsErr(y) THEN Err
  ELSE IF IsNull(x) /\ IsNull(y) THEN FalseV
  ELSE IF IsNull(x) \/ IsNull(y) THEN TrueV
  ELSE B(x.v # y.v)
IsNotDistinctFrom(x, y) == Not3(IsDistinctFrom(x, y))

\* x IN (list): TRUE if some element equals; else NULL if x or some element is NULL; else FALSE
In3(x, list) ==
  IF IsErr(x) \/ \E i \in 1..Len(list) : IsErr(list[i]) THEN Err
  ELSE IF IsNull(x) THEN (IF Len(list) = 0 THEN FalseV ELSE Null)
  ELSE IF \E i \in 1..Len(list) : ~IsNull(list[i]) /\ list[i].v = x.v THEN TrueV
  ELSE IF \E i \in 1..Len(list) : IsNull(list[i]) THEN Null
  ELSE FalseV

\* a WHERE/ON/HAVING predicate keeps a row only if it is TRUE
Holds(x) == IsTrue(x)
=============================================================================
