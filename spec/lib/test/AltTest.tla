---- MODULE AltTest ----
EXTENDS Rel, TLC
T1 == << <<I(1)>>, <<I(1)>>, <<I(2)>> >>
T2 == << <<I(1)>>, <<I(3)>> >>
DB == <<T1, T2>>
Scan(k) == [op |-> "scan", t |-> k]
P(f) == [op |-> "setop", f |-> f, all |-> TRUE, l |-> Scan(1), r |-> Scan(2)]
ASSUME PrintT(<<EvalPlan(P("intersect"), <<>>, DB).rows, EvalPlan(AltPlan(P("intersect")), <<>>, DB).rows>>)
ASSUME PrintT(<<EvalPlan(P("except"), <<>>, DB).rows, EvalPlan(AltPlan(P("except")), <<>>, DB).rows>>)
ASSUME PrintT(AltPlan(P("except")).f)
VARIABLE x
Init == x = 0
Next == UNCHANGED x
====
