---- MODULE RelTest ----
EXTENDS Rel, TLC, Json
T1 == << <<I(1), I(10)>>, <<I(2), Null>>, <<Null, I(30)>>, <<I(1), I(11)>> >>
T2 == << <<I(1), S(1)>>, <<I(3), S(2)>>, <<Null, S(3)>> >>
DB == <<T1, T2>>
Scan(k) == [op |-> "scan", t |-> k]
J(jt) == [op |-> "join", jt |-> jt, on |-> Bin("=", Col(1), Col(3)), l |-> Scan(1), r |-> Scan(2), lw |-> 2, rw |-> 2]
R(p) == EvalPlan(p, <<>>, DB)
ASSUME PrintT(R(J("inner")))
ASSUME Len(R(J("inner")).rows) = 2
ASSUME Len(R(J("left")).rows) = 4
ASSUME Len(R(J("right")).rows) = 4
ASSUME Len(R(J("full")).rows) = 6
ASSUME R(J("semi")).rows = << <<I(1), I(10)>>, <<I(1), I(11)>> >>
ASSUME Len(R(J("anti")).rows) = 2
Agg == [op |-> "agg", keys |-> <<Col(1)>>, aggs |-> <<[f |-> "sum", e |-> Col(2), distinct |-> FALSE], [f |-> "countstar", e |-> Lit(Null), distinct |-> FALSE]>>, src |-> Scan(1)]
ASSUME PrintT(R(Agg))
ASSUME SameBag(R(Agg).rows, << <<I(1), I(21), I(2)>>, <<I(2), Null, I(1)>>, <<Null, I(30), I(1)>> >>)
Srt == [op |-> "sort", keys |-> <<[i |-> 1, asc |-> FALSE, nf |-> FALSE]>>, src |-> Scan(1)]
ASSUME PrintT(R(Srt))
NotIn == [op |-> "filter", p |-> [op |-> "insub", e |-> Col(1), sub |-> [op |-> "project", es |-> <<Col(1)>>, src |-> Scan(2)], neg |-> TRUE], src |-> Scan(1)]
ASSUME R(NotIn).rows = <<>>
Ex == [op |-> "filter", p |-> [op |-> "exists", sub |-> [op |-> "filter", p |-> Bin("=", Col(1), [op |-> "outer", i |-> 1]), src |-> Scan(2)], neg |-> FALSE], src |-> Scan(1)]
ASSUME PrintT(R(Ex))
Div == [op |-> "project", es |-> <<Bin("/", Col(2), Bin("-", Col(1), Lit(I(1))))>>, src |-> Scan(1)]
ASSUME R(Div).err
Lim == [op |-> "limit", skip |-> 1, fetch |-> 2, src |-> Srt]
ASSUME PrintT(<<R(Lim), Mode(Lim)>>)
ASSUME PrintT(ToJson(Ex))
Ex2 == [op |-> "setop", f |-> "except", all |-> TRUE, l |-> [op |-> "project", es |-> <<Col(1)>>, src |-> Scan(1)], r |-> [op |-> "project", es |-> <<Col(1)>>, src |-> Scan(2)]]
ASSUME PrintT(R(Ex2))
VARIABLE x
Init == x = 0
Next == UNCHANGED x
====
