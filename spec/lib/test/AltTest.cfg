INIT Init
NEXT Next
