INIT Init
NEXT Next
