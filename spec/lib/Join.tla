-------------------------------- MODULE Join --------------------------------
(***************************************************************************)
(* Reference semantics of every join type of datafusion_common::JoinType,   *)
(* defined by a nested loop over two sequences of rows.                     *)
(*                                                                         *)
(* A row is a tuple of Values ([k,v] records).  The equality keys are the   *)
(* first `nk` columns of both sides (nk = 0: keyless join).  `nen` = TRUE   *)
(* is NullEquality::NullEqualsNull, FALSE is NullEqualsNothing.  The        *)
(* residual filter is named by a string and evaluated in three-valued      *)
(* logic over the *payload* column (column 2) of both rows; a pair joins    *)
(* only when the filter is TRUE (NULL/unknown does not join).               *)
(*                                                                         *)
(* The result is a sequence; its order carries no meaning (compare as a     *)
(* bag).  Column order: left columns then right columns (outer/inner),      *)
(* only the preserved side for semi/anti, preserved side + one boolean      *)
(* "mark" column (never NULL) for mark joins.                               *)
(***************************************************************************)
EXTENDS Tri

JoinTypes == {"Inner", "Left", "Right", "Full", "LeftSemi", "RightSemi",
              "LeftAnti", "RightAnti", "LeftMark", "RightMark"}
Filters   == {"none", "lt", "le", "gt", "ge", "lnull", "rnull", "ne"}

\* equality of one key column under the NULL-equality mode
KeyEq(a, b, nen) ==
  IF IsNull(a) \/ IsNull(b) THEN nen /\ IsNull(a) /\ IsNull(b)
  ELSE a.k = b.k /\ a.v = b.v

KeysEq(l, r, nk, nen) == \A c \in 1..nk : KeyEq(l[c], r[c], nen)

\* residual filter (three-valued) over the payload columns l[2], r[2]
FilterVal(f, l, r) ==
  CASE f = "none"  -> TrueV
    [] f = "lt"    -> Cmp("<",  l[2], r[2])
    [] f = "le"    -> Cmp("<=", l[2], r[2])
    [] f = "gt"    -> Cmp(">",  l[2], r[2])
    [] f = "ge"    -> Cmp(">=", l[2], r[2])
    [] f = "ne"    -> Cmp("<>", l[2], r[2])
    [] f = "lnull" -> B(IsNull(l[2]))
    [] f = "rnull" -> B(IsNull(r[2]))

Match(l, r, nk, nen, f) == KeysEq(l, r, nk, nen) /\ Holds(FilterVal(f, l, r))

NullRow(w) == [c \in 1..w |-> Null]

\* all <<i, j>> index pairs in nested-loop order
Pairs(L, R) ==
  [n \in 1..(Len(L) * Len(R)) |-> <<((n - 1) \div Len(R)) + 1, ((n - 1) % Len(R)) + 1>>]

LHasMatch(L, R, i, nk, nen, f) == \E j \in 1..Len(R) : Match(L[i], R[j], nk, nen, f)
RHasMatch(L, R, j, nk, nen, f) == \E i \in 1..Len(L) : Match(L[i], R[j], nk, nen, f)

InnerPart(L, R, nk, nen, f) ==
  LET ps == SelectSeq(Pairs(L, R), LAMBDA p : Match(L[p[1]], R[p[2]], nk, nen, f))
  IN  [n \in 1..Len(ps) |-> L[ps[n][1]] \o R[ps[n][2]]]

LIdx(L) == [i \in 1..Len(L) |-> i]

\* width of the other side must be given because it may be empty
LeftUnmatched(L, R, wr, nk, nen, f) ==
  LET is == SelectSeq(LIdx(L), LAMBDA i : ~LHasMatch(L, R, i, nk, nen, f))
  IN  [n \in 1..Len(is) |-> L[is[n]] \o NullRow(wr)]
RightUnmatched(L, R, wl, nk, nen, f) ==
  LET js == SelectSeq(LIdx(R), LAMBDA j : ~RHasMatch(L, R, j, nk, nen, f))
  IN  [n \in 1..Len(js) |-> NullRow(wl) \o R[js[n]]]

SemiAnti(X, keep(_)) ==
  LET is == SelectSeq(LIdx(X), keep) IN [n \in 1..Len(is) |-> X[is[n]]]

(* wl, wr: number of columns of the left / right input *)
Join(jt, L, R, wl, wr, nk, nen, f) ==
  CASE jt = "Inner" -> InnerPart(L, R, nk, nen, f)
    [] jt = "Left"  -> InnerPart(L, R, nk, nen, f) \o LeftUnmatched(L, R, wr, nk, nen, f)
    [] jt = "Right" -> InnerPart(L, R, nk, nen, f) \o RightUnmatched(L, R, wl, nk, nen, f)
    [] jt = "Full"  -> InnerPart(L, R, nk, nen, f) \o LeftUnmatched(L, R, wr, nk, nen, f)
                         \o RightUnmatched(L, R, wl, nk, nen, f)
    [] jt = "LeftSemi"  -> SemiAnti(L, LAMBDA i : LHasMatch(L, R, i, nk, nen, f))
    [] jt = "LeftAnti"  -> SemiAnti(L, LAMBDA i : ~LHasMatch(L, R, i, nk, nen, f))
    [] jt = "RightSemi" -> SemiAnti(R, LAMBDA j : RHasMatch(L, R, j, nk, nen, f))
    [] jt = "RightAnti" -> SemiAnti(R, LAMBDA j : ~RHasMatch(L, R, j, nk, nen, f))
    [] jt = "LeftMark"  -> [i \in 1..Len(L) |-> L[i] \o <<B(LHasMatch(L, R, i, nk, nen, f))>>]
    [] jt = "RightMark" -> [j \in 1..Len(R) |-> R[j] \o <<B(RHasMatch(L, R, j, nk, nen, f))>>]

(***************************************************************************)
(* Null-aware anti join (SQL  x NOT IN (SELECT y ...)), single key column,  *)
(* no residual filter:  x NOT IN S  is TRUE iff S is empty, or x is not     *)
(* NULL and S contains neither NULL nor a value equal to x.                 *)
(***************************************************************************)
NotIn(x, Other) ==
  \/ Len(Other) = 0
  \/ /\ ~IsNull(x)
     /\ \A j \in 1..Len(Other) : ~IsNull(Other[j][1]) /\ ~(Other[j][1].k = x.k /\ Other[j][1].v = x.v)

NullAwareAnti(jt, L, R) ==
  CASE jt = "LeftAnti"  -> SemiAnti(L, LAMBDA i : NotIn(L[i][1], R))
    [] jt = "RightAnti" -> SemiAnti(R, LAMBDA j : NotIn(R[j][1], L))

(***************************************************************************)
(* Declared nullability of the output columns, given the declared           *)
(* nullability of the input columns (sequences of BOOLEAN).                 *)
(***************************************************************************)
AllTrue(w) == [c \in 1..w |-> TRUE]
OutNullable(jt, ln, rn) ==
  CASE jt = "Inner" -> ln \o rn
    [] jt = "Left"  -> ln \o AllTrue(Len(rn))
    [] jt = "Right" -> AllTrue(Len(ln)) \o rn
    [] jt = "Full"  -> AllTrue(Len(ln)) \o AllTrue(Len(rn))
    [] jt \in {"LeftSemi", "LeftAnti"}   -> ln
    [] jt \in {"RightSemi", "RightAnti"} -> rn
    [] jt = "LeftMark"  -> ln \o <<FALSE>>
    [] jt = "RightMark" -> rn \o <<FALSE>>

\* declared nullability used by the driver: a column is declared nullable iff it holds a NULL
ColNullable(X, w) == [c \in 1..w |-> \E i \in 1..Len(X) : IsNull(X[i][c])]
=============================================================================
