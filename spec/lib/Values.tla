------------------------------- MODULE Values -------------------------------
(***************************************************************************)
(* SQL values in uniform shape [k |-> kind, v |-> Int] (TLC cannot compare  *)
(* an integer with a string, so every value is a record of the same shape). *)
(*   k = "n"  NULL              (v = 0)                                     *)
(*   k = "i"  integer           (v = the integer)                           *)
(*   k = "b"  boolean           (v = 1 TRUE, 0 FALSE)                       *)
(*   k = "s"  string            (v = index into the harness string pool;    *)
(*                               pool order = lexicographic order)          *)
(*   k = "f"  float *token*     (v = index into an ordered token pool       *)
(*                               -inf < ... < -0 = +0 < ... < +inf < NaN)   *)
(*   k = "e"  ERR poison        (evaluation error: division by zero, ...)   *)
(* JSON form crossing to Rust: {"k":"i","v":3}.                             *)
(***************************************************************************)
EXTENDS Integers, Sequences, FiniteSets

Null    == [k |-> "n", v |-> 0]
Err     == [k |-> "e", v |-> 0]
I(n)    == [k |-> "i", v |-> n]
B(b)    == [k |-> "b", v |-> IF b THEN 1 ELSE 0]
S(i)    == [k |-> "s", v |-> i]
F(i)    == [k |-> "f", v |-> i]
TrueV   == B(TRUE)
FalseV  == B(FALSE)

IsNull(x) == x.k = "n"
IsErr(x)  == x.k = "e"
IsTrue(x) == x.k = "b" /\ x.v = 1
IsFalse(x) == x.k = "b" /\ x.v = 0

\* total order used by ORDER BY on comparable (same-kind) non-NULL values
Lt(x, y) == x.v < y.v
Eq(x, y) == x.k = y.k /\ x.v = y.v

\* rows are sequences (tuples) of values; relations are sequences of rows
BagCount(rel, r) == Cardinality({i \in 1..Len(rel) : rel[i] = r})
SameBag(r1, r2) ==
  /\ Len(r1) = Len(r2)
  /\ \A i \in 1..Len(r1) : BagCount(r1, r1[i]) = BagCount(r2, r1[i])
IsSubBag(r1, r2) == \A i \in 1..Len(r1) : BagCount(r1, r1[i]) <= BagCount(r2, r1[i])

\* sequence helpers
RECURSIVE SeqSum(_)
SeqSum(s) == IF s = <<>> THEN 0 ELSE Head(s) + SeqSum(Tail(s))
SelectIdx(s, P(_)) == SelectSeq([i \in 1..Len(s) |-> i], P)
MapSeq(s, Op(_)) == [i \in 1..Len(s) |-> Op(s[i])]
RECURSIVE Flatten(_)
Flatten(ss) == IF ss = <<>> THEN <<>> ELSE Head(ss) \o Flatten(Tail(ss))
=============================================================================
