-------------------------------- MODULE Expr --------------------------------
(***************************************************************************)
(* Reference semantics of scalar SQL expressions (row-by-row, three-valued  *)
(* logic), independent of the engine.  Expressions are AST records (see     *)
(* AST.md); values are spec/lib/Values records.  Evaluation returns a value *)
(* or the poison value Err (division by zero).  CASE and COALESCE are lazy  *)
(* (an error in a branch no row selects must not surface); every other      *)
(* operator propagates Err strictly - the verdict rule is: where the        *)
(* reference says Err the engine may fail or succeed, where it does not the *)
(* engine must return exactly this value.                                   *)
(***************************************************************************)
EXTENDS Tri

Abs(n) == IF n < 0 THEN 0 - n ELSE n
Sign(n) == IF n < 0 THEN 0 - 1 ELSE 1
\* SQL integer division truncates toward zero; remainder takes the sign of the dividend
TruncDiv(a, b) == Sign(a) * Sign(b) * (Abs(a) \div Abs(b))
TruncRem(a, b) == a - b * TruncDiv(a, b)

Arith(f, x, y) ==
  IF IsErr(x) \/ IsErr(y) THEN Err
  ELSE IF IsNull(x) \/ IsNull(y) THEN Null
  ELSE CASE f = "+" -> I(x.v + y.v)
         [] f = "-" -> I(x.v - y.v)
         [] f = "*" -> I(x.v * y.v)
         [] f = "/" -> IF y.v = 0 THEN Err ELSE I(TruncDiv(x.v, y.v))
         [] f = "%" -> IF y.v = 0 THEN Err ELSE I(TruncRem(x.v, y.v))

IsCmp(f) == f \in {"=", "<>", "<", "<=", ">", ">="}
IsArith(f) == f \in {"+", "-", "*", "/", "%"}

ApplyBin(f, x, y) ==
  IF IsArith(f) THEN Arith(f, x, y)
  ELSE IF IsCmp(f) THEN Cmp(f, x, y)
  ELSE CASE f = "and" -> And3(x, y)
         [] f = "or"  -> Or3(x, y)
         [] f = "isdistinct" -> IsDistinctFrom(x, y)
         [] f = "isnotdistinct" -> IsNotDistinctFrom(x, y)

ApplyUn(f, x) ==
  IF IsErr(x) THEN Err
  ELSE CASE f = "not" -> Not3(x)
         [] f = "neg" -> IF IsNull(x) THEN Null ELSE I(0 - x.v)
         [] f = "abs" -> IF IsNull(x) THEN Null ELSE I(Abs(x.v))
         [] f = "isnull" -> B(IsNull(x))
         [] f = "isnotnull" -> B(~IsNull(x))
         [] f = "istrue" -> B(IsTrue(x))
         [] f = "isfalse" -> B(IsFalse(x))
         [] f = "isnottrue" -> B(~IsTrue(x))
         [] f = "isnotfalse" -> B(~IsFalse(x))
         [] f = "isunknown" -> B(IsNull(x))
         [] f = "isnotunknown" -> B(~IsNull(x))

NullIf(x, y) == IF IsErr(x) \/ IsErr(y) THEN Err ELSE IF IsTrue(Cmp("=", x, y)) THEN Null ELSE x
Between(x, lo, hi, neg) ==
  LET r == And3(Cmp(">=", x, lo), Cmp("<=", x, hi)) IN IF neg THEN Not3(r) ELSE r

(***************************************************************************)
(* AST node shapes (field `op` selects):                                    *)
(*   [op |-> "col", i |-> n]                 n-th column of the row (1-based)*)
(*   [op |-> "lit", v |-> value]                                            *)
(*   [op |-> "bin", f |-> opname, l |-> e, r |-> e]                         *)
(*   [op |-> "un", f |-> opname, e |-> e]                                   *)
(*   [op |-> "in", e |-> e, list |-> <<e,...>>, neg |-> BOOLEAN]            *)
(*   [op |-> "between", e |-> e, lo |-> e, hi |-> e, neg |-> BOOLEAN]       *)
(*   [op |-> "case", whens |-> <<<<cond, then>>,...>>, else |-> e]          *)
(*        (searched CASE; no ELSE is written as else = lit Null)            *)
(*   [op |-> "coalesce", args |-> <<e,...>>]                                *)
(*   [op |-> "nullif", l |-> e, r |-> e]                                    *)
(***************************************************************************)
RECURSIVE Eval(_, _), EvalCase(_, _, _), EvalCoalesce(_, _)

EvalCase(whens, els, row) ==
  IF whens = <<>> THEN Eval(els, row)
  ELSE LET c == Eval(Head(whens)[1], row) IN
       IF IsErr(c) THEN Err
       ELSE IF IsTrue(c) THEN Eval(Head(whens)[2], row)
       ELSE EvalCase(Tail(whens), els, row)

EvalCoalesce(args, row) ==
  IF args = <<>> THEN Null
  ELSE LET x == Eval(Head(args), row) IN
       IF IsNull(x) THEN EvalCoalesce(Tail(args), row) ELSE x

Eval(e, row) ==
  CASE e.op = "col" -> row[e.i]
    [] e.op = "lit" -> e.v
    [] e.op = "bin" -> ApplyBin(e.f, Eval(e.l, row), Eval(e.r, row))
    [] e.op = "un"  -> ApplyUn(e.f, Eval(e.e, row))
    [] e.op = "in"  -> LET r == In3(Eval(e.e, row), [i \in 1..Len(e.list) |-> Eval(e.list[i], row)])
                       IN IF e.neg THEN Not3(r) ELSE r
    [] e.op = "between" -> Between(Eval(e.e, row), Eval(e.lo, row), Eval(e.hi, row), e.neg)
    [] e.op = "case" -> EvalCase(e.whens, e.else, row)
    [] e.op = "coalesce" -> EvalCoalesce(e.args, row)
    [] e.op = "nullif" -> NullIf(Eval(e.l, row), Eval(e.r, row))

\* constructors (used by generators)
Col(i) == [op |-> "col", i |-> i]
Lit(v) == [op |-> "lit", v |-> v]
Bin(f, l, r) == [op |-> "bin", f |-> f, l |-> l, r |-> r]
Un(f, e) == [op |-> "un", f |-> f, e |-> e]
InList(e, list, neg) == [op |-> "in", e |-> e, list |-> list, neg |-> neg]
BetweenE(e, lo, hi, neg) == [op |-> "between", e |-> e, lo |-> lo, hi |-> hi, neg |-> neg]
CaseE(whens, els) == [op |-> "case", whens |-> whens, else |-> els]
Coalesce(args) == [op |-> "coalesce", args |-> args]
NullIfE(l, r) == [op |-> "nullif", l |-> l, r |-> r]
=============================================================================
