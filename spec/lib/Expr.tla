-------------------------------- MODULE Expr --------------------------------
(***************************************************************************)
(* Reference semantics of scalar SQL expressions (row-by-row, three-valued  *)
(* logic), independent of the engine.  Expressions are AST records (see     *)
(* AST.md); values are spec/lib/Values records.  Evaluation returns a value *)
(* or the poison value Err (division by zero).  CASE and COALESCE are lazy  *)
(* (an error in a branch no row selects must not surface); every other      *)
(* operator propagates Err strictly - the verdict rule is: where the        *)
(* reference says Err the engine may fail or succeed, where it does not the *)
(* engine must return exactly this value.                                   *)
(***************************************************************************)
EXTENDS Tri

Abs(n) == IF n < 0 THEN 0 - n ELSE n
Sign(n) == IF n < 0 THEN 0 - 1 ELSE 1
\* SQL integer division truncates toward zero; remainder takes the sign of the dividend
TruncDiv(a, b) == Sign(a) * Sign(b) * (Abs(a) \div Abs(b))
TruncRem(a, b) == a - b * TruncDiv(a, b)

Arith(f, x, y) ==
  IF IsErr(x) \/ IsErr(y) THEN Err
  ELSE IF IsNull(x) \/ IsNull(y) THEN Null
  ELSE CASE f = "+" -> I(x.v + y.v)
         [] f = "-" -> I(x.v - y.v)
         [] f = "*" -> I(x.v * y.v)
         [] f = "/" -> IF y.v = 0 THEN Err ELSE I(TruncDiv(x.v, y.v))
         [] f = "%" -> IF y.v = 0 THEN Err ELSE I(TruncRem(x.v, y.v))

\* bitwise operators on (two's complement, unbounded) integers; shift counts are small non-negative literals
RECURSIVE Bits(_, _, _)
Bits(f, a, b) ==
  IF a \in {0, 0 - 1} /\ b \in {0, 0 - 1} THEN
    (CASE f = "&" -> IF a = 0 - 1 /\ b = 0 - 1 THEN 0 - 1 ELSE 0
       [] f = "|" -> IF a = 0 - 1 \/ b = 0 - 1 THEN 0 - 1 ELSE 0
       [] f = "^" -> IF a # b THEN 0 - 1 ELSE 0)
  ELSE LET x == a % 2  y == b % 2
           bit == CASE f = "&" -> x * y [] f = "|" -> IF x + y > 0 THEN 1 ELSE 0 [] f = "^" -> (x + y) % 2 IN
       2 * Bits(f, a \div 2, b \div 2) + bit
RECURSIVE BitPow2(_)
BitPow2(n) == IF n <= 0 THEN 1 ELSE 2 * BitPow2(n - 1)
BitOp(f, x, y) ==
  IF IsErr(x) \/ IsErr(y) THEN Err
  ELSE IF IsNull(x) \/ IsNull(y) THEN Null
  ELSE CASE f = "<<" -> IF y.v < 0 \/ y.v > 20 THEN Err ELSE I(x.v * BitPow2(y.v))
         [] f = ">>" -> IF y.v < 0 \/ y.v > 20 THEN Err ELSE I(x.v \div BitPow2(y.v))
         [] OTHER -> I(Bits(f, x.v, y.v))

IsCmp(f) == f \in {"=", "<>", "<", "<=", ">", ">="}
IsArith(f) == f \in {"+", "-", "*", "/", "%"}

ApplyBin(f, x, y) ==
  IF IsArith(f) THEN Arith(f, x, y)
  ELSE IF IsCmp(f) THEN Cmp(f, x, y)
  ELSE CASE f = "and" -> And3(x, y)
         [] f = "or"  -> Or3(x, y)
         [] f = "isdistinct" -> IsDistinctFrom(x, y)
         [] f = "isnotdistinct" -> IsNotDistinctFrom(x, y)
         [] f \in {"&", "|", "^", "<<", ">>"} -> BitOp(f, x, y)

ApplyUn(f, x) ==
  IF IsErr(x) THEN Err
  ELSE CASE f = "not" -> Not3(x)
         [] f = "neg" -> IF IsNull(x) THEN Null ELSE I(0 - x.v)
         [] f = "abs" -> IF IsNull(x) THEN Null ELSE I(Abs(x.v))
         [] f = "isnull" -> B(IsNull(x))
         [] f = "isnotnull" -> B(~IsNull(x))
         [] f = "istrue" -> B(IsTrue(x))
         [] f = "isfalse" -> B(IsFalse(x))
         [] f = "isnottrue" -> B(~IsTrue(x))
         [] f = "isnotfalse" -> B(~IsFalse(x))
         [] f = "isunknown" -> B(IsNull(x))
         [] f = "isnotunknown" -> B(~IsNull(x))

NullIf(x, y) == IF IsErr(x) \/ IsErr(y) THEN Err ELSE IF IsTrue(Cmp("=", x, y)) THEN Null ELSE x
Between(x, lo, hi, neg) ==
  LET r == And3(Cmp(">=", x, lo), Cmp("<=", x, hi)) IN IF neg THEN Not3(r) ELSE r

(***************************************************************************)
(* AST node shapes (field `op` selects):                                    *)
(*   [op |-> "col", i |-> n]                 n-th column of the row (1-based)*)
(*   [op |-> "lit", v |-> value]                                            *)
(*   [op |-> "bin", f |-> opname, l |-> e, r |-> e]                         *)
(*   [op |-> "un", f |-> opname, e |-> e]                                   *)
(*   [op |-> "in", e |-> e, list |-> <<e,...>>, neg |-> BOOLEAN]            *)
(*   [op |-> "between", e |-> e, lo |-> e, hi |-> e, neg |-> BOOLEAN]       *)
(*   [op |-> "case", whens |-> <<<<cond, then>>,...>>, else |-> e]          *)
(*        (searched CASE; no ELSE is written as else = lit Null)            *)
(*   [op |-> "coalesce", args |-> <<e,...>>]                                *)
(*   [op |-> "nullif", l |-> e, r |-> e]                                    *)
(***************************************************************************)
(***************************************************************************)
(* Additional nodes (added for C33/C04; existing nodes are unchanged):      *)
(*   [op |-> "like", f |-> "like"|"ilike"|"similar"|"isimilar",             *)
(*          e |-> e, pat |-> e, neg |-> BOOLEAN]                            *)
(*        `pat` evaluates to a pattern value [k |-> "p", v |-> index into   *)
(*        PatPool] or NULL; strings are PoolChars[index]                    *)
(*   [op |-> "casex", e |-> e, whens |-> <<<<value, then>>,...>>, else |-> e]*)
(*        simple CASE: first WHEN whose value = operand is TRUE             *)
(*   [op |-> "cast", to |-> kind, try |-> BOOLEAN, e |-> e]                 *)
(*        kind in "i8","i16","i32","i","b" (integer widths / boolean);      *)
(*        out of range: ERR (CAST) or NULL (TRY_CAST)                       *)
(*   [op |-> "tbin", t |-> kind, f |-> "+"|"-"|"*"|"/"|"%", l |-> e, r |-> e]*)
(*   [op |-> "tun", t |-> kind, f |-> "neg"|"abs", e |-> e]                 *)
(*        checked integer arithmetic in width t: a result outside the       *)
(*        width is ERR (so is MIN % -1, whose quotient overflows)           *)
(* Typed literals are [op |-> "lit", v |-> value, t |-> kind].              *)
(***************************************************************************)
\* characters: 1 = a, 2 = b; pattern tokens: 1 a, 2 b, 3 %, 4 _, 5 A, 6 B, 7 \ (escape), 8 | (SIMILAR TO only)
PoolChars == << <<1>>, <<1, 2>>, <<2>> >>
PatPool == << <<3>>, <<4>>, <<1, 3>>, <<3, 2>>, <<1, 4>>, <<4, 2>>, <<>>, <<1, 2>>, <<3, 1, 3>>, <<4, 4>>,
              <<1, 3, 2>>, <<5, 3>>, <<3, 6>>, <<1>>, <<4, 3>>, <<3, 4>>, <<5, 6>>, <<2, 3>>,
              <<1, 7, 3>>, <<7, 1, 3>>, <<7, 4>>, <<3, 3>>, <<4, 4, 4>>,
              <<1, 8, 2>>, <<1, 2, 8, 3, 2>>, <<5, 8, 4, 2>> >>
NPatLike == 23      \* patterns 1..NPatLike are LIKE/ILIKE/SIMILAR patterns without | ; 1..18 have no escape
PatV(i) == [k |-> "p", v |-> i]
LowerTok(t) == IF t = 5 THEN 1 ELSE IF t = 6 THEN 2 ELSE t
CharEq(c, t, ci) == t \in {1, 2, 5, 6} /\ (c = t \/ (ci /\ c = LowerTok(t)))
RECURSIVE LikeMatch(_, _, _)
LikeMatch(s, p, ci) ==
  IF p = <<>> THEN s = <<>>
  ELSE IF Head(p) = 3 THEN LikeMatch(s, Tail(p), ci) \/ (s # <<>> /\ LikeMatch(Tail(s), p, ci))
  ELSE IF Head(p) = 4 THEN s # <<>> /\ LikeMatch(Tail(s), Tail(p), ci)
  ELSE IF Head(p) = 7 THEN \* escape: the next token is a literal character (% and _ never occur in the pool strings)
       Len(p) >= 2 /\ s # <<>> /\ CharEq(Head(s), p[2], ci) /\ LikeMatch(Tail(s), Tail(Tail(p)), ci)
  ELSE s # <<>> /\ CharEq(Head(s), Head(p), ci) /\ LikeMatch(Tail(s), Tail(p), ci)
\* SIMILAR TO: top-level alternation, each alternative anchored at both ends
RECURSIVE SplitAlt(_, _)
SplitAlt(p, acc) ==
  IF p = <<>> THEN <<acc>>
  ELSE IF Head(p) = 8 THEN <<acc>> \o SplitAlt(Tail(p), <<>>)
  ELSE SplitAlt(Tail(p), Append(acc, Head(p)))
SimilarMatch(s, p, ci) == LET alts == SplitAlt(p, <<>>) IN \E i \in 1..Len(alts) : LikeMatch(s, alts[i], ci)
(***************************************************************************)
(* Second string pool (kind "x", used by table C of ExprScope): strings     *)
(* that contain the LIKE wildcards and regex metacharacters as ORDINARY     *)
(* characters.  Character codes: 1 a, 2 b, 11 f, 12 o, 13 x, 21 F, 22 O,    *)
(* 23 X, 31 _, 32 %, 33 .  ; pool order = byte order (= index order).       *)
(*   [op |-> "likex", f |-> "like"|"ilike", e, toks, neg]   LIKE with the   *)
(*        pattern given inline: character codes, 101 = % (any string),      *)
(*        102 = _ (any character); escapes are resolved by the converter    *)
(*   [op |-> "regex", f |-> "~"|"~*"|"!~"|"!~*", e, re]                     *)
(*        re = [null, grp, alts]; alts[j] = [s, e, items]; items: character *)
(*        codes, 203 = . (any character), 204 = .* ;  grp: the pattern is   *)
(*        ^(alt|alt..)$ (every alternative anchored at both ends), else the *)
(*        alternatives carry their own ^ / $ and are joined by |; a regex   *)
(*        without anchors matches anywhere in the string                    *)
(*   [op |-> "startswith", e, pre]     starts_with(e, pre)                  *)
(*   [op |-> "nvl", l, r]              nvl / ifnull                         *)
(***************************************************************************)
XPoolChars == << <<21, 22, 23, 22>>, <<1>>, <<1, 33, 2>>, <<1, 2>>, <<2>>, <<11, 12, 32, 12>>, <<11, 12, 31, 12>>, <<11, 12, 13, 12>> >>
XStr(i) == [k |-> "x", v |-> i]
StrChars(x) == IF x.k = "x" THEN XPoolChars[x.v] ELSE PoolChars[x.v]
LowerC(c) == IF c \in {21, 22, 23} THEN c - 10 ELSE c
CEq(c, d, ci) == c = d \/ (ci /\ LowerC(c) = LowerC(d))
RECURSIVE LikeMatchX(_, _, _)
LikeMatchX(s, p, ci) ==
  IF p = <<>> THEN s = <<>>
  ELSE IF Head(p) = 101 THEN LikeMatchX(s, Tail(p), ci) \/ (s # <<>> /\ LikeMatchX(Tail(s), p, ci))
  ELSE IF Head(p) = 102 THEN s # <<>> /\ LikeMatchX(Tail(s), Tail(p), ci)
  ELSE s # <<>> /\ CEq(Head(s), Head(p), ci) /\ LikeMatchX(Tail(s), Tail(p), ci)
\* items matched against s from position pos; atEnd: the match must end at the end of s
RECURSIVE ReAt(_, _, _, _, _)
ReAt(s, pos, items, atEnd, ci) ==
  IF items = <<>> THEN (~atEnd \/ pos = Len(s) + 1)
  ELSE IF Head(items) = 204 THEN \E q \in pos..(Len(s) + 1) : ReAt(s, q, Tail(items), atEnd, ci)
  ELSE IF Head(items) = 203 THEN pos <= Len(s) /\ ReAt(s, pos + 1, Tail(items), atEnd, ci)
  ELSE pos <= Len(s) /\ CEq(s[pos], Head(items), ci) /\ ReAt(s, pos + 1, Tail(items), atEnd, ci)
ReAlt(s, a, grp, ci) ==
  IF grp \/ a.s THEN ReAt(s, 1, a.items, grp \/ a.e, ci)
  ELSE \E st \in 1..(Len(s) + 1) : ReAt(s, st, a.items, a.e, ci)
RegexVal(f, x, re) ==
  IF IsErr(x) THEN Err
  ELSE IF IsNull(x) \/ re.null THEN Null
  ELSE LET ci == f \in {"~*", "!~*"}
           m == \E j \in 1..Len(re.alts) : ReAlt(StrChars(x), re.alts[j], re.grp, ci) IN
       B(m # (f \in {"!~", "!~*"}))
IsPrefixSeq(p, s) == Len(p) <= Len(s) /\ SubSeq(s, 1, Len(p)) = p
StartsWithVal(x, p) ==
  IF IsErr(x) \/ IsErr(p) THEN Err ELSE IF IsNull(x) \/ IsNull(p) THEN Null ELSE B(IsPrefixSeq(StrChars(p), StrChars(x)))

LikeVal(f, x, p, neg) ==
  IF IsErr(x) \/ IsErr(p) THEN Err
  ELSE IF IsNull(x) \/ IsNull(p) THEN Null
  ELSE LET ci == f \in {"ilike", "isimilar"}
           m == IF f \in {"similar", "isimilar"} THEN SimilarMatch(StrChars(x), PatPool[p.v], ci)
                ELSE LikeMatch(StrChars(x), PatPool[p.v], ci) IN
       B(m # neg)

KindLo(k) == CASE k = "i8" -> 0 - 128 [] k = "i16" -> 0 - 32768 [] OTHER -> 0 - 2147483647
KindHi(k) == CASE k = "i8" -> 127 [] k = "i16" -> 32767 [] OTHER -> 2147483647
\* "i32" and "i" (Int64) values are kept far inside TLC's 32-bit integers by the generators
InKind(k, n) == k \in {"i", "i32"} \/ (n >= KindLo(k) /\ n <= KindHi(k))
CastV(to, try, x) ==
  IF IsErr(x) THEN Err
  ELSE IF IsNull(x) THEN Null
  ELSE IF to = "b" THEN (IF x.k = "b" THEN x ELSE IF x.k = "i" THEN B(x.v # 0) ELSE IF try THEN Null ELSE Err)
  ELSE \* integer target
    IF x.k = "b" THEN I(x.v)
    ELSE IF x.k = "i" THEN (IF InKind(to, x.v) THEN x ELSE IF try THEN Null ELSE Err)
    ELSE IF try THEN Null ELSE Err       \* the pool strings are not numerals
TArith(t, f, x, y) ==
  LET r == Arith(f, x, y) IN
  IF r.k # "i" THEN r
  ELSE IF ~InKind(t, r.v) THEN Err
  ELSE IF f \in {"/", "%"} /\ t \in {"i8", "i16"} /\ x.v = KindLo(t) /\ y.v = 0 - 1 THEN Err
  ELSE r
TUn(t, f, x) ==
  IF IsErr(x) THEN Err ELSE IF IsNull(x) THEN Null
  ELSE LET n == IF f = "neg" THEN 0 - x.v ELSE Abs(x.v) IN IF InKind(t, n) THEN I(n) ELSE Err

RECURSIVE Eval(_, _), EvalCase(_, _, _), EvalCoalesce(_, _), EvalCaseX(_, _, _, _)

EvalCase(whens, els, row) ==
  IF whens = <<>> THEN Eval(els, row)
  ELSE LET c == Eval(Head(whens)[1], row) IN
       IF IsErr(c) THEN Err
       ELSE IF IsTrue(c) THEN Eval(Head(whens)[2], row)
       ELSE EvalCase(Tail(whens), els, row)

\* simple CASE: x = operand value (evaluated once); a NULL operand matches no WHEN
EvalCaseX(x, whens, els, row) ==
  IF IsErr(x) THEN Err
  ELSE IF whens = <<>> THEN Eval(els, row)
  ELSE LET c == Cmp("=", x, Eval(Head(whens)[1], row)) IN
       IF IsErr(c) THEN Err
       ELSE IF IsTrue(c) THEN Eval(Head(whens)[2], row)
       ELSE EvalCaseX(x, Tail(whens), els, row)

EvalCoalesce(args, row) ==
  IF args = <<>> THEN Null
  ELSE LET x == Eval(Head(args), row) IN
       IF IsNull(x) THEN EvalCoalesce(Tail(args), row) ELSE x

Eval(e, row) ==
  CASE e.op = "col" -> row[e.i]
    [] e.op = "lit" -> e.v
    [] e.op = "bin" -> ApplyBin(e.f, Eval(e.l, row), Eval(e.r, row))
    [] e.op = "un"  -> ApplyUn(e.f, Eval(e.e, row))
    [] e.op = "in"  -> LET r == In3(Eval(e.e, row), [i \in 1..Len(e.list) |-> Eval(e.list[i], row)])
                       IN IF e.neg THEN Not3(r) ELSE r
    [] e.op = "between" -> Between(Eval(e.e, row), Eval(e.lo, row), Eval(e.hi, row), e.neg)
    [] e.op = "case" -> EvalCase(e.whens, e.else, row)
    [] e.op = "coalesce" -> EvalCoalesce(e.args, row)
    [] e.op = "nullif" -> NullIf(Eval(e.l, row), Eval(e.r, row))
    [] e.op = "like" -> LikeVal(e.f, Eval(e.e, row), Eval(e.pat, row), e.neg)
    [] e.op = "casex" -> EvalCaseX(Eval(e.e, row), e.whens, e.else, row)
    [] e.op = "cast" -> CastV(e.to, e.try, Eval(e.e, row))
    [] e.op = "tbin" -> TArith(e.t, e.f, Eval(e.l, row), Eval(e.r, row))
    [] e.op = "tun" -> TUn(e.t, e.f, Eval(e.e, row))
    [] e.op = "likex" -> LET x == Eval(e.e, row) IN
                         IF IsErr(x) THEN Err ELSE IF IsNull(x) THEN Null
                         ELSE B(LikeMatchX(StrChars(x), e.toks, e.f = "ilike") # e.neg)
    [] e.op = "regex" -> RegexVal(e.f, Eval(e.e, row), e.re)
    [] e.op = "startswith" -> StartsWithVal(Eval(e.e, row), Eval(e.pre, row))
    [] e.op = "nvl" -> EvalCoalesce(<<e.l, e.r>>, row)

\* constructors (used by generators)
Col(i) == [op |-> "col", i |-> i]
Lit(v) == [op |-> "lit", v |-> v]
Bin(f, l, r) == [op |-> "bin", f |-> f, l |-> l, r |-> r]
Un(f, e) == [op |-> "un", f |-> f, e |-> e]
InList(e, list, neg) == [op |-> "in", e |-> e, list |-> list, neg |-> neg]
BetweenE(e, lo, hi, neg) == [op |-> "between", e |-> e, lo |-> lo, hi |-> hi, neg |-> neg]
CaseE(whens, els) == [op |-> "case", whens |-> whens, else |-> els]
Coalesce(args) == [op |-> "coalesce", args |-> args]
NullIfE(l, r) == [op |-> "nullif", l |-> l, r |-> r]
LitK(v, k) == [op |-> "lit", v |-> v, t |-> k]
LikeE(f, e, pat, neg) == [op |-> "like", f |-> f, e |-> e, pat |-> pat, neg |-> neg]
CaseXE(e, whens, els) == [op |-> "casex", e |-> e, whens |-> whens, else |-> els]
CastE(to, try, e) == [op |-> "cast", to |-> to, try |-> try, e |-> e]
TBin(t, f, l, r) == [op |-> "tbin", t |-> t, f |-> f, l |-> l, r |-> r]
TUnE(t, f, e) == [op |-> "tun", t |-> t, f |-> f, e |-> e]
LikeXE(f, e, toks, neg) == [op |-> "likex", f |-> f, e |-> e, toks |-> toks, neg |-> neg]
RegexE(f, e, re) == [op |-> "regex", f |-> f, e |-> e, re |-> re]
StartsWithE(e, pre) == [op |-> "startswith", e |-> e, pre |-> pre]
NvlE(l, r) == [op |-> "nvl", l |-> l, r |-> r]
=============================================================================
