-------------------------------- MODULE Expr --------------------------------
(***************************************************************************)
(* Reference semantics of scalar SQL expressions (row-by-row, three-valued  *)
(* logic), independent of the engine.  Expressions are AST records (see     *)
(* AST.md); values are spec/lib/Values records.  Evaluation returns a value *)
(* or the poison value Err (division by zero).  CASE and COALESCE are lazy  *)
(* (an error in a branch no row selects must not surface); every other      *)
(* operator propagates Err strictly - the verdict rule is: where the        *)
(* reference says Err the engine may fail or succeed, where it does not the *)
(* engine must return exactly this value.                                   *)
(***************************************************************************)
EXTENDS Tri

Abs(n) == IF n < 0 THEN 0 - n ELSE n
Sign(n) == IF n < 0 THEN 0 - 1 ELSE 1
\* SQL integer division truncates toward zero; remainder takes the sign of the dividend
TruncDiv(a, b) == Sign(a) * Sign(b) * (Abs(a) \div Abs(b))
TruncRem(a, b) == a - b * TruncDiv(a, b)

Arith(f, x, y) ==
  IF IsErr(x) \/ IsErr(y) THEN Err
  ELSE IF IsNull(x) \/ IsNull(y) THEN Null
  ELSE CASE f = "+" -> I(x.v + y.v)
         [] f = "-" -> I(x.v - y.v)
         [] f = "*" -> I(x.v * y.v)
         [] f = "/" -> IF y.v = 0 THEN Err ELSE I(TruncDiv(x.v, y.v))
         [] f = "%" -> IF y.v = 0 THEN Err ELSE I(TruncRem(x.v, y.v))

IsCmp(f) == f \in {"=", "<>", "<", "<=", ">", ">="}
IsArith(f) == f \in {"+", "-", "*", "/", "%"}

ApplyBin(f, x, y) ==
  IF IsArith(f) THEN Arith(f, x, y)
  ELSE IF IsCmp(f) THEN Cmp(f, x, y)
  ELSE CASE f = "and" -> And3(x, y)
         [] f = "or"  -> Or3(x, y)
         [] f = "isdistinct" -> IsDistinctFrom(x, y)
         [] f = "isnotdistinct" -> IsNotDistinctFrom(x, y)

ApplyUn(f, x) ==
  IF IsErr(x) THEN Err
  ELSE CASE f = "not" -> Not3(x)
         [] f = "neg" -> IF IsNull(x) THEN Null ELSE I(0 - x.v)
         [] f = "abs" -> IF IsNull(x) THEN Null ELSE I(Abs(x.v))
         [] f = "isnull" -> B(IsNull(x))
         [] f = "isnotnull" -> B(~IsNull(x))
         [] f = "istrue" -> B(IsTrue(x))
         [] f = "isfalse" -> B(IsFalse(x))
         [] f = "isnottrue" -> B(~IsTrue(x))
         [] f = "isnotfalse" -> B(~IsFalse(x))
         [] f = "isunknown" -> B(IsNull(x))
         [] f = "isnotunknown" -> B(~IsNull(x))

NullIf(x, y) == IF IsErr(x) \/ IsErr(y) THEN Err ELSE IF IsTrue(Cmp("=", x, y)) THEN Null ELSE x
Between(x, lo, hi, neg) ==
  LET r == And3(Cmp(">=", x, lo), Cmp("<=", x, hi)) IN IF neg THEN Not3(r) ELSE r

(***************************************************************************)
(* AST node shapes (field `op` selects):                                    *)
(*   [op |-> "col", i |-> n]                 n-th column of the row (1-based)*)
(*   [op |-> "lit", v |-> value]                                            *)
(*   [op |-> "bin", f |-> opname, l |-> e, r |-> e]                         *)
(*   [op |-> "un", f |-> opname, e |-> e]                                   *)
(*   [op |-> "in", e |-> e, list |-> <<e,...>>, neg |-> BOOLEAN]            *)
(*   [op |-> "between", e |-> e, lo |-> e, hi |-> e, neg |-> BOOLEAN]       *)
(*   [op |-> "case", whens |-> <<<<cond, then>>,...>>, else |-> e]          *)
(*        (searched CASE; no ELSE is written as else = lit Null)            *)
(*   [op |-> "coalesce", args |-> <<e,...>>]                                *)
(*   [op |-> "nullif", l |-> e, r |-> e]                                    *)
(***************************************************************************)
(***************************************************************************)
(* Additional nodes (added for C33/C04; existing nodes are unchanged):      *)
(*   [op |-> "like", f |-> "like"|"ilike"|"similar"|"isimilar",             *)
(*          e |-> e, pat |-> e, neg |-> BOOLEAN]                            *)
(*        `pat` evaluates to a pattern value [k |-> "p", v |-> index into   *)
(*        PatPool] or NULL; strings are PoolChars[index]                    *)
(*   [op |-> "casex", e |-> e, whens |-> <<<<value, then>>,...>>, else |-> e]*)
(*        simple CASE: first WHEN whose value = operand is TRUE             *)
(*   [op |-> "cast", to |-> kind, try |-> BOOLEAN, e |-> e]                 *)
(*        kind in "i8","i16","i32","i","b" (integer widths / boolean);      *)
(*        out of range: ERR (CAST) or NULL (TRY_CAST)                       *)
(*   [op |-> "tbin", t |-> kind, f |-> "+"|"-"|"*"|"/"|"%", l |-> e, r |-> e]*)
(*   [op |-> "tun", t |-> kind, f |-> "neg"|"abs", e |-> e]                 *)
(*        checked integer arithmetic in width t: a result outside the       *)
(*        width is ERR (so is MIN % -1, whose quotient overflows)           *)
(* Typed literals are [op |-> "lit", v |-> value, t |-> kind].              *)
(***************************************************************************)
\* characters: 1 = a, 2 = b; pattern tokens: 1 a, 2 b, 3 %, 4 _, 5 A, 6 B, 7 \ (escape), 8 | (SIMILAR TO only)
PoolChars == << <<1>>, <<1, 2>>, <<2>> >>
PatPool == << <<3>>, <<4>>, <<1, 3>>, <<3, 2>>, <<1, 4>>, <<4, 2>>, <<>>, <<1, 2>>, <<3, 1, 3>>, <<4, 4>>,
              <<1, 3, 2>>, <<5, 3>>, <<3, 6>>, <<1>>, <<4, 3>>, <<3, 4>>, <<5, 6>>, <<2, 3>>,
              <<1, 7, 3>>, <<7, 1, 3>>, <<7, 4>>, <<3, 3>>, <<4, 4, 4>>,
              <<1, 8, 2>>, <<1, 2, 8, 3, 2>>, <<5, 8, 4, 2>> >>
NPatLike == 23      \* patterns 1..NPatLike are LIKE/ILIKE/SIMILAR patterns without | ; 1..18 have no escape
PatV(i) == [k |-> "p", v |-> i]
LowerTok(t) == IF t = 5 THEN 1 ELSE IF t = 6 THEN 2 ELSE t
CharEq(c, t, ci) == t \in {1, 2, 5, 6} /\ (c = t \/ (ci /\ c = LowerTok(t)))
RECURSIVE LikeMatch(_, _, _)
LikeMatch(s, p, ci) ==
  IF p = <<>> THEN s = <<>>
  ELSE IF Head(p) = 3 THEN LikeMatch(s, Tail(p), ci) \/ (s # <<>> /\ LikeMatch(Tail(s), p, ci))
  ELSE IF Head(p) = 4 THEN s # <<>> /\ LikeMatch(Tail(s), Tail(p), ci)
  ELSE IF Head(p) = 7 THEN \* escape: the next token is a literal character (% and _ never occur in the pool strings)
       Len(p) >= 2 /\ s # <<>> /\ CharEq(Head(s), p[2], ci) /\ LikeMatch(Tail(s), Tail(Tail(p)), ci)
  ELSE s # <<>> /\ CharEq(Head(s), Head(p), ci) /\ LikeMatch(Tail(s), Tail(p), ci)
\* SIMILAR TO: top-level alternation, each alternative anchored at both ends
RECURSIVE SplitAlt(_, _)
SplitAlt(p, acc) ==
  IF p = <<>> THEN <<acc>>
  ELSE IF Head(p) = 8 THEN <<acc>> \o SplitAlt(Tail(p), <<>>)
  ELSE SplitAlt(Tail(p), Append(acc, Head(p)))
SimilarMatch(s, p, ci) == LET alts == SplitAlt(p, <<>>) IN \E i \in 1..Len(alts) : LikeMatch(s, alts[i], ci)
LikeVal(f, x, p, neg) ==
  IF IsErr(x) \/ IsErr(p) THEN Err
  ELSE IF IsNull(x) \/ IsNull(p) THEN Null
  ELSE LET ci == f \in {"ilike", "isimilar"}
           m == IF f \in {"similar", "isimilar"} THEN SimilarMatch(PoolChars[x.v], PatPool[p.v], ci)
                ELSE LikeMatch(PoolChars[x.v], PatPool[p.v], ci) IN
       B(m # neg)

KindLo(k) == CASE k = "i8" -> 0 - 128 [] k = "i16" -> 0 - 32768 [] OTHER -> 0 - 2147483647
KindHi(k) == CASE k = "i8" -> 127 [] k = "i16" -> 32767 [] OTHER -> 2147483647
\* "i32" and "i" (Int64) values are kept far inside TLC's 32-bit integers by the generators
InKind(k, n) == k \in {"i", "i32"} \/ (n >= KindLo(k) /\ n <= KindHi(k))
CastV(to, try, x) ==
  IF IsErr(x) THEN Err
  ELSE IF IsNull(x) THEN Null
  ELSE IF to = "b" THEN (IF x.k = "b" THEN x ELSE IF x.k = "i" THEN B(x.v # 0) ELSE IF try THEN Null ELSE Err)
  ELSE \* integer target
    IF x.k = "b" THEN I(x.v)
    ELSE IF x.k = "i" THEN (IF InKind(to, x.v) THEN x ELSE IF try THEN Null ELSE Err)
    ELSE IF try THEN Null ELSE Err       \* the pool strings are not numerals
TArith(t, f, x, y) ==
  LET r == Arith(f, x, y) IN
  IF r.k # "i" THEN r
  ELSE IF ~InKind(t, r.v) THEN Err
  ELSE IF f \in {"/", "%"} /\ t \in {"i8", "i16"} /\ x.v = KindLo(t) /\ y.v = 0 - 1 THEN Err
  ELSE r
TUn(t, f, x) ==
  IF IsErr(x) THEN Err ELSE IF IsNull(x) THEN Null
  ELSE LET n == IF f = "neg" THEN 0 - x.v ELSE Abs(x.v) IN IF InKind(t, n) THEN I(n) ELSE Err

RECURSIVE Eval(_, _), EvalCase(_, _, _), EvalCoalesce(_, _), EvalCaseX(_, _, _, _)

EvalCase(whens, els, row) ==
  IF whens = <<>> THEN Eval(els, row)
  ELSE LET c == Eval(Head(whens)[1], row) IN
       IF IsErr(c) THEN Err
       ELSE IF IsTrue(c) THEN Eval(Head(whens)[2], row)
       ELSE EvalCase(Tail(whens), els, row)

\* simple CASE: x = operand value (evaluated once); a NULL operand matches no WHEN
EvalCaseX(x, whens, els, row) ==
  IF IsErr(x) THEN Err
  ELSE IF whens = <<>> THEN Eval(els, row)
  ELSE LET c == Cmp("=", x, Eval(Head(whens)[1], row)) IN
       IF IsErr(c) THEN Err
       ELSE IF IsTrue(c) THEN Eval(Head(whens)[2], row)
       ELSE EvalCaseX(x, Tail(whens), els, row)

EvalCoalesce(args, row) ==
  IF args = <<>> THEN Null
  ELSE LET x == Eval(Head(args), row) IN
       IF IsNull(x) THEN EvalCoalesce(Tail(args), row) ELSE x

Eval(e, row) ==
  CASE e.op = "col" -> row[e.i]
    [] e.op = "lit" -> e.v
    [] e.op = "bin" -> ApplyBin(e.f, Eval(e.l, row), Eval(e.r, row))
    [] e.op = "un"  -> ApplyUn(e.f, Eval(e.e, row))
    [] e.op = "in"  -> LET r == In3(Eval(e.e, row), [i \in 1..Len(e.list) |-> Eval(e.list[i], row)])
                       IN IF e.neg THEN Not3(r) ELSE r
    [] e.op = "between" -> Between(Eval(e.e, row), Eval(e.lo, row), Eval(e.hi, row), e.neg)
    [] e.op = "case" -> EvalCase(e.whens, e.else, row)
    [] e.op = "coalesce" -> EvalCoalesce(e.args, row)
    [] e.op = "nullif" -> NullIf(Eval(e.l, row), Eval(e.r, row))
    [] e.op = "like" -> LikeVal(e.f, Eval(e.e, row), Eval(e.pat, row), e.neg)
    [] e.op = "casex" -> EvalCaseX(Eval(e.e, row), e.whens, e.else, row)
    [] e.op = "cast" -> CastV(e.to, e.try, Eval(e.e, row))
    [] e.op = "tbin" -> TArith(e.t, e.f, Eval(e.l, row), Eval(e.r, row))
    [] e.op = "tun" -> TUn(e.t, e.f, Eval(e.e, row))

\* constructors (used by generators)
Col(i) == [op |-> "col", i |-> i]
Lit(v) == [op |-> "lit", v |-> v]
Bin(f, l, r) == [op |-> "bin", f |-> f, l |-> l, r |-> r]
Un(f, e) == [op |-> "un", f |-> f, e |-> e]
InList(e, list, neg) == [op |-> "in", e |-> e, list |-> list, neg |-> neg]
BetweenE(e, lo, hi, neg) == [op |-> "between", e |-> e, lo |-> lo, hi |-> hi, neg |-> neg]
CaseE(whens, els) == [op |-> "case", whens |-> whens, else |-> els]
Coalesce(args) == [op |-> "coalesce", args |-> args]
NullIfE(l, r) == [op |-> "nullif", l |-> l, r |-> r]
LitK(v, k) == [op |-> "lit", v |-> v, t |-> k]
LikeE(f, e, pat, neg) == [op |-> "like", f |-> f, e |-> e, pat |-> pat, neg |-> neg]
CaseXE(e, whens, els) == [op |-> "casex", e |-> e, whens |-> whens, else |-> els]
CastE(to, try, e) == [op |-> "cast", to |-> to, try |-> try, e |-> e]
TBin(t, f, l, r) == [op |-> "tbin", t |-> t, f |-> f, l |-> l, r |-> r]
TUnE(t, f, e) == [op |-> "tun", t |-> t, f |-> f, e |-> e]
=============================================================================
