------------------------------ MODULE OrderTrace ------------------------------
(* C34: "scalar ordering is a consistent total order that agrees with the       *)
(* engine's ascending sort with NULLs first".  One event per value pool of one  *)
(* type: cmp = matrix of ScalarValue::partial_cmp (-1, 0, 1; 2 = None),         *)
(* rows = matrix of compare_rows (ASC NULLS FIRST; 3 = error), sort = the       *)
(* permutation returned by the engine's ascending NULLS FIRST sort, isnull.     *)
(* The event is accepted iff ONE total preorder explains every observation:     *)
(* cmp is total, reflexive, antisymmetric and transitive, compare_rows reports  *)
(* the same relation, and the sort permutation is a linear extension of it      *)
(* with every NULL before every non-NULL value.                                 *)
EXTENDS Integers, Sequences, FiniteSets, TLC, Json, IOUtils

Events == ndJsonDeserialize(IOEnv.TRACE)

Bad(e) ==
  LET N == 1..e.n
      c == e.cmp
      pos(i) == CHOOSE k \in N : e.sort[k] = i
  IN
  IF \E i \in N, j \in N : c[i][j] \notin {-1, 0, 1} THEN <<"partial_cmp is not total", CHOOSE p \in N \X N : c[p[1]][p[2]] \notin {-1, 0, 1}>>
  ELSE IF \E i \in N : c[i][i] # 0 THEN <<"not reflexive", <<CHOOSE i \in N : c[i][i] # 0, 0>>>>
  ELSE IF \E i \in N, j \in N : c[i][j] # -c[j][i] THEN <<"not antisymmetric", CHOOSE p \in N \X N : c[p[1]][p[2]] # -c[p[2]][p[1]]>>
  ELSE IF \E i \in N, j \in N, k \in N : c[i][j] <= 0 /\ c[j][k] <= 0 /\ (c[i][k] > 0 \/ (c[i][k] = 0 /\ (c[i][j] < 0 \/ c[j][k] < 0)))
       THEN <<"not transitive", CHOOSE p \in N \X N : \E j \in N : c[p[1]][j] <= 0 /\ c[j][p[2]] <= 0 /\
                                      (c[p[1]][p[2]] > 0 \/ (c[p[1]][p[2]] = 0 /\ (c[p[1]][j] < 0 \/ c[j][p[2]] < 0)))>>
  ELSE IF \E i \in N, j \in N : e.rows[i][j] # c[i][j] THEN <<"compare_rows disagrees with partial_cmp", CHOOSE p \in N \X N : e.rows[p[1]][p[2]] # c[p[1]][p[2]]>>
  ELSE IF {e.sort[k] : k \in N} # N THEN <<"sort result is not a permutation", <<0, 0>>>>
  ELSE IF \E k \in 1..(e.n - 1) : c[e.sort[k]][e.sort[k + 1]] > 0
       THEN <<"ascending sort contradicts partial_cmp", LET k == CHOOSE k \in 1..(e.n - 1) : c[e.sort[k]][e.sort[k + 1]] > 0 IN <<e.sort[k], e.sort[k + 1]>>>>
  ELSE IF \E i \in N, j \in N : e.isnull[i] /\ ~e.isnull[j] /\ pos(i) > pos(j)
       THEN <<"a NULL is sorted after a value", CHOOSE p \in N \X N : e.isnull[p[1]] /\ ~e.isnull[p[2]] /\ pos(p[1]) > pos(p[2])>>
  ELSE <<"", <<0, 0>>>>

Verdict(e) == LET b == Bad(e) IN [ty |-> e.ty, ok |-> (b[1] = ""), why |-> b[1], i |-> b[2][1], j |-> b[2][2]]

VARIABLE n
Init == n \in 1..Len(Events)
Next == UNCHANGED n
Spec == Init /\ [][Next]_n
Emit == PrintT(<<"CASE", ToJson(Verdict(Events[n]))>>)
=============================================================================
