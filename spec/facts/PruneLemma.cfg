CONSTANT K = 40
SPECIFICATION Spec
INVARIANT FirstLemma
CHECK_DEADLOCK FALSE
