------------------------------ MODULE FuncTrace ------------------------------
(* Validator for "the observations are consistent with a function of the      *)
(* logical input".  A run is the sequence of Call events recorded for one     *)
(* function f (e.g. create_hashes for one tuple of key types and one random   *)
(* state): [i |-> logical input token, o |-> output token].  The state        *)
(* machine keeps a memo seen : input -> output; Call(e) is enabled iff        *)
(* e.i is new (then recorded) or seen[e.i] = e.o.  A run is accepted iff the  *)
(* machine consumes it completely; otherwise the verdict names the first      *)
(* event it cannot take and the earlier event that contradicts it.            *)
(* (first = 0: an identity-law run whose event `at` has output # input.)      *)
EXTENDS Integers, Sequences, TLC, Json, IOUtils

Runs == ndJsonDeserialize(IOEnv.TRACE)

\* the state machine, run deterministically over one recorded run
RECURSIVE Consume(_, _, _)
Consume(evs, k, seen) ==
  IF k > Len(evs) THEN 0
  ELSE LET e == evs[k] IN
       IF e.i \in DOMAIN seen THEN (IF seen[e.i] = e.o THEN Consume(evs, k + 1, seen) ELSE k)
       ELSE Consume(evs, k + 1, seen @@ (e.i :> e.o))
EmptyMemo == [x \in {} |-> ""]

\* runs recorded for an identity law (round trips: the output must be the input itself) carry law = "identity"
IdentityBad(run) == IF "law" \in DOMAIN run /\ run.law = "identity" /\ \E k \in 1..Len(run.ev) : run.ev[k].i # run.ev[k].o
                    THEN CHOOSE k \in 1..Len(run.ev) : run.ev[k].i # run.ev[k].o /\ \A k2 \in 1..(k - 1) : run.ev[k2].i = run.ev[k2].o
                    ELSE 0

Verdict(run) ==
  LET bad == Consume(run.ev, 1, EmptyMemo) IN
  IF IdentityBad(run) # 0 THEN [f |-> run.f, ok |-> FALSE, at |-> IdentityBad(run), first |-> 0]
  ELSE IF bad = 0 THEN [f |-> run.f, ok |-> TRUE, at |-> 0, first |-> 0]
  ELSE [f |-> run.f, ok |-> FALSE, at |-> bad,
        first |-> CHOOSE j \in 1..(bad - 1) : run.ev[j].i = run.ev[bad].i /\ \A j2 \in 1..(bad - 1) : run.ev[j2].i = run.ev[bad].i => j2 >= j]

VARIABLE n
Init == n \in 1..Len(Runs)
Next == UNCHANGED n
Spec == Init /\ [][Next]_n
Emit == PrintT(<<"CASE", ToJson(Verdict(Runs[n]))>>)
=============================================================================
