-------------------------------- MODULE Prune --------------------------------
(***************************************************************************)
(* C22 - statistics-based pruning.                                          *)
(*                                                                         *)
(* A container is a bag of rows over 1-2 columns; a column of a container  *)
(* with n rows is a vector 1..n -> Dom(type).  Statistics describe a       *)
(* container column by column: min / max bound the non-NULL values, the    *)
(* NULL count and the row count are exact, a membership set (what a bloom  *)
(* filter knows) lists the only non-NULL values that may occur; every      *)
(* statistic may independently be unknown.  Because validity is a          *)
(* conjunction over columns, the set of admissible containers with n rows  *)
(* is the product of the admissible column vectors, and that set is closed *)
(* under permutation of rows - so "some admissible container has a row on  *)
(* which the predicate is TRUE" is decided by enumerating every admissible *)
(* column vector and looking at its first position (lemma FirstLemma,      *)
(* model-checked by PruneLemma.cfg).                                       *)
(* Predicates are Expr.tla ASTs plus LIKE (over the string pool) and       *)
(* value-preserving casts.                                                 *)
(***************************************************************************)
EXTENDS Expr, TLC

\* the harness string pool, as character codes a=1 b=2 c=3; index order = lexicographic order
StrPool == << <<>>, <<1>>, <<1, 2>>, <<1, 2, 3>>, <<1, 3>>, <<2>>, <<2, 1>>, <<3>> >>
PCT == 100   \* %
USC == 101   \* _
ESC == 102   \* backslash: the next pattern character is literal
\* the literal characters '%', '_' and backslash do not occur in the pool (codes 4, 5, 6)
LitOf(c) == IF c = PCT THEN 4 ELSE IF c = USC THEN 5 ELSE IF c = ESC THEN 6 ELSE c
RECURSIVE Match(_, _)
Match(s, p) ==
  IF p = <<>> THEN s = <<>>
  ELSE IF Head(p) = ESC THEN
       (IF Len(p) >= 2 THEN s # <<>> /\ Head(s) = LitOf(p[2]) /\ Match(Tail(s), Tail(Tail(p)))
        ELSE s # <<>> /\ Head(s) = 6 /\ Match(Tail(s), <<>>))
  ELSE IF Head(p) = PCT THEN Match(s, Tail(p)) \/ (s # <<>> /\ Match(Tail(s), p))
  ELSE s # <<>> /\ (Head(p) = USC \/ Head(p) = Head(s)) /\ Match(Tail(s), Tail(p))
LikeV(x, pat, neg) ==
  IF IsErr(x) THEN Err ELSE IF IsNull(x) THEN Null
  ELSE LET m == Match(StrPool[x.v], pat) IN B(IF neg THEN ~m ELSE m)

RECURSIVE LexLt(_, _)
LexLt(s, t) == IF t = <<>> THEN FALSE ELSE IF s = <<>> THEN TRUE
               ELSE Head(s) < Head(t) \/ (Head(s) = Head(t) /\ LexLt(Tail(s), Tail(t)))
ASSUME \A i \in 1..(Len(StrPool) - 1) : LexLt(StrPool[i], StrPool[i + 1])

\* predicate evaluation: Expr.tla operators + like + cast (value preserving in this scope)
RECURSIVE PEval(_, _)
PEval(e, row) ==
  CASE e.op = "col" -> row[e.i]
    [] e.op = "lit" -> e.v
    [] e.op = "bin" -> ApplyBin(e.f, PEval(e.l, row), PEval(e.r, row))
    [] e.op = "un" -> ApplyUn(e.f, PEval(e.e, row))
    [] e.op = "in" -> LET r == In3(PEval(e.e, row), [j \in 1..Len(e.list) |-> PEval(e.list[j], row)])
                      IN IF e.neg THEN Not3(r) ELSE r
    [] e.op = "like" -> LikeV(PEval(e.e, row), e.pat, e.neg)
    [] e.op = "cast" -> PEval(e.e, row)

MAXN == 3
Dom(ty) == CASE ty = "i" -> {Null} \cup {I(n) : n \in -2..3}
             [] ty = "s" -> {Null} \cup {S(n) : n \in 1..Len(StrPool)}
             [] ty = "b" -> {Null, B(TRUE), B(FALSE)}
Vectors(ty, n) == [1..n -> Dom(ty)]

SeqSet(s) == {s[j] : j \in 1..Len(s)}
\* column statistics st = [minK, min, maxK, max, ncK, nc, kK, kset]
ColValid(st, v, n) ==
  LET nn == {j \in 1..n : ~IsNull(v[j])} IN
  /\ st.minK => \A j \in nn : v[j].v >= st.min.v
  /\ st.maxK => \A j \in nn : v[j].v <= st.max.v
  /\ st.ncK => n - Cardinality(nn) = st.nc
  /\ st.kK => \A j \in nn : v[j] \in SeqSet(st.kset)
ValidVectors(ty, st, n) == {v \in Vectors(ty, n) : ColValid(st, v, n)}
Firsts(ty, st, n) == {v[1] : v \in ValidVectors(ty, st, n)}

\* stats = [cols |-> <<st1, st2>>, rcK, rc]; tys = column types
Ns(stats) == IF stats.rcK THEN {stats.rc} \cap (1..MAXN) ELSE 1..MAXN
Second(tys, stats, n) == IF Len(tys) >= 2 THEN Firsts(tys[2], stats.cols[2], n) ELSE {Null}
\* some admissible container has a row on which the predicate is TRUE
AnyMatchAdmissible(pred, tys, stats) ==
  \E n \in Ns(stats) : \E x \in Firsts(tys[1], stats.cols[1], n) : \E y \in Second(tys, stats, n) :
     IsTrue(PEval(pred, <<x, y>>))
\* a witness container (sequence of rows) when one exists
Witness(pred, tys, stats) ==
  LET n == CHOOSE n \in Ns(stats) : \E x \in Firsts(tys[1], stats.cols[1], n) : \E y \in Second(tys, stats, n) :
                                       IsTrue(PEval(pred, <<x, y>>))
      x == CHOOSE x \in Firsts(tys[1], stats.cols[1], n) : \E y \in Second(tys, stats, n) : IsTrue(PEval(pred, <<x, y>>))
      y == CHOOSE y \in Second(tys, stats, n) : IsTrue(PEval(pred, <<x, y>>))
      v1 == CHOOSE v \in ValidVectors(tys[1], stats.cols[1], n) : v[1] = x
      v2 == IF Len(tys) >= 2 THEN CHOOSE v \in ValidVectors(tys[2], stats.cols[2], n) : v[1] = y
            ELSE [j \in 1..n |-> Null]
  IN [j \in 1..n |-> <<v1[j], v2[j]>>]

\* the definition without the symmetry argument (used by the lemma check only)
AnyMatchFull(pred, tys, stats) ==
  \E n \in Ns(stats) : \E v1 \in ValidVectors(tys[1], stats.cols[1], n) :
    \E v2 \in (IF Len(tys) >= 2 THEN ValidVectors(tys[2], stats.cols[2], n) ELSE {[j \in 1..n |-> Null]}) :
      \E j \in 1..n : IsTrue(PEval(pred, <<v1[j], v2[j]>>))

\* literal guarantee g = [col, kind ("in" | "notin"), lits]: holds on a row
GuaranteeHolds(g, row) ==
  LET x == row[g.col] IN
  IF g.kind = "in" THEN ~IsNull(x) /\ x \in SeqSet(g.lits)
  ELSE IsNull(x) \/ x \notin SeqSet(g.lits)
RowDom(tys) == IF Len(tys) >= 2 THEN Dom(tys[1]) \X Dom(tys[2]) ELSE Dom(tys[1]) \X {Null}
=============================================================================
