---------------------------- MODULE IntervalRules ----------------------------
(* Design-level check for C23: a transcription of the *rules* by which the    *)
(* interval library computes its results (endpoint arithmetic with overflow   *)
(* handling, the sign-case analysis of multiplication, the comparison rules,  *)
(* intersection, satisfy_greater with its open-bound adjustments, comparison  *)
(* propagation), checked against the value-level meaning of Interval.tla for  *)
(* ALL pairs of intervals of a 3/4-bit type (signed "t3"/"t4", unsigned       *)
(* "w3"/"w4"), unbounded ends included.                                       *)
(* FAITHFUL = TRUE mirrors interval_arithmetic.rs / cp_solver.rs at the       *)
(* pinned commit where they deviate from the intended rule (known findings:   *)
(* overflowed corner in mul, swapped tuple under a certainly-false parent);   *)
(* with FAITHFUL = FALSE (the intended rules) every invariant must hold.      *)
EXTENDS Interval, TLC
CONSTANTS TY, FAITHFUL

Unsigned == TMin(TY) = 0
Nul == [n |-> TRUE, v |-> 0]
Bd(v) == [n |-> FALSE, v |-> v]
LoB(I) == IF I.lu THEN Nul ELSE Bd(I.lo)
HiB(I) == IF I.hu THEN Nul ELSE Bd(I.hi)
\* Interval::new : an unsigned NULL lower bound is standardised to 0
MkIv(l, u) == Iv(TY, l.n /\ ~Unsigned, IF l.n THEN 0 ELSE l.v, u.n, IF u.n THEN 0 ELSE u.v)

\* handle_overflow: unbounded when the overflow goes in the direction of the bound, else the opposite extreme
HandleOverflow(upper, op, x, y) ==
  LET pos == CASE op = "mul" -> (x < 0 /\ y < 0) \/ (x > 0 /\ y > 0)
               [] op = "add" -> x >= 0
               [] op = "sub" -> x >= y
  IN IF upper = pos THEN Nul ELSE IF upper THEN Bd(TMin(TY)) ELSE Bd(TMax(TY))
ArB(upper, op, x, y) ==
  IF x.n \/ y.n THEN Nul
  ELSE LET v == CASE op = "add" -> x.v + y.v [] op = "sub" -> x.v - y.v [] op = "mul" -> x.v * y.v
       IN IF Rep(TY, v) THEN Bd(v) ELSE HandleOverflow(upper, op, x.v, y.v)

\* min_of_bounds reads NULL as +inf, max_of_bounds reads NULL as -inf (right for upper resp. lower bounds)
MinOfBounds(f, s) == IF ~f.n /\ (s.n \/ f.v <= s.v) THEN f ELSE s
MaxOfBounds(f, s) == IF ~f.n /\ (s.n \/ f.v >= s.v) THEN f ELSE s
\* the same for a *lower* bound computed as a minimum (NULL = -inf) / an *upper* bound computed as a maximum
LowerMin(f, s) == IF FAITHFUL THEN MinOfBounds(f, s) ELSE IF f.n \/ s.n THEN Nul ELSE MinOfBounds(f, s)
UpperMax(f, s) == IF FAITHFUL THEN MaxOfBounds(f, s) ELSE IF f.n \/ s.n THEN Nul ELSE MaxOfBounds(f, s)

Add(A, B) == MkIv(ArB(FALSE, "add", LoB(A), LoB(B)), ArB(TRUE, "add", HiB(A), HiB(B)))
Sub(A, B) == MkIv(ArB(FALSE, "sub", LoB(A), HiB(B)), ArB(TRUE, "sub", HiB(A), LoB(B)))

ContainsZero(I) == (I.lu \/ I.lo <= 0) /\ (I.hu \/ 0 <= I.hi)
UpLeZero(I) == ~I.hu /\ I.hi <= 0
MulB(u, x, y) == ArB(u, "mul", x, y)
MulMultiZero(A, B) ==
  IF A.lu \/ A.hu \/ B.lu \/ B.hu THEN MkIv(Nul, Nul)
  ELSE MkIv(LowerMin(MulB(FALSE, LoB(A), HiB(B)), MulB(FALSE, LoB(B), HiB(A))),
            UpperMax(MulB(TRUE, HiB(A), HiB(B)), MulB(TRUE, LoB(A), LoB(B))))
MulSingleZero(L, R) ==
  IF UpLeZero(R) THEN MkIv(MulB(FALSE, HiB(L), LoB(R)), MulB(TRUE, LoB(L), LoB(R)))
  ELSE MkIv(MulB(FALSE, LoB(L), HiB(R)), MulB(TRUE, HiB(L), HiB(R)))
MulExclusive(L, R) ==
  CASE UpLeZero(L) /\ UpLeZero(R) -> MkIv(MulB(FALSE, HiB(L), HiB(R)), MulB(TRUE, LoB(L), LoB(R)))
    [] UpLeZero(L) /\ ~UpLeZero(R) -> MkIv(MulB(FALSE, LoB(L), HiB(R)), MulB(TRUE, HiB(L), LoB(R)))
    [] ~UpLeZero(L) /\ UpLeZero(R) -> MkIv(MulB(FALSE, LoB(R), HiB(L)), MulB(TRUE, HiB(R), LoB(L)))
    [] OTHER -> MkIv(MulB(FALSE, LoB(L), LoB(R)), MulB(TRUE, HiB(L), HiB(R)))
Mul(A, B) ==
  IF Unsigned THEN MulExclusive(A, B)
  ELSE IF ContainsZero(A) /\ ContainsZero(B) THEN MulMultiZero(A, B)
  ELSE IF ContainsZero(A) THEN MulSingleZero(A, B)
  ELSE IF ContainsZero(B) THEN MulSingleZero(B, A)
  ELSE MulExclusive(A, B)

Gt(A, B) ==
  IF ~(A.hu \/ B.lu) /\ A.hi <= B.lo THEN BFalse
  ELSE IF ~(A.lu \/ B.hu) /\ A.lo > B.hi THEN BTrue ELSE BAny
GtEq(A, B) ==
  IF ~(A.lu \/ B.hu) /\ A.lo >= B.hi THEN BTrue
  ELSE IF ~(A.hu \/ B.lu) /\ A.hi < B.lo THEN BFalse ELSE BAny
Disjoint(A, B) == (~(A.lu \/ B.hu) /\ A.lo > B.hi) \/ (~(A.hu \/ B.lu) /\ A.hi < B.lo)
Intersect(A, B) == MkIv(MaxOfBounds(LoB(A), LoB(B)), MinOfBounds(HiB(A), HiB(B)))
Single(I) == ~I.lu /\ ~I.hu /\ I.lo = I.hi
Equal(A, B) ==
  IF Single(A) /\ Single(B) /\ A.lo = B.lo THEN BTrue ELSE IF Disjoint(A, B) THEN BFalse ELSE BAny

\* next_value / prev_value: stepping over the end of the type gives an unbounded endpoint
NextV(b) == IF b.n THEN b ELSE IF b.v = TMax(TY) THEN Nul ELSE Bd(b.v + 1)
PrevV(b) == IF b.n THEN b ELSE IF b.v = TMin(TY) THEN Nul ELSE Bd(b.v - 1)
\* b1 <= b2 as ScalarValue compares them: NULL is smaller than every value
LeqSV(x, y) == IF x.n THEN TRUE ELSE IF y.n THEN FALSE ELSE x.v <= y.v

\* satisfy_greater(left, right, strict): <<feasible, left', right'>>
SatisfyGreater(L, R, strict) ==
  IF ~L.hu /\ ~R.lu /\ L.hi <= R.lo
  THEN IF ~strict /\ L.hi = R.lo THEN <<TRUE, MkIv(HiB(L), HiB(L)), MkIv(HiB(L), HiB(L))>> ELSE <<FALSE, L, R>>
  ELSE
    LET nll == IF L.lu \/ LeqSV(LoB(L), LoB(R)) THEN (IF strict THEN NextV(LoB(R)) ELSE LoB(R)) ELSE LoB(L)
        nru == IF R.hu \/ (~L.hu /\ LeqSV(HiB(L), HiB(R))) THEN (IF strict THEN PrevV(HiB(L)) ELSE HiB(L)) ELSE HiB(R)
    IN <<TRUE, MkIv(nll, HiB(L)), MkIv(LoB(R), nru)>>
Rev(t) == <<t[1], t[3], t[2]>>
\* propagate_comparison under a certainly true / certainly false parent: <<feasible, left', right'>>
PropCmp(op, parentTrue, L, R) ==
  IF parentTrue THEN
    CASE op = "gt" -> SatisfyGreater(L, R, TRUE)
      [] op = "gt_eq" -> SatisfyGreater(L, R, FALSE)
      [] op = "lt" -> Rev(SatisfyGreater(R, L, TRUE))
      [] op = "lt_eq" -> Rev(SatisfyGreater(R, L, FALSE))
  ELSE IF FAITHFUL THEN
    CASE op = "gt" -> SatisfyGreater(R, L, FALSE)
      [] op = "gt_eq" -> SatisfyGreater(R, L, TRUE)
      [] op = "lt" -> Rev(SatisfyGreater(L, R, FALSE))
      [] op = "lt_eq" -> Rev(SatisfyGreater(L, R, TRUE))
  ELSE
    CASE op = "gt" -> Rev(SatisfyGreater(R, L, FALSE))
      [] op = "gt_eq" -> Rev(SatisfyGreater(R, L, TRUE))
      [] op = "lt" -> SatisfyGreater(L, R, FALSE)
      [] op = "lt_eq" -> SatisfyGreater(L, R, TRUE)

-----------------------------------------------------------------------------
Ends == TMin(TY)..TMax(TY)
AllIvs == {I \in [ty : {TY}, lu : BOOLEAN, lo : Ends, hu : BOOLEAN, hi : Ends] :
             /\ (I.lu => I.lo = TMin(TY)) /\ (I.hu => I.hi = TMin(TY))
             /\ ((~I.lu /\ ~I.hu) => I.lo <= I.hi)
             /\ (Unsigned => ~I.lu)}

\* one initial state per A; its successors (one per B) are generated and checked by the worker threads
VARIABLES A, B, ph
Init == A \in AllIvs /\ B = A /\ ph = 0
Next == ph = 0 /\ ph' = 1 /\ A' = A /\ B' \in AllIvs
Spec == Init /\ [][Next]_<<A, B, ph>>

None3 == <<0, 0, 0>>
WellFormed(R) == R.lu \/ R.hu \/ R.lo <= R.hi
AddSound == ph = 1 => BinBad("add", A, B, Add(A, B)) = None3
SubSound == ph = 1 => BinBad("sub", A, B, Sub(A, B)) = None3
MulSound == ph = 1 => BinBad("mul", A, B, Mul(A, B)) = None3
GtSound == ph = 1 => (BinBad("gt", A, B, Gt(A, B)) = None3 /\ BinBad("lt", B, A, Gt(A, B)) = None3)
GtEqSound == ph = 1 => (BinBad("gt_eq", A, B, GtEq(A, B)) = None3 /\ BinBad("lt_eq", B, A, GtEq(A, B)) = None3)
EqSound == ph = 1 => BinBad("eq", A, B, Equal(A, B)) = None3
IntersectSound ==
  ph = 1 => (IF Disjoint(A, B) THEN IntersectBadNone(A, B) = None3
             ELSE WellFormed(Intersect(A, B)) /\ IntersectBad(A, B, Intersect(A, B)) = None3)
PropSound ==
  ph = 1 => (\A op \in {"gt", "gt_eq", "lt", "lt_eq"} : \A pt \in BOOLEAN :
    LET t == PropCmp(op, pt, A, B)
        P == IF pt THEN BTrue ELSE BFalse
    IN IF t[1] THEN Prop2Bad(op, "b", P, A, B, t[2], t[3]) = None3
       ELSE Prop2BadNone(op, "b", P, A, B) = None3)
=============================================================================
