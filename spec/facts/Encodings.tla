------------------------------ MODULE Encodings ------------------------------
(***************************************************************************)
(* C12 / C32 / C34 - physical encodings of a logical column.                *)
(*                                                                         *)
(* A logical column is a sequence over 0..D (0 = NULL, 1..D = index into   *)
(* the harness's typed value pool).  A recipe fixes every physical choice  *)
(* that must not matter: slicing out of a larger buffer (garbage before /  *)
(* after), presence of a validity buffer, the garbage stored under NULL    *)
(* slots, which of several physical variants of a value is stored (-0.0 /  *)
(* +0.0, inline / out-of-line view, ...), dictionary key order, unused and *)
(* duplicate dictionary entries, NULL through a null key or through a NULL *)
(* dictionary value, run-end run boundaries, and the split into batches.   *)
(* For every physical form the module defines Decode; TLC checks the law   *)
(*      Decode(Apply(recipe, col)) = col                                   *)
(* for all columns and recipes of the scope (EncodingsLaw.cfg) and draws   *)
(* behaviours <<col, recipe1, recipe2>> for the driver (EncodingsGen.cfg). *)
(***************************************************************************)
EXTENDS Integers, Sequences, FiniteSets, TLC, Json, Randomization
CONSTANTS D, MAXLEN, K

Cols == UNION {[1..n -> 0..D] : n \in 1..MAXLEN}
Recipes == [off : 0..2, tail : 0..1, val : BOOLEAN, g : 1..D, alt : 0..1, perm : 0..1, unused : 0..1, dup : BOOLEAN,
            nullvia : {"key", "value"}, runsplit : BOOLEAN, cut : 0..2]

\* ---- plain layout: slots [v, alt]; a slot under NULL holds garbage g
Slot(v, a) == [v |-> v, alt |-> a]
Garbage(n, g, a) == [j \in 1..n |-> Slot(g, a)]
ApplyPlain(r, col) ==
  LET body == [j \in 1..Len(col) |-> IF col[j] = 0 THEN Slot(r.g, r.alt) ELSE Slot(col[j], r.alt)]
      hasNull == \E j \in 1..Len(col) : col[j] = 0
  IN [buf |-> Garbage(r.off, r.g, 0) \o body \o Garbage(r.tail, r.g, 1), off |-> r.off, len |-> Len(col),
      validity |-> hasNull \/ r.val,                      \* a validity buffer is mandatory with NULLs, optional otherwise
      valid |-> [j \in 1..Len(col) |-> col[j] # 0]]
DecodePlain(p) == [j \in 1..p.len |-> IF p.validity /\ ~p.valid[j] THEN 0 ELSE p.buf[p.off + j].v]

\* ---- dictionary layout
Distinct(col) == {col[j] : j \in 1..Len(col)} \ {0}
RECURSIVE SetToSeqAsc(_), SetToSeqDesc(_)
SetToSeqAsc(S) == IF S = {} THEN <<>> ELSE LET m == CHOOSE x \in S : \A y \in S : x <= y IN <<m>> \o SetToSeqAsc(S \ {m})
SetToSeqDesc(S) == IF S = {} THEN <<>> ELSE LET m == CHOOSE x \in S : \A y \in S : x >= y IN <<m>> \o SetToSeqDesc(S \ {m})
ApplyDict(r, col) ==
  LET base == IF r.perm = 0 THEN SetToSeqAsc(Distinct(col)) ELSE SetToSeqDesc(Distinct(col))
      withDup == IF r.dup /\ base # <<>> THEN base \o <<base[1]>> ELSE base            \* a second key for the first value
      withUnused == IF r.unused = 1 THEN <<r.g>> \o withDup ELSE withDup              \* an entry no key refers to ... or does
      vals == IF r.nullvia = "value" THEN withUnused \o <<0>> ELSE withUnused           \* NULL as a dictionary value
      KeyOf(v, j) == IF v = 0 THEN (IF r.nullvia = "value" THEN Len(vals) ELSE 0)       \* key 0 = null key
                     ELSE LET ks == {k \in 1..Len(vals) : vals[k] = v} IN
                          IF j % 2 = 0 THEN CHOOSE k \in ks : \A k2 \in ks : k >= k2 ELSE CHOOSE k \in ks : \A k2 \in ks : k <= k2
  IN [keys |-> ApplyPlain(r, [j \in 1..Len(col) |-> IF KeyOf(col[j], j) = 0 THEN 0 ELSE KeyOf(col[j], j)]), values |-> vals]
DecodeDict(p) == LET ks == DecodePlain(p.keys) IN [j \in 1..Len(ks) |-> IF ks[j] = 0 THEN 0 ELSE p.values[ks[j]]]

\* ---- run-end layout: maximal runs, optionally cut once more in the middle of the first run of length >= 2
RECURSIVE RunEnds(_, _)
RunEnds(col, j) == IF j > Len(col) THEN <<>>
                   ELSE IF j = Len(col) \/ col[j] # col[j + 1] THEN <<j>> \o RunEnds(col, j + 1) ELSE RunEnds(col, j + 1)
ApplyRee(r, col) ==
  LET ends0 == RunEnds(col, 1)
      extra == {j \in 1..(Len(col) - 1) : col[j] = col[j + 1]}
      ends == IF r.runsplit /\ extra # {} THEN SetToSeqAsc({ends0[k] : k \in 1..Len(ends0)} \cup {CHOOSE j \in extra : TRUE}) ELSE ends0
  IN [ends |-> ends, values |-> [k \in 1..Len(ends) |-> col[ends[k]]], len |-> Len(col)]
DecodeRee(p) == [j \in 1..p.len |-> p.values[CHOOSE k \in 1..Len(p.ends) : p.ends[k] >= j /\ \A k2 \in 1..Len(p.ends) : p.ends[k2] >= j => k2 >= k]]

\* ---- split into batches
ApplySplit(r, col) == LET c == IF r.cut >= Len(col) THEN 0 ELSE r.cut IN
                      IF c = 0 THEN <<col>> ELSE <<SubSeq(col, 1, c), SubSeq(col, c + 1, Len(col))>>
RECURSIVE Concat(_)
Concat(ss) == IF ss = <<>> THEN <<>> ELSE Head(ss) \o Concat(Tail(ss))

Law(col, r) ==
  /\ DecodePlain(ApplyPlain(r, col)) = col
  /\ DecodeDict(ApplyDict(r, col)) = col
  /\ DecodeRee(ApplyRee(r, col)) = col
  /\ Concat(ApplySplit(r, col)) = col
  /\ Concat([b \in 1..Len(ApplySplit(r, col)) |-> DecodePlain(ApplyPlain(r, ApplySplit(r, col)[b]))]) = col

VARIABLES col, r1, r2
vars == <<col, r1, r2>>
LawInit == col \in Cols /\ r1 \in Recipes /\ r2 = r1
GenInit == col \in RandomSubset(K, Cols) /\ r1 \in RandomSubset(3, Recipes) /\ r2 \in RandomSubset(2, Recipes)
Next == UNCHANGED vars
LawSpec == LawInit /\ [][Next]_vars
GenSpec == GenInit /\ [][Next]_vars
LawHolds == Law(col, r1)
Emit == Law(col, r1) /\ Law(col, r2) /\ PrintT(<<"CASE", ToJson([col |-> col, r1 |-> r1, r2 |-> r2])>>)
=============================================================================
