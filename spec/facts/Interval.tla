------------------------------- MODULE Interval -------------------------------
(***************************************************************************)
(* C23 - meaning of interval arithmetic over small integer types.          *)
(*                                                                         *)
(* An interval is a record [ty, lu, lo, hu, hi]: element type, "lower is   *)
(* unbounded" flag, lower endpoint, "upper is unbounded" flag, upper       *)
(* endpoint (closed).  Its meaning Mem(I) is the set of values of the      *)
(* type between the endpoints; an unbounded end reaches the end of the     *)
(* type.  Boolean intervals use ty = "b" with FALSE = 0, TRUE = 1:         *)
(* [0,0] certainly false, [1,1] certainly true, [0,1] uncertain.           *)
(*                                                                         *)
(* The module defines the concrete meaning of every operator on *values*   *)
(* (checked arithmetic of the type: a result outside the type, a division  *)
(* by zero, ... is UNDEF = "not representable") and the soundness          *)
(* obligations the property states for a computed interval.  Nothing here  *)
(* says how an implementation computes its result.                         *)
(***************************************************************************)
EXTENDS Integers, Sequences, FiniteSets

UNDEF == 2000000000

TMin(ty) == CASE ty = "i8" -> -128 [] ty = "u8" -> 0 [] ty = "i16" -> -32768 [] ty = "u16" -> 0
              [] ty = "t4" -> -8 [] ty = "w4" -> 0 [] ty = "t3" -> -4 [] ty = "w3" -> 0 [] ty = "b" -> 0
TMax(ty) == CASE ty = "i8" -> 127 [] ty = "u8" -> 255 [] ty = "i16" -> 32767 [] ty = "u16" -> 65535
              [] ty = "t4" -> 7 [] ty = "w4" -> 15 [] ty = "t3" -> 3 [] ty = "w3" -> 7 [] ty = "b" -> 1

Rep(ty, v) == TMin(ty) <= v /\ v <= TMax(ty)
Chk(ty, v) == IF Rep(ty, v) THEN v ELSE UNDEF

Iv(ty, lu, lo, hu, hi) == [ty |-> ty, lu |-> lu, lo |-> lo, hu |-> hu, hi |-> hi]
Lo(I) == IF I.lu THEN TMin(I.ty) ELSE I.lo
Hi(I) == IF I.hu THEN TMax(I.ty) ELSE I.hi
Mem(I) == Lo(I)..Hi(I)
In(v, I) == Lo(I) <= v /\ v <= Hi(I)

BTrue == Iv("b", FALSE, 1, FALSE, 1)
BFalse == Iv("b", FALSE, 0, FALSE, 0)
BAny == Iv("b", FALSE, 0, FALSE, 1)

Abs(x) == IF x < 0 THEN -x ELSE x
\* integer division of the engine's integer types truncates toward zero
TruncDiv(a, b) == IF (a >= 0) = (b > 0) THEN Abs(a) \div Abs(b) ELSE -(Abs(a) \div Abs(b))
B2I(p) == IF p THEN 1 ELSE 0

\* value of a binary operator in result type rt (UNDEF when not representable)
BinVal(op, rt, x, y) ==
  CASE op = "add" -> Chk(rt, x + y)
    [] op = "sub" -> Chk(rt, x - y)
    [] op = "mul" -> IF x # 0 /\ Abs(y) > 2147483647 \div Abs(x) THEN UNDEF   \* beyond TLC's integers, hence beyond every modelled type
                     ELSE Chk(rt, x * y)
    [] op = "div" -> IF y = 0 THEN UNDEF ELSE Chk(rt, TruncDiv(x, y))
    [] op = "gt" -> B2I(x > y)
    [] op = "gt_eq" -> B2I(x >= y)
    [] op = "lt" -> B2I(x < y)
    [] op = "lt_eq" -> B2I(x <= y)
    [] op = "eq" -> B2I(x = y)
    [] op = "neq" -> B2I(x # y)
    [] op = "and" -> B2I(x = 1 /\ y = 1)
    [] op = "or" -> B2I(x = 1 \/ y = 1)

UnVal(op, rt, x) ==
  CASE op = "not" -> 1 - x
    [] op = "neg" -> Chk(rt, -x)
    [] op = "cast" -> Chk(rt, x)

(* expressions: a sequence of nodes [op, l, r, v, ty]; children by index;   *)
(* "col" (v = 1 or 2), "lit" (v), unary (l), binary (l, r); ty = node type. *)
RECURSIVE EvalN(_, _, _, _)
EvalN(ns, i, a, b) ==
  LET n == ns[i] IN
  IF n.op = "col" THEN (IF n.v = 1 THEN a ELSE b)
  ELSE IF n.op = "lit" THEN n.v
  ELSE LET x == EvalN(ns, n.l, a, b) IN
    IF x = UNDEF THEN UNDEF
    ELSE IF n.op \in {"not", "neg", "cast"} THEN UnVal(n.op, n.ty, x)
    ELSE LET y == EvalN(ns, n.r, a, b) IN
      IF y = UNDEF THEN UNDEF ELSE BinVal(n.op, n.ty, x, y)

-----------------------------------------------------------------------------
(* witnesses: <<1, a, b>> for a pair falsifying the obligation, <<0,0,0>> if none *)
FindBad2(SA, SB, Bad(_, _)) ==
  IF \E a \in SA : \E b \in SB : Bad(a, b)
  THEN LET a == CHOOSE a \in SA : \E b \in SB : Bad(a, b)
           b == CHOOSE b \in SB : Bad(a, b)
       IN <<1, a, b>>
  ELSE <<0, 0, 0>>

IsAll(R) == Lo(R) = TMin(R.ty) /\ Hi(R) = TMax(R.ty)

\* result R of a binary operator on intervals A, B: contains every representable value
BinBad(op, A, B, R) ==
  IF IsAll(R) THEN <<0, 0, 0>>
  ELSE FindBad2(Mem(A), Mem(B), LAMBDA a, b : LET v == BinVal(op, R.ty, a, b) IN v # UNDEF /\ ~In(v, R))

UnBad(op, A, R) ==
  IF IsAll(R) THEN <<0, 0, 0>>
  ELSE FindBad2(Mem(A), {0}, LAMBDA a, b : LET v == UnVal(op, R.ty, a) IN v # UNDEF /\ ~In(v, R))

\* set operations (values of both operands are compared as integers; mixed types are widened first)
IntersectBadNone(A, B) == FindBad2(Mem(A), {0}, LAMBDA a, b : In(a, B))
IntersectBad(A, B, R) == FindBad2(Mem(A), {0}, LAMBDA a, b : In(a, B) /\ ~In(a, R))
UnionBad(A, B, R) ==
  LET x == FindBad2(Mem(A), {0}, LAMBDA a, b : ~In(a, R)) IN
  IF x[1] = 1 THEN x ELSE
  LET y == FindBad2(Mem(B), {0}, LAMBDA a, b : ~In(a, R)) IN IF y[1] = 1 THEN <<1, y[2], 1>> ELSE y
\* contains: [1,1] claims B is a subset of A, [0,0] claims they are disjoint
ContainsBad(A, B, R) ==
  IF R.lo = 1 THEN FindBad2(Mem(B), {0}, LAMBDA a, b : ~In(a, A))
  ELSE IF R.hi = 0 THEN FindBad2(Mem(B), {0}, LAMBDA a, b : In(a, A))
  ELSE <<0, 0, 0>>

\* propagation through a binary node: parent P, children A, B -> none | (A2, B2)
Prop2BadNone(op, rt, P, A, B) ==
  FindBad2(Mem(A), Mem(B), LAMBDA a, b : LET v == BinVal(op, rt, a, b) IN v # UNDEF /\ In(v, P))
Prop2Bad(op, rt, P, A, B, A2, B2) ==
  FindBad2(Mem(A), Mem(B), LAMBDA a, b : LET v == BinVal(op, rt, a, b) IN
                                          v # UNDEF /\ In(v, P) /\ ~(In(a, A2) /\ In(b, B2)))
Prop1BadNone(op, rt, P, A) ==
  FindBad2(Mem(A), {0}, LAMBDA a, b : LET v == UnVal(op, rt, a) IN v # UNDEF /\ In(v, P))
Prop1Bad(op, rt, P, A, A2) ==
  FindBad2(Mem(A), {0}, LAMBDA a, b : LET v == UnVal(op, rt, a) IN v # UNDEF /\ In(v, P) /\ ~In(a, A2))

\* expression bounds / graph propagation; ranges = <<range of column 1, range of column 2>>
Col2(ranges) == IF Len(ranges) >= 2 THEN Mem(ranges[2]) ELSE {0}
BoundsBad(ns, ranges, R) ==
  IF IsAll(R) THEN <<0, 0, 0>>
  ELSE FindBad2(Mem(ranges[1]), Col2(ranges),
                LAMBDA a, b : LET v == EvalN(ns, Len(ns), a, b) IN v # UNDEF /\ ~In(v, R))
Sat(ns, G, a, b) == LET v == EvalN(ns, Len(ns), a, b) IN v # UNDEF /\ In(v, G)
UpdateBadInfeasible(ns, ranges, G) ==
  FindBad2(Mem(ranges[1]), Col2(ranges), LAMBDA a, b : Sat(ns, G, a, b))
UpdateBad(ns, ranges, G, rr) ==
  FindBad2(Mem(ranges[1]), Col2(ranges),
           LAMBDA a, b : Sat(ns, G, a, b) /\ ~(In(a, rr[1]) /\ (Len(rr) < 2 \/ In(b, rr[2]))))

-----------------------------------------------------------------------------
(* NullableInterval: an interval plus NULL-ness: nk = "null" (always NULL), "maybe" (NULL or a value of iv),      *)
(* "notnull" (a value of iv).  NULL is the sentinel NULLV; operators follow SQL three-valued logic.               *)
NULLV == 1999999999
NMem(N) == IF N.nk = "null" THEN {NULLV} ELSE Mem(N.iv) \cup (IF N.nk = "maybe" THEN {NULLV} ELSE {})
NIn(v, N) == IF v = NULLV THEN N.nk \in {"null", "maybe"} ELSE N.nk # "null" /\ In(v, N.iv)
NBinVal(op, rt, x, y) ==
  CASE op = "and" -> IF x = 0 \/ y = 0 THEN 0 ELSE IF x = NULLV \/ y = NULLV THEN NULLV ELSE 1
    [] op = "or" -> IF x = 1 \/ y = 1 THEN 1 ELSE IF x = NULLV \/ y = NULLV THEN NULLV ELSE 0
    [] op = "isdistinct" -> IF x = NULLV /\ y = NULLV THEN 0 ELSE IF x = NULLV \/ y = NULLV THEN 1 ELSE B2I(x # y)
    [] op = "isnotdistinct" -> IF x = NULLV /\ y = NULLV THEN 1 ELSE IF x = NULLV \/ y = NULLV THEN 0 ELSE B2I(x = y)
    [] OTHER -> IF x = NULLV \/ y = NULLV THEN NULLV ELSE BinVal(op, rt, x, y)
NUnVal(op, x) ==
  CASE op = "not" -> IF x = NULLV THEN NULLV ELSE 1 - x
    [] op = "is_true" -> B2I(x = 1)
    [] op = "is_false" -> B2I(x = 0)
    [] op = "is_unknown" -> B2I(x = NULLV)
NBinBad(op, rt, A, B, R) == FindBad2(NMem(A), NMem(B), LAMBDA a, b : LET v == NBinVal(op, rt, a, b) IN v # UNDEF /\ ~NIn(v, R))
NUnBad(op, A, R) == FindBad2(NMem(A), {0}, LAMBDA a, b : ~NIn(NUnVal(op, a), R))
=============================================================================
