---------------------------- MODULE IntervalTrace ----------------------------
(* Binding B2 (semantic form) for C23: every recorded call of the real        *)
(* interval library <op, inputs, result> is decided against Interval.tla,     *)
(* exhaustively over all values of the (8/16-bit) input intervals.  One state *)
(* per event; the verdict (with a witness pair for a rejection) is printed.   *)
EXTENDS Interval, Json, IOUtils, TLC

Events == ndJsonDeserialize(IOEnv.TRACE)

VARIABLE i
Init == i \in 1..Len(Events)
Next == UNCHANGED i
Spec == Init /\ [][Next]_i

V(id, w, why) == [id |-> id, ok |-> (w[1] = 0), wa |-> w[2], wb |-> w[3], why |-> why]
OKV == <<0, 0, 0>>

Verdict(e) ==
  IF e.rk \in {"err", "panic"} THEN V(e.id, OKV, "engine-error")
  ELSE
  CASE e.cls = "bin" -> V(e.id, BinBad(e.op, e.a, e.b, e.r), "value of operator outside result interval")
    [] e.cls = "un" -> V(e.id, UnBad(e.op, e.a, e.r), "value of operator outside result interval")
    [] e.cls = "set" ->
         IF e.op = "intersect" THEN
            (IF e.rk = "none" THEN V(e.id, IntersectBadNone(e.a, e.b), "common value but intersection reported empty")
             ELSE V(e.id, IntersectBad(e.a, e.b, e.r), "common value outside intersection"))
         ELSE IF e.op = "union" THEN V(e.id, UnionBad(e.a, e.b, e.r), "member outside union")
         ELSE V(e.id, ContainsBad(e.a, e.b, e.r), "contains() verdict contradicted by a value")
    [] e.cls = "cv" -> V(e.id, IF In(e.n, e.a) = e.flag THEN OKV ELSE <<1, e.n, 0>>, "contains_value wrong")
    [] e.cls = "width" ->
         V(e.id, IF e.rk = "none" THEN OKV
                 ELSE IF e.rn >= Hi(e.a) - Lo(e.a) THEN OKV ELSE <<1, Lo(e.a), Hi(e.a)>>, "width smaller than the spread")
    [] e.cls = "card" ->
         V(e.id, IF e.rk = "none" THEN OKV
                 ELSE IF e.rn = Hi(e.a) - Lo(e.a) + 1 THEN OKV ELSE <<1, Lo(e.a), Hi(e.a)>>, "cardinality is not the number of points")
    [] e.cls = "prop2" ->
         IF e.rk = "none" THEN V(e.id, Prop2BadNone(e.op, e.rt, e.p, e.a, e.b), "satisfying pair but propagation reported infeasible")
         ELSE IF e.rk = "same" THEN V(e.id, OKV, "")
         ELSE V(e.id, Prop2Bad(e.op, e.rt, e.p, e.a, e.b, e.r1, e.r2), "satisfying pair removed by propagation")
    [] e.cls = "prop1" ->
         IF e.rk = "none" THEN V(e.id, Prop1BadNone(e.op, e.rt, e.p, e.a), "satisfying value but propagation reported infeasible")
         ELSE V(e.id, Prop1Bad(e.op, e.rt, e.p, e.a, e.r1), "satisfying value removed by propagation")
    [] e.cls = "nbin" -> V(e.id, NBinBad(e.op, e.rt, e.a, e.b, e.r), "value of operator (three-valued) outside the nullable result")
    [] e.cls = "nun" -> V(e.id, NUnBad(e.op, e.a, e.r), "value of operator (three-valued) outside the nullable result")
    [] e.cls = "bounds" -> V(e.id, BoundsBad(e.nodes, e.ranges, e.r), "expression value outside evaluated bounds")
    [] e.cls = "update" ->
         IF e.rk = "infeasible" THEN V(e.id, UpdateBadInfeasible(e.nodes, e.ranges, e.given), "satisfying assignment but reported infeasible")
         ELSE IF e.rk = "cannot" THEN V(e.id, OKV, "")
         ELSE V(e.id, UpdateBad(e.nodes, e.ranges, e.given, e.rr), "satisfying assignment removed by propagation")

Emit == PrintT(<<"CASE", ToJson(Verdict(Events[i]))>>)
=============================================================================
