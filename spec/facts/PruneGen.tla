------------------------------ MODULE PruneGen ------------------------------
(* B3 input for C22: containers (row vectors over the column domains of       *)
(* Prune.tla) drawn by TLC for every column-type combination; the driver      *)
(* computes their statistics, weakens them and asks the real PruningPredicate.*)
EXTENDS Prune, Json, Randomization
CONSTANTS K

Combos == {<<"i", "-">>, <<"s", "-">>, <<"b", "-">>, <<"i", "i">>, <<"i", "s">>, <<"s", "b">>, <<"i", "b">>, <<"s", "i">>, <<"s", "s">>, <<"b", "b">>}
Rows(t) == IF t[2] = "-" THEN Dom(t[1]) \X {Null} ELSE Dom(t[1]) \X Dom(t[2])
VARIABLES c, ty
Init == \E t \in Combos : \E n \in 0..MAXN : ty = t /\ c \in RandomSubset(K, [1..n -> Rows(t)])
Next == UNCHANGED <<c, ty>>
Spec == Init /\ [][Next]_<<c, ty>>
Emit == PrintT(<<"CASE", ToJson([t1 |-> ty[1], t2 |-> ty[2], rows |-> c])>>)
=============================================================================
