----------------------------- MODULE PruneTrace -----------------------------
(* Binding B2 (semantic form) for C22: every recorded pruning decision of the *)
(* real PruningPredicate, every LiteralGuarantee and every decision on a      *)
(* TLC-generated container is decided against Prune.tla.  A "skip" is         *)
(* accepted iff no container over the scope that the statistics admit has a   *)
(* row on which the predicate is TRUE; a rejection carries a witness.         *)
EXTENDS Prune, Json, IOUtils

Events == ndJsonDeserialize(IOEnv.TRACE)
VARIABLE i
Init == i \in 1..Len(Events)
Next == UNCHANGED i
Spec == Init /\ [][Next]_i

NoRows == << <<Null, Null>> >>
Verdict(e) ==
  CASE e.cls = "prune" ->
         IF ~e.skip THEN [id |-> e.id, ok |-> TRUE, rows |-> NoRows, why |-> "kept"]
         ELSE IF AnyMatchAdmissible(e.pred, e.tys, e.stats)
              THEN [id |-> e.id, ok |-> FALSE, rows |-> Witness(e.pred, e.tys, e.stats),
                    why |-> "skipped, but a container admitted by the statistics has a matching row"]
              ELSE [id |-> e.id, ok |-> TRUE, rows |-> NoRows, why |-> "skip justified"]
    [] e.cls = "guar" ->
         LET bad == {r \in RowDom(e.tys) : IsTrue(PEval(e.pred, r)) /\ ~GuaranteeHolds(e.g, r)} IN
         IF bad = {} THEN [id |-> e.id, ok |-> TRUE, rows |-> NoRows, why |-> "guarantee holds"]
         ELSE [id |-> e.id, ok |-> FALSE, rows |-> <<CHOOSE r \in bad : TRUE>>, why |-> "predicate TRUE on a row violating the guarantee"]
    [] e.cls = "b3" ->
         LET hit == {j \in 1..Len(e.rows) : IsTrue(PEval(e.pred, e.rows[j]))} IN
         IF e.skip /\ hit # {} THEN [id |-> e.id, ok |-> FALSE, rows |-> <<e.rows[CHOOSE j \in hit : TRUE]>>, why |-> "skipped a generated container with a matching row"]
         ELSE [id |-> e.id, ok |-> TRUE, rows |-> NoRows, why |-> IF hit = {} THEN "no matching row" ELSE "kept"]

Emit == PrintT(<<"CASE", ToJson(Verdict(Events[i]))>>)
=============================================================================
