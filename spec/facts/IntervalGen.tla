----------------------------- MODULE IntervalGen -----------------------------
(* Case generation for C23: pairs of intervals whose endpoints come from the  *)
(* edge set of the type (unbounded, extremes, neighbours of extremes and of   *)
(* zero).  K pairs are drawn per run (seeded); K = 0 enumerates all of them.  *)
EXTENDS Interval, Json, TLC, Randomization
CONSTANT K, TY

Ends(ty) == IF ty = "i8" THEN {-128, -127, -1, 0, 1, 126, 127} ELSE {0, 1, 2, 127, 128, 254, 255}
Ivs(ty) == {I \in [ty : {ty}, lu : BOOLEAN, lo : Ends(ty) \cup {0}, hu : BOOLEAN, hi : Ends(ty) \cup {0}] :
              /\ (I.lu => I.lo = 0) /\ (I.hu => I.hi = 0)
              /\ (~I.lu => I.lo \in Ends(ty)) /\ (~I.hu => I.hi \in Ends(ty))
              /\ ((~I.lu /\ ~I.hu) => I.lo <= I.hi)}
Pairs == Ivs(TY) \X Ivs(TY)

VARIABLE c
Init == c \in (IF K = 0 THEN Pairs ELSE RandomSubset(K, Pairs))
Next == UNCHANGED c
Spec == Init /\ [][Next]_c
Emit == PrintT(<<"CASE", ToJson([a |-> c[1], b |-> c[2]])>>)
=============================================================================
