----------------------------- MODULE PruneLemma -----------------------------
(* Specification-level check: deciding "some admissible container has a      *)
(* matching row" from the first positions of the admissible column vectors    *)
(* (Prune!AnyMatchAdmissible) equals the definition that enumerates whole     *)
(* containers and all their rows (Prune!AnyMatchFull); here for all           *)
(* statistics over a reduced scope and a family of predicates.  Also emits    *)
(* TLC-generated containers for the B3 part (PruneGen.cfg).                   *)
EXTENDS Prune, Json, Randomization
CONSTANT K

Vals == {I(0), I(1), I(2)}
ColStats == [minK : BOOLEAN, min : Vals, maxK : BOOLEAN, max : Vals, ncK : BOOLEAN, nc : 0..2,
             kK : BOOLEAN, kset : {<<I(1)>>, <<I(0), I(2)>>}]
Preds == { Bin(">", Col(1), Lit(I(1))), Bin("=", Col(1), Lit(I(2))), Un("isnull", Col(1)),
           Bin("or", Bin("<", Col(1), Lit(I(1))), Un("isnull", Col(2))),
           Bin("and", Bin("<>", Col(1), Lit(I(0))), Bin("=", Col(2), Lit(I(1)))),
           Un("not", Bin("<=", Col(1), Lit(I(1)))) }

VARIABLES p, s1, s2, rc
vars == <<p, s1, s2, rc>>
Init == p \in Preds /\ s1 \in RandomSubset(K, ColStats) /\ s2 \in RandomSubset(3, ColStats) /\ rc \in 0..3
Next == UNCHANGED vars
Spec == Init /\ [][Next]_vars
Stats == [cols |-> <<s1, s2>>, rcK |-> rc > 0, rc |-> rc]
FirstLemma == AnyMatchAdmissible(p, <<"i", "i">>, Stats) = AnyMatchFull(p, <<"i", "i">>, Stats)
=============================================================================
