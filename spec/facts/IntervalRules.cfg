CONSTANTS TY = "t4"  FAITHFUL = FALSE
SPECIFICATION Spec
INVARIANTS AddSound SubSound MulSound GtSound GtEqSound EqSound IntersectSound PropSound
CHECK_DEADLOCK FALSE
