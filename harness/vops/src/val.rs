//! Shared value representation ({"k":..,"v":..} records of spec/lib/Values.tla) <-> arrow.
use arrow::array::*;
use arrow::datatypes::{DataType, Field, Schema, SchemaRef};
use arrow::record_batch::RecordBatch;
use serde_json::Value;
use std::sync::Arc;

/// float token pool, ordered: -inf < -1.5 < -0 = +0 < 1.5 < +inf < NaN   (token v = index)
pub const FLOAT_TOKENS: [f64; 7] = [f64::NEG_INFINITY, -1.5, -0.0, 0.0, 1.5, f64::INFINITY, f64::NAN];
/// string pool, index order = lexicographic order
pub const STRINGS: [&str; 6] = ["", "A", "a", "ab", "b", "\u{00e9}"];

#[derive(Clone, Debug, PartialEq, Eq, PartialOrd, Ord, Hash)]
pub enum Val {
    Null,
    I(i64),
    S(i64),
    B(bool),
    /// float token (index into FLOAT_TOKENS); -0 and +0 are distinct tokens (2, 3) but compare equal
    F(i64),
}

impl Val {
    pub fn from_json(v: &Value) -> Val {
        let k = v["k"].as_str().expect("value kind");
        let n = v["v"].as_i64().expect("value int");
        match k {
            "n" => Val::Null,
            "i" => Val::I(n),
            "s" => Val::S(n),
            "b" => Val::B(n != 0),
            "f" => Val::F(n),
            _ => panic!("unsupported value kind {k}"),
        }
    }
    pub fn to_json(&self) -> Value {
        match self {
            Val::Null => serde_json::json!({"k":"n","v":0}),
            Val::I(n) => serde_json::json!({"k":"i","v":n}),
            Val::S(n) => serde_json::json!({"k":"s","v":n}),
            Val::B(b) => serde_json::json!({"k":"b","v": if *b {1} else {0}}),
            Val::F(n) => serde_json::json!({"k":"f","v":n}),
        }
    }
}

pub type Row = Vec<Val>;

pub fn rows_from_json(v: &Value) -> Vec<Row> {
    v.as_array()
        .expect("rows array")
        .iter()
        .map(|r| r.as_array().expect("row array").iter().map(Val::from_json).collect())
        .collect()
}
pub fn rows_to_json(rows: &[Row]) -> Value {
    Value::Array(rows.iter().map(|r| Value::Array(r.iter().map(|v| v.to_json()).collect())).collect())
}

/// Column type used on the arrow side
#[derive(Clone, Copy, Debug, PartialEq, Eq)]
pub enum ColTy {
    I32,
    I64,
    Utf8,
    Utf8View,
    F64,
    F32,
    Bool,
    DictUtf8,
}

impl ColTy {
    pub fn data_type(&self) -> DataType {
        match self {
            ColTy::I32 => DataType::Int32,
            ColTy::I64 => DataType::Int64,
            ColTy::Utf8 => DataType::Utf8,
            ColTy::Utf8View => DataType::Utf8View,
            ColTy::F64 => DataType::Float64,
            ColTy::F32 => DataType::Float32,
            ColTy::Bool => DataType::Boolean,
            ColTy::DictUtf8 => DataType::Dictionary(Box::new(DataType::Int32), Box::new(DataType::Utf8)),
        }
    }
}

fn sidx(v: &Val) -> Option<&'static str> {
    match v {
        Val::Null => None,
        Val::S(i) => Some(STRINGS[*i as usize]),
        other => panic!("not a string value: {other:?}"),
    }
}

pub fn build_array(ty: ColTy, vals: &[&Val]) -> ArrayRef {
    match ty {
        ColTy::I32 => Arc::new(Int32Array::from_iter(vals.iter().map(|v| match v {
            Val::Null => None,
            Val::I(n) => Some(*n as i32),
            o => panic!("not an int: {o:?}"),
        }))),
        ColTy::I64 => Arc::new(Int64Array::from_iter(vals.iter().map(|v| match v {
            Val::Null => None,
            Val::I(n) => Some(*n),
            o => panic!("not an int: {o:?}"),
        }))),
        ColTy::Utf8 => Arc::new(StringArray::from_iter(vals.iter().map(|v| sidx(v)))),
        ColTy::Utf8View => Arc::new(StringViewArray::from_iter(vals.iter().map(|v| sidx(v)))),
        ColTy::DictUtf8 => {
            let mut b = StringDictionaryBuilder::<arrow::datatypes::Int32Type>::new();
            for v in vals {
                match sidx(v) {
                    None => b.append_null(),
                    Some(s) => {
                        b.append_value(s);
                    }
                }
            }
            Arc::new(b.finish())
        }
        ColTy::F64 => Arc::new(Float64Array::from_iter(vals.iter().map(|v| match v {
            Val::Null => None,
            Val::F(i) => Some(FLOAT_TOKENS[*i as usize]),
            o => panic!("not a float token: {o:?}"),
        }))),
        ColTy::F32 => Arc::new(Float32Array::from_iter(vals.iter().map(|v| match v {
            Val::Null => None,
            Val::F(i) => Some(FLOAT_TOKENS[*i as usize] as f32),
            o => panic!("not a float token: {o:?}"),
        }))),
        ColTy::Bool => Arc::new(BooleanArray::from_iter(vals.iter().map(|v| match v {
            Val::Null => None,
            Val::B(b) => Some(*b),
            o => panic!("not a bool: {o:?}"),
        }))),
    }
}

pub fn schema_of(names: &[&str], tys: &[ColTy], nullable: &[bool]) -> SchemaRef {
    Arc::new(Schema::new(
        names.iter().zip(tys).zip(nullable).map(|((n, t), nu)| Field::new(*n, t.data_type(), *nu)).collect::<Vec<_>>(),
    ))
}

pub fn build_batch(schema: &SchemaRef, tys: &[ColTy], rows: &[Row]) -> RecordBatch {
    if rows.is_empty() {
        return RecordBatch::new_empty(schema.clone());
    }
    let cols: Vec<ArrayRef> = tys
        .iter()
        .enumerate()
        .map(|(c, ty)| build_array(*ty, &rows.iter().map(|r| &r[c]).collect::<Vec<_>>()))
        .collect();
    RecordBatch::try_new(schema.clone(), cols).expect("build batch")
}

/// Split rows into batches of at most `sz` rows (no batch at all for an empty partition).
pub fn chunk(schema: &SchemaRef, tys: &[ColTy], rows: &[Row], sz: usize) -> Vec<RecordBatch> {
    rows.chunks(sz.max(1)).map(|c| build_batch(schema, tys, c)).collect()
}

fn str_index(s: &str) -> Result<i64, String> {
    STRINGS.iter().position(|x| *x == s).map(|i| i as i64).ok_or_else(|| format!("string {s:?} not in pool (invented value)"))
}
fn float_token(f: f64) -> Result<i64, String> {
    if f.is_nan() {
        return Ok(6);
    }
    for (i, t) in FLOAT_TOKENS.iter().enumerate() {
        if !t.is_nan() && *t == f && t.is_sign_negative() == f.is_sign_negative() {
            return Ok(i as i64);
        }
    }
    Err(format!("float {f} not in token pool (invented value)"))
}

/// Decode one arrow value into a Val.
pub fn decode(col: &ArrayRef, i: usize) -> Result<Val, String> {
    if col.is_null(i) {
        return Ok(Val::Null);
    }
    Ok(match col.data_type() {
        DataType::Int32 => Val::I(col.as_any().downcast_ref::<Int32Array>().unwrap().value(i) as i64),
        DataType::Int64 => Val::I(col.as_any().downcast_ref::<Int64Array>().unwrap().value(i)),
        DataType::Utf8 => Val::S(str_index(col.as_any().downcast_ref::<StringArray>().unwrap().value(i))?),
        DataType::Utf8View => Val::S(str_index(col.as_any().downcast_ref::<StringViewArray>().unwrap().value(i))?),
        DataType::Boolean => Val::B(col.as_any().downcast_ref::<BooleanArray>().unwrap().value(i)),
        DataType::Float64 => Val::F(float_token(col.as_any().downcast_ref::<Float64Array>().unwrap().value(i))?),
        DataType::Float32 => Val::F(float_token(col.as_any().downcast_ref::<Float32Array>().unwrap().value(i) as f64)?),
        DataType::Dictionary(_, _) => {
            let d = col.as_any().downcast_ref::<DictionaryArray<arrow::datatypes::Int32Type>>().ok_or("dict key type")?;
            let vals = d.values().as_any().downcast_ref::<StringArray>().ok_or("dict value type")?;
            let k = d.keys().value(i) as usize;
            if vals.is_null(k) {
                Val::Null
            } else {
                Val::S(str_index(vals.value(k))?)
            }
        }
        other => return Err(format!("unexpected output type {other}")),
    })
}

pub fn decode_batches(batches: &[RecordBatch]) -> Result<Vec<Row>, String> {
    let mut out = vec![];
    for b in batches {
        for i in 0..b.num_rows() {
            let mut r = Vec::with_capacity(b.num_columns());
            for c in b.columns() {
                r.push(decode(c, i)?);
            }
            out.push(r);
        }
    }
    Ok(out)
}

pub fn same_bag(a: &[Row], b: &[Row]) -> bool {
    if a.len() != b.len() {
        return false;
    }
    let mut x = a.to_vec();
    let mut y = b.to_vec();
    x.sort();
    y.sort();
    x == y
}

/// splitmix-style hash for seeded, reproducible per-case choices
pub fn mix(mut x: u64) -> u64 {
    x = x.wrapping_add(0x9E3779B97F4A7C15);
    x = (x ^ (x >> 30)).wrapping_mul(0xBF58476D1CE4E5B9);
    x = (x ^ (x >> 27)).wrapping_mul(0x94D049BB133111EB);
    x ^ (x >> 31)
}

/// Progress watchdog: every worker publishes the evaluation it is running; if one evaluation of these
/// tiny inputs makes no progress for `LIMIT_S` seconds (normal: milliseconds) the process writes
/// `<out>.hung` with the case and exits with code 3.  The python driver then re-runs that single case
/// with the same limit to confirm before anything is reported.
pub struct Watchdog {
    slots: std::sync::Arc<std::sync::Mutex<Vec<Option<(std::time::Instant, String)>>>>,
}
pub const LIMIT_S: u64 = 150;

impl Watchdog {
    pub fn start(n: usize, out: String) -> Watchdog {
        let slots: std::sync::Arc<std::sync::Mutex<Vec<Option<(std::time::Instant, String)>>>> = std::sync::Arc::new(std::sync::Mutex::new(vec![None; n]));
        let s2 = slots.clone();
        std::thread::spawn(move || loop {
            std::thread::sleep(std::time::Duration::from_secs(3));
            let g = s2.lock().unwrap();
            for s in g.iter().flatten() {
                let limit = std::env::var("VOPS_WATCHDOG_S").ok().and_then(|v| v.parse().ok()).unwrap_or(LIMIT_S);
                if s.0.elapsed().as_secs() >= limit {
                    std::fs::write(format!("{out}.hung"), &s.1).ok();
                    eprintln!("watchdog: evaluation made no progress for {LIMIT_S}s");
                    std::process::exit(3);
                }
            }
        });
        Watchdog { slots }
    }
    pub fn enter(&self, worker: usize, what: String) {
        self.slots.lock().unwrap()[worker] = Some((std::time::Instant::now(), what));
    }
    pub fn leave(&self, worker: usize) {
        self.slots.lock().unwrap()[worker] = None;
    }
}
