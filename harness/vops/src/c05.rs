//! C05 — every join operator computes exactly its join type's result.
//!
//! Input: NDJSON cases printed by TLC from spec/ops/JoinGen.tla (inputs, join type, NULL-equality,
//! number of key columns, residual filter, expected rows computed by spec/lib/Join.tla).
//! Each case is executed on every join operator that supports it, in several physical
//! configurations (partition mode, input batch size, session batch size, partition count, key type,
//! sort direction, memory budget); the output bag, column names/types and declared nullability are
//! compared with the specification.
use crate::val::*;
use arrow::compute::SortOptions;
use arrow::datatypes::SchemaRef;
use arrow::record_batch::RecordBatch;
use datafusion_common::{JoinSide, JoinType, NullEquality};
use datafusion_execution::TaskContext;
use datafusion_execution::config::SessionConfig;
use datafusion_execution::memory_pool::{FairSpillPool, GreedyMemoryPool};
use datafusion_execution::runtime_env::RuntimeEnvBuilder;
use datafusion_expr::Operator;
use datafusion_physical_expr::expressions::{BinaryExpr, Column, IsNullExpr};
use datafusion_physical_expr::{LexOrdering, PhysicalExpr, PhysicalSortExpr};
use datafusion_physical_plan::ExecutionPlan;
use datafusion_physical_plan::joins::utils::{ColumnIndex, JoinFilter};
use datafusion_physical_plan::joins::{
    CrossJoinExec, HashJoinExec, NestedLoopJoinExec, PartitionMode, PiecewiseMergeJoinExec, SortMergeJoinExec,
    StreamJoinPartitionMode, SymmetricHashJoinExec,
};
use datafusion_physical_plan::test::TestMemoryExec;
use serde_json::{Value, json};
use std::collections::BTreeMap;
use std::panic::AssertUnwindSafe;
use std::sync::atomic::{AtomicUsize, Ordering};
use std::sync::{Arc, Mutex};

#[derive(Clone, Debug)]
struct Case {
    idx: usize,
    raw: Value,
    jt: JoinType,
    jt_name: String,
    nen: bool,
    nk: usize,
    f: String,
    kt: String,
    na: bool,
    l: Vec<Row>,
    r: Vec<Row>,
    ln: Vec<bool>,
    rn: Vec<bool>,
    nullable: Vec<bool>,
    expect: Vec<Row>,
}

fn parse_jt(s: &str) -> JoinType {
    match s {
        "Inner" => JoinType::Inner,
        "Left" => JoinType::Left,
        "Right" => JoinType::Right,
        "Full" => JoinType::Full,
        "LeftSemi" => JoinType::LeftSemi,
        "RightSemi" => JoinType::RightSemi,
        "LeftAnti" => JoinType::LeftAnti,
        "RightAnti" => JoinType::RightAnti,
        "LeftMark" => JoinType::LeftMark,
        "RightMark" => JoinType::RightMark,
        _ => panic!("join type {s}"),
    }
}

fn bools(v: &Value) -> Vec<bool> {
    v.as_array().unwrap().iter().map(|b| b.as_bool().unwrap()).collect()
}

fn parse_case(idx: usize, v: &Value) -> Case {
    Case {
        idx,
        raw: v.clone(),
        jt: parse_jt(v["jt"].as_str().unwrap()),
        jt_name: v["jt"].as_str().unwrap().to_string(),
        nen: v["nen"].as_bool().unwrap(),
        nk: v["nk"].as_u64().unwrap() as usize,
        f: v["f"].as_str().unwrap().to_string(),
        kt: v["kt"].as_str().unwrap().to_string(),
        na: v["na"].as_bool().unwrap(),
        l: rows_from_json(&v["l"]),
        r: rows_from_json(&v["r"]),
        ln: bools(&v["ln"]),
        rn: bools(&v["rn"]),
        nullable: bools(&v["nullable"]),
        expect: rows_from_json(&v["expect"]),
    }
}

/// One physical configuration of one operator.
#[derive(Clone, Debug)]
struct Variant {
    op: &'static str,
    /// input batch size (rows per input batch)
    inb: usize,
    /// session batch size (output batch size)
    outb: usize,
    /// partitions of the partitioned side(s)
    parts: usize,
    /// int key column type: false = Int32 (dense array-map path), true = Int64 with the hash-map path forced
    wide: bool,
    /// sort options of the merge join keys (descending, nulls_first)
    desc: bool,
    nulls_first: bool,
    /// memory limit in bytes (0 = unbounded)
    mem: usize,
    /// declare inputs all-nullable instead of exact nullability
    all_nullable: bool,
}

impl Variant {
    fn name(&self) -> String {
        format!(
            "{} inb={} outb={} parts={} wide={} desc={} nf={} mem={} alln={}",
            self.op, self.inb, self.outb, self.parts, self.wide, self.desc, self.nulls_first, self.mem, self.all_nullable
        )
    }
    fn to_json(&self) -> Value {
        json!({"op": self.op, "inb": self.inb, "outb": self.outb, "parts": self.parts, "wide": self.wide,
               "desc": self.desc, "nulls_first": self.nulls_first, "mem": self.mem, "all_nullable": self.all_nullable})
    }
    fn from_json(v: &Value) -> Variant {
        let op = v["op"].as_str().unwrap();
        let op: &'static str = OPS.iter().find(|o| **o == op).expect("operator name");
        Variant {
            op,
            inb: v["inb"].as_u64().unwrap() as usize,
            outb: v["outb"].as_u64().unwrap() as usize,
            parts: v["parts"].as_u64().unwrap() as usize,
            wide: v["wide"].as_bool().unwrap(),
            desc: v["desc"].as_bool().unwrap(),
            nulls_first: v["nulls_first"].as_bool().unwrap(),
            mem: v["mem"].as_u64().unwrap() as usize,
            all_nullable: v["all_nullable"].as_bool().unwrap(),
        }
    }
}

const OPS: [&str; 9] =
    ["hash_collect", "hash_partitioned", "smj", "nlj", "shj_single", "shj_partitioned", "shj_pruning", "cross", "pwmj"];

const BATCHES: [usize; 3] = [1, 2, 8192];

/// Which operators support the case (by construction rules of the operators, not by trial).
fn supports(c: &Case, op: &str) -> bool {
    if c.na {
        // null-aware anti join exists only in HashJoinExec (CollectLeft)
        return op == "hash_collect";
    }
    match op {
        "hash_collect" | "hash_partitioned" | "smj" | "shj_single" | "shj_partitioned" => c.nk >= 1,
        "shj_pruning" => c.nk >= 1 && matches!(c.f.as_str(), "lt" | "ge"),
        "nlj" => true,
        "cross" => c.nk == 0 && c.f == "none" && c.jt == JoinType::Inner,
        "pwmj" => {
            c.nk == 0
                && matches!(c.f.as_str(), "lt" | "le" | "gt" | "ge")
                && matches!(
                    c.jt,
                    JoinType::Inner | JoinType::Left | JoinType::Right | JoinType::Full | JoinType::LeftSemi | JoinType::LeftAnti
                )
        }
        _ => false,
    }
}

/// The variants run for a case: for every supporting operator, `picks_n` seeded picks out of the
/// input-batch x output-batch x partition-count grid (0 = the whole grid).
fn variants(c: &Case, seed: u64, picks_n: usize) -> Vec<Variant> {
    let mut out = vec![];
    let h0 = mix(seed ^ mix(c.idx as u64 + 1));
    for (oi, op) in OPS.iter().enumerate() {
        if !supports(c, op) {
            continue;
        }
        let multi_ok = !matches!(*op, "shj_single" | "shj_pruning");
        let mut grid = vec![];
        for &inb in &BATCHES {
            for &outb in &BATCHES {
                for parts in [1usize, 3] {
                    if parts == 3 && !multi_ok {
                        continue;
                    }
                    grid.push((inb, outb, parts));
                }
            }
        }
        let h = mix(h0 ^ (oi as u64 + 17));
        let picks: Vec<(usize, usize, usize)> = if picks_n == 0 || picks_n >= grid.len() {
            grid.clone()
        } else {
            // seeded shuffle of the grid, first picks_n entries
            let mut keyed: Vec<(u64, (usize, usize, usize))> =
                grid.iter().enumerate().map(|(gi, g)| (mix(h ^ (gi as u64 + 101)), *g)).collect();
            keyed.sort();
            keyed.into_iter().take(picks_n).map(|(_, g)| g).collect()
        };
        for (vi, (inb, outb, parts)) in picks.into_iter().enumerate() {
            let hv = mix(h ^ (vi as u64 + 1) ^ ((inb as u64) << 20) ^ ((outb as u64) << 40) ^ parts as u64);
            let mut v = Variant {
                op,
                inb,
                outb,
                parts,
                wide: false,
                desc: false,
                nulls_first: false,
                mem: 0,
                all_nullable: (hv >> 5) % 2 == 0,
            };
            if c.kt == "i" && op.starts_with("hash") {
                v.wide = (hv >> 7) % 2 == 0;
            } else if c.kt == "i" {
                v.wide = (hv >> 7) % 4 == 0;
            }
            if *op == "smj" {
                v.desc = (hv >> 9) % 2 == 0;
                v.nulls_first = (hv >> 10) % 2 == 0;
            }
            // tight memory budget on the operators that can spill (sort-merge join buffered side,
            // nested-loop join right side replay)
            if matches!(*op, "smj" | "nlj") && (hv >> 12) % 4 == 0 {
                v.mem = [600usize, 2000, 20000][((hv >> 14) % 3) as usize];
            }
            out.push(v);
        }
    }
    out
}

struct Side {
    schema: SchemaRef,
    tys: Vec<ColTy>,
}

fn side(c: &Case, v: &Variant, left: bool) -> Side {
    let kty = if c.kt == "s" {
        ColTy::Utf8
    } else if v.wide {
        ColTy::I64
    } else {
        ColTy::I32
    };
    let tys = vec![kty, ColTy::I32];
    let nullable: Vec<bool> = if v.all_nullable { vec![true, true] } else if left { c.ln.clone() } else { c.rn.clone() };
    let names: [&str; 2] = if left { ["lk", "lv"] } else { ["rk", "rv"] };
    Side { schema: schema_of(&names, &tys, &nullable), tys }
}

fn key_part(r: &Row, parts: usize) -> usize {
    match &r[0] {
        Val::Null => 0,
        Val::I(n) | Val::S(n) => ((*n + 1) as usize) % parts,
        _ => 0,
    }
}

fn cmp_key(a: &Val, b: &Val, desc: bool, nulls_first: bool) -> std::cmp::Ordering {
    use std::cmp::Ordering::*;
    match (a, b) {
        (Val::Null, Val::Null) => Equal,
        (Val::Null, _) => {
            if nulls_first {
                Less
            } else {
                Greater
            }
        }
        (_, Val::Null) => {
            if nulls_first {
                Greater
            } else {
                Less
            }
        }
        _ => {
            let o = a.cmp(b);
            if desc { o.reverse() } else { o }
        }
    }
}

fn sort_rows(rows: &mut [Row], cols: &[usize], desc: bool, nulls_first: bool) {
    rows.sort_by(|a, b| {
        for &c in cols {
            let o = cmp_key(&a[c], &b[c], desc, nulls_first);
            if o != std::cmp::Ordering::Equal {
                return o;
            }
        }
        std::cmp::Ordering::Equal
    });
}

enum PartBy {
    Single,
    Key(usize),
    RoundRobin(usize),
}

fn partition(rows: &[Row], by: &PartBy) -> Vec<Vec<Row>> {
    match by {
        PartBy::Single => vec![rows.to_vec()],
        PartBy::Key(n) => {
            let mut p = vec![vec![]; *n];
            for r in rows {
                p[key_part(r, *n)].push(r.clone());
            }
            p
        }
        PartBy::RoundRobin(n) => {
            let mut p = vec![vec![]; *n];
            for (i, r) in rows.iter().enumerate() {
                p[i % *n].push(r.clone());
            }
            p
        }
    }
}

fn mem_exec(s: &Side, parts: Vec<Vec<Row>>, inb: usize, sort: Option<LexOrdering>) -> Result<Arc<dyn ExecutionPlan>, String> {
    let batches: Vec<Vec<RecordBatch>> = parts.iter().map(|p| chunk(&s.schema, &s.tys, p, inb)).collect();
    let exec = TestMemoryExec::try_new_exec(&batches, s.schema.clone(), None).map_err(|e| format!("mem exec: {e}"))?;
    if let Some(o) = sort {
        let e = TestMemoryExec::try_new(&batches, s.schema.clone(), None)
            .and_then(|e| e.try_with_sort_information(vec![o]))
            .map_err(|e| format!("mem exec sort info: {e}"))?;
        let e = Arc::new(e);
        return Ok(Arc::new(TestMemoryExec::update_cache(&e)));
    }
    Ok(exec)
}

fn col(name: &str, i: usize) -> Arc<dyn PhysicalExpr> {
    Arc::new(Column::new(name, i))
}

/// residual filter over the payload columns; intermediate schema = [lv, rv]
fn residual(c: &Case, ls: &Side, rs: &Side) -> Option<JoinFilter> {
    if c.f == "none" {
        return None;
    }
    let schema = Arc::new(arrow::datatypes::Schema::new(vec![
        ls.schema.field(1).as_ref().clone(),
        rs.schema.field(1).as_ref().clone(),
    ]));
    let l = col("lv", 0);
    let r = col("rv", 1);
    let e: Arc<dyn PhysicalExpr> = match c.f.as_str() {
        "lt" => Arc::new(BinaryExpr::new(l, Operator::Lt, r)),
        "le" => Arc::new(BinaryExpr::new(l, Operator::LtEq, r)),
        "gt" => Arc::new(BinaryExpr::new(l, Operator::Gt, r)),
        "ge" => Arc::new(BinaryExpr::new(l, Operator::GtEq, r)),
        "ne" => Arc::new(BinaryExpr::new(l, Operator::NotEq, r)),
        "lnull" => Arc::new(IsNullExpr::new(l)),
        "rnull" => Arc::new(IsNullExpr::new(r)),
        o => panic!("filter {o}"),
    };
    let idx = vec![ColumnIndex { index: 1, side: JoinSide::Left }, ColumnIndex { index: 1, side: JoinSide::Right }];
    Some(JoinFilter::new(e, idx, schema))
}

/// whole join condition as a filter (nested loop join); intermediate schema = [lk, lv, rk, rv]
fn full_filter(c: &Case, ls: &Side, rs: &Side) -> Option<JoinFilter> {
    let mut conj: Vec<Arc<dyn PhysicalExpr>> = vec![];
    let names = ["lk", "lv", "rk", "rv"];
    for k in 0..c.nk {
        let op = if c.nen { Operator::IsNotDistinctFrom } else { Operator::Eq };
        conj.push(Arc::new(BinaryExpr::new(col(names[k], k), op, col(names[2 + k], 2 + k))));
    }
    let l = col("lv", 1);
    let r = col("rv", 3);
    match c.f.as_str() {
        "none" => {}
        "lt" => conj.push(Arc::new(BinaryExpr::new(l, Operator::Lt, r))),
        "le" => conj.push(Arc::new(BinaryExpr::new(l, Operator::LtEq, r))),
        "gt" => conj.push(Arc::new(BinaryExpr::new(l, Operator::Gt, r))),
        "ge" => conj.push(Arc::new(BinaryExpr::new(l, Operator::GtEq, r))),
        "ne" => conj.push(Arc::new(BinaryExpr::new(l, Operator::NotEq, r))),
        "lnull" => conj.push(Arc::new(IsNullExpr::new(l))),
        "rnull" => conj.push(Arc::new(IsNullExpr::new(r))),
        o => panic!("filter {o}"),
    }
    let mut it = conj.into_iter();
    let first = it.next()?;
    let e = it.fold(first, |a, b| Arc::new(BinaryExpr::new(a, Operator::And, b)) as Arc<dyn PhysicalExpr>);
    let schema = Arc::new(arrow::datatypes::Schema::new(vec![
        ls.schema.field(0).as_ref().clone(),
        ls.schema.field(1).as_ref().clone(),
        rs.schema.field(0).as_ref().clone(),
        rs.schema.field(1).as_ref().clone(),
    ]));
    let idx = vec![
        ColumnIndex { index: 0, side: JoinSide::Left },
        ColumnIndex { index: 1, side: JoinSide::Left },
        ColumnIndex { index: 0, side: JoinSide::Right },
        ColumnIndex { index: 1, side: JoinSide::Right },
    ];
    Some(JoinFilter::new(e, idx, schema))
}

fn on_keys(c: &Case) -> Vec<(Arc<dyn PhysicalExpr>, Arc<dyn PhysicalExpr>)> {
    let ln = ["lk", "lv"];
    let rn = ["rk", "rv"];
    (0..c.nk).map(|k| (col(ln[k], k), col(rn[k], k))).collect()
}

fn null_eq(c: &Case) -> NullEquality {
    if c.nen { NullEquality::NullEqualsNull } else { NullEquality::NullEqualsNothing }
}

fn build_plan(c: &Case, v: &Variant) -> Result<Arc<dyn ExecutionPlan>, String> {
    let ls = side(c, v, true);
    let rs = side(c, v, false);
    let e2s = |e: datafusion_common::DataFusionError| format!("plan construction failed: {e}");
    match v.op {
        "hash_collect" => {
            let left = mem_exec(&ls, partition(&c.l, &PartBy::Single), v.inb, None)?;
            let rp = if v.parts == 1 { PartBy::Single } else { PartBy::RoundRobin(v.parts) };
            let right = mem_exec(&rs, partition(&c.r, &rp), v.inb, None)?;
            let j = HashJoinExec::try_new(
                left,
                right,
                on_keys(c),
                residual(c, &ls, &rs),
                &c.jt,
                None,
                PartitionMode::CollectLeft,
                null_eq(c),
                c.na,
            )
            .map_err(e2s)?;
            Ok(Arc::new(j))
        }
        "hash_partitioned" => {
            let by = if v.parts == 1 { PartBy::Single } else { PartBy::Key(v.parts) };
            let left = mem_exec(&ls, partition(&c.l, &by), v.inb, None)?;
            let right = mem_exec(&rs, partition(&c.r, &by), v.inb, None)?;
            let j = HashJoinExec::try_new(
                left,
                right,
                on_keys(c),
                residual(c, &ls, &rs),
                &c.jt,
                None,
                PartitionMode::Partitioned,
                null_eq(c),
                false,
            )
            .map_err(e2s)?;
            Ok(Arc::new(j))
        }
        "smj" => {
            let by = if v.parts == 1 { PartBy::Single } else { PartBy::Key(v.parts) };
            let cols: Vec<usize> = (0..c.nk).collect();
            let mut lp = partition(&c.l, &by);
            let mut rp = partition(&c.r, &by);
            for p in lp.iter_mut().chain(rp.iter_mut()) {
                sort_rows(p, &cols, v.desc, v.nulls_first);
            }
            let so = SortOptions { descending: v.desc, nulls_first: v.nulls_first };
            let lord = LexOrdering::new((0..c.nk).map(|k| PhysicalSortExpr::new(on_keys(c)[k].0.clone(), so)));
            let rord = LexOrdering::new((0..c.nk).map(|k| PhysicalSortExpr::new(on_keys(c)[k].1.clone(), so)));
            let left = mem_exec(&ls, lp, v.inb, lord)?;
            let right = mem_exec(&rs, rp, v.inb, rord)?;
            let j = SortMergeJoinExec::try_new(left, right, on_keys(c), residual(c, &ls, &rs), c.jt, vec![so; c.nk], null_eq(c))
                .map_err(e2s)?;
            Ok(Arc::new(j))
        }
        "nlj" => {
            let left = mem_exec(&ls, partition(&c.l, &PartBy::Single), v.inb, None)?;
            let rp = if v.parts == 1 { PartBy::Single } else { PartBy::RoundRobin(v.parts) };
            let right = mem_exec(&rs, partition(&c.r, &rp), v.inb, None)?;
            let j = NestedLoopJoinExec::try_new(left, right, full_filter(c, &ls, &rs), &c.jt, None).map_err(e2s)?;
            Ok(Arc::new(j))
        }
        "shj_single" | "shj_partitioned" | "shj_pruning" => {
            let (by, mode) = if v.op == "shj_partitioned" {
                (if v.parts == 1 { PartBy::Single } else { PartBy::Key(v.parts) }, StreamJoinPartitionMode::Partitioned)
            } else {
                (PartBy::Single, StreamJoinPartitionMode::SinglePartition)
            };
            let mut lp = partition(&c.l, &by);
            let mut rp = partition(&c.r, &by);
            let (mut lord, mut rord) = (None, None);
            if v.op == "shj_pruning" {
                // inputs sorted on the payload column (ascending, NULLs last) so that the range filter
                // on lv/rv lets the operator prune its hash tables while streaming
                for p in lp.iter_mut().chain(rp.iter_mut()) {
                    sort_rows(p, &[1], false, false);
                }
                let so = SortOptions { descending: false, nulls_first: false };
                lord = LexOrdering::new(vec![PhysicalSortExpr::new(col("lv", 1), so)]);
                rord = LexOrdering::new(vec![PhysicalSortExpr::new(col("rv", 1), so)]);
            }
            let left = mem_exec(&ls, lp, v.inb, lord.clone())?;
            let right = mem_exec(&rs, rp, v.inb, rord.clone())?;
            let j = SymmetricHashJoinExec::try_new(
                left,
                right,
                on_keys(c),
                residual(c, &ls, &rs),
                &c.jt,
                null_eq(c),
                lord,
                rord,
                mode,
            )
            .map_err(e2s)?;
            Ok(Arc::new(j))
        }
        "cross" => {
            let left = mem_exec(&ls, partition(&c.l, &PartBy::Single), v.inb, None)?;
            let rp = if v.parts == 1 { PartBy::Single } else { PartBy::RoundRobin(v.parts) };
            let right = mem_exec(&rs, partition(&c.r, &rp), v.inb, None)?;
            Ok(Arc::new(CrossJoinExec::new(left, right)))
        }
        "pwmj" => {
            let op = match c.f.as_str() {
                "lt" => Operator::Lt,
                "le" => Operator::LtEq,
                "gt" => Operator::Gt,
                "ge" => Operator::GtEq,
                o => panic!("pwmj filter {o}"),
            };
            let rp = if v.parts == 1 { PartBy::Single } else { PartBy::RoundRobin(v.parts) };
            // learn the sort order the operator requires for its buffered (left) side
            let probe = PiecewiseMergeJoinExec::try_new(
                mem_exec(&ls, vec![vec![]], v.inb, None)?,
                mem_exec(&rs, vec![vec![]], v.inb, None)?,
                (col("lv", 1), col("rv", 1)),
                op,
                c.jt,
                v.parts,
            )
            .map_err(e2s)?;
            let so = *probe.sort_options();
            let mut lrows = c.l.clone();
            sort_rows(&mut lrows, &[1], so.descending, so.nulls_first);
            let lord = LexOrdering::new(vec![PhysicalSortExpr::new(col("lv", 1), so)]);
            let left = mem_exec(&ls, vec![lrows], v.inb, lord)?;
            let right = mem_exec(&rs, partition(&c.r, &rp), v.inb, None)?;
            let j = PiecewiseMergeJoinExec::try_new(left, right, (col("lv", 1), col("rv", 1)), op, c.jt, v.parts).map_err(e2s)?;
            Ok(Arc::new(j))
        }
        o => Err(format!("unknown operator {o}")),
    }
}

fn task_ctx(v: &Variant) -> Result<Arc<TaskContext>, String> {
    let mut cfg = SessionConfig::new().with_batch_size(v.outb);
    if v.wide {
        // force the chained hash-map path even for small integer keys
        cfg.options_mut().execution.perfect_hash_join_small_build_threshold = 0;
        cfg.options_mut().execution.perfect_hash_join_min_key_density = f64::INFINITY;
    }
    let mut ctx = TaskContext::default().with_session_config(cfg);
    if v.mem > 0 {
        let b = RuntimeEnvBuilder::new();
        let b = if v.mem % 1000 == 0 {
            b.with_memory_pool(Arc::new(FairSpillPool::new(v.mem)))
        } else {
            b.with_memory_pool(Arc::new(GreedyMemoryPool::new(v.mem)))
        };
        let rt = b.build_arc().map_err(|e| format!("runtime env: {e}"))?;
        ctx = ctx.with_runtime(rt);
    }
    Ok(Arc::new(ctx))
}

thread_local! {
    /// spill files written by the last successful evaluation on this thread (operator metrics)
    static LAST_SPILLS: std::cell::Cell<usize> = const { std::cell::Cell::new(0) };
}

#[derive(Debug)]
enum Outcome {
    Ok,
    /// resource exhaustion under a tight budget (accepted)
    Exhausted,
    /// the engine refused the plan (not-implemented / plan error): counted, not a violation
    Unsupported(String),
    Violation(String, Value),
}

fn expected_names(c: &Case) -> Vec<&'static str> {
    match c.jt {
        JoinType::Inner | JoinType::Left | JoinType::Right | JoinType::Full => vec!["lk", "lv", "rk", "rv"],
        JoinType::LeftSemi | JoinType::LeftAnti => vec!["lk", "lv"],
        JoinType::RightSemi | JoinType::RightAnti => vec!["rk", "rv"],
        JoinType::LeftMark => vec!["lk", "lv", "mark"],
        JoinType::RightMark => vec!["rk", "rv", "mark"],
    }
}

fn run_variant(rt: &tokio::runtime::Runtime, c: &Case, v: &Variant) -> Outcome {
    let plan = match build_plan(c, v) {
        Ok(p) => p,
        Err(e) => {
            // every (case, operator) pair offered here is supported by the operator's documented rules
            return Outcome::Violation(format!("operator rejected a supported join: {e}"), Value::Null);
        }
    };
    let ctx = match task_ctx(v) {
        Ok(c) => c,
        Err(e) => return Outcome::Unsupported(e),
    };
    let res = std::panic::catch_unwind(AssertUnwindSafe(|| rt.block_on(datafusion_physical_plan::collect(plan.clone(), ctx))));
    let batches = match res {
        Err(p) => {
            let msg = p.downcast_ref::<String>().cloned().or_else(|| p.downcast_ref::<&str>().map(|s| s.to_string())).unwrap_or_default();
            return Outcome::Violation(format!("operator panicked: {msg}"), Value::Null);
        }
        Ok(Err(e)) => {
            let s = e.to_string();
            if v.mem > 0 && (s.contains("Resources exhausted") || s.contains("ResourcesExhausted") || s.contains("memory")) {
                return Outcome::Exhausted;
            }
            return Outcome::Violation(format!("operator failed: {s}"), Value::Null);
        }
        Ok(Ok(b)) => b,
    };
    // schema: names, types, declared nullability
    let schema = plan.schema();
    let names = expected_names(c);
    let got_names: Vec<&str> = schema.fields().iter().map(|f| f.name().as_str()).collect();
    if got_names != names {
        return Outcome::Violation(format!("output columns {got_names:?}, expected {names:?}"), Value::Null);
    }
    let exp_nullable: Vec<bool> = if v.all_nullable {
        // all inputs declared nullable: every data column nullable, mark column never
        names.iter().map(|n| *n != "mark").collect()
    } else {
        c.nullable.clone()
    };
    let got_nullable: Vec<bool> = schema.fields().iter().map(|f| f.is_nullable()).collect();
    if got_nullable != exp_nullable {
        return Outcome::Violation(format!("declared nullability {got_nullable:?}, expected {exp_nullable:?}"), Value::Null);
    }
    for b in &batches {
        if b.schema().fields() != schema.fields() {
            return Outcome::Violation(format!("batch schema {:?} differs from plan schema {:?}", b.schema(), schema), Value::Null);
        }
        if v.outb < 8192 && b.num_rows() > v.outb.max(1) && !matches!(v.op, "shj_single" | "shj_partitioned" | "shj_pruning") {
            // not part of the property (bag semantics); recorded only
        }
        for (i, col) in b.columns().iter().enumerate() {
            if !got_nullable[i] && col.null_count() > 0 {
                return Outcome::Violation(format!("NULL in column {} declared non-nullable", names[i]), Value::Null);
            }
        }
    }
    let rows = match decode_batches(&batches) {
        Ok(r) => r,
        Err(e) => return Outcome::Violation(format!("undecodable output: {e}"), Value::Null),
    };
    if !same_bag(&rows, &c.expect) {
        return Outcome::Violation(
            format!("result bag differs: got {} rows, expected {}", rows.len(), c.expect.len()),
            rows_to_json(&rows),
        );
    }
    LAST_SPILLS.with(|s| s.set(plan.metrics().and_then(|m| m.spill_count()).unwrap_or(0)));
    Outcome::Ok
}

fn sub_bag(a: &[Row], b: &[Row]) -> bool {
    let mut m: BTreeMap<&Row, i64> = BTreeMap::new();
    for r in b {
        *m.entry(r).or_default() += 1;
    }
    for r in a {
        let e = m.entry(r).or_default();
        *e -= 1;
        if *e < 0 {
            return false;
        }
    }
    true
}

/// Key of a violation for known_findings.json.  Two genuine defects of the nested-loop join's
/// memory-limited fallback are recognised narrowly (same case passes with an ample budget, and the
/// observed bag deviates in exactly the documented direction); everything else gets a generic key.
fn classify(rt: &tokio::runtime::Runtime, c: &Case, v: &Variant, msg: &str, observed: &Value) -> String {
    let generic = format!("{}|{}|nen={}|nk={}|f={}|na={}", v.op, c.jt_name, c.nen, c.nk, c.f, c.na);
    // (3) SortMergeJoinExec, outer join with a residual filter: the filter batch is built with the filter's
    //     schema although the null-extended side holds NULLs -> Arrow error when that column is declared
    //     non-nullable.  Recognised by: same case passes when the inputs are declared nullable.
    if v.op == "smj"
        && !v.all_nullable
        && c.f != "none"
        && matches!(c.jt, JoinType::Left | JoinType::Right | JoinType::Full)
        && msg.contains("declared as non-nullable but contains null values")
    {
        let mut alt = v.clone();
        alt.all_nullable = true;
        if matches!(run_variant(rt, c, &alt), Outcome::Ok | Outcome::Exhausted) {
            return "smj:outer-join-with-filter:filter-batch-uses-non-nullable-input-field".to_string();
        }
        return generic;
    }
    // (4) SymmetricHashJoinExec with NullEqualsNull: the build-side hash buffer is resized but not cleared,
    //     so NULL keys (whose slot is left untouched by create_hashes) inherit the hash of an earlier batch
    //     and later lookups miss them.  Recognised by: NULL keys on both sides, several input batches, and
    //     the same case passes when each side arrives as one batch.
    if v.op.starts_with("shj") && c.nen && v.inb < 8192 && observed.is_array() {
        let has_null_key = |rows: &[Row]| rows.iter().any(|r| (0..c.nk).any(|k| r[k] == Val::Null));
        if has_null_key(&c.l) && has_null_key(&c.r) {
            let mut alt = v.clone();
            alt.inb = 8192;
            if matches!(run_variant(rt, c, &alt), Outcome::Ok) {
                return "shj:null-equals-null:stale-build-hash-of-null-keys-across-batches".to_string();
            }
        }
        return generic;
    }
    if v.op != "nlj" || v.mem == 0 || !observed.is_array() {
        return generic;
    }
    let mut ample = v.clone();
    ample.mem = 0;
    if !matches!(run_variant(rt, c, &ample), Outcome::Ok) {
        return generic;
    }
    let got = rows_from_json(observed);
    let right_emitting =
        matches!(c.jt, JoinType::Right | JoinType::Full | JoinType::RightSemi | JoinType::RightAnti | JoinType::RightMark);
    let left_emitting = matches!(c.jt, JoinType::Left | JoinType::LeftSemi | JoinType::LeftAnti | JoinType::LeftMark);
    if right_emitting && sub_bag(&got, &c.expect) {
        return "nlj-memory-limited-fallback:right-side-final-emission-skipped-at-chunk-boundary".to_string();
    }
    if left_emitting && v.parts > 1 && sub_bag(&c.expect, &got) {
        return "nlj-memory-limited-fallback:left-side-final-emission-per-partition".to_string();
    }
    generic
}

pub fn main() {
    let inp = vcommon::util::arg("--in").expect("--in");
    let outp = vcommon::util::arg("--out").expect("--out");
    let threads: usize = vcommon::util::arg("--threads").and_then(|s| s.parse().ok()).unwrap_or(4);
    let picks_n: usize = vcommon::util::arg("--picks").and_then(|s| s.parse().ok()).unwrap_or(6);
    let seed = vcommon::util::seed();
    let raw = vcommon::util::read_ndjson(&inp);
    // replay mode: the file holds {"case":..., "variant":...} records
    let replay = vcommon::util::has_flag("--replay");
    let cases: Vec<Case> = raw
        .iter()
        .enumerate()
        .map(|(i, v)| if replay { parse_case(v["case"]["idx"].as_u64().unwrap_or(i as u64) as usize, &v["case"]) } else { parse_case(i, v) })
        .collect();
    let fixed: Vec<Option<Variant>> = raw.iter().map(|v| if replay { Some(Variant::from_json(&v["variant"])) } else { None }).collect();

    if std::env::var("VOPS_DEBUG").is_err() {
        std::panic::set_hook(Box::new(|_| {}));
    }
    let next = AtomicUsize::new(0);
    let violations: Mutex<Vec<Value>> = Mutex::new(vec![]);
    let stats: Mutex<BTreeMap<String, u64>> = Mutex::new(BTreeMap::new());
    let samples: Mutex<Vec<Value>> = Mutex::new(vec![]);
    let distinct: Mutex<std::collections::HashSet<u64>> = Mutex::new(Default::default());
    let wd = Watchdog::start(threads, outp.clone());
    let widx = AtomicUsize::new(0);
    std::thread::scope(|s| {
        for _ in 0..threads {
            s.spawn(|| {
                let w = widx.fetch_add(1, Ordering::Relaxed);
                let rt = tokio::runtime::Builder::new_current_thread().enable_all().build().unwrap();
                let mut local: BTreeMap<String, u64> = BTreeMap::new();
                let mut local_distinct: Vec<u64> = vec![];
                loop {
                    let i = next.fetch_add(1, Ordering::Relaxed);
                    if i >= cases.len() {
                        break;
                    }
                    let c = &cases[i];
                    let vs = match &fixed[i] {
                        Some(v) => vec![v.clone()],
                        None => variants(c, seed, picks_n),
                    };
                    let nontrivial = !c.l.is_empty() && !c.r.is_empty();
                    for v in &vs {
                        wd.enter(w, json!({"case": c.raw, "variant": v.to_json()}).to_string());
                        let o = run_variant(&rt, c, v);
                        wd.leave(w);
                        *local.entry("evaluations".into()).or_default() += 1;
                        *local.entry(format!("op:{}", v.op)).or_default() += 1;
                        *local.entry(format!("jt:{}", c.jt_name)).or_default() += 1;
                        *local.entry(format!("op_jt:{}:{}", v.op, c.jt_name)).or_default() += 1;
                        if v.parts > 1 {
                            *local.entry("multi_partition".into()).or_default() += 1;
                        }
                        if v.mem > 0 {
                            *local.entry("tight_memory".into()).or_default() += 1;
                        }
                        match o {
                            Outcome::Ok => {
                                *local.entry("ok".into()).or_default() += 1;
                                if v.mem > 0 && LAST_SPILLS.with(|s| s.get()) > 0 {
                                    *local.entry(format!("spilled:{}", v.op)).or_default() += 1;
                                    *local.entry(format!("spilled_jt:{}:{}", v.op, c.jt_name)).or_default() += 1;
                                }
                                if nontrivial {
                                    use std::hash::{Hash, Hasher};
                                    let mut h = std::collections::hash_map::DefaultHasher::new();
                                    (c.raw.to_string(), v.name()).hash(&mut h);
                                    local_distinct.push(h.finish());
                                }
                            }
                            Outcome::Exhausted => *local.entry("resources_exhausted_accepted".into()).or_default() += 1,
                            Outcome::Unsupported(e) => {
                                *local.entry("unsupported".into()).or_default() += 1;
                                *local.entry(format!("unsupported:{}:{}", v.op, &e[..e.len().min(60)])).or_default() += 1;
                            }
                            Outcome::Violation(msg, got) => {
                                let mut case = c.raw.clone();
                                case["idx"] = json!(c.idx);
                                violations.lock().unwrap().push(json!({
                                    "case": case, "variant": v.to_json(), "variant_name": v.name(),
                                    "message": msg, "observed": got,
                                    "key": classify(&rt, c, v, &msg, &got),
                                }));
                            }
                        }
                    }
                    if i < 3 {
                        samples.lock().unwrap().push(json!({"case": c.raw, "variants": vs.iter().map(|v| v.name()).collect::<Vec<_>>()}));
                    }
                }
                let mut g = stats.lock().unwrap();
                for (k, n) in local {
                    *g.entry(k).or_default() += n;
                }
                distinct.lock().unwrap().extend(local_distinct);
            });
        }
    });
    let stats = stats.into_inner().unwrap();
    let violations = violations.into_inner().unwrap();
    let out = json!({
        "cases": cases.len(),
        "evaluations": stats.get("evaluations").copied().unwrap_or(0),
        "distinct_nontrivial": distinct.into_inner().unwrap().len(),
        "stats": stats,
        "violations": violations,
        "samples": samples.into_inner().unwrap(),
    });
    std::fs::write(&outp, serde_json::to_string(&out).unwrap()).unwrap();
    vcommon::util::summary(json!({"cases": cases.len(), "evaluations": out["evaluations"], "violations": out["violations"].as_array().unwrap().len()}));
}
