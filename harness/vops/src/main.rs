//! vops — operator-level conformance drivers (B3): C05 joins, C08 sorts.
mod c05;
mod c08;
mod val;

fn main() {
    let a: Vec<String> = std::env::args().collect();
    match a.get(1).map(|s| s.as_str()) {
        Some("c05") => c05::main(),
        Some("c08") => c08::main(),
        _ => {
            eprintln!("usage: vops <c05|c08> --in FILE --out FILE [--threads N]");
            std::process::exit(2);
        }
    }
}
