//! C08 — sorting, merging and TopK return correctly ordered results.
//!
//! Input: NDJSON cases printed by TLC from spec/ops/SortGen.tla: input rows, sort keys (asc/desc x
//! nulls first/last per key), fetch, the canonical sorted permutation computed by spec/lib/Sort.tla,
//! a prefix-sorted permutation, a partition assignment for merge inputs and the expected rows of
//! per-partition TopK.  Each case is run on every real sort path; oracle:
//!   key sequence of the output = key sequence of the first k rows of the specification's sorted
//!   permutation  /\  output is a sub-bag of the input (row ids make rows distinct).
use crate::val::*;
use arrow::array::Array;
use arrow::compute::SortOptions;
use arrow::datatypes::SchemaRef;
use arrow::record_batch::RecordBatch;
use datafusion_execution::TaskContext;
use datafusion_execution::config::SessionConfig;
use datafusion_execution::memory_pool::{FairSpillPool, GreedyMemoryPool};
use datafusion_execution::runtime_env::RuntimeEnvBuilder;
use datafusion_physical_expr::expressions::Column;
use datafusion_physical_expr::{LexOrdering, PhysicalSortExpr};
use datafusion_execution::disk_manager::DiskManagerBuilder;
use datafusion_execution::memory_pool::{MemoryConsumer, MemoryPool, UnboundedMemoryPool};
use datafusion_physical_plan::ExecutionPlan;
use datafusion_physical_plan::metrics::{BaselineMetrics, ExecutionPlanMetricsSet, SpillMetrics};
use datafusion_physical_plan::sorts::streaming_merge::{SortedSpillFile, StreamingMergeBuilder};
use datafusion_physical_plan::spill::{SpillManager, get_record_batch_memory_size};
use datafusion_physical_plan::stream::RecordBatchStreamAdapter;
use futures::TryStreamExt;
use datafusion_physical_plan::sorts::partial_sort::PartialSortExec;
use datafusion_physical_plan::sorts::partitioned_topk::{PartitionedTopKExec, WindowFnKind};
use datafusion_physical_plan::sorts::sort::SortExec;
use datafusion_physical_plan::sorts::sort_preserving_merge::SortPreservingMergeExec;
use datafusion_physical_plan::test::TestMemoryExec;
use serde_json::{Value, json};
use std::collections::BTreeMap;
use std::panic::AssertUnwindSafe;
use std::sync::atomic::{AtomicUsize, Ordering};
use std::sync::{Arc, Mutex};

#[derive(Clone, Debug)]
struct Key {
    col: usize,
    desc: bool,
    nf: bool,
}

#[derive(Clone, Debug)]
struct Case {
    idx: usize,
    raw: Value,
    types: Vec<String>,
    keys: Vec<Key>,
    rows: Vec<Row>,
    sorted: Vec<Row>,
    presorted: Vec<Row>,
    fetch: i64,
    pl: usize,
    np: usize,
    assign: Vec<usize>,
    ptk_k: usize,
    ptk: BTreeMap<String, Vec<Row>>,
}

fn parse_case(idx: usize, v: &Value) -> Case {
    let mut ptk = BTreeMap::new();
    for k in ["rownumber", "rank", "denserank"] {
        ptk.insert(k.to_string(), rows_from_json(&v["ptk"][k]));
    }
    Case {
        idx,
        raw: v.clone(),
        types: v["types"].as_array().unwrap().iter().map(|t| t.as_str().unwrap().to_string()).collect(),
        keys: v["keys"]
            .as_array()
            .unwrap()
            .iter()
            .map(|k| Key {
                col: k["col"].as_u64().unwrap() as usize - 1,
                desc: k["desc"].as_bool().unwrap(),
                nf: k["nf"].as_bool().unwrap(),
            })
            .collect(),
        rows: rows_from_json(&v["rows"]),
        sorted: rows_from_json(&v["sorted"]),
        presorted: rows_from_json(&v["presorted"]),
        fetch: v["fetch"].as_i64().unwrap(),
        pl: v["pl"].as_u64().unwrap() as usize,
        np: v["np"].as_u64().unwrap() as usize,
        assign: v["assign"].as_array().unwrap().iter().map(|a| a.as_u64().unwrap() as usize - 1).collect(),
        ptk_k: v["ptk"]["k"].as_u64().unwrap() as usize,
        ptk,
    }
}

const OPS: [&str; 12] = [
    "spill_merge",
    "sort_sweep",
    "sort",
    "sort_pp_spm",
    "spm",
    "partial",
    "topk_prefix",
    "sorted_input",
    "sort_coalesced_batches",
    "ptk_rownumber",
    "ptk_rank",
    "ptk_denserank",
];

#[derive(Clone, Debug)]
struct Variant {
    op: &'static str,
    inb: usize,
    outb: usize,
    /// memory pool limit (0 = unbounded); x000 = FairSpillPool, otherwise GreedyMemoryPool
    mem: usize,
    /// sort_spill_reservation_bytes
    spill_res: usize,
    /// sort_in_place_threshold_bytes = 0 (forces per-batch sort + streaming merge of in-memory runs)
    no_in_place: bool,
    /// explicit sort_in_place_threshold_bytes (0 = not set): mid values make the sorter coalesce
    /// several buffered batches into one run
    thr: usize,
    /// arrow type choice per key column (index into the per-kind type list)
    tysel: u64,
    /// put empty batches at the start / in the middle / at the end of every input stream
    empties: bool,
    /// SortPreservingMergeExec / StreamingMergeBuilder round-robin tie breaker
    rr: bool,
    /// DiskManager max_spill_merge_fan_in (0 = unlimited)
    fan_in: usize,
    // ---- spill_merge lane (sorted runs spilled directly, merged by StreamingMergeBuilder)
    /// number of sorted runs
    runs: usize,
    /// how the sorted rows are dealt to the runs: 0 round-robin, 1 skewed, 2 contiguous blocks, 3 TLC's assignment
    pattern: usize,
    /// rows per spilled batch (0 = the whole run as one batch)
    brows: usize,
    /// merge budget = fq/4 x (memory of the largest spilled batch); 0 = unbounded
    fq: usize,
    /// FairSpillPool instead of GreedyMemoryPool
    fair: bool,
    /// the last run is handed over as an in-memory stream instead of a spill file
    mixed: bool,
    // ---- sort_sweep lane: SortExec under a budget of gq/20 x (bytes the sorter reserves for the whole input)
    gq: usize,
}

impl Variant {
    fn base(op: &'static str) -> Variant {
        Variant {
            op,
            inb: 8192,
            outb: 8192,
            mem: 0,
            spill_res: 0,
            no_in_place: false,
            thr: 0,
            tysel: 0,
            empties: false,
            rr: true,
            fan_in: 0,
            runs: 2,
            pattern: 0,
            brows: 0,
            fq: 0,
            fair: false,
            mixed: false,
            gq: 0,
        }
    }
    fn name(&self) -> String {
        format!(
            "{} inb={} outb={} mem={} spill_res={} no_in_place={} thr={} tysel={} empties={} rr={} fan_in={} runs={} pattern={} brows={} fq={} fair={} mixed={} gq={}",
            self.op, self.inb, self.outb, self.mem, self.spill_res, self.no_in_place, self.thr, self.tysel, self.empties,
            self.rr, self.fan_in, self.runs, self.pattern, self.brows, self.fq, self.fair, self.mixed, self.gq
        )
    }
    fn to_json(&self) -> Value {
        json!({"op": self.op, "inb": self.inb, "outb": self.outb, "mem": self.mem, "spill_res": self.spill_res,
               "no_in_place": self.no_in_place, "thr": self.thr, "tysel": self.tysel, "empties": self.empties, "rr": self.rr,
               "fan_in": self.fan_in, "runs": self.runs, "pattern": self.pattern, "brows": self.brows, "fq": self.fq,
               "fair": self.fair, "mixed": self.mixed, "gq": self.gq})
    }
    fn from_json(v: &Value) -> Variant {
        let op = v["op"].as_str().unwrap();
        let mut r = Variant::base(OPS.iter().find(|o| **o == op).expect("op name"));
        let u = |k: &str, d: usize| v[k].as_u64().map(|x| x as usize).unwrap_or(d);
        let b = |k: &str, d: bool| v[k].as_bool().unwrap_or(d);
        r.inb = u("inb", r.inb);
        r.outb = u("outb", r.outb);
        r.mem = u("mem", 0);
        r.spill_res = u("spill_res", 0);
        r.no_in_place = b("no_in_place", false);
        r.thr = u("thr", 0);
        r.tysel = v["tysel"].as_u64().unwrap_or(0);
        r.empties = b("empties", false);
        r.rr = b("rr", true);
        r.fan_in = u("fan_in", 0);
        r.runs = u("runs", 2);
        r.pattern = u("pattern", 0);
        r.brows = u("brows", 0);
        r.fq = u("fq", 0);
        r.fair = b("fair", false);
        r.mixed = b("mixed", false);
        r.gq = u("gq", 0);
        r
    }
}

fn supports(c: &Case, op: &str) -> bool {
    let nk = c.keys.len();
    match op {
        // TopK asserts k > 0 (LIMIT 0 never reaches the operator: the optimizer plans an empty relation)
        "sort" | "sort_pp_spm" | "sort_coalesced_batches" => c.fetch != 0,
        "spm" | "sorted_input" => true,
        "spill_merge" => c.sorted.len() >= 2,
        "sort_sweep" => c.rows.len() >= 4,
        "partial" => nk >= 2,
        "topk_prefix" => nk >= 2 && c.fetch >= 1,
        "ptk_rownumber" | "ptk_rank" | "ptk_denserank" => nk >= 2 && c.ptk_k >= 1,
        _ => false,
    }
}

/// memory budgets (bytes) tried by the spill lane; x000 values use FairSpillPool, the others GreedyMemoryPool
const MEM_LADDER: [usize; 10] = [1501, 2000, 3001, 4000, 6001, 8000, 12001, 16000, 24001, 48000];

const BROWS: [usize; 7] = [1, 3, 5, 7, 33, 1025, 0];

fn variants(c: &Case, seed: u64, picks_n: usize) -> Vec<Variant> {
    let mut out = vec![];
    let h0 = mix(seed ^ mix(c.idx as u64 + 7));
    let n = c.rows.len();
    let large = n > 200;
    for (oi, op) in OPS.iter().enumerate() {
        if !supports(c, op) {
            continue;
        }
        if *op == "spill_merge" {
            // (A) two runs, fan-in unlimited: the budget is swept from 1.5x to 6x the largest spilled batch
            //     in steps of 0.25 on both pool kinds, so the refusal (< 2x), the halving/re-spill path
            //     (2x..4x), and the direct path (>= 4x) all occur by construction.
            let combos = if large { 2 } else { 1 };
            for ci in 0..combos {
                let h = mix(h0 ^ mix(0xA000 + ci as u64));
                let usable: Vec<usize> = BROWS.iter().copied().filter(|b| *b == 0 || (*b > 1 && *b * 2 <= n.max(4))).collect();
                let brows = if large { [0usize, 1025, 33][((h >> 3) as usize + ci) % 3] } else { usable[(h % usable.len() as u64) as usize] };
                // the full sweep (0.25 steps, both pools) for every third input of 10..200 rows and (0.5 steps)
                // for large inputs; the other inputs get a few seeded points of the sweep
                let small = n < 10;
                let full = large || (!small && c.idx % 3 == 0);
                for fq in (6..=24).step_by(if large { 2 } else { 1 }) {
                    for fair in [false, true] {
                        if !full {
                            let hh = mix(h ^ ((fq as u64) << 1 | fair as u64));
                            // small inputs: ~3 of the 38 points, the others ~8
                            if hh % 38 >= (if small { 3 } else { 8 }) {
                                continue;
                            }
                        }
                        let mut v = Variant::base(op);
                        v.runs = 2;
                        v.pattern = ((h >> 8) % 3) as usize;
                        v.brows = brows;
                        v.fq = fq;
                        v.fair = fair;
                        v.outb = [8192usize, 8192, 3, 2][((h >> 12) % 4) as usize];
                        v.rr = (h >> 16) % 2 == 0;
                        v.tysel = h >> 20;
                        out.push(v);
                    }
                }
            }
            // (B) 3..5 runs, optional fan-in limit, optionally one in-memory stream, TLC's own assignment
            for vi in 0..(if n < 10 { 2 } else { picks_n * 2 }) {
                let h = mix(h0 ^ mix(0xB000 + vi as u64));
                let mut v = Variant::base(op);
                v.runs = [3usize, 5, 4, 2][(h % 4) as usize];
                v.pattern = ((h >> 4) % 4) as usize;
                if v.pattern == 3 {
                    if c.np >= 2 {
                        v.runs = c.np;
                    } else {
                        v.pattern = 0;
                    }
                }
                v.brows = BROWS[((h >> 8) % 7) as usize];
                v.fan_in = [0usize, 2, 3, 2][((h >> 12) % 4) as usize];
                // every other pick has ample memory: with a fan-in limit the reduced-fan-in path is then
                // the only reason for intermediate spills
                v.fq = if vi % 2 == 0 { 0 } else { 6 + ((h >> 16) % 40) as usize };
                v.fair = (h >> 24) % 2 == 0;
                v.mixed = (h >> 25) % 3 == 0;
                v.outb = [8192usize, 1, 3, 2][((h >> 28) % 4) as usize];
                v.rr = (h >> 32) % 2 == 0;
                v.tysel = h >> 34;
                out.push(v);
            }
            continue;
        }
        if *op == "sort_sweep" {
            // SortExec without fetch under budgets relative to what the sorter reserves for the whole input
            for vi in 0..picks_n.max(2) {
                let h = mix(h0 ^ mix(0xC000 + vi as u64));
                let usable: Vec<usize> = BROWS.iter().copied().filter(|b| *b > 0 && *b * 3 <= n.max(3)).collect();
                let inb = if usable.is_empty() { 1 } else { usable[(h % usable.len() as u64) as usize] };
                for gq in [3usize, 5, 7, 9, 12, 15] {
                    if n < 10 && mix(h ^ gq as u64) % 3 != 0 {
                        continue;
                    }
                    let mut v = Variant::base(op);
                    v.inb = inb;
                    // batch_size 8192 makes every spilled run one big batch (skewed: the merge must halve it)
                    v.outb = [8192usize, 8192, 3, 2][((h >> 8) % 4) as usize];
                    v.gq = gq;
                    v.fair = (h >> 12) % 2 == 0;
                    v.fan_in = [0usize, 0, 2, 3][((h >> 16) % 4) as usize];
                    v.no_in_place = (h >> 20) % 2 == 0;
                    v.thr = if (h >> 21) % 3 == 0 { [600usize, 1500, 4000][((h >> 23) % 3) as usize] } else { 0 };
                    v.empties = (h >> 26) % 4 == 0;
                    v.tysel = h >> 28;
                    out.push(v);
                }
            }
            continue;
        }
        if large && !matches!(*op, "sort" | "sort_pp_spm" | "spm" | "sorted_input") {
            continue;
        }
        let cnt = if matches!(*op, "sort" | "sort_pp_spm") { picks_n * 2 } else { picks_n };
        for vi in 0..cnt {
            let h = mix(h0 ^ mix((oi as u64) << 8 | vi as u64));
            let spills = matches!(*op, "sort" | "sort_pp_spm" | "sort_coalesced_batches") && c.fetch < 0;
            // half of the no-fetch sorts run under a tight budget drawn from the ladder
            let big = n > 10;
            let mem = if spills && (big || (h >> 8) % 2 == 0) {
                // budgets measured to produce 1..40 spills on these inputs (lower ones mostly exhaust)
                if big { MEM_LADDER[2 + ((h >> 9) % 7) as usize] } else { MEM_LADDER[2 + ((h >> 9) % 5) as usize] }
            } else {
                0
            };
            let mut v = Variant::base(op);
            // first picks walk the batch-size grid deterministically, the rest are seeded
            v.inb = [1usize, 2, 8192, 3][if vi < 3 { vi } else { (h % 4) as usize }];
            v.outb = [1usize, 2, 8192, 3][((h >> 4) % 4) as usize];
            v.mem = mem;
            v.spill_res = [0usize, 256, 1024][((h >> 12) % 3) as usize];
            v.no_in_place = (h >> 16) % 2 == 0;
            // a mid threshold: above it the sorter merges per-batch runs, below it concatenates; for a
            // single key it coalesces groups of batches up to the threshold
            v.thr = if (h >> 17) % 4 == 0 { [300usize, 900, 2500][((h >> 19) % 3) as usize] } else { 0 };
            v.tysel = h >> 24;
            v.empties = (h >> 21) % 4 == 0;
            v.rr = (h >> 23) % 2 == 0;
            v.pattern = ((h >> 40) % 4) as usize;
            out.push(v);
        }
    }
    out
}

fn col_types(c: &Case, v: &Variant) -> Vec<ColTy> {
    let mut t: Vec<ColTy> = c
        .types
        .iter()
        .enumerate()
        .map(|(j, k)| {
            let s = (v.tysel >> (3 * j)) % 8;
            match k.as_str() {
                "i" => {
                    if s % 2 == 0 {
                        ColTy::I32
                    } else {
                        ColTy::I64
                    }
                }
                "f" => {
                    if s % 2 == 0 {
                        ColTy::F64
                    } else {
                        ColTy::F32
                    }
                }
                "s" => match s % 4 {
                    0 | 1 => ColTy::Utf8,
                    2 => ColTy::Utf8View,
                    _ => ColTy::DictUtf8,
                },
                o => panic!("type {o}"),
            }
        })
        .collect();
    t.push(ColTy::I32); // row id
    t
}

/// wide payload derived from the row id (makes batches big enough for memory budgets to bite)
fn pad_of(id: i64) -> String {
    format!("p{id}_{}", "x".repeat(96))
}

fn with_pad(schema: &SchemaRef, b: RecordBatch) -> RecordBatch {
    let ids = b.column(b.num_columns() - 1).as_any().downcast_ref::<arrow::array::Int32Array>().expect("id column").clone();
    let pad: arrow::array::StringArray = ids.iter().map(|i| i.map(|i| pad_of(i as i64))).collect();
    let mut cols = b.columns().to_vec();
    cols.push(Arc::new(pad));
    RecordBatch::try_new(schema.clone(), cols).expect("pad batch")
}

fn padded_schema(s: &SchemaRef) -> SchemaRef {
    let mut f: Vec<arrow::datatypes::Field> = s.fields().iter().map(|f| f.as_ref().clone()).collect();
    f.push(arrow::datatypes::Field::new("pad", arrow::datatypes::DataType::Utf8, true));
    Arc::new(arrow::datatypes::Schema::new(f))
}

fn schema(c: &Case, tys: &[ColTy]) -> SchemaRef {
    let names: Vec<String> = (0..tys.len()).map(|j| if j + 1 == tys.len() { "id".to_string() } else { format!("k{}", j + 1) }).collect();
    let names_ref: Vec<&str> = names.iter().map(|s| s.as_str()).collect();
    let nullable: Vec<bool> = (0..tys.len()).map(|j| j + 1 != tys.len() || c.rows.is_empty()).collect();
    schema_of(&names_ref, tys, &nullable)
}

fn ordering(c: &Case, nkeys: usize) -> Option<LexOrdering> {
    LexOrdering::new(c.keys.iter().take(nkeys).map(|k| {
        PhysicalSortExpr::new(
            Arc::new(Column::new(&format!("k{}", k.col + 1), k.col)),
            SortOptions { descending: k.desc, nulls_first: k.nf },
        )
    }))
}

/// input batches of one stream: chunks of `inb` rows, optionally with empty batches in between
fn input_batches(schema: &SchemaRef, ps: &SchemaRef, tys: &[ColTy], rows: &[Row], inb: usize, empties: bool) -> Vec<RecordBatch> {
    let mut b: Vec<RecordBatch> = chunk(schema, tys, rows, inb).into_iter().map(|b| with_pad(ps, b)).collect();
    if empties {
        let e = RecordBatch::new_empty(ps.clone());
        let mid = b.len() / 2;
        b.insert(mid, e.clone());
        b.insert(0, e.clone());
        b.push(e);
    }
    b
}

fn mem_exec(
    schema: &SchemaRef,
    tys: &[ColTy],
    parts: &[Vec<Row>],
    v: &Variant,
    sort: Option<LexOrdering>,
) -> Result<Arc<dyn ExecutionPlan>, String> {
    let ps = padded_schema(schema);
    let batches: Vec<Vec<RecordBatch>> = parts.iter().map(|p| input_batches(schema, &ps, tys, p, v.inb, v.empties)).collect();
    let e = TestMemoryExec::try_new(&batches, ps.clone(), None).map_err(|e| format!("mem exec: {e}"))?;
    let e = match sort {
        Some(o) => e.try_with_sort_information(vec![o]).map_err(|e| format!("sort info: {e}"))?,
        None => e,
    };
    let e = Arc::new(e);
    Ok(Arc::new(TestMemoryExec::update_cache(&e)))
}

/// Deal the rows of a sorted sequence to `k` runs; every sub-sequence of a sorted sequence is sorted,
/// so no comparator is involved.  pattern 0 round-robin, 1 skewed (run 0 gets 7 of 8 rows), 2 contiguous
/// blocks (all but one input are exhausted early), 3 the assignment chosen by TLC.
fn deal(c: &Case, k: usize, pattern: usize) -> Vec<Vec<Row>> {
    let k = k.max(1);
    let n = c.sorted.len();
    let mut parts = vec![vec![]; k];
    for (j, r) in c.sorted.iter().enumerate() {
        let p = match pattern {
            0 => j % k,
            1 => {
                if j % 8 != 0 || k == 1 {
                    0
                } else {
                    1 + (j / 8) % (k - 1)
                }
            }
            2 => (j * k / n.max(1)).min(k - 1),
            _ => c.assign[j] % k,
        };
        parts[p].push(r.clone());
    }
    parts
}

struct Built {
    plan: Arc<dyn ExecutionPlan>,
    /// expected rows (canonical) whose key sequence the output must reproduce
    expect: Vec<Row>,
}

fn limit(rows: &[Row], fetch: i64) -> Vec<Row> {
    if fetch < 0 { rows.to_vec() } else { rows.iter().take(fetch as usize).cloned().collect() }
}

fn build(c: &Case, v: &Variant) -> Result<Built, String> {
    let tys = col_types(c, v);
    let sch = schema(c, &tys);
    let nk = c.keys.len();
    let ord = ordering(c, nk).ok_or("empty ordering")?;
    let fetch = if c.fetch < 0 { None } else { Some(c.fetch as usize) };
    let expect = limit(&c.sorted, c.fetch);
    match v.op {
        "sort" | "sort_sweep" => {
            let input = mem_exec(&sch, &tys, &[c.rows.clone()], v, None)?;
            let mut s = SortExec::new(ord, input);
            if fetch.is_some() && v.op == "sort" {
                s = s.with_fetch(fetch);
            }
            let expect = if v.op == "sort_sweep" { c.sorted.clone() } else { expect };
            Ok(Built { plan: Arc::new(s), expect })
        }
        "sort_coalesced_batches" => {
            // uneven batches: first batch holds half of the rows, the rest arrive one by one
            let half = c.rows.len() / 2;
            let tys2 = tys.clone();
            let ps = padded_schema(&sch);
            let mut batches = vec![];
            if half > 0 {
                batches.push(with_pad(&ps, build_batch(&sch, &tys2, &c.rows[..half])));
            }
            batches.extend(chunk(&sch, &tys2, &c.rows[half..], 1).into_iter().map(|b| with_pad(&ps, b)));
            batches.push(RecordBatch::new_empty(ps.clone()));
            let e = TestMemoryExec::try_new_exec(&[batches], ps.clone(), None).map_err(|e| e.to_string())?;
            let mut s = SortExec::new(ord, e);
            if fetch.is_some() {
                s = s.with_fetch(fetch);
            }
            Ok(Built { plan: Arc::new(s), expect })
        }
        "sort_pp_spm" => {
            let mut parts = vec![vec![]; c.np];
            for (i, r) in c.rows.iter().enumerate() {
                parts[i % c.np].push(r.clone());
            }
            let input = mem_exec(&sch, &tys, &parts, v, None)?;
            let mut s = SortExec::new(ord.clone(), input).with_preserve_partitioning(true);
            if fetch.is_some() {
                s = s.with_fetch(fetch);
            }
            let m = SortPreservingMergeExec::new(ord, Arc::new(s)).with_fetch(fetch).with_round_robin_repartition(v.rr);
            Ok(Built { plan: Arc::new(m), expect })
        }
        "spm" => {
            // sorted partitions taken from the specification's sorted permutation
            let parts = deal(c, c.np, if v.pattern == 0 { 3 } else { v.pattern });
            let input = mem_exec(&sch, &tys, &parts, v, Some(ord.clone()))?;
            let m = SortPreservingMergeExec::new(ord, input).with_fetch(fetch).with_round_robin_repartition(v.rr);
            Ok(Built { plan: Arc::new(m), expect })
        }
        "partial" => {
            let pre = ordering(c, c.pl).ok_or("empty prefix")?;
            let input = mem_exec(&sch, &tys, &[c.presorted.clone()], v, Some(pre))?;
            let p = PartialSortExec::new(ord, input, c.pl).with_fetch(fetch);
            Ok(Built { plan: Arc::new(p), expect })
        }
        "topk_prefix" => {
            let pre = ordering(c, c.pl).ok_or("empty prefix")?;
            let input = mem_exec(&sch, &tys, &[c.presorted.clone()], v, Some(pre))?;
            let s = SortExec::new(ord, input).with_fetch(fetch);
            Ok(Built { plan: Arc::new(s), expect })
        }
        "sorted_input" => {
            let input = mem_exec(&sch, &tys, &[c.sorted.clone()], v, Some(ord.clone()))?;
            let mut s = SortExec::new(ord, input);
            if fetch.is_some() {
                s = s.with_fetch(fetch);
            }
            Ok(Built { plan: Arc::new(s), expect })
        }
        "ptk_rownumber" | "ptk_rank" | "ptk_denserank" => {
            let (kind, name) = match v.op {
                "ptk_rownumber" => (WindowFnKind::RowNumber, "rownumber"),
                "ptk_rank" => (WindowFnKind::Rank, "rank"),
                _ => (WindowFnKind::DenseRank, "denserank"),
            };
            let input = mem_exec(&sch, &tys, &[c.rows.clone()], v, None)?;
            let p = PartitionedTopKExec::try_new(input, ord, 1, c.ptk_k, kind).map_err(|e| format!("plan construction failed: {e}"))?;
            Ok(Built { plan: Arc::new(p), expect: c.ptk[name].clone() })
        }
        o => Err(format!("unknown op {o}")),
    }
}

fn pool_of(bytes: usize, fair: bool) -> Arc<dyn MemoryPool> {
    if fair { Arc::new(FairSpillPool::new(bytes)) } else { Arc::new(GreedyMemoryPool::new(bytes)) }
}

/// bytes the external sorter reserves for the whole input (2x the in-memory size of every batch)
fn sorter_reservation_for_input(c: &Case, v: &Variant) -> usize {
    let tys = col_types(c, v);
    let sch = schema(c, &tys);
    let ps = padded_schema(&sch);
    input_batches(&sch, &ps, &tys, &c.rows, v.inb, false).iter().map(|b| 2 * get_record_batch_memory_size(b)).sum()
}

fn task_ctx(c: &Case, v: &Variant) -> Result<Arc<TaskContext>, String> {
    let mut cfg = SessionConfig::new().with_batch_size(v.outb);
    cfg.options_mut().execution.sort_spill_reservation_bytes = v.spill_res;
    if v.no_in_place {
        cfg.options_mut().execution.sort_in_place_threshold_bytes = 0;
    }
    if v.thr > 0 {
        cfg.options_mut().execution.sort_in_place_threshold_bytes = v.thr;
    }
    let mut ctx = TaskContext::default().with_session_config(cfg);
    let pool: Option<Arc<dyn MemoryPool>> = if v.op == "sort_sweep" && v.gq > 0 {
        Some(pool_of((sorter_reservation_for_input(c, v) * v.gq / 20).max(64), v.fair))
    } else if v.mem > 0 {
        Some(pool_of(v.mem, v.mem % 1000 == 0))
    } else {
        None
    };
    if pool.is_some() || v.fan_in > 0 {
        let mut b = RuntimeEnvBuilder::new().with_disk_manager_builder(disk_manager(v));
        if let Some(p) = pool {
            b = b.with_memory_pool(p);
        }
        ctx = ctx.with_runtime(b.build_arc().map_err(|e| format!("runtime env: {e}"))?);
    }
    Ok(Arc::new(ctx))
}

fn metric_sum(plan: &Arc<dyn ExecutionPlan>, f: &dyn Fn(&datafusion_physical_plan::metrics::MetricsSet) -> Option<usize>) -> usize {
    if plan.children().is_empty() {
        return 0; // the in-memory test source does not implement metrics()
    }
    let own = plan.metrics().and_then(|m| f(&m)).unwrap_or(0);
    own + plan.children().iter().map(|c| metric_sum(c, f)).sum::<usize>()
}

enum Outcome {
    /// `path` names the merge path that ran (spill_merge / sort_sweep lanes), `odd` = a spilled batch had an
    /// odd number (> 1) of rows
    Ok { spills: usize, path: &'static str, odd: bool },
    Exhausted,
    /// the configuration is outside the operator's domain for this case (counted, not judged)
    Skipped(&'static str),
    Violation(String, Value),
}

fn key_of(c: &Case, r: &Row) -> Vec<Val> {
    c.keys.iter().map(|k| r[k.col].clone()).collect()
}

fn sub_bag(a: &[Row], b: &[Row]) -> bool {
    let mut m: BTreeMap<&Row, i64> = BTreeMap::new();
    for r in b {
        *m.entry(r).or_default() += 1;
    }
    for r in a {
        let e = m.entry(r).or_default();
        *e -= 1;
        if *e < 0 {
            return false;
        }
    }
    true
}

fn is_exhausted(msg: &str) -> bool {
    msg.contains("Resources exhausted") || msg.contains("ResourcesExhausted")
}

/// The property-level oracle shared by all lanes.
fn judge(c: &Case, expect: &[Row], batches: &[RecordBatch]) -> Result<(), (String, Value)> {
    // the pad column must still belong to its row id; then drop it
    let mut projected = vec![];
    for b in batches {
        let n = b.num_columns();
        let ids = b.column(n - 2).as_any().downcast_ref::<arrow::array::Int32Array>();
        let pads = b.column(n - 1).as_any().downcast_ref::<arrow::array::StringArray>();
        match (ids, pads) {
            (Some(ids), Some(pads)) => {
                for i in 0..b.num_rows() {
                    if pads.is_null(i) || ids.is_null(i) || pads.value(i) != pad_of(ids.value(i) as i64) {
                        return Err(("payload column does not belong to its row (columns permuted differently)".to_string(), Value::Null));
                    }
                }
            }
            _ => return Err((format!("unexpected output schema {:?}", b.schema()), Value::Null)),
        }
        projected.push(b.project(&(0..n - 1).collect::<Vec<_>>()).expect("project"));
    }
    let rows = match decode_batches(&projected) {
        Ok(r) => r,
        Err(e) => return Err((format!("undecodable output: {e}"), Value::Null)),
    };
    // large outputs are not echoed into the replay file
    let echo = |rows: &[Row]| if rows.len() <= 200 { rows_to_json(rows) } else { json!(format!("{} rows (not echoed)", rows.len())) };
    let got_keys: Vec<Vec<Val>> = rows.iter().map(|r| key_of(c, r)).collect();
    let exp_keys: Vec<Vec<Val>> = expect.iter().map(|r| key_of(c, r)).collect();
    if got_keys != exp_keys {
        let pos = got_keys.iter().zip(exp_keys.iter()).position(|(a, b)| a != b).unwrap_or(got_keys.len().min(exp_keys.len()));
        return Err((
            format!("key sequence differs from the specification at position {} (got {} rows, expected {})", pos + 1, rows.len(), expect.len()),
            echo(&rows),
        ));
    }
    if !sub_bag(&rows, &c.rows) {
        return Err(("output is not a sub-bag of the input (row duplicated or invented)".to_string(), echo(&rows)));
    }
    Ok(())
}

/// spill_merge lane: sorted runs (taken from the specification's sorted permutation) are written as spill
/// files through SpillManager and merged by StreamingMergeBuilder -> MultiLevelMergeBuilder under a budget
/// that is a multiple of the largest spilled batch.
thread_local! {
    /// one spill directory per worker thread (a fresh DiskManager per evaluation would create and remove
    /// a temporary directory every time)
    static SPILL_DIR: tempfile::TempDir = tempfile::tempdir().expect("spill dir");
}

fn disk_manager(v: &Variant) -> DiskManagerBuilder {
    let dir = SPILL_DIR.with(|d| d.path().to_path_buf());
    DiskManagerBuilder::default()
        .with_mode(datafusion_execution::disk_manager::DiskManagerMode::Directories(vec![dir]))
        .with_max_spill_merge_fan_in(v.fan_in)
}

fn run_spill_merge(rt: &tokio::runtime::Runtime, c: &Case, v: &Variant) -> Outcome {
    let tys = col_types(c, v);
    let sch = schema(c, &tys);
    let ps = padded_schema(&sch);
    let nk = c.keys.len();
    let Some(ord) = ordering(c, nk) else { return Outcome::Violation("empty ordering".into(), Value::Null) };
    let fetch = if c.fetch < 0 { None } else { Some(c.fetch as usize) };
    let expect = limit(&c.sorted, c.fetch);
    let runs: Vec<Vec<Row>> = deal(c, v.runs, v.pattern).into_iter().filter(|r| !r.is_empty()).collect();
    let run_batches: Vec<Vec<RecordBatch>> = runs
        .iter()
        .map(|r| input_batches(&sch, &ps, &tys, r, if v.brows == 0 { r.len() } else { v.brows }, false))
        .collect();
    if run_batches.len() < 2 {
        // a "merge" of a single run is handed through unchanged by StreamingMergeBuilder (fetch is not
        // applied; its callers special-case one input), so it is not a merge case
        return Outcome::Skipped("single_run");
    }
    let n_mem = if v.mixed && run_batches.len() >= 2 { 1 } else { 0 };
    let n_spill = run_batches.len() - n_mem;
    let m = run_batches[..n_spill].iter().flatten().map(get_record_batch_memory_size).max().unwrap_or(0);
    let odd = run_batches[..n_spill].iter().flatten().any(|b| b.num_rows() > 1 && b.num_rows() % 2 == 1);
    let pool: Arc<dyn MemoryPool> = if v.fq == 0 { Arc::new(UnboundedMemoryPool::default()) } else { pool_of(m * v.fq / 4, v.fair) };
    let env = match RuntimeEnvBuilder::new()
        .with_memory_pool(pool.clone())
        .with_disk_manager_builder(disk_manager(v))
        .build_arc()
    {
        Ok(e) => e,
        Err(e) => return Outcome::Violation(format!("runtime env: {e}"), Value::Null),
    };
    let mset = ExecutionPlanMetricsSet::new();
    let spill_metrics = SpillMetrics::new(&mset, 0);
    let sm = SpillManager::new(env, spill_metrics.clone(), ps.clone());
    let mut files = vec![];
    for b in &run_batches[..n_spill] {
        let max_mem = b.iter().map(get_record_batch_memory_size).max().unwrap_or(0);
        match sm.spill_record_batch_and_finish(b, "verif sorted run") {
            Ok(Some(file)) => files.push(SortedSpillFile { file, max_record_batch_memory: max_mem }),
            Ok(None) => {}
            Err(e) => return Outcome::Violation(format!("spilling a run failed: {e}"), Value::Null),
        }
    }
    let mut streams: Vec<datafusion_execution::SendableRecordBatchStream> = vec![];
    for b in &run_batches[n_spill..] {
        let it = futures::stream::iter(b.clone().into_iter().map(Ok));
        streams.push(Box::pin(RecordBatchStreamAdapter::new(ps.clone(), it)));
    }
    let files_before = spill_metrics.spill_file_count.value();
    let n_files = files.len();
    let reservation = MemoryConsumer::new("verif merge").register(&pool);
    let res = std::panic::catch_unwind(AssertUnwindSafe(|| {
        rt.block_on(async {
            let stream = StreamingMergeBuilder::new()
                .with_sorted_spill_files(files)
                .with_streams(streams)
                .with_spill_manager(sm.clone())
                .with_schema(ps.clone())
                .with_expressions(&ord)
                .with_metrics(BaselineMetrics::new(&mset, 0))
                .with_batch_size(v.outb)
                .with_fetch(fetch)
                .with_reservation(reservation)
                .with_round_robin_tie_breaker(v.rr)
                .build()?;
            stream.try_collect::<Vec<RecordBatch>>().await
        })
    }));
    let batches = match res {
        Err(p) => {
            let msg = p.downcast_ref::<String>().cloned().or_else(|| p.downcast_ref::<&str>().map(|s| s.to_string())).unwrap_or_default();
            return Outcome::Violation(format!("merge panicked: {msg}"), Value::Null);
        }
        Ok(Err(e)) => {
            let s = e.to_string();
            if v.fq > 0 && is_exhausted(&s) {
                return Outcome::Exhausted;
            }
            return Outcome::Violation(format!("merge failed: {s}"), Value::Null);
        }
        Ok(Ok(b)) => b,
    };
    if let Err((msg, got)) = judge(c, &expect, &batches) {
        return Outcome::Violation(msg, got);
    }
    let extra = spill_metrics.spill_file_count.value() - files_before;
    // which path ran: with exactly two spill files (and nothing else) a merge never writes an intermediate
    // run, so any additional spill file is a re-spill with halved batches; with ample memory and a fan-in
    // limit any additional file is an intermediate run of the reduced-fan-in path
    let path = if extra == 0 {
        "direct"
    } else if n_files == 2 && n_mem == 0 {
        "halving"
    } else if v.fq == 0 && v.fan_in > 0 {
        "reduced_fan_in"
    } else {
        "multi_pass_or_halving"
    };
    Outcome::Ok { spills: extra, path, odd }
}

fn run_variant(rt: &tokio::runtime::Runtime, c: &Case, v: &Variant) -> Outcome {
    if std::env::var("VOPS_TEST_HANG").is_ok() {
        // self-test of the watchdog lane only
        loop {
            std::thread::sleep(std::time::Duration::from_secs(1));
        }
    }
    if v.op == "spill_merge" {
        return run_spill_merge(rt, c, v);
    }
    let built = match build(c, v) {
        Ok(b) => b,
        Err(e) => return Outcome::Violation(format!("operator rejected a supported sort: {e}"), Value::Null),
    };
    let ctx = match task_ctx(c, v) {
        Ok(c) => c,
        Err(e) => return Outcome::Violation(e, Value::Null),
    };
    let plan = built.plan.clone();
    let res = std::panic::catch_unwind(AssertUnwindSafe(|| rt.block_on(datafusion_physical_plan::collect(plan.clone(), ctx))));
    let batches = match res {
        Err(p) => {
            let msg = p.downcast_ref::<String>().cloned().or_else(|| p.downcast_ref::<&str>().map(|s| s.to_string())).unwrap_or_default();
            return Outcome::Violation(format!("operator panicked: {msg}"), Value::Null);
        }
        Ok(Err(e)) => {
            let s = e.to_string();
            if (v.mem > 0 || v.gq > 0) && is_exhausted(&s) {
                return Outcome::Exhausted;
            }
            return Outcome::Violation(format!("operator failed: {s}"), Value::Null);
        }
        Ok(Ok(b)) => b,
    };
    if let Err((msg, got)) = judge(c, &built.expect, &batches) {
        return Outcome::Violation(msg, got);
    }
    let spills = metric_sum(&plan, &|m| m.spill_count());
    let spilled_rows = metric_sum(&plan, &|m| m.spilled_rows());
    // SortExec lanes: every row is spilled once when its run is written; more spilled rows than input rows
    // means runs were written again (intermediate merge passes and / or re-spills with halved batches)
    let path = if spills == 0 {
        "in_memory"
    } else if spilled_rows > c.rows.len() {
        "spill_rewritten"
    } else {
        "spill_single_pass"
    };
    Outcome::Ok { spills, path, odd: false }
}

pub fn main() {
    let inp = vcommon::util::arg("--in").expect("--in");
    let outp = vcommon::util::arg("--out").expect("--out");
    let threads: usize = vcommon::util::arg("--threads").and_then(|s| s.parse().ok()).unwrap_or(4);
    let picks_n: usize = vcommon::util::arg("--picks").and_then(|s| s.parse().ok()).unwrap_or(3);
    let seed = vcommon::util::seed();
    let replay = vcommon::util::has_flag("--replay");
    let raw = vcommon::util::read_ndjson(&inp);
    let cases: Vec<Case> = raw
        .iter()
        .enumerate()
        .map(|(i, v)| if replay { parse_case(v["case"]["idx"].as_u64().unwrap_or(i as u64) as usize, &v["case"]) } else { parse_case(i, v) })
        .collect();
    let fixed: Vec<Option<Variant>> = raw.iter().map(|v| if replay { Some(Variant::from_json(&v["variant"])) } else { None }).collect();
    if std::env::var("VOPS_DEBUG").is_err() {
        std::panic::set_hook(Box::new(|_| {}));
    }
    let next = AtomicUsize::new(0);
    let violations: Mutex<Vec<Value>> = Mutex::new(vec![]);
    let stats: Mutex<BTreeMap<String, u64>> = Mutex::new(BTreeMap::new());
    let samples: Mutex<Vec<Value>> = Mutex::new(vec![]);
    let distinct: Mutex<std::collections::HashSet<u64>> = Mutex::new(Default::default());
    let wd = Watchdog::start(threads, outp.clone());
    let widx = AtomicUsize::new(0);
    std::thread::scope(|s| {
        for _ in 0..threads {
            s.spawn(|| {
                let w = widx.fetch_add(1, Ordering::Relaxed);
                let rt = tokio::runtime::Builder::new_current_thread().enable_all().build().unwrap();
                let mut local: BTreeMap<String, u64> = BTreeMap::new();
                let mut local_distinct: Vec<u64> = vec![];
                loop {
                    let i = next.fetch_add(1, Ordering::Relaxed);
                    if i >= cases.len() {
                        break;
                    }
                    let c = &cases[i];
                    let vs = match &fixed[i] {
                        Some(v) => vec![v.clone()],
                        None => variants(c, seed, picks_n),
                    };
                    let nontrivial = c.rows.len() >= 2;
                    for v in &vs {
                        *local.entry("evaluations".into()).or_default() += 1;
                        *local.entry(format!("op:{}", v.op)).or_default() += 1;
                        if v.mem > 0 || v.fq > 0 || v.gq > 0 {
                            *local.entry("tight_memory".into()).or_default() += 1;
                        }
                        wd.enter(w, json!({"case": c.raw, "variant": v.to_json()}).to_string());
                        let t0 = std::time::Instant::now();
                        let o = run_variant(&rt, c, v);
                        wd.leave(w);
                        *local.entry(format!("ms:{}:{}", v.op, if c.rows.len() > 200 { "large" } else { "small" })).or_default() += t0.elapsed().as_micros() as u64;
                        match o {
                            Outcome::Ok { spills, path, odd } => {
                                *local.entry("ok".into()).or_default() += 1;
                                if std::env::var("VOPS_LOG").is_ok() {
                                    eprintln!("LOG n={} {} spills={} path={}", c.rows.len(), v.name(), spills, path);
                                }
                                let b = match spills {
                                    0 => "0",
                                    1 => "1",
                                    2 => "2",
                                    3..=5 => "3-5",
                                    6..=10 => "6-10",
                                    _ => ">10",
                                };
                                let lane = match v.op {
                                    "spill_merge" => "merge",
                                    "sort_sweep" => "sweep",
                                    _ => "sort",
                                };
                                if v.mem > 0 || v.fq > 0 || v.gq > 0 {
                                    *local.entry(format!("spills:{b}")).or_default() += 1;
                                }
                                if matches!(lane, "merge" | "sweep") || v.mem > 0 {
                                    *local.entry(format!("path:{lane}:{path}")).or_default() += 1;
                                    if odd && path == "halving" {
                                        *local.entry("path:merge:halving_with_odd_batches".into()).or_default() += 1;
                                    }
                                }
                                if spills > 0 {
                                    *local.entry(format!("spilled_op:{}", v.op)).or_default() += 1;
                                }
                                if c.fetch >= 0 {
                                    *local.entry("with_fetch".into()).or_default() += 1;
                                }
                                if nontrivial {
                                    use std::hash::{Hash, Hasher};
                                    let mut h = std::collections::hash_map::DefaultHasher::new();
                                    (c.idx, v.name()).hash(&mut h);
                                    local_distinct.push(h.finish());
                                }
                            }
                            Outcome::Skipped(why) => *local.entry(format!("skipped:{why}")).or_default() += 1,
                            Outcome::Exhausted => {
                                if std::env::var("VOPS_LOG").is_ok() {
                                    eprintln!("LOG n={} {} exhausted", c.rows.len(), v.name());
                                }
                                *local.entry("resources_exhausted_accepted".into()).or_default() += 1
                            }
                            Outcome::Violation(msg, got) => {
                                let mut case = c.raw.clone();
                                case["idx"] = json!(c.idx);
                                violations.lock().unwrap().push(json!({
                                    "case": case, "variant": v.to_json(), "variant_name": v.name(),
                                    "message": msg, "observed": got,
                                    "key": format!("{}|fetch={}|nk={}", v.op, c.fetch, c.keys.len()),
                                }));
                            }
                        }
                    }
                    if i < 3 {
                        samples.lock().unwrap().push(json!({"case": c.raw, "variants": vs.iter().map(|v| v.name()).collect::<Vec<_>>()}));
                    }
                }
                let mut g = stats.lock().unwrap();
                for (k, n) in local {
                    *g.entry(k).or_default() += n;
                }
                distinct.lock().unwrap().extend(local_distinct);
            });
        }
    });
    let stats = stats.into_inner().unwrap();
    let violations = violations.into_inner().unwrap();
    let out = json!({
        "cases": cases.len(),
        "evaluations": stats.get("evaluations").copied().unwrap_or(0),
        "distinct_nontrivial": distinct.into_inner().unwrap().len(),
        "stats": stats,
        "violations": violations,
        "samples": samples.into_inner().unwrap(),
    });
    std::fs::write(&outp, serde_json::to_string(&out).unwrap()).unwrap();
    vcommon::util::summary(json!({"cases": cases.len(), "evaluations": out["evaluations"], "violations": out["violations"].as_array().unwrap().len()}));
}
