//! C08 — sorting, merging and TopK return correctly ordered results.
//!
//! Input: NDJSON cases printed by TLC from spec/ops/SortGen.tla: input rows, sort keys (asc/desc x
//! nulls first/last per key), fetch, the canonical sorted permutation computed by spec/lib/Sort.tla,
//! a prefix-sorted permutation, a partition assignment for merge inputs and the expected rows of
//! per-partition TopK.  Each case is run on every real sort path; oracle:
//!   key sequence of the output = key sequence of the first k rows of the specification's sorted
//!   permutation  /\  output is a sub-bag of the input (row ids make rows distinct).
use crate::val::*;
use arrow::array::Array;
use arrow::compute::SortOptions;
use arrow::datatypes::SchemaRef;
use arrow::record_batch::RecordBatch;
use datafusion_execution::TaskContext;
use datafusion_execution::config::SessionConfig;
use datafusion_execution::memory_pool::{FairSpillPool, GreedyMemoryPool};
use datafusion_execution::runtime_env::RuntimeEnvBuilder;
use datafusion_physical_expr::expressions::Column;
use datafusion_physical_expr::{LexOrdering, PhysicalSortExpr};
use datafusion_physical_plan::ExecutionPlan;
use datafusion_physical_plan::sorts::partial_sort::PartialSortExec;
use datafusion_physical_plan::sorts::partitioned_topk::{PartitionedTopKExec, WindowFnKind};
use datafusion_physical_plan::sorts::sort::SortExec;
use datafusion_physical_plan::sorts::sort_preserving_merge::SortPreservingMergeExec;
use datafusion_physical_plan::test::TestMemoryExec;
use serde_json::{Value, json};
use std::collections::BTreeMap;
use std::panic::AssertUnwindSafe;
use std::sync::atomic::{AtomicUsize, Ordering};
use std::sync::{Arc, Mutex};

#[derive(Clone, Debug)]
struct Key {
    col: usize,
    desc: bool,
    nf: bool,
}

#[derive(Clone, Debug)]
struct Case {
    idx: usize,
    raw: Value,
    types: Vec<String>,
    keys: Vec<Key>,
    rows: Vec<Row>,
    sorted: Vec<Row>,
    presorted: Vec<Row>,
    fetch: i64,
    pl: usize,
    np: usize,
    assign: Vec<usize>,
    ptk_k: usize,
    ptk: BTreeMap<String, Vec<Row>>,
}

fn parse_case(idx: usize, v: &Value) -> Case {
    let mut ptk = BTreeMap::new();
    for k in ["rownumber", "rank", "denserank"] {
        ptk.insert(k.to_string(), rows_from_json(&v["ptk"][k]));
    }
    Case {
        idx,
        raw: v.clone(),
        types: v["types"].as_array().unwrap().iter().map(|t| t.as_str().unwrap().to_string()).collect(),
        keys: v["keys"]
            .as_array()
            .unwrap()
            .iter()
            .map(|k| Key {
                col: k["col"].as_u64().unwrap() as usize - 1,
                desc: k["desc"].as_bool().unwrap(),
                nf: k["nf"].as_bool().unwrap(),
            })
            .collect(),
        rows: rows_from_json(&v["rows"]),
        sorted: rows_from_json(&v["sorted"]),
        presorted: rows_from_json(&v["presorted"]),
        fetch: v["fetch"].as_i64().unwrap(),
        pl: v["pl"].as_u64().unwrap() as usize,
        np: v["np"].as_u64().unwrap() as usize,
        assign: v["assign"].as_array().unwrap().iter().map(|a| a.as_u64().unwrap() as usize - 1).collect(),
        ptk_k: v["ptk"]["k"].as_u64().unwrap() as usize,
        ptk,
    }
}

const OPS: [&str; 10] = [
    "sort",
    "sort_pp_spm",
    "spm",
    "partial",
    "topk_prefix",
    "sorted_input",
    "sort_coalesced_batches",
    "ptk_rownumber",
    "ptk_rank",
    "ptk_denserank",
];

#[derive(Clone, Debug)]
struct Variant {
    op: &'static str,
    inb: usize,
    outb: usize,
    /// memory pool limit (0 = unbounded); x000 = FairSpillPool, otherwise GreedyMemoryPool
    mem: usize,
    /// sort_spill_reservation_bytes
    spill_res: usize,
    /// sort_in_place_threshold_bytes = 0 (forces per-batch sort + streaming merge of in-memory runs)
    no_in_place: bool,
    /// arrow type choice per key column (index into the per-kind type list)
    tysel: u64,
}

impl Variant {
    fn name(&self) -> String {
        format!(
            "{} inb={} outb={} mem={} spill_res={} no_in_place={} tysel={}",
            self.op, self.inb, self.outb, self.mem, self.spill_res, self.no_in_place, self.tysel
        )
    }
    fn to_json(&self) -> Value {
        json!({"op": self.op, "inb": self.inb, "outb": self.outb, "mem": self.mem, "spill_res": self.spill_res,
               "no_in_place": self.no_in_place, "tysel": self.tysel})
    }
    fn from_json(v: &Value) -> Variant {
        let op = v["op"].as_str().unwrap();
        Variant {
            op: OPS.iter().find(|o| **o == op).expect("op name"),
            inb: v["inb"].as_u64().unwrap() as usize,
            outb: v["outb"].as_u64().unwrap() as usize,
            mem: v["mem"].as_u64().unwrap() as usize,
            spill_res: v["spill_res"].as_u64().unwrap() as usize,
            no_in_place: v["no_in_place"].as_bool().unwrap(),
            tysel: v["tysel"].as_u64().unwrap(),
        }
    }
}

fn supports(c: &Case, op: &str) -> bool {
    let nk = c.keys.len();
    match op {
        // TopK asserts k > 0 (LIMIT 0 never reaches the operator: the optimizer plans an empty relation)
        "sort" | "sort_pp_spm" | "sort_coalesced_batches" => c.fetch != 0,
        "spm" | "sorted_input" => true,
        "partial" => nk >= 2,
        "topk_prefix" => nk >= 2 && c.fetch >= 1,
        "ptk_rownumber" | "ptk_rank" | "ptk_denserank" => nk >= 2 && c.ptk_k >= 1,
        _ => false,
    }
}

/// memory budgets (bytes) tried by the spill lane; x000 values use FairSpillPool, the others GreedyMemoryPool
const MEM_LADDER: [usize; 10] = [1501, 2000, 3001, 4000, 6001, 8000, 12001, 16000, 24001, 48000];

fn variants(c: &Case, seed: u64, picks_n: usize) -> Vec<Variant> {
    let mut out = vec![];
    let h0 = mix(seed ^ mix(c.idx as u64 + 7));
    for (oi, op) in OPS.iter().enumerate() {
        if !supports(c, op) {
            continue;
        }
        let n = if matches!(*op, "sort" | "sort_pp_spm") { picks_n * 2 } else { picks_n };
        for vi in 0..n {
            let h = mix(h0 ^ mix((oi as u64) << 8 | vi as u64));
            let spills = matches!(*op, "sort" | "sort_pp_spm" | "sort_coalesced_batches") && c.fetch < 0;
            // half of the no-fetch sorts run under a tight budget drawn from the ladder
            let big = c.rows.len() > 10;
            let mem = if spills && (big || (h >> 8) % 2 == 0) {
                // budgets measured to produce 1..40 spills on these inputs (lower ones mostly exhaust)
                if big { MEM_LADDER[2 + ((h >> 9) % 7) as usize] } else { MEM_LADDER[2 + ((h >> 9) % 5) as usize] }
            } else {
                0
            };
            out.push(Variant {
                op,
                // first picks walk the batch-size grid deterministically, the rest are seeded
                inb: [1usize, 2, 8192, 3][if vi < 3 { vi } else { (h % 4) as usize }],
                outb: [1usize, 2, 8192, 3][((h >> 4) % 4) as usize],
                mem,
                spill_res: [0usize, 256, 1024][((h >> 12) % 3) as usize],
                no_in_place: (h >> 16) % 2 == 0,
                tysel: h >> 20,
            });
        }
    }
    out
}

fn col_types(c: &Case, v: &Variant) -> Vec<ColTy> {
    let mut t: Vec<ColTy> = c
        .types
        .iter()
        .enumerate()
        .map(|(j, k)| {
            let s = (v.tysel >> (3 * j)) % 8;
            match k.as_str() {
                "i" => {
                    if s % 2 == 0 {
                        ColTy::I32
                    } else {
                        ColTy::I64
                    }
                }
                "f" => {
                    if s % 2 == 0 {
                        ColTy::F64
                    } else {
                        ColTy::F32
                    }
                }
                "s" => match s % 4 {
                    0 | 1 => ColTy::Utf8,
                    2 => ColTy::Utf8View,
                    _ => ColTy::DictUtf8,
                },
                o => panic!("type {o}"),
            }
        })
        .collect();
    t.push(ColTy::I32); // row id
    t
}

/// wide payload derived from the row id (makes batches big enough for memory budgets to bite)
fn pad_of(id: i64) -> String {
    format!("p{id}_{}", "x".repeat(96))
}

fn with_pad(schema: &SchemaRef, b: RecordBatch) -> RecordBatch {
    let ids = b.column(b.num_columns() - 1).as_any().downcast_ref::<arrow::array::Int32Array>().expect("id column").clone();
    let pad: arrow::array::StringArray = ids.iter().map(|i| i.map(|i| pad_of(i as i64))).collect();
    let mut cols = b.columns().to_vec();
    cols.push(Arc::new(pad));
    RecordBatch::try_new(schema.clone(), cols).expect("pad batch")
}

fn padded_schema(s: &SchemaRef) -> SchemaRef {
    let mut f: Vec<arrow::datatypes::Field> = s.fields().iter().map(|f| f.as_ref().clone()).collect();
    f.push(arrow::datatypes::Field::new("pad", arrow::datatypes::DataType::Utf8, true));
    Arc::new(arrow::datatypes::Schema::new(f))
}

fn schema(c: &Case, tys: &[ColTy]) -> SchemaRef {
    let names: Vec<String> = (0..tys.len()).map(|j| if j + 1 == tys.len() { "id".to_string() } else { format!("k{}", j + 1) }).collect();
    let names_ref: Vec<&str> = names.iter().map(|s| s.as_str()).collect();
    let nullable: Vec<bool> = (0..tys.len()).map(|j| j + 1 != tys.len() || c.rows.is_empty()).collect();
    schema_of(&names_ref, tys, &nullable)
}

fn ordering(c: &Case, nkeys: usize) -> Option<LexOrdering> {
    LexOrdering::new(c.keys.iter().take(nkeys).map(|k| {
        PhysicalSortExpr::new(
            Arc::new(Column::new(&format!("k{}", k.col + 1), k.col)),
            SortOptions { descending: k.desc, nulls_first: k.nf },
        )
    }))
}

fn mem_exec(
    schema: &SchemaRef,
    tys: &[ColTy],
    parts: &[Vec<Row>],
    inb: usize,
    sort: Option<LexOrdering>,
) -> Result<Arc<dyn ExecutionPlan>, String> {
    let ps = padded_schema(schema);
    let batches: Vec<Vec<RecordBatch>> =
        parts.iter().map(|p| chunk(schema, tys, p, inb).into_iter().map(|b| with_pad(&ps, b)).collect()).collect();
    let e = TestMemoryExec::try_new(&batches, ps.clone(), None).map_err(|e| format!("mem exec: {e}"))?;
    let e = match sort {
        Some(o) => e.try_with_sort_information(vec![o]).map_err(|e| format!("sort info: {e}"))?,
        None => e,
    };
    let e = Arc::new(e);
    Ok(Arc::new(TestMemoryExec::update_cache(&e)))
}

struct Built {
    plan: Arc<dyn ExecutionPlan>,
    /// expected rows (canonical) whose key sequence the output must reproduce
    expect: Vec<Row>,
}

fn limit(rows: &[Row], fetch: i64) -> Vec<Row> {
    if fetch < 0 { rows.to_vec() } else { rows.iter().take(fetch as usize).cloned().collect() }
}

fn build(c: &Case, v: &Variant) -> Result<Built, String> {
    let tys = col_types(c, v);
    let sch = schema(c, &tys);
    let nk = c.keys.len();
    let ord = ordering(c, nk).ok_or("empty ordering")?;
    let fetch = if c.fetch < 0 { None } else { Some(c.fetch as usize) };
    let expect = limit(&c.sorted, c.fetch);
    match v.op {
        "sort" => {
            let input = mem_exec(&sch, &tys, &[c.rows.clone()], v.inb, None)?;
            let mut s = SortExec::new(ord, input);
            if fetch.is_some() {
                s = s.with_fetch(fetch);
            }
            Ok(Built { plan: Arc::new(s), expect })
        }
        "sort_coalesced_batches" => {
            // uneven batches: first batch holds half of the rows, the rest arrive one by one
            let half = c.rows.len() / 2;
            let tys2 = tys.clone();
            let ps = padded_schema(&sch);
            let mut batches = vec![];
            if half > 0 {
                batches.push(with_pad(&ps, build_batch(&sch, &tys2, &c.rows[..half])));
            }
            batches.extend(chunk(&sch, &tys2, &c.rows[half..], 1).into_iter().map(|b| with_pad(&ps, b)));
            batches.push(RecordBatch::new_empty(ps.clone()));
            let e = TestMemoryExec::try_new_exec(&[batches], ps.clone(), None).map_err(|e| e.to_string())?;
            let mut s = SortExec::new(ord, e);
            if fetch.is_some() {
                s = s.with_fetch(fetch);
            }
            Ok(Built { plan: Arc::new(s), expect })
        }
        "sort_pp_spm" => {
            let mut parts = vec![vec![]; c.np];
            for (i, r) in c.rows.iter().enumerate() {
                parts[i % c.np].push(r.clone());
            }
            let input = mem_exec(&sch, &tys, &parts, v.inb, None)?;
            let mut s = SortExec::new(ord.clone(), input).with_preserve_partitioning(true);
            if fetch.is_some() {
                s = s.with_fetch(fetch);
            }
            let m = SortPreservingMergeExec::new(ord, Arc::new(s)).with_fetch(fetch);
            Ok(Built { plan: Arc::new(m), expect })
        }
        "spm" => {
            // sorted partitions taken from the specification's sorted permutation
            let mut parts = vec![vec![]; c.np];
            for (i, r) in c.sorted.iter().enumerate() {
                parts[c.assign[i]].push(r.clone());
            }
            let input = mem_exec(&sch, &tys, &parts, v.inb, Some(ord.clone()))?;
            let m = SortPreservingMergeExec::new(ord, input).with_fetch(fetch);
            Ok(Built { plan: Arc::new(m), expect })
        }
        "partial" => {
            let pre = ordering(c, c.pl).ok_or("empty prefix")?;
            let input = mem_exec(&sch, &tys, &[c.presorted.clone()], v.inb, Some(pre))?;
            let p = PartialSortExec::new(ord, input, c.pl).with_fetch(fetch);
            Ok(Built { plan: Arc::new(p), expect })
        }
        "topk_prefix" => {
            let pre = ordering(c, c.pl).ok_or("empty prefix")?;
            let input = mem_exec(&sch, &tys, &[c.presorted.clone()], v.inb, Some(pre))?;
            let s = SortExec::new(ord, input).with_fetch(fetch);
            Ok(Built { plan: Arc::new(s), expect })
        }
        "sorted_input" => {
            let input = mem_exec(&sch, &tys, &[c.sorted.clone()], v.inb, Some(ord.clone()))?;
            let mut s = SortExec::new(ord, input);
            if fetch.is_some() {
                s = s.with_fetch(fetch);
            }
            Ok(Built { plan: Arc::new(s), expect })
        }
        "ptk_rownumber" | "ptk_rank" | "ptk_denserank" => {
            let (kind, name) = match v.op {
                "ptk_rownumber" => (WindowFnKind::RowNumber, "rownumber"),
                "ptk_rank" => (WindowFnKind::Rank, "rank"),
                _ => (WindowFnKind::DenseRank, "denserank"),
            };
            let input = mem_exec(&sch, &tys, &[c.rows.clone()], v.inb, None)?;
            let p = PartitionedTopKExec::try_new(input, ord, 1, c.ptk_k, kind).map_err(|e| format!("plan construction failed: {e}"))?;
            Ok(Built { plan: Arc::new(p), expect: c.ptk[name].clone() })
        }
        o => Err(format!("unknown op {o}")),
    }
}

fn task_ctx(v: &Variant) -> Result<Arc<TaskContext>, String> {
    let mut cfg = SessionConfig::new().with_batch_size(v.outb);
    cfg.options_mut().execution.sort_spill_reservation_bytes = v.spill_res;
    if v.no_in_place {
        cfg.options_mut().execution.sort_in_place_threshold_bytes = 0;
    }
    let mut ctx = TaskContext::default().with_session_config(cfg);
    if v.mem > 0 {
        let b = RuntimeEnvBuilder::new();
        let b = if v.mem % 1000 == 0 {
            b.with_memory_pool(Arc::new(FairSpillPool::new(v.mem)))
        } else {
            b.with_memory_pool(Arc::new(GreedyMemoryPool::new(v.mem)))
        };
        ctx = ctx.with_runtime(b.build_arc().map_err(|e| format!("runtime env: {e}"))?);
    }
    Ok(Arc::new(ctx))
}

fn spill_count(plan: &Arc<dyn ExecutionPlan>) -> usize {
    if plan.children().is_empty() {
        return 0; // the in-memory test source does not implement metrics()
    }
    let own = plan.metrics().and_then(|m| m.spill_count()).unwrap_or(0);
    own + plan.children().iter().map(|c| spill_count(c)).sum::<usize>()
}

enum Outcome {
    Ok { spills: usize },
    Exhausted,
    Violation(String, Value),
}

fn key_of(c: &Case, r: &Row) -> Vec<Val> {
    c.keys.iter().map(|k| r[k.col].clone()).collect()
}

fn sub_bag(a: &[Row], b: &[Row]) -> bool {
    let mut m: BTreeMap<&Row, i64> = BTreeMap::new();
    for r in b {
        *m.entry(r).or_default() += 1;
    }
    for r in a {
        let e = m.entry(r).or_default();
        *e -= 1;
        if *e < 0 {
            return false;
        }
    }
    true
}

fn run_variant(rt: &tokio::runtime::Runtime, c: &Case, v: &Variant) -> Outcome {
    if std::env::var("VOPS_TEST_HANG").is_ok() {
        // self-test of the watchdog lane only
        loop {
            std::thread::sleep(std::time::Duration::from_secs(1));
        }
    }
    let built = match build(c, v) {
        Ok(b) => b,
        Err(e) => return Outcome::Violation(format!("operator rejected a supported sort: {e}"), Value::Null),
    };
    let ctx = match task_ctx(v) {
        Ok(c) => c,
        Err(e) => return Outcome::Violation(e, Value::Null),
    };
    let plan = built.plan.clone();
    let res = std::panic::catch_unwind(AssertUnwindSafe(|| rt.block_on(datafusion_physical_plan::collect(plan.clone(), ctx))));
    let batches = match res {
        Err(p) => {
            let msg = p.downcast_ref::<String>().cloned().or_else(|| p.downcast_ref::<&str>().map(|s| s.to_string())).unwrap_or_default();
            return Outcome::Violation(format!("operator panicked: {msg}"), Value::Null);
        }
        Ok(Err(e)) => {
            let s = e.to_string();
            if v.mem > 0 && (s.contains("Resources exhausted") || s.contains("ResourcesExhausted")) {
                return Outcome::Exhausted;
            }
            return Outcome::Violation(format!("operator failed: {s}"), Value::Null);
        }
        Ok(Ok(b)) => b,
    };
    // the pad column must still belong to its row id; then drop it
    let mut projected = vec![];
    for b in &batches {
        let n = b.num_columns();
        let ids = b.column(n - 2).as_any().downcast_ref::<arrow::array::Int32Array>();
        let pads = b.column(n - 1).as_any().downcast_ref::<arrow::array::StringArray>();
        match (ids, pads) {
            (Some(ids), Some(pads)) => {
                for i in 0..b.num_rows() {
                    if pads.is_null(i) || ids.is_null(i) || pads.value(i) != pad_of(ids.value(i) as i64) {
                        return Outcome::Violation("payload column does not belong to its row (columns permuted differently)".to_string(), Value::Null);
                    }
                }
            }
            _ => return Outcome::Violation(format!("unexpected output schema {:?}", b.schema()), Value::Null),
        }
        projected.push(b.project(&(0..n - 1).collect::<Vec<_>>()).expect("project"));
    }
    let batches = projected;
    let rows = match decode_batches(&batches) {
        Ok(r) => r,
        Err(e) => return Outcome::Violation(format!("undecodable output: {e}"), Value::Null),
    };
    let got_keys: Vec<Vec<Val>> = rows.iter().map(|r| key_of(c, r)).collect();
    let exp_keys: Vec<Vec<Val>> = built.expect.iter().map(|r| key_of(c, r)).collect();
    if got_keys != exp_keys {
        let pos = got_keys.iter().zip(exp_keys.iter()).position(|(a, b)| a != b).unwrap_or(got_keys.len().min(exp_keys.len()));
        return Outcome::Violation(
            format!("key sequence differs from the specification at position {} (got {} rows, expected {})", pos + 1, rows.len(), built.expect.len()),
            rows_to_json(&rows),
        );
    }
    if !sub_bag(&rows, &c.rows) {
        return Outcome::Violation("output is not a sub-bag of the input (row duplicated or invented)".to_string(), rows_to_json(&rows));
    }
    Outcome::Ok { spills: spill_count(&plan) }
}

pub fn main() {
    let inp = vcommon::util::arg("--in").expect("--in");
    let outp = vcommon::util::arg("--out").expect("--out");
    let threads: usize = vcommon::util::arg("--threads").and_then(|s| s.parse().ok()).unwrap_or(4);
    let picks_n: usize = vcommon::util::arg("--picks").and_then(|s| s.parse().ok()).unwrap_or(3);
    let seed = vcommon::util::seed();
    let replay = vcommon::util::has_flag("--replay");
    let raw = vcommon::util::read_ndjson(&inp);
    let cases: Vec<Case> = raw
        .iter()
        .enumerate()
        .map(|(i, v)| if replay { parse_case(v["case"]["idx"].as_u64().unwrap_or(i as u64) as usize, &v["case"]) } else { parse_case(i, v) })
        .collect();
    let fixed: Vec<Option<Variant>> = raw.iter().map(|v| if replay { Some(Variant::from_json(&v["variant"])) } else { None }).collect();
    if std::env::var("VOPS_DEBUG").is_err() {
        std::panic::set_hook(Box::new(|_| {}));
    }
    let next = AtomicUsize::new(0);
    let violations: Mutex<Vec<Value>> = Mutex::new(vec![]);
    let stats: Mutex<BTreeMap<String, u64>> = Mutex::new(BTreeMap::new());
    let samples: Mutex<Vec<Value>> = Mutex::new(vec![]);
    let distinct: Mutex<std::collections::HashSet<u64>> = Mutex::new(Default::default());
    let wd = Watchdog::start(threads, outp.clone());
    let widx = AtomicUsize::new(0);
    std::thread::scope(|s| {
        for _ in 0..threads {
            s.spawn(|| {
                let w = widx.fetch_add(1, Ordering::Relaxed);
                let rt = tokio::runtime::Builder::new_current_thread().enable_all().build().unwrap();
                let mut local: BTreeMap<String, u64> = BTreeMap::new();
                let mut local_distinct: Vec<u64> = vec![];
                loop {
                    let i = next.fetch_add(1, Ordering::Relaxed);
                    if i >= cases.len() {
                        break;
                    }
                    let c = &cases[i];
                    let vs = match &fixed[i] {
                        Some(v) => vec![v.clone()],
                        None => variants(c, seed, picks_n),
                    };
                    let nontrivial = c.rows.len() >= 2;
                    for v in &vs {
                        *local.entry("evaluations".into()).or_default() += 1;
                        *local.entry(format!("op:{}", v.op)).or_default() += 1;
                        if v.mem > 0 {
                            *local.entry("tight_memory".into()).or_default() += 1;
                        }
                        wd.enter(w, json!({"case": c.raw, "variant": v.to_json()}).to_string());
                        let o = run_variant(&rt, c, v);
                        wd.leave(w);
                        match o {
                            Outcome::Ok { spills } => {
                                *local.entry("ok".into()).or_default() += 1;
                                if std::env::var("VOPS_LOG").is_ok() {
                                    eprintln!("LOG n={} {} spills={}", c.rows.len(), v.name(), spills);
                                }
                                let b = match spills {
                                    0 => "0",
                                    1 => "1",
                                    2 => "2",
                                    3..=5 => "3-5",
                                    6..=10 => "6-10",
                                    _ => ">10",
                                };
                                if v.mem > 0 {
                                    *local.entry(format!("spills:{b}")).or_default() += 1;
                                }
                                if spills > 0 {
                                    *local.entry(format!("spilled_op:{}", v.op)).or_default() += 1;
                                }
                                if c.fetch >= 0 {
                                    *local.entry("with_fetch".into()).or_default() += 1;
                                }
                                if nontrivial {
                                    use std::hash::{Hash, Hasher};
                                    let mut h = std::collections::hash_map::DefaultHasher::new();
                                    (c.raw.to_string(), v.name()).hash(&mut h);
                                    local_distinct.push(h.finish());
                                }
                            }
                            Outcome::Exhausted => {
                                if std::env::var("VOPS_LOG").is_ok() {
                                    eprintln!("LOG n={} {} exhausted", c.rows.len(), v.name());
                                }
                                *local.entry("resources_exhausted_accepted".into()).or_default() += 1
                            }
                            Outcome::Violation(msg, got) => {
                                let mut case = c.raw.clone();
                                case["idx"] = json!(c.idx);
                                violations.lock().unwrap().push(json!({
                                    "case": case, "variant": v.to_json(), "variant_name": v.name(),
                                    "message": msg, "observed": got,
                                    "key": format!("{}|fetch={}|nk={}", v.op, c.fetch, c.keys.len()),
                                }));
                            }
                        }
                    }
                    if i < 3 {
                        samples.lock().unwrap().push(json!({"case": c.raw, "variants": vs.iter().map(|v| v.name()).collect::<Vec<_>>()}));
                    }
                }
                let mut g = stats.lock().unwrap();
                for (k, n) in local {
                    *g.entry(k).or_default() += n;
                }
                distinct.lock().unwrap().extend(local_distinct);
            });
        }
    });
    let stats = stats.into_inner().unwrap();
    let violations = violations.into_inner().unwrap();
    let out = json!({
        "cases": cases.len(),
        "evaluations": stats.get("evaluations").copied().unwrap_or(0),
        "distinct_nontrivial": distinct.into_inner().unwrap().len(),
        "stats": stats,
        "violations": violations,
        "samples": samples.into_inner().unwrap(),
    });
    std::fs::write(&outp, serde_json::to_string(&out).unwrap()).unwrap();
    vcommon::util::summary(json!({"cases": cases.len(), "evaluations": out["evaluations"], "violations": out["violations"].as_array().unwrap().len()}));
}
