//! C23 driver: call the real interval library / constraint solver on spec-enumerated inputs and
//! record <op, inputs, result> events (decided by TLC, spec/facts/IntervalTrace.tla); `--confirm`
//! re-evaluates a TLC witness with the engine's own expression evaluator.
use arrow::array::{ArrayRef, BooleanArray, Int16Array, Int8Array, UInt16Array, UInt8Array};
use arrow::compute::CastOptions;
use arrow::datatypes::{DataType, Field, Schema};
use arrow::record_batch::RecordBatch;
use datafusion_common::ScalarValue;
use datafusion_expr::Operator;
use datafusion_expr_common::interval_arithmetic::{apply_operator, satisfy_greater, Interval, NullableInterval};
use datafusion_physical_expr::analysis::{analyze, AnalysisContext, ExprBoundaries};
use datafusion_physical_expr::expressions::{BinaryExpr, CastExpr, Column, Literal, NegativeExpr, NotExpr};
use datafusion_physical_expr::intervals::cp_solver::{
    propagate_arithmetic, propagate_comparison, ExprIntervalGraph, PropagationResult,
};
use datafusion_physical_expr::PhysicalExpr;
use serde_json::{json, Map, Value};
use std::panic::{catch_unwind, AssertUnwindSafe};
use std::sync::Arc;
use vcommon::util::*;

type R<T> = Result<T, String>;

fn dt(ty: &str) -> R<DataType> {
    Ok(match ty {
        "i8" => DataType::Int8,
        "u8" => DataType::UInt8,
        "i16" => DataType::Int16,
        "u16" => DataType::UInt16,
        "i32" => DataType::Int32,
        "i64" => DataType::Int64,
        "b" => DataType::Boolean,
        _ => return Err(format!("unknown type {ty}")),
    })
}

fn ty_name(d: &DataType) -> String {
    match d {
        DataType::Int8 => "i8".into(),
        DataType::UInt8 => "u8".into(),
        DataType::Int16 => "i16".into(),
        DataType::UInt16 => "u16".into(),
        DataType::Boolean => "b".into(),
        other => format!("?{other}"),
    }
}

fn sv(ty: &str, v: Option<i64>) -> R<ScalarValue> {
    Ok(match ty {
        "i8" => ScalarValue::Int8(v.map(|x| x as i8)),
        "u8" => ScalarValue::UInt8(v.map(|x| x as u8)),
        "i16" => ScalarValue::Int16(v.map(|x| x as i16)),
        "u16" => ScalarValue::UInt16(v.map(|x| x as u16)),
        "b" => ScalarValue::Boolean(v.map(|x| x != 0)),
        _ => return Err(format!("unknown type {ty}")),
    })
}

fn sv_int(s: &ScalarValue) -> Option<i64> {
    match s {
        ScalarValue::Int8(v) => v.map(|x| x as i64),
        ScalarValue::UInt8(v) => v.map(|x| x as i64),
        ScalarValue::Int16(v) => v.map(|x| x as i64),
        ScalarValue::UInt16(v) => v.map(|x| x as i64),
        ScalarValue::Int32(v) => v.map(|x| x as i64),
        ScalarValue::UInt32(v) => v.map(|x| x as i64),
        ScalarValue::Int64(v) => *v,
        ScalarValue::UInt64(v) => v.and_then(|x| i64::try_from(x).ok()),
        ScalarValue::Boolean(v) => v.map(|x| x as i64),
        _ => None,
    }
}

fn iv_in(j: &Value) -> R<Interval> {
    let ty = j["ty"].as_str().ok_or("interval without ty")?;
    let lo = if j["lu"].as_bool().unwrap_or(false) { None } else { j["lo"].as_i64() };
    let hi = if j["hu"].as_bool().unwrap_or(false) { None } else { j["hi"].as_i64() };
    Interval::try_new(sv(ty, lo)?, sv(ty, hi)?).map_err(|e| format!("try_new: {e}"))
}

/// None if the interval's type is outside the model's scope
fn iv_out(i: &Interval) -> Option<Value> {
    let ty = ty_name(&i.data_type());
    if ty.starts_with('?') {
        return None;
    }
    let (lo, hi) = (sv_int(i.lower()), sv_int(i.upper()));
    Some(json!({"ty": ty, "lu": lo.is_none(), "lo": lo.unwrap_or(0), "hu": hi.is_none(), "hi": hi.unwrap_or(0)}))
}

fn niv_in(j: &Value) -> R<NullableInterval> {
    Ok(match j["nk"].as_str().ok_or("nk")? {
        "null" => NullableInterval::Null { datatype: dt(j["iv"]["ty"].as_str().ok_or("ty")?)? },
        "maybe" => NullableInterval::MaybeNull { values: iv_in(&j["iv"])? },
        _ => NullableInterval::NotNull { values: iv_in(&j["iv"])? },
    })
}

fn niv_out(n: &NullableInterval) -> Option<Value> {
    Some(match n {
        NullableInterval::Null { datatype } => {
            let ty = ty_name(datatype);
            if ty.starts_with('?') {
                return None;
            }
            json!({"nk": "null", "iv": {"ty": ty, "lu": false, "lo": 0, "hu": false, "hi": 0}})
        }
        NullableInterval::MaybeNull { values } => json!({"nk": "maybe", "iv": iv_out(values)?}),
        NullableInterval::NotNull { values } => json!({"nk": "notnull", "iv": iv_out(values)?}),
    })
}

fn operator(op: &str) -> R<Operator> {
    Ok(match op {
        "add" => Operator::Plus,
        "sub" => Operator::Minus,
        "mul" => Operator::Multiply,
        "div" => Operator::Divide,
        "gt" => Operator::Gt,
        "gt_eq" => Operator::GtEq,
        "lt" => Operator::Lt,
        "lt_eq" => Operator::LtEq,
        "eq" => Operator::Eq,
        "neq" => Operator::NotEq,
        "and" => Operator::And,
        "or" => Operator::Or,
        "isdistinct" => Operator::IsDistinctFrom,
        "isnotdistinct" => Operator::IsNotDistinctFrom,
        _ => return Err(format!("unknown operator {op}")),
    })
}

fn col(name: &str, i: usize) -> Arc<dyn PhysicalExpr> {
    Arc::new(Column::new(name, i))
}

/// Build the physical expression of a node list; returns per-node expressions.
fn build_nodes(nodes: &[Value], col_tys: &[String], checked: bool) -> R<Vec<Arc<dyn PhysicalExpr>>> {
    let mut out: Vec<Arc<dyn PhysicalExpr>> = vec![];
    for n in nodes {
        let op = n["op"].as_str().ok_or("node op")?;
        let l = n["l"].as_u64().unwrap_or(0) as usize;
        let r = n["r"].as_u64().unwrap_or(0) as usize;
        let e: Arc<dyn PhysicalExpr> = match op {
            "col" => {
                let c = n["v"].as_u64().ok_or("col v")? as usize;
                if c == 0 || c > col_tys.len() {
                    return Err("bad column".into());
                }
                col(if c == 1 { "a" } else { "b" }, c - 1)
            }
            "lit" => Arc::new(Literal::new(sv(n["ty"].as_str().ok_or("lit ty")?, n["v"].as_i64())?)),
            "not" => Arc::new(NotExpr::new(out[l - 1].clone())),
            "neg" => Arc::new(NegativeExpr::new(out[l - 1].clone())),
            "cast" => Arc::new(CastExpr::new(out[l - 1].clone(), dt(n["ty"].as_str().ok_or("cast ty")?)?, None)),
            _ => Arc::new(BinaryExpr::new(out[l - 1].clone(), operator(op)?, out[r - 1].clone()).with_fail_on_overflow(checked)),
        };
        out.push(e);
    }
    Ok(out)
}

fn schema_of(col_tys: &[String]) -> R<Schema> {
    let mut f = vec![];
    for (i, t) in col_tys.iter().enumerate() {
        f.push(Field::new(if i == 0 { "a" } else { "b" }, dt(t)?, true));
    }
    Ok(Schema::new(f))
}

fn one_row(ty: &str, v: i64) -> R<ArrayRef> {
    Ok(match ty {
        "i8" => Arc::new(Int8Array::from(vec![v as i8])),
        "u8" => Arc::new(UInt8Array::from(vec![v as u8])),
        "i16" => Arc::new(Int16Array::from(vec![v as i16])),
        "u16" => Arc::new(UInt16Array::from(vec![v as u16])),
        "b" => Arc::new(BooleanArray::from(vec![v != 0])),
        _ => return Err(format!("unknown type {ty}")),
    })
}

/// Evaluate a node list on one row with the engine's evaluator (checked arithmetic).
/// Ok(None): not representable (error / NULL).
fn eval_row(nodes: &[Value], col_tys: &[String], vals: &[i64]) -> R<Option<i64>> {
    let exprs = build_nodes(nodes, col_tys, true)?;
    let schema = Arc::new(schema_of(col_tys)?);
    let mut cols = vec![];
    for (t, v) in col_tys.iter().zip(vals) {
        cols.push(one_row(t, *v)?);
    }
    let batch = RecordBatch::try_new(schema, cols).map_err(|e| e.to_string())?;
    let root = exprs.last().ok_or("empty expr")?;
    match catch_unwind(AssertUnwindSafe(|| root.evaluate(&batch).and_then(|c| c.into_array(1)))) {
        Ok(Ok(arr)) => {
            let s = ScalarValue::try_from_array(&arr, 0).map_err(|e| e.to_string())?;
            Ok(sv_int(&s))
        }
        _ => Ok(None),
    }
}

fn node(op: &str, l: usize, r: usize, v: i64, ty: &str) -> Value {
    json!({"op": op, "l": l, "r": r, "v": v, "ty": ty})
}

fn tys_of(ivs: &[&Value]) -> Vec<String> {
    ivs.iter().map(|j| j["ty"].as_str().unwrap_or("i8").to_string()).collect()
}

enum Out {
    Iv(Interval),
    NoneR,
    Same,
    Pair(Interval, Interval),
    Tag(&'static str, Vec<Interval>),
    Flag(bool),
    Num(Option<i64>),
    Niv(NullableInterval),
}

fn run_case(c: &Value) -> R<Result<Out, String>> {
    // outer Err: harness problem; inner Err: the engine returned an error (data)
    let cls = c["cls"].as_str().ok_or("cls")?;
    let op = c["op"].as_str().unwrap_or("");
    let via = c["via"].as_str().unwrap_or("method");
    let e = |x: datafusion_common::DataFusionError| x.to_string();
    Ok(match cls {
        "bin" => {
            let (a, b) = (iv_in(&c["a"])?, iv_in(&c["b"])?);
            let r = match via {
                "apply" => apply_operator(&operator(op)?, &a, &b),
                "pexpr" => BinaryExpr::new(col("a", 0), operator(op)?, col("b", 1)).evaluate_bounds(&[&a, &b]),
                _ => match op {
                    "add" => a.add(&b),
                    "sub" => a.sub(&b),
                    "mul" => a.mul(&b),
                    "div" => a.div(&b),
                    "gt" => a.gt(&b),
                    "gt_eq" => a.gt_eq(&b),
                    "lt" => a.lt(&b),
                    "lt_eq" => a.lt_eq(&b),
                    "eq" => a.equal(&b),
                    "neq" => a.equal(&b).and_then(|x| x.not()),
                    "and" => a.and(&b),
                    "or" => a.or(&b),
                    _ => return Err(format!("bin op {op}")),
                },
            };
            r.map(Out::Iv).map_err(e)
        }
        "un" => {
            let a = iv_in(&c["a"])?;
            let r = match (op, via) {
                ("not", "pexpr") => NotExpr::new(col("a", 0)).evaluate_bounds(&[&a]),
                ("not", _) => a.not(),
                ("neg", "pexpr") => NegativeExpr::new(col("a", 0)).evaluate_bounds(&[&a]),
                ("neg", _) => a.arithmetic_negate(),
                ("cast", "pexpr") => CastExpr::new(col("a", 0), dt(c["to"].as_str().ok_or("to")?)?, None).evaluate_bounds(&[&a]),
                ("cast", _) => a.cast_to(&dt(c["to"].as_str().ok_or("to")?)?, &CastOptions::default()),
                _ => return Err(format!("un op {op}")),
            };
            r.map(Out::Iv).map_err(e)
        }
        "nbin" => {
            let (a, b) = (niv_in(&c["a"])?, niv_in(&c["b"])?);
            a.apply_operator(&operator(op)?, &b).map(Out::Niv).map_err(e)
        }
        "nun" => {
            let a = niv_in(&c["a"])?;
            match op {
                "not" => a.not(),
                "is_true" => a.is_true(),
                "is_false" => a.is_false(),
                "is_unknown" => a.is_unknown(),
                _ => return Err(format!("nun op {op}")),
            }
            .map(Out::Niv)
            .map_err(e)
        }
        "set" => {
            let (a, b) = (iv_in(&c["a"])?, iv_in(&c["b"])?);
            match op {
                "intersect" => a.intersect(&b).map(|x| x.map(Out::Iv).unwrap_or(Out::NoneR)).map_err(e),
                "union" => a.union(&b).map(Out::Iv).map_err(e),
                "contains" => a.contains(&b).map(Out::Iv).map_err(e),
                _ => return Err(format!("set op {op}")),
            }
        }
        "cv" => {
            let a = iv_in(&c["a"])?;
            let v = sv(c["nty"].as_str().ok_or("nty")?, c["n"].as_i64())?;
            a.contains_value(&v).map(Out::Flag).map_err(e)
        }
        "width" => iv_in(&c["a"])?.width().map(|w| Out::Num(sv_int(&w))).map_err(e),
        "card" => Ok(Out::Num(iv_in(&c["a"])?.cardinality().and_then(|x| i64::try_from(x).ok()))),
        "prop2" => {
            let (p, a, b) = (iv_in(&c["p"])?, iv_in(&c["a"])?, iv_in(&c["b"])?);
            let o = operator(op)?;
            let pair = |x: Option<(Interval, Interval)>| x.map(|(l, r)| Out::Pair(l, r)).unwrap_or(Out::NoneR);
            match via {
                "satisfy" => satisfy_greater(&a, &b, op == "gt").map(pair).map_err(e),
                "fn" => if matches!(op, "add" | "sub" | "mul" | "div") { propagate_arithmetic(&o, &p, &a, &b) } else { propagate_comparison(&o, &p, &a, &b) }
                    .map(pair)
                    .map_err(e),
                _ => BinaryExpr::new(col("a", 0), o, col("b", 1))
                    .propagate_constraints(&p, &[&a, &b])
                    .map(|x| match x {
                        None => Out::NoneR,
                        Some(v) if v.is_empty() => Out::Same,
                        Some(v) => Out::Pair(v[0].clone(), v[1].clone()),
                    })
                    .map_err(e),
            }
        }
        "prop1" => {
            let (p, a) = (iv_in(&c["p"])?, iv_in(&c["a"])?);
            let r = match op {
                "not" => NotExpr::new(col("a", 0)).propagate_constraints(&p, &[&a]),
                "neg" => NegativeExpr::new(col("a", 0)).propagate_constraints(&p, &[&a]),
                "cast" => CastExpr::new(col("a", 0), p.data_type(), None).propagate_constraints(&p, &[&a]),
                _ => return Err(format!("prop1 op {op}")),
            };
            r.map(|x| match x {
                None => Out::NoneR,
                Some(v) if v.is_empty() => Out::Same,
                Some(v) => Out::Iv(v[0].clone()),
            })
            .map_err(e)
        }
        "bounds" | "update" => {
            let nodes = c["nodes"].as_array().ok_or("nodes")?;
            let ranges = c["ranges"].as_array().ok_or("ranges")?;
            let col_tys = tys_of(&ranges.iter().collect::<Vec<_>>());
            let exprs = build_nodes(nodes, &col_tys, false)?;
            let root = exprs.last().ok_or("empty")?.clone();
            let schema = schema_of(&col_tys)?;
            if via == "analyze" {
                let mut bs = vec![];
                for (i, r) in ranges.iter().enumerate() {
                    bs.push(ExprBoundaries {
                        column: Column::new(if i == 0 { "a" } else { "b" }, i),
                        interval: Some(iv_in(r)?),
                        distinct_count: datafusion_common::stats::Precision::Absent,
                    });
                }
                return Ok(analyze(&root, AnalysisContext::new(bs), &schema)
                    .map(|ctx| {
                        if ctx.boundaries.iter().all(|b| b.interval.is_none()) {
                            Out::Tag("infeasible", vec![])
                        } else {
                            Out::Tag("success", ctx.boundaries.iter().map(|b| b.interval.clone().unwrap()).collect())
                        }
                    })
                    .map_err(e));
            }
            let mut graph = match ExprIntervalGraph::try_new(root, &schema) {
                Ok(g) => g,
                Err(x) => return Ok(Err(x.to_string())),
            };
            let cols: Vec<Arc<dyn PhysicalExpr>> = (0..ranges.len()).map(|i| col(if i == 0 { "a" } else { "b" }, i)).collect();
            let idx = graph.gather_node_indices(&cols);
            let mut leaf = vec![];
            let mut present = vec![];
            for (i, (_, ix)) in idx.iter().enumerate() {
                if *ix != usize::MAX {
                    leaf.push((*ix, iv_in(&ranges[i])?));
                    present.push(i);
                }
            }
            if cls == "bounds" {
                graph.assign_intervals(&leaf);
                graph.evaluate_bounds().map(|x| Out::Iv(x.clone())).map_err(e)
            } else {
                let given = iv_in(&c["given"])?;
                let originals: Vec<Interval> = ranges.iter().map(iv_in).collect::<R<Vec<_>>>()?;
                graph
                    .update_ranges(&mut leaf, given)
                    .map(|r| match r {
                        PropagationResult::CannotPropagate => Out::Tag("cannot", vec![]),
                        PropagationResult::Infeasible => Out::Tag("infeasible", vec![]),
                        PropagationResult::Success => {
                            let mut rr = originals.clone();
                            for (k, i) in present.iter().enumerate() {
                                rr[*i] = leaf[k].1.clone();
                            }
                            Out::Tag("success", rr)
                        }
                    })
                    .map_err(e)
            }
        }
        _ => return Err(format!("unknown cls {cls}")),
    })
}

fn record(c: &Value) -> R<Value> {
    let mut ev: Map<String, Value> = c.as_object().ok_or("case not an object")?.clone();
    let res = catch_unwind(AssertUnwindSafe(|| run_case(c)));
    let mut set = |k: &str, v: Value| {
        ev.insert(k.to_string(), v);
    };
    let unsupported = |ivs: &[&Interval]| ivs.iter().any(|i| iv_out(i).is_none());
    match res {
        Err(_) => set("rk", json!("panic")),
        Ok(Err(h)) => return Err(h),
        Ok(Ok(Err(msg))) => {
            set("rk", json!("err"));
            set("msg", json!(msg.chars().take(120).collect::<String>()));
        }
        Ok(Ok(Ok(out))) => match out {
            Out::Iv(i) => {
                if unsupported(&[&i]) {
                    set("rk", json!("err"));
                    set("msg", json!("result type outside model scope"));
                } else {
                    set("rk", json!("iv"));
                    let j = iv_out(&i).unwrap();
                    if c["cls"] == "prop1" {
                        set("r1", j);
                    } else {
                        set("r", j);
                    }
                }
            }
            Out::Niv(n) => match niv_out(&n) {
                Some(j) => {
                    set("rk", json!("niv"));
                    set("r", j);
                }
                None => {
                    set("rk", json!("err"));
                    set("msg", json!("result type outside model scope"));
                }
            },
            Out::NoneR => set("rk", json!("none")),
            Out::Same => set("rk", json!("same")),
            Out::Pair(l, r) => {
                if unsupported(&[&l, &r]) {
                    set("rk", json!("err"));
                    set("msg", json!("result type outside model scope"));
                } else {
                    set("rk", json!("pair"));
                    set("r1", iv_out(&l).unwrap());
                    set("r2", iv_out(&r).unwrap());
                }
            }
            Out::Tag(t, rr) => {
                if unsupported(&rr.iter().collect::<Vec<_>>()) {
                    set("rk", json!("err"));
                } else {
                    set("rk", json!(t));
                    set("rr", Value::Array(rr.iter().map(|i| iv_out(i).unwrap()).collect()));
                }
            }
            Out::Flag(b) => {
                set("rk", json!("flag"));
                set("flag", json!(b));
            }
            Out::Num(n) => match n {
                Some(n) => {
                    set("rk", json!("num"));
                    set("rn", json!(n));
                }
                None => set("rk", json!("none")),
            },
        },
    }
    // result type of the operator node (the type in which "representable" is judged)
    let cls = c["cls"].as_str().unwrap_or("");
    if cls == "prop2" && c["op"] == "mul" {
        // the solver's own intermediate (public API): left' = (parent / right) ∩ left -- reported so that the known
        // zero-endpoint division finding can be keyed on the divisor actually used for the second step
        if let (Ok(p), Ok(a), Ok(b)) = (iv_in(&c["p"]), iv_in(&c["a"]), iv_in(&c["b"])) {
            let mid = catch_unwind(AssertUnwindSafe(|| apply_operator(&Operator::Divide, &p, &b).and_then(|q| q.intersect(&a))));
            let v = match mid {
                Ok(Ok(Some(m))) => iv_out(&m).unwrap_or(json!("none")),
                _ => json!("none"),
            };
            ev.insert("mid".into(), v);
        }
    }
    if cls == "prop2" || cls == "prop1" {
        let op = c["op"].as_str().unwrap_or("");
        let rt = if matches!(op, "add" | "sub" | "mul" | "div" | "neg" | "cast") {
            c["p"]["ty"].as_str().unwrap_or("i8").to_string()
        } else {
            "b".to_string()
        };
        ev.insert("rt".into(), json!(rt));
    }
    if cls == "nbin" {
        let op = c["op"].as_str().unwrap_or("");
        let rt = if matches!(op, "add" | "sub" | "mul" | "div") { c["a"]["iv"]["ty"].as_str().unwrap_or("i8").to_string() } else { "b".to_string() };
        ev.insert("rt".into(), json!(rt));
    }
    if cls == "bounds" || cls == "update" {
        // annotate every node with the engine's data type for it
        let nodes = c["nodes"].as_array().ok_or("nodes")?;
        let ranges = c["ranges"].as_array().ok_or("ranges")?;
        let col_tys = tys_of(&ranges.iter().collect::<Vec<_>>());
        let exprs = build_nodes(nodes, &col_tys, false)?;
        let schema = schema_of(&col_tys)?;
        let mut ns = vec![];
        let mut ok = true;
        for (n, e) in nodes.iter().zip(&exprs) {
            let t = e.data_type(&schema).map(|d| ty_name(&d)).unwrap_or("?".into());
            if t.starts_with('?') {
                ok = false;
            }
            let mut m = n.as_object().unwrap().clone();
            m.insert("ty".into(), json!(t));
            ns.push(Value::Object(m));
        }
        if !ok {
            ev.insert("rk".into(), json!("err"));
        }
        ev.insert("nodes".into(), Value::Array(ns));
    }
    Ok(Value::Object(ev))
}

fn in_iv(v: i64, j: &Value) -> bool {
    let (lo, hi) = bounds_of(j);
    lo <= v && v <= hi
}

fn bounds_of(j: &Value) -> (i64, i64) {
    let (tmin, tmax) = match j["ty"].as_str().unwrap_or("") {
        "i8" => (-128, 127),
        "u8" => (0, 255),
        "i16" => (-32768, 32767),
        "u16" => (0, 65535),
        _ => (0, 1),
    };
    let lo = if j["lu"].as_bool().unwrap_or(false) { tmin } else { j["lo"].as_i64().unwrap_or(0) };
    let hi = if j["hu"].as_bool().unwrap_or(false) { tmax } else { j["hi"].as_i64().unwrap_or(0) };
    (lo, hi)
}

/// Re-evaluate a rejected event's witness in the engine: the concrete value of the operator /
/// expression comes from the engine's evaluator; Ok(Some(text)) = confirmed.
fn confirm(ev: &Value) -> R<Option<String>> {
    let cls = ev["cls"].as_str().ok_or("cls")?;
    let op = ev["op"].as_str().unwrap_or("");
    let (wa, wb) = (ev["wa"].as_i64().ok_or("wa")?, ev["wb"].as_i64().ok_or("wb")?);
    // re-run the call: the recorded result must be reproducible
    let again = record(ev)?;
    for k in ["rk", "r", "r1", "r2", "rr", "flag", "rn"] {
        if again.get(k) != ev.get(k) {
            return Ok(None);
        }
    }
    let value_of = |nodes: Vec<Value>, tys: Vec<String>, vals: Vec<i64>| eval_row(&nodes, &tys, &vals);
    Ok(match cls {
        "bin" | "prop2" => {
            let (ta, tb) = (ev["a"]["ty"].as_str().unwrap().to_string(), ev["b"]["ty"].as_str().unwrap().to_string());
            if !in_iv(wa, &ev["a"]) || !in_iv(wb, &ev["b"]) {
                return Ok(None);
            }
            let rt = if cls == "bin" { ev["r"]["ty"].as_str().unwrap().to_string() } else { ev["rt"].as_str().unwrap().to_string() };
            let arith = matches!(op, "add" | "sub" | "mul" | "div");
            let ct = if arith { rt.clone() } else if ta == tb { ta.clone() } else { "i16".to_string() };
            let mut nodes = vec![node("col", 0, 0, 1, &ta), node("col", 0, 0, 2, &tb)];
            let (mut li, mut ri) = (1, 2);
            if ta != ct {
                nodes.push(node("cast", li, 0, 0, &ct));
                li = nodes.len();
            }
            if tb != ct {
                nodes.push(node("cast", ri, 0, 0, &ct));
                ri = nodes.len();
            }
            nodes.push(node(op, li, ri, 0, &rt));
            let v = match value_of(nodes, vec![ta, tb], vec![wa, wb])? {
                Some(v) => v,
                None => return Ok(None),
            };
            if cls == "bin" {
                (!in_iv(v, &ev["r"])).then(|| format!("engine evaluates {wa} {op} {wb} = {v}, outside the computed interval"))
            } else {
                let sat = in_iv(v, &ev["p"]);
                let removed = ev["rk"] == "none" || (ev["rk"] == "pair" && !(in_iv(wa, &ev["r1"]) && in_iv(wb, &ev["r2"])));
                (sat && removed).then(|| format!("engine evaluates {wa} {op} {wb} = {v} (inside the parent interval) but propagation removed the pair"))
            }
        }
        "un" | "prop1" => {
            let ta = ev["a"]["ty"].as_str().unwrap().to_string();
            if !in_iv(wa, &ev["a"]) {
                return Ok(None);
            }
            let rt = if cls == "un" { ev["r"]["ty"].as_str().unwrap().to_string() } else { ev["rt"].as_str().unwrap().to_string() };
            let rt = if op == "cast" && cls == "prop1" { ev["p"]["ty"].as_str().unwrap().to_string() } else { rt };
            let nodes = vec![node("col", 0, 0, 1, &ta), node(op, 1, 0, 0, &rt)];
            let v = match value_of(nodes, vec![ta], vec![wa])? {
                Some(v) => v,
                None => return Ok(None),
            };
            if cls == "un" {
                (!in_iv(v, &ev["r"])).then(|| format!("engine evaluates {op}({wa}) = {v}, outside the computed interval"))
            } else {
                let removed = ev["rk"] == "none" || (ev["rk"] == "iv" && !in_iv(wa, &ev["r1"]));
                (in_iv(v, &ev["p"]) && removed).then(|| format!("engine evaluates {op}({wa}) = {v} (inside the parent interval) but propagation removed it"))
            }
        }
        "bounds" | "update" => {
            let ranges = ev["ranges"].as_array().ok_or("ranges")?;
            let tys = tys_of(&ranges.iter().collect::<Vec<_>>());
            let vals: Vec<i64> = [wa, wb].iter().take(tys.len()).cloned().collect();
            for (v, r) in vals.iter().zip(ranges) {
                if !in_iv(*v, r) {
                    return Ok(None);
                }
            }
            let v = match eval_row(ev["nodes"].as_array().unwrap(), &tys, &vals)? {
                Some(v) => v,
                None => return Ok(None),
            };
            if cls == "bounds" {
                (!in_iv(v, &ev["r"])).then(|| format!("engine evaluates the expression on {vals:?} to {v}, outside evaluate_bounds' interval"))
            } else {
                let removed = ev["rk"] == "infeasible"
                    || (ev["rk"] == "success" && vals.iter().zip(ev["rr"].as_array().unwrap()).any(|(v, r)| !in_iv(*v, r)));
                (in_iv(v, &ev["given"]) && removed).then(|| format!("assignment {vals:?} satisfies the constraint in the engine (value {v}) but was removed"))
            }
        }
        "nbin" | "nun" => {
            // NULL-ness facts follow from SQL three-valued logic; a non-NULL pair is re-evaluated by the engine's evaluator
            const NULLV: i64 = 1999999999;
            let nin = |v: Option<i64>, n: &Value| match v {
                None => n["nk"] != "notnull",
                Some(x) => n["nk"] != "null" && in_iv(x, &n["iv"]),
            };
            let a = if wa == NULLV { None } else { Some(wa) };
            let b = if wb == NULLV { None } else { Some(wb) };
            if !nin(a, &ev["a"]) || (cls == "nbin" && !nin(b, &ev["b"])) {
                return Ok(None);
            }
            let v: Option<i64> = if cls == "nun" {
                match (op, a) {
                    ("not", None) => None,
                    ("not", Some(x)) => Some(1 - x),
                    ("is_true", x) => Some((x == Some(1)) as i64),
                    ("is_false", x) => Some((x == Some(0)) as i64),
                    (_, x) => Some(x.is_none() as i64),
                }
            } else {
                match (op, a, b) {
                    ("and", x, y) => if x == Some(0) || y == Some(0) { Some(0) } else if x.is_none() || y.is_none() { None } else { Some(1) },
                    ("or", x, y) => if x == Some(1) || y == Some(1) { Some(1) } else if x.is_none() || y.is_none() { None } else { Some(0) },
                    ("isdistinct", x, y) => Some((x != y) as i64),
                    ("isnotdistinct", x, y) => Some((x == y) as i64),
                    (_, Some(x), Some(y)) => {
                        let (ta, tb) = (ev["a"]["iv"]["ty"].as_str().unwrap().to_string(), ev["b"]["iv"]["ty"].as_str().unwrap().to_string());
                        let rt = ev["rt"].as_str().unwrap().to_string();
                        let nodes = vec![node("col", 0, 0, 1, &ta), node("col", 0, 0, 2, &tb), node(op, 1, 2, 0, &rt)];
                        match eval_row(&nodes, &[ta, tb], &[x, y])? {
                            Some(v) => Some(v),
                            None => return Ok(None),
                        }
                    }
                    _ => None,
                }
            };
            (!nin(v, &ev["r"])).then(|| format!("{op} on ({a:?}, {b:?}) is {v:?}, outside the computed nullable interval"))
        }
        // order facts about integers: re-checked directly
        "set" => {
            let (ina, inb) = (in_iv(wa, &ev["a"]), in_iv(wa, &ev["b"]));
            match op {
                "intersect" => (ina && inb && (ev["rk"] == "none" || !in_iv(wa, &ev["r"]))).then(|| format!("{wa} is in both intervals but not in the intersection")),
                "union" => ((if wb == 1 { inb } else { ina }) && !in_iv(wa, &ev["r"])).then(|| format!("{wa} is in an operand but not in the union")),
                _ => {
                    let (lo, hi) = bounds_of(&ev["r"]);
                    ((lo == 1 && inb && !ina) || (hi == 0 && inb && ina)).then(|| format!("contains() verdict contradicted by value {wa}"))
                }
            }
        }
        "cv" => (in_iv(wa, &ev["a"]) != ev["flag"].as_bool().unwrap_or(false)).then(|| format!("contains_value({wa}) wrong")),
        "width" | "card" => {
            let (lo, hi) = bounds_of(&ev["a"]);
            let n = ev["rn"].as_i64().unwrap_or(0);
            (if cls == "width" { n < hi - lo } else { n != hi - lo + 1 }).then(|| format!("{cls} = {n} for [{lo},{hi}]"))
        }
        _ => None,
    })
}

pub fn main() {
    std::panic::set_hook(Box::new(|_| {}));
    let inp = arg("--in").expect("--in");
    let outp = arg("--out").expect("--out");
    let cases = read_ndjson(&inp);
    let mut out = vec![];
    let mut herr = vec![];
    if has_flag("--confirm") {
        let mut confirmed = 0;
        for ev in &cases {
            let mut m = ev.as_object().unwrap().clone();
            match confirm(ev) {
                Ok(Some(t)) => {
                    confirmed += 1;
                    m.insert("confirmed".into(), json!(true));
                    m.insert("observed".into(), json!(t));
                }
                Ok(None) => {
                    m.insert("confirmed".into(), json!(false));
                }
                Err(h) => herr.push(format!("{}: {h}", ev["id"])),
            }
            out.push(Value::Object(m));
        }
        write_ndjson(&outp, &out);
        summary(json!({"confirmed": confirmed, "checked": cases.len(), "harness_errors": herr}));
        return;
    }
    let (mut errs, mut panics) = (0, 0);
    for c in &cases {
        match record(c) {
            Ok(ev) => {
                match ev["rk"].as_str() {
                    Some("err") => errs += 1,
                    Some("panic") => panics += 1,
                    _ => {}
                }
                out.push(ev)
            }
            Err(h) => herr.push(format!("{}: {h}", c["id"])),
        }
    }
    write_ndjson(&outp, &out);
    summary(json!({"events": out.len(), "engine_errors": errs, "engine_panics": panics, "harness_errors": herr}));
}
