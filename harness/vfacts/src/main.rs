//! Derived-facts drivers (intervals, pruning, hashing, scalars) -- DESIGN.md 7.4 / 7.6.
mod c12;
mod c22;
mod c23;
mod c32;
mod c34;

fn main() {
    let a: Vec<String> = std::env::args().collect();
    let cmd = a.get(1).map(|s| s.as_str()).unwrap_or("");
    match cmd {
        "c12" => c12::main(),
        "c22" => c22::main(),
        "c23" => c23::main(),
        "c32" => c32::main(),
        "c34" => c34::main(),
        "sql" => {
            // confirmation helper: run one SQL statement in a default SessionContext and print the result
            let q = a.get(2).cloned().unwrap_or_default();
            let rt = tokio::runtime::Runtime::new().unwrap();
            rt.block_on(async {
                let ctx = datafusion::prelude::SessionContext::new();
                match ctx.sql(&q).await {
                    Ok(df) => match df.collect().await {
                        Ok(b) => println!("{}", arrow::util::pretty::pretty_format_batches(&b).unwrap()),
                        Err(e) => println!("ERR {e}"),
                    },
                    Err(e) => println!("ERR {e}"),
                }
            });
        }
        _ => {
            eprintln!("usage: vfacts <c23|c22|c12|c34|c32> [options]");
            std::process::exit(2);
        }
    }
}
