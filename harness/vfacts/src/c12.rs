//! C12 driver: build physically different Arrow arrays for the same logical key columns as the
//! recipes of spec/facts/Encodings.tla describe, self-check the construction by decoding back to the
//! logical tokens, hash with the real create_hashes / with_hashes / create_hashes_with_hasher /
//! ScalarValue::hash and record Call events for spec/facts/FuncTrace.tla.
use arrow::array::{make_array, Array, ArrayRef, DictionaryArray, Int32Array, Int8Array, RunArray};
use arrow::buffer::{BooleanBuffer, NullBuffer};
use arrow::datatypes::{DataType, Field, Fields, Int32Type, Int8Type};
use arrow::util::display::{ArrayFormatter, FormatOptions};
use datafusion_common::hash_utils::{create_hashes, create_hashes_with_hasher, with_hashes, QualityRandomState, RandomState};
use datafusion_common::ScalarValue;
use serde_json::{json, Value};
use std::collections::BTreeMap;
use std::hash::{BuildHasherDefault, DefaultHasher, Hash, Hasher};
use std::sync::Arc;
use vcommon::util::*;

pub(crate) type R<T> = Result<T, String>;
const LONG: &str = "a string longer than twelve bytes";

pub(crate) fn es<E: std::fmt::Display>(e: E) -> String {
    e.to_string()
}

fn list_sv(items: &[Option<i32>], large: bool, fixed: bool) -> ScalarValue {
    let vals: Vec<ScalarValue> = items.iter().map(|x| ScalarValue::Int32(*x)).collect();
    if fixed {
        let child: ArrayRef = Arc::new(Int32Array::from(items.to_vec()));
        let _ = vals;
        ScalarValue::FixedSizeList(Arc::new(arrow::array::FixedSizeListArray::new(
            Arc::new(Field::new("item", DataType::Int32, true)),
            items.len() as i32,
            child,
            None,
        )))
    } else if large {
        ScalarValue::LargeList(ScalarValue::new_large_list(&vals, &DataType::Int32))
    } else {
        ScalarValue::List(ScalarValue::new_list_nullable(&vals, &DataType::Int32))
    }
}

fn struct_sv(a: Option<i32>, b: Option<&str>) -> ScalarValue {
    let fields = Fields::from(vec![Field::new("a", DataType::Int32, true), Field::new("b", DataType::Utf8, true)]);
    let arrays: Vec<ArrayRef> = vec![ScalarValue::Int32(a).to_array().unwrap(), ScalarValue::Utf8(b.map(|s| s.to_string())).to_array().unwrap()];
    ScalarValue::Struct(Arc::new(arrow::array::StructArray::new(fields, arrays, None)))
}

/// base type name -> (pool of 4 values with optional physical alternates, typed NULL)
pub(crate) fn pool(ty: &str) -> R<(Vec<(ScalarValue, Option<ScalarValue>)>, ScalarValue)> {
    use ScalarValue as S;
    let strs = ["", "a", LONG, "\u{fc}-\u{1f600}"];
    let p = |v: Vec<ScalarValue>| v.into_iter().map(|x| (x, None)).collect::<Vec<_>>();
    Ok(match ty {
        "Int8" => (p(vec![S::Int8(Some(0)), S::Int8(Some(1)), S::Int8(Some(-7)), S::Int8(Some(i8::MIN))]), S::Int8(None)),
        "Int16" => (p(vec![S::Int16(Some(0)), S::Int16(Some(1)), S::Int16(Some(-7)), S::Int16(Some(i16::MAX))]), S::Int16(None)),
        "Int32" => (p(vec![S::Int32(Some(0)), S::Int32(Some(1)), S::Int32(Some(-7)), S::Int32(Some(i32::MAX))]), S::Int32(None)),
        "Int64" => (p(vec![S::Int64(Some(0)), S::Int64(Some(1)), S::Int64(Some(-7)), S::Int64(Some(i64::MIN))]), S::Int64(None)),
        "UInt8" => (p(vec![S::UInt8(Some(0)), S::UInt8(Some(1)), S::UInt8(Some(200)), S::UInt8(Some(255))]), S::UInt8(None)),
        "UInt64" => (p(vec![S::UInt64(Some(0)), S::UInt64(Some(1)), S::UInt64(Some(200)), S::UInt64(Some(u64::MAX))]), S::UInt64(None)),
        "Float64" => (
            vec![(S::Float64(Some(0.0)), Some(S::Float64(Some(-0.0)))), (S::Float64(Some(1.5)), None), (S::Float64(Some(f64::NAN)), None), (S::Float64(Some(-2.25)), None)],
            S::Float64(None),
        ),
        "Float32" => (
            vec![(S::Float32(Some(0.0)), Some(S::Float32(Some(-0.0)))), (S::Float32(Some(1.5)), None), (S::Float32(Some(f32::INFINITY)), None), (S::Float32(Some(-2.25)), None)],
            S::Float32(None),
        ),
        "Boolean" => (p(vec![S::Boolean(Some(false)), S::Boolean(Some(true)), S::Boolean(Some(true)), S::Boolean(Some(false))]), S::Boolean(None)),
        "Date32" => (p(vec![S::Date32(Some(0)), S::Date32(Some(1)), S::Date32(Some(-7)), S::Date32(Some(19000))]), S::Date32(None)),
        "TimestampNs" => (
            p(vec![S::TimestampNanosecond(Some(0), None), S::TimestampNanosecond(Some(1), None), S::TimestampNanosecond(Some(-7), None), S::TimestampNanosecond(Some(1_700_000_000_000_000_000), None)]),
            S::TimestampNanosecond(None, None),
        ),
        "Decimal128" => (p(vec![S::Decimal128(Some(0), 10, 2), S::Decimal128(Some(1), 10, 2), S::Decimal128(Some(-700), 10, 2), S::Decimal128(Some(99999999), 10, 2)]), S::Decimal128(None, 10, 2)),
        "UInt16" => (p(vec![S::UInt16(Some(0)), S::UInt16(Some(1)), S::UInt16(Some(200)), S::UInt16(Some(u16::MAX))]), S::UInt16(None)),
        "UInt32" => (p(vec![S::UInt32(Some(0)), S::UInt32(Some(1)), S::UInt32(Some(200)), S::UInt32(Some(u32::MAX))]), S::UInt32(None)),
        "Date64" => (p(vec![S::Date64(Some(0)), S::Date64(Some(86_400_000)), S::Date64(Some(-86_400_000)), S::Date64(Some(1_700_000_000_000))]), S::Date64(None)),
        "Time32Second" => (p(vec![S::Time32Second(Some(0)), S::Time32Second(Some(1)), S::Time32Second(Some(3600)), S::Time32Second(Some(86399))]), S::Time32Second(None)),
        "Time64Nanosecond" => (p(vec![S::Time64Nanosecond(Some(0)), S::Time64Nanosecond(Some(1)), S::Time64Nanosecond(Some(3_600_000_000_000)), S::Time64Nanosecond(Some(86_399_999_999_999))]), S::Time64Nanosecond(None)),
        "TimestampSecond" => (p(vec![S::TimestampSecond(Some(0), None), S::TimestampSecond(Some(1), None), S::TimestampSecond(Some(-7), None), S::TimestampSecond(Some(1_700_000_000), None)]), S::TimestampSecond(None, None)),
        "TimestampNsTz" => {
            let tz: Option<Arc<str>> = Some(Arc::from("+01:00"));
            (p(vec![S::TimestampNanosecond(Some(0), tz.clone()), S::TimestampNanosecond(Some(1), tz.clone()), S::TimestampNanosecond(Some(-7), tz.clone()), S::TimestampNanosecond(Some(1_700_000_000_000_000_000), tz.clone())]),
             S::TimestampNanosecond(None, tz))
        }
        "DurationMillisecond" => (p(vec![S::DurationMillisecond(Some(0)), S::DurationMillisecond(Some(1)), S::DurationMillisecond(Some(-7)), S::DurationMillisecond(Some(i64::MAX))]), S::DurationMillisecond(None)),
        "IntervalYearMonth" => (p(vec![S::IntervalYearMonth(Some(0)), S::IntervalYearMonth(Some(1)), S::IntervalYearMonth(Some(-7)), S::IntervalYearMonth(Some(1200))]), S::IntervalYearMonth(None)),
        "IntervalDayTime" => {
            use arrow::datatypes::IntervalDayTime as D;
            (p(vec![S::IntervalDayTime(Some(D::new(0, 0))), S::IntervalDayTime(Some(D::new(0, 1))), S::IntervalDayTime(Some(D::new(1, -5))), S::IntervalDayTime(Some(D::new(-3, 7)))]), S::IntervalDayTime(None))
        }
        "IntervalMonthDayNano" => {
            use arrow::datatypes::IntervalMonthDayNano as M;
            (p(vec![S::IntervalMonthDayNano(Some(M::new(0, 0, 0))), S::IntervalMonthDayNano(Some(M::new(0, 0, 1))), S::IntervalMonthDayNano(Some(M::new(1, -2, 3))), S::IntervalMonthDayNano(Some(M::new(-1, 5, 0)))]), S::IntervalMonthDayNano(None))
        }
        "Decimal32" => (p(vec![S::Decimal32(Some(0), 7, 2), S::Decimal32(Some(1), 7, 2), S::Decimal32(Some(-700), 7, 2), S::Decimal32(Some(9999999), 7, 2)]), S::Decimal32(None, 7, 2)),
        "Decimal64" => (p(vec![S::Decimal64(Some(0), 12, 3), S::Decimal64(Some(1), 12, 3), S::Decimal64(Some(-700), 12, 3), S::Decimal64(Some(999999999999), 12, 3)]), S::Decimal64(None, 12, 3)),
        "Decimal256" => {
            use arrow::datatypes::i256;
            (p(vec![S::Decimal256(Some(i256::from_i128(0)), 40, 2), S::Decimal256(Some(i256::from_i128(1)), 40, 2), S::Decimal256(Some(i256::from_i128(-700)), 40, 2), S::Decimal256(Some(i256::from_i128(i128::MAX)), 40, 2)]), S::Decimal256(None, 40, 2))
        }
        "Utf8" => (p(strs.iter().map(|s| S::Utf8(Some(s.to_string()))).collect()), S::Utf8(None)),
        "LargeUtf8" => (p(strs.iter().map(|s| S::LargeUtf8(Some(s.to_string()))).collect()), S::LargeUtf8(None)),
        "Utf8View" => (p(strs.iter().map(|s| S::Utf8View(Some(s.to_string()))).collect()), S::Utf8View(None)),
        "Binary" => (p(strs.iter().map(|s| S::Binary(Some(s.as_bytes().to_vec()))).collect()), S::Binary(None)),
        "LargeBinary" => (p(strs.iter().map(|s| S::LargeBinary(Some(s.as_bytes().to_vec()))).collect()), S::LargeBinary(None)),
        "BinaryView" => (p(strs.iter().map(|s| S::BinaryView(Some(s.as_bytes().to_vec()))).collect()), S::BinaryView(None)),
        "FixedSizeBinary" => (p([[0u8, 0], [0, 1], [255, 7], [1, 0]].iter().map(|b| S::FixedSizeBinary(2, Some(b.to_vec()))).collect()), S::FixedSizeBinary(2, None)),
        "List" | "LargeList" => {
            let l = ty == "LargeList";
            let v = vec![list_sv(&[], l, false), list_sv(&[Some(1)], l, false), list_sv(&[Some(1), None], l, false), list_sv(&[Some(2), Some(3)], l, false)];
            let null = ScalarValue::try_from(&v[0].data_type()).map_err(es)?;
            (p(v), null)
        }
        "FixedSizeList" => {
            let v = vec![list_sv(&[Some(1), Some(2)], false, true), list_sv(&[None, Some(3)], false, true), list_sv(&[Some(0), Some(0)], false, true), list_sv(&[Some(5), None], false, true)];
            let null = ScalarValue::try_from(&v[0].data_type()).map_err(es)?;
            (p(v), null)
        }
        "Struct" => {
            let v = vec![struct_sv(Some(1), Some("a")), struct_sv(None, Some("b")), struct_sv(Some(2), None), struct_sv(Some(1), Some(LONG))];
            let null = ScalarValue::try_from(&v[0].data_type()).map_err(es)?;
            (p(v), null)
        }
        _ => return Err(format!("unknown type {ty}")),
    })
}

/// (encoding family, base type)
pub(crate) fn family(ty: &str) -> (&str, &str) {
    if let Some(b) = ty.strip_prefix("Dict32:") {
        ("dict32", b)
    } else if let Some(b) = ty.strip_prefix("Dict8:") {
        ("dict8", b)
    } else if let Some(b) = ty.strip_prefix("Ree:") {
        ("ree", b)
    } else {
        ("plain", ty)
    }
}

pub(crate) struct Recipe {
    off: usize,
    tail: usize,
    val: bool,
    g: usize,
    pub(crate) alt: usize,
    perm: usize,
    unused: usize,
    dup: bool,
    nullvia_value: bool,
    runsplit: bool,
    pub(crate) cut: usize,
    /// never store a physical alternate (-0.0 for +0.0): for checks in which the alternates are different values
    pub(crate) noalt: bool,
}

pub(crate) fn recipe(j: &Value) -> Recipe {
    let u = |k: &str| j[k].as_u64().unwrap_or(0) as usize;
    Recipe {
        off: u("off"),
        tail: u("tail"),
        val: j["val"].as_bool().unwrap_or(false),
        g: u("g").max(1),
        alt: u("alt"),
        perm: u("perm"),
        unused: u("unused"),
        dup: j["dup"].as_bool().unwrap_or(false),
        nullvia_value: j["nullvia"] == "value",
        runsplit: j["runsplit"].as_bool().unwrap_or(false),
        cut: u("cut"),
        noalt: false,
    }
}

fn pick(pool: &[(ScalarValue, Option<ScalarValue>)], v: usize, alt: usize) -> ScalarValue {
    let (a, b) = &pool[(v - 1) % pool.len()];
    match (alt, b) {
        (1, Some(x)) => x.clone(),
        _ => a.clone(),
    }
}

/// plain layout: garbage before/after, garbage under NULL slots, optional all-valid validity buffer, then slice
fn build_plain(base: &str, col: &[usize], r: &Recipe) -> R<ArrayRef> {
    let (pool, _null) = pool(base)?;
    let mut svs = vec![];
    for _ in 0..r.off {
        svs.push(pick(&pool, r.g, 0));
    }
    for &v in col {
        svs.push(if v == 0 { pick(&pool, r.g, r.alt) } else { pick(&pool, v, r.alt) });
    }
    for _ in 0..r.tail {
        svs.push(pick(&pool, r.g, 1));
    }
    let full = ScalarValue::iter_to_array(svs).map_err(es)?;
    let has_null = col.iter().any(|&v| v == 0);
    let mut valid = vec![true; r.off];
    valid.extend(col.iter().map(|&v| v != 0));
    valid.extend(vec![true; r.tail]);
    let nulls = if has_null || r.val { Some(NullBuffer::new(BooleanBuffer::from(valid))) } else { None };
    let data = full.to_data().into_builder().nulls(nulls).build().map_err(es)?;
    Ok(make_array(data).slice(r.off, col.len()))
}

fn build_keys(keys: &[Option<i64>], nvals: usize, r: &Recipe, small: bool) -> R<ArrayRef> {
    let gk = if nvals == 0 { 0 } else { (r.g as i64 - 1) % nvals as i64 };
    let mut ks: Vec<i64> = vec![gk; r.off];
    ks.extend(keys.iter().map(|k| k.unwrap_or(gk)));
    ks.extend(vec![gk; r.tail]);
    let mut valid = vec![true; r.off];
    valid.extend(keys.iter().map(|k| k.is_some()));
    valid.extend(vec![true; r.tail]);
    let has_null = keys.iter().any(|k| k.is_none());
    let nulls = if has_null || r.val { Some(NullBuffer::new(BooleanBuffer::from(valid))) } else { None };
    let arr: ArrayRef = if small {
        Arc::new(Int8Array::new(ks.iter().map(|&k| k as i8).collect::<Vec<_>>().into(), nulls))
    } else {
        Arc::new(Int32Array::new(ks.iter().map(|&k| k as i32).collect::<Vec<_>>().into(), nulls))
    };
    Ok(arr.slice(r.off, keys.len()))
}

fn build_dict(base: &str, col: &[usize], r: &Recipe, small: bool) -> R<ArrayRef> {
    let (pool, null) = pool(base)?;
    let mut distinct: Vec<usize> = col.iter().cloned().filter(|&v| v != 0).collect();
    distinct.sort();
    distinct.dedup();
    if r.perm == 1 {
        distinct.reverse();
    }
    let mut entries: Vec<usize> = distinct.clone(); // pool indices; 0 = NULL entry
    if r.dup && !entries.is_empty() {
        entries.push(entries[0]);
    }
    if r.unused == 1 {
        entries.insert(0, r.g);
    }
    if r.nullvia_value || entries.is_empty() {
        entries.push(0);
    }
    let vals: Vec<ScalarValue> = entries.iter().enumerate().map(|(k, &e)| if e == 0 { null.clone() } else { pick(&pool, e, if r.noalt { 0 } else { (r.alt + k) % 2 }) }).collect();
    let values = ScalarValue::iter_to_array(vals).map_err(es)?;
    let keys: Vec<Option<i64>> = col
        .iter()
        .enumerate()
        .map(|(j, &v)| {
            if v == 0 {
                if r.nullvia_value { Some(entries.iter().rposition(|&e| e == 0).unwrap() as i64) } else { None }
            } else {
                let ks: Vec<usize> = entries.iter().enumerate().filter(|&(_, &e)| e == v).map(|(k, _)| k).collect();
                Some(if j % 2 == 0 { *ks.last().unwrap() } else { ks[0] } as i64)
            }
        })
        .collect();
    let karr = build_keys(&keys, entries.len(), r, small)?;
    Ok(if small {
        Arc::new(DictionaryArray::<Int8Type>::try_new(karr.as_any().downcast_ref::<Int8Array>().unwrap().clone(), values).map_err(es)?)
    } else {
        Arc::new(DictionaryArray::<Int32Type>::try_new(karr.as_any().downcast_ref::<Int32Array>().unwrap().clone(), values).map_err(es)?)
    })
}

fn build_ree(base: &str, col: &[usize], r: &Recipe) -> R<ArrayRef> {
    let (pool, null) = pool(base)?;
    // logical column extended with garbage, then sliced
    let mut ext: Vec<usize> = vec![r.g; r.off];
    ext.extend(col);
    ext.extend(vec![r.g; r.tail]);
    let mut ends = vec![];
    let mut split_done = !r.runsplit;
    for j in 0..ext.len() {
        let last = j + 1 == ext.len() || ext[j] != ext[j + 1];
        if last {
            ends.push(j + 1);
        } else if !split_done {
            ends.push(j + 1);
            split_done = true;
        }
    }
    let vals: Vec<ScalarValue> = ends.iter().enumerate().map(|(k, &e)| if ext[e - 1] == 0 { null.clone() } else { pick(&pool, ext[e - 1], if r.noalt { 0 } else { (r.alt + k) % 2 }) }).collect();
    let values = ScalarValue::iter_to_array(vals).map_err(es)?;
    let run_ends = Int32Array::from(ends.iter().map(|&e| e as i32).collect::<Vec<_>>());
    let ra = RunArray::<Int32Type>::try_new(&run_ends, &values).map_err(es)?;
    Ok(Arc::new(ra.slice(r.off, col.len())))
}

pub(crate) fn build(ty: &str, col: &[usize], r: &Recipe) -> R<ArrayRef> {
    match family(ty) {
        ("dict32", b) => build_dict(b, col, r, false),
        ("dict8", b) => build_dict(b, col, r, true),
        ("ree", b) => build_ree(b, col, r),
        (_, b) => build_plain(b, col, r),
    }
}

fn norm(s: String) -> String {
    // -0.0 and +0.0 are the same logical value
    if s == "-0.0" { "0.0".to_string() } else { s }
}

/// logical token of row i (what Decode yields), rendered by arrow's formatter (handles dictionary / run-end / nested)
fn tokens(arr: &ArrayRef) -> R<Vec<String>> {
    tokens_opt(arr, true)
}

pub(crate) fn tokens_opt(arr: &ArrayRef, normalise: bool) -> R<Vec<String>> {
    let opts = FormatOptions::default().with_null("NULL");
    let f = ArrayFormatter::try_new(arr.as_ref(), &opts).map_err(es)?;
    let ln = arr.logical_nulls();
    Ok((0..arr.len()).map(|i| if ln.as_ref().is_some_and(|n| n.is_null(i)) { "NULL".to_string() } else if normalise { norm(f.value(i).to_string()) } else { f.value(i).to_string() }).collect())
}

fn expected_tokens(ty: &str, col: &[usize]) -> R<Vec<String>> {
    let (_, base) = family(ty);
    let plain = Recipe { off: 0, tail: 0, val: false, g: 1, alt: 0, perm: 0, unused: 0, dup: false, nullvia_value: false, runsplit: false, cut: 0, noalt: false };
    // NULL slots hold pool value 1 under the validity mask; tokens() reports them as NULL
    tokens(&build_plain(base, col, &plain)?)
}

pub(crate) fn scalar_hash(s: &ScalarValue) -> u64 {
    let mut h = DefaultHasher::new();
    s.hash(&mut h);
    h.finish()
}

pub fn main() {
    std::panic::set_hook(Box::new(|_| {}));
    let cases = read_ndjson(&arg("--in").expect("--in"));
    let outp = arg("--out").expect("--out");
    let mut runs: BTreeMap<String, Vec<Value>> = BTreeMap::new();
    let mut herr: Vec<String> = vec![];
    let mut engine_err = 0usize;
    let (mut arrays_built, mut rows_hashed, mut selfcheck_fail) = (0usize, 0usize, 0usize);
    let mut scalar_eq_violations: Vec<Value> = vec![];
    for c in &cases {
        let cols = c["cols"].as_array().unwrap();
        let n = cols[0]["col"].as_array().unwrap().len();
        let seed = c["seed"].as_u64().unwrap_or(0);
        let tys: Vec<String> = cols.iter().map(|x| x["ty"].as_str().unwrap().to_string()).collect();
        let fkey = tys.join(",");
        'variant: for variant in ["r1", "r2"] {
            let cut0 = recipe(&cols[0][variant]).cut;
            let cut = if cut0 >= n { 0 } else { cut0 };
            let ranges: Vec<(usize, usize)> = if cut == 0 { vec![(0, n)] } else { vec![(0, cut), (cut, n)] };
            for (lo, hi) in ranges {
                let mut arrays: Vec<ArrayRef> = vec![];
                let mut toks: Vec<Vec<String>> = vec![];
                for x in cols {
                    let ty = x["ty"].as_str().unwrap();
                    let col: Vec<usize> = x["col"].as_array().unwrap()[lo..hi].iter().map(|v| v.as_u64().unwrap() as usize).collect();
                    let r = recipe(&x[variant]);
                    let arr = match std::panic::catch_unwind(std::panic::AssertUnwindSafe(|| build(ty, &col, &r))) {
                        Ok(Ok(a)) => a,
                        Ok(Err(e)) => {
                            herr.push(format!("case {} {ty}: build: {e}", c["id"]));
                            continue 'variant;
                        }
                        Err(_) => {
                            herr.push(format!("case {} {ty}: build panicked", c["id"]));
                            continue 'variant;
                        }
                    };
                    // self-check: decode back
                    let (got, want) = match (tokens(&arr), expected_tokens(ty, &col)) {
                        (Ok(g), Ok(w)) => (g, w),
                        (a, b) => {
                            herr.push(format!("case {} {ty}: tokens {:?} {:?}", c["id"], a.err(), b.err()));
                            continue 'variant;
                        }
                    };
                    if got != want {
                        selfcheck_fail += 1;
                        herr.push(format!("case {} {ty}: construction self-check failed: {got:?} vs {want:?}", c["id"]));
                        continue 'variant;
                    }
                    arrays_built += 1;
                    toks.push(got);
                    arrays.push(arr);
                }
                let len = hi - lo;
                let row_tok: Vec<String> = (0..len).map(|i| toks.iter().map(|t| t[i].clone()).collect::<Vec<_>>().join("\u{1f}")).collect();
                let mut emit = |f: String, outs: &[u64]| {
                    let e = runs.entry(f).or_default();
                    for i in 0..len {
                        e.push(json!({"i": row_tok[i], "o": outs[i].to_string(), "case": c["id"], "variant": variant, "row": lo + i}));
                    }
                };
                // create_hashes / with_hashes share one function
                let rs = RandomState::with_seed(seed);
                let mut buf = vec![0u64; len];
                match std::panic::catch_unwind(std::panic::AssertUnwindSafe(|| create_hashes(&arrays, &rs, &mut buf).map(|_| ()))) {
                    Ok(Ok(())) => {
                        rows_hashed += len;
                        emit(format!("hashes|{fkey}|fast{seed}"), &buf);
                    }
                    _ => engine_err += 1,
                }
                if let Ok(Ok(v)) = std::panic::catch_unwind(std::panic::AssertUnwindSafe(|| with_hashes(&arrays, &rs, |h| Ok(h.to_vec())))) {
                    emit(format!("hashes|{fkey}|fast{seed}"), &v);
                } else {
                    engine_err += 1;
                }
                let qs = QualityRandomState::with_seed(seed);
                let mut buf2 = vec![0u64; len];
                if let Ok(Ok(())) = std::panic::catch_unwind(std::panic::AssertUnwindSafe(|| create_hashes(&arrays, &qs, &mut buf2).map(|_| ()))) {
                    emit(format!("hashes|{fkey}|quality{seed}"), &buf2);
                } else {
                    engine_err += 1;
                }
                let bh = BuildHasherDefault::<DefaultHasher>::default();
                let mut buf3 = vec![0u64; len];
                if let Ok(Ok(())) = std::panic::catch_unwind(std::panic::AssertUnwindSafe(|| create_hashes_with_hasher(&arrays, &bh, &mut buf3).map(|_| ()))) {
                    emit(format!("with_hasher|{fkey}|siphash"), &buf3);
                } else {
                    engine_err += 1;
                }
                // ScalarValue: equal scalars hash equally (scalars read back from the differently laid out arrays)
                for (k, arr) in arrays.iter().enumerate() {
                    let mut seen: Vec<(ScalarValue, u64, String)> = vec![];
                    for i in 0..len {
                        if let Ok(Ok(s)) = std::panic::catch_unwind(std::panic::AssertUnwindSafe(|| ScalarValue::try_from_array(arr, i))) {
                            let h = scalar_hash(&s);
                            for (s2, h2, t2) in &seen {
                                if *s2 == s && *h2 != h {
                                    scalar_eq_violations.push(json!({"case": c["id"], "ty": tys[k], "a": t2, "b": toks[k][i], "ha": h2.to_string(), "hb": h.to_string()}));
                                }
                            }
                            seen.push((s.clone(), h, toks[k][i].clone()));
                            runs.entry(format!("scalar|{}", tys[k])).or_default().push(json!({"i": format!("{s:?}"), "o": h.to_string(), "case": c["id"], "variant": variant, "row": lo + i}));
                        }
                    }
                }
            }
        }
    }
    let out: Vec<Value> = runs.into_iter().map(|(f, ev)| json!({"f": f, "ev": ev})).collect();
    write_ndjson(&outp, &out);
    summary(json!({"runs": out.len(), "arrays_built": arrays_built, "rows_hashed": rows_hashed, "selfcheck_fail": selfcheck_fail,
        "engine_errors": engine_err, "scalar_eq_violations": scalar_eq_violations, "harness_errors": herr.iter().take(5).collect::<Vec<_>>(), "harness_error_count": herr.len()}));
}
