//! C34 driver: ScalarValue <-> array round trips, equal => equal hash, ordering observations
//! (partial_cmp matrix, compare_rows matrix, the engine's ascending NULLS FIRST sort), scalar cast
//! vs array cast.  Events go to spec/facts/FuncTrace.tla (function / identity laws) and
//! spec/facts/OrderTrace.tla.
use crate::c12::{build, es, pool, recipe, scalar_hash, tokens_opt, R};
use arrow::array::{Array, ArrayRef};
use arrow::compute::{cast_with_options, sort_to_indices, SortOptions};
use arrow::datatypes::{DataType, TimeUnit};
use datafusion_common::format::DEFAULT_CAST_OPTIONS;
use datafusion_common::utils::compare_rows;
use datafusion_common::ScalarValue;
use serde_json::{json, Value};
use std::collections::BTreeMap;
use std::panic::{catch_unwind, AssertUnwindSafe};
use std::sync::Arc;
use vcommon::util::*;

fn tok(s: &ScalarValue) -> String {
    // Debug of some out-of-range temporal values panics inside the engine's formatter: fall back to a stable opaque token
    match catch_unwind(AssertUnwindSafe(|| format!("{s:?}|{}", s.data_type()))) {
        Ok(t) => t,
        Err(_) => format!("unprintable#{}|{}", scalar_hash(s), s.data_type()),
    }
}

fn guard<T>(f: impl FnOnce() -> datafusion_common::Result<T>) -> Result<T, String> {
    match catch_unwind(AssertUnwindSafe(f)) {
        Ok(Ok(v)) => Ok(v),
        Ok(Err(e)) => Err(format!("ERR:{}", e.to_string().chars().take(60).collect::<String>())),
        Err(_) => Err("PANIC".to_string()),
    }
}

fn cast_targets() -> Vec<(String, DataType)> {
    vec![
        ("Int8".into(), DataType::Int8),
        ("Int32".into(), DataType::Int32),
        ("Int64".into(), DataType::Int64),
        ("UInt8".into(), DataType::UInt8),
        ("UInt64".into(), DataType::UInt64),
        ("Float32".into(), DataType::Float32),
        ("Float64".into(), DataType::Float64),
        ("Boolean".into(), DataType::Boolean),
        ("Utf8".into(), DataType::Utf8),
        ("LargeUtf8".into(), DataType::LargeUtf8),
        ("Utf8View".into(), DataType::Utf8View),
        ("Binary".into(), DataType::Binary),
        ("Date32".into(), DataType::Date32),
        ("Date64".into(), DataType::Date64),
        ("TimestampNs".into(), DataType::Timestamp(TimeUnit::Nanosecond, None)),
        ("TimestampS".into(), DataType::Timestamp(TimeUnit::Second, None)),
        ("TimestampMsTz".into(), DataType::Timestamp(TimeUnit::Millisecond, Some(Arc::from("+01:00")))),
        ("Decimal128_10_2".into(), DataType::Decimal128(10, 2)),
        ("Decimal128_5_0".into(), DataType::Decimal128(5, 0)),
        ("Decimal256_40_2".into(), DataType::Decimal256(40, 2)),
        ("DurationMs".into(), DataType::Duration(TimeUnit::Millisecond)),
        ("DictUtf8".into(), DataType::Dictionary(Box::new(DataType::Int32), Box::new(DataType::Utf8))),
    ]
}

struct Out {
    runs: BTreeMap<(String, &'static str), Vec<Value>>,
    orders: Vec<Value>,
    eq_hash_violations: Vec<Value>,
    counts: BTreeMap<&'static str, usize>,
}

impl Out {
    fn ev(&mut self, f: String, law: &'static str, i: String, o: String, case: &Value) {
        self.runs.entry((f, law)).or_default().push(json!({"i": i, "o": o, "case": case["id"]}));
    }
    fn bump(&mut self, k: &'static str) {
        *self.counts.entry(k).or_default() += 1;
    }
}

fn roundtrip(s: &ScalarValue, ty: &str, c: &Value, out: &mut Out) {
    for n in [1usize, 3] {
        match guard(|| s.to_array_of_size(n)) {
            Ok(arr) => {
                if arr.len() != n || arr.data_type() != &s.data_type() {
                    out.ev(format!("roundtrip|{ty}"), "identity", tok(s), format!("SHAPE len={} type={}", arr.len(), arr.data_type()), c);
                    continue;
                }
                for i in 0..n {
                    let o = match guard(|| ScalarValue::try_from_array(&arr, i)) {
                        Ok(b) => tok(&b),
                        Err(e) => e,
                    };
                    out.ev(format!("roundtrip|{ty}"), "identity", tok(s), o, c);
                    out.bump("roundtrip_positions");
                }
            }
            Err(e) => {
                out.ev(format!("roundtrip|{ty}"), "identity", tok(s), e, c);
            }
        }
    }
}

fn all_scalars(ty: &str) -> R<Vec<ScalarValue>> {
    let (p, null) = pool(ty)?;
    let mut v = vec![null];
    for (a, b) in p {
        v.push(a);
        if let Some(b) = b {
            v.push(b);
        }
    }
    Ok(v)
}

fn cmp_code(o: Option<std::cmp::Ordering>) -> i64 {
    match o {
        Some(std::cmp::Ordering::Less) => -1,
        Some(std::cmp::Ordering::Equal) => 0,
        Some(std::cmp::Ordering::Greater) => 1,
        None => 2,
    }
}

fn pool_case(c: &Value, out: &mut Out) -> R<()> {
    let ty = c["ty"].as_str().ok_or("ty")?;
    let scalars = all_scalars(ty)?;
    // round trips, hashes
    let mut seen: Vec<(ScalarValue, u64)> = vec![];
    for s in &scalars {
        roundtrip(s, ty, c, out);
        let h = scalar_hash(s);
        out.ev(format!("hash|{ty}"), "function", tok(s), h.to_string(), c);
        // the same value built again through an array
        if let Ok(b) = guard(|| s.to_array().and_then(|a| ScalarValue::try_from_array(&a, 0))) {
            let hb = scalar_hash(&b);
            out.ev(format!("hash|{ty}"), "function", tok(&b), hb.to_string(), c);
            if b == *s && hb != h {
                out.eq_hash_violations.push(json!({"ty": ty, "a": tok(s), "b": tok(&b)}));
            }
        }
        for (s2, h2) in &seen {
            if s2 == s && *h2 != h {
                out.eq_hash_violations.push(json!({"ty": ty, "a": tok(s2), "b": tok(s)}));
            }
        }
        seen.push((s.clone(), h));
    }
    // casts: scalar path vs array path
    for (tn, to) in cast_targets() {
        for s in &scalars {
            let a = match guard(|| s.cast_to(&to)) {
                Ok(r) => tok(&r),
                Err(_) => "FAIL".to_string(),
            };
            let b = match guard(|| {
                let arr = s.to_array()?;
                let casted = cast_with_options(&arr, &to, &DEFAULT_CAST_OPTIONS)?;
                ScalarValue::try_from_array(&casted, 0)
            }) {
                Ok(r) => tok(&r),
                Err(_) => "FAIL".to_string(),
            };
            if a != "FAIL" || b != "FAIL" {
                out.bump("casts_succeeding_somewhere");
            }
            out.ev(format!("cast|{ty}->{tn}"), "function", tok(s), a, c);
            out.ev(format!("cast|{ty}->{tn}"), "function", tok(s), b, c);
        }
    }
    // ordering
    if c["order"].as_bool().unwrap_or(false) {
        let n = scalars.len();
        let cmp: Vec<Vec<i64>> = scalars.iter().map(|x| scalars.iter().map(|y| cmp_code(x.partial_cmp(y))).collect()).collect();
        let so = [SortOptions { descending: false, nulls_first: true }];
        let rows: Vec<Vec<i64>> = scalars
            .iter()
            .map(|x| scalars.iter().map(|y| guard(|| compare_rows(std::slice::from_ref(x), std::slice::from_ref(y), &so)).map(|o| cmp_code(Some(o))).unwrap_or(3)).collect())
            .collect();
        // the engine's sort over the array of these scalars, in a seeded shuffled order
        let perm: Vec<usize> = c["perm"].as_array().map(|p| p.iter().map(|x| x.as_u64().unwrap() as usize % n).collect()).unwrap_or((0..n).collect());
        let mut order: Vec<usize> = vec![];
        for p in perm {
            if !order.contains(&p) {
                order.push(p);
            }
        }
        for k in 0..n {
            if !order.contains(&k) {
                order.push(k);
            }
        }
        let arr = ScalarValue::iter_to_array(order.iter().map(|&k| scalars[k].clone())).map_err(es)?;
        let idx = sort_to_indices(&arr, Some(so[0]), None).map_err(es)?;
        let sort: Vec<usize> = idx.values().iter().map(|&k| order[k as usize] + 1).collect();
        out.orders.push(json!({"ty": ty, "case": c["id"], "n": n, "cmp": cmp, "rows": rows, "sort": sort,
            "isnull": scalars.iter().map(|s| s.is_null()).collect::<Vec<_>>(), "values": scalars.iter().map(tok).collect::<Vec<_>>()}));
    }
    Ok(())
}

fn iter_case(c: &Value, out: &mut Out) -> R<()> {
    let ty = c["ty"].as_str().ok_or("ty")?;
    let scalars = all_scalars(ty)?;
    let seq: Vec<ScalarValue> = c["seq"].as_array().ok_or("seq")?.iter().map(|k| scalars[k.as_u64().unwrap() as usize % scalars.len()].clone()).collect();
    match guard(|| ScalarValue::iter_to_array(seq.clone())) {
        Ok(arr) => {
            if arr.len() != seq.len() {
                out.ev(format!("iter_to_array|{ty}"), "identity", tok(&seq[0]), format!("SHAPE len={}", arr.len()), c);
                return Ok(());
            }
            for (i, s) in seq.iter().enumerate() {
                let o = match guard(|| ScalarValue::try_from_array(&arr, i)) {
                    Ok(b) => tok(&b),
                    Err(e) => e,
                };
                out.ev(format!("iter_to_array|{ty}"), "identity", tok(s), o, c);
                out.bump("iter_positions");
            }
        }
        Err(e) => out.ev(format!("iter_to_array|{ty}"), "identity", tok(&seq[0]), e, c),
    }
    Ok(())
}

/// try_from_array over differently laid out arrays of the same logical column (Encodings recipes)
fn tfa_case(c: &Value, out: &mut Out) -> R<()> {
    let ty = c["ty"].as_str().ok_or("ty")?;
    let col: Vec<usize> = c["col"].as_array().ok_or("col")?.iter().map(|v| v.as_u64().unwrap() as usize).collect();
    for variant in ["r1", "r2"] {
        let arr: ArrayRef = build(ty, &col, &recipe(&c[variant]))?;
        let toks = tokens_opt(&arr, false)?;
        for i in 0..arr.len() {
            match guard(|| ScalarValue::try_from_array(&arr, i)) {
                Ok(s) => {
                    out.ev(format!("try_from_array|{ty}"), "function", toks[i].clone(), tok(&s), c);
                    out.bump("tfa_positions");
                    // scalars of encoded types (Dictionary, RunEndEncoded) round trip too
                    if i == 0 {
                        roundtrip(&s, ty, c, out);
                    }
                }
                Err(e) => out.ev(format!("try_from_array|{ty}"), "function", toks[i].clone(), e, c),
            }
        }
    }
    Ok(())
}

pub fn main() {
    if std::env::var("VERIF_PANIC").is_err() {
        std::panic::set_hook(Box::new(|_| {}));
    }
    let cases = read_ndjson(&arg("--in").expect("--in"));
    let mut out = Out { runs: BTreeMap::new(), orders: vec![], eq_hash_violations: vec![], counts: BTreeMap::new() };
    let mut herr = vec![];
    for c in &cases {
        let r = match c["kind"].as_str().unwrap_or("") {
            "pool" => pool_case(c, &mut out),
            "iter" => iter_case(c, &mut out),
            "tfa" => tfa_case(c, &mut out),
            k => Err(format!("unknown kind {k}")),
        };
        if let Err(e) = r {
            herr.push(format!("case {}: {e}", c["id"]));
        }
    }
    let runs: Vec<Value> = out.runs.iter().map(|((f, law), ev)| json!({"f": f, "law": law, "ev": ev})).collect();
    write_ndjson(&arg("--out").expect("--out"), &runs);
    write_ndjson(&arg("--orders").expect("--orders"), &out.orders);
    summary(json!({"runs": runs.len(), "orders": out.orders.len(), "counts": out.counts, "eq_hash_violations": out.eq_hash_violations,
        "harness_errors": herr.iter().take(5).collect::<Vec<_>>(), "harness_error_count": herr.len()}));
}
