//! C22 driver: build the real PruningPredicate for spec-shaped predicates, answer its statistics
//! requests from generated statistics (incl. `contained()`), record every decision and every
//! LiteralGuarantee (decided by TLC, spec/facts/PruneTrace.tla); `--confirm` materialises a TLC witness
//! container, re-checks that the statistics are valid for it and evaluates the predicate on it with
//! the engine's evaluator.
use arrow::array::{Array, ArrayRef, BooleanArray, UInt64Array};
use arrow::datatypes::{DataType, Field, Schema, SchemaRef};
use arrow::record_batch::RecordBatch;
use datafusion_common::pruning::PruningStatistics;
use datafusion_common::{Column, ScalarValue};
use datafusion_expr::Operator;
use datafusion_physical_expr::expressions::{
    in_list, BinaryExpr, CastExpr, Column as PCol, IsNotNullExpr, IsNullExpr, LikeExpr, Literal, NegativeExpr, NotExpr, TryCastExpr,
};
use datafusion_physical_expr::utils::{Guarantee, LiteralGuarantee};
use datafusion_physical_expr::PhysicalExpr;
use datafusion::datasource::listing::PartitionedFile;
use datafusion_common::stats::Precision;
use datafusion_common::pruning::PrunableStatistics;
use datafusion_common::{ColumnStatistics, Statistics};
use datafusion_physical_expr::simplifier::PhysicalExprSimplifier;
use datafusion_physical_plan::metrics::Count;
use datafusion_pruning::{FilePruner, PruningPredicateBuilder};
use serde_json::{json, Map, Value};
use std::collections::HashSet;
use std::panic::{catch_unwind, AssertUnwindSafe};
use std::sync::Arc;
use vcommon::util::*;

type R<T> = Result<T, String>;
pub const POOL: [&str; 8] = ["", "a", "ab", "abc", "ac", "b", "ba", "c"];

fn dtype(t: &str) -> R<DataType> {
    Ok(match t {
        "i" => DataType::Int32,
        "l" => DataType::Int64,
        "s" => DataType::Utf8,
        "v" => DataType::Utf8View,
        "b" => DataType::Boolean,
        _ => return Err(format!("unknown column type {t}")),
    })
}

fn class_of(t: &str) -> &'static str {
    match t {
        "i" | "l" => "i",
        "s" | "v" => "s",
        _ => "b",
    }
}

fn scalar(v: &Value, d: &DataType) -> R<ScalarValue> {
    let k = v["k"].as_str().ok_or("value k")?;
    let n = v["v"].as_i64().unwrap_or(0);
    if k == "n" {
        return ScalarValue::try_from(d).map_err(|e| e.to_string());
    }
    Ok(match (k, d) {
        ("i", DataType::Int32) => ScalarValue::Int32(Some(n as i32)),
        ("i", DataType::Int64) => ScalarValue::Int64(Some(n)),
        ("s", DataType::Utf8) => ScalarValue::Utf8(Some(POOL[(n - 1) as usize].to_string())),
        ("s", DataType::Utf8View) => ScalarValue::Utf8View(Some(POOL[(n - 1) as usize].to_string())),
        ("b", DataType::Boolean) => ScalarValue::Boolean(Some(n != 0)),
        ("i", _) => ScalarValue::Int32(Some(n as i32)),
        ("s", _) => ScalarValue::Utf8(Some(POOL[(n - 1) as usize].to_string())),
        ("b", _) => ScalarValue::Boolean(Some(n != 0)),
        _ => return Err(format!("bad value {v}")),
    })
}

fn value_of(s: &ScalarValue) -> Option<Value> {
    if s.is_null() {
        return Some(json!({"k": "n", "v": 0}));
    }
    match s {
        ScalarValue::Int32(Some(x)) => Some(json!({"k": "i", "v": x})),
        ScalarValue::Int64(Some(x)) => Some(json!({"k": "i", "v": x})),
        ScalarValue::Boolean(Some(x)) => Some(json!({"k": "b", "v": *x as i64})),
        ScalarValue::Utf8(Some(x)) | ScalarValue::Utf8View(Some(x)) | ScalarValue::LargeUtf8(Some(x)) => {
            POOL.iter().position(|p| p == x).map(|i| json!({"k": "s", "v": i + 1}))
        }
        _ => None,
    }
}

struct Cx {
    names: Vec<String>,
    tys: Vec<String>,
    schema: SchemaRef,
}

impl Cx {
    fn new(cols: &[Value]) -> R<Cx> {
        let mut names = vec![];
        let mut tys = vec![];
        let mut f = vec![];
        for c in cols {
            let n = c["name"].as_str().ok_or("col name")?.to_string();
            let t = c["ty"].as_str().ok_or("col ty")?.to_string();
            f.push(Field::new(&n, dtype(&t)?, true));
            names.push(n);
            tys.push(t);
        }
        Ok(Cx { names, tys, schema: Arc::new(Schema::new(f)) })
    }
}

fn binop(f: &str) -> R<Operator> {
    Ok(match f {
        "=" => Operator::Eq,
        "<>" => Operator::NotEq,
        "<" => Operator::Lt,
        "<=" => Operator::LtEq,
        ">" => Operator::Gt,
        ">=" => Operator::GtEq,
        "+" => Operator::Plus,
        "-" => Operator::Minus,
        "*" => Operator::Multiply,
        "and" => Operator::And,
        "or" => Operator::Or,
        "isdistinct" => Operator::IsDistinctFrom,
        "isnotdistinct" => Operator::IsNotDistinctFrom,
        _ => return Err(format!("unknown binary operator {f}")),
    })
}

/// Build the physical expression; `want` types a literal.
fn build(e: &Value, cx: &Cx, want: Option<&DataType>) -> R<(Arc<dyn PhysicalExpr>, DataType)> {
    let op = e["op"].as_str().ok_or("ast op")?;
    Ok(match op {
        "col" => {
            let i = e["i"].as_u64().ok_or("col i")? as usize - 1;
            (Arc::new(PCol::new(&cx.names[i], i)), dtype(&cx.tys[i])?)
        }
        "lit" => {
            let d = match want {
                Some(d) => d.clone(),
                None => match e["v"]["k"].as_str() {
                    Some("s") => DataType::Utf8,
                    Some("b") => DataType::Boolean,
                    _ => DataType::Int32,
                },
            };
            (Arc::new(Literal::new(scalar(&e["v"], &d)?)), d)
        }
        "bin" => {
            let f = e["f"].as_str().ok_or("bin f")?;
            let (l, r) = (&e["l"], &e["r"]);
            let (le, lt, re, rt);
            if l["op"] == "lit" && r["op"] != "lit" {
                (re, rt) = build(r, cx, None)?;
                (le, lt) = build(l, cx, Some(&rt))?;
            } else {
                (le, lt) = build(l, cx, want)?;
                let (re0, rt0) = build(r, cx, Some(&lt))?;
                if rt0 != lt && !matches!(f, "and" | "or") {
                    re = Arc::new(CastExpr::new(re0, lt.clone(), None)) as Arc<dyn PhysicalExpr>;
                    rt = lt.clone();
                } else {
                    (re, rt) = (re0, rt0);
                }
            }
            let _ = rt;
            let o = binop(f)?;
            let out = if matches!(f, "+" | "-" | "*") { lt.clone() } else { DataType::Boolean };
            (Arc::new(BinaryExpr::new(le, o, re)), out)
        }
        "un" => {
            let f = e["f"].as_str().ok_or("un f")?;
            let (x, t) = build(&e["e"], cx, want)?;
            match f {
                "not" => (Arc::new(NotExpr::new(x)), DataType::Boolean),
                "neg" => (Arc::new(NegativeExpr::new(x)), t),
                "isnull" => (Arc::new(IsNullExpr::new(x)), DataType::Boolean),
                "isnotnull" => (Arc::new(IsNotNullExpr::new(x)), DataType::Boolean),
                _ => return Err(format!("unknown unary {f}")),
            }
        }
        "in" => {
            let (x, t) = build(&e["e"], cx, None)?;
            let mut list = vec![];
            for l in e["list"].as_array().ok_or("in list")? {
                let (x, xt) = build(l, cx, Some(&t))?;
                list.push(if xt != t { Arc::new(CastExpr::new(x, t.clone(), None)) as Arc<dyn PhysicalExpr> } else { x });
            }
            let neg = e["neg"].as_bool().unwrap_or(false);
            (in_list(x, list, &neg, &cx.schema).map_err(|e| e.to_string())?, DataType::Boolean)
        }
        "like" => {
            let (x, t) = build(&e["e"], cx, None)?;
            let mut pat = String::new();
            for c in e["pat"].as_array().ok_or("pat")? {
                pat.push(match c.as_i64().unwrap_or(0) {
                    100 => '%',
                    101 => '_',
                    1 => 'a',
                    2 => 'b',
                    3 => 'c',
                    102 => '\\',
                    _ => return Err("bad pattern code".into()),
                });
            }
            let p = if t == DataType::Utf8View { ScalarValue::Utf8View(Some(pat)) } else { ScalarValue::Utf8(Some(pat)) };
            (Arc::new(LikeExpr::new(e["neg"].as_bool().unwrap_or(false), false, x, Arc::new(Literal::new(p)))), DataType::Boolean)
        }
        "cast" => {
            let (x, _) = build(&e["e"], cx, None)?;
            let to = dtype(e["to"].as_str().ok_or("cast to")?)?;
            if e["try"].as_bool().unwrap_or(false) {
                (Arc::new(TryCastExpr::new(x, to.clone())), to)
            } else {
                (Arc::new(CastExpr::new(x, to.clone(), None)), to)
            }
        }
        _ => return Err(format!("unknown ast op {op}")),
    })
}

/// The generated statistics of one prune call (k containers).
struct Stats<'a> {
    cx: &'a Cx,
    containers: &'a [Value],
    absent: &'a Value,
}

impl<'a> Stats<'a> {
    fn col(&self, c: &Column) -> Option<usize> {
        self.cx.names.iter().position(|n| n == c.name())
    }
    fn bound(&self, c: &Column, which: &str) -> Option<ArrayRef> {
        let i = self.col(c)?;
        if self.absent[which][i].as_bool().unwrap_or(false) {
            return None;
        }
        let d = dtype(&self.cx.tys[i]).ok()?;
        let known = format!("{which}K");
        let vals: Vec<ScalarValue> = self
            .containers
            .iter()
            .map(|k| {
                let st = &k["cols"][i];
                if st[&known].as_bool().unwrap_or(false) { scalar(&st[which], &d).unwrap() } else { ScalarValue::try_from(&d).unwrap() }
            })
            .collect();
        ScalarValue::iter_to_array(vals).ok()
    }
}

impl<'a> PruningStatistics for Stats<'a> {
    fn min_values(&self, column: &Column) -> Option<ArrayRef> {
        self.bound(column, "min")
    }
    fn max_values(&self, column: &Column) -> Option<ArrayRef> {
        self.bound(column, "max")
    }
    fn num_containers(&self) -> usize {
        self.containers.len()
    }
    fn null_counts(&self, column: &Column) -> Option<ArrayRef> {
        let i = self.col(column)?;
        if self.absent["nc"][i].as_bool().unwrap_or(false) {
            return None;
        }
        let v: Vec<Option<u64>> = self
            .containers
            .iter()
            .map(|k| {
                let st = &k["cols"][i];
                if st["ncK"].as_bool().unwrap_or(false) { st["nc"].as_u64() } else { None }
            })
            .collect();
        Some(Arc::new(UInt64Array::from(v)))
    }
    fn row_counts(&self) -> Option<ArrayRef> {
        if self.absent["rc"].as_bool().unwrap_or(false) {
            return None;
        }
        let v: Vec<Option<u64>> = self.containers.iter().map(|k| if k["rcK"].as_bool().unwrap_or(false) { k["rc"].as_u64() } else { None }).collect();
        Some(Arc::new(UInt64Array::from(v)))
    }
    fn contained(&self, column: &Column, values: &HashSet<ScalarValue>) -> Option<BooleanArray> {
        let i = self.col(column)?;
        if !self.containers.iter().any(|k| k["cols"][i]["kK"].as_bool().unwrap_or(false)) {
            return None;
        }
        let d = dtype(&self.cx.tys[i]).ok()?;
        // compare through the model's value space (literal types may differ from the column's)
        let vals: HashSet<String> = values.iter().filter_map(value_of).filter(|v| v["k"] != "n").map(|v| v.to_string()).collect();
        let _ = d;
        let out: Vec<Option<bool>> = self
            .containers
            .iter()
            .map(|k| {
                let st = &k["cols"][i];
                if !st["kK"].as_bool().unwrap_or(false) {
                    return None;
                }
                let kset: Vec<String> = st["kset"].as_array().unwrap().iter().map(|v| v.to_string()).collect();
                if kset.iter().all(|x| vals.contains(x)) {
                    Some(true)
                } else if kset.iter().all(|x| !vals.contains(x)) {
                    Some(false)
                } else {
                    None
                }
            })
            .collect();
        Some(BooleanArray::from(out))
    }
}

/// datafusion_common::Statistics of one generated container: known -> Exact, unknown -> Absent or a misleading Inexact value
fn statistics_of(k: &Value, cx: &Cx, inexact: bool) -> R<Statistics> {
    let mut cs = vec![];
    for (i, t) in cx.tys.iter().enumerate() {
        let d = dtype(t)?;
        let st = &k["cols"][i];
        let bound = |w: &str| -> R<Precision<ScalarValue>> {
            let v = scalar(&st[w], &d)?;
            Ok(if st[format!("{w}K")].as_bool().unwrap_or(false) { Precision::Exact(v) } else if inexact { Precision::Inexact(v) } else { Precision::Absent })
        };
        let nc = st["nc"].as_u64().unwrap_or(0) as usize;
        let mut c = ColumnStatistics::new_unknown();
        c.min_value = bound("min")?;
        c.max_value = bound("max")?;
        c.null_count = if st["ncK"].as_bool().unwrap_or(false) { Precision::Exact(nc) } else if inexact { Precision::Inexact(nc) } else { Precision::Absent };
        cs.push(c);
    }
    let rc = k["rc"].as_u64().unwrap_or(0) as usize;
    Ok(Statistics {
        num_rows: if k["rcK"].as_bool().unwrap_or(false) { Precision::Exact(rc) } else if inexact { Precision::Inexact(rc) } else { Precision::Absent },
        total_byte_size: Precision::Absent,
        column_statistics: cs,
    })
}

fn tys_json(cx: &Cx) -> Value {
    Value::Array(cx.tys.iter().map(|t| json!(class_of(t))).collect())
}

fn guarantee_events(c: &Value, cx: &Cx, expr: &Arc<dyn PhysicalExpr>, out: &mut Vec<Value>, skipped: &mut usize) {
    let gs = match catch_unwind(AssertUnwindSafe(|| LiteralGuarantee::analyze(expr))) {
        Ok(g) => g,
        Err(_) => return,
    };
    for (n, g) in gs.iter().enumerate() {
        let Some(ci) = cx.names.iter().position(|x| x == g.column.name()) else {
            *skipped += 1;
            continue;
        };
        let lits: Option<Vec<Value>> = g.literals.iter().map(value_of).collect();
        let Some(mut lits) = lits else {
            *skipped += 1;
            continue;
        };
        lits.sort_by_key(|v| v.to_string());
        out.push(json!({"id": format!("{}g{}", c["id"], n), "cls": "guar", "case": c["id"], "pred": c["pred"], "cols": c["cols"], "tys": tys_json(cx),
            "g": {"col": ci + 1, "kind": if g.guarantee == Guarantee::In { "in" } else { "notin" }, "lits": lits}}));
    }
}

fn record(c: &Value, out: &mut Vec<Value>, counts: &mut Map<String, Value>) -> R<()> {
    let cols = c["cols"].as_array().ok_or("cols")?;
    let cx = Cx::new(cols)?;
    let (expr0, _) = build(&c["pred"], &cx, None)?;
    // optionally the production pre-processing: PhysicalExprSimplifier (unwrap-cast, constant folding, NOT pushdown ...)
    let expr = if c["simplify"].as_bool().unwrap_or(false) {
        match catch_unwind(AssertUnwindSafe(|| PhysicalExprSimplifier::new(&cx.schema).simplify(expr0.clone()))) {
            Ok(Ok(e)) => e,
            _ => expr0.clone(),
        }
    } else {
        expr0.clone()
    };
    let mut bump = |k: &str| {
        let n = counts.get(k).and_then(|v| v.as_u64()).unwrap_or(0);
        counts.insert(k.to_string(), json!(n + 1));
    };
    let mut skipped = 0usize;
    guarantee_events(c, &cx, &expr, out, &mut skipped);
    for _ in 0..skipped {
        bump("guarantees_outside_scope");
    }
    let containers = c["containers"].as_array().ok_or("containers")?;
    let pp = match catch_unwind(AssertUnwindSafe(|| PruningPredicateBuilder::new().with_file_schema(cx.schema.clone()).try_build(expr.clone()))) {
        Ok(Ok(p)) => p,
        Ok(Err(_)) => {
            bump("try_build_err");
            return Ok(());
        }
        Err(_) => {
            bump("try_build_panic");
            return Ok(());
        }
    };
    if pp.always_true() {
        bump("always_true");
    }
    let via = c["via"].as_str().unwrap_or("direct");
    let inexact = c["inexact"].as_bool().unwrap_or(false);
    let stats = Stats { cx: &cx, containers, absent: &c["absent"] };
    let keep = match catch_unwind(AssertUnwindSafe(|| -> datafusion_common::Result<Vec<bool>> {
        match via {
            "prunable" => {
                let sts: Vec<Arc<Statistics>> = containers.iter().map(|k| statistics_of(k, &cx, inexact).map(Arc::new)).collect::<R<Vec<_>>>().map_err(datafusion_common::DataFusionError::Execution)?;
                pp.prune(&PrunableStatistics::new(sts, cx.schema.clone()))
            }
            "file" => {
                // one FilePruner per container (file-level statistics)
                let mut keep = vec![];
                for k in containers {
                    let st = statistics_of(k, &cx, inexact).map_err(datafusion_common::DataFusionError::Execution)?;
                    let mut pf = PartitionedFile::new("f.parquet", 1);
                    pf.statistics = Some(Arc::new(st));
                    keep.push(match FilePruner::try_new(expr.clone(), &cx.schema, &pf, Count::new()) {
                        Some(mut fp) => !fp.should_prune()?,
                        None => true,
                    });
                }
                Ok(keep)
            }
            _ => pp.prune(&stats),
        }
    })) {
        Ok(Ok(k)) => k,
        Ok(Err(_)) => {
            bump("prune_err");
            return Ok(());
        }
        Err(_) => {
            bump("prune_panic");
            return Ok(());
        }
    };
    if keep.len() != containers.len() {
        return Err("prune returned a vector of the wrong length".into());
    }
    for (j, k) in containers.iter().enumerate() {
        let skip = !keep[j];
        if skip {
            bump("skips");
        }
        // a statistic reported absent for the whole call is unknown for every container
        let mut st = k.clone();
        for (i, col) in st["cols"].as_array_mut().unwrap().iter_mut().enumerate() {
            for w in ["min", "max", "nc"] {
                if via == "direct" && c["absent"][w][i].as_bool().unwrap_or(false) {
                    col[format!("{w}K")] = json!(false);
                }
            }
            if via != "direct" {
                col["kK"] = json!(false);
            }
        }
        if via == "direct" && c["absent"]["rc"].as_bool().unwrap_or(false) {
            st["rcK"] = json!(false);
        }
        let rows = st.as_object_mut().unwrap().remove("rows");
        out.push(json!({"id": format!("{}c{}", c["id"], j), "cls": "prune", "case": c["id"], "container": j, "pred": c["pred"], "cols": c["cols"],
            "tys": tys_json(&cx), "stats": st, "skip": skip}));
        if let Some(rows) = rows {
            out.push(json!({"id": format!("{}r{}", c["id"], j), "cls": "b3", "case": c["id"], "container": j, "pred": c["pred"], "cols": c["cols"],
                "tys": tys_json(&cx), "rows": rows, "skip": skip}));
        }
    }
    Ok(())
}

fn batch_of(rows: &[Value], cx: &Cx) -> R<RecordBatch> {
    let mut arrays = vec![];
    for (i, t) in cx.tys.iter().enumerate() {
        let d = dtype(t)?;
        let vals: Vec<ScalarValue> = rows.iter().map(|r| scalar(&r[i], &d)).collect::<R<Vec<_>>>()?;
        arrays.push(ScalarValue::iter_to_array(vals).map_err(|e| e.to_string())?);
    }
    RecordBatch::try_new(cx.schema.clone(), arrays).map_err(|e| e.to_string())
}

fn any_true(expr: &Arc<dyn PhysicalExpr>, batch: &RecordBatch) -> Option<usize> {
    let arr = expr.evaluate(batch).ok()?.into_array(batch.num_rows()).ok()?;
    let b = arr.as_any().downcast_ref::<BooleanArray>()?;
    (0..b.len()).find(|&i| b.is_valid(i) && b.value(i))
}

/// independent re-check that the (weakened) statistics are valid for the witness container
fn stats_valid(st: &Value, rows: &[Value], ncols: usize) -> bool {
    if st["rcK"].as_bool().unwrap_or(false) && st["rc"].as_u64() != Some(rows.len() as u64) {
        return false;
    }
    for i in 0..ncols {
        let s = &st["cols"][i];
        let nn: Vec<&Value> = rows.iter().map(|r| &r[i]).filter(|v| v["k"] != "n").collect();
        if s["ncK"].as_bool().unwrap_or(false) && s["nc"].as_u64() != Some((rows.len() - nn.len()) as u64) {
            return false;
        }
        for v in &nn {
            let x = v["v"].as_i64().unwrap();
            if s["minK"].as_bool().unwrap_or(false) && x < s["min"]["v"].as_i64().unwrap() {
                return false;
            }
            if s["maxK"].as_bool().unwrap_or(false) && x > s["max"]["v"].as_i64().unwrap() {
                return false;
            }
            if s["kK"].as_bool().unwrap_or(false) && !s["kset"].as_array().unwrap().iter().any(|k| k == *v) {
                return false;
            }
        }
    }
    true
}

fn confirm(ev: &Value, cases: &std::collections::HashMap<String, Value>) -> R<Option<String>> {
    let cols = ev["cols"].as_array().ok_or("cols")?;
    let cx = Cx::new(cols)?;
    let (expr, _) = build(&ev["pred"], &cx, None)?;
    let rows: Vec<Value> = ev["wrows"].as_array().ok_or("wrows")?.iter().map(|r| Value::Array(r.as_array().unwrap()[..cx.tys.len()].to_vec())).collect();
    let batch = batch_of(&rows, &cx)?;
    let hit = match any_true(&expr, &batch) {
        Some(h) => h,
        None => return Ok(None),
    };
    match ev["cls"].as_str().unwrap_or("") {
        "guar" => {
            let simplified = cases.get(&ev["case"].to_string()).is_some_and(|c| c["simplify"].as_bool().unwrap_or(false));
            let aexpr = if simplified { PhysicalExprSimplifier::new(&cx.schema).simplify(expr.clone()).unwrap_or(expr.clone()) } else { expr.clone() };
            let gs = LiteralGuarantee::analyze(&aexpr);
            let g = &ev["g"];
            let ci = g["col"].as_u64().unwrap() as usize - 1;
            let x = &rows[hit][ci];
            let member = g["lits"].as_array().unwrap().iter().any(|l| l == x);
            let violated = if g["kind"] == "in" { x["k"] == "n" || !member } else { x["k"] != "n" && member };
            let still = gs.iter().any(|h| {
                h.column.name() == cx.names[ci] && (h.guarantee == Guarantee::In) == (g["kind"] == "in") && {
                    let mut l: Vec<Value> = h.literals.iter().filter_map(value_of).collect();
                    l.sort_by_key(|v| v.to_string());
                    Value::Array(l) == g["lits"]
                }
            });
            Ok((violated && still).then(|| format!("engine evaluates the predicate to TRUE on row {} which violates the guarantee", rows[hit])))
        }
        cls => {
            if cls == "prune" && !stats_valid(&ev["stats"], &rows, cx.tys.len()) {
                return Ok(None);
            }
            // re-run the decision from the original case
            let case = cases.get(&ev["case"].to_string()).ok_or("case not found")?;
            let mut again = vec![];
            let mut counts = Map::new();
            record(case, &mut again, &mut counts)?;
            let same = again.iter().any(|a| a["id"] == ev["id"] && a["skip"] == json!(true));
            Ok(same.then(|| format!("engine evaluates the predicate to TRUE on row {} of a container the statistics admit, yet prune() skipped it", rows[hit])))
        }
    }
}

pub fn main() {
    std::panic::set_hook(Box::new(|_| {}));
    let inp = arg("--in").expect("--in");
    let outp = arg("--out").expect("--out");
    let cases = read_ndjson(&inp);
    let mut out = vec![];
    let mut herr = vec![];
    if has_flag("--confirm") {
        let orig: std::collections::HashMap<String, Value> = read_ndjson(&arg("--cases").expect("--cases")).into_iter().map(|c| (c["id"].to_string(), c)).collect();
        let mut confirmed = 0;
        for ev in &cases {
            let mut m = ev.as_object().unwrap().clone();
            match confirm(ev, &orig) {
                Ok(Some(t)) => {
                    confirmed += 1;
                    m.insert("confirmed".into(), json!(true));
                    m.insert("observed".into(), json!(t));
                }
                Ok(None) => {
                    m.insert("confirmed".into(), json!(false));
                }
                Err(h) => herr.push(format!("{}: {h}", ev["id"])),
            }
            out.push(Value::Object(m));
        }
        write_ndjson(&outp, &out);
        summary(json!({"confirmed": confirmed, "checked": cases.len(), "harness_errors": herr}));
        return;
    }
    let mut counts = Map::new();
    for c in &cases {
        if let Err(h) = record(c, &mut out, &mut counts) {
            herr.push(format!("{}: {h}", c["id"]));
        }
    }
    write_ndjson(&outp, &out);
    summary(json!({"events": out.len(), "cases": cases.len(), "counts": counts, "harness_errors": herr}));
}
