//! C32 driver: every scalar function of the default registry (SessionState::scalar_functions()), for the
//! argument type tuples it accepts without coercion, is invoked on the same logical argument rows in
//! different representations (plain / sliced out of garbage / validity buffer / split batches / one row
//! at a time / a constant as array vs ColumnarValue::Scalar / dictionary-encoded); successful per-row
//! results are recorded as Call events for spec/facts/FuncTrace.tla; result length and declared type are
//! recorded for its identity law.
use crate::c12::{build, es, recipe, tokens_opt, Recipe, R};
use arrow::array::{Array, ArrayRef};
use arrow::datatypes::{DataType, Field, FieldRef, TimeUnit};
use datafusion::prelude::SessionContext;
use datafusion_common::config::ConfigOptions;
use datafusion_common::ScalarValue;
use datafusion_expr::type_coercion::functions::fields_with_udf;
use datafusion_expr::{ColumnarValue, ReturnFieldArgs, ScalarFunctionArgs, ScalarUDF, Volatility};
use serde_json::{json, Value};
use std::collections::{BTreeMap, BTreeSet};
use std::panic::{catch_unwind, AssertUnwindSafe};
use std::sync::Arc;
use vcommon::util::*;

/// functions documented to inspect the physical type / metadata of their arguments, or whose arguments are names
const TYPE_INSPECTING: [&str; 8] = ["arrow_typeof", "arrow_metadata", "arrow_cast", "arrow_try_cast", "arrow_field", "version", "get_field", "named_struct"];

fn pool_name(d: &DataType) -> Option<&'static str> {
    Some(match d {
        DataType::Int8 => "Int8",
        DataType::Int16 => "Int16",
        DataType::Int32 => "Int32",
        DataType::Int64 => "Int64",
        DataType::UInt8 => "UInt8",
        DataType::UInt16 => "UInt16",
        DataType::UInt32 => "UInt32",
        DataType::UInt64 => "UInt64",
        DataType::Float32 => "Float32",
        DataType::Float64 => "Float64",
        DataType::Boolean => "Boolean",
        DataType::Utf8 => "Utf8",
        DataType::LargeUtf8 => "LargeUtf8",
        DataType::Utf8View => "Utf8View",
        DataType::Binary => "Binary",
        DataType::LargeBinary => "LargeBinary",
        DataType::BinaryView => "BinaryView",
        DataType::Date32 => "Date32",
        DataType::Date64 => "Date64",
        DataType::Timestamp(TimeUnit::Nanosecond, None) => "TimestampNs",
        DataType::Timestamp(TimeUnit::Second, None) => "TimestampSecond",
        DataType::Decimal128(10, 2) => "Decimal128",
        DataType::List(f) if f.data_type() == &DataType::Int32 && f.name() == "item" => "List",
        DataType::LargeList(f) if f.data_type() == &DataType::Int32 && f.name() == "item" => "LargeList",
        _ => return None,
    })
}

/// representation class: the property treats the string (binary) encodings as equivalent
fn class(d: &DataType) -> String {
    match d {
        DataType::Utf8 | DataType::LargeUtf8 | DataType::Utf8View => "str".into(),
        DataType::Binary | DataType::LargeBinary | DataType::BinaryView => "bin".into(),
        other => format!("{other}"),
    }
}

fn candidates() -> Vec<DataType> {
    vec![
        DataType::Int64,
        DataType::Int32,
        DataType::UInt8,
        DataType::Float64,
        DataType::Float32,
        DataType::Utf8,
        DataType::Utf8View,
        DataType::LargeUtf8,
        DataType::Boolean,
        DataType::Date32,
        DataType::Timestamp(TimeUnit::Nanosecond, None),
        DataType::Binary,
        DataType::Decimal128(10, 2),
        DataType::List(Arc::new(Field::new("item", DataType::Int32, true))),
    ]
}

fn accepted_as_is(udf: &ScalarUDF, tys: &[DataType]) -> bool {
    let fields: Vec<FieldRef> = tys.iter().map(|t| Arc::new(Field::new("f", t.clone(), true))).collect();
    match catch_unwind(AssertUnwindSafe(|| fields_with_udf(&fields, udf))) {
        Ok(Ok(out)) => out.len() == tys.len() && out.iter().zip(tys).all(|(f, t)| f.data_type() == t),
        _ => false,
    }
}

fn signatures(udf: &ScalarUDF, rot: usize, cap: usize) -> Vec<Vec<DataType>> {
    let mut set: BTreeSet<String> = BTreeSet::new();
    let mut out: Vec<Vec<DataType>> = vec![];
    let mut push = |t: Vec<DataType>, out: &mut Vec<Vec<DataType>>| {
        if !t.is_empty() && t.len() <= 3 && t.iter().all(|d| pool_name(d).is_some()) && set.insert(format!("{t:?}")) {
            out.push(t);
        }
    };
    if let Ok(ex) = catch_unwind(AssertUnwindSafe(|| udf.signature().type_signature.get_example_types())) {
        for t in ex {
            if accepted_as_is(udf, &t) {
                push(t, &mut out);
            }
        }
    }
    let c = candidates();
    for a in &c {
        if accepted_as_is(udf, std::slice::from_ref(a)) {
            push(vec![a.clone()], &mut out);
        }
        for b in &c {
            let t = vec![a.clone(), b.clone()];
            if accepted_as_is(udf, &t) {
                push(t, &mut out);
            }
        }
    }
    for t in [
        vec![DataType::Utf8, DataType::Int64, DataType::Int64],
        vec![DataType::Utf8, DataType::Utf8, DataType::Utf8],
        vec![DataType::Utf8View, DataType::Utf8View, DataType::Utf8View],
        vec![DataType::Int64, DataType::Int64, DataType::Int64],
        vec![DataType::Float64, DataType::Float64, DataType::Float64],
        vec![DataType::Utf8, DataType::Int64, DataType::Utf8],
    ] {
        if accepted_as_is(udf, &t) {
            push(t, &mut out);
        }
    }
    if out.len() > cap {
        let n = out.len();
        out = (0..cap).map(|k| out[(rot + k * (n / cap).max(1)) % n].clone()).collect();
    }
    out
}

/// recipe of a behaviour without value alternates: in C32 -0.0 and +0.0 are different argument values
fn rec(j: &Value) -> Recipe {
    let mut r = recipe(j);
    r.alt = 0;
    r.noalt = true;
    r
}

/// results are compared as values: 0.0 and 0.00 (decimal results whose declared scale depends on a constant argument) are equal
fn numnorm(t: String) -> String {
    let b = t.as_bytes();
    let numeric = !t.is_empty() && t.contains('.') && b.iter().enumerate().all(|(k, c)| c.is_ascii_digit() || *c == b'.' || (k == 0 && *c == b'-'));
    if !numeric || t.matches('.').count() != 1 {
        return t;
    }
    let s = t.trim_end_matches('0').trim_end_matches('.');
    if s.is_empty() || s == "-" { format!("{s}0") } else { s.to_string() }
}

fn plain() -> Recipe {
    recipe(&json!({"off": 0, "tail": 0, "val": false, "g": 1, "alt": 0, "perm": 0, "unused": 0, "dup": false, "nullvia": "key", "runsplit": false, "cut": 0}))
}

enum Arg {
    Arr(ArrayRef),
    Const(ScalarValue),
}

fn invoke(udf: &ScalarUDF, args: &[Arg], rows: usize) -> Result<(Vec<String>, String), String> {
    let r = catch_unwind(AssertUnwindSafe(|| -> datafusion_common::Result<(Vec<String>, String)> {
        let arg_fields: Vec<FieldRef> = args
            .iter()
            .enumerate()
            .map(|(j, a)| {
                Arc::new(Field::new(
                    format!("a{j}"),
                    match a {
                        Arg::Arr(x) => x.data_type().clone(),
                        Arg::Const(s) => s.data_type(),
                    },
                    true,
                ))
            })
            .collect();
        let scalars: Vec<Option<&ScalarValue>> = args.iter().map(|a| if let Arg::Const(s) = a { Some(s) } else { None }).collect();
        let ret = udf.return_field_from_args(ReturnFieldArgs { arg_fields: &arg_fields, scalar_arguments: &scalars })?;
        let cv: Vec<ColumnarValue> = args.iter().map(|a| match a { Arg::Arr(x) => ColumnarValue::Array(x.clone()), Arg::Const(s) => ColumnarValue::Scalar(s.clone()) }).collect();
        let res = udf.invoke_with_args(ScalarFunctionArgs { args: cv, arg_fields, number_rows: rows, return_field: ret.clone(), config_options: Arc::new(ConfigOptions::default()) })?;
        let all_const = !args.is_empty() && args.iter().all(|a| matches!(a, Arg::Const(_)));
        let (arr, len) = match res {
            ColumnarValue::Array(a) if all_const && a.len() == 1 && rows != 1 => (ScalarValue::try_from_array(&a, 0)?.to_array_of_size(rows)?, rows),
            ColumnarValue::Array(a) => {
                let l = a.len();
                (a, l)
            }
            ColumnarValue::Scalar(s) => (s.to_array_of_size(rows)?, rows),
        };
        let shape = format!("len_ok={} type_ok={}", len == rows, arr.data_type() == ret.data_type());
        let toks: Vec<String> = tokens_opt(&arr, false).map_err(|e| datafusion_common::DataFusionError::Execution(e))?.into_iter().map(numnorm).collect();
        Ok((toks, shape))
    }));
    match r {
        Ok(Ok(v)) => Ok(v),
        Ok(Err(e)) => Err(format!("ERR {}", e.to_string().chars().take(80).collect::<String>())),
        Err(_) => Err("PANIC".into()),
    }
}

pub fn main() {
    std::panic::set_hook(Box::new(|_| {}));
    let behaviours = read_ndjson(&arg("--in").expect("--in"));
    let per_fn_sigs: usize = arg("--sigs").and_then(|s| s.parse().ok()).unwrap_or(3);
    let per_sig_beh: usize = arg("--beh").and_then(|s| s.parse().ok()).unwrap_or(1);
    let seed = seed() as usize;
    let state = SessionContext::new().state();
    let mut udfs: BTreeMap<String, Arc<ScalarUDF>> = BTreeMap::new();
    for (_, u) in state.scalar_functions() {
        udfs.insert(u.name().to_string(), u.clone());
    }
    let mut runs: BTreeMap<(String, &'static str), Vec<Value>> = BTreeMap::new();
    let mut excluded: Vec<Value> = vec![];
    let mut no_sig: Vec<String> = vec![];
    let (mut invocations, mut ok_invocations, mut panics) = (0usize, 0usize, 0usize);
    let mut exercised: BTreeSet<String> = BTreeSet::new();
    let mut herr: Vec<String> = vec![];
    for (fi, (name, udf)) in udfs.iter().enumerate() {
        if udf.signature().volatility == Volatility::Volatile {
            excluded.push(json!({"name": name, "why": "volatile"}));
            continue;
        }
        if TYPE_INSPECTING.contains(&name.as_str()) {
            excluded.push(json!({"name": name, "why": "inspects argument types / names"}));
            continue;
        }
        let sigs = signatures(udf, seed + fi, per_fn_sigs);
        if sigs.is_empty() {
            no_sig.push(name.clone());
            continue;
        }
        for (si, tys) in sigs.iter().enumerate() {
            let fkey = format!("{name}|{}", tys.iter().map(class).collect::<Vec<_>>().join(","));
            for bi in 0..per_sig_beh {
                // one behaviour per argument (same length)
                let b0 = &behaviours[(seed * 31 + fi * 7 + si * 3 + bi) % behaviours.len()];
                let n = b0["col"].as_array().unwrap().len();
                let same_len: Vec<&Value> = behaviours.iter().filter(|b| b["col"].as_array().unwrap().len() == n).collect();
                let bs: Vec<&Value> = (0..tys.len()).map(|j| same_len[(seed + fi * 13 + si * 5 + bi * 11 + j * 17) % same_len.len()]).collect();
                let cols: Vec<Vec<usize>> = bs.iter().map(|b| b["col"].as_array().unwrap().iter().map(|v| v.as_u64().unwrap() as usize).collect()).collect();
                let pools: Vec<&str> = tys.iter().map(|t| pool_name(t).unwrap()).collect();
                // logical tokens of the argument rows
                let mut plain_arrays = vec![];
                let mut arg_toks: Vec<Vec<String>> = vec![];
                let mut okb = true;
                for j in 0..tys.len() {
                    match build(pools[j], &cols[j], &plain()).and_then(|a| tokens_opt(&a, false).map(|t| (a, t))) {
                        Ok((a, t)) => {
                            plain_arrays.push(a);
                            arg_toks.push(t);
                        }
                        Err(e) => {
                            herr.push(format!("{name}: build {e}"));
                            okb = false;
                        }
                    }
                }
                if !okb {
                    continue;
                }
                let row_tok = |i: usize| arg_toks.iter().map(|t| t[i].clone()).collect::<Vec<_>>().join("\u{1f}");
                let pending: std::cell::RefCell<Vec<(String, &'static str, Value)>> = std::cell::RefCell::new(vec![]);
                let emit = |rows: &[usize], res: &Result<(Vec<String>, String), String>, variant: &str| {
                    if let Ok((toks, shape)) = res {
                        let mut p = pending.borrow_mut();
                        p.push((format!("shape|{name}"), "identity", json!({"i": "len_ok=true type_ok=true", "o": shape, "sig": fkey, "variant": variant})));
                        if toks.len() == rows.len() {
                            for (k, &i) in rows.iter().enumerate() {
                                p.push((fkey.clone(), "function", json!({"i": row_tok(i), "o": toks[k], "variant": variant, "beh": [fi, si, bi], "row": i})));
                            }
                        }
                    }
                };
                let all: Vec<usize> = (0..n).collect();
                let mut call = |args: Vec<Arg>, rows: usize| {
                    invocations += 1;
                    let r = invoke(udf, &args, rows);
                    match &r {
                        Ok(_) => ok_invocations += 1,
                        Err(e) if e == "PANIC" => panics += 1,
                        _ => {}
                    }
                    r
                };
                // V0 plain
                let r0 = call(plain_arrays.iter().map(|a| Arg::Arr(a.clone())).collect(), n);
                if r0.is_ok() {
                    exercised.insert(name.clone());
                }
                emit(&all, &r0, "plain");
                // V1/V2 recipes, V3 split
                for variant in ["r1", "r2"] {
                    let arrays: R<Vec<ArrayRef>> = (0..tys.len()).map(|j| build(pools[j], &cols[j], &rec(&bs[j][variant]))).collect();
                    match arrays {
                        Ok(arrays) => {
                            let r = call(arrays.iter().map(|a| Arg::Arr(a.clone())).collect(), n);
                            emit(&all, &r, variant);
                            let cut = rec(&bs[0][variant]).cut;
                            if cut > 0 && cut < n {
                                for (lo, hi) in [(0, cut), (cut, n)] {
                                    let r = call(arrays.iter().map(|a| Arg::Arr(a.slice(lo, hi - lo))).collect(), hi - lo);
                                    emit(&(lo..hi).collect::<Vec<_>>(), &r, "split");
                                }
                            }
                        }
                        Err(e) => herr.push(format!("{name}: build {e}")),
                    }
                }
                // V4 each row alone; a batch whose rows all succeed alone must succeed with the same values
                let mut alone_ok = true;
                for i in 0..n {
                    let r = call(plain_arrays.iter().map(|a| Arg::Arr(a.slice(i, 1))).collect(), 1);
                    alone_ok &= r.is_ok();
                    emit(&[i], &r, "row-alone");
                }
                if alone_ok && r0.is_err() {
                    for i in 0..n {
                        pending.borrow_mut().push((fkey.clone(), "function", json!({"i": row_tok(i), "o": format!("BATCH-FAILED {}", r0.as_ref().err().unwrap()), "variant": "batch-of-individually-successful-rows", "beh": [fi, si, bi], "row": i})));
                    }
                }
                // V5 a constant argument: as an array of the constant vs ColumnarValue::Scalar
                for j in 0..tys.len() {
                    let v = cols[j][0];
                    let constcol = vec![v; n];
                    let Ok(carr) = build(pools[j], &constcol, &plain()) else { continue };
                    let Ok(ctoks) = tokens_opt(&carr, false) else { continue };
                    let Ok(sv) = ScalarValue::try_from_array(&carr, 0) else { continue };
                    let tok_c = |i: usize| arg_toks.iter().enumerate().map(|(k, t)| if k == j { ctoks[i].clone() } else { t[i].clone() }).collect::<Vec<_>>().join("\u{1f}");
                    for as_scalar in [false, true] {
                        let args: Vec<Arg> = (0..tys.len())
                            .map(|k| if k == j { if as_scalar { Arg::Const(sv.clone()) } else { Arg::Arr(carr.clone()) } } else { Arg::Arr(plain_arrays[k].clone()) })
                            .collect();
                        if let Ok((toks, shape)) = call(args, n) {
                            pending.borrow_mut().push((format!("shape|{name}"), "identity", json!({"i": "len_ok=true type_ok=true", "o": shape, "sig": fkey, "variant": "const"})));
                            if toks.len() == n {
                                for i in 0..n {
                                    pending.borrow_mut().push((fkey.clone(), "function", json!({"i": tok_c(i), "o": toks[i], "variant": if as_scalar { "scalar-arg" } else { "const-array-arg" }, "beh": [fi, si, bi], "row": i, "arg": j})));
                                }
                            }
                        }
                    }
                }
                // V6 dictionary-encoded argument (accepted by some kernels directly)
                for j in 0..tys.len() {
                    if !matches!(pools[j], "Utf8" | "Int64" | "Int32" | "Float64" | "Utf8View") {
                        continue;
                    }
                    let Ok(darr) = build(&format!("Dict32:{}", pools[j]), &cols[j], &rec(&bs[j]["r2"])) else { continue };
                    // only if the function accepts the dictionary type itself (otherwise the planner would have cast it away)
                    let dtys: Vec<DataType> = (0..tys.len()).map(|k| if k == j { darr.data_type().clone() } else { tys[k].clone() }).collect();
                    if !accepted_as_is(udf, &dtys) {
                        continue;
                    }
                    let args: Vec<Arg> = (0..tys.len()).map(|k| if k == j { Arg::Arr(darr.clone()) } else { Arg::Arr(plain_arrays[k].clone()) }).collect();
                    let r = call(args, n);
                    emit(&all, &r, "dictionary-arg");
                }
                for (f, law, v) in pending.into_inner() {
                    runs.entry((f, law)).or_default().push(v);
                }
            }
        }
    }
    let out: Vec<Value> = runs.iter().map(|((f, law), ev)| json!({"f": f, "law": law, "ev": ev})).collect();
    write_ndjson(&arg("--out").expect("--out"), &out);
    summary(json!({"registry": udfs.len(), "exercised": exercised.len(), "excluded": excluded, "no_supported_signature": no_sig,
        "invocations": invocations, "successful_invocations": ok_invocations, "panics": panics, "runs": out.len(),
        "harness_errors": herr.iter().take(5).collect::<Vec<_>>(), "harness_error_count": herr.len()}));
    let _ = es("");
}
